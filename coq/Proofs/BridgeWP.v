(** THE BRIDGE for the Welford views: the model run at the primitive binary64 instance [FOps] IS the model run at
    the rounded-real instance [B64Ops3] (binary64 rounding of + - * / and of the square root) on the real values
    of the inputs, as long as the f64 run stores no infinity / NaN -- an executable condition ([all_finite_*] of
    SpecBridgeW.v, discharged by [vm_compute] on a concrete stream) -- and the drift theorems of
    WdriftB64.v / WdriftVarB64.v restated about the primitive-float run.

    1. [welford_bridge], [welford_mean_bridge], [welford_var_bridge], [welford_bridge_run] (state), and
       [welford_mean_prim_drift], [welford_m2_prim_drift], [welford_var_prim_drift], [welford_std_prim_drift];
    2. [vst_bridge], [vsct_bridge], [vst_prim_drift], [vsct_prim_drift];
    3. [wr_bridge], [wr_bridge_run], [wr_s_prim_drift], [wr_var_prim_drift];
    4. a concrete 12-value f64 stream satisfying every hypothesis. *)
From Coq Require Import List Arith Lia Reals Lra ZArith Floats Bool.
From SF Require Import Res Scalar View Models Spec Core FloatOps SpecBridge SpecBridgeW SpecRoll SpecWelf.
From SF.Proofs Require Import Window RBase SmaP WinAP RollP WelfP FltErr FltBridge Flt2P Flt2B64 Flt2Prim
  BridgeOps BridgeSim BridgeP WdriftArith WdriftP WdriftB64 WdriftVar WdriftVarB64 FAccBase BridgeWOps BridgeWSim.
From Flocq Require Import Core BinarySingleNaN.
Import ListNotations.
Open Scope R_scope.
Local Set Warnings "-inexact-float".
Local Notation Rsqrt := R_sqrt.sqrt.
Local Notation float := PrimFloat.float.

Lemma nat53_le n : (Z.of_nat n < 2 ^ 53)%Z -> forall j, (j <= n)%nat -> nat53 j.
Proof. intros Hn j Hj. unfold nat53. lia. Qed.

(** * 1. The bridges *)

(** WelfordOnline ([last()] = standard deviation): window below 2^53, f64 state finite along the run *)
Theorem welford_bridge n fs : (Z.of_nat n < 2 ^ 53)%Z -> all_finite_welford ffinite n fs = true ->
  res_map (option_map f2r) (cout (@welford_core float FOps n) fs) = cout (@welford_core R B64Ops3 n) (map f2r fs).
Proof. intros Hn Hc. exact (welford_bridge_gen prim_arith_sim3 n fs (nat53_le n Hn) Hc). Qed.

Theorem welford_mean_bridge n fs : (Z.of_nat n < 2 ^ 53)%Z -> all_finite_welford_mean ffinite n fs = true ->
  res_map (option_map f2r) (cout (@welford_mean_core float FOps n) fs) = cout (@welford_mean_core R B64Ops3 n) (map f2r fs).
Proof. intros Hn Hc. exact (welford_mean_bridge_gen prim_arith_sim3 n fs (nat53_le n Hn) Hc). Qed.

Theorem welford_var_bridge n fs : (Z.of_nat n < 2 ^ 53)%Z -> all_finite_welford_var ffinite n fs = true ->
  res_map (option_map f2r) (cout (@welford_var_core float FOps n) fs) = cout (@welford_var_core R B64Ops3 n) (map f2r fs).
Proof. intros Hn Hc. exact (welford_var_bridge_gen prim_arith_sim3 n fs (nat53_le n Hn) Hc). Qed.

(** the STATE: queue, mean, m2 map through [f2r], the count is the same *)
Theorem welford_bridge_run n fs : (Z.of_nat n < 2 ^ 53)%Z -> all_finite_welford_mean ffinite n fs = true ->
  exists s, crun (@welford_core float FOps n) fs = Ok s /\
            crun (@welford_core R B64Ops3 n) (map f2r fs) = Ok (wo_map f2r s) /\
            wo_sfin ffinite s = true /\ wo_count s = length (wo_q s).
Proof.
  intros Hn Hc. destruct (welford_bridge_run_gen prim_arith_sim3 n fs (nat53_le n Hn) Hc) as [s [E1 [E2 [Hs [Hi _]]]]].
  exists s. auto.
Qed.

Theorem vst_bridge n fs : (Z.of_nat n < 2 ^ 53)%Z -> all_finite_vst ffinite n fs = true ->
  res_map (option_map f2r) (cout (@vst_core float FOps n) fs) = cout (@vst_core R B64Ops3 n) (map f2r fs).
Proof. intros Hn Hc. exact (vst_bridge_gen prim_arith_sim3 n fs (nat53_le n Hn) Hc). Qed.

Theorem vsct_bridge n fs : (Z.of_nat n < 2 ^ 53)%Z -> all_finite_vsct ffinite n fs = true ->
  res_map (option_map f2r) (cout (@vsct_core float FOps n) fs) = cout (@vsct_core R B64Ops3 n) (map f2r fs).
Proof. intros Hn Hc. exact (vsct_bridge_gen prim_arith_sim3 n fs (nat53_le n Hn) Hc). Qed.

(** WelfordRolling ([last()] = sqrt of the variance): streams shorter than 2^53 *)
Theorem wr_bridge fs : (Z.of_nat (length fs) < 2 ^ 53)%Z -> all_finite_wr ffinite fs = true ->
  res_map (option_map f2r) (cout (@wrolling_core float FOps) fs) = cout (@wrolling_core R B64Ops3) (map f2r fs).
Proof.
  intros Hn Hc. apply (wr_bridge_gen prim_arith_sim3 fs); [|exact Hc]. intros j Hj. unfold nat53. lia.
Qed.
Theorem wr_bridge_run fs : (Z.of_nat (length fs) < 2 ^ 53)%Z -> all_finite_wr ffinite fs = true ->
  exists s, crun (@wrolling_core float FOps) fs = Ok s /\
            crun (@wrolling_core R B64Ops3) (map f2r fs) = Ok (wr_map f2r s) /\
            wr_sfin ffinite s = true /\ wr_n s = length fs.
Proof.
  intros Hn Hc. apply (wr_bridge_run_gen prim_arith_sim3 fs); [|exact Hc]. intros j Hj. unfold nat53. lia.
Qed.

(** * 2. The drift theorems, about the primitive-float run *)

(** the steps of these cores use no square root: [B64Ops] and [B64Ops3] run alike *)
Lemma crun_welford_B3 n vs : crun (@welford_core R B64Ops n) vs = crun (@welford_core R B64Ops3 n) vs.
Proof. apply (@crun_build_ext R (@wo_st R)). reflexivity. Qed.
Lemma cout_welford_mean_B3 n vs : cout (@welford_mean_core R B64Ops n) vs = cout (@welford_mean_core R B64Ops3 n) vs.
Proof.
  unfold cout. replace (crun (@welford_mean_core R B64Ops n) vs) with (crun (@welford_mean_core R B64Ops3 n) vs).
  - reflexivity.
  - apply (@crun_build_ext R (@wo_st R)). reflexivity.
Qed.
Lemma cout_welford_var_B3 n vs : cout (@welford_var_core R B64Ops n) vs = cout (@welford_var_core R B64Ops3 n) vs.
Proof.
  unfold cout. replace (crun (@welford_var_core R B64Ops n) vs) with (crun (@welford_var_core R B64Ops3 n) vs).
  - reflexivity.
  - apply (@crun_build_ext R (@wo_st R)). reflexivity.
Qed.
Lemma crun_wrolling_B3 vs : crun (@wrolling_core R B64Ops) vs = crun (@wrolling_core R B64Ops3) vs.
Proof. apply (@crun_build_ext R (@wr_st R)). reflexivity. Qed.

(** from a bridge equation and the checker: the f64 answer exists, is finite and has the value of the rounded-real answer *)
Lemma bridge_out (cA : core float) (cB : core R) sfin fs o :
  res_map (option_map f2r) (cout cA fs) = cout cB (map f2r fs) -> all_finite_run ffinite cA sfin fs = true ->
  cout cB (map f2r fs) = Ok (Some o) -> exists o_f, cout cA fs = Ok (Some o_f) /\ ffinite o_f = true /\ f2r o_f = o.
Proof.
  intros Hbr Hc Ho. destruct (all_finite_run_cout ffinite cA sfin fs Hc) as [s [of [_ [_ [Eo Hof]]]]].
  rewrite Eo, Ho in Hbr. cbn [res_map] in Hbr. inversion Hbr as [Hbr']. destruct of as [o_f|]; [|discriminate].
  cbn [option_map] in Hbr'. inversion Hbr' as [Ev]. cbn [ofin] in Hof. exists o_f. auto.
Qed.

(** WelfordOnline mean at f64: window 2 <= n < 2^53, t < 2^45 updates of magnitude at most M, 48 t 2^-1075 <= M,
    f64 state finite: |f64 mean - exact window mean| <= t (10 u M + 3 eta) *)
Theorem welford_mean_prim_drift n M fs : (2 <= n)%nat -> (Z.of_nat n < 2 ^ 53)%Z ->
  (Z.of_nat (length fs) < 2 ^ 45)%Z -> 0 <= M -> 48 * (INR (length fs) * b64_eta) <= M ->
  Forall (fun x => Rabs (f2r x) <= M) fs -> all_finite_welford_mean ffinite n fs = true ->
  exists m_f m_ex,
    cout (@welford_mean_core float FOps n) fs = Ok (Some m_f) /\ ffinite m_f = true /\
    cout (@welford_mean_core R ROps n) (map f2r fs) = Ok (Some m_ex) /\
    m_ex = @spec_wmean R ROps n (map f2r fs) /\
    Rabs (f2r m_f - m_ex) <= INR (length fs) * (10 * b64_u * M + 3 * b64_eta).
Proof.
  intros Hn Hn53 Ht HM He Hb Hc.
  pose proof (welford_mean_bridge n fs Hn53 Hc) as Hbr.
  destruct (welford_mean_drift_b64 n M (map f2r fs) Hn Hn53 ltac:(rewrite map_length; exact Ht) HM
              ltac:(rewrite map_length; exact He) (f2r_Din M fs Hb)) as [m_fl [m_ex [Ho [Hex [Hsp HE]]]]].
  rewrite cout_welford_mean_B3 in Ho. rewrite map_length in HE.
  destruct (bridge_out _ _ _ fs m_fl Hbr Hc Ho) as [m_f [Eo [Ff Ev]]].
  exists m_f, m_ex. subst m_fl. repeat split; assumption.
Qed.

(** WelfordOnline m2 (the state) at f64: at most linear in the number of updates *)
Theorem welford_m2_prim_drift n M fs : (2 <= n)%nat -> (Z.of_nat n < 2 ^ 53)%Z ->
  (Z.of_nat (length fs) < 2 ^ 45)%Z -> 0 <= M -> 48 * (INR (length fs) * b64_eta) <= M ->
  Forall (fun x => Rabs (f2r x) <= M) fs -> all_finite_welford_mean ffinite n fs = true ->
  exists s_f s_ex,
    crun (@welford_core float FOps n) fs = Ok s_f /\ ffinite (wo_m2 s_f) = true /\
    crun (@welford_core R ROps n) (map f2r fs) = Ok s_ex /\
    wo_m2 s_ex = rsqdev (rmean (lastn n (map f2r fs))) (lastn n (map f2r fs)) /\
    Rabs (f2r (wo_m2 s_f) - wo_m2 s_ex)
    <= INR (length fs) * ((33 * INR n + 80) * (b64_u * (M * M)) + (13 * INR n * M + 3) * b64_eta).
Proof.
  intros Hn Hn53 Ht HM He Hb Hc.
  destruct (welford_bridge_run n fs Hn53 Hc) as [s [E1 [E2 [Hs _]]]].
  destruct (welford_m2_drift_b64 n M (map f2r fs) Hn Hn53 ltac:(rewrite map_length; exact Ht) HM
              ltac:(rewrite map_length; exact He) (f2r_Din M fs Hb)) as [s_fl [s_ex [Hr [Hex [Hsp HE]]]]].
  rewrite crun_welford_B3, E2 in Hr. inversion Hr; subst s_fl. cbn [wo_map wo_m2] in HE. rewrite map_length in HE.
  exists s, s_ex. split; [exact E1|]. split; [exact (proj2 (proj2 (wo_sfin_parts ffinite s Hs)))|].
  split; [exact Hex|]. split; [exact Hsp | exact HE].
Qed.

(** WelfordOnline::variance() at f64, full window *)
Theorem welford_var_prim_drift n M fs : (2 <= n)%nat -> (Z.of_nat n < 2 ^ 53)%Z -> (n <= length fs)%nat ->
  (Z.of_nat (length fs) < 2 ^ 45)%Z -> 0 <= M -> 48 * (INR (length fs) * b64_eta) <= M ->
  Forall (fun x => Rabs (f2r x) <= M) fs -> all_finite_welford_var ffinite n fs = true ->
  exists v_f,
    cout (@welford_var_core float FOps n) fs = Ok (Some v_f) /\ ffinite v_f = true /\
    cout (@welford_var_core R ROps n) (map f2r fs) = Ok (Some (@spec_wvar R ROps n (map f2r fs))) /\
    Rabs (f2r v_f - @spec_wvar R ROps n (map f2r fs))
    <= wo_varE b64_u b64_eta M n (length fs) (@spec_wvar R ROps n (map f2r fs)).
Proof.
  intros Hn Hn53 Hfull Ht HM He Hb Hc.
  pose proof (welford_var_bridge n fs Hn53 Hc) as Hbr.
  destruct (welford_var_drift_b64 n M (map f2r fs) Hn Hn53 ltac:(rewrite map_length; exact Hfull)
              ltac:(rewrite map_length; exact Ht) HM ltac:(rewrite map_length; exact He) (f2r_Din M fs Hb))
    as [v_fl [Ho [Hex HE]]].
  rewrite cout_welford_var_B3 in Ho. rewrite map_length in HE.
  destruct (bridge_out _ _ _ fs v_fl Hbr Hc Ho) as [v_f [Eo [Ff Ev]]].
  exists v_f. subst v_fl. repeat split; assumption.
Qed.

(** WelfordOnline::last() (standard deviation) at f64; V = exact sample variance of the window, E = [wo_varE] *)
Theorem welford_std_prim_drift n M fs : (2 <= n)%nat -> (Z.of_nat n < 2 ^ 53)%Z -> (n <= length fs)%nat ->
  (Z.of_nat (length fs) < 2 ^ 45)%Z -> 0 <= M -> 48 * (INR (length fs) * b64_eta) <= M ->
  Forall (fun x => Rabs (f2r x) <= M) fs ->
  0 < @spec_wvar R ROps n (map f2r fs) ->
  wo_varE b64_u b64_eta M n (length fs) (@spec_wvar R ROps n (map f2r fs)) <= @spec_wvar R ROps n (map f2r fs) / 2 ->
  all_finite_welford ffinite n fs = true ->
  exists sd_f,
    cout (@welford_core float FOps n) fs = Ok (Some sd_f) /\ ffinite sd_f = true /\
    cout (@welford_core R ROps n) (map f2r fs) = Ok (Some (Rsqrt (@spec_wvar R ROps n (map f2r fs)))) /\
    Rabs (f2r sd_f - Rsqrt (@spec_wvar R ROps n (map f2r fs)))
    <= wo_varE b64_u b64_eta M n (length fs) (@spec_wvar R ROps n (map f2r fs)) / Rsqrt (@spec_wvar R ROps n (map f2r fs))
       + 2 * b64_u * Rsqrt (@spec_wvar R ROps n (map f2r fs)).
Proof.
  intros Hn Hn53 Hfull Ht HM He Hb HV HE0 Hc.
  pose proof (welford_bridge n fs Hn53 Hc) as Hbr.
  destruct (welford_std_drift_b64 n M (map f2r fs) Hn Hn53 ltac:(rewrite map_length; exact Hfull)
              ltac:(rewrite map_length; exact Ht) HM ltac:(rewrite map_length; exact He) (f2r_Din M fs Hb) HV
              ltac:(rewrite map_length; exact HE0))
    as [sd_fl [Ho [Hex HE]]].
  rewrite map_length in HE.
  destruct (bridge_out _ _ _ fs sd_fl Hbr Hc Ho) as [sd_f [Eo [Ff Ev]]].
  exists sd_f. subst sd_fl. repeat split; assumption.
Qed.

(** * 3. Vst and Vsct at f64 *)
Lemma last_map_f2r fs : last (map f2r fs) 0 = f2r (last fs PrimFloat.zero).
Proof.
  rewrite <- (proj2 prim_zero_fin). induction fs as [|a [|b fs] IH]; [reflexivity | reflexivity |].
  change (last (map f2r (a :: b :: fs)) (f2r PrimFloat.zero)) with (last (map f2r (b :: fs)) (f2r PrimFloat.zero)).
  rewrite IH. reflexivity.
Qed.

Theorem vst_prim_drift n M fs : (2 <= n)%nat -> (Z.of_nat n < 2 ^ 53)%Z -> (n <= length fs)%nat ->
  (Z.of_nat (length fs) < 2 ^ 45)%Z -> 0 <= M -> 48 * (INR (length fs) * b64_eta) <= M ->
  Forall (fun x => Rabs (f2r x) <= M) fs ->
  0 < @spec_wvar R ROps n (map f2r fs) ->
  wo_varE b64_u b64_eta M n (length fs) (@spec_wvar R ROps n (map f2r fs)) <= @spec_wvar R ROps n (map f2r fs) / 2 ->
  all_finite_vst ffinite n fs = true ->
  exists o_f,
    cout (@vst_core float FOps n) fs = Ok (Some o_f) /\ ffinite o_f = true /\
    cout (@vst_core R ROps n) (map f2r fs)
      = Ok (Some (f2r (last fs PrimFloat.zero) / Rsqrt (@spec_wvar R ROps n (map f2r fs)))) /\
    Rabs (f2r o_f - f2r (last fs PrimFloat.zero) / Rsqrt (@spec_wvar R ROps n (map f2r fs)))
    <= Rabs (f2r (last fs PrimFloat.zero) / Rsqrt (@spec_wvar R ROps n (map f2r fs)))
       * (17 / 8 * (wo_varE b64_u b64_eta M n (length fs) (@spec_wvar R ROps n (map f2r fs))
                    / @spec_wvar R ROps n (map f2r fs)) + 7 * b64_u)
       + b64_eta.
Proof.
  intros Hn Hn53 Hfull Ht HM He Hb HV HE0 Hc.
  pose proof (vst_bridge n fs Hn53 Hc) as Hbr.
  destruct (vst_drift_b64 n M (map f2r fs) Hn Hn53 ltac:(rewrite map_length; exact Hfull)
              ltac:(rewrite map_length; exact Ht) HM ltac:(rewrite map_length; exact He) (f2r_Din M fs Hb) HV
              ltac:(rewrite map_length; exact HE0))
    as [o_fl [Ho [Hex HE]]].
  rewrite map_length in HE. rewrite last_map_f2r in Hex, HE.
  destruct (bridge_out _ _ _ fs o_fl Hbr Hc Ho) as [o_f [Eo [Ff Ev]]].
  exists o_f. subst o_fl. repeat split; assumption.
Qed.

Theorem vsct_prim_drift n M fs : (2 <= n)%nat -> (Z.of_nat n < 2 ^ 53)%Z -> (n <= length fs)%nat ->
  (Z.of_nat (length fs) < 2 ^ 45)%Z -> 0 <= M -> 48 * (INR (length fs) * b64_eta) <= M ->
  Forall (fun x => Rabs (f2r x) <= M) fs ->
  0 < @spec_wvar R ROps n (map f2r fs) ->
  wo_varE b64_u b64_eta M n (length fs) (@spec_wvar R ROps n (map f2r fs)) <= @spec_wvar R ROps n (map f2r fs) / 2 ->
  all_finite_vsct ffinite n fs = true ->
  exists o_f,
    cout (@vsct_core float FOps n) fs = Ok (Some o_f) /\ ffinite o_f = true /\
    cout (@vsct_core R ROps n) (map f2r fs)
      = Ok (Some ((f2r (last fs PrimFloat.zero) - rmean (lastn n (map f2r fs))) / Rsqrt (@spec_wvar R ROps n (map f2r fs)))) /\
    Rabs (f2r o_f - (f2r (last fs PrimFloat.zero) - rmean (lastn n (map f2r fs))) / Rsqrt (@spec_wvar R ROps n (map f2r fs)))
    <= Rabs ((f2r (last fs PrimFloat.zero) - rmean (lastn n (map f2r fs))) / Rsqrt (@spec_wvar R ROps n (map f2r fs)))
       * (17 / 8 * (wo_varE b64_u b64_eta M n (length fs) (@spec_wvar R ROps n (map f2r fs))
                    / @spec_wvar R ROps n (map f2r fs)) + 7 * b64_u)
       + 17 / 8 * ((INR (length fs) * (10 * b64_u * M + 3 * b64_eta) * (1 + b64_u) + 2 * M * b64_u)
                   / Rsqrt (@spec_wvar R ROps n (map f2r fs))) + b64_eta.
Proof.
  intros Hn Hn53 Hfull Ht HM He Hb HV HE0 Hc.
  pose proof (vsct_bridge n fs Hn53 Hc) as Hbr.
  destruct (vsct_drift_b64 n M (map f2r fs) Hn Hn53 ltac:(rewrite map_length; exact Hfull)
              ltac:(rewrite map_length; exact Ht) HM ltac:(rewrite map_length; exact He) (f2r_Din M fs Hb) HV
              ltac:(rewrite map_length; exact HE0))
    as [o_fl [Ho [Hex HE]]].
  rewrite map_length in HE. rewrite last_map_f2r in Hex, HE.
  destruct (bridge_out _ _ _ fs o_fl Hbr Hc Ho) as [o_f [Eo [Ff Ev]]].
  exists o_f. subst o_fl. repeat split; assumption.
Qed.

(** * 4. WelfordRolling second moment at f64 *)

(** the sum of squares [s]: t < 2^50 updates, t 2^-1075 <= M / 8 *)
Theorem wr_s_prim_drift M fs : (Z.of_nat (length fs) < 2 ^ 50)%Z -> 0 <= M ->
  INR (length fs) * b64_eta <= M / 8 ->
  Forall (fun x => Rabs (f2r x) <= M) fs -> all_finite_wr ffinite fs = true ->
  exists s_f s_ex,
    crun (@wrolling_core float FOps) fs = Ok s_f /\ ffinite (wr_s s_f) = true /\
    crun (@wrolling_core R ROps) (map f2r fs) = Ok s_ex /\
    wr_s s_ex = @spec_rdev R ROps (map f2r fs) /\
    Rabs (f2r (wr_s s_f) - wr_s s_ex)
    <= (4 * INR (length fs) + 90) * INR (length fs) * (b64_u * (M * M))
       + (5 * INR (length fs) * M + 2) * INR (length fs) * b64_eta.
Proof.
  intros Ht HM He Hb Hc.
  assert (Ht53 : (Z.of_nat (length fs) < 2 ^ 53)%Z).
  { eapply Z.lt_trans; [exact Ht|]. reflexivity. }
  destruct (wr_bridge_run fs Ht53 Hc) as [s [E1 [E2 [Hs _]]]].
  destruct (wr_s_drift_b64 M (map f2r fs) ltac:(rewrite map_length; exact Ht) HM
              ltac:(rewrite map_length; exact He) (f2r_Din M fs Hb)) as [s_fl [s_ex [Hr [Hex [Hsp HE]]]]].
  rewrite crun_wrolling_B3, E2 in Hr. inversion Hr; subst s_fl. cbn [wr_map wr_s] in HE. rewrite map_length in HE.
  exists s, s_ex. split; [exact E1|]. split.
  { unfold wr_sfin in Hs. apply andb_true_iff in Hs. tauto. }
  split; [exact Hex|]. split; [exact Hsp | exact HE].
Qed.

(** [variance()] of WelfordRolling at f64: linear drift *)
Theorem wr_var_prim_drift M fs : (2 <= length fs)%nat -> (Z.of_nat (length fs) < 2 ^ 50)%Z -> 0 <= M ->
  INR (length fs) * b64_eta <= M / 8 ->
  Forall (fun x => Rabs (f2r x) <= M) fs -> all_finite_wr ffinite fs = true ->
  exists s_f v_f s_ex,
    crun (@wrolling_core float FOps) fs = Ok s_f /\
    @wr_variance float FOps s_f = Ok v_f /\ ffinite v_f = true /\
    crun (@wrolling_core R ROps) (map f2r fs) = Ok s_ex /\
    @wr_variance R ROps s_ex = Ok (@spec_rvar R ROps (map f2r fs)) /\
    Rabs (f2r v_f - @spec_rvar R ROps (map f2r fs))
    <= ((4 * INR (length fs) + 90) * (b64_u * (M * M)) + (5 * INR (length fs) * M + 2) * b64_eta) * (1 + b64_u)
       + b64_u * (M * M) + b64_eta.
Proof.
  intros Hl Ht HM He Hb Hc.
  assert (Ht53 : (Z.of_nat (length fs) < 2 ^ 53)%Z).
  { eapply Z.lt_trans; [exact Ht|]. reflexivity. }
  destruct (wr_bridge_run fs Ht53 Hc) as [s [E1 [E2 [Hs Hn]]]].
  destruct (wr_var_drift_b64 M (map f2r fs) ltac:(rewrite map_length; exact Hl) ltac:(rewrite map_length; exact Ht) HM
              ltac:(rewrite map_length; exact He) (f2r_Din M fs Hb)) as [s_fl [s_ex [v_fl [Hr [Hex [Hv [Hvx HE]]]]]]].
  rewrite crun_wrolling_B3, E2 in Hr. inversion Hr; subst s_fl. rewrite map_length in HE.
  unfold wr_sfin in Hs. apply andb_true_iff in Hs. destruct Hs as [_ Fs].
  destruct (f_ofnat_exact (length fs) Ht53) as [Fn En].
  set (v_f := PrimFloat.div (wr_s s) (f_ofnat (length fs))).
  assert (Ev : @wr_variance float FOps s = Ok v_f).
  { unfold wr_variance. rewrite Hn. destruct (Nat.ltb_spec 1 (length fs)) as [_|H]; [reflexivity | lia]. }
  assert (Fv : ffinite v_f = true).
  { apply prim_div_ge1_fin; [exact Fs | exact Fn|]. rewrite En, Rabs_right by (apply Rle_ge, pos_INR).
    change 1 with (INR 1). apply le_INR. lia. }
  assert (Ev' : @wr_variance R B64Ops3 (wr_map f2r s) = Ok (f2r v_f)).
  { assert (HN : (1 <= length fs)%nat -> nat53 (length fs)) by (intros _; exact Ht53).
    destruct (wr_variance_sim prim_arith_sim3 (length fs) s v_f HN Hn Ev Fv) as [[_ H]|[_ H]]; exact H. }
  change (@wr_variance R B64Ops (wr_map f2r s)) with (@wr_variance R B64Ops3 (wr_map f2r s)) in Hv.
  rewrite Ev' in Hv. inversion Hv; subst v_fl.
  exists s, v_f, s_ex. repeat split; assumption.
Qed.

(** * 5. A concrete stream: every hypothesis above is discharged by computation *)
Definition stream12 : list float :=
  [1.5; -0.25; 0.1; 3; 2.75; -7.125; 100.5; 0.001; 64; -12.5; 2; -3]%float.

Example stream12_bounded : Forall (fun x => Rabs (f2r x) <= 128) stream12.
Proof. rewrite <- f2r_128. apply bounded_by_ok. vm_compute. reflexivity. Qed.

Example w2_all_finite : all_finite_welford ffinite 2 stream12 = true /\ all_finite_welford_mean ffinite 2 stream12 = true
  /\ all_finite_welford_var ffinite 2 stream12 = true /\ all_finite_vst ffinite 2 stream12 = true
  /\ all_finite_vsct ffinite 2 stream12 = true /\ all_finite_wr ffinite stream12 = true.
Proof. vm_compute. repeat split. Qed.

Lemma eta12 : 48 * (INR (length stream12) * b64_eta) <= 128.
Proof. pose proof b64_eta_tiny. replace (INR (length stream12)) with 12 by (cbn; lra). lra. Qed.

Lemma f2r_2 : f2r 2%float = 2.
Proof.
  rewrite f2r_SF. replace (Prim2SF 2%float) with (S754_finite false 4503599627370496 (-51)) by (vm_compute; reflexivity).
  unfold SF2R, F2R. cbn. lra.
Qed.
Lemma f2r_m3 : f2r (-3)%float = -3.
Proof.
  rewrite f2r_SF. replace (Prim2SF (-3)%float) with (S754_finite true 6755399441055744 (-51)) by (vm_compute; reflexivity).
  unfold SF2R, F2R. cbn. lra.
Qed.

(** the exact sample variance of the last two values (2, -3) is 25/2 *)
Lemma stream12_V : @spec_wvar R ROps 2 (map f2r stream12) = 25 / 2.
Proof.
  unfold spec_wvar. change (lastn 2 (map f2r stream12)) with [f2r 2%float; f2r (-3)%float]. rewrite f2r_2, f2r_m3.
  unfold svar. cbn [length Nat.ltb Nat.leb Nat.sub sofnat ROps INR].
  rewrite sdivd_R by lra. rewrite rmean_R, !rsqdev_cons, rsqdev_nil, !ssum_R_cons, ssum_R_nil.
  cbn [length INR]. field.
Qed.
Lemma stream12_E : wo_varE b64_u b64_eta 128 2 (length stream12) (25 / 2) <= 25 / 2 / 2.
Proof.
  unfold wo_varE. replace (INR (length stream12)) with 12 by (cbn; lra). replace (INR 2) with 2 by (cbn; lra).
  pose proof u_eta as H1. pose proof b64_eta_nonneg as H2. rewrite b64_u_val in *. lra.
Qed.

Example w2_bridge_ex :
  res_map (option_map f2r) (cout (@welford_core float FOps 2) stream12)
  = cout (@welford_core R B64Ops3 2) (map f2r stream12).
Proof. apply welford_bridge; [reflexivity | exact (proj1 w2_all_finite)]. Qed.

Example w2_mean_prim_drift_ex : exists m_f m_ex,
  cout (@welford_mean_core float FOps 2) stream12 = Ok (Some m_f) /\ ffinite m_f = true /\
  cout (@welford_mean_core R ROps 2) (map f2r stream12) = Ok (Some m_ex) /\
  m_ex = @spec_wmean R ROps 2 (map f2r stream12) /\
  Rabs (f2r m_f - m_ex) <= INR 12 * (10 * b64_u * 128 + 3 * b64_eta).
Proof.
  apply (welford_mean_prim_drift 2 128 stream12);
    [lia | reflexivity | reflexivity | lra | exact eta12 | exact stream12_bounded | exact (proj1 (proj2 w2_all_finite))].
Qed.

Example w2_m2_prim_drift_ex : exists s_f s_ex,
  crun (@welford_core float FOps 2) stream12 = Ok s_f /\ ffinite (wo_m2 s_f) = true /\
  crun (@welford_core R ROps 2) (map f2r stream12) = Ok s_ex /\
  wo_m2 s_ex = rsqdev (rmean (lastn 2 (map f2r stream12))) (lastn 2 (map f2r stream12)) /\
  Rabs (f2r (wo_m2 s_f) - wo_m2 s_ex)
  <= INR 12 * ((33 * INR 2 + 80) * (b64_u * (128 * 128)) + (13 * INR 2 * 128 + 3) * b64_eta).
Proof.
  apply (welford_m2_prim_drift 2 128 stream12);
    [lia | reflexivity | reflexivity | lra | exact eta12 | exact stream12_bounded | exact (proj1 (proj2 w2_all_finite))].
Qed.

Example w2_var_prim_drift_ex : exists v_f,
  cout (@welford_var_core float FOps 2) stream12 = Ok (Some v_f) /\ ffinite v_f = true /\
  cout (@welford_var_core R ROps 2) (map f2r stream12) = Ok (Some (25 / 2)) /\
  Rabs (f2r v_f - 25 / 2) <= wo_varE b64_u b64_eta 128 2 12 (25 / 2).
Proof.
  rewrite <- stream12_V.
  apply (welford_var_prim_drift 2 128 stream12);
    [lia | reflexivity | cbn; lia | reflexivity | lra | exact eta12 | exact stream12_bounded
     | exact (proj1 (proj2 (proj2 w2_all_finite)))].
Qed.

Example w2_std_prim_drift_ex : exists sd_f,
  cout (@welford_core float FOps 2) stream12 = Ok (Some sd_f) /\ ffinite sd_f = true /\
  cout (@welford_core R ROps 2) (map f2r stream12) = Ok (Some (Rsqrt (25 / 2))) /\
  Rabs (f2r sd_f - Rsqrt (25 / 2)) <= wo_varE b64_u b64_eta 128 2 12 (25 / 2) / Rsqrt (25 / 2) + 2 * b64_u * Rsqrt (25 / 2).
Proof.
  rewrite <- stream12_V.
  apply (welford_std_prim_drift 2 128 stream12);
    [lia | reflexivity | cbn; lia | reflexivity | lra | exact eta12 | exact stream12_bounded | | | exact (proj1 w2_all_finite)].
  - rewrite stream12_V. lra.
  - rewrite stream12_V. exact stream12_E.
Qed.
Example w2_std_run_ex : cout (@welford_core float FOps 2) stream12 = Ok (Some 3.5355339059328021%float).
Proof. vm_compute. reflexivity. Qed.

Example vst2_prim_drift_ex : exists o_f,
  cout (@vst_core float FOps 2) stream12 = Ok (Some o_f) /\ ffinite o_f = true /\
  cout (@vst_core R ROps 2) (map f2r stream12) = Ok (Some (-3 / Rsqrt (25 / 2))) /\
  Rabs (f2r o_f - -3 / Rsqrt (25 / 2))
  <= Rabs (-3 / Rsqrt (25 / 2)) * (17 / 8 * (wo_varE b64_u b64_eta 128 2 12 (25 / 2) / (25 / 2)) + 7 * b64_u) + b64_eta.
Proof.
  rewrite <- stream12_V. rewrite <- f2r_m3. change (-3)%float with (last stream12 PrimFloat.zero).
  apply (vst_prim_drift 2 128 stream12);
    [lia | reflexivity | cbn; lia | reflexivity | lra | exact eta12 | exact stream12_bounded | |
     | exact (proj1 (proj2 (proj2 (proj2 w2_all_finite))))].
  - rewrite stream12_V. lra.
  - rewrite stream12_V. exact stream12_E.
Qed.

Example vsct2_prim_drift_ex : exists o_f,
  cout (@vsct_core float FOps 2) stream12 = Ok (Some o_f) /\ ffinite o_f = true /\
  cout (@vsct_core R ROps 2) (map f2r stream12)
    = Ok (Some ((f2r (last stream12 PrimFloat.zero) - rmean (lastn 2 (map f2r stream12))) / Rsqrt (25 / 2))) /\
  Rabs (f2r o_f - (f2r (last stream12 PrimFloat.zero) - rmean (lastn 2 (map f2r stream12))) / Rsqrt (25 / 2))
  <= Rabs ((f2r (last stream12 PrimFloat.zero) - rmean (lastn 2 (map f2r stream12))) / Rsqrt (25 / 2))
     * (17 / 8 * (wo_varE b64_u b64_eta 128 2 12 (25 / 2) / (25 / 2)) + 7 * b64_u)
     + 17 / 8 * ((INR 12 * (10 * b64_u * 128 + 3 * b64_eta) * (1 + b64_u) + 2 * 128 * b64_u) / Rsqrt (25 / 2)) + b64_eta.
Proof.
  rewrite <- stream12_V.
  apply (vsct_prim_drift 2 128 stream12);
    [lia | reflexivity | cbn; lia | reflexivity | lra | exact eta12 | exact stream12_bounded | |
     | exact (proj1 (proj2 (proj2 (proj2 (proj2 w2_all_finite)))))].
  - rewrite stream12_V. lra.
  - rewrite stream12_V. exact stream12_E.
Qed.

Example wr_bridge_ex :
  res_map (option_map f2r) (cout (@wrolling_core float FOps) stream12) = cout (@wrolling_core R B64Ops3) (map f2r stream12).
Proof. apply wr_bridge; [reflexivity | exact (proj2 (proj2 (proj2 (proj2 (proj2 w2_all_finite)))))]. Qed.

Example wr_var_prim_drift_ex : exists s_f v_f s_ex,
  crun (@wrolling_core float FOps) stream12 = Ok s_f /\
  @wr_variance float FOps s_f = Ok v_f /\ ffinite v_f = true /\
  crun (@wrolling_core R ROps) (map f2r stream12) = Ok s_ex /\
  @wr_variance R ROps s_ex = Ok (@spec_rvar R ROps (map f2r stream12)) /\
  Rabs (f2r v_f - @spec_rvar R ROps (map f2r stream12))
  <= ((4 * INR 12 + 90) * (b64_u * (128 * 128)) + (5 * INR 12 * 128 + 2) * b64_eta) * (1 + b64_u)
     + b64_u * (128 * 128) + b64_eta.
Proof.
  apply (wr_var_prim_drift 128 stream12);
    [cbn; lia | reflexivity | lra | | exact stream12_bounded | exact (proj2 (proj2 (proj2 (proj2 (proj2 w2_all_finite)))))].
  pose proof b64_eta_tiny. replace (INR (length stream12)) with 12 by (cbn; lra). lra.
Qed.

(** the checkers reject what they must: m2 overflows on 1e200 (the MEAN checker of WelfordRolling accepts the same stream,
    BridgeP.[wr_mean_only]); a negative "variance" cannot arise here, but a NaN input is rejected *)
Example w_overflow_rejected :
  all_finite_welford ffinite 2 [1e200; -1e200; 3]%float = false /\ all_finite_wr ffinite [1e200; -1e200; 3]%float = false
  /\ all_finite_vst ffinite 2 [1; nan]%float = false /\ all_finite_welford_mean ffinite 2 [1; infinity]%float = false.
Proof. vm_compute. repeat split. Qed.

(** the checkers are generic in the scalar: at the exact rationals they only say that the run does not err *)
Example w_checkers_at_Q :
  @all_finite_welford_mean QArith_base.Q (fun _ => true) QOps 2 [QArith_base.Qmake 1 2; QArith_base.Qmake 3 1; QArith_base.Qmake 5 7] = true
  /\ @all_finite_welford_var QArith_base.Q (fun _ => true) QOps 2 [QArith_base.Qmake 1 2; QArith_base.Qmake 3 1; QArith_base.Qmake 5 7] = true
  /\ @all_finite_welford_mean QArith_base.Q (fun _ => true) QOps 0 [QArith_base.Qmake 1 2] = false.
Proof. vm_compute. repeat split. Qed.

(** * 6. At f64 the answers [variance()] and [last()] of WelfordOnline are ALWAYS finite on a finite state (queue, mean,
    m2 finite; count = queue length <= n < 2^53): m2 / (count - 1) cannot overflow and the root is taken of a positive
    finite value only.  So the three checkers differ only in form: the bare state check decides. *)
Theorem welford_answers_finite n s : (Z.of_nat n < 2 ^ 53)%Z ->
  wo_count s = length (wo_q s) -> (length (wo_q s) <= n)%nat -> wo_sfin ffinite s = true ->
  (forall var, @wo_variance float FOps s = Ok var -> ffinite var = true) /\
  (forall o, @wo_last float FOps n s = Ok o -> ofin ffinite o = true).
Proof.
  intros Hn Hc Hl Hs. split.
  - intros var E. exact (proj1 (wo_variance_sim prim_arith_sim3 n s var (nat53_le n Hn) (conj Hc Hl) Hs E)).
  - intros o E.
    exact (proj1 (@wo_last_sim float FOps B64Ops3 f2r ffinite nat53 prim_arith_sim3 n s o (nat53_le n Hn) (conj Hc Hl) Hs E)).
Qed.
(** the checkers of [last()] and [variance()] imply the state check (= the checker of [mean()]) *)
Theorem welford_checkers_weaken n fs :
  (all_finite_welford ffinite n fs = true -> all_finite_welford_mean ffinite n fs = true) /\
  (all_finite_welford_var ffinite n fs = true -> all_finite_welford_mean ffinite n fs = true).
Proof. split; [apply welford_chk_to_mean | apply welford_var_chk_to_mean]. Qed.

Print Assumptions welford_bridge.
Print Assumptions welford_mean_bridge.
Print Assumptions welford_var_bridge.
Print Assumptions welford_bridge_run.
Print Assumptions vst_bridge.
Print Assumptions vsct_bridge.
Print Assumptions wr_bridge.
Print Assumptions wr_bridge_run.
Print Assumptions welford_mean_prim_drift.
Print Assumptions welford_m2_prim_drift.
Print Assumptions welford_var_prim_drift.
Print Assumptions welford_std_prim_drift.
Print Assumptions vst_prim_drift.
Print Assumptions vsct_prim_drift.
Print Assumptions wr_s_prim_drift.
Print Assumptions wr_var_prim_drift.
Print Assumptions welford_answers_finite.
