(** The primitive binary64 operations of [FOps] against the rounded real operations of [B64Ops],
    with the side condition on the FLOAT RESULT: if the result of the primitive operation is finite,
    then the operands were finite and the real value of the result is Flocq's round-to-nearest-even of the
    exact result (i.e. the operation of [B64Ops]).  Finiteness of the result is decidable by running the
    float program, which is what makes the bridge hypotheses dischargeable by [vm_compute]. *)
From Coq Require Import ZArith Reals Floats Lra Lia Bool List Uint63.
From Flocq Require Import Core BinarySingleNaN.
From Flocq Require IEEE754.PrimFloat.
From SF Require Import Res Scalar FloatOps.
From SF.Proofs Require Import FltErr FltBridge Flt2P Flt2B64.
Open Scope R_scope.

Module FP := Flocq.IEEE754.PrimFloat.

(** the executable finiteness test of Coq.Floats is Flocq's [is_finite] *)
Lemma pfin_ffinite x : PrimFloat.is_finite x = ffinite x.
Proof. unfold ffinite. apply FP.is_finite_equiv. Qed.

Lemma overflow_not_finite (z : binary_float prec emax) s :
  B2SF z = binary_overflow prec emax mode_NE s -> is_finite z = false.
Proof. intros H. rewrite <- is_finite_SF_B2SF, H. reflexivity. Qed.

(** * + - * : a finite result forces finite operands and is the rounding of the exact result *)
Theorem prim_add_fin x y : ffinite (PrimFloat.add x y) = true ->
  ffinite x = true /\ ffinite y = true /\ f2r (PrimFloat.add x y) = b64_add (f2r x) (f2r y).
Proof.
  unfold ffinite, f2r. rewrite FP.add_equiv. intros H.
  assert (Hxy : is_finite (FP.Prim2B x) = true /\ is_finite (FP.Prim2B y) = true).
  { revert H. destruct (FP.Prim2B x) as [sx|sx| |sx mx ex Bx]; destruct (FP.Prim2B y) as [sy|sy| |sy my ey By];
      intros H; try (split; reflexivity); exfalso; revert H; unfold Bplus;
      try discriminate; destruct sx, sy; discriminate. }
  destruct Hxy as [Hx Hy]. split; [exact Hx|]. split; [exact Hy|].
  generalize (Bplus_correct prec emax FP.Hprec FP.Hmax mode_NE _ _ Hx Hy).
  case Rlt_bool_spec; intros Hov.
  - intros [E _]. exact E.
  - intros [E _]. apply overflow_not_finite in E. congruence.
Qed.

Theorem prim_sub_fin x y : ffinite (PrimFloat.sub x y) = true ->
  ffinite x = true /\ ffinite y = true /\ f2r (PrimFloat.sub x y) = b64_sub (f2r x) (f2r y).
Proof.
  unfold ffinite, f2r. rewrite FP.sub_equiv. intros H.
  assert (Hxy : is_finite (FP.Prim2B x) = true /\ is_finite (FP.Prim2B y) = true).
  { revert H. destruct (FP.Prim2B x) as [sx|sx| |sx mx ex Bx]; destruct (FP.Prim2B y) as [sy|sy| |sy my ey By];
      intros H; try (split; reflexivity); exfalso; revert H; unfold Bminus;
      try discriminate; destruct sx, sy; discriminate. }
  destruct Hxy as [Hx Hy]. split; [exact Hx|]. split; [exact Hy|].
  generalize (Bminus_correct prec emax FP.Hprec FP.Hmax mode_NE _ _ Hx Hy).
  case Rlt_bool_spec; intros Hov.
  - intros [E _]. exact E.
  - intros [E _]. apply overflow_not_finite in E. congruence.
Qed.

Theorem prim_mul_fin x y : ffinite (PrimFloat.mul x y) = true ->
  ffinite x = true /\ ffinite y = true /\ f2r (PrimFloat.mul x y) = b64_mul (f2r x) (f2r y).
Proof.
  unfold ffinite, f2r. rewrite FP.mul_equiv. intros H.
  generalize (Bmult_correct prec emax FP.Hprec FP.Hmax mode_NE (FP.Prim2B x) (FP.Prim2B y)).
  case Rlt_bool_spec; intros Hov.
  - intros [E [Hf _]]. rewrite H in Hf. symmetry in Hf. apply andb_true_iff in Hf.
    destruct Hf as [Hx Hy]. split; [exact Hx|]. split; [exact Hy | exact E].
  - intros E. apply overflow_not_finite in E. congruence.
Qed.

(** division: the divisor must be FINITE (x / inf = 0 is finite in IEEE, while the real value of inf is 0
    and [B64Ops] answers [Err NonFinite] on a zero divisor); then a finite quotient forces a non-zero
    divisor and a finite dividend *)
Theorem prim_div_fin x y : ffinite y = true -> ffinite (PrimFloat.div x y) = true ->
  ffinite x = true /\ f2r y <> 0 /\ f2r (PrimFloat.div x y) = b64_div (f2r x) (f2r y).
Proof.
  unfold ffinite, f2r. rewrite FP.div_equiv. intros Hy H.
  assert (Hy0 : B2R (FP.Prim2B y) <> 0).
  { revert Hy H. destruct (FP.Prim2B y) as [sy|sy| |sy my ey By]; intros Hy H; try discriminate.
    - exfalso. revert H. destruct (FP.Prim2B x) as [sx|sx| |sx mx ex Bx]; unfold Bdiv; discriminate.
    - cbn [B2R]. apply F2R_neq_0. cbn. destruct sy; discriminate. }
  generalize (Bdiv_correct prec emax FP.Hprec FP.Hmax mode_NE (FP.Prim2B x) (FP.Prim2B y) Hy0).
  case Rlt_bool_spec; intros Hov.
  - intros [E [Hf _]]. rewrite H in Hf. split; [symmetry; exact Hf|]. split; [exact Hy0 | exact E].
  - intros E. apply overflow_not_finite in E. congruence.
Qed.

(** negation and absolute value are exact and preserve finiteness *)
Theorem prim_opp_fin x : ffinite (PrimFloat.opp x) = ffinite x /\ f2r (PrimFloat.opp x) = - f2r x.
Proof. unfold ffinite, f2r. rewrite FP.opp_equiv. split; [apply is_finite_Bopp | apply B2R_Bopp]. Qed.
Theorem prim_abs_fin x : ffinite (PrimFloat.abs x) = ffinite x /\ f2r (PrimFloat.abs x) = Rabs (f2r x).
Proof. unfold ffinite, f2r. rewrite FP.abs_equiv. split; [apply is_finite_Babs | apply B2R_Babs]. Qed.

(** * Constants *)
Lemma f2r_SF x : f2r x = SF2R radix2 (Prim2SF x).
Proof. unfold f2r. rewrite <- FP.B2SF_Prim2B. destruct (FP.Prim2B x); reflexivity. Qed.

Lemma prim_zero_fin : ffinite PrimFloat.zero = true /\ f2r PrimFloat.zero = 0.
Proof. split; [rewrite <- pfin_ffinite; reflexivity|]. rewrite f2r_SF. reflexivity. Qed.
Lemma prim_one_fin : ffinite PrimFloat.one = true /\ f2r PrimFloat.one = 1.
Proof.
  split; [rewrite <- pfin_ffinite; reflexivity|]. rewrite f2r_SF.
  replace (Prim2SF PrimFloat.one) with (S754_finite false 4503599627370496 (-52)) by (vm_compute; reflexivity).
  unfold SF2R, F2R. cbn. lra.
Qed.
Lemma prim_two_fin : ffinite (f_ofdec 2 0) = true /\ f2r (f_ofdec 2 0) = 2.
Proof.
  split; [rewrite <- pfin_ffinite; reflexivity|]. rewrite f2r_SF.
  replace (Prim2SF (f_ofdec 2 0)) with (S754_finite false 4503599627370496 (-51)) by (vm_compute; reflexivity).
  unfold SF2R, F2R. cbn. lra.
Qed.
Lemma bpow53_lt_emax : IZR (2 ^ 53) < bpow radix2 emax.
Proof. change (IZR (2 ^ 53)) with (bpow radix2 53). apply bpow_lt. reflexivity. Qed.

Lemma of_uint63_exact p : (Zpos p < 2 ^ 53)%Z ->
  ffinite (PrimFloat.of_uint63 (Uint63.of_Z (Zpos p))) = true /\
  f2r (PrimFloat.of_uint63 (Uint63.of_Z (Zpos p))) = IZR (Zpos p).
Proof.
  intros Hp. unfold ffinite, f2r. rewrite FP.of_int63_equiv.
  assert (Ez : Uint63.to_Z (Uint63.of_Z (Zpos p)) = Zpos p).
  { rewrite Uint63.of_Z_spec. apply Z.mod_small. split; [lia|].
    eapply Z.lt_trans; [exact Hp|]. reflexivity. }
  rewrite Ez.
  generalize (binary_normalize_correct prec emax FP.Hprec FP.Hmax mode_NE (Zpos p) 0 false).
  cbv zeta.
  assert (EF : F2R (Float radix2 (Zpos p) 0) = IZR (Zpos p)) by (unfold F2R; cbn; lra).
  rewrite EF.
  assert (Er : round radix2 (fexp prec emax) (round_mode mode_NE) (IZR (Zpos p)) = IZR (Zpos p)).
  { apply round_generic; [apply valid_rnd_N|]. apply (b64_format_IZR (Zpos p)). cbn [Z.abs]. exact Hp. }
  rewrite Er, Rlt_bool_true.
  - intros [E [Hf _]]. split; [exact Hf | exact E].
  - rewrite Rabs_right by (apply Rle_ge, IZR_le; lia).
    eapply Rlt_trans; [apply IZR_lt; exact Hp | exact bpow53_lt_emax].
Qed.

(** [f_of_Z z] is exact for |z| < 2^53 *)
Lemma f_of_Z_exact z : (Z.abs z < 2 ^ 53)%Z -> ffinite (f_of_Z z) = true /\ f2r (f_of_Z z) = IZR z.
Proof.
  intros Hz. destruct z as [|p|p]; cbn [f_of_Z].
  - exact prim_zero_fin.
  - apply of_uint63_exact. exact Hz.
  - destruct (of_uint63_exact p Hz) as [Hf E].
    destruct (prim_opp_fin (PrimFloat.of_uint63 (Uint63.of_Z (Zpos p)))) as [Hf' E'].
    rewrite Hf', E', E, Hf. split; [reflexivity|]. rewrite <- opp_IZR. reflexivity.
Qed.

(** [T::from(usize)] at f64 is the exact natural number, for n < 2^53 *)
Lemma f_ofnat_exact n : (Z.of_nat n < 2 ^ 53)%Z -> ffinite (f_ofnat n) = true /\ f2r (f_ofnat n) = INR n.
Proof.
  intros Hn. unfold f_ofnat. rewrite INR_IZR_INZ. apply f_of_Z_exact. lia.
Qed.

(** a decimal literal m / 10^k at f64: the correctly rounded quotient -- NOT the exact real that [B64Ops]
    (= [FlOps2], [sofdec m k := IZR m / IZR (10^k)]) uses, unless m / 10^k is a binary64 number *)
Lemma f_ofdec_rounded m k : (Z.abs m < 2 ^ 53)%Z -> (k <= 15)%nat -> ffinite (f_ofdec m k) = true ->
  f2r (f_ofdec m k) = b64_round (IZR m / IZR (10 ^ Z.of_nat k)).
Proof.
  intros Hm Hk Hf. unfold f_ofdec in *.
  assert (H10 : (Z.abs (10 ^ Z.of_nat k) < 2 ^ 53)%Z).
  { rewrite Z.abs_eq by (apply Z.pow_nonneg; lia).
    eapply Z.le_lt_trans; [apply (Z.pow_le_mono_r 10 (Z.of_nat k) 15); lia | reflexivity]. }
  destruct (f_of_Z_exact m Hm) as [Fm Em]. destruct (f_of_Z_exact _ H10) as [Fd Ed].
  destruct (prim_div_fin _ _ Fd Hf) as [_ [_ E]]. rewrite E, Em, Ed. reflexivity.
Qed.
Corollary f_ofdec_exact m k : (Z.abs m < 2 ^ 53)%Z -> (k <= 15)%nat -> ffinite (f_ofdec m k) = true ->
  b64_format (IZR m / IZR (10 ^ Z.of_nat k)) ->
  f2r (f_ofdec m k) = @sofdec R B64Ops m k.
Proof.
  intros Hm Hk Hf HF. rewrite (f_ofdec_rounded m k Hm Hk Hf). cbn [sofdec B64Ops FlOps2].
  apply round_generic; [apply valid_rnd_N | exact HF].
Qed.

Print Assumptions prim_add_fin.
Print Assumptions prim_div_fin.
Print Assumptions f_ofnat_exact.
Print Assumptions f_ofdec_rounded.
