(** C12, floating-point half, more scale-free views: Drawdown, LnReturn, BinaryEntropy, LaguerreRSI,
    TrendFlex, ReFlex.  Same setting as Pow2Free.v. *)
From Coq Require Import List Arith Lia Reals Lra ZArith Bool.
From SF Require Import Res Scalar View Models Core.
From SF.Proofs Require Import Pow2Base.
Import ListNotations.
Open Scope R_scope.

Section Views.
Variable rnd : R -> R.
Variable cnat : nat -> R.
Variable cdec : Z -> nat -> R.
Variable sc : R.
Hypothesis rnd_sc : forall x, rnd (sc * x) = sc * rnd x.
Hypothesis sc_pos : 0 < sc.

Notation PO := (RndOps rnd cnat cdec).
Notation scl := (scl sc).
Notation sco := (sco sc).

Ltac sc_rw := sc_rw_with rnd sc rnd_sc sc_pos.
Ltac crush := crush_with rnd sc rnd_sc sc_pos.

(** ** Drawdown *)
Definition dd_f (st : @dd_st R) : @dd_st R :=
  {| dd_max := dd_max st; dd_peak := sco (dd_peak st); dd_min := sc * dd_min st |}.

Lemma dd_step_sc st v : @dd_step R PO (dd_f st) (sc * v) = rmap dd_f (@dd_step R PO st v).
Proof.
  destruct st as [mx [pk|] mn]; unfold dd_step, dd_f; cbn [dd_max dd_peak dd_min]; crush.
Qed.

(** Drawdown is bit-identical on the scaled history *)
Theorem drawdown_scale_free vs :
  cout (@drawdown_core R PO) (map (Rmult sc) vs) = cout (@drawdown_core R PO) vs.
Proof.
  rewrite <- (rmap_id (cout (@drawdown_core R PO) vs)).
  apply (cout_sim (@drawdown_core R PO) sc dd_f (fun o => o)).
  - cbn. unfold dd_f. cbn [dd_max dd_peak dd_min Pow2Base.sco option_map]. rewrite sc_0. reflexivity.
  - apply dd_step_sc.
  - intros st. reflexivity.
Qed.

(** ** LnReturn *)
Definition pr_f (st : R * R) : R * R := (sc * fst st, sc * snd st).

(** LnReturn is bit-identical on the scaled history *)
Theorem lnret_scale_free vs :
  cout (@lnret_core R PO) (map (Rmult sc) vs) = cout (@lnret_core R PO) vs.
Proof.
  rewrite <- (rmap_id (cout (@lnret_core R PO) vs)).
  apply (cout_sim (@lnret_core R PO) sc pr_f (fun o => o)).
  - cbn. unfold pr_f. cbn [fst snd]. rewrite sc_0. reflexivity.
  - intros [a b] v. reflexivity.
  - intros [a b]. cbn [clast lnret_core pr_f fst snd]. crush.
Qed.

(** ** BinaryEntropy *)
Definition be_f (st : @be_st R) : @be_st R := {| be_q := scl (be_q st); be_p := be_p st |}.

Lemma be_step_sc n st v : @be_step R PO n (be_f st) (sc * v) = rmap be_f (@be_step R PO n st v).
Proof.
  destruct st as [q p]; unfold be_step, be_f; cbn [be_q be_p]; crush.
Qed.

(** BinaryEntropy is bit-identical on the scaled history *)
Theorem entropy_scale_free n vs :
  cout (@entropy_core R PO n) (map (Rmult sc) vs) = cout (@entropy_core R PO n) vs.
Proof.
  rewrite <- (rmap_id (cout (@entropy_core R PO n) vs)).
  apply (cout_sim (@entropy_core R PO n) sc be_f (fun o => o)).
  - reflexivity.
  - apply be_step_sc.
  - intros [q p]. cbn [clast entropy_core]. unfold be_last, be_f. cbn [be_q be_p]. rewrite scl_length, rmap_id.
    destruct q; reflexivity.
Qed.

(** ** LaguerreRSI *)
Definition quad_sc (l : R * R * R * R) : R * R * R * R :=
  let '(a, b, c, d) := l in (sc * a, sc * b, sc * c, sc * d).
Definition pair_sc2 (p : R * R) : R * R := (sc * fst p, sc * snd p).

Lemma lag_ladder_sc g p v : @lag_ladder R PO g (quad_sc p) (sc * v) = quad_sc (@lag_ladder R PO g p v).
Proof. destruct p as [[[a b] c] d]. unfold lag_ladder, quad_sc. crush. Qed.

Lemma lrsi_ratio_sc l : @lrsi_ratio R PO (quad_sc l) = pair_sc2 (@lrsi_ratio R PO l).
Proof. destruct l as [[[a b] c] d]. unfold lrsi_ratio, quad_sc, pair_sc2. crush. Qed.

Definition lrsi_f (st : R * @lrsi_st R) : R * @lrsi_st R :=
  (fst st, {| lr_len := lr_len (snd st); lr_prev := quad_sc (lr_prev (snd st)); lr_value := lr_value (snd st) |}).

Lemma lrsi_step_sc n st v :
  cstep (@lrsi_core R PO n) (lrsi_f st) (sc * v) = rmap lrsi_f (cstep (@lrsi_core R PO n) st v).
Proof.
  destruct st as [g [len prev val]]. cbn [cstep lrsi_core lrsi_f fst snd lr_len lr_prev lr_value].
  unfold lrsi_step. cbn [lr_len lr_prev lr_value].
  destruct (Nat.ltb (if Nat.leb 3 len then len - 1 else len) 2).
  - cbn [bind rmap lrsi_f fst snd lr_len lr_prev lr_value quad_sc]. opsimp. unfold lrsi_f. cbn [fst snd lr_len lr_prev lr_value quad_sc]. rewrite !sc_0. reflexivity.
  - rewrite lag_ladder_sc, lrsi_ratio_sc. destruct (@lrsi_ratio R PO (@lag_ladder R PO g prev v)) as [cu cd].
    unfold pair_sc2. cbn [fst snd]. crush.
Qed.

(** LaguerreRSI is bit-identical on the scaled history *)
Theorem lrsi_scale_free n vs :
  cout (@lrsi_core R PO n) (map (Rmult sc) vs) = cout (@lrsi_core R PO n) vs.
Proof.
  rewrite <- (rmap_id (cout (@lrsi_core R PO n) vs)).
  apply (cout_sim (@lrsi_core R PO n) sc lrsi_f (fun o => o)).
  - cbn [cnew lrsi_core]. destruct (@sdiv R PO _ _); cbn [bind rmap]; [|reflexivity].
    unfold lrsi_f. cbn [fst snd lr_len lr_prev lr_value quad_sc]. opsimp. rewrite !sc_0. reflexivity.
  - apply lrsi_step_sc.
  - intros st. reflexivity.
Qed.

(** ** TrendFlex / ReFlex: the filter values scale by sc, the mean square [fx_lastm] by sc^2, the output
    d / fl(sqrt ms) is unchanged *)

Lemma flex_filt_sc c1 b1 c3 q v lv :
  @flex_filt R PO c1 b1 c3 (scl q) (sc * v) (sc * lv) = rmap (Rmult sc) (@flex_filt R PO c1 b1 c3 q v lv).
Proof.
  unfold flex_filt. rewrite (scl_rev sc). destruct (rev q) as [|f1 [|f2 r]]; cbn [Pow2Base.scl map]; crush.
Qed.

Lemma flex_dsum_sc filt l : forall acc,
  fold_left (fun acc f : R => @sadd R PO acc (@ssub R PO (sc * filt) f)) (scl l) (sc * acc)
  = sc * fold_left (fun acc f : R => @sadd R PO acc (@ssub R PO filt f)) l acc.
Proof.
  induction l as [|y l IH]; intros acc; [reflexivity|].
  cbn [Pow2Base.scl map fold_left]. fold (scl l). opsimp. sc_rw. apply IH.
Qed.

Lemma reflex_sum_sc filt slope rq : forall i acc,
  @reflex_sum R PO (scl rq) i (sc * filt) (sc * slope) (sc * acc) = sc * @reflex_sum R PO rq i filt slope acc.
Proof.
  induction rq as [|y rq IH]; intros i acc; [reflexivity|].
  cbn [Pow2Base.scl map reflex_sum]. fold (scl rq). opsimp. sc_rw. apply IH.
Qed.

Definition flex_f (st : @flex_st R) : @flex_st R :=
  {| fx_lastval := sc * fx_lastval st; fx_lastm := sc * (sc * fx_lastm st); fx_q := scl (fx_q st);
     fx_out := fx_out st |}.

Lemma flex_norm_sc st q v d b :
  @flex_norm R PO (flex_f st) (scl q) (sc * v) (sc * d) b = rmap flex_f (@flex_norm R PO st q v d b).
Proof.
  destruct st as [lv lm q0 o]. unfold flex_norm, flex_f, ssq. cbn [fx_lastval fx_lastm fx_q fx_out]. crush.
Qed.

Lemma lastval_sc (q : list R) v lv :
  match q with [] => sc * v | _ :: _ => sc * lv end = sc * match q with [] => v | _ :: _ => lv end.
Proof. destruct q; reflexivity. Qed.

Lemma trendflex_step_sc n st v :
  @trendflex_step R PO n (flex_f st) (sc * v) = rmap flex_f (@trendflex_step R PO n st v).
Proof.
  unfold trendflex_step. destruct (@flex_coefs R PO n) as [[[c1 b1] c3]|e]; cbn [bind rmap]; [|reflexivity].
  cbn [flex_f fx_lastval fx_q]. rewrite scl_match_nil, lastval_sc, scl_evict, flex_filt_sc.
  destruct (@flex_filt R PO c1 b1 c3 _ v _) as [filt|e]; cbn [bind rmap]; [|reflexivity].
  rewrite (scl_single sc), <- scl_app, scl_rev.
  change (@s0 R PO) with 0. rewrite <- (sc_0 sc) at 1. rewrite flex_dsum_sc.
  opsimp. sc_rw. destruct (Reqb (cnat n) 0); cbn [bind rmap]; [reflexivity|]. apply flex_norm_sc.
Qed.

Lemma reflex_step_sc n st v :
  @reflex_step R PO n (flex_f st) (sc * v) = rmap flex_f (@reflex_step R PO n st v).
Proof.
  unfold reflex_step. destruct (@flex_coefs R PO n) as [[[c1 b1] c3]|e]; cbn [bind rmap]; [|reflexivity].
  cbn [flex_f fx_lastval fx_q]. rewrite scl_match_nil, lastval_sc, scl_evict, flex_filt_sc.
  destruct (@flex_filt R PO c1 b1 c3 _ v _) as [filt|e]; cbn [bind rmap]; [|reflexivity].
  rewrite (scl_single sc), <- scl_app, scl_front.
  destruct (front (evict n (fx_q st) ++ [filt])) as [fr|e]; cbn [bind rmap]; [|reflexivity].
  opsimp. sc_rw. destruct (Reqb (cnat n) 0) eqn:En; cbn [bind rmap]; [reflexivity|].
  rewrite (scl_rev sc). rewrite <- (sc_0 sc) at 1. rewrite reflex_sum_sc. sc_rw.
  apply flex_norm_sc.
Qed.

Lemma flex_new_sc : flex_f (@flex_new R PO) = @flex_new R PO.
Proof. unfold flex_f, flex_new. cbn [fx_lastval fx_lastm fx_q fx_out]. opsimp. rewrite !sc_0. reflexivity. Qed.

(** TrendFlex, ReFlex are bit-identical on the scaled history *)
Theorem trendflex_scale_free n vs :
  cout (@trendflex_core R PO n) (map (Rmult sc) vs) = cout (@trendflex_core R PO n) vs.
Proof.
  rewrite <- (rmap_id (cout (@trendflex_core R PO n) vs)).
  apply (cout_sim (@trendflex_core R PO n) sc flex_f (fun o => o)).
  - cbn [cnew trendflex_core rmap]. rewrite flex_new_sc. reflexivity.
  - apply trendflex_step_sc.
  - intros st. reflexivity.
Qed.
Theorem reflex_scale_free n vs :
  cout (@reflex_core R PO n) (map (Rmult sc) vs) = cout (@reflex_core R PO n) vs.
Proof.
  rewrite <- (rmap_id (cout (@reflex_core R PO n) vs)).
  apply (cout_sim (@reflex_core R PO n) sc flex_f (fun o => o)).
  - cbn [cnew reflex_core rmap]. rewrite flex_new_sc. reflexivity.
  - apply reflex_step_sc.
  - intros st. reflexivity.
Qed.

End Views.
