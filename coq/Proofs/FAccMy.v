(** C16 at f64 for MyRSI: the per-answer accuracy bound K(n) * 2^-53 (independent of the magnitude of the inputs)
    is FALSE.  The window sums are NOT sums of rounded differences: the code computes [cu = (cu + v) - prev]
    (my_rsi.rs: [cu = cu + *v - prev]), so the running sum is first added to a value of the magnitude of the
    INPUTS and the rounding error of that addition is relative to the input level, not to the size of the
    changes.  Near 2^53, with changes of 1..2, a window sum comes out as 4 instead of 3 and MyRSI answers 1/3
    where the exact answer on the same inputs is 1/5. *)
From Coq Require Import List Arith Lia Reals Lra ZArith Floats Bool.
From SF Require Import Res Scalar View Models Core Spec FloatOps.
From SF.Proofs Require Import FltErr FltBridge Flt2P Flt2B64 Flt2Prim BridgeOps FRangeBase FRangeMy FAccBase.
From Flocq Require Import Core BinarySingleNaN.
Import ListNotations.
Open Scope R_scope.
Local Set Warnings "-inexact-float".

Local Notation F := PrimFloat.float.

(** decide the comparisons of a run at R on numerals *)
Ltac rcmp :=
  repeat match goal with
  | |- context [Rltb ?a ?b] =>
      first [replace (Rltb a b) with true by (symmetry; apply Rltb_true; lra)
            |replace (Rltb a b) with false by (symmetry; apply Rltb_false; lra)]
  | |- context [Reqb ?a ?b] =>
      first [replace (Reqb a b) with true by (symmetry; apply Reqb_true; lra)
            |replace (Reqb a b) with false by (symmetry; apply Reqb_false; lra)]
  end.

Definition my_bad : list F := [9007199254740991; 9007199254740992; 9007199254740994; 9007199254740992]%float.

Lemma my_bad_real : map f2r my_bad = [9007199254740991; 9007199254740992; 9007199254740994; 9007199254740992].
Proof.
  unfold my_bad. cbn [map]. rewrite !f2r_SF.
  replace (Prim2SF 9007199254740991%float) with (S754_finite false 9007199254740991 0) by (vm_compute; reflexivity).
  replace (Prim2SF 9007199254740992%float) with (S754_finite false 4503599627370496 1) by (vm_compute; reflexivity).
  replace (Prim2SF 9007199254740994%float) with (S754_finite false 4503599627370497 1) by (vm_compute; reflexivity).
  unfold SF2R, F2R. cbn. repeat f_equal; lra.
Qed.

(** the exact run on these inputs: cu = 3, cd = 2, answer 1/5 *)
Lemma my_bad_exact :
  cout (@myrsi_core R ROps 3) [9007199254740991; 9007199254740992; 9007199254740994; 9007199254740992] = Ok (Some (1 / 5)).
Proof.
  unfold cout, crun. cbn [cnew myrsi_core bind cfold cstep clast].
  unfold myrsi_step at 1. cbn [my_q my_oldest length Nat.leb app bind myrsi_sums my_out s0 s1 sadd ssub sdiv ROps].
  unfold sgtb, sneb. cbn [sltb seqb sadd ssub ROps]. rcmp. cbn [negb bind].
  unfold myrsi_step at 1. cbn [my_q my_oldest length Nat.leb app bind myrsi_sums my_out s0 s1 sadd ssub sdiv ROps].
  unfold sgtb, sneb. cbn [sltb seqb sadd ssub ROps]. rcmp. cbn [negb bind]. rewrite Rdiv_res_ok by lra. cbn [bind].
  unfold myrsi_step at 1. cbn [my_q my_oldest length Nat.leb app bind myrsi_sums my_out s0 s1 sadd ssub sdiv ROps].
  unfold sgtb, sneb. cbn [sltb seqb sadd ssub ROps]. rcmp. cbn [negb bind]. rewrite Rdiv_res_ok by lra. cbn [bind].
  unfold myrsi_step at 1. cbn [my_q my_oldest length Nat.leb app bind myrsi_sums my_out s0 s1 sadd ssub sdiv ROps pop_front].
  unfold sgtb, sneb. cbn [sltb seqb sadd ssub ROps]. rcmp. cbn [negb bind]. rewrite Rdiv_res_ok by lra. cbn [bind].
  cbn [my_q length Nat.ltb Nat.leb my_out]. do 2 f_equal. lra.
Qed.

(** the float run: the sums come out as cu = 4, cd = 2, the answer is the double nearest 1/3 *)
Lemma my_bad_float :
  crun (@myrsi_core F FOps 3) my_bad =
    Ok {| my_cu := 4%float; my_cd := 2%float; my_out := 0x1.5555555555555p-2%float;
          my_q := [9007199254740992; 9007199254740994; 9007199254740992]%float;
          my_lastval := 9007199254740992%float; my_oldest := 9007199254740991%float |}.
Proof. vm_compute. reflexivity. Qed.

(** [myrsi_f64_accuracy] as stated ("|f2r v - r| <= K(n) * 2^-53 for finite inputs, a finite answer and real sums
    not both zero") is refuted: window 3, four finite integer inputs next to 2^53, last window not flat (real sums
    cu = 3, cd = 2), finite answer 0.333..., exact answer 0.2: the error exceeds 1/10, i.e. about 1.2e15 * 2^-53. *)
Theorem myrsi_f64_accuracy_refuted : exists (n : nat) (fs : list F) (v : F) (r : R),
  (1 <= n)%nat /\ forallb ffinite fs = true /\
  cout (@myrsi_core F FOps n) fs = Ok (Some v) /\ ffinite v = true /\
  cout (@myrsi_core R ROps n) (map f2r fs) = Ok (Some r) /\ r = 1 / 5 /\
  1 / 10 < Rabs (f2r v - r).
Proof.
  exists 3%nat, my_bad, 0x1.5555555555555p-2%float, (1 / 5).
  split; [lia|]. split; [vm_compute; reflexivity|]. split; [vm_compute; reflexivity|].
  split; [rewrite <- pfin_ffinite; reflexivity|]. split; [rewrite my_bad_real; exact my_bad_exact|].
  split; [reflexivity|].
  rewrite f2r_SF.
  replace (Prim2SF 0x1.5555555555555p-2%float) with (S754_finite false 6004799503160661 (-54)) by (vm_compute; reflexivity).
  unfold SF2R, F2R. cbn [cond_Zopp Fnum Fexp]. replace (bpow radix2 (-54)) with (/ 18014398509481984) by (cbn; lra).
  rewrite Rabs_pos_eq; lra.
Qed.

Print Assumptions myrsi_f64_accuracy_refuted.
