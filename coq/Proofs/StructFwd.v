(** C01 (input forwarding), scalar-generic: every sub-view reachable through view arguments receives
    every raw input exactly once per update, in order -- it is in exactly the state it would be in
    stand-alone after the same raw inputs.  The moving-average argument of PFE / EFT instead receives
    the list of values computed by the core ([pfe_feed] / [eft_feed] of SpecStruct.v). *)
From Coq Require Import List Arith Lia Bool.
From SF Require Import Res Scalar View Models Core Spec SpecStruct.
Import ListNotations.

Section Fwd.
Context {T : Type}.

(** * (1) unary wrappers *)
Theorem steps_wrap_fst (c : core T) (a : view T) s xs s' :
  steps (wrap c a) s xs = Ok s' -> steps a (fst s) xs = Ok (fst s').
Proof.
  revert s. induction xs as [|x xs IH]; intros s H; cbn [steps] in *.
  - inversion H; subst; reflexivity.
  - cbn [vupd wrap] in H. destruct (vupd a (fst s) x) as [sa|e]; cbn [bind] in *; [|discriminate].
    destruct (vlast a sa) as [[y|]|e]; cbn [bind] in H; try discriminate.
    + destruct (cstep c (snd s) y) as [sc|e]; cbn [bind] in H; [|discriminate]. apply (IH _ H).
    + apply (IH _ H).
Qed.

Corollary state_after_wrap_fst (c : core T) (a : view T) xs s' :
  state_after (wrap c a) xs = Ok s' -> state_after a xs = Ok (fst s').
Proof.
  unfold state_after. cbn [vnew wrap]. destruct (vnew a) as [sa|e]; cbn [bind]; [|discriminate].
  destruct (cnew c) as [sc|e]; cbn [bind]; [|discriminate]. apply steps_wrap_fst.
Qed.

(** a view that records every input it is given *)
Definition recorder : view T := {|
  vst := list T; vnew := Ok []; vupd := fun s x => Ok (s ++ [x]);
  vlast := fun s => Ok (match rev s with [] => None | x :: _ => Some x end);
  vpop := @length T |}.
Lemma steps_recorder h xs : steps recorder h xs = Ok (h ++ xs).
Proof.
  revert h; induction xs as [|x xs IH]; intros h; cbn; [rewrite app_nil_r; reflexivity|].
  rewrite IH, <- app_assoc. reflexivity.
Qed.
(** each raw input reaches the inner view exactly once, in order *)
Theorem wrap_forwards_exactly (c : core T) h sc xs s' :
  steps (wrap c recorder) (h, sc) xs = Ok s' -> fst s' = h ++ xs.
Proof. intros H. apply steps_wrap_fst in H. cbn [fst] in H. rewrite steps_recorder in H. inversion H; auto. Qed.

(** * (2) binary combinators and [mapview] *)
Theorem steps_binop_both f (a b : view T) s xs s' :
  steps (binop f a b) s xs = Ok s' -> steps a (fst s) xs = Ok (fst s') /\ steps b (snd s) xs = Ok (snd s').
Proof.
  revert s. induction xs as [|x xs IH]; intros s H; cbn [steps] in *.
  - inversion H; subst; auto.
  - cbn [vupd binop] in H. destruct (vupd a (fst s) x) as [sa|e]; cbn [bind] in *; [|discriminate].
    destruct (vupd b (snd s) x) as [sb|e]; cbn [bind] in *; [|discriminate]. apply (IH _ H).
Qed.
Corollary state_after_binop_both f (a b : view T) xs s' :
  state_after (binop f a b) xs = Ok s' -> state_after a xs = Ok (fst s') /\ state_after b xs = Ok (snd s').
Proof.
  unfold state_after. cbn [vnew binop]. destruct (vnew a) as [sa|e]; cbn [bind]; [|discriminate].
  destruct (vnew b) as [sb|e]; cbn [bind]; [|discriminate]. apply steps_binop_both.
Qed.
Theorem binop_forwards_exactly f ha hb xs s' :
  steps (binop f recorder recorder) (ha, hb) xs = Ok s' -> fst s' = ha ++ xs /\ snd s' = hb ++ xs.
Proof.
  intros H. apply steps_binop_both in H. cbn [fst snd] in H. rewrite !steps_recorder in H.
  destruct H as [Ha Hb]. inversion Ha; inversion Hb; auto.
Qed.

Theorem steps_mapview f (a : view T) s xs : steps (mapview f a) s xs = steps a s xs.
Proof.
  revert s. induction xs as [|x xs IH]; intros s; cbn [steps]; [reflexivity|].
  cbn [vupd mapview]. destruct (vupd a s x) as [s1|e]; cbn [bind]; [apply IH | reflexivity].
Qed.
Corollary state_after_mapview f (a : view T) xs : state_after (mapview f a) xs = state_after a xs.
Proof. unfold state_after. cbn [vnew mapview]. destruct (vnew a); cbn [bind]; [apply steps_mapview | reflexivity]. Qed.


(** the core of a wrapper is in the state reached by folding it over the values the inner view showed *)
Theorem steps_wrap_snd (c : core T) (a : view T) s xs la s' :
  mrun_from a (fst s) xs = Ok la -> steps (wrap c a) s xs = Ok s' -> cfold c (snd s) (somes la) = Ok (snd s').
Proof.
  revert s la. induction xs as [|x xs IH]; intros s la Hm H; cbn [steps mrun_from] in *.
  - inversion Hm; inversion H; subst. reflexivity.
  - cbn [vupd wrap] in H. destruct (vupd a (fst s) x) as [sa|e]; cbn [bind] in *; [|discriminate].
    destruct (vlast a sa) as [o|e]; cbn [bind] in *; [|discriminate].
    destruct (mrun_from a sa xs) as [r|e] eqn:Er; cbn [bind] in Hm; [|discriminate].
    inversion Hm; subst la. destruct o as [y|]; cbn [somes cfold].
    + destruct (cstep c (snd s) y) as [sc|e]; cbn [bind] in *; [|discriminate].
      apply (IH (sa, sc) r Er H).
    + apply (IH (sa, snd s) r Er H).
Qed.
Corollary state_after_wrap_snd (c : core T) (a : view T) xs la s' :
  mrun a xs = Ok la -> state_after (wrap c a) xs = Ok s' -> crun c (somes la) = Ok (snd s').
Proof.
  unfold mrun, state_after, crun. cbn [vnew wrap]. destruct (vnew a) as [sa|e]; cbn [bind]; [|discriminate].
  destruct (cnew c) as [sc|e]; cbn [bind]; [|discriminate]. intros Hm H.
  apply (steps_wrap_snd c a (sa, sc) xs la s' Hm H).
Qed.

End Fwd.

Section FwdOps.
Context {T : Type} {OT : Ops T}.

(** * (3) the moving-average argument of PFE and EFT *)
Ltac destr_goal :=
  match goal with
  | |- context [match ?x with _ => _ end] =>
      lazymatch x with context [match _ with _ => _ end] => fail | _ => idtac end;
      destruct x; cbn beta iota zeta
  end.

Lemma pfe_step_eq n (ma : view T) m q out v :
  cstep (pfe_core n ma) (m, q, out) v =
  let q' := evict n q ++ [v] in
  if Nat.leb n (length q')
  then do p <- pfe_p n q' v; do m' <- vupd ma m p; do o <- vlast ma m'; Ok (m', q', o)
  else Ok (m, q', out).
Proof.
  cbn [cstep pfe_core]. cbn zeta. destruct (Nat.leb n (length (evict n q ++ [v]))); [|reflexivity].
  unfold pfe_p, bind. repeat (destr_goal; try reflexivity).
Qed.

(** the MA view inside PFE is in the state [steps ma m (values computed by the core)] *)
Theorem pfe_ma_steps n (ma : view T) m q out vs s' :
  cfold (pfe_core n ma) (m, q, out) vs = Ok s' ->
  steps ma m (pfe_feed_from n q vs) = Ok (fst (fst s')).
Proof.
  revert m q out. induction vs as [|v vs IH]; intros m q out H.
  - cbn in H. inversion H; subst. reflexivity.
  - cbn [cfold] in H. rewrite pfe_step_eq in H. cbn zeta in H. cbn [pfe_feed_from]. cbn zeta.
    destruct (Nat.leb n (length (evict n q ++ [v]))).
    + destruct (pfe_p n (evict n q ++ [v]) v) as [p|e]; cbn [bind] in H; [|discriminate].
      cbn [steps]. destruct (vupd ma m p) as [m'|e]; cbn [bind] in *; [|discriminate].
      destruct (vlast ma m') as [o|e]; cbn [bind] in H; [|discriminate]. apply (IH _ _ _ H).
    + cbn [bind] in H. apply (IH _ _ _ H).
Qed.
Corollary pfe_ma_state_after n (ma : view T) vs s' :
  crun (pfe_core n ma) vs = Ok s' -> state_after ma (pfe_feed n vs) = Ok (fst (fst s')).
Proof.
  unfold crun, state_after, pfe_feed. cbn [cnew pfe_core].
  destruct (assert (Nat.leb 3 n)); cbn [bind]; [|discriminate].
  destruct (vnew ma) as [m0|e]; cbn [bind]; [|discriminate]. apply pfe_ma_steps.
Qed.

Definition eft_win_of (ma : view T) (s : @eft_st T (vst ma)) : @eft_win T := (ef_q s, ef_high s, ef_low s).

(** one EFT update: the window part moves by [eft_win_step]; the MA is updated with [eft_x] if any *)
Lemma eft_step_fwd n (ma : view T) s v s' :
  eft_step n ma s v = Ok s' ->
  exists w', eft_win_step n (eft_win_of ma s) v = Ok w' /\ eft_win_of ma s' = w' /\
    match eft_x w' v with
    | Ok None => ef_ma s' = ef_ma s
    | Ok (Some x) => vupd ma (ef_ma s) x = Ok (ef_ma s')
    | Err _ => False
    end.
Proof.
  destruct s as [m q hi lo qo]. unfold eft_step, eft_win_step, eft_win_of, eft_x, bind, pop_front.
  cbn [ef_ma ef_q ef_high ef_low ef_qout].
  intros H.
  repeat match goal with
  | H : context [match ?x with _ => _ end] |- _ =>
      lazymatch x with context [match _ with _ => _ end] => fail | _ => idtac end;
      first [ is_var x; destruct x | let E := fresh "E" in destruct x eqn:E ];
      cbn beta iota zeta in *; try discriminate
  end;
  inversion H; subst; clear H; cbn [ef_ma ef_q ef_high ef_low ef_qout];
  eexists; (split; [reflexivity|]); (split; [reflexivity|]); cbn beta iota zeta;
  rewrite ?E, ?E0, ?E1, ?E2, ?E3, ?E4, ?E5, ?E6, ?E7, ?E8, ?E9, ?E10, ?E11, ?E12; cbn beta iota zeta; auto.
Qed.

(** the MA view inside EFT is in the state [steps ma m (values computed by the core)] *)
Theorem eft_ma_steps n (ma : view T) s vs s' :
  cfold (eft_core n ma) s vs = Ok s' ->
  steps ma (ef_ma s) (eft_feed_from n (eft_win_of ma s) vs) = Ok (ef_ma s').
Proof.
  revert s. induction vs as [|v vs IH]; intros s H.
  - cbn in H. inversion H; subst. reflexivity.
  - cbn [cfold] in H. cbn [cstep eft_core] in H.
    destruct (eft_step n ma s v) as [s1|e] eqn:E; cbn [bind] in H; [|discriminate].
    destruct (eft_step_fwd n ma s v s1 E) as (w' & Hw & Hw' & Hx). subst w'.
    cbn [eft_feed_from]. rewrite Hw.
    destruct (eft_x (eft_win_of ma s1) v) as [[x|]|e]; [| |contradiction].
    + cbn [steps]. rewrite Hx. cbn [bind]. apply (IH _ H).
    + rewrite <- Hx. apply (IH _ H).
Qed.
Corollary eft_ma_state_after n (ma : view T) vs s' :
  crun (eft_core n ma) vs = Ok s' -> state_after ma (eft_feed n vs) = Ok (ef_ma s').
Proof.
  unfold crun, state_after, eft_feed. cbn [cnew eft_core].
  destruct (assert (Nat.leb 2 n)); cbn [bind]; [|discriminate].
  destruct (vnew ma) as [m0|e]; cbn [bind]; [|discriminate]. intros H.
  apply eft_ma_steps in H. exact H.
Qed.

(** in a chain: the MA of [DPfe n a ma] / [DEft n a ma] has received exactly the values computed from
    the outputs [la] of the inner view [a] *)
Corollary pfe_chain_ma n (a ma : view T) xs la s :
  mrun a xs = Ok la -> state_after (wrap (pfe_core n ma) a) xs = Ok s ->
  state_after ma (pfe_feed n (somes la)) = Ok (fst (fst (snd s))).
Proof. intros Hm H. apply pfe_ma_state_after. eapply state_after_wrap_snd; eassumption. Qed.
Corollary eft_chain_ma n (a ma : view T) xs la s :
  mrun a xs = Ok la -> state_after (wrap (eft_core n ma) a) xs = Ok s ->
  state_after ma (eft_feed n (somes la)) = Ok (ef_ma (snd s)).
Proof. intros Hm H. apply eft_ma_state_after. eapply state_after_wrap_snd; eassumption. Qed.

(** * (4) every sub-view reachable through view arguments *)
(** [all_sub P d s]: [P d' s'] holds for [d] and for every sub-descriptor [d'] of [d] reachable through
    view arguments (not the MA argument of PFE / EFT), [s'] being the part of [s] that is its state *)
Fixpoint all_sub (P : forall d : desc T, vst (denote d) -> Prop) (d : desc T) : vst (denote d) -> Prop :=
  match d return vst (denote d) -> Prop with
  | DEcho => fun s => P DEcho s
  | DProbe k => fun s => P (DProbe k) s
  | DConst c => fun s => P (DConst c) s
  | DAdd a b => fun s => P (DAdd a b) s /\ all_sub P a (fst s) /\ all_sub P b (snd s)
  | DSub a b => fun s => P (DSub a b) s /\ all_sub P a (fst s) /\ all_sub P b (snd s)
  | DMul a b => fun s => P (DMul a b) s /\ all_sub P a (fst s) /\ all_sub P b (snd s)
  | DDiv a b => fun s => P (DDiv a b) s /\ all_sub P a (fst s) /\ all_sub P b (snd s)
  | DTanh a => fun s => P (DTanh a) s /\ all_sub P a s
  | DGte c a => fun s => P (DGte c a) s /\ all_sub P a (fst s)
  | DLte c a => fun s => P (DLte c a) s /\ all_sub P a (fst s)
  | DDrawdown a => fun s => P (DDrawdown a) s /\ all_sub P a (fst s)
  | DLnReturn a => fun s => P (DLnReturn a) s /\ all_sub P a (fst s)
  | DWRolling a => fun s => P (DWRolling a) s /\ all_sub P a (fst s)
  | DWRollingMean a => fun s => P (DWRollingMean a) s /\ all_sub P a (fst s)
  | DSma n a => fun s => P (DSma n a) s /\ all_sub P a (fst s)
  | DEma n a => fun s => P (DEma n a) s /\ all_sub P a (fst s)
  | DEmaAlpha n al a => fun s => P (DEmaAlpha n al a) s /\ all_sub P a (fst s)
  | DCumulative n a => fun s => P (DCumulative n a) s /\ all_sub P a (fst s)
  | DMin n a => fun s => P (DMin n a) s /\ all_sub P a (fst s)
  | DMax n a => fun s => P (DMax n a) s /\ all_sub P a (fst s)
  | DRoc n a => fun s => P (DRoc n a) s /\ all_sub P a (fst s)
  | DWelford n a => fun s => P (DWelford n a) s /\ all_sub P a (fst s)
  | DWelfordMean n a => fun s => P (DWelfordMean n a) s /\ all_sub P a (fst s)
  | DWelfordVar n a => fun s => P (DWelfordVar n a) s /\ all_sub P a (fst s)
  | DVst n a => fun s => P (DVst n a) s /\ all_sub P a (fst s)
  | DVsct n a => fun s => P (DVsct n a) s /\ all_sub P a (fst s)
  | DHln n a => fun s => P (DHln n a) s /\ all_sub P a (fst s)
  | DEntropy n a => fun s => P (DEntropy n a) s /\ all_sub P a (fst s)
  | DCog n a => fun s => P (DCog n a) s /\ all_sub P a (fst s)
  | DCti n a => fun s => P (DCti n a) s /\ all_sub P a (fst s)
  | DNet n a => fun s => P (DNet n a) s /\ all_sub P a (fst s)
  | DRsi n a => fun s => P (DRsi n a) s /\ all_sub P a (fst s)
  | DMyRsi n a => fun s => P (DMyRsi n a) s /\ all_sub P a (fst s)
  | DAlma n a => fun s => P (DAlma n a) s /\ all_sub P a (fst s)
  | DAlmaCustom n sg off a => fun s => P (DAlmaCustom n sg off a) s /\ all_sub P a (fst s)
  | DPfe n a ma => fun s => P (DPfe n a ma) s /\ all_sub P a (fst s)
  | DCyber n a => fun s => P (DCyber n a) s /\ all_sub P a (fst s)
  | DSs n a => fun s => P (DSs n a) s /\ all_sub P a (fst s)
  | DRoofing n m a => fun s => P (DRoofing n m a) s /\ all_sub P a (fst s)
  | DTrendFlex n a => fun s => P (DTrendFlex n a) s /\ all_sub P a (fst s)
  | DReFlex n a => fun s => P (DReFlex n a) s /\ all_sub P a (fst s)
  | DLaguerre g a => fun s => P (DLaguerre g a) s /\ all_sub P a (fst s)
  | DLrsi n a => fun s => P (DLrsi n a) s /\ all_sub P a (fst s)
  | DEft n a ma => fun s => P (DEft n a ma) s /\ all_sub P a (fst s)
  end.

Lemma all_sub_impl (P Q : forall d : desc T, vst (denote d) -> Prop) :
  (forall d s, P d s -> Q d s) -> forall d s, all_sub P d s -> all_sub Q d s.
Proof.
  intros HPQ. induction d; cbn [all_sub]; intros s H; auto;
    repeat match goal with H : _ /\ _ |- _ => destruct H end; repeat split; auto.
Qed.

Lemma all_sub_here (P : forall d : desc T, vst (denote d) -> Prop) d s : all_sub P d s -> P d s.
Proof. destruct d; cbn [all_sub]; intros H; try exact H; apply H. Qed.

(** C01: after any raw input list, every sub-view reachable through view arguments -- at every
    depth, under wrappers, binary combinators and Tanh -- is in exactly the state it would be in
    stand-alone after the same raw inputs *)
Theorem subviews_forwarded xs (d : desc T) s :
  state_after (denote d) xs = Ok s ->
  all_sub (fun d' s' => state_after (denote d') xs = Ok s') d s.
Proof.
  revert s. induction d; cbn [all_sub]; intros s H; try exact H; (split; [exact H|]);
    cbn [denote] in H;
    first [ apply state_after_wrap_fst in H; apply IHd; exact H
          | apply state_after_wrap_fst in H; apply IHd1; exact H
          | apply state_after_binop_both in H; destruct H as [Ha Hb]; split; [apply IHd1 | apply IHd2]; assumption
          | unfold vtanh in H; rewrite state_after_mapview in H; apply IHd; exact H ].
Qed.

(** the leaves: every [DEcho] / [DProbe] leaf holds the latest raw input (the state of a stand-alone
    Echo after the raw input list) *)
Definition latest (xs : list T) : option T := match rev xs with [] => None | x :: _ => Some x end.
Lemma steps_echo o xs : steps (@echo T) o xs = Ok (match xs with [] => o | _ => latest xs end).
Proof.
  revert o; induction xs as [|x xs IH]; intros o; cbn [steps]; [reflexivity|].
  cbn [vupd echo bind]. rewrite IH. destruct xs as [|y ys]; [reflexivity|].
  unfold latest. cbn [rev]. destruct (rev ys ++ [y]) eqn:E; [destruct (rev ys); discriminate | reflexivity].
Qed.
Lemma state_after_echo xs : state_after (@echo T) xs = Ok (latest xs).
Proof. unfold state_after. cbn [vnew echo bind]. rewrite steps_echo. destruct xs; reflexivity. Qed.

Definition leaf_latest (xs : list T) (d : desc T) : vst (denote d) -> Prop :=
  match d return vst (denote d) -> Prop with
  | DEcho => fun s => s = latest xs
  | DProbe _ => fun s => s = latest xs
  | _ => fun _ => True
  end.
Theorem leaves_forwarded xs (d : desc T) s :
  state_after (denote d) xs = Ok s -> all_sub (leaf_latest xs) d s.
Proof.
  intros H. apply subviews_forwarded in H. revert H. apply all_sub_impl.
  intros d' s' H'. destruct d'; cbn [leaf_latest]; try exact I;
    cbn [denote] in H'; rewrite state_after_echo in H'; inversion H'; reflexivity.
Qed.

End FwdOps.

(** * Examples *)
From Coq Require Import QArith.
Open Scope nat_scope.

Example ex_subviews :
  exists s, state_after (denote (DAdd (DSma 2 (DRoc 2 DEcho)) (DTanh (DGte (0#1)%Q (DProbe 1))))) [1#1; 2#1; 3#1]%Q = Ok s.
Proof. eexists. vm_compute. reflexivity. Qed.

Example ex_pfe :
  (exists s, crun (pfe_core 3 (denote (DEma 2 (@DEcho Q)))) [1#1; 2#1; 4#1; 3#1; 5#1]%Q = Ok s)
  /\ length (@pfe_feed Q QOps 3 [1#1; 2#1; 4#1; 3#1; 5#1]%Q) = 3.
Proof. split; [eexists|]; vm_compute; reflexivity. Qed.

Example ex_eft :
  (exists s, crun (eft_core 3 (denote (DEma 2 (@DEcho Q)))) [1#1; 1#1; 2#1; 4#1; 3#1]%Q = Ok s)
  /\ length (@eft_feed Q QOps 3 [1#1; 1#1; 2#1; 4#1; 3#1]%Q) = 3.
Proof. split; [eexists|]; vm_compute; reflexivity. Qed.

Print Assumptions steps_wrap_fst.
Print Assumptions wrap_forwards_exactly.
Print Assumptions steps_binop_both.
Print Assumptions steps_mapview.
Print Assumptions steps_wrap_snd.
Print Assumptions pfe_ma_state_after.
Print Assumptions eft_ma_state_after.
Print Assumptions pfe_chain_ma.
Print Assumptions eft_chain_ma.
Print Assumptions subviews_forwarded.
Print Assumptions leaves_forwarded.
