(** The generic part of the f64 <-> rounded-real bridge.

    [arith_sim OA OB phi finb N]: the scalar instance [OA] (primitive floats) is simulated by the instance [OB]
    (reals with rounded operations) through the value map [phi], under finiteness ([finb]) of the RESULT of
    each operation computed at [OA].  [core_bridge]: a core whose steps are simulated answers the same at
    both instances whenever the executable checker [all_finite_run] (SpecBridge.v) succeeds.  Then the
    step simulations of Sma, Cumulative, Ema and the WelfordRolling mean, from [arith_sim] alone. *)
From Coq Require Import List Arith Lia Reals Lra ZArith Bool.
From SF Require Import Res Scalar View Models Spec Core SpecBridge.
From SF.Proofs Require Import Flt2Prim.
Import ListNotations.
Open Scope R_scope.

(** * 1. ArithSim *)
Section ArithSim.
Variable A : Type.
Variable OA : Ops A.
Variable OB : Ops R.
Variable phi : A -> R.
Variable finb : A -> bool.
Variable N : nat -> Prop.          (* the naturals that [sofnat] represents exactly at [OA] *)

Record arith_sim : Prop := {
  as_s0 : finb (@s0 A OA) = true /\ phi (@s0 A OA) = @s0 R OB;
  as_s1 : finb (@s1 A OA) = true /\ phi (@s1 A OA) = @s1 R OB;
  (* + - * : a finite result forces finite operands and commutes with phi *)
  as_add : forall x y, finb (@sadd A OA x y) = true ->
             finb x = true /\ finb y = true /\ phi (@sadd A OA x y) = @sadd R OB (phi x) (phi y);
  as_sub : forall x y, finb (@ssub A OA x y) = true ->
             finb x = true /\ finb y = true /\ phi (@ssub A OA x y) = @ssub R OB (phi x) (phi y);
  as_mul : forall x y, finb (@smul A OA x y) = true ->
             finb x = true /\ finb y = true /\ phi (@smul A OA x y) = @smul R OB (phi x) (phi y);
  (* / : finite divisor and finite quotient: the dividend is finite and [OB] does not err either *)
  as_div : forall x y q, finb y = true -> @sdiv A OA x y = Ok q -> finb q = true ->
             finb x = true /\ @sdiv R OB (phi x) (phi y) = Ok (phi q);
  as_neg : forall x, finb (@sneg A OA x) = finb x /\ phi (@sneg A OA x) = @sneg R OB (phi x);
  as_abs : forall x, finb (@sabs A OA x) = finb x /\ phi (@sabs A OA x) = @sabs R OB (phi x);
  as_ltb : forall x y, finb x = true -> finb y = true -> @sltb A OA x y = @sltb R OB (phi x) (phi y);
  as_leb : forall x y, finb x = true -> finb y = true -> @sleb A OA x y = @sleb R OB (phi x) (phi y);
  as_eqb : forall x y, finb x = true -> finb y = true -> @seqb A OA x y = @seqb R OB (phi x) (phi y);
  as_nat : forall k, N k -> finb (@sofnat A OA k) = true /\ phi (@sofnat A OA k) = @sofnat R OB k;
}.
End ArithSim.
Arguments arith_sim {A} OA OB phi finb N.
Arguments as_s0 {A OA OB phi finb N} _.
Arguments as_s1 {A OA OB phi finb N} _.
Arguments as_add {A OA OB phi finb N} _.
Arguments as_sub {A OA OB phi finb N} _.
Arguments as_mul {A OA OB phi finb N} _.
Arguments as_div {A OA OB phi finb N} _.
Arguments as_neg {A OA OB phi finb N} _.
Arguments as_abs {A OA OB phi finb N} _.
Arguments as_ltb {A OA OB phi finb N} _.
Arguments as_leb {A OA OB phi finb N} _.
Arguments as_eqb {A OA OB phi finb N} _.
Arguments as_nat {A OA OB phi finb N} _.

(** * 2. Cores: simulated steps give equal answers under the checker *)
Section CoreSim.
Variable A : Type.
Variable phi : A -> R.
Variable finb : A -> bool.
Variable cA : core A.
Variable cB : core R.
Variable sfin : cst cA -> bool.
Variable srel : nat -> cst cA -> cst cB -> Prop.   (* indexed by the number of values consumed *)
Variable L : nat.                                  (* the stream lengths considered *)
Hypothesis new_sim : forall s, cnew cA = Ok s -> exists t, cnew cB = Ok t /\ srel 0 s t.
Hypothesis step_sim : forall k s t v s', (k < L)%nat -> srel k s t -> sfin s = true ->
  cstep cA s v = Ok s' -> sfin s' = true -> exists t', cstep cB t (phi v) = Ok t' /\ srel (S k) s' t'.
Hypothesis last_sim : forall k s t o, (k <= L)%nat -> srel k s t -> sfin s = true ->
  clast cA s = Ok o -> ofin finb o = true -> clast cB t = Ok (option_map phi o).

Lemma cfold_sim vs : forall k s t, (k + length vs <= L)%nat -> srel k s t -> st_ok finb cA sfin s = true ->
  cfold_chk finb cA sfin s vs = true ->
  exists s' t', cfold cA s vs = Ok s' /\ cfold cB t (map phi vs) = Ok t' /\
                srel (k + length vs) s' t' /\ st_ok finb cA sfin s' = true.
Proof.
  induction vs as [|v vs IH]; intros k s t Hk Hr Hs Hc.
  - exists s, t. cbn [cfold map length]. rewrite Nat.add_0_r. auto.
  - cbn [cfold_chk] in Hc. cbn [length] in Hk.
    destruct (cstep cA s v) as [s1|e] eqn:E1; [|discriminate].
    apply andb_true_iff in Hc. destruct Hc as [Hs1 Hc].
    pose proof Hs as Hs'. unfold st_ok in Hs'. apply andb_true_iff in Hs'. destruct Hs' as [Hsf _].
    pose proof Hs1 as Hs1'. unfold st_ok in Hs1'. apply andb_true_iff in Hs1'. destruct Hs1' as [Hs1f _].
    destruct (step_sim k s t v s1 ltac:(lia) Hr Hsf E1 Hs1f) as [t1 [E2 Hr1]].
    destruct (IH (S k) s1 t1 ltac:(lia) Hr1 Hs1 Hc) as [s' [t' [F1 [F2 [Hr' Hs'']]]]].
    exists s', t'. cbn [cfold map]. rewrite E1, E2. cbn [bind]. split; [exact F1|]. split; [exact F2|].
    split; [|exact Hs'']. cbn [length]. replace (k + S (length vs))%nat with (S k + length vs)%nat by lia. exact Hr'.
Qed.

(** the bridge for one core *)
Theorem core_bridge fs : (length fs <= L)%nat ->
  all_finite_run finb cA sfin fs = true ->
  res_map (option_map phi) (cout cA fs) = cout cB (map phi fs).
Proof.
  intros HL Hc. unfold all_finite_run in Hc. unfold cout, crun.
  destruct (cnew cA) as [s|e] eqn:En; [|discriminate].
  apply andb_true_iff in Hc. destruct Hc as [Hs Hc].
  destruct (new_sim s eq_refl) as [t [Et Hr]]. rewrite Et. cbn [bind].
  destruct (cfold_sim fs 0 s t ltac:(lia) Hr Hs Hc) as [s' [t' [F1 [F2 [Hr' Hs']]]]].
  rewrite F1, F2. cbn [bind].
  unfold st_ok in Hs'. apply andb_true_iff in Hs'. destruct Hs' as [Hsf Ho].
  destruct (clast cA s') as [o|e] eqn:El; [|discriminate].
  rewrite (last_sim (0 + length fs)%nat s' t' o ltac:(lia) Hr' Hsf El Ho). reflexivity.
Qed.

(** the same at the level of the states reached *)
Theorem core_bridge_run fs : (length fs <= L)%nat -> all_finite_run finb cA sfin fs = true ->
  exists s t, crun cA fs = Ok s /\ crun cB (map phi fs) = Ok t /\ srel (length fs) s t /\ sfin s = true.
Proof.
  intros HL Hc. unfold all_finite_run in Hc. unfold crun.
  destruct (cnew cA) as [s|e] eqn:En; [|discriminate].
  apply andb_true_iff in Hc. destruct Hc as [Hs Hc].
  destruct (new_sim s eq_refl) as [t [Et Hr]]. rewrite Et. cbn [bind].
  destruct (cfold_sim fs 0 s t ltac:(lia) Hr Hs Hc) as [s' [t' [F1 [F2 [Hr' Hs']]]]].
  exists s', t'. split; [exact F1|]. split; [exact F2|]. split; [exact Hr'|].
  unfold st_ok in Hs'. apply andb_true_iff in Hs'. destruct Hs' as [Hsf _]. exact Hsf.
Qed.

(** the checker is monotone: it holds of every prefix *)
Lemma cfold_chk_app vs ws : forall s, cfold_chk finb cA sfin s (vs ++ ws) = true -> cfold_chk finb cA sfin s vs = true.
Proof.
  induction vs as [|v vs IH]; intros s H; [reflexivity|]. cbn [app cfold_chk] in *.
  destruct (cstep cA s v) as [s1|e]; [|discriminate].
  apply andb_true_iff in H. destruct H as [H1 H2]. rewrite H1, (IH s1 H2). reflexivity.
Qed.
Lemma all_finite_run_prefix vs ws : all_finite_run finb cA sfin (vs ++ ws) = true -> all_finite_run finb cA sfin vs = true.
Proof.
  unfold all_finite_run. destruct (cnew cA) as [s|e]; [|discriminate]. intros H.
  apply andb_true_iff in H. destruct H as [H1 H2]. rewrite H1, (cfold_chk_app vs ws s H2). reflexivity.
Qed.
End CoreSim.

(** * 3. The four target views, from [arith_sim] *)
Section Views.
Variable A : Type.
Variable OA : Ops A.
Variable OB : Ops R.
Variable phi : A -> R.
Variable finb : A -> bool.
Variable N : nat -> Prop.
Hypothesis AS : arith_sim OA OB phi finb N.
Notation fin x := (finb x = true).

Lemma forallb_Forall_fin q : forallb finb q = true -> Forall (fun x => fin x) q.
Proof. intros H. apply Forall_forall. intros x Hx. rewrite forallb_forall in H. apply H. exact Hx. Qed.

(** ** Sma *)
Definition sma_map (s : @sma_st A) : @sma_st R :=
  {| sma_q := map phi (sma_q s); sma_sum := phi (sma_sum s) |}.
Definition sma_rel (n : nat) (k : nat) (s : @sma_st A) (t : @sma_st R) : Prop :=
  t = sma_map s /\ (length (sma_q s) <= n)%nat.

Lemma sma_step_sim n k s t v s' : sma_rel n k s t ->
  @sma_step A OA n s v = Ok s' -> sma_sfin finb s' = true ->
  exists t', @sma_step R OB n t (phi v) = Ok t' /\ sma_rel n (S k) s' t'.
Proof.
  intros [-> Hlen] E Hs'. unfold sma_step in *. cbn [sma_map sma_q sma_sum]. rewrite map_length.
  destruct (Nat.leb n (length (sma_q s))) eqn:El.
  - destruct (sma_q s) as [|old q'] eqn:Eq; [cbn in E; discriminate|].
    cbn [pop_front bind map] in *. inversion E; subst s'; clear E.
    unfold sma_sfin in Hs'. cbn [sma_q sma_sum] in Hs'. apply andb_true_iff in Hs'. destruct Hs' as [_ Hsum].
    destruct (as_add AS _ _ Hsum) as [Hd [_ Ea]]. destruct (as_sub AS _ _ Hd) as [_ [_ Es]].
    eexists; split; [reflexivity|]. split.
    + unfold sma_map. cbn [sma_q sma_sum]. rewrite map_app, Ea, Es. reflexivity.
    + cbn [sma_q]. rewrite app_length. cbn [length] in *. lia.
  - cbn [bind] in *. inversion E; subst s'; clear E.
    unfold sma_sfin in Hs'. cbn [sma_q sma_sum] in Hs'. apply andb_true_iff in Hs'. destruct Hs' as [_ Hsum].
    destruct (as_add AS _ _ Hsum) as [_ [_ Ea]].
    eexists; split; [reflexivity|]. split.
    + unfold sma_map. cbn [sma_q sma_sum]. rewrite map_app, Ea. reflexivity.
    + cbn [sma_q]. rewrite app_length. cbn [length]. apply Nat.leb_gt in El. lia.
Qed.

Lemma sma_last_sim n k s t o : (forall j, (j <= n)%nat -> N j) ->
  sma_rel n k s t -> @sma_last A OA n s = Ok o -> ofin finb o = true ->
  @sma_last R OB n t = Ok (option_map phi o).
Proof.
  intros HN [-> Hlen] E Ho. unfold sma_last in *. cbn [sma_map sma_q sma_sum]. rewrite map_length.
  destruct (Nat.ltb (length (sma_q s)) n); [inversion E; reflexivity|].
  destruct (as_nat AS _ (HN _ Hlen)) as [Fn En].
  destruct (@sdiv A OA (sma_sum s) (sofnat (length (sma_q s)))) as [m|e] eqn:Ed; cbn [bind] in E; [|discriminate].
  inversion E; subst o; clear E. cbn [ofin] in Ho.
  destruct (as_div AS _ _ _ Fn Ed Ho) as [_ Ed']. rewrite <- En, Ed'. reflexivity.
Qed.

Theorem sma_bridge_gen n fs : (forall j, (j <= n)%nat -> N j) ->
  all_finite_sma finb n fs = true ->
  res_map (option_map phi) (cout (@sma_core A OA n) fs) = cout (@sma_core R OB n) (map phi fs).
Proof.
  intros HN Hc.
  apply (@core_bridge A phi finb (@sma_core A OA n) (@sma_core R OB n) (sma_sfin finb) (sma_rel n) (length fs)).
  - intros s E. cbn [cnew sma_core] in *. inversion E; subst s. eexists; split; [reflexivity|].
    split; [|cbn; lia]. unfold sma_map. cbn [sma_q sma_sum map]. rewrite (proj2 (as_s0 AS)). reflexivity.
  - intros k s t v s' _ Hr _ E Hs'. exact (sma_step_sim n k s t v s' Hr E Hs').
  - intros k s t o _ Hr _ E Ho. exact (sma_last_sim n k s t o HN Hr E Ho).
  - lia.
  - exact Hc.
Qed.

(** the running sum of Sma: the state reached at [OA] maps to the state reached at [OB] *)
Theorem sma_bridge_run_gen n fs :
  all_finite_sma finb n fs = true ->
  exists s, crun (@sma_core A OA n) fs = Ok s /\ crun (@sma_core R OB n) (map phi fs) = Ok (sma_map s).
Proof.
  intros Hc.
  destruct (@core_bridge_run A phi finb (@sma_core A OA n) (@sma_core R OB n) (sma_sfin finb) (sma_rel n) (length fs))
    with (fs := fs) as [s [t [E1 [E2 [[Hr _] _]]]]].
  - intros s E. cbn [cnew sma_core] in *. inversion E; subst s. eexists; split; [reflexivity|].
    split; [|cbn; lia]. unfold sma_map. cbn [sma_q sma_sum map]. rewrite (proj2 (as_s0 AS)). reflexivity.
  - intros k s t v s' _ Hr _ E Hs'. exact (sma_step_sim n k s t v s' Hr E Hs').
  - lia.
  - exact Hc.
  - exists s. subst t. split; assumption.
Qed.

(** ** Cumulative *)
Definition cum_map (s : @cum_st A) : @cum_st R :=
  {| cum_q := map phi (cum_q s); cum_out := option_map phi (cum_out s) |}.
Definition cum_rel (k : nat) (s : @cum_st A) (t : @cum_st R) : Prop := t = cum_map s.

Lemma cum_step_sim n k s t v s' : cum_rel k s t ->
  @cum_step A OA n s v = Ok s' -> cum_sfin finb s' = true ->
  exists t', @cum_step R OB n t (phi v) = Ok t' /\ cum_rel (S k) s' t'.
Proof.
  intros -> E Hs'. unfold cum_step in *. cbn [cum_map cum_q cum_out]. rewrite map_length.
  set (out := match cum_out s with None => @s0 A OA | Some o => o end) in *.
  assert (Eo : match option_map phi (cum_out s) with None => @s0 R OB | Some o => o end = phi out).
  { unfold out. destruct (cum_out s); cbn [option_map]; [reflexivity | symmetry; exact (proj2 (as_s0 AS))]. }
  rewrite Eo. clearbody out.
  destruct (Nat.leb n (length (cum_q s))) eqn:El.
  - destruct (cum_q s) as [|old q'] eqn:Eq; [cbn in E; discriminate|].
    cbn [pop_front bind map] in *. inversion E; subst s'; clear E.
    unfold cum_sfin in Hs'. cbn [cum_q cum_out ofin] in Hs'. apply andb_true_iff in Hs'. destruct Hs' as [_ Hsum].
    destruct (as_add AS _ _ Hsum) as [Hd [_ Ea]]. destruct (as_sub AS _ _ Hd) as [_ [_ Es]].
    eexists; split; [reflexivity|].
    unfold cum_rel, cum_map. cbn [cum_q cum_out option_map]. rewrite map_app, Ea, Es. reflexivity.
  - cbn [bind] in *. inversion E; subst s'; clear E.
    unfold cum_sfin in Hs'. cbn [cum_q cum_out ofin] in Hs'. apply andb_true_iff in Hs'. destruct Hs' as [_ Hsum].
    destruct (as_add AS _ _ Hsum) as [_ [_ Ea]].
    eexists; split; [reflexivity|].
    unfold cum_rel, cum_map. cbn [cum_q cum_out option_map]. rewrite map_app, Ea. reflexivity.
Qed.

Theorem cumulative_bridge_gen n fs :
  all_finite_cumulative finb n fs = true ->
  res_map (option_map phi) (cout (@cumulative_core A OA n) fs) = cout (@cumulative_core R OB n) (map phi fs).
Proof.
  intros Hc.
  apply (@core_bridge A phi finb (@cumulative_core A OA n) (@cumulative_core R OB n) (cum_sfin finb) cum_rel (length fs)).
  - intros s E. cbn [cnew cumulative_core] in *. inversion E; subst s. eexists; split; reflexivity.
  - intros k s t v s' _ Hr _ E Hs'. exact (cum_step_sim n k s t v s' Hr E Hs').
  - intros k s t o _ Hr _ E _. unfold cum_rel in Hr. subst t. cbn [clast cumulative_core] in *.
    inversion E; subst o. reflexivity.
  - lia.
  - exact Hc.
Qed.

(** ** Ema (any [alpha]; the default [alpha = 2] below) *)
Definition ema_map (s : @ema_st A) : @ema_st R :=
  {| ema_last := phi (ema_last s); ema_out := phi (ema_out s); ema_n := ema_n s |}.
Definition ema_rel (k : nat) (s : @ema_st A) (t : @ema_st R) : Prop := t = ema_map s.

Lemma ema_step_sim n alpha k s t v s' : N n -> ema_rel k s t ->
  @ema_step A OA n alpha s v = Ok s' -> ema_sfin finb n alpha s' = true ->
  exists t', @ema_step R OB n (phi alpha) t (phi v) = Ok t' /\ ema_rel (S k) s' t'.
Proof.
  intros Hn -> E Hs'. unfold ema_step in *. cbn [ema_map ema_n ema_last ema_out].
  unfold ema_sfin in Hs'. apply andb_true_iff in Hs'. destruct Hs' as [Hs' Hw].
  apply andb_true_iff in Hs'. destruct Hs' as [Hs' Hd].
  apply andb_true_iff in Hs'. destruct Hs' as [Hl _].
  destruct (as_nat AS n Hn) as [_ En]. destruct (as_add AS _ _ Hd) as [_ [_ Ea]].
  destruct (@sdiv A OA alpha (sadd s1 (sofnat n))) as [w|e] eqn:Ed; [|discriminate]. cbn [bind] in E.
  destruct (as_div AS _ _ _ Hd Ed Hw) as [_ Ed'].
  rewrite Ea, (proj2 (as_s1 AS)), En in Ed'. rewrite Ed'. cbn [bind].
  destruct (Nat.eqb (S (ema_n s)) 1).
  - inversion E; subst s'. eexists; split; reflexivity.
  - inversion E; subst s'; clear E. cbn [ema_last] in Hl.
    destruct (as_add AS _ _ Hl) as [H1 [H2 E1]].
    destruct (as_mul AS _ _ H1) as [_ [_ E2]]. destruct (as_mul AS _ _ H2) as [_ [H3 E3]].
    destruct (as_sub AS _ _ H3) as [_ [_ E4]].
    eexists; split; [reflexivity|].
    unfold ema_rel, ema_map. cbn [ema_last ema_out ema_n].
    rewrite E1, E2, E3, E4, (proj2 (as_s1 AS)). reflexivity.
Qed.

Theorem ema_alpha_bridge_gen n alpha fs : N n ->
  all_finite_run finb (@ema_core_alpha A OA n alpha) (ema_sfin finb n alpha) fs = true ->
  res_map (option_map phi) (cout (@ema_core_alpha A OA n alpha) fs)
  = cout (@ema_core_alpha R OB n (phi alpha)) (map phi fs).
Proof.
  intros Hn Hc.
  apply (@core_bridge A phi finb (@ema_core_alpha A OA n alpha) (@ema_core_alpha R OB n (phi alpha))
           (ema_sfin finb n alpha) ema_rel (length fs)).
  - intros s E. cbn [cnew ema_core_alpha] in *. inversion E; subst s. eexists; split; [reflexivity|].
    unfold ema_rel, ema_map. cbn [ema_last ema_out ema_n]. rewrite (proj2 (as_s0 AS)). reflexivity.
  - intros k s t v s' _ Hr _ E Hs'. exact (ema_step_sim n alpha k s t v s' Hn Hr E Hs').
  - intros k s t o _ Hr _ E _. unfold ema_rel in Hr. subst t. cbn [clast ema_core_alpha ema_map ema_n ema_out] in *.
    destruct (Nat.ltb (ema_n s) n); inversion E; subst o; reflexivity.
  - lia.
  - exact Hc.
Qed.

(** ** WelfordRolling observed through [mean()]: the sum of squares [wr_s] is not related (it may overflow) *)
Definition wr_rel (k : nat) (s : @wr_st A) (t : @wr_st R) : Prop :=
  wr_n t = wr_n s /\ wr_mean t = phi (wr_mean s) /\ wr_n s = k.

Lemma wr_step_sim k s t v s' : N (S k) -> wr_rel k s t ->
  @wr_step A OA s v = Ok s' -> wr_mean_sfin finb s' = true ->
  exists t', @wr_step R OB t (phi v) = Ok t' /\ wr_rel (S k) s' t'.
Proof.
  intros Hk [Hn [Hm Hk']] E Hs'. unfold wr_step in *. rewrite Hn, Hm, Hk' in *.
  destruct (as_nat AS _ Hk) as [Fn En].
  destruct (@sdiv A OA (ssub v (wr_mean s)) (sofnat (S k))) as [d|e] eqn:Ed; [|discriminate]. cbn [bind] in E.
  inversion E; subst s'; clear E. unfold wr_mean_sfin in Hs'. cbn [wr_mean] in Hs'.
  destruct (as_add AS _ _ Hs') as [_ [Fd Ea]].
  destruct (as_div AS _ _ _ Fn Ed Fd) as [Fs Ed'].
  destruct (as_sub AS _ _ Fs) as [_ [_ Es]].
  rewrite Es, En in Ed'. rewrite Ed'. cbn [bind].
  eexists; split; [reflexivity|]. unfold wr_rel. cbn [wr_n wr_mean].
  split; [reflexivity|]. split; [symmetry; exact Ea | reflexivity].
Qed.

Theorem wr_mean_bridge_gen fs : (forall j, (1 <= j <= length fs)%nat -> N j) ->
  all_finite_wr_mean finb fs = true ->
  res_map (option_map phi) (cout (@wrolling_mean_core A OA) fs) = cout (@wrolling_mean_core R OB) (map phi fs).
Proof.
  intros HN Hc.
  apply (@core_bridge A phi finb (@wrolling_mean_core A OA) (@wrolling_mean_core R OB) (wr_mean_sfin finb) wr_rel (length fs)).
  - intros s E. cbn [cnew wrolling_mean_core] in *. inversion E; subst s. eexists; split; [reflexivity|].
    unfold wr_rel, wr_new. cbn [wr_n wr_mean]. split; [reflexivity|]. split; [symmetry; exact (proj2 (as_s0 AS)) | reflexivity].
  - intros k s t v s' Hk Hr _ E Hs'. apply (wr_step_sim k s t v s'); try assumption. apply HN. lia.
  - intros k s t o _ [_ [Hm _]] _ E _. cbn [clast wrolling_mean_core] in *. inversion E; subst o.
    cbn [option_map]. rewrite Hm. reflexivity.
  - lia.
  - exact Hc.
Qed.
End Views.
Arguments sma_bridge_gen {A OA OB phi finb N} AS n fs.
Arguments sma_map {A} phi s.
Arguments sma_bridge_run_gen {A OA OB phi finb N} AS n fs.
Arguments cumulative_bridge_gen {A OA OB phi finb N} AS n fs.
Arguments ema_alpha_bridge_gen {A OA OB phi finb N} AS n alpha fs.
Arguments wr_mean_bridge_gen {A OA OB phi finb N} AS fs.

(** * 4. What the checker says about the run it checks: no error, finite answer *)
Section ChkFacts.
Variable A : Type.
Variable finb : A -> bool.
Variable cA : core A.
Variable sfin : cst cA -> bool.

Lemma cfold_chk_ok vs : forall s, st_ok finb cA sfin s = true -> cfold_chk finb cA sfin s vs = true ->
  exists s', cfold cA s vs = Ok s' /\ st_ok finb cA sfin s' = true.
Proof.
  induction vs as [|v vs IH]; intros s Hs Hc; [exists s; auto|].
  cbn [cfold_chk cfold] in *. destruct (cstep cA s v) as [s1|e]; [|discriminate].
  apply andb_true_iff in Hc. destruct Hc as [H1 H2]. cbn [bind]. apply IH; assumption.
Qed.

Theorem all_finite_run_cout fs : all_finite_run finb cA sfin fs = true ->
  exists s o, crun cA fs = Ok s /\ sfin s = true /\ cout cA fs = Ok o /\ ofin finb o = true.
Proof.
  unfold all_finite_run, cout, crun. destruct (cnew cA) as [s|e]; [|discriminate]. intros H.
  apply andb_true_iff in H. destruct H as [H1 H2]. cbn [bind].
  destruct (cfold_chk_ok fs s H1 H2) as [s' [E Hs']]. rewrite E. cbn [bind].
  unfold st_ok in Hs'. apply andb_true_iff in Hs'. destruct Hs' as [Hf Ho].
  destruct (clast cA s') as [o|e']; [|discriminate]. exists s', o. auto.
Qed.
End ChkFacts.
Arguments all_finite_run_cout {A} finb cA sfin fs.

(** * 5. The checker implies that the inputs were finite (so [Forall fin fs] need not be assumed) *)
Section InputsFinite.
Variable A : Type.
Variable finb : A -> bool.
Variable cA : core A.
Variable sfin : cst cA -> bool.
Hypothesis step_fin : forall s v s', cstep cA s v = Ok s' -> sfin s' = true -> finb v = true.

Lemma cfold_chk_inputs vs : forall s, cfold_chk finb cA sfin s vs = true -> Forall (fun x => finb x = true) vs.
Proof.
  induction vs as [|v vs IH]; intros s H; [constructor|]. cbn [cfold_chk] in H.
  destruct (cstep cA s v) as [s1|e] eqn:E; [|discriminate].
  apply andb_true_iff in H. destruct H as [H1 H2]. unfold st_ok in H1. apply andb_true_iff in H1. destruct H1 as [H1 _].
  constructor; [exact (step_fin s v s1 E H1) | exact (IH s1 H2)].
Qed.
Lemma all_finite_run_inputs vs : all_finite_run finb cA sfin vs = true -> Forall (fun x => finb x = true) vs.
Proof.
  unfold all_finite_run. destruct (cnew cA) as [s|e]; [|discriminate]. intros H.
  apply andb_true_iff in H. destruct H as [_ H]. exact (cfold_chk_inputs vs s H).
Qed.
End InputsFinite.

Section ViewsInputs.
Variable A : Type.
Variable OA : Ops A.
Variable OB : Ops R.
Variable phi : A -> R.
Variable finb : A -> bool.
Variable N : nat -> Prop.
Hypothesis AS : arith_sim OA OB phi finb N.

Lemma forallb_snoc q v : forallb finb (q ++ [v]) = true -> finb v = true.
Proof. rewrite forallb_app. cbn. intros H. apply andb_true_iff in H. destruct H as [_ H]. apply andb_true_iff in H. tauto. Qed.

Theorem sma_inputs_finite n fs : all_finite_sma finb n fs = true -> Forall (fun x => finb x = true) fs.
Proof.
  apply all_finite_run_inputs. intros s v s' E H. cbn [cstep sma_core] in E. unfold sma_step in E.
  destruct (Nat.leb n (length (sma_q s))).
  - destruct (sma_q s) as [|old q']; [cbn in E; discriminate|]. cbn [pop_front bind] in E. inversion E; subst s'.
    unfold sma_sfin in H. cbn [sma_q] in H. apply andb_true_iff in H. destruct H as [H _]. exact (forallb_snoc _ _ H).
  - cbn [bind] in E. inversion E; subst s'.
    unfold sma_sfin in H. cbn [sma_q] in H. apply andb_true_iff in H. destruct H as [H _]. exact (forallb_snoc _ _ H).
Qed.
Theorem cumulative_inputs_finite n fs : all_finite_cumulative finb n fs = true -> Forall (fun x => finb x = true) fs.
Proof.
  apply all_finite_run_inputs. intros s v s' E H. cbn [cstep cumulative_core] in E. unfold cum_step in E.
  destruct (Nat.leb n (length (cum_q s))).
  - destruct (cum_q s) as [|old q']; [cbn in E; discriminate|]. cbn [pop_front bind] in E. inversion E; subst s'.
    unfold cum_sfin in H. cbn [cum_q] in H. apply andb_true_iff in H. destruct H as [H _]. exact (forallb_snoc _ _ H).
  - cbn [bind] in E. inversion E; subst s'.
    unfold cum_sfin in H. cbn [cum_q] in H. apply andb_true_iff in H. destruct H as [H _]. exact (forallb_snoc _ _ H).
Qed.
Theorem ema_inputs_finite n alpha fs :
  all_finite_run finb (@ema_core_alpha A OA n alpha) (ema_sfin finb n alpha) fs = true -> Forall (fun x => finb x = true) fs.
Proof.
  apply all_finite_run_inputs. intros s v s' E H. cbn [cstep ema_core_alpha] in E. unfold ema_step in E.
  unfold ema_sfin in H. apply andb_true_iff in H. destruct H as [H _].
  apply andb_true_iff in H. destruct H as [H _]. apply andb_true_iff in H. destruct H as [Hl _].
  destruct (@sdiv A OA alpha (sadd s1 (sofnat n))) as [w|e]; [|discriminate]. cbn [bind] in E.
  destruct (Nat.eqb (S (ema_n s)) 1); inversion E; subst s'; cbn [ema_last] in Hl; [exact Hl|].
  destruct (as_add AS _ _ Hl) as [H1 _]. destruct (as_mul AS _ _ H1) as [Hv _]. exact Hv.
Qed.
End ViewsInputs.
Arguments sma_inputs_finite {A OA} finb n fs.
Arguments cumulative_inputs_finite {A OA} finb n fs.
Arguments ema_inputs_finite {A OA OB phi finb N} AS n alpha fs.

Print Assumptions core_bridge.
Print Assumptions sma_bridge_gen.
Print Assumptions cumulative_bridge_gen.
Print Assumptions ema_alpha_bridge_gen.
Print Assumptions wr_mean_bridge_gen.
