(** Cumulative, Min, Max, Roc (cumulative.rs min.rs max.rs roc.rs): closed forms (C02), finite
    memory (C03), range facts (C07), scaling (C12), linearity of Cumulative (C10); at [R]. *)
From Coq Require Import List Arith Lia Reals Lra.
From SF Require Import Res Scalar View Models Spec SpecWinA Core.
From SF.Proofs Require Import Window RBase Pure.
Import ListNotations.
Open Scope R_scope.

(** * General list lemmas *)

Lemma lastn_map {A B} (f : A -> B) n (l : list A) : lastn n (map f l) = map f (lastn n l).
Proof. unfold lastn. rewrite map_length. apply skipn_map. Qed.

Lemma skipn_map2 {A B C} (f : A -> B -> C) k (xs : list A) (ys : list B) :
  skipn k (map2 f xs ys) = map2 f (skipn k xs) (skipn k ys).
Proof.
  revert xs ys; induction k as [|k IH]; intros xs ys; [reflexivity|].
  destruct xs as [|x xs]; [reflexivity|]. destruct ys as [|y ys]; cbn [map2 skipn].
  - destruct (skipn k xs); reflexivity.
  - apply IH.
Qed.

Lemma map2_length_eq {A B C} (f : A -> B -> C) (xs : list A) (ys : list B) :
  length xs = length ys -> length (map2 f xs ys) = length xs.
Proof.
  revert ys; induction xs as [|x xs IH]; intros ys H; destruct ys as [|y ys]; cbn in *; try lia.
  rewrite IH; lia.
Qed.

Lemma lastn_map2 {A B C} (f : A -> B -> C) n (xs : list A) (ys : list B) :
  length xs = length ys -> lastn n (map2 f xs ys) = map2 f (lastn n xs) (lastn n ys).
Proof.
  intros H. unfold lastn. rewrite map2_length_eq by assumption. rewrite <- H. apply skipn_map2.
Qed.

Lemma lastn_nonnil {A} n (l : list A) : (1 <= n)%nat -> l <> [] -> lastn n l <> [].
Proof.
  intros Hn Hl E. pose proof (lastn_length n l) as L. rewrite E in L. cbn in L.
  destruct l; [congruence | cbn in L; lia].
Qed.

Lemma last_lastn {A} n (l : list A) d : (1 <= n)%nat -> last (lastn n l) d = last l d.
Proof.
  intros Hn. destruct l as [|a l] using rev_ind; [rewrite lastn_nil; reflexivity|].
  pose proof (evict_push_lastn n l a Hn) as E. rewrite <- E. rewrite !last_last. reflexivity.
Qed.

(** * Cumulative *)

Definition cum_inv (n : nat) (h : list R) (s : @cum_st R) : Prop :=
  cum_q s = lastn n h /\ cum_out s = @spec_cumulative R ROps n h.

Lemma spec_cumulative_snoc n (h : list R) v :
  @spec_cumulative R ROps n (h ++ [v]) = Some (@ssum R ROps (lastn n (h ++ [v]))).
Proof. unfold spec_cumulative. destruct h; reflexivity. Qed.

Lemma spec_cumulative_nonnil n (h : list R) : h <> [] ->
  @spec_cumulative R ROps n h = Some (@ssum R ROps (lastn n h)).
Proof. unfold spec_cumulative. destruct h; [congruence | reflexivity]. Qed.

Lemma cum_step_inv n h s v : (1 <= n)%nat -> cum_inv n h s ->
  exists s', cum_step n s v = Ok s' /\ cum_inv n (h ++ [v]) s'.
Proof.
  intros Hn [Hq Ho]. unfold cum_step. rewrite Hq.
  pose proof (evict_push_lastn n h v Hn) as Hev.
  destruct (Nat.leb n (length (lastn n h))) eqn:E.
  - apply Nat.leb_le in E. rewrite lastn_length in E.
    destruct (lastn_hd_tl n h) as [x Hx]; [lia | lia |].
    assert (Hh : h <> []) by (intros ->; cbn in E; lia).
    rewrite (spec_cumulative_nonnil n h Hh) in Ho.
    rewrite Hx in *. cbn [pop_front bind tl] in *.
    eexists; split; [reflexivity|]. split; cbn [cum_q cum_out].
    + exact Hev.
    + rewrite spec_cumulative_snoc, <- Hev, Ho. f_equal.
      rewrite ssum_R_app, ssum_R_cons. cbn [sadd ssub ROps]. lra.
  - cbn [bind]. eexists; split; [reflexivity|]. split; cbn [cum_q cum_out].
    + exact Hev.
    + rewrite spec_cumulative_snoc, <- Hev, Ho, ssum_R_app. f_equal.
      destruct h as [|h0 h'].
      * rewrite lastn_nil. cbn [spec_cumulative ssum fold_left sadd s0 ROps]. lra.
      * rewrite spec_cumulative_nonnil by discriminate. cbn [sadd ROps]. lra.
Qed.

(** C02 Cumulative: the sum of the [n] most recent values (of all values while fewer exist). *)
Theorem cumulative_closed_form n vs : (1 <= n)%nat ->
  cout (@cumulative_core R ROps n) vs = Ok (@spec_cumulative R ROps n vs).
Proof.
  intros Hn.
  destruct (@crun_inv R (@cumulative_core R ROps n) (fun _ => True) (cum_inv n)
              {| cum_q := []; cum_out := None |}) with (vs:=vs) as [s [Hr [Hq Ho]]].
  - reflexivity.
  - split; reflexivity.
  - intros h s v _ _ Hi. apply cum_step_inv; assumption.
  - apply Forall_forall; trivial.
  - unfold cout. rewrite Hr. cbn [bind clast cumulative_core]. rewrite Ho. reflexivity.
Qed.
Example cumulative_closed_form_ex : (1 <= 3)%nat. Proof. lia. Qed.

(** * Min / Max: folds of a selective associative operation *)

Section Lfold.
Variable op : R -> R -> R.
Hypothesis op_assoc : forall a b c, op (op a b) c = op a (op b c).
Hypothesis op_sel : forall a b, op a b = a \/ op a b = b.

Definition lfold (q : list R) : option R :=
  match q with [] => None | x :: r => Some (fold_left op r x) end.

Lemma fold_op_shift r a b : fold_left op r (op a b) = op a (fold_left op r b).
Proof.
  revert b; induction r as [|y r IH]; intros b; cbn [fold_left]; [reflexivity|].
  rewrite op_assoc. apply IH.
Qed.

Lemma lfold_snoc q v :
  lfold (q ++ [v]) = Some (match lfold q with Some m => op m v | None => v end).
Proof.
  destruct q as [|x r]; cbn [app lfold fold_left]; [reflexivity|].
  rewrite fold_left_app. reflexivity.
Qed.

Lemma lfold_cons x q :
  lfold (x :: q) = Some (match lfold q with Some m => op x m | None => x end).
Proof.
  destruct q as [|y r]; cbn [lfold fold_left]; [reflexivity|].
  rewrite fold_op_shift. reflexivity.
Qed.

(** eviction: after removing the oldest element [x], either it was the extremum and the
    extremum is recomputed, or the old extremum is still the extremum of the rest *)
Lemma lfold_evict x q m : lfold (x :: q) = Some m ->
  (if Reqb x m then lfold q else Some m) = lfold q.
Proof.
  rewrite lfold_cons. intros H. injection H as Hm.
  destruct (Reqb x m) eqn:E; [reflexivity|]. apply Reqb_false in E.
  destruct (lfold q) as [M|].
  - destruct (op_sel x M) as [H|H]; [rewrite Hm in H; congruence | rewrite <- Hm, H; reflexivity].
  - congruence.
Qed.

Lemma lfold_In q m : lfold q = Some m -> In m q.
Proof.
  revert m; induction q as [|x q IH]; intros m; [discriminate|].
  rewrite lfold_cons. intros H; injection H as Hm. subst m.
  destruct (lfold q) as [M|]; [|left; reflexivity].
  destruct (op_sel x M) as [H|H]; rewrite H; [left; reflexivity | right; apply IH; reflexivity].
Qed.

Lemma lfold_some q : q <> [] -> exists m, lfold q = Some m.
Proof. destruct q; [congruence | cbn; eauto]. Qed.

Lemma lfold_bound (le : R -> R -> Prop) :
  (forall a, le a a) -> (forall a b c, le a b -> le b c -> le a c) ->
  (forall a b, le (op a b) a /\ le (op a b) b) ->
  forall q m, lfold q = Some m -> forall x, In x q -> le m x.
Proof.
  intros Hrefl Htrans Hop. induction q as [|y q IH]; intros m Hm x Hin; [destruct Hin|].
  rewrite lfold_cons in Hm. injection Hm as Hm'. subst m.
  destruct (lfold q) as [M|] eqn:EM.
  - destruct (Hop y M) as [H1 H2]. destruct Hin as [->|Hin]; [exact H1|].
    eapply Htrans; [exact H2|]. apply IH; [reflexivity | exact Hin].
  - destruct q; [|discriminate]. destruct Hin as [->|[]]. apply Hrefl.
Qed.
End Lfold.

(** distribution of a map over the fold: covers positive scaling and negation *)
Lemma lfold_map (op op' : R -> R -> R) (g : R -> R) :
  (forall a b, g (op a b) = op' (g a) (g b)) ->
  forall q, lfold op' (map g q) = option_map g (lfold op q).
Proof.
  intros Hg q. destruct q as [|x r]; [reflexivity|]. cbn [map lfold option_map]. f_equal.
  revert x; induction r as [|y r IH]; intros x; cbn [map fold_left]; [reflexivity|].
  rewrite <- Hg. apply IH.
Qed.

Lemma lfold_ext (f op : R -> R -> R) : (forall a b, f a b = op a b) ->
  forall q, match q with [] => None | x :: r => Some (fold_left f r x) end = lfold op q.
Proof.
  intros H q. destruct q as [|x r]; [reflexivity|]. cbn [lfold]. f_equal.
  revert x; induction r as [|y r IH]; intros x; cbn [fold_left]; [reflexivity|]. rewrite H. apply IH.
Qed.

Lemma Rmin_sel a b : Rmin a b = a \/ Rmin a b = b.
Proof. unfold Rmin; destruct (Rle_dec a b); auto. Qed.
Lemma Rmax_sel a b : Rmax a b = a \/ Rmax a b = b.
Proof. unfold Rmax; destruct (Rle_dec a b); auto. Qed.

Lemma Rmin_assoc' a b c : Rmin (Rmin a b) c = Rmin a (Rmin b c).
Proof. unfold Rmin. repeat destruct (Rle_dec _ _); lra. Qed.
Lemma Rmax_assoc' a b c : Rmax (Rmax a b) c = Rmax a (Rmax b c).
Proof. unfold Rmax. repeat destruct (Rle_dec _ _); lra. Qed.

(** the model's and the specification's folds are folds of [Rmin] / [Rmax] *)
Lemma Rltb_min_spec m y : (if Rltb y m then y else m) = Rmin m y.
Proof.
  unfold Rmin. destruct (Rltb y m) eqn:E; destruct (Rle_dec m y) as [H|H]; try reflexivity.
  - apply Rltb_true in E. lra.
  - apply Rltb_false in E. lra.
Qed.
Lemma Rltb_max_spec m y : (if Rltb m y then y else m) = Rmax m y.
Proof.
  unfold Rmax. destruct (Rltb m y) eqn:E; destruct (Rle_dec m y) as [H|H]; try reflexivity.
  - apply Rltb_true in E. lra.
  - apply Rltb_false in E. lra.
Qed.
Lemma Rltb_max_model m y : (if Rltb y m then m else y) = Rmax m y.
Proof.
  unfold Rmax. destruct (Rltb y m) eqn:E; destruct (Rle_dec m y) as [H|H]; try reflexivity.
  - apply Rltb_true in E. lra.
  - apply Rltb_false in E. lra.
Qed.

Lemma lmin_R q : @lmin R ROps q = lfold Rmin q.
Proof. unfold lmin. apply lfold_ext. intros a b. cbn [sltb ROps]. apply Rltb_min_spec. Qed.
Lemma lmax_R q : @lmax R ROps q = lfold Rmax q.
Proof. unfold lmax. apply lfold_ext. intros a b. cbn [sltb ROps]. apply Rltb_max_spec. Qed.
Lemma min_by_R q : @min_by R ROps q = lfold Rmin q.
Proof. unfold min_by. apply lfold_ext. intros a b. unfold sgtb. cbn [sltb ROps]. apply Rltb_min_spec. Qed.
Lemma max_by_R q : @max_by R ROps q = lfold Rmax q.
Proof. unfold max_by. apply lfold_ext. intros a b. unfold sgtb. cbn [sltb ROps]. apply Rltb_max_model. Qed.

Definition ext_inv (op : R -> R -> R) (n : nat) (h : list R) (s : @ext_st R) : Prop :=
  ext_q s = lastn n h /\ ext_opt s = lfold op (lastn n h).

Lemma min_step_inv n h s v : (1 <= n)%nat -> ext_inv Rmin n h s ->
  exists s', min_step n s v = Ok s' /\ ext_inv Rmin n (h ++ [v]) s'.
Proof.
  intros Hn [Hq Ho]. unfold min_step. rewrite Hq, Ho.
  pose proof (evict_push_lastn n h v Hn) as Hev.
  destruct (Nat.leb n (length (lastn n h))) eqn:E.
  - apply Nat.leb_le in E. rewrite lastn_length in E.
    destruct (lastn_hd_tl n h) as [x Hx]; [lia | lia |].
    rewrite Hx in *. cbn [pop_front bind tl] in *.
    destruct (lfold Rmin (x :: tl (lastn n h))) as [m|] eqn:Em; [|discriminate].
    cbn [seqb ROps]. rewrite min_by_R, (lfold_evict Rmin Rmin_assoc' Rmin_sel _ _ _ Em). cbn [bind].
    eexists; split; [reflexivity|]. split; cbn [ext_q ext_opt]; [exact Hev|].
    rewrite <- Hev, lfold_snoc. f_equal.
    destruct (lfold Rmin (tl (lastn n h))); [|reflexivity]. cbn [sltb ROps]. apply Rltb_min_spec.
  - cbn [bind]. eexists; split; [reflexivity|]. split; cbn [ext_q ext_opt]; [exact Hev|].
    rewrite <- Hev, lfold_snoc. f_equal.
    destruct (lfold Rmin (lastn n h)); [|reflexivity]. cbn [sltb ROps]. apply Rltb_min_spec.
Qed.

Lemma max_step_inv n h s v : (1 <= n)%nat -> ext_inv Rmax n h s ->
  exists s', max_step n s v = Ok s' /\ ext_inv Rmax n (h ++ [v]) s'.
Proof.
  intros Hn [Hq Ho]. unfold max_step. rewrite Hq, Ho.
  pose proof (evict_push_lastn n h v Hn) as Hev.
  destruct (Nat.leb n (length (lastn n h))) eqn:E.
  - apply Nat.leb_le in E. rewrite lastn_length in E.
    destruct (lastn_hd_tl n h) as [x Hx]; [lia | lia |].
    rewrite Hx in *. cbn [pop_front bind tl] in *.
    destruct (lfold Rmax (x :: tl (lastn n h))) as [m|] eqn:Em; [|discriminate].
    cbn [seqb ROps]. rewrite max_by_R, (lfold_evict Rmax Rmax_assoc' Rmax_sel _ _ _ Em). cbn [bind].
    eexists; split; [reflexivity|]. split; cbn [ext_q ext_opt]; [exact Hev|].
    rewrite <- Hev, lfold_snoc. f_equal.
    destruct (lfold Rmax (tl (lastn n h))); [|reflexivity]. unfold sgtb. cbn [sltb ROps]. apply Rltb_max_spec.
  - cbn [bind]. eexists; split; [reflexivity|]. split; cbn [ext_q ext_opt]; [exact Hev|].
    rewrite <- Hev, lfold_snoc. f_equal.
    destruct (lfold Rmax (lastn n h)); [|reflexivity]. unfold sgtb. cbn [sltb ROps]. apply Rltb_max_spec.
Qed.

Lemma ext_new_ok n : (1 <= n)%nat -> @ext_new R n = Ok {| ext_q := []; ext_opt := None |}.
Proof.
  intros Hn. unfold ext_new. destruct (Nat.ltb_spec 0 n) as [H|H]; [reflexivity | lia].
Qed.

(** C02 Min: the minimum of the [n] most recent values (of all values while fewer exist). *)
Theorem min_closed_form n vs : (1 <= n)%nat ->
  cout (@min_core R ROps n) vs = Ok (@spec_min R ROps n vs).
Proof.
  intros Hn.
  destruct (@crun_inv R (@min_core R ROps n) (fun _ => True) (ext_inv Rmin n)
              {| ext_q := []; ext_opt := None |}) with (vs:=vs) as [s [Hr [Hq Ho]]].
  - apply ext_new_ok; assumption.
  - split; reflexivity.
  - intros h s v _ _ Hi. apply min_step_inv; assumption.
  - apply Forall_forall; trivial.
  - unfold cout. rewrite Hr. cbn [bind clast min_core]. rewrite Ho. unfold spec_min. rewrite lmin_R. reflexivity.
Qed.
Example min_closed_form_ex : (1 <= 3)%nat. Proof. lia. Qed.

(** C02 Max: the maximum of the [n] most recent values (of all values while fewer exist). *)
Theorem max_closed_form n vs : (1 <= n)%nat ->
  cout (@max_core R ROps n) vs = Ok (@spec_max R ROps n vs).
Proof.
  intros Hn.
  destruct (@crun_inv R (@max_core R ROps n) (fun _ => True) (ext_inv Rmax n)
              {| ext_q := []; ext_opt := None |}) with (vs:=vs) as [s [Hr [Hq Ho]]].
  - apply ext_new_ok; assumption.
  - split; reflexivity.
  - intros h s v _ _ Hi. apply max_step_inv; assumption.
  - apply Forall_forall; trivial.
  - unfold cout. rewrite Hr. cbn [bind clast max_core]. rewrite Ho. unfold spec_max. rewrite lmax_R. reflexivity.
Qed.
Example max_closed_form_ex : (1 <= 3)%nat. Proof. lia. Qed.

(** * Roc *)

Lemma roc_walk_snoc n (seen : list R) prev rest v :
  @roc_walk R ROps n seen prev (rest ++ [v]) =
  @roc_out1 R ROps n (seen ++ rest) (@roc_walk R ROps n seen prev rest) v.
Proof.
  revert seen prev; induction rest as [|a rest IH]; intros seen prev; cbn [app roc_walk].
  - rewrite app_nil_r. reflexivity.
  - rewrite IH, <- app_assoc. reflexivity.
Qed.

(** the recursion equation of the specification, one value at a time *)
Lemma spec_roc_snoc n (h : list R) v :
  @spec_roc R ROps n (h ++ [v]) = @roc_out1 R ROps n h (@spec_roc R ROps n h) v.
Proof. unfold spec_roc. rewrite roc_walk_snoc. reflexivity. Qed.

(** ... and in plain real arithmetic *)
Lemma roc_out1_R n (h : list R) prev v :
  @roc_out1 R ROps n h prev v =
  let b := @roc_base R n h v in
  if Req_EM_T b 0 then prev else Some ((v - b) / b * 100).
Proof.
  unfold roc_out1. cbn zeta. cbn [seqb s0 ROps]. unfold Reqb.
  destruct (Req_EM_T (roc_base n h v) 0) as [H|H]; [reflexivity|].
  rewrite sdivd_R by assumption. cbn [smul ssub sofdec ROps]. f_equal.
  change (Z.of_nat 0) with 0%Z. change (10 ^ 0)%Z with 1%Z. field. assumption.
Qed.

Lemma nth_hd_skipn {A} k (l : list A) d : nth k l d = hd d (skipn k l).
Proof.
  revert l; induction k as [|k IH]; intros l; destruct l as [|a l]; cbn [nth skipn hd]; try reflexivity.
  apply IH.
Qed.

Lemma roc_base_full n (h : list R) v : (n <= length h)%nat ->
  @roc_base R n h v = hd v (lastn n h).
Proof.
  intros H. unfold roc_base. destruct (Nat.leb_spec n (length h)) as [_|H']; [|lia].
  unfold lastn. apply nth_hd_skipn.
Qed.
Lemma roc_base_warm n (h : list R) v : (length h < n)%nat ->
  @roc_base R n h v = hd v h.
Proof.
  intros H. unfold roc_base. destruct (Nat.leb_spec n (length h)) as [H'|_]; [lia | reflexivity].
Qed.

Definition roc_inv (n : nat) (h : list R) (s : @roc_st R) : Prop :=
  roc_q s = lastn n h /\ ((length h < n)%nat -> roc_oldest s = hd_error h) /\
  roc_out s = @spec_roc R ROps n h.

Lemma roc_step_inv n h s v : (1 <= n)%nat -> roc_inv n h s ->
  exists s', roc_step n s v = Ok s' /\ roc_inv n (h ++ [v]) s'.
Proof.
  intros Hn (Hq & Hold & Ho). unfold roc_step. rewrite Hq.
  pose proof (evict_push_lastn n h v Hn) as Hev.
  assert (Hpre : exists q',
     (if Nat.leb n (length (lastn n h))
      then do old <- front (lastn n h); Ok (Some old, tl (lastn n h))
      else Ok (match lastn n h with [] => Some v | _ :: _ => roc_oldest s end, lastn n h))
     = Ok (Some (@roc_base R n h v), q') /\ q' ++ [v] = lastn n (h ++ [v])).
  { destruct (Nat.leb n (length (lastn n h))) eqn:E.
    - apply Nat.leb_le in E. rewrite lastn_length in E.
      destruct (lastn_hd_tl n h) as [x Hx]; [lia | lia |].
      exists (tl (lastn n h)). split; [|exact Hev].
      rewrite roc_base_full by lia. rewrite Hx. reflexivity.
    - apply Nat.leb_gt in E. rewrite lastn_length in E. assert (Hl : (length h < n)%nat) by lia.
      exists (lastn n h). split; [|exact Hev].
      rewrite roc_base_warm by exact Hl. rewrite lastn_all by lia.
      destruct h as [|h0 h']; [reflexivity|]. rewrite (Hold Hl). reflexivity. }
  destruct Hpre as (q' & Hpre & Hq'). rewrite Hpre. cbn [bind].
  assert (Hold' : (length (h ++ [v]) < n)%nat -> Some (@roc_base R n h v) = hd_error (h ++ [v])).
  { rewrite app_length. cbn [length]. intros Hl. rewrite roc_base_warm by lia.
    destruct h; reflexivity. }
  unfold roc_inv. rewrite spec_roc_snoc. unfold roc_out1. cbn zeta.
  destruct (seqb (@roc_base R n h v) s0) eqn:Eb.
  - eexists; split; [reflexivity|]. repeat split; cbn [roc_q roc_oldest roc_out]; assumption.
  - cbn [seqb s0 ROps] in Eb. apply Reqb_false in Eb.
    rewrite sdiv_R_ok by exact Eb. rewrite sdivd_R by exact Eb. cbn [bind].
    eexists; split; [reflexivity|]. repeat split; cbn [roc_q roc_oldest roc_out]; assumption.
Qed.

(** C02 Roc: 100 (x_t - b) / b with b = x_(t-n) (x_0 while t < n); the previous output is held
    when b = 0.  No guard on the values: zeros are allowed. *)
Theorem roc_closed_form n vs : (1 <= n)%nat ->
  cout (@roc_core R ROps n) vs = Ok (@spec_roc R ROps n vs).
Proof.
  intros Hn.
  destruct (@crun_inv R (@roc_core R ROps n) (fun _ => True) (roc_inv n)
              {| roc_oldest := None; roc_q := []; roc_out := None |}) with (vs:=vs) as [s [Hr (Hq & Hold & Ho)]].
  - reflexivity.
  - repeat split; reflexivity.
  - intros h s v _ _ Hi. apply roc_step_inv; assumption.
  - apply Forall_forall; trivial.
  - unfold cout. rewrite Hr. cbn [bind clast roc_core]. rewrite Ho. reflexivity.
Qed.
Example roc_closed_form_ex : (1 <= 3)%nat. Proof. lia. Qed.

(** * Finite memory (C03) *)

(** C03 Cumulative: the answer depends on the last [n] values only. *)
Theorem cumulative_finite_memory n p p' s : (1 <= n)%nat -> (n <= length s)%nat ->
  cout (@cumulative_core R ROps n) (p ++ s) = cout (@cumulative_core R ROps n) (p' ++ s).
Proof.
  intros Hn Hs. rewrite !cumulative_closed_form by assumption. f_equal.
  assert (Hne : forall q : list R, q ++ s <> []).
  { intros q E. apply (f_equal (@length R)) in E. rewrite app_length in E. cbn in E. lia. }
  rewrite !spec_cumulative_nonnil by apply Hne. rewrite !lastn_app_suffix by assumption. reflexivity.
Qed.
Example cumulative_finite_memory_ex : (1 <= 2)%nat /\ (2 <= length [1; 2; 3])%nat. Proof. cbn; lia. Qed.

(** C03 Min: the answer depends on the last [n] values only. *)
Theorem min_finite_memory n p p' s : (1 <= n)%nat -> (n <= length s)%nat ->
  cout (@min_core R ROps n) (p ++ s) = cout (@min_core R ROps n) (p' ++ s).
Proof.
  intros Hn Hs. rewrite !min_closed_form by assumption. unfold spec_min.
  rewrite !lastn_app_suffix by assumption. reflexivity.
Qed.
Example min_finite_memory_ex : (1 <= 2)%nat /\ (2 <= length [1; 2; 3])%nat. Proof. cbn; lia. Qed.

(** C03 Max: the answer depends on the last [n] values only. *)
Theorem max_finite_memory n p p' s : (1 <= n)%nat -> (n <= length s)%nat ->
  cout (@max_core R ROps n) (p ++ s) = cout (@max_core R ROps n) (p' ++ s).
Proof.
  intros Hn Hs. rewrite !max_closed_form by assumption. unfold spec_max.
  rewrite !lastn_app_suffix by assumption. reflexivity.
Qed.
Example max_finite_memory_ex : (1 <= 2)%nat /\ (2 <= length [1; 2; 3])%nat. Proof. cbn; lia. Qed.

(** the base of a step that has at least [n] predecessors [s] is the element [n] places before
    the new value, whatever came before [s] *)
Lemma roc_base_suffix n (p s : list R) v : (1 <= n)%nat -> (n <= length s)%nat ->
  @roc_base R n (p ++ s) v = nth (length s - n) s 0.
Proof.
  intros Hn Hs. rewrite roc_base_full by (rewrite app_length; lia).
  rewrite lastn_app_suffix by assumption. unfold lastn. rewrite <- nth_hd_skipn.
  apply nth_indep. lia.
Qed.

(** C02/C03 Roc, one step in window terms: with at least [n] predecessors [s], the new answer is
    the formula on the base [b] = element [n] places before [v] when [b <> 0], and the previous
    answer when [b = 0]. *)
Theorem roc_window_step n p s v : (1 <= n)%nat -> (n <= length s)%nat ->
  cout (@roc_core R ROps n) (p ++ s ++ [v]) =
  (let b := nth (length s - n) s 0 in
   if Req_EM_T b 0 then cout (@roc_core R ROps n) (p ++ s) else Ok (Some ((v - b) / b * 100))).
Proof.
  intros Hn Hs. rewrite !roc_closed_form by assumption. rewrite app_assoc, spec_roc_snoc, roc_out1_R.
  cbn zeta. rewrite roc_base_suffix by assumption.
  destruct (Req_EM_T (nth (length s - n) s 0) 0); reflexivity.
Qed.
Example roc_window_step_ex : (1 <= 2)%nat /\ (2 <= length [1; 2; 3])%nat. Proof. cbn; lia. Qed.

(** C03 Roc, K = n+1: when the base of the last step (the element [n] places before the newest
    value) is non-zero, the answer depends on the last [n+1] values only. *)
Theorem roc_finite_memory n p p' s : (1 <= n)%nat -> (S n <= length s)%nat ->
  nth (length s - S n) s 0 <> 0 ->
  cout (@roc_core R ROps n) (p ++ s) = cout (@roc_core R ROps n) (p' ++ s).
Proof.
  intros Hn Hs Hb. destruct s as [|v s] using rev_ind; [cbn in Hs; lia|]. clear IHs.
  rewrite app_length in Hs, Hb. cbn [length] in Hs, Hb.
  replace (length s + 1 - S n)%nat with (length s - n)%nat in Hb by lia.
  rewrite app_nth1 in Hb by lia.
  rewrite !roc_window_step by lia. cbn zeta.
  destruct (Req_EM_T (nth (length s - n) s 0) 0); [contradiction | reflexivity].
Qed.
Example roc_finite_memory_ex :
  (1 <= 1)%nat /\ (2 <= length [2; 3])%nat /\ nth (length [2; 3] - 2) [2; 3] 0 <> 0.
Proof. cbn. repeat split; try lia. lra. Qed.

(** C02/C03 Roc, the explicit hold: when the base of the new step is 0 the answer is the answer
    one step earlier (so it is NOT a function of the last [n+1] values). *)
Theorem roc_hold n h v : (1 <= n)%nat -> @roc_base R n h v = 0 ->
  cout (@roc_core R ROps n) (h ++ [v]) = cout (@roc_core R ROps n) h.
Proof.
  intros Hn Hb. rewrite !roc_closed_form by assumption. rewrite spec_roc_snoc, roc_out1_R.
  cbn zeta. destruct (Req_EM_T (roc_base n h v) 0); [reflexivity | contradiction].
Qed.
Example roc_hold_ex : (1 <= 1)%nat /\ @roc_base R 1 [0] 5 = 0. Proof. split; [lia | reflexivity]. Qed.

(** the same in window terms: at least [n] predecessors, element [n] places before [v] is 0 *)
Corollary roc_hold_window n h v : (1 <= n)%nat -> (n <= length h)%nat -> nth (length h - n) h 0 = 0 ->
  cout (@roc_core R ROps n) (h ++ [v]) = cout (@roc_core R ROps n) h.
Proof.
  intros Hn Hl Hb. apply roc_hold; [assumption|].
  rewrite <- (app_nil_l h). rewrite roc_base_suffix by assumption. exact Hb.
Qed.

(** Without the non-zero-base hypothesis Roc has no finite memory at all: for every [K] there are
    histories agreeing on their last [K] values (all 0) with different answers. *)
Lemma roc_base_zeros n (seen : list R) : Forall (fun x => x = 0) seen -> @roc_base R n seen 0 = 0.
Proof.
  intros H. unfold roc_base. destruct (Nat.leb n (length seen)).
  - destruct (nth_in_or_default (length seen - n) seen 0) as [Hin|Hd]; [|exact Hd].
    rewrite Forall_forall in H. apply H. exact Hin.
  - destruct H; [reflexivity | assumption].
Qed.

Lemma roc_walk_zeros n (seen : list R) k : Forall (fun x => x = 0) seen ->
  @roc_walk R ROps n seen None (repeat 0 k) = None.
Proof.
  revert seen; induction k as [|k IH]; intros seen H; cbn [repeat roc_walk]; [reflexivity|].
  rewrite roc_out1_R. cbn zeta. rewrite roc_base_zeros by assumption.
  destruct (Req_EM_T 0 0) as [_|N]; [|contradiction].
  apply IH. apply Forall_app. split; [assumption | repeat constructor].
Qed.

Lemma roc_walk_some n (seen : list R) x rest :
  exists y, @roc_walk R ROps n seen (Some x) rest = Some y.
Proof.
  revert seen x; induction rest as [|v rest IH]; intros seen x; cbn [roc_walk]; [eauto|].
  rewrite roc_out1_R. cbn zeta. destruct (Req_EM_T (roc_base n seen v) 0); apply IH.
Qed.

Theorem roc_finite_memory_unconditional_refuted n K : (1 <= n)%nat ->
  exists p p' s, (K <= length s)%nat /\
    cout (@roc_core R ROps n) (p ++ s) <> cout (@roc_core R ROps n) (p' ++ s).
Proof.
  intros Hn. exists [], [1], (repeat 0 (S K)). split; [rewrite repeat_length; lia|].
  rewrite !roc_closed_form by assumption. cbn [app].
  unfold spec_roc at 1. rewrite roc_walk_zeros by constructor.
  unfold spec_roc. cbn [repeat roc_walk app].
  assert (Hb : @roc_base R n [1] 0 = 1).
  { unfold roc_base. cbn [length]. destruct (Nat.leb_spec n 1) as [H|H]; [|reflexivity].
    replace (1 - n)%nat with 0%nat by lia. reflexivity. }
  rewrite (roc_out1_R n [1]). cbn zeta. rewrite Hb.
  destruct (Req_EM_T 1 0) as [H|_]; [lra|].
  destruct (roc_walk_some n [1; 0] ((0 - 1) / 1 * 100) (repeat 0 K)) as [y Hy]. rewrite Hy.
  discriminate.
Qed.

(** * Range facts (C07) *)

Lemma Rmin_both a b : Rmin a b <= a /\ Rmin a b <= b.
Proof. split; [apply Rmin_l | apply Rmin_r]. Qed.
Lemma Rmax_both a b : a <= Rmax a b /\ b <= Rmax a b.
Proof. split; [apply Rmax_l | apply Rmax_r]. Qed.

(** Min answers an element of the window that is below every element of the window. *)
Theorem min_is_minimum n vs m : (1 <= n)%nat -> cout (@min_core R ROps n) vs = Ok (Some m) ->
  In m (lastn n vs) /\ forall x, In x (lastn n vs) -> m <= x.
Proof.
  intros Hn H. rewrite min_closed_form in H by assumption. injection H as H.
  unfold spec_min in H. rewrite lmin_R in H. split.
  - apply (lfold_In Rmin Rmin_assoc' Rmin_sel _ _ H).
  - apply (lfold_bound Rmin Rmin_assoc' Rle Rle_refl Rle_trans Rmin_both _ _ H).
Qed.

(** Max answers an element of the window that is above every element of the window. *)
Theorem max_is_maximum n vs m : (1 <= n)%nat -> cout (@max_core R ROps n) vs = Ok (Some m) ->
  In m (lastn n vs) /\ forall x, In x (lastn n vs) -> x <= m.
Proof.
  intros Hn H. rewrite max_closed_form in H by assumption. injection H as H.
  unfold spec_max in H. rewrite lmax_R in H. split.
  - apply (lfold_In Rmax Rmax_assoc' Rmax_sel _ _ H).
  - assert (Ht : forall a b c : R, b <= a -> c <= b -> c <= a) by (intros a b c H1 H2; lra).
    apply (lfold_bound Rmax Rmax_assoc' (fun a b => b <= a) Rle_refl Ht Rmax_both _ _ H).
Qed.

Lemma last_In_lastn n (vs : list R) d : (1 <= n)%nat -> vs <> [] -> In (last vs d) (lastn n vs).
Proof.
  intros Hn Hne. destruct vs as [|a vs _] using rev_ind; [congruence|].
  rewrite last_last, <- (evict_push_lastn n vs a Hn). apply in_or_app. right. left. reflexivity.
Qed.

(** C07: on a non-empty history both answers exist, are attained in the window, bound every
    element of the window, and in particular the newest value. *)
Theorem min_max_range n vs : (1 <= n)%nat -> vs <> [] ->
  exists lo hi,
    cout (@min_core R ROps n) vs = Ok (Some lo) /\ cout (@max_core R ROps n) vs = Ok (Some hi) /\
    In lo (lastn n vs) /\ In hi (lastn n vs) /\
    (forall x, In x (lastn n vs) -> lo <= x <= hi) /\
    lo <= last vs 0 <= hi.
Proof.
  intros Hn Hne. pose proof (lastn_nonnil n vs Hn Hne) as Hw.
  destruct (lfold_some Rmin _ Hw) as [lo Hlo]. destruct (lfold_some Rmax _ Hw) as [hi Hhi].
  assert (Cmin : cout (@min_core R ROps n) vs = Ok (Some lo)).
  { rewrite min_closed_form by assumption. unfold spec_min. rewrite lmin_R, Hlo. reflexivity. }
  assert (Cmax : cout (@max_core R ROps n) vs = Ok (Some hi)).
  { rewrite max_closed_form by assumption. unfold spec_max. rewrite lmax_R, Hhi. reflexivity. }
  destruct (min_is_minimum n vs lo Hn Cmin) as [Ilo Blo].
  destruct (max_is_maximum n vs hi Hn Cmax) as [Ihi Bhi].
  exists lo, hi. repeat split; auto.
  - apply Blo. apply last_In_lastn; assumption.
  - apply Bhi. apply last_In_lastn; assumption.
Qed.
Example min_max_range_ex : (1 <= 2)%nat /\ [1; 2; 3] <> []. Proof. split; [lia | discriminate]. Qed.

(** * Scaling (C12) *)

Definition omap (g : R -> R) (r : res (option R)) : res (option R) :=
  do o <- r; Ok (option_map g o).

Lemma Rmin_scale a x y : 0 <= a -> a * Rmin x y = Rmin (a * x) (a * y).
Proof. intros Ha. unfold Rmin. destruct (Rle_dec x y), (Rle_dec (a * x) (a * y)); nra. Qed.
Lemma Rmax_scale a x y : 0 <= a -> a * Rmax x y = Rmax (a * x) (a * y).
Proof. intros Ha. unfold Rmax. destruct (Rle_dec x y), (Rle_dec (a * x) (a * y)); nra. Qed.
Lemma Ropp_Rmax_Rmin x y : - Rmax x y = Rmin (- x) (- y).
Proof. unfold Rmax, Rmin. destruct (Rle_dec x y), (Rle_dec (- x) (- y)); lra. Qed.
Lemma Ropp_Rmin_Rmax x y : - Rmin x y = Rmax (- x) (- y).
Proof. unfold Rmax, Rmin. destruct (Rle_dec x y), (Rle_dec (- x) (- y)); lra. Qed.

(** C12 Min: positive (even non-negative) scaling commutes with Min. *)
Theorem min_scale n a vs : (1 <= n)%nat -> 0 <= a ->
  cout (@min_core R ROps n) (map (Rmult a) vs) = omap (Rmult a) (cout (@min_core R ROps n) vs).
Proof.
  intros Hn Ha. rewrite !min_closed_form by assumption. unfold omap, spec_min. cbn [bind]. f_equal.
  rewrite lastn_map, !lmin_R. apply lfold_map. intros x y. apply Rmin_scale; assumption.
Qed.
Example min_scale_ex : (1 <= 2)%nat /\ 0 <= 3. Proof. split; [lia | lra]. Qed.

(** C12 Max: positive (even non-negative) scaling commutes with Max. *)
Theorem max_scale n a vs : (1 <= n)%nat -> 0 <= a ->
  cout (@max_core R ROps n) (map (Rmult a) vs) = omap (Rmult a) (cout (@max_core R ROps n) vs).
Proof.
  intros Hn Ha. rewrite !max_closed_form by assumption. unfold omap, spec_max. cbn [bind]. f_equal.
  rewrite lastn_map, !lmax_R. apply lfold_map. intros x y. apply Rmax_scale; assumption.
Qed.
Example max_scale_ex : (1 <= 2)%nat /\ 0 <= 3. Proof. split; [lia | lra]. Qed.

(** C12 negation: Min of the negated history is minus Max, and conversely. *)
Theorem min_neg n vs : (1 <= n)%nat ->
  cout (@min_core R ROps n) (map Ropp vs) = omap Ropp (cout (@max_core R ROps n) vs).
Proof.
  intros Hn. rewrite min_closed_form, max_closed_form by assumption.
  unfold omap, spec_min, spec_max. cbn [bind]. f_equal.
  rewrite lastn_map, lmin_R, lmax_R. apply lfold_map. apply Ropp_Rmax_Rmin.
Qed.
Theorem max_neg n vs : (1 <= n)%nat ->
  cout (@max_core R ROps n) (map Ropp vs) = omap Ropp (cout (@min_core R ROps n) vs).
Proof.
  intros Hn. rewrite min_closed_form, max_closed_form by assumption.
  unfold omap, spec_min, spec_max. cbn [bind]. f_equal.
  rewrite lastn_map, lmin_R, lmax_R. apply lfold_map. apply Ropp_Rmin_Rmax.
Qed.
Example min_neg_ex : (1 <= 2)%nat. Proof. lia. Qed.

Lemma ssum_R_scale a (l : list R) : @ssum R ROps (map (Rmult a) l) = a * @ssum R ROps l.
Proof.
  induction l as [|x l IH]; [rewrite ssum_R_nil; cbn [map]; rewrite ssum_R_nil; lra|].
  cbn [map]. rewrite !ssum_R_cons, IH. lra.
Qed.

(** C12 Cumulative: scaling by any factor commutes with Cumulative. *)
Theorem cumulative_scale n a vs : (1 <= n)%nat ->
  cout (@cumulative_core R ROps n) (map (Rmult a) vs) =
  omap (Rmult a) (cout (@cumulative_core R ROps n) vs).
Proof.
  intros Hn. rewrite !cumulative_closed_form by assumption. unfold omap. cbn [bind]. f_equal.
  destruct vs as [|v vs]; [reflexivity|].
  rewrite (spec_cumulative_nonnil n (v :: vs)) by discriminate.
  rewrite (spec_cumulative_nonnil n (map (Rmult a) (v :: vs))) by discriminate.
  cbn [option_map]. rewrite lastn_map, ssum_R_scale. reflexivity.
Qed.
Example cumulative_scale_ex : (1 <= 2)%nat. Proof. lia. Qed.

Lemma roc_base_map n (g : R -> R) (seen : list R) v :
  @roc_base R n (map g seen) (g v) = g (@roc_base R n seen v).
Proof.
  unfold roc_base. rewrite map_length. destruct (Nat.leb n (length seen)).
  - apply map_nth.
  - destruct seen; reflexivity.
Qed.

Lemma roc_walk_scale n a (seen : list R) prev rest : a <> 0 ->
  @roc_walk R ROps n (map (Rmult a) seen) prev (map (Rmult a) rest) = @roc_walk R ROps n seen prev rest.
Proof.
  intros Ha. revert seen prev; induction rest as [|v rest IH]; intros seen prev; cbn [map roc_walk]; [reflexivity|].
  replace (map (Rmult a) seen ++ [a * v]) with (map (Rmult a) (seen ++ [v])) by (rewrite map_app; reflexivity).
  rewrite IH. f_equal. rewrite !roc_out1_R. cbn zeta. rewrite roc_base_map.
  set (b := roc_base n seen v).
  destruct (Req_EM_T (a * b) 0) as [H|H], (Req_EM_T b 0) as [H'|H']; try reflexivity.
  - exfalso. apply Rmult_integral in H. tauto.
  - exfalso. apply H. rewrite H'. lra.
  - f_equal. field. tauto.
Qed.

(** C12 Roc: unchanged under scaling by any non-zero factor. *)
Theorem roc_scale n a vs : (1 <= n)%nat -> a <> 0 ->
  cout (@roc_core R ROps n) (map (Rmult a) vs) = cout (@roc_core R ROps n) vs.
Proof.
  intros Hn Ha. rewrite !roc_closed_form by assumption. f_equal.
  unfold spec_roc. apply (roc_walk_scale n a [] None vs Ha).
Qed.
Example roc_scale_ex : (1 <= 2)%nat /\ 3 <> 0. Proof. split; [lia | lra]. Qed.

(** * Linearity of Cumulative (C10) *)

Lemma ssum_R_map2_lin a b (xs ys : list R) : length xs = length ys ->
  @ssum R ROps (map2 (fun x y => a * x + b * y) xs ys) = a * @ssum R ROps xs + b * @ssum R ROps ys.
Proof.
  revert ys; induction xs as [|x xs IH]; intros ys H; destruct ys as [|y ys]; cbn [length] in H; try lia.
  - cbn [map2]. rewrite ssum_R_nil. lra.
  - cbn [map2]. rewrite !ssum_R_cons, IH by lia. lra.
Qed.

(** C10: Cumulative of a linear combination is the linear combination of the Cumulatives. *)
Theorem cumulative_linear n a b xs ys : (1 <= n)%nat -> length xs = length ys ->
  cout (@cumulative_core R ROps n) (map2 (fun x y => a * x + b * y) xs ys) =
  do ox <- cout (@cumulative_core R ROps n) xs;
  do oy <- cout (@cumulative_core R ROps n) ys;
  Ok (lift2 (fun x y => a * x + b * y) ox oy).
Proof.
  intros Hn Hl. rewrite !cumulative_closed_form by assumption. cbn [bind]. f_equal.
  destruct xs as [|x xs], ys as [|y ys]; cbn [length] in Hl; try lia; [reflexivity|].
  rewrite (spec_cumulative_nonnil n (x :: xs)), (spec_cumulative_nonnil n (y :: ys)) by discriminate.
  rewrite spec_cumulative_nonnil by (cbn [map2]; discriminate). cbn [lift2]. f_equal.
  rewrite lastn_map2 by (cbn [length]; lia). apply ssum_R_map2_lin.
  rewrite !lastn_length. cbn [length]. lia.
Qed.
Example cumulative_linear_ex : (1 <= 2)%nat /\ length [1; 2; 3] = length [4; 5; 6]. Proof. split; [lia | reflexivity]. Qed.

(** * Side observation: the guard [1 <= n] is necessary for Cumulative and Roc (their constructors
      accept 0, unlike Min/Max whose constructor asserts): the first update fails ([unwrap] on an
      empty queue). *)
Lemma cumulative_n0_fails v : cout (@cumulative_core R ROps 0) [v] = Err UnwrapNone.
Proof. reflexivity. Qed.
Lemma roc_n0_fails v : cout (@roc_core R ROps 0) [v] = Err UnwrapNone.
Proof. reflexivity. Qed.
Lemma min_n0_fails vs : cout (@min_core R ROps 0) vs = Err AssertFailed.
Proof. reflexivity. Qed.


(** * The specifications are executable: model = specification at [Q] on a sample history
      (with zeros, ties and sign changes), at every prefix *)
Module QSanity.
Import QArith.
Local Open Scope Q_scope.
Fixpoint prefixes {A} (l : list A) : list (list A) :=
  match l with [] => [[]] | x :: r => [] :: map (cons x) (prefixes r) end.
Definition xs : list Q := [3; 0; 5; 2; 0; 0; 7; -4; 1; 6; 6; 2; 0; 9].
Example cumulative_Q : map (cout (@cumulative_core Q QOps 3)) (prefixes xs)
                     = map (fun p => Ok (@spec_cumulative Q QOps 3 p)) (prefixes xs).
Proof. vm_compute. reflexivity. Qed.
Example min_Q : map (cout (@min_core Q QOps 3)) (prefixes xs) = map (fun p => Ok (@spec_min Q QOps 3 p)) (prefixes xs).
Proof. vm_compute. reflexivity. Qed.
Example max_Q : map (cout (@max_core Q QOps 3)) (prefixes xs) = map (fun p => Ok (@spec_max Q QOps 3 p)) (prefixes xs).
Proof. vm_compute. reflexivity. Qed.
Example roc_Q : map (cout (@roc_core Q QOps 2)) (prefixes xs) = map (fun p => Ok (@spec_roc Q QOps 2 p)) (prefixes xs).
Proof. vm_compute. reflexivity. Qed.
Example roc_Q_values : map (@spec_roc Q QOps 2) (prefixes [3; 0; 5; 2; 0])
                     = [None; Some 0; Some (-100); Some (200 # 3); Some (200 # 3); Some (-100)].
Proof. vm_compute. reflexivity. Qed.
End QSanity.

Print Assumptions cumulative_closed_form.
Print Assumptions min_closed_form.
Print Assumptions max_closed_form.
Print Assumptions roc_closed_form.
Print Assumptions cumulative_finite_memory.
Print Assumptions min_finite_memory.
Print Assumptions max_finite_memory.
Print Assumptions roc_window_step.
Print Assumptions roc_finite_memory.
Print Assumptions roc_hold.
Print Assumptions roc_hold_window.
Print Assumptions roc_finite_memory_unconditional_refuted.
Print Assumptions min_is_minimum.
Print Assumptions max_is_maximum.
Print Assumptions min_max_range.
Print Assumptions min_scale.
Print Assumptions max_scale.
Print Assumptions min_neg.
Print Assumptions max_neg.
Print Assumptions cumulative_scale.
Print Assumptions roc_scale.
Print Assumptions cumulative_linear.
