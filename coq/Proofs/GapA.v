(** C03 (finite memory) for PolarizedFractalEfficiency over a moving average with finite memory:
    PFE(N) over an MA that remembers its last M inputs forgets everything older than K = N + M - 1. *)
From Coq Require Import List Arith Lia Reals Lra ZArith.
From SF Require Import Res Scalar View Models Spec Core SpecEhl.
From SF.Proofs Require Import Chain Window RBase EhlBase Pure SmaP AvgP EhlPfe.
Import ListNotations.
Open Scope R_scope.

(** * the last answer of a view, and finite memory of a view *)

(** what [ma] answers after having received [xs] ([None] before the first input -- this is what
    PFE reports, it never asks its MA before feeding it); an error if any step fails *)
Definition mlast (ma : view R) (xs : list R) : res (option R) :=
  do mas <- mrun ma xs; Ok (@spec_pfe R mas).

(** "the answer after a list of inputs depends on the last [M] inputs only" (errors included) *)
Definition view_finite_memory (M : nat) (ma : view R) : Prop :=
  forall p p' s, (M <= length s)%nat -> mlast ma (p ++ s) = mlast ma (p' ++ s).

(** * runs: one more input *)
Lemma mrun_from_snoc {T} (v : view T) s xs x :
  mrun_from v s (xs ++ [x]) =
  do outs <- mrun_from v s xs; do s1 <- steps v s xs; do s2 <- vupd v s1 x; do o <- vlast v s2;
  Ok (outs ++ [o]).
Proof.
  revert s; induction xs as [|y xs IH]; intros s; cbn [app mrun_from steps bind].
  - destruct (vupd v s x) as [s2|e]; cbn [bind]; [|reflexivity].
    destruct (vlast v s2); reflexivity.
  - destruct (vupd v s y) as [s1|e]; cbn [bind]; [|reflexivity].
    destruct (vlast v s1) as [o|e]; cbn [bind]; [|reflexivity].
    rewrite IH. destruct (mrun_from v s1 xs) as [r|e]; cbn [bind]; [|reflexivity].
    destruct (steps v s1 xs) as [s2|e]; cbn [bind]; [|reflexivity].
    destruct (vupd v s2 x) as [s3|e]; cbn [bind]; [|reflexivity].
    destruct (vlast v s3); reflexivity.
Qed.

(** * one step of the PFE core, on a state that satisfies the invariant *)
Definition pfe_y (n : nat) (w : list R) : R :=
  if Rltb (nth (n - 1) w 0) (nth (n - 2) w 0)
  then - (@pfe_num R ROps n w / @pfe_den R ROps n w) else @pfe_num R ROps n w / @pfe_den R ROps n w.

Lemma pfe_new_ready n (l : list R) : (3 <= n)%nat -> (n <= length l)%nat ->
  pfe_new n l = [pfe_y n (lastn n l)].
Proof. intros Hn Hl. unfold pfe_new. rewrite (pfe_p_R n l Hn Hl). reflexivity. Qed.

Lemma pfe_new_warm n (l : list R) : (length l < n)%nat -> pfe_new n l = [].
Proof. intros H. unfold pfe_new, pfe_p. destruct (Nat.ltb_spec (length l) n); [reflexivity | lia]. Qed.

Lemma pfe_cstep_warm n (ma : view R) (m : vst ma) vs v out : (3 <= n)%nat -> (length vs + 1 < n)%nat ->
  cstep (@pfe_core R ROps n ma) (m, lastn n vs, out) v = Ok (m, lastn n (vs ++ [v]), out).
Proof.
  intros Hn Hl. cbn [cstep pfe_core]. rewrite evict_eq, (evict_push_lastn n vs v ltac:(lia)).
  pose proof (lastn_length n (vs ++ [v])) as HL. rewrite app_length in HL. cbn [length] in HL.
  destruct (Nat.leb_spec n (length (lastn n (vs ++ [v])))) as [H|_]; [lia | reflexivity].
Qed.

Lemma pfe_cstep_ready n (ma : view R) (m : vst ma) vs v out : (3 <= n)%nat -> (n <= length vs + 1)%nat ->
  cstep (@pfe_core R ROps n ma) (m, lastn n vs, out) v =
  do m' <- vupd ma m (pfe_y n (lastn n (vs ++ [v]))); do o <- vlast ma m';
  Ok (m', lastn n (vs ++ [v]), o).
Proof.
  intros Hn Hge. cbn [cstep pfe_core]. rewrite evict_eq, (evict_push_lastn n vs v ltac:(lia)).
  pose proof (lastn_length n (vs ++ [v])) as HL. rewrite app_length in HL. cbn [length] in HL.
  set (w := lastn n (vs ++ [v])) in *.
  assert (Hw : length w = n) by lia.
  destruct (Nat.leb_spec n (length w)) as [_|H]; [|lia].
  unfold usub. destruct (Nat.ltb_spec n 1) as [H|_]; [lia|].
  destruct (Nat.ltb_spec n 2) as [H|_]; [lia|]. cbn [bind].
  change (@s0 R ROps) with 0. rewrite (pfe_sum_den n w Hn Hw). cbn [bind].
  rewrite (front_nth w 0) by lia. cbn [bind].
  rewrite !ssq_R. cbn [ssub sadd sofnat ROps].
  assert (Hv : nth (n - 1) w 0 = v) by (apply lastn_snoc_nth_last; lia).
  rewrite ssqrt_R_ok by (pose proof (sq_ge0 (v - nth 0 w 0)); pose proof (sq_ge0 (INR n)); lra).
  cbn [bind]. pose proof (pfe_den_pos n w Hn) as Hden.
  change (@sdiv R ROps) with Rdiv_res. rewrite Rdiv_res_ok by lra. cbn [bind].
  rewrite (getq_nth w (n - 2) 0) by lia. cbn [bind].
  unfold pfe_y. rewrite pfe_num_R, Hv. cbn [sltb sneg ROps]. reflexivity.
Qed.

(** * the error half of the closed form: PFE fails exactly when (and as) its MA does *)
Lemma pfe_run_err n (ma : view R) m0 : (3 <= n)%nat -> vnew ma = Ok m0 ->
  forall vs e, mrun_from ma m0 (@pfe_inputs R ROps n vs) = Err e ->
  crun (@pfe_core R ROps n ma) vs = Err e.
Proof.
  intros Hn Hm0 vs. induction vs as [|v vs IH] using rev_ind; intros e Hrun.
  - cbn in Hrun. discriminate.
  - rewrite pfe_inputs_snoc in Hrun. rewrite crun_snoc.
    destruct (Nat.ltb_spec (length (vs ++ [v])) n) as [Hlt|Hge].
    + rewrite (pfe_new_warm n _ Hlt), app_nil_r in Hrun. rewrite (IH e Hrun). reflexivity.
    + rewrite (pfe_new_ready n _ Hn Hge) in Hrun. rewrite mrun_from_snoc in Hrun.
      rewrite app_length in Hge. cbn [length] in Hge.
      destruct (mrun_from ma m0 (@pfe_inputs R ROps n vs)) as [outs|e'] eqn:Er; cbn [bind] in Hrun.
      * destruct (pfe_run_inv n ma m0 Hn Hm0 vs outs Er) as [[[m q] out] [Hc [Hq [Hs Ho]]]].
        rewrite Hs in Hrun. cbn [bind] in Hrun.
        rewrite Hc. cbn [bind]. rewrite Hq. rewrite (pfe_cstep_ready n ma m vs v out Hn Hge).
        destruct (vupd ma m (pfe_y n (lastn n (vs ++ [v])))) as [m'|e1]; cbn [bind] in *;
          [|inversion Hrun; reflexivity].
        destruct (vlast ma m') as [o|e1]; cbn [bind] in *; [discriminate | inversion Hrun; reflexivity].
      * inversion Hrun; subst e'. rewrite (IH e eq_refl). reflexivity.
Qed.

(** C11, both halves: the PFE answer is the last answer of its MA on [pfe_inputs], errors included *)
Theorem pfe_closed_form_full : forall n (ma : view R) vs, (3 <= n)%nat ->
  cout (@pfe_core R ROps n ma) vs = mlast ma (@pfe_inputs R ROps n vs).
Proof.
  intros n ma vs Hn. unfold mlast.
  destruct (mrun ma (@pfe_inputs R ROps n vs)) as [mas|e] eqn:Hrun; cbn [bind].
  - apply pfe_closed_form; assumption.
  - unfold mrun in Hrun. destruct (vnew ma) as [m0|e0] eqn:Hm0; cbn [bind] in Hrun.
    + unfold cout. rewrite (pfe_run_err n ma m0 Hn Hm0 vs e Hrun). reflexivity.
    + inversion Hrun; subst e0. unfold cout, crun. cbn [cnew pfe_core].
      destruct (Nat.leb_spec 3 n) as [_|H]; [|lia]. cbn [assert bind]. rewrite Hm0. reflexivity.
Qed.

(** * the MA inputs of [p ++ s] end with the MA inputs of [s] *)
Lemma pfe_new_suffix n (p l : list R) : (n <= length l)%nat -> pfe_new n (p ++ l) = pfe_new n l.
Proof.
  intros Hl. unfold pfe_new, pfe_p. rewrite app_length.
  destruct (Nat.ltb_spec (length p + length l) n) as [H|_]; [lia|].
  destruct (Nat.ltb_spec (length l) n) as [H|_]; [lia|].
  rewrite lastn_app_suffix by exact Hl. reflexivity.
Qed.

Lemma pfe_inputs_suffix n (p s : list R) :
  exists X, @pfe_inputs R ROps n (p ++ s) = X ++ @pfe_inputs R ROps n s.
Proof.
  induction s as [|v s IH] using rev_ind.
  - exists (@pfe_inputs R ROps n p). rewrite !app_nil_r. reflexivity.
  - destruct IH as [X HX]. rewrite app_assoc, !pfe_inputs_snoc, HX.
    destruct (Nat.ltb_spec (length (s ++ [v])) n) as [Hlt|Hge].
    + exists ((X ++ @pfe_inputs R ROps n s) ++ pfe_new n ((p ++ s) ++ [v])).
      rewrite (pfe_new_warm n (s ++ [v]) Hlt).
      rewrite (pfe_inputs_short n s) by (rewrite app_length in Hlt; cbn [length] in Hlt; lia).
      rewrite !app_nil_r. reflexivity.
    + rewrite <- (app_assoc p s [v]), (pfe_new_suffix n p (s ++ [v]) Hge).
      exists X. rewrite app_assoc. reflexivity.
Qed.

Lemma pfe_inputs_length n (s : list R) : (1 <= n)%nat ->
  length (@pfe_inputs R ROps n s) = (length s + 1 - n)%nat.
Proof.
  intros Hn. induction s as [|v s IH] using rev_ind; [change (@pfe_inputs R ROps n []) with (@nil R); cbn [length]; lia|].
  rewrite pfe_inputs_snoc, !app_length, IH. cbn [length].
  unfold pfe_new, pfe_p. rewrite app_length. cbn [length].
  destruct (Nat.ltb_spec (length s + 1) n); cbn [length]; lia.
Qed.

(** * C03, generic: PFE(N) over an MA with memory M has memory N + M - 1 *)
Theorem pfe_finite_memory_gen : forall n M (ma : view R) p p' s, (3 <= n)%nat ->
  view_finite_memory M ma -> (n + M - 1 <= length s)%nat ->
  cout (@pfe_core R ROps n ma) (p ++ s) = cout (@pfe_core R ROps n ma) (p' ++ s).
Proof.
  intros n M ma p p' s Hn HM Hs. rewrite !pfe_closed_form_full by exact Hn.
  destruct (pfe_inputs_suffix n p s) as [X HX]. destruct (pfe_inputs_suffix n p' s) as [X' HX'].
  rewrite HX, HX'. apply HM. rewrite pfe_inputs_length by lia. lia.
Qed.

(** * a stand-alone Sma is a view with memory [m] *)
Lemma spec_pfe_cons (o : option R) outs : outs <> [] -> @spec_pfe R (o :: outs) = @spec_pfe R outs.
Proof.
  intros H. destruct outs as [|o' outs] using rev_ind; [congruence|].
  rewrite app_comm_cons, !spec_pfe_snoc. reflexivity.
Qed.

Lemma replay_sma_ok m : (1 <= m)%nat -> forall (xs vs : list R) s,
  crun (@sma_core R ROps m) vs = Ok s ->
  exists outs, replay_from (@sma_core R ROps m) s (map Some xs) = Ok outs /\ length outs = length xs /\
    @spec_pfe R outs = match xs with [] => None | _ => @spec_sma R ROps m (vs ++ xs) end.
Proof.
  intros Hm xs. induction xs as [|x xs IH]; intros vs s Hs.
  - exists []. repeat split; reflexivity.
  - pose proof (sma_closed_form m (vs ++ [x]) Hm) as Hc. unfold cout in Hc. rewrite crun_snoc, Hs in Hc.
    cbn [bind] in Hc. cbn [map replay_from].
    destruct (cstep (@sma_core R ROps m) s x) as [s1|e] eqn:E1; cbn [bind] in Hc |- *; [|discriminate].
    rewrite Hc. cbn [bind].
    destruct (IH (vs ++ [x]) s1) as [outs [Ho [Hlen Hl]]].
    { rewrite crun_snoc, Hs. cbn [bind]. exact E1. }
    rewrite Ho. cbn [bind]. eexists; split; [reflexivity|]. split; [cbn [length]; lia|].
    destruct xs as [|x' xs].
    + destruct outs; [|discriminate]. reflexivity.
    + rewrite <- app_assoc in Hl. cbn [app] in Hl. rewrite <- Hl.
      apply spec_pfe_cons. destruct outs; [discriminate | congruence].
Qed.

Lemma mlast_sma m xs : (1 <= m)%nat ->
  mlast (standalone (@sma_core R ROps m)) xs = Ok (match xs with [] => None | _ => @spec_sma R ROps m xs end).
Proof.
  intros Hm. unfold mlast, mrun. cbn [vnew standalone wrap echo cnew sma_core bind].
  rewrite mrun_from_standalone.
  destruct (replay_sma_ok m Hm xs [] {| sma_q := []; sma_sum := 0 |} eq_refl) as [outs [Ho [_ Hl]]].
  change (@s0 R ROps) with 0. rewrite Ho. cbn [bind app] in *. rewrite Hl. reflexivity.
Qed.

Theorem sma_view_finite_memory m : (1 <= m)%nat ->
  view_finite_memory m (standalone (@sma_core R ROps m)).
Proof.
  intros Hm p p' s Hs. rewrite !mlast_sma by exact Hm.
  pose proof (sma_finite_memory m p p' s Hm Hs) as H. rewrite !sma_closed_form in H by exact Hm.
  injection H as H.
  destruct s as [|x s]; [cbn [length] in Hs; lia|].
  destruct (p ++ x :: s) eqn:E1; [destruct p; discriminate|].
  destruct (p' ++ x :: s) eqn:E2; [destruct p'; discriminate|].
  rewrite H. reflexivity.
Qed.

(** * C03 for PFE over Sma(m): memory K = n + m - 1 *)
Theorem pfe_sma_finite_memory : forall n m p p' s, (3 <= n)%nat -> (1 <= m)%nat ->
  (n + m - 1 <= length s)%nat ->
  cout (@pfe_core R ROps n (standalone (@sma_core R ROps m))) (p ++ s)
  = cout (@pfe_core R ROps n (standalone (@sma_core R ROps m))) (p' ++ s).
Proof.
  intros n m p p' s Hn Hm Hs.
  apply (pfe_finite_memory_gen n m _ p p' s Hn (sma_view_finite_memory m Hm) Hs).
Qed.

(** [Echo] (no smoothing) has memory 1, so PFE(n) over Echo has memory n *)
Theorem echo_view_finite_memory : view_finite_memory 1 (@echo R).
Proof.
  intros p p' s Hs. unfold mlast. rewrite !echo_latest. cbn [bind]. f_equal.
  destruct s as [|x s] using rev_ind; [cbn in Hs; lia|].
  rewrite !app_assoc, !map_app. cbn [map]. rewrite !spec_pfe_snoc. reflexivity.
Qed.

(** * K = n + M - 1 cannot be lowered in general: n = 3 over Echo (M = 1), a suffix of n - 1 = 2 values *)
Lemma pfe3_echo_value a :
  cout (@pfe_core R ROps 3 (@echo R)) [a; 0; 0] = Ok (Some (sqrt (a * a + 9))).
Proof.
  rewrite pfe_closed_form_full by lia. unfold mlast.
  change [a; 0; 0] with ([a; 0] ++ [0]). rewrite pfe_inputs_snoc.
  rewrite pfe_inputs_short by (cbn; lia). rewrite pfe_new_ready by (cbn; lia).
  rewrite lastn_all by (cbn; lia). cbn [app].
  rewrite echo_latest. cbn [bind map]. unfold spec_pfe. cbn [rev app]. do 2 f_equal.
  unfold pfe_y. rewrite pfe_num_R, pfe_den_R. cbn [Nat.sub seq map nth].
  assert (Hlt : Rltb 0 0 = false) by (apply Rltb_false; lra). rewrite Hlt.
  rewrite ssum_R_cons, ssum_R_nil.
  replace ((0 - 0) * (0 - 0) + 1) with 1 by ring. rewrite sqrt_1.
  replace (sqrt 1 + 0) with 1 by (rewrite sqrt_1; ring).
  replace (INR 3) with 3 by (cbn; lra).
  replace ((0 - a) * (0 - a) + 3 * 3) with (a * a + 9) by ring. field.
Qed.

Theorem pfe_memory_bound_tight :
  exists p p' s : list R, (length s = 3 + 1 - 2)%nat /\
    cout (@pfe_core R ROps 3 (@echo R)) (p ++ s) <> cout (@pfe_core R ROps 3 (@echo R)) (p' ++ s).
Proof.
  exists [0], [4], [0; 0]. split; [reflexivity|]. cbn [app]. rewrite !pfe3_echo_value.
  intros H. injection H as H. apply sqrt_inj in H; lra.
Qed.

Example pfe_sma_finite_memory_hyps :
  (3 <= 3)%nat /\ (1 <= 2)%nat /\ (3 + 2 - 1 <= length [1; 2; 4; 8])%nat.
Proof. cbn. lia. Qed.
Example pfe_finite_memory_gen_hyps :
  (3 <= 3)%nat /\ view_finite_memory 1 (@echo R) /\ (3 + 1 - 1 <= length [1; 2; 4])%nat.
Proof. split; [lia|]. split; [exact echo_view_finite_memory | cbn; lia]. Qed.

Print Assumptions pfe_closed_form_full.
Print Assumptions pfe_finite_memory_gen.
Print Assumptions sma_view_finite_memory.
Print Assumptions pfe_sma_finite_memory.
Print Assumptions pfe_memory_bound_tight.
