(** LaguerreFilter (laguerre_filter.rs): C11 closed form, for every gamma. *)
From Coq Require Import List Arith Lia ZArith Reals Lra.
From SF Require Import Res Scalar View Models Spec Core SpecLin.
From SF.Proofs Require Import Window RBase LinBase.
Import ListNotations.
Open Scope R_scope.
Local Existing Instance ROps.

Lemma lagb_out_R (l0 l1 l2 l3 : R) : lagb_out (l0, l1, l2, l3) = (l0 + 2 * l1 + 2 * l2 + l3) / 6.
Proof. unfold lagb_out. rewrite l_two_R, l_six_R, sdivd_six. reflexivity. Qed.

Lemma lag_out_R (l : @lag4 R) : lag_out l = Ok (lagb_out l).
Proof.
  destruct l as [[[l0 l1] l2] l3]. rewrite lagb_out_R. unfold lag_out. rewrite two_R, six_R, sdiv_six.
  reflexivity.
Qed.

Lemma lagb_at_S g (h : list R) t :
  lagb_at g h (S t) = lag_ladder g (lagb_at g h t) (nth (S t) h 0).
Proof. cbn [lagb_at]. destruct (lagb_at g h t) as [[[p0 p1] p2] p3]. reflexivity. Qed.

(** causality *)
Lemma lagb_at_app g (h : list R) v t : (t < length h)%nat -> lagb_at g (h ++ [v]) t = lagb_at g h t.
Proof.
  induction t as [|t IH]; intros H.
  - cbn [lagb_at]. rewrite app_nth1 by lia. reflexivity.
  - rewrite !lagb_at_S, IH by lia. rewrite app_nth1 by lia. reflexivity.
Qed.

Definition lag_inv (g : R) (h : list R) (s : @lag_st R) : Prop :=
  match length h with
  | O => lg_prev s = None /\ lg_out s = None
  | S t => lg_prev s = Some (lagb_at g h t) /\ lg_out s = Some (lagb_out (lagb_at g h t))
  end.

Lemma laguerre_step_inv g h s v : lag_inv g h s ->
  exists s', laguerre_step g s v = Ok s' /\ lag_inv g (h ++ [v]) s'.
Proof.
  intros Hi. unfold lag_inv in *. rewrite app_length. cbn [length].
  replace (length h + 1)%nat with (S (length h)) by lia.
  unfold laguerre_step. rewrite lag_out_R. cbn [bind]. eexists; split; [reflexivity|].
  cbn [lg_prev lg_out].
  assert (E : match lg_prev s with None => (v, v, v, v) | Some p => lag_ladder g p v end
              = lagb_at g (h ++ [v]) (length h)).
  { destruct (length h) as [|t] eqn:El.
    - destruct Hi as [Hp _]. rewrite Hp. destruct h; [|discriminate]. reflexivity.
    - destruct Hi as [Hp _]. rewrite Hp, lagb_at_S, lagb_at_app by lia.
      rewrite <- El. rewrite app_nth2 by lia. rewrite Nat.sub_diag. reflexivity. }
  rewrite E. split; reflexivity.
Qed.

(** C11 (LaguerreFilter): the four-stage ladder with all stages initialised to the first value *)
Theorem laguerre_closed_form g vs :
  cout (@laguerre_core R ROps g) vs = Ok (@spec_laguerre R ROps g vs).
Proof.
  destruct (@crun_inv R (@laguerre_core R ROps g) (fun _ => True) (lag_inv g)
              {| lg_prev := None; lg_out := None; lg_len := 0 |}) with (vs := vs) as [s [Hr Hi]].
  - reflexivity.
  - split; reflexivity.
  - intros h s v _ _ Hi. apply laguerre_step_inv. exact Hi.
  - apply Forall_forall; trivial.
  - unfold cout. rewrite Hr. cbn [bind clast laguerre_core]. unfold spec_laguerre, lag_inv in *.
    destruct (length vs); destruct Hi as [_ Ho]; rewrite Ho; reflexivity.
Qed.
