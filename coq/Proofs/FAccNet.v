(** C16 at f64 for NET (noise elimination technology): the binary64 answer is the CORRECTLY ROUNDED exact answer.
    For window lengths below 2^26 and finite inputs: every comparison made by the float run has the outcome
    of the same comparison on the real values ([sub_sign_exact]), the numerator (a sum of +-1) and the
    denominator k(k-1)/2 are computed exactly, and the single rounding is that of the final division. *)
From Coq Require Import List Arith Lia Reals Lra ZArith Floats Bool.
From SF Require Import Res Scalar View Models Core Spec FloatOps SpecFRange.
From SF.Proofs Require Import FltErr FltBridge Flt2P Flt2B64 Flt2Prim BridgeOps FRangeBase FRangeMy FRangeNet FAccBase.
From Flocq Require Import Core BinarySingleNaN.
Import ListNotations.
Open Scope R_scope.

Local Notation F := PrimFloat.float.
Local Notation fzero := PrimFloat.zero.
Local Notation fone := PrimFloat.one.
Local Notation fin := (fun x : F => ffinite x = true).

(** * One comparison *)
Lemma net_sign_sim num x o c : isint num c -> (c + 1 < 2 ^ 53)%Z -> ffinite x = true -> ffinite o = true ->
  f2r (@net_sign F FOps num (@ssub F FOps x o)) = @net_sign R ROps (f2r num) (f2r x - f2r o).
Proof.
  intros (Fn & z & Ez & Hz) Hc Fx Fo. unfold net_sign, sgtb. cbn [sltb sadd ssub s0 s1 FOps ROps].
  destruct (sub_sign_exact x o Fx Fo) as [-> ->].
  destruct prim_one_fin as [F1 E1].
  assert (HB : forall w : Z, (Z.abs w <= c + 1)%Z -> Rabs (IZR w) <= 9007199254740992).
  { intros w Hw. rewrite <- abs_IZR. apply IZR_le. change (2 ^ 53)%Z with 9007199254740992%Z in Hc. lia. }
  destruct (Rltb 0 (f2r x - f2r o)); [|destruct (Rltb (f2r x - f2r o) 0)].
  - assert (E : f2r num + f2r fone = IZR (z + 1)) by (rewrite Ez, E1, plus_IZR; reflexivity).
    destruct (add_exact num fone Fn F1) as [_ Ev].
    + rewrite E. apply b64_format_IZR. lia.
    + rewrite E. apply HB. lia.
    + rewrite Ev, E1. reflexivity.
  - assert (E : f2r num - f2r fone = IZR (z - 1)) by (rewrite Ez, E1, minus_IZR; reflexivity).
    destruct (sub_exact num fone Fn F1) as [_ Ev].
    + rewrite E. apply b64_format_IZR. lia.
    + rewrite E. apply HB. lia.
    + rewrite Ev, E1. reflexivity.
  - reflexivity.
Qed.

Lemma net_fold_sim (x : F) older : ffinite x = true -> Forall fin older -> forall num c, isint num c ->
  (c + Z.of_nat (length older) < 2 ^ 53)%Z ->
  f2r (fold_left (fun acc o => @net_sign F FOps acc (@ssub F FOps x o)) older num)
  = fold_left (fun acc o => @net_sign R ROps acc (@ssub R ROps (f2r x) o)) (map f2r older) (f2r num).
Proof.
  intros Fx. induction older as [|o r IH]; intros Hf num c Hi Hc.
  - reflexivity.
  - inversion Hf as [|? ? Fo Hr]; subst. cbn [fold_left map]. cbn [length] in Hc. rewrite Nat2Z.inj_succ in Hc.
    rewrite (IH Hr _ (c + 1)%Z); [| apply net_sign_int; [exact Hi | lia] | lia].
    rewrite (net_sign_sim num x o c Hi ltac:(lia) Fx Fo). reflexivity.
Qed.

Lemma net_loop_sim rest : forall older num c, Forall fin rest -> Forall fin older -> isint num c ->
  (c + Z.of_nat (pairs (length older) (length rest)) < 2 ^ 53)%Z ->
  f2r (@net_loop F FOps older rest num) = @net_loop R ROps (map f2r older) (map f2r rest) (f2r num).
Proof.
  induction rest as [|x rest IH]; intros older num c Hr Ho Hi Hc.
  - reflexivity.
  - inversion Hr as [|? ? Fx Hr']; subst. cbn [net_loop map]. cbn [length pairs] in Hc. rewrite Nat2Z.inj_add in Hc.
    assert (Hl : length (older ++ [x]) = S (length older)) by (rewrite app_length; cbn [length]; lia).
    rewrite (IH (older ++ [x]) _ (c + Z.of_nat (length older))%Z Hr').
    + rewrite map_app. cbn [map]. rewrite (net_fold_sim x older Fx Ho num c Hi ltac:(lia)). reflexivity.
    + apply Forall_app. split; [exact Ho | constructor; [exact Fx | constructor]].
    + apply net_fold_int; [exact Hi | lia].
    + rewrite Hl. lia.
Qed.

(** * The simulation relation: same window (as real values); the float answer is the rounded exact answer *)
Definition net_rel (n : nat) (sf : list F * option F) (sr : list R * option R) : Prop :=
  Forall fin (fst sf) /\ (length (fst sf) <= Nat.max n 1)%nat /\ fst sr = map f2r (fst sf) /\
  match snd sf, snd sr with
  | Some v, Some r => ffinite v = true /\ f2r v = b64_round r /\ -1 <= r <= 1
  | None, None => True
  | _, _ => False
  end.

Lemma evict_map {A B} (f : A -> B) n (q : list A) : evict n (map f q) = map f (evict n q).
Proof. unfold evict. rewrite map_length. destruct (Nat.leb n (length q)); [destruct q; reflexivity | reflexivity]. Qed.

Lemma net_step_sim n sf sr v sf' : (Z.of_nat n < 2 ^ 26)%Z -> ffinite v = true -> net_rel n sf sr ->
  @net_step F FOps n sf v = Ok sf' -> exists sr', @net_step R ROps n sr (f2r v) = Ok sr' /\ net_rel n sf' sr'.
Proof.
  intros Hb Fv (Hq & Hl & Eq & Ho). unfold net_step. cbv zeta. rewrite Eq.
  rewrite (evict_map f2r n (fst sf)).
  assert (Hlen : (length (evict n (fst sf) ++ [v]) <= Nat.max n 1)%nat).
  { rewrite app_length. cbn [length]. unfold evict. destruct (Nat.leb_spec n (length (fst sf))).
    - destruct (fst sf) as [|x r]; cbn [tl length] in *; lia.
    - lia. }
  assert (Hfq : Forall fin (evict n (fst sf) ++ [v])).
  { apply Forall_app. split; [|constructor; [exact Fv | constructor]].
    unfold evict. destruct (Nat.leb n (length (fst sf))); [|exact Hq].
    destruct (fst sf) as [|x r]; [exact Hq|]. inversion Hq; assumption. }
  replace (map f2r (evict n (fst sf)) ++ [f2r v]) with (map f2r (evict n (fst sf) ++ [v]))
    by (rewrite map_app; reflexivity).
  set (q := evict n (fst sf) ++ [v]) in *. rewrite map_length.
  destruct (Nat.ltb_spec (length q) 2) as [H2|H2].
  - intros H; inversion H; subst sf'. eexists. split; [reflexivity|].
    split; [exact Hfq|]. split; [exact Hlen|]. split; [reflexivity|]. exact Ho.
  - cbn [sdiv smul ssub sofnat sofdec s0 s1 FOps bind]. intros H; inversion H; subst sf'. clear H.
    change (2 ^ 26)%Z with 67108864%Z in Hb.
    assert (Hk : (Z.of_nat (length q) < 2 ^ 26)%Z) by (change (2 ^ 26)%Z with 67108864%Z; lia).
    destruct (net_denom (length q) H2 Hk) as [Fd Ed]. cbv zeta in Fd, Ed.
    destruct (net_answer q H2 Hk) as [Fo Ro]. cbv zeta in Fo, Ro.
    set (d := PrimFloat.mul _ _) in *. set (k := length q) in *.
    assert (Hi0 : isint fzero 0).
    { split; [exact (proj1 prim_zero_fin)|]. exists 0%Z. split; [exact (proj2 prim_zero_fin) | reflexivity]. }
    pose proof (pairs_closed k 0) as Hp. rewrite Nat.mul_0_r, Nat.add_0_l in Hp.
    assert (Hpb : (0 + Z.of_nat (pairs (@length F []) (length q)) < 2 ^ 53)%Z).
    { cbn [length]. fold k. change (2 ^ 53)%Z with 9007199254740992%Z. nia. }
    pose proof (net_loop_sim q [] fzero 0%Z Hfq (Forall_nil _) Hi0 Hpb) as En.
    destruct (net_loop_int q [] fzero 0 Hi0 Hpb) as (Fnum & z & Ez & Hz).
    cbn [length] in Hz. fold k in Hz. rewrite Z.add_0_l in Hz.
    cbn [map] in En. rewrite (proj2 prim_zero_fin) in En.
    set (num := net_loop [] q fzero) in *.
    (* the denominator at R *)
    assert (EdR : IZR 5 / IZR (10 ^ Z.of_nat 1) * INR k * (INR k - 1) = f2r d).
    { rewrite Ed, INR_IZR_INZ. change (IZR (10 ^ Z.of_nat 1)) with 10. lra. }
    assert (HD : 1 <= f2r d).
    { rewrite Ed. assert (2 <= IZR (Z.of_nat k)) by (apply IZR_le; lia). nra. }
    cbn [sdiv smul ssub sofnat sofdec s0 s1 ROps]. rewrite EdR, Rdiv_res_ok by lra. cbn [bind]. eexists. split; [reflexivity|].
    split; [exact Hfq|]. split; [exact Hlen|]. split; [reflexivity|]. cbn [snd].
    split; [exact Fo|].
    (* the exact quotient is in [-1, 1] *)
    assert (EP : IZR (Z.of_nat (pairs 0 k)) = f2r d).
    { rewrite Ed. assert (E2 : (2 * Z.of_nat (pairs 0 k) = Z.of_nat k * (Z.of_nat k - 1))%Z) by nia.
      apply (f_equal IZR) in E2. rewrite mult_IZR, mult_IZR, minus_IZR in E2. lra. }
    pose proof (IZR_abs_le z _ Hz) as Hzz. rewrite EP in Hzz.
    assert (Hq' : -1 <= f2r num / f2r d <= 1).
    { rewrite Ez. split.
      - apply (Rmult_le_reg_r (f2r d)); [lra|]. unfold Rdiv. rewrite Rmult_assoc, Rinv_l by lra. lra.
      - apply (Rmult_le_reg_r (f2r d)); [lra|]. unfold Rdiv. rewrite Rmult_assoc, Rinv_l by lra. lra. }
    rewrite <- En. split; [|exact Hq'].
    destruct (prim_div_fin num d Fd Fo) as (_ & _ & E). exact E.
Qed.

Lemma net_run_sim n fs sf : (Z.of_nat n < 2 ^ 26)%Z -> Forall fin fs -> crun (@net_core F FOps n) fs = Ok sf ->
  exists sr, crun (@net_core R ROps n) (map f2r fs) = Ok sr /\ net_rel n sf sr.
Proof.
  intros Hb.
  apply (@crun_sim F R (@net_core F FOps n) (@net_core R ROps n) f2r fin (net_rel n) ([], None) ([], None)).
  - reflexivity.
  - reflexivity.
  - split; [constructor|]. split; [cbn; lia|]. split; [reflexivity | exact I].
  - intros sa sb v sa' Fv HR Hs. exact (net_step_sim n sa sb v sa' Hb Fv HR Hs).
Qed.

(** the float run never fails *)
Lemma net_run_ok n fs : exists sf, crun (@net_core F FOps n) fs = Ok sf.
Proof.
  induction fs as [|v fs IH] using rev_ind.
  - eexists. reflexivity.
  - destruct IH as [s Es]. rewrite crun_snoc, Es. cbn [bind cstep net_core]. unfold net_step. cbv zeta.
    destruct (Nat.ltb _ 2); cbn [sdiv FOps bind]; eexists; reflexivity.
Qed.

(** C16 at f64, NET: window below 2^26, finite inputs.  The answer of the float run is [Some] exactly when the
    exact run on the real values of the inputs answers [Some], and then it is finite and equal to the exact
    answer rounded to nearest (ties to even): ONE rounding, whatever the length of the stream. *)
Theorem net_f64_correctly_rounded n (fs : list F) : (Z.of_nat n < 2 ^ 26)%Z -> Forall fin fs ->
  exists of or, cout (@net_core F FOps n) fs = Ok of /\ cout (@net_core R ROps n) (map f2r fs) = Ok or /\
    match of, or with
    | Some v, Some r => ffinite v = true /\ f2r v = b64_round r /\ -1 <= r <= 1
    | None, None => True
    | _, _ => False
    end.
Proof.
  intros Hb Hf. destruct (net_run_ok n fs) as [sf Ef].
  destruct (net_run_sim n fs sf Hb Hf Ef) as (sr & Er & (_ & _ & _ & Ho)).
  exists (snd sf), (snd sr). unfold cout. rewrite Ef, Er. cbn [bind clast net_core]. repeat split; try reflexivity.
  exact Ho.
Qed.

(** the form asked for: a reported value is the rounding of the value the exact run reports *)
Corollary net_f64_correctly_rounded_some n (fs : list F) (v : F) : (Z.of_nat n < 2 ^ 26)%Z -> Forall fin fs ->
  cout (@net_core F FOps n) fs = Ok (Some v) ->
  exists r, cout (@net_core R ROps n) (map f2r fs) = Ok (Some r) /\ ffinite v = true /\ f2r v = b64_round r.
Proof.
  intros Hb Hf Hc. destruct (net_f64_correctly_rounded n fs Hb Hf) as (of & or & E1 & E2 & H).
  rewrite Hc in E1. inversion E1; subst of. destruct or as [r|]; [|contradiction].
  exists r. destruct H as (Fv & E & _). repeat split; assumption.
Qed.
Corollary net_f64_none n (fs : list F) : (Z.of_nat n < 2 ^ 26)%Z -> Forall fin fs ->
  (cout (@net_core F FOps n) fs = Ok None <-> cout (@net_core R ROps n) (map f2r fs) = Ok None).
Proof.
  intros Hb Hf. destruct (net_f64_correctly_rounded n fs Hb Hf) as (of & or & E1 & E2 & H).
  rewrite E1, E2. destruct of, or; try contradiction; split; intros H'; try discriminate; reflexivity.
Qed.

(** |error| <= 2^-53 (half an ulp of a number of magnitude at most 1) *)
Lemma rnd_err_unit r : -1 <= r <= 1 -> Rabs (b64_round r - r) <= b64_u.
Proof.
  intros Hr. destruct (b64_round_err r) as (d & e & Hd & He & E).
  (* direct: error_le_half_ulp with ulp r <= 2^-52 *)
  pose proof b64_prec_gt_0 as P53.
  pose proof (@error_le_half_ulp radix2 (FLT_exp (-1074) 53) (FLT_exp_valid (-1074) 53) (fun x => negb (Z.even x)) r) as H.
  change (round radix2 (FLT_exp (-1074) 53) (Znearest (fun x => negb (Z.even x))) r) with (b64_round r) in H.
  eapply Rle_trans; [exact H|]. unfold b64_u.
  apply Rmult_le_compat_l; [lra|].
  destruct (Req_dec r 0) as [->|Hn0].
  - rewrite ulp_FLT_0 by exact P53. apply bpow_le. lia.
  - rewrite ulp_neq_0 by exact Hn0. apply bpow_le. unfold cexp, FLT_exp.
    assert (Hm : (mag radix2 r <= 1)%Z).
    { apply mag_le_bpow; [exact Hn0|]. change (bpow radix2 1) with 2. apply Rabs_def1; lra. }
    lia.
Qed.

Corollary net_f64_accuracy n (fs : list F) (v : F) : (Z.of_nat n < 2 ^ 26)%Z -> Forall fin fs ->
  cout (@net_core F FOps n) fs = Ok (Some v) ->
  exists r, cout (@net_core R ROps n) (map f2r fs) = Ok (Some r) /\ Rabs (f2r v - r) <= / 9007199254740992.
Proof.
  intros Hb Hf Hc. destruct (net_f64_correctly_rounded n fs Hb Hf) as (of & or & E1 & E2 & H).
  rewrite Hc in E1. inversion E1; subst of. destruct or as [r|]; [|contradiction].
  exists r. destruct H as (_ & E & Hr). split; [exact E2|]. rewrite E, <- b64_u_val. apply rnd_err_unit. exact Hr.
Qed.

Local Set Warnings "-inexact-float".
Example net_f64_ex :
  (Z.of_nat 3 < 2 ^ 26)%Z /\ forallb ffinite [1e6; 8.13; 3.461; 5.401; 3.311; 0.1; 7.5]%float = true /\
  cout (@net_core F FOps 3) [1e6; 8.13; 3.461; 5.401; 3.311; 0.1; 7.5]%float = Ok (Some 0x1.5555555555555p-2%float).
Proof. split; [reflexivity|]. split; vm_compute; reflexivity. Qed.

Print Assumptions net_f64_correctly_rounded.
Print Assumptions net_f64_accuracy.
