(** binary64 instances of WdriftVar.v: variance, standard deviation (correctly rounded square root) and Vst. *)
From Coq Require Import List Arith Lia Reals Lra ZArith.
From SF Require Import Res Scalar View Models Spec Core SpecWelf.
From SF.Proofs Require Import Window RBase WelfP FltErr FltBridge Flt2P Flt2B64 WdriftArith WdriftP WdriftB64 WdriftVar.
From Flocq Require Import Core Relative.
Import ListNotations.
Open Scope R_scope.

Definition b64_sqrt (a : R) : R := b64_round (sqrt a).

(** the square root of a binary64 number never underflows: pure relative error *)
Lemma b64_sqrt_ok a : b64_format a -> 0 <= a ->
  b64_format (b64_sqrt a) /\ exists d, Rabs d <= b64_u /\ b64_sqrt a = sqrt a * (1 + d).
Proof.
  intros Fa Ha. split; [apply b64_round_format|].
  destruct (Req_dec a 0) as [E0|Hne].
  - exists 0. split; [rewrite Rabs_R0; exact b64_u_nonneg|].
    unfold b64_sqrt, b64_round. rewrite E0, sqrt_0, round_0 by apply valid_rnd_N. ring.
  - assert (Hp : 0 < a) by lra.
    assert (Hmin : bpow radix2 (-1074) <= a).
    { apply (generic_format_ge_bpow radix2 b64_exp (-1074)); [|exact Hp | exact Fa].
      intros e. unfold b64_exp, FLT_exp. lia. }
    assert (Hs : bpow radix2 (-537) <= sqrt a).
    { rewrite <- (sqrt_bpow radix2 (-537)). apply sqrt_le_1_alt. exact Hmin. }
    assert (Hb : bpow radix2 (-1022) <= Rabs (sqrt a)).
    { rewrite Rabs_right by (apply Rle_ge, sqrt_pos).
      eapply Rle_trans; [|exact Hs]. apply bpow_le. lia. }
    apply (relative_error_N_FLT_ex radix2 (-1074) 53 ltac:(lia) (fun x => negb (Z.even x)) (sqrt a) Hb).
Qed.

Definition B64Ops3 : Ops R := FlOps3 b64_add b64_sub b64_mul b64_div b64_sqrt.

Lemma b64_small n t : (2 <= n)%nat -> (Z.of_nat t < 2 ^ 45)%Z -> 160 * (INR t * b64_u) <= 1.
Proof.
  intros _ Ht. pose proof (INR_lt_pow _ _ Ht) as Hb. change (2 ^ 45)%Z with 35184372088832%Z in Hb.
  pose proof (pos_INR t). rewrite b64_u_val. lra.
Qed.

(** WelfordOnline::variance() in binary64, full window *)
Theorem welford_var_drift_b64 n M vs : (2 <= n)%nat -> (Z.of_nat n < 2 ^ 53)%Z -> (n <= length vs)%nat ->
  (Z.of_nat (length vs) < 2 ^ 45)%Z -> 0 <= M -> 48 * (INR (length vs) * b64_eta) <= M ->
  Forall (fun x => b64_format x /\ Rabs x <= M) vs ->
  exists v_fl,
    cout (@welford_var_core R B64Ops n) vs = Ok (Some v_fl) /\
    cout (@welford_var_core R ROps n) vs = Ok (Some (@spec_wvar R ROps n vs)) /\
    Rabs (v_fl - @spec_wvar R ROps n vs) <= wo_varE b64_u b64_eta M n (length vs) (@spec_wvar R ROps n vs).
Proof.
  intros Hn Hn53 Hfull Ht HM He Hvs.
  apply (welford_var_drift b64_u b64_eta b64_add b64_sub b64_mul b64_div b64_format b64_u_nonneg b64_eta_nonneg
           b64_format_0 b64_add_ok b64_sub_ok b64_mul_ok b64_div_ok M HM n Hn vs Hfull Hvs).
  - apply b64_nat_F. exact Hn53.
  - apply (b64_small n); assumption.
  - exact He.
Qed.

(** WelfordOnline::last() in binary64 with a correctly rounded square root *)
Theorem welford_std_drift_b64 n M vs : (2 <= n)%nat -> (Z.of_nat n < 2 ^ 53)%Z -> (n <= length vs)%nat ->
  (Z.of_nat (length vs) < 2 ^ 45)%Z -> 0 <= M -> 48 * (INR (length vs) * b64_eta) <= M ->
  Forall (fun x => b64_format x /\ Rabs x <= M) vs ->
  0 < @spec_wvar R ROps n vs ->
  wo_varE b64_u b64_eta M n (length vs) (@spec_wvar R ROps n vs) <= @spec_wvar R ROps n vs / 2 ->
  exists sd_fl,
    cout (@welford_core R B64Ops3 n) vs = Ok (Some sd_fl) /\
    cout (@welford_core R ROps n) vs = Ok (Some (sqrt (@spec_wvar R ROps n vs))) /\
    Rabs (sd_fl - sqrt (@spec_wvar R ROps n vs))
    <= wo_varE b64_u b64_eta M n (length vs) (@spec_wvar R ROps n vs) / sqrt (@spec_wvar R ROps n vs)
       + 2 * b64_u * sqrt (@spec_wvar R ROps n vs).
Proof.
  intros Hn Hn53 Hfull Ht HM He Hvs HV HE.
  apply (welford_std_drift b64_u b64_eta b64_add b64_sub b64_mul b64_div b64_sqrt b64_format b64_u_nonneg
           b64_eta_nonneg b64_format_0 b64_add_ok b64_sub_ok b64_mul_ok b64_div_ok b64_sqrt_ok M HM n Hn vs Hfull Hvs);
    try assumption.
  - apply b64_nat_F. exact Hn53.
  - apply (b64_small n); assumption.
Qed.

(** Vst in binary64: relative error = variance error / variance (+ 7 u) *)
Theorem vst_drift_b64 n M vs : (2 <= n)%nat -> (Z.of_nat n < 2 ^ 53)%Z -> (n <= length vs)%nat ->
  (Z.of_nat (length vs) < 2 ^ 45)%Z -> 0 <= M -> 48 * (INR (length vs) * b64_eta) <= M ->
  Forall (fun x => b64_format x /\ Rabs x <= M) vs ->
  0 < @spec_wvar R ROps n vs ->
  wo_varE b64_u b64_eta M n (length vs) (@spec_wvar R ROps n vs) <= @spec_wvar R ROps n vs / 2 ->
  exists o_fl,
    cout (@vst_core R B64Ops3 n) vs = Ok (Some o_fl) /\
    cout (@vst_core R ROps n) vs = Ok (Some (last vs 0 / sqrt (@spec_wvar R ROps n vs))) /\
    Rabs (o_fl - last vs 0 / sqrt (@spec_wvar R ROps n vs))
    <= Rabs (last vs 0 / sqrt (@spec_wvar R ROps n vs))
       * (17 / 8 * (wo_varE b64_u b64_eta M n (length vs) (@spec_wvar R ROps n vs) / @spec_wvar R ROps n vs) + 7 * b64_u)
       + b64_eta.
Proof.
  intros Hn Hn53 Hfull Ht HM He Hvs HV HE.
  apply (vst_drift b64_u b64_eta b64_add b64_sub b64_mul b64_div b64_sqrt b64_format b64_u_nonneg
           b64_eta_nonneg b64_format_0 b64_add_ok b64_sub_ok b64_mul_ok b64_div_ok b64_sqrt_ok M HM n Hn vs Hfull Hvs);
    try assumption.
  - apply b64_nat_F. exact Hn53.
  - apply (b64_small n); assumption.
Qed.

(** Vsct in binary64 *)
Theorem vsct_drift_b64 n M vs : (2 <= n)%nat -> (Z.of_nat n < 2 ^ 53)%Z -> (n <= length vs)%nat ->
  (Z.of_nat (length vs) < 2 ^ 45)%Z -> 0 <= M -> 48 * (INR (length vs) * b64_eta) <= M ->
  Forall (fun x => b64_format x /\ Rabs x <= M) vs ->
  0 < @spec_wvar R ROps n vs ->
  wo_varE b64_u b64_eta M n (length vs) (@spec_wvar R ROps n vs) <= @spec_wvar R ROps n vs / 2 ->
  exists o_fl,
    cout (@vsct_core R B64Ops3 n) vs = Ok (Some o_fl) /\
    cout (@vsct_core R ROps n) vs = Ok (Some ((last vs 0 - rmean (lastn n vs)) / sqrt (@spec_wvar R ROps n vs))) /\
    Rabs (o_fl - (last vs 0 - rmean (lastn n vs)) / sqrt (@spec_wvar R ROps n vs))
    <= Rabs ((last vs 0 - rmean (lastn n vs)) / sqrt (@spec_wvar R ROps n vs))
       * (17 / 8 * (wo_varE b64_u b64_eta M n (length vs) (@spec_wvar R ROps n vs) / @spec_wvar R ROps n vs) + 7 * b64_u)
       + 17 / 8 * ((INR (length vs) * (10 * b64_u * M + 3 * b64_eta) * (1 + b64_u) + 2 * M * b64_u)
                   / sqrt (@spec_wvar R ROps n vs)) + b64_eta.
Proof.
  intros Hn Hn53 Hfull Ht HM He Hvs HV HE.
  apply (vsct_drift b64_u b64_eta b64_add b64_sub b64_mul b64_div b64_sqrt b64_format b64_u_nonneg
           b64_eta_nonneg b64_format_0 b64_add_ok b64_sub_ok b64_mul_ok b64_div_ok b64_sqrt_ok M HM n Hn vs Hfull Hvs);
    try assumption.
  - apply b64_nat_F. exact Hn53.
  - apply (b64_small n); assumption.
Qed.

(** hypotheses are satisfiable *)
Example welford_var_drift_b64_ex : exists v_fl,
  cout (@welford_var_core R B64Ops 2) [1; 2; -3] = Ok (Some v_fl) /\
  cout (@welford_var_core R ROps 2) [1; 2; -3] = Ok (Some (@spec_wvar R ROps 2 [1; 2; -3])) /\
  Rabs (v_fl - @spec_wvar R ROps 2 [1; 2; -3]) <= wo_varE b64_u b64_eta 4 2 3 (@spec_wvar R ROps 2 [1; 2; -3]).
Proof.
  apply (welford_var_drift_b64 2 4 [1; 2; -3]); [lia | reflexivity | cbn; lia | reflexivity | lra | | exact drift_hyp_ex].
  pose proof b64_eta_tiny. cbn [length INR]. lra.
Qed.

Lemma ex_V_val : @spec_wvar R ROps 2 [1; 2; -3] = 25 / 2.
Proof.
  unfold spec_wvar. change (lastn 2 [1; 2; -3]) with [2; -3].
  unfold svar. cbn [length Nat.ltb Nat.leb Nat.sub sofnat ROps INR].
  rewrite sdivd_R by lra. rewrite rmean_R, !rsqdev_cons, rsqdev_nil, !ssum_R_cons, ssum_R_nil.
  cbn [length INR]. field.
Qed.

Example vst_drift_b64_ex : exists o_fl,
  cout (@vst_core R B64Ops3 2) [1; 2; -3] = Ok (Some o_fl) /\
  cout (@vst_core R ROps 2) [1; 2; -3] = Ok (Some (-3 / sqrt (25 / 2))) /\
  Rabs (o_fl - -3 / sqrt (25 / 2))
  <= Rabs (-3 / sqrt (25 / 2)) * (17 / 8 * (wo_varE b64_u b64_eta 4 2 3 (25 / 2) / (25 / 2)) + 7 * b64_u) + b64_eta.
Proof.
  pose proof b64_eta_tiny as Het. pose proof b64_eta_nonneg as Het0.
  assert (Hu : b64_u <= / 1000000) by (rewrite b64_u_val; lra). pose proof b64_u_nonneg as Hu0.
  rewrite <- ex_V_val. change (-3) with (last [1; 2; -3] 0).
  apply (vst_drift_b64 2 4 [1; 2; -3]); [lia | reflexivity | cbn; lia | reflexivity | lra | | exact drift_hyp_ex | |].
  - cbn [length INR]. lra.
  - rewrite ex_V_val. lra.
  - rewrite ex_V_val. unfold wo_varE. cbn [length INR].
    assert (H1 : b64_eta <= b64_u).
    { unfold b64_eta, b64_u. assert (bpow radix2 (-1074) <= bpow radix2 (1 - 53)) by (apply bpow_le; lia). lra. }
    nra.
Qed.

Print Assumptions welford_var_drift_b64.
Print Assumptions welford_std_drift_b64.
Print Assumptions vst_drift_b64.
Print Assumptions vsct_drift_b64.
