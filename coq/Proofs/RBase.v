(** Helpers for proofs at the [R] instance. *)
From Coq Require Import List Arith Lia Reals Lra.
From SF Require Import Res Scalar Spec.
Import ListNotations.
Open Scope R_scope.

Lemma sdiv_R_ok a b : b <> 0 -> @sdiv R ROps a b = Ok (a / b).
Proof. apply Rdiv_res_ok. Qed.
Lemma sdivd_R a b : b <> 0 -> @sdivd R ROps a b = a / b.
Proof. intros H. unfold sdivd. rewrite sdiv_R_ok by assumption. reflexivity. Qed.
Lemma sofnat_R n : @sofnat R ROps n = INR n. Proof. reflexivity. Qed.
Lemma INR_pos_neq n : (0 < n)%nat -> INR n <> 0.
Proof. intros H. apply not_0_INR. lia. Qed.

Lemma ssum_R_app (l : list R) x : @ssum R ROps (l ++ [x]) = @ssum R ROps l + x.
Proof. unfold ssum. rewrite fold_left_app. reflexivity. Qed.
Lemma fold_left_Rplus (l : list R) a : fold_left Rplus l a = a + fold_left Rplus l 0.
Proof.
  revert a; induction l as [|x l IH]; intros a; cbn; [lra|].
  rewrite (IH (a + x)), (IH (0 + x)). lra.
Qed.
Lemma ssum_R_cons (l : list R) x : @ssum R ROps (x :: l) = x + @ssum R ROps l.
Proof. unfold ssum. cbn. rewrite fold_left_Rplus. cbn. lra. Qed.
Lemma ssum_R_nil : @ssum R ROps [] = 0. Proof. reflexivity. Qed.
