(** WelfordOnline / Vst / Vsct (welford_online.rs, variance_stabilizing_transformation.rs, vsct.rs):
    C02 closed forms, C07 bounds, C03 finite memory, C12 scale/shift behaviour, C16 (exact half). *)
From Coq Require Import List Arith Lia Reals Lra.
From SF Require Import Res Scalar View Models Spec Core SpecWelf.
From SF.Proofs Require Import Window RBase.
Import ListNotations.
Open Scope R_scope.

Notation rsum := (@ssum R ROps).
Notation rmean := (@smean R ROps).
Notation rsqdev := (@ssqdev R ROps).
Notation rvar := (@svar R ROps).
Notation rstd := (@sstd R ROps).

(** * Real-number facts about sums, means and squared deviations *)

Lemma rmean_R w : rmean w = rsum w / INR (length w).
Proof.
  unfold smean, sdivd. cbn [sdiv sofnat ROps s0]. unfold Rdiv_res.
  destruct (Req_EM_T (INR (length w)) 0) as [E|E]; [|reflexivity].
  rewrite E. unfold Rdiv. rewrite Rinv_0. ring.
Qed.

Lemma rsqdev_nil m : rsqdev m [] = 0. Proof. reflexivity. Qed.
Lemma rsqdev_cons m x l : rsqdev m (x :: l) = (x - m) * (x - m) + rsqdev m l.
Proof. unfold ssqdev. cbn [map]. rewrite ssum_R_cons. reflexivity. Qed.
Lemma rsqdev_app m l x : rsqdev m (l ++ [x]) = rsqdev m l + (x - m) * (x - m).
Proof. unfold ssqdev. rewrite map_app. cbn [map]. rewrite ssum_R_app. reflexivity. Qed.

Lemma rsqdev_nonneg m l : 0 <= rsqdev m l.
Proof.
  induction l as [|x l IH]; [rewrite rsqdev_nil; lra|].
  rewrite rsqdev_cons. pose proof (Rle_0_sqr (x - m)) as Hq. unfold Rsqr in Hq. lra.
Qed.

(** sum (x-c)^2 = sum x^2 - 2 c sum x + k c^2 *)
Lemma rsqdev_expand c l :
  rsqdev c l = rsqdev 0 l - 2 * c * rsum l + INR (length l) * c * c.
Proof.
  induction l as [|x l IH].
  - rewrite !rsqdev_nil, ssum_R_nil. cbn. ring.
  - rewrite !rsqdev_cons, ssum_R_cons, IH. change (length (x :: l)) with (S (length l)).
    rewrite S_INR. ring.
Qed.

Lemma rmean_nil : rmean [] = 0.
Proof. rewrite rmean_R. cbn. unfold Rdiv. ring. Qed.

(** Welford's update: adding [v] to [w] *)
Lemma welford_add w v :
  let m := rmean w in let m' := m + (v - m) / INR (length w + 1) in
  rmean (w ++ [v]) = m' /\
  rsqdev (rmean (w ++ [v])) (w ++ [v]) = rsqdev m w + (v - m) * (v - m').
Proof.
  intros m m'. destruct (Nat.eq_dec (length w) 0) as [E|E].
  - destruct w; [|discriminate]. unfold m', m. rewrite rmean_nil. cbn [app length Nat.add].
    assert (Hm : rmean [v] = v) by (rewrite rmean_R, ssum_R_cons, ssum_R_nil; cbn; field).
    rewrite Hm. split; [cbn; field|]. rewrite rsqdev_cons, !rsqdev_nil. cbn. field.
  - assert (Hk : INR (length w) <> 0) by (apply INR_pos_neq; lia).
    pose proof (pos_INR (length w)) as Hp.
    assert (Hm' : rmean (w ++ [v]) = m').
    { unfold m', m. rewrite !rmean_R, ssum_R_app, app_length. cbn [length].
      rewrite plus_INR. cbn [INR]. field. split; lra. }
    split; [exact Hm'|]. rewrite Hm'.
    rewrite rsqdev_app, (rsqdev_expand m' w), (rsqdev_expand m w).
    unfold m', m. rewrite !rmean_R. rewrite plus_INR. cbn [INR]. field. split; lra.
Qed.

(** Welford's downdate: removing the oldest value [x] from [x :: w] (at least one value remains) *)
Lemma welford_remove x w : (1 <= length w)%nat ->
  let m := rmean (x :: w) in let m' := m - (x - m) / INR (length (x :: w) - 1) in
  rmean w = m' /\
  rsqdev (rmean w) w = rsqdev m (x :: w) - (x - m) * (x - m').
Proof.
  intros Hl m m'.
  assert (Hs : (length (x :: w) - 1)%nat = length w) by (cbn [length]; lia).
  assert (Hk : INR (length w) <> 0) by (apply INR_pos_neq; lia).
  pose proof (pos_INR (length w)) as Hp.
  assert (Hm' : rmean w = m').
  { unfold m', m. rewrite Hs, !rmean_R, ssum_R_cons. change (length (x :: w)) with (S (length w)).
    rewrite S_INR. field. split; lra. }
  split; [exact Hm'|]. rewrite Hm'.
  rewrite rsqdev_cons, (rsqdev_expand m' w), (rsqdev_expand m w).
  unfold m', m. rewrite Hs, !rmean_R, ssum_R_cons. change (length (x :: w)) with (S (length w)).
  rewrite S_INR. field. split; lra.
Qed.

(** * The model's add / remove compute the statistics of the new window *)

Lemma wo_add_ok w v :
  @wo_add R ROps (rmean w) (rsqdev (rmean w) w) (length w) v
  = Ok (rmean (w ++ [v]), rsqdev (rmean (w ++ [v])) (w ++ [v]), length (w ++ [v])).
Proof.
  unfold wo_add. cbn [ssub sadd smul sofnat ROps].
  rewrite sdiv_R_ok by (apply INR_pos_neq; lia). cbn [bind].
  destruct (welford_add w v) as [Hm Hq]. cbn zeta in Hm, Hq. rewrite Hq, Hm.
  rewrite app_length. cbn [length]. reflexivity.
Qed.

Lemma wo_remove_ok x w :
  @wo_remove R ROps (rmean (x :: w)) (rsqdev (rmean (x :: w)) (x :: w)) (length (x :: w)) x
  = Ok (rmean w, rsqdev (rmean w) w, length w).
Proof.
  unfold wo_remove. destruct (Nat.leb_spec (length (x :: w)) 1) as [H|H].
  - cbn [length] in H. destruct w; [|cbn [length] in H; lia]. rewrite rmean_nil, rsqdev_nil. reflexivity.
  - cbn [length] in H. cbn [ssub sadd smul sofnat ROps].
    rewrite sdiv_R_ok by (apply INR_pos_neq; cbn [length]; lia). cbn [bind].
    destruct (welford_remove x w) as [Hm Hq]; [lia|]. cbn zeta in Hm, Hq. rewrite Hq, Hm.
    do 2 f_equal. cbn [length]. lia.
Qed.

(** * Invariant: the state holds the window and its exact statistics *)

Definition wo_inv (n : nat) (h : list R) (s : @wo_st R) : Prop :=
  wo_q s = lastn n h /\ wo_count s = length (lastn n h) /\
  wo_mean s = rmean (lastn n h) /\ wo_m2 s = rsqdev (rmean (lastn n h)) (lastn n h).

Lemma wo_step_inv n h s v : (1 <= n)%nat -> wo_inv n h s ->
  exists s', wo_step n s v = Ok s' /\ wo_inv n (h ++ [v]) s'.
Proof.
  intros Hn (Hq & Hc & Hm & H2). unfold wo_step. rewrite Hq, Hc, Hm, H2.
  rewrite app_length. cbn [length].
  pose proof (lastn_length n h) as Hl.
  destruct (Nat.ltb_spec n (length (lastn n h) + 1)) as [E|E].
  - assert (Hfull : (n <= length h)%nat) by lia.
    destruct (lastn_hd_tl n h Hfull Hn) as [x Hx].
    pose proof (lastn_app_full n h v Hn Hfull) as Hnew.
    set (w' := tl (lastn n h)) in *. rewrite Hx. cbn [app pop_front bind].
    rewrite wo_remove_ok. cbn [bind]. rewrite wo_add_ok. cbn [bind].
    eexists; split; [reflexivity|]. unfold wo_inv. cbn [wo_q wo_count wo_mean wo_m2].
    rewrite Hnew. repeat split; reflexivity.
  - assert (Hlt : (length h < n)%nat) by lia.
    pose proof (lastn_app_le n h v Hlt) as Hnew.
    cbn [bind]. rewrite wo_add_ok. cbn [bind].
    eexists; split; [reflexivity|]. unfold wo_inv. cbn [wo_q wo_count wo_mean wo_m2].
    rewrite Hnew. repeat split; reflexivity.
Qed.

Lemma wo_run_inv n vs : (1 <= n)%nat ->
  exists s, crun (@welford_core R ROps n) vs = Ok s /\ wo_inv n vs s.
Proof.
  intros Hn.
  apply (@crun_inv R (@welford_core R ROps n) (fun _ => True) (wo_inv n)
           {| wo_q := []; wo_mean := 0; wo_m2 := 0; wo_count := 0 |}).
  - cbn [cnew welford_core]. unfold wo_new. destruct (Nat.ltb_spec 0 n); [reflexivity | lia].
  - unfold wo_inv. rewrite lastn_nil. cbn [wo_q wo_count wo_mean wo_m2 length].
    rewrite rmean_nil, rsqdev_nil. repeat split; reflexivity.
  - intros h s v _ _ Hi. apply wo_step_inv; assumption.
  - apply Forall_forall; trivial.
Qed.

(** * Reading the answers off the invariant *)

Lemma wo_variance_ok n h s : wo_inv n h s -> wo_variance s = Ok (@spec_wvar R ROps n h).
Proof.
  intros (Hq & Hc & Hm & H2). unfold wo_variance, spec_wvar, svar. rewrite Hc, H2.
  destruct (Nat.ltb_spec 1 (length (lastn n h))) as [H|H]; [|reflexivity].
  assert (Hk : INR (length (lastn n h) - 1) <> 0) by (apply INR_pos_neq; lia).
  cbn [sofnat ROps]. rewrite sdiv_R_ok, sdivd_R by exact Hk. reflexivity.
Qed.

Lemma rstd_cases w : (rvar w <= 0 /\ rstd w = 0) \/ (0 < rvar w /\ rstd w = sqrt (rvar w)).
Proof.
  unfold sstd. cbn [sleb s0 ROps]. destruct (Rleb (rvar w) 0) eqn:E.
  - apply Rleb_true in E. left; split; [exact E | reflexivity].
  - apply Rleb_false in E. right; split; [exact E|]. unfold ssqrtd. cbn [ssqrt ROps].
    destruct (Rlt_dec (rvar w) 0); [lra | reflexivity].
Qed.

Lemma wo_last_ok n h s : (1 <= n)%nat -> wo_inv n h s -> wo_last n s = Ok (@spec_wlast R ROps n h).
Proof.
  intros Hn Hi. unfold wo_last, spec_wlast, usub.
  destruct (Nat.ltb_spec n 1) as [H|_]; [lia|]. cbn [bind].
  rewrite (wo_variance_ok _ _ _ Hi). destruct Hi as (Hq & Hc & Hm & H2). rewrite Hc.
  destruct (Nat.ltb (length (lastn n h)) (n - 1)); [reflexivity|]. cbn [bind].
  unfold spec_wstd, spec_wvar, sstd. cbn [sleb s0 ROps].
  destruct (Rleb (rvar (lastn n h)) 0) eqn:E; [reflexivity|].
  apply Rleb_false in E. unfold ssqrtd. cbn [ssqrt ROps].
  destruct (Rlt_dec (rvar (lastn n h)) 0); [lra | reflexivity].
Qed.

Lemma crun_mean_core n vs : crun (@welford_mean_core R ROps n) vs = crun (@welford_core R ROps n) vs.
Proof.
  unfold crun. cbn [cnew welford_mean_core welford_core]. destruct (wo_new n) as [s|e]; [|reflexivity].
  cbn [bind]. revert s. induction vs as [|v vs IH]; intros s; [reflexivity|].
  cbn [cfold cstep welford_mean_core welford_core]. destruct (wo_step n s v); [apply IH | reflexivity].
Qed.
Lemma crun_var_core n vs : crun (@welford_var_core R ROps n) vs = crun (@welford_core R ROps n) vs.
Proof.
  unfold crun. cbn [cnew welford_var_core welford_core]. destruct (wo_new n) as [s|e]; [|reflexivity].
  cbn [bind]. revert s. induction vs as [|v vs IH]; intros s; [reflexivity|].
  cbn [cfold cstep welford_var_core welford_core]. destruct (wo_step n s v); [apply IH | reflexivity].
Qed.

(** C02: WelfordOnline::mean() is the mean of the last n values (of all values before n were seen; 0 on
    the empty history) *)
Theorem welford_mean_closed_form n vs : (1 <= n)%nat ->
  cout (@welford_mean_core R ROps n) vs = Ok (Some (@spec_wmean R ROps n vs)).
Proof.
  intros Hn. destruct (wo_run_inv n vs Hn) as [s [Hr Hi]].
  unfold cout. rewrite crun_mean_core, Hr. cbn [bind clast welford_mean_core].
  destruct Hi as (_ & _ & Hm & _). rewrite Hm. reflexivity.
Qed.

(** C02: WelfordOnline::variance() is the sample variance of the last n values *)
Theorem welford_var_closed_form n vs : (1 <= n)%nat ->
  cout (@welford_var_core R ROps n) vs = Ok (Some (@spec_wvar R ROps n vs)).
Proof.
  intros Hn. destruct (wo_run_inv n vs Hn) as [s [Hr Hi]].
  unfold cout. rewrite crun_var_core, Hr. cbn [bind clast welford_var_core].
  rewrite (wo_variance_ok _ _ _ Hi). reflexivity.
Qed.

(** C02: WelfordOnline::last() is the sample standard deviation of the last n values; None while the
    window holds fewer than n-1 values *)
Theorem welford_closed_form n vs : (1 <= n)%nat ->
  cout (@welford_core R ROps n) vs = Ok (@spec_wlast R ROps n vs).
Proof.
  intros Hn. destruct (wo_run_inv n vs Hn) as [s [Hr Hi]].
  unfold cout. rewrite Hr. cbn [bind clast welford_core]. apply wo_last_ok; assumption.
Qed.

(** * Vst / Vsct: the private WelfordOnline plus the last value *)

Definition vs_inv (n : nat) (h : list R) (s : R * @wo_st R) : Prop :=
  fst s = @scur R ROps h /\ wo_inv n h (snd s).

Lemma scur_snoc (h : list R) v : @scur R ROps (h ++ [v]) = v.
Proof. unfold scur. apply last_last. Qed.

Lemma vst_run_inv n vs : (1 <= n)%nat ->
  exists s, crun (@vst_core R ROps n) vs = Ok s /\ vs_inv n vs s.
Proof.
  intros Hn.
  apply (@crun_inv R (@vst_core R ROps n) (fun _ => True) (vs_inv n)
           (0, {| wo_q := []; wo_mean := 0; wo_m2 := 0; wo_count := 0 |})).
  - cbn [cnew vst_core]. unfold wo_new. destruct (Nat.ltb_spec 0 n); [reflexivity | lia].
  - split; [reflexivity|]. unfold wo_inv. cbn [snd]. rewrite lastn_nil. cbn [wo_q wo_count wo_mean wo_m2 length].
    rewrite rmean_nil, rsqdev_nil. repeat split; reflexivity.
  - intros h s v _ _ [Hf Hi]. destruct (wo_step_inv n h (snd s) v Hn Hi) as [w [Hw Hi']].
    cbn [cstep vst_core]. rewrite Hw. cbn [bind]. eexists; split; [reflexivity|].
    split; cbn [fst snd]; [symmetry; apply scur_snoc | exact Hi'].
  - apply Forall_forall; trivial.
Qed.

Lemma crun_vsct_core n vs : crun (@vsct_core R ROps n) vs = crun (@vst_core R ROps n) vs.
Proof.
  unfold crun. cbn [cnew vsct_core vst_core]. destruct (wo_new n) as [w|e]; [|reflexivity].
  cbn [bind]. generalize (@s0 R ROps, w). intros s. revert s.
  induction vs as [|v vs IH]; intros s; [reflexivity|].
  cbn [cfold cstep vsct_core vst_core]. destruct (wo_step n (snd s) v); [apply IH | reflexivity].
Qed.

(** C02: Vst is x_t / std with the windowed std of WelfordOnline (x_t when std = 0) *)
Theorem vst_closed_form n vs : (1 <= n)%nat ->
  cout (@vst_core R ROps n) vs = Ok (@spec_vst R ROps n vs).
Proof.
  intros Hn. destruct (vst_run_inv n vs Hn) as [s [Hr [Hf Hi]]].
  unfold cout. rewrite Hr. cbn [bind clast vst_core]. rewrite (wo_last_ok _ _ _ Hn Hi). cbn [bind].
  unfold spec_vst. destruct (@spec_wlast R ROps n vs) as [sd|]; [|reflexivity].
  rewrite Hf. cbn [seqb s0 ROps]. destruct (Reqb sd 0) eqn:E; [reflexivity|].
  apply Reqb_false in E. rewrite sdiv_R_ok, sdivd_R by exact E. reflexivity.
Qed.

(** C02: Vsct is (x_t - mean) / std with the windowed mean and std of WelfordOnline (0 when std = 0) *)
Theorem vsct_closed_form n vs : (1 <= n)%nat ->
  cout (@vsct_core R ROps n) vs = Ok (@spec_vsct R ROps n vs).
Proof.
  intros Hn. destruct (vst_run_inv n vs Hn) as [s [Hr [Hf Hi]]].
  unfold cout. rewrite crun_vsct_core, Hr. cbn [bind clast vsct_core]. rewrite (wo_last_ok _ _ _ Hn Hi). cbn [bind].
  unfold spec_vsct. destruct (@spec_wlast R ROps n vs) as [sd|]; [|reflexivity].
  rewrite Hf. destruct Hi as (_ & _ & Hm & _). rewrite Hm.
  cbn [seqb s0 ssub ROps]. destruct (Reqb sd 0) eqn:E; [reflexivity|].
  apply Reqb_false in E. rewrite sdiv_R_ok, sdivd_R by exact E. reflexivity.
Qed.

(** * C07: ranges *)

Lemma rvar_nonneg w : 0 <= rvar w.
Proof.
  unfold svar. destruct (Nat.ltb_spec 1 (length w)) as [H|H]; [|cbn; lra].
  assert (Hk : 0 < INR (length w - 1)) by (apply lt_0_INR; lia).
  cbn [sofnat ROps]. rewrite sdivd_R by lra.
  apply Rmult_le_pos; [apply rsqdev_nonneg | left; apply Rinv_0_lt_compat; exact Hk].
Qed.

Lemma rstd_nonneg w : 0 <= rstd w.
Proof. destruct (rstd_cases w) as [[_ H]|[_ H]]; rewrite H; [lra | apply sqrt_pos]. Qed.

(** C07: the standard deviation reported by WelfordOnline is never negative *)
Theorem welford_last_nonneg n vs v : (1 <= n)%nat ->
  cout (@welford_core R ROps n) vs = Ok (Some v) -> 0 <= v.
Proof.
  intros Hn H. rewrite welford_closed_form in H by exact Hn. unfold spec_wlast in H.
  destruct (Nat.ltb (length (lastn n vs)) (n - 1)); [discriminate|].
  inversion H; subst. apply rstd_nonneg.
Qed.

(** C07: and so is its variance() *)
Theorem welford_var_nonneg n vs v : (1 <= n)%nat ->
  cout (@welford_var_core R ROps n) vs = Ok (Some v) -> 0 <= v.
Proof.
  intros Hn H. rewrite welford_var_closed_form in H by exact Hn. inversion H; subst. apply rvar_nonneg.
Qed.

(** (sum (x_i - m))^2 <= k * sum (x_i - m)^2 *)
Lemma qm_am_dev m l :
  (rsum l - INR (length l) * m) * (rsum l - INR (length l) * m) <= INR (length l) * rsqdev m l.
Proof.
  induction l as [|x l IH]; [rewrite ssum_R_nil, rsqdev_nil; cbn; lra|].
  change (length (x :: l)) with (S (length l)). rewrite S_INR, ssum_R_cons, rsqdev_cons.
  pose proof (rsqdev_nonneg m l) as Hq. pose proof (pos_INR (length l)) as Hn.
  set (Sm := rsum l - INR (length l) * m) in *. set (Q := rsqdev m l) in *.
  set (k := INR (length l)) in *. set (a := x - m).
  replace (x + rsum l - (k + 1) * m) with (a + Sm) by (unfold a, Sm, k; ring).
  clearbody Sm Q k a.
  destruct (Req_dec k 0) as [H0|H0].
  - rewrite H0 in *.
    assert (HS : Sm * Sm = 0) by (pose proof (Rle_0_sqr Sm) as H2; unfold Rsqr in H2; lra).
    apply Rmult_integral in HS. assert (HS0 : Sm = 0) by (destruct HS; assumption). rewrite HS0. nra.
  - assert (Hk : 0 < k) by lra.
    assert (H2 : 2 * a * Sm <= k * a * a + Q).
    { pose proof (Rle_0_sqr (k * a - Sm)) as Hsq. unfold Rsqr in Hsq.
      assert (k * (2 * a * Sm) <= k * (k * a * a + Q)) by nra.
      apply Rmult_le_reg_l with k; lra. }
    nra.
Qed.

(** Samuelson's inequality for the newest value of a window: k (x - mean)^2 <= (k-1) sum (x_i - mean)^2 *)
Lemma samuelson w x :
  let m := rmean (w ++ [x]) in
  INR (length (w ++ [x])) * ((x - m) * (x - m)) <= INR (length w) * rsqdev m (w ++ [x]).
Proof.
  intros m. pose proof (qm_am_dev m w) as H.
  assert (Hs : rsum w - INR (length w) * m = - (x - m)).
  { unfold m. rewrite rmean_R, ssum_R_app, app_length. cbn [length]. rewrite plus_INR. cbn [INR].
    pose proof (pos_INR (length w)). field. lra. }
  rewrite Hs in H. rewrite rsqdev_app, app_length, plus_INR. cbn [length INR].
  set (a := x - m) in *. set (Q := rsqdev m w) in *. set (k := INR (length w)) in *.
  clearbody a Q k. nra.
Qed.

(** (k-1)^2/k is increasing for k >= 1 *)
Lemma samuelson_mono k n : 1 <= k -> k <= n -> (k - 1) * (k - 1) / k <= (n - 1) * (n - 1) / n.
Proof.
  intros Hk Hkn.
  assert (H : (n - 1) * (n - 1) / n - (k - 1) * (k - 1) / k = (n - k) * (n * k - 1) / (n * k))
    by (field; lra).
  assert (0 <= (n - k) * (n * k - 1) / (n * k)).
  { apply Rmult_le_pos; [apply Rmult_le_pos; nra | left; apply Rinv_0_lt_compat; nra]. }
  lra.
Qed.

Lemma lastn_snoc_cur n (h : list R) : (1 <= n)%nat -> h <> [] ->
  exists w, lastn n h = w ++ [@scur R ROps h].
Proof.
  intros Hn Hh. destruct (exists_last Hh) as [h' [x Hx]]. subst h.
  rewrite scur_snoc, <- (evict_push_lastn n h' x Hn). eexists; reflexivity.
Qed.

(** the windowed z-score of the newest value, on the spec *)
Lemma vsct_spec_bound n h v : (1 <= n)%nat ->
  @spec_vsct R ROps n h = Some v -> Rabs v <= (INR n - 1) / sqrt (INR n).
Proof.
  intros Hn H.
  assert (Hn1 : 1 <= INR n) by (change 1 with (INR 1); apply le_INR; exact Hn).
  assert (Hsq : 0 < sqrt (INR n)) by (apply sqrt_lt_R0; lra).
  assert (HB : 0 <= (INR n - 1) / sqrt (INR n)).
  { apply Rmult_le_pos; [lra | left; apply Rinv_0_lt_compat; exact Hsq]. }
  unfold spec_vsct in H. destruct (@spec_wlast R ROps n h) as [sd|] eqn:El; [|discriminate].
  unfold spec_wlast in El. destruct (Nat.ltb (length (lastn n h)) (n - 1)); [discriminate|].
  inversion El as [Hsd]; clear El. inversion H as [Hv]; clear H.
  cbn [seqb s0 ssub ROps]. destruct (Reqb sd 0) eqn:E.
  - rewrite Rabs_R0. exact HB.
  - apply Reqb_false in E. rewrite sdivd_R by exact E.
    unfold spec_wstd in Hsd. destruct (rstd_cases (lastn n h)) as [[_ H0]|[Hpos Hsd']]; [lra|].
    (* the window has at least two values *)
    assert (Hk2 : (2 <= length (lastn n h))%nat).
    { unfold svar in Hpos. destruct (Nat.ltb_spec 1 (length (lastn n h))); [lia | cbn in Hpos; lra]. }
    assert (Hh : h <> []) by (intros ->; rewrite lastn_nil in Hk2; cbn in Hk2; lia).
    destruct (lastn_snoc_cur n h Hn Hh) as [w Hw].
    unfold spec_wmean. set (x := @scur R ROps h) in *. rewrite Hw in *.
    pose proof (samuelson w x) as Hsam. cbn zeta in Hsam.
    set (m := rmean (w ++ [x])) in *.
    assert (Hvar : rvar (w ++ [x]) = rsqdev m (w ++ [x]) / INR (length w)).
    { unfold svar. destruct (Nat.ltb_spec 1 (length (w ++ [x]))) as [_|Hc]; [|lia].
      rewrite app_length in *. cbn [length] in *. replace (length w + 1 - 1)%nat with (length w) by lia.
      cbn [sofnat ROps]. rewrite sdivd_R by (apply INR_pos_neq; lia). reflexivity. }
    assert (Hkw : 1 <= INR (length w)).
    { change 1 with (INR 1). apply le_INR. rewrite app_length in Hk2. cbn [length] in Hk2. lia. }
    assert (Hkn : INR (length (w ++ [x])) <= INR n).
    { apply le_INR. rewrite <- Hw, lastn_length. lia. }
    rewrite app_length, plus_INR in Hsam, Hkn. cbn [length INR] in Hsam, Hkn.
    rewrite Hvar in Hpos, Hsd'. rewrite <- Hsd, Hsd'.
    set (k := INR (length w)) in *. set (Q := rsqdev m (w ++ [x])) in *. set (a := x - m) in *.
    clearbody k Q a.
    assert (HQ : 0 < Q).
    { apply Rmult_lt_reg_r with (/ k); [apply Rinv_0_lt_compat; lra|]. unfold Rdiv in Hpos. lra. }
    apply Rsqr_incr_0_var; [|exact HB]. rewrite <- Rsqr_abs.
    rewrite !Rsqr_div' . rewrite !Rsqr_sqrt by lra.
    apply Rle_trans with (k * k / (k + 1)).
    + unfold Rsqr.
      assert (Hd : k * k / (k + 1) - a * a / (Q / k) = k * (k * Q - (k + 1) * (a * a)) / ((k + 1) * Q))
        by (field; lra).
      assert (0 <= k * (k * Q - (k + 1) * (a * a)) / ((k + 1) * Q)).
      { apply Rmult_le_pos; [apply Rmult_le_pos; lra | left; apply Rinv_0_lt_compat; nra]. }
      lra.
    + pose proof (samuelson_mono (k + 1) (INR n) ltac:(lra) Hkn) as Hmono.
      replace (k + 1 - 1) with k in Hmono by ring. unfold Rsqr. exact Hmono.
Qed.

(** C07: |Vsct| <= (n-1)/sqrt n *)
Theorem vsct_bound n vs v : (1 <= n)%nat ->
  cout (@vsct_core R ROps n) vs = Ok (Some v) -> Rabs v <= (INR n - 1) / sqrt (INR n).
Proof.
  intros Hn H. rewrite vsct_closed_form in H by exact Hn. inversion H as [H']. eapply vsct_spec_bound; eassumption.
Qed.

(** * C03: finite memory, K = n *)

Lemma scur_app_suffix (p s : list R) : s <> [] -> @scur R ROps (p ++ s) = @scur R ROps s.
Proof.
  intros Hs. destruct (exists_last Hs) as [s' [x Hx]]. subst s.
  rewrite app_assoc, !scur_snoc. reflexivity.
Qed.

Section FiniteMemory.
Variables (n : nat) (p p' s : list R).
Hypothesis Hn : (1 <= n)%nat.
Hypothesis Hs : (n <= length s)%nat.

Let Hne : s <> [].
Proof. intros ->. cbn in Hs. lia. Qed.

Lemma spec_wmean_suffix : @spec_wmean R ROps n (p ++ s) = @spec_wmean R ROps n s.
Proof. unfold spec_wmean. rewrite lastn_app_suffix by exact Hs. reflexivity. Qed.
Lemma spec_wvar_suffix : @spec_wvar R ROps n (p ++ s) = @spec_wvar R ROps n s.
Proof. unfold spec_wvar. rewrite lastn_app_suffix by exact Hs. reflexivity. Qed.
Lemma spec_wlast_suffix : @spec_wlast R ROps n (p ++ s) = @spec_wlast R ROps n s.
Proof. unfold spec_wlast, spec_wstd. rewrite lastn_app_suffix by exact Hs. reflexivity. Qed.
Lemma spec_vst_suffix : @spec_vst R ROps n (p ++ s) = @spec_vst R ROps n s.
Proof. unfold spec_vst. rewrite spec_wlast_suffix, scur_app_suffix by exact Hne. reflexivity. Qed.
Lemma spec_vsct_suffix : @spec_vsct R ROps n (p ++ s) = @spec_vsct R ROps n s.
Proof.
  unfold spec_vsct. rewrite spec_wlast_suffix, spec_wmean_suffix, scur_app_suffix by exact Hne. reflexivity.
Qed.
End FiniteMemory.

(** C03: the answers depend on the last n values only *)
Theorem welford_mean_finite_memory n p p' s : (1 <= n)%nat -> (n <= length s)%nat ->
  cout (@welford_mean_core R ROps n) (p ++ s) = cout (@welford_mean_core R ROps n) (p' ++ s).
Proof. intros Hn Hs. rewrite !welford_mean_closed_form, !spec_wmean_suffix by assumption. reflexivity. Qed.
Theorem welford_var_finite_memory n p p' s : (1 <= n)%nat -> (n <= length s)%nat ->
  cout (@welford_var_core R ROps n) (p ++ s) = cout (@welford_var_core R ROps n) (p' ++ s).
Proof. intros Hn Hs. rewrite !welford_var_closed_form, !spec_wvar_suffix by assumption. reflexivity. Qed.
Theorem welford_finite_memory n p p' s : (1 <= n)%nat -> (n <= length s)%nat ->
  cout (@welford_core R ROps n) (p ++ s) = cout (@welford_core R ROps n) (p' ++ s).
Proof. intros Hn Hs. rewrite !welford_closed_form, !spec_wlast_suffix by assumption. reflexivity. Qed.
Theorem vst_finite_memory n p p' s : (1 <= n)%nat -> (n <= length s)%nat ->
  cout (@vst_core R ROps n) (p ++ s) = cout (@vst_core R ROps n) (p' ++ s).
Proof. intros Hn Hs. rewrite !vst_closed_form, !(spec_vst_suffix n _ s) by assumption. reflexivity. Qed.
Theorem vsct_finite_memory n p p' s : (1 <= n)%nat -> (n <= length s)%nat ->
  cout (@vsct_core R ROps n) (p ++ s) = cout (@vsct_core R ROps n) (p' ++ s).
Proof. intros Hn Hs. rewrite !vsct_closed_form, !(spec_vsct_suffix n _ s) by assumption. reflexivity. Qed.

(** * C12: behaviour under x |-> a x + b *)

Section Affine.
Variables a b : R.
Let f (x : R) : R := a * x + b.

Lemma rsum_affine l : rsum (map f l) = a * rsum l + INR (length l) * b.
Proof.
  induction l as [|x l IH]; [cbn [map length INR]; rewrite ssum_R_nil; ring|].
  cbn [map]. rewrite !ssum_R_cons, IH. change (length (x :: l)) with (S (length l)). rewrite S_INR.
  unfold f. ring.
Qed.

Lemma rmean_affine l : l <> [] -> rmean (map f l) = a * rmean l + b.
Proof.
  intros Hl. rewrite !rmean_R, rsum_affine, map_length.
  assert (INR (length l) <> 0) by (apply INR_pos_neq; destruct l; [congruence | cbn; lia]).
  field. assumption.
Qed.

Lemma rsqdev_affine m l : rsqdev (a * m + b) (map f l) = a * a * rsqdev m l.
Proof.
  induction l as [|x l IH]; [cbn [map]; rewrite !rsqdev_nil; ring|].
  cbn [map]. rewrite !rsqdev_cons, IH. unfold f. ring.
Qed.

Lemma rvar_affine l : rvar (map f l) = a * a * rvar l.
Proof.
  unfold svar. rewrite map_length. destruct (Nat.ltb_spec 1 (length l)) as [H|H]; [|cbn; ring].
  assert (Hl : l <> []) by (intros ->; cbn in H; lia).
  rewrite rmean_affine, rsqdev_affine by exact Hl.
  cbn [sofnat ROps]. rewrite !sdivd_R by (apply INR_pos_neq; lia). field. apply INR_pos_neq; lia.
Qed.

Lemma rstd_affine l : rstd (map f l) = Rabs a * rstd l.
Proof.
  pose proof (rvar_nonneg l) as Hv0.
  destruct (rstd_cases (map f l)) as [[Hv Hs]|[Hv Hs]]; rewrite Hs; rewrite rvar_affine in *.
  - destruct (rstd_cases l) as [[Hv' Hs']|[Hv' Hs']]; rewrite Hs'; [ring|].
    assert (Ha : a = 0).
    { destruct (Req_dec a 0) as [E|E]; [exact E|]. exfalso.
      assert (0 < a * a) by (pose proof (Rsqr_pos_lt a E) as Hp; unfold Rsqr in Hp; exact Hp). nra. }
    rewrite Ha, Rabs_R0. ring.
  - destruct (rstd_cases l) as [[Hv' Hs']|[Hv' Hs']]; rewrite Hs'.
    + exfalso. assert (rvar l = 0) by lra. nra.
    + rewrite sqrt_mult_alt by (pose proof (Rle_0_sqr a) as Hp; unfold Rsqr in Hp; exact Hp).
      change (a * a) with (Rsqr a). rewrite sqrt_Rsqr_abs. reflexivity.
Qed.

Lemma lastn_map {A B} (g : A -> B) n (l : list A) : lastn n (map g l) = map g (lastn n l).
Proof. unfold lastn. rewrite map_length, skipn_map. reflexivity. Qed.

Lemma scur_affine h : h <> [] -> @scur R ROps (map f h) = f (@scur R ROps h).
Proof.
  intros Hh. destruct (exists_last Hh) as [h' [x Hx]]. subst h.
  rewrite map_app. cbn [map]. rewrite !scur_snoc. reflexivity.
Qed.

Lemma lastn_nonnil {A} n (h : list A) : (1 <= n)%nat -> h <> [] -> lastn n h <> [].
Proof.
  intros Hn Hh E. apply (f_equal (@length A)) in E. rewrite lastn_length in E. cbn in E.
  destruct h; [congruence | cbn in E; lia].
Qed.

Lemma spec_wmean_affine n h : (1 <= n)%nat -> h <> [] ->
  @spec_wmean R ROps n (map f h) = a * @spec_wmean R ROps n h + b.
Proof. intros Hn Hh. unfold spec_wmean. rewrite lastn_map. apply rmean_affine, lastn_nonnil; assumption. Qed.

Lemma spec_wvar_affine n h : @spec_wvar R ROps n (map f h) = a * a * @spec_wvar R ROps n h.
Proof. unfold spec_wvar. rewrite lastn_map. apply rvar_affine. Qed.

Lemma spec_wstd_affine n h : @spec_wstd R ROps n (map f h) = Rabs a * @spec_wstd R ROps n h.
Proof. unfold spec_wstd. rewrite lastn_map. apply rstd_affine. Qed.

Lemma spec_wlast_affine n h :
  @spec_wlast R ROps n (map f h) = option_map (Rmult (Rabs a)) (@spec_wlast R ROps n h).
Proof.
  unfold spec_wlast. rewrite spec_wstd_affine, lastn_map, map_length.
  destruct (Nat.ltb (length (lastn n h)) (n - 1)); reflexivity.
Qed.

(** Vsct of the transformed input is sign(a) * Vsct of the input *)
Lemma spec_vsct_affine n h : (1 <= n)%nat -> a <> 0 ->
  @spec_vsct R ROps n (map f h) = option_map (Rmult (a / Rabs a)) (@spec_vsct R ROps n h).
Proof.
  intros Hn Ha. assert (Haa : Rabs a <> 0) by (apply Rabs_no_R0; exact Ha).
  destruct h as [|x0 h0]; [|set (h := x0 :: h0); assert (Hh : h <> []) by discriminate].
  - unfold spec_vsct, spec_wlast. cbn [map]. rewrite lastn_nil. cbn [length].
    destruct (Nat.ltb 0 (n - 1)); [reflexivity|]. unfold spec_wstd. rewrite lastn_nil.
    destruct (rstd_cases []) as [[_ Hs]|[Hv _]]; [|unfold svar in Hv; cbn in Hv; lra].
    rewrite Hs. cbn [seqb s0 ROps option_map]. destruct (Reqb 0 0) eqn:E; [f_equal; ring|].
    apply Reqb_false in E. congruence.
  - unfold spec_vsct. rewrite spec_wlast_affine.
    destruct (@spec_wlast R ROps n h) as [sd|]; [|reflexivity]. cbn [option_map]. f_equal.
    cbn [seqb s0 ssub ROps]. rewrite spec_wmean_affine, scur_affine by assumption.
    destruct (Reqb sd 0) eqn:E.
    + apply Reqb_true in E. subst sd. rewrite Rmult_0_r.
      destruct (Reqb 0 0) eqn:E0; [ring | apply Reqb_false in E0; congruence].
    + apply Reqb_false in E. assert (Hne : Rabs a * sd <> 0) by (apply Rmult_integral_contrapositive; split; assumption).
      destruct (Reqb (Rabs a * sd) 0) eqn:E1; [apply Reqb_true in E1; congruence|].
      rewrite !sdivd_R by assumption. unfold f. field. split; assumption.
Qed.
End Affine.

(** Vst under scaling by a <> 0, when the windowed std is not 0 *)
Lemma spec_vst_scale a n h : (1 <= n)%nat -> a <> 0 -> @spec_wstd R ROps n h <> 0 ->
  @spec_vst R ROps n (map (fun x => a * x + 0) h) = option_map (Rmult (a / Rabs a)) (@spec_vst R ROps n h).
Proof.
  intros Hn Ha Hsd. assert (Haa : Rabs a <> 0) by (apply Rabs_no_R0; exact Ha).
  assert (Hh : h <> []).
  { intros ->. apply Hsd. unfold spec_wstd. rewrite lastn_nil.
    destruct (rstd_cases []) as [[_ Hs]|[Hv _]]; [exact Hs | unfold svar in Hv; cbn in Hv; lra]. }
  unfold spec_vst. rewrite spec_wlast_affine. unfold spec_wlast.
  destruct (Nat.ltb (length (lastn n h)) (n - 1)); [reflexivity|]. cbn [option_map]. f_equal.
  cbn [seqb s0 ROps]. rewrite scur_affine by assumption.
  set (sd := @spec_wstd R ROps n h) in *.
  destruct (Reqb sd 0) eqn:E; [apply Reqb_true in E; congruence|].
  assert (Hne : Rabs a * sd <> 0) by (apply Rmult_integral_contrapositive; split; assumption).
  destruct (Reqb (Rabs a * sd) 0) eqn:E1; [apply Reqb_true in E1; congruence|].
  rewrite !sdivd_R by assumption. field. split; assumption.
Qed.

(** Vst under negation, when the windowed std is 0: x_t is negated *)
Lemma spec_vst_neg_flat n h : (1 <= n)%nat -> @spec_wstd R ROps n h = 0 ->
  @spec_vst R ROps n (map (fun x => -1 * x + 0) h) = option_map Ropp (@spec_vst R ROps n h).
Proof.
  intros Hn Hsd. unfold spec_vst. rewrite spec_wlast_affine. unfold spec_wlast.
  destruct (Nat.ltb (length (lastn n h)) (n - 1)); [reflexivity|]. cbn [option_map]. f_equal.
  cbn [seqb s0 ROps]. rewrite Hsd, Rmult_0_r.
  destruct (Reqb 0 0) eqn:E0; [|apply Reqb_false in E0; congruence].
  destruct h as [|x0 h0]; [cbn; ring|]. rewrite scur_affine by discriminate. ring.
Qed.

Lemma option_map_ext {A B} (g g' : A -> B) o : (forall x, g x = g' x) -> option_map g o = option_map g' o.
Proof. intros H. destruct o; cbn; [rewrite H|]; reflexivity. Qed.
Lemma option_map_id_ext {A} (g : A -> A) o : (forall x, g x = x) -> option_map g o = o.
Proof. intros H. destruct o; cbn; [rewrite H|]; reflexivity. Qed.

Lemma sign_pos a : 0 < a -> a / Rabs a = 1.
Proof. intros H. rewrite Rabs_pos_eq by lra. field. lra. Qed.

(** C12: Vsct is invariant under x |-> a x + b, a > 0 *)
Theorem vsct_affine_invariant n a b vs : (1 <= n)%nat -> 0 < a ->
  cout (@vsct_core R ROps n) (map (fun x => a * x + b) vs) = cout (@vsct_core R ROps n) vs.
Proof.
  intros Hn Ha. rewrite !vsct_closed_form by exact Hn. f_equal.
  rewrite spec_vsct_affine by (try assumption; lra). apply option_map_id_ext.
  intros x. rewrite sign_pos by exact Ha. ring.
Qed.

(** C12: Vst is invariant under x |-> a x, a > 0, when the windowed std is not 0 *)
Theorem vst_scale_invariant n a vs : (1 <= n)%nat -> 0 < a -> @spec_wstd R ROps n vs <> 0 ->
  cout (@vst_core R ROps n) (map (fun x => a * x) vs) = cout (@vst_core R ROps n) vs.
Proof.
  intros Hn Ha Hsd. rewrite !vst_closed_form by exact Hn. f_equal.
  rewrite (map_ext (fun x => a * x) (fun x => a * x + 0)) by (intros; ring).
  rewrite spec_vst_scale by (try assumption; lra). apply option_map_id_ext.
  intros x. rewrite sign_pos by exact Ha. ring.
Qed.

(** the same with the hypothesis stated on WelfordOnline's own output *)
Corollary vst_scale_invariant' n a vs sd : (1 <= n)%nat -> 0 < a ->
  cout (@welford_core R ROps n) vs = Ok (Some sd) -> sd <> 0 ->
  cout (@vst_core R ROps n) (map (fun x => a * x) vs) = cout (@vst_core R ROps n) vs.
Proof.
  intros Hn Ha Hw Hsd. apply vst_scale_invariant; try assumption.
  rewrite welford_closed_form in Hw by exact Hn. unfold spec_wlast in Hw.
  destruct (Nat.ltb (length (lastn n vs)) (n - 1)); [discriminate|]. inversion Hw; subst. exact Hsd.
Qed.

(** C12: WelfordOnline's mean() scales with the input (any a) *)
Theorem welford_mean_scale n a vs : (1 <= n)%nat ->
  cout (@welford_mean_core R ROps n) (map (fun x => a * x) vs)
  = Ok (Some (a * @spec_wmean R ROps n vs)).
Proof.
  intros Hn. rewrite welford_mean_closed_form by exact Hn. do 2 f_equal.
  destruct vs as [|x0 v0].
  - cbn [map]. unfold spec_wmean. rewrite lastn_nil, rmean_nil. ring.
  - rewrite (map_ext (fun x => a * x) (fun x => a * x + 0)) by (intros; ring).
    rewrite spec_wmean_affine by (try assumption; discriminate). ring.
Qed.

(** ... and shifts with it *)
Theorem welford_mean_affine n a b vs : (1 <= n)%nat -> vs <> [] ->
  cout (@welford_mean_core R ROps n) (map (fun x => a * x + b) vs)
  = Ok (Some (a * @spec_wmean R ROps n vs + b)).
Proof.
  intros Hn Hvs. rewrite welford_mean_closed_form by exact Hn. do 2 f_equal.
  apply spec_wmean_affine; assumption.
Qed.

(** C12: WelfordOnline's last() scales by |a| and ignores shifts; by a when a > 0 *)
Theorem welford_last_affine n a b vs : (1 <= n)%nat ->
  cout (@welford_core R ROps n) (map (fun x => a * x + b) vs)
  = Ok (option_map (Rmult (Rabs a)) (@spec_wlast R ROps n vs)).
Proof. intros Hn. rewrite welford_closed_form by exact Hn. f_equal. apply spec_wlast_affine. Qed.

Theorem welford_last_scale n a vs : (1 <= n)%nat -> 0 < a ->
  cout (@welford_core R ROps n) (map (fun x => a * x) vs)
  = Ok (option_map (Rmult a) (@spec_wlast R ROps n vs)).
Proof.
  intros Hn Ha. rewrite (map_ext (fun x => a * x) (fun x => a * x + 0)) by (intros; ring).
  rewrite welford_last_affine by exact Hn. rewrite Rabs_pos_eq by lra. reflexivity.
Qed.

(** the scaling statements in "output of the run" form *)
Corollary welford_scale_outputs n a vs : (1 <= n)%nat -> 0 < a ->
  exists m o, cout (@welford_mean_core R ROps n) vs = Ok (Some m) /\
              cout (@welford_core R ROps n) vs = Ok o /\
              cout (@welford_mean_core R ROps n) (map (fun x => a * x) vs) = Ok (Some (a * m)) /\
              cout (@welford_core R ROps n) (map (fun x => a * x) vs) = Ok (option_map (Rmult a) o).
Proof.
  intros Hn Ha. exists (@spec_wmean R ROps n vs), (@spec_wlast R ROps n vs).
  repeat split; [apply welford_mean_closed_form | apply welford_closed_form
                | apply welford_mean_scale | apply welford_last_scale]; assumption.
Qed.

(** C12: negating the input negates Vsct *)
Theorem vsct_negate n vs : (1 <= n)%nat ->
  cout (@vsct_core R ROps n) (map Ropp vs)
  = do o <- cout (@vsct_core R ROps n) vs; Ok (option_map Ropp o).
Proof.
  intros Hn. rewrite !vsct_closed_form by exact Hn. cbn [bind]. f_equal.
  rewrite (map_ext Ropp (fun x => -1 * x + 0)) by (intros; ring).
  rewrite spec_vsct_affine by (try assumption; lra). apply option_map_ext.
  intros x. rewrite Rabs_left by lra. field.
Qed.

(** C12: negating the input negates Vst (also when the windowed std is 0) *)
Theorem vst_negate n vs : (1 <= n)%nat ->
  cout (@vst_core R ROps n) (map Ropp vs)
  = do o <- cout (@vst_core R ROps n) vs; Ok (option_map Ropp o).
Proof.
  intros Hn. rewrite !vst_closed_form by exact Hn. cbn [bind]. f_equal.
  rewrite (map_ext Ropp (fun x => -1 * x + 0)) by (intros; ring).
  destruct (Req_dec (@spec_wstd R ROps n vs) 0) as [E|E].
  - apply spec_vst_neg_flat; assumption.
  - rewrite spec_vst_scale by (try assumption; lra). apply option_map_ext.
    intros x. rewrite Rabs_left by lra. field.
Qed.

(** C12, refutation of the unguarded statement: on a flat window scaling the input does change Vst
    (n = 1, input [5] scaled by 4: Vst is 5 before and 20 after) *)
Theorem vst_scale_flat_refuted :
  exists (n : nat) (a : R) (vs : list R), (1 <= n)%nat /\ 0 < a /\
    cout (@vst_core R ROps n) vs = Ok (Some 5) /\
    cout (@vst_core R ROps n) (map (fun x => a * x) vs) = Ok (Some 20) /\
    cout (@vst_core R ROps n) (map (fun x => a * x) vs) <> cout (@vst_core R ROps n) vs.
Proof.
  assert (Hflat : forall x, @spec_vst R ROps 1 [x] = Some x).
  { intros x. unfold spec_vst, spec_wlast, spec_wstd. cbn [lastn length Nat.sub skipn Nat.ltb Nat.leb].
    destruct (rstd_cases [x]) as [[_ Hs]|[Hv _]]; [|unfold svar in Hv; cbn in Hv; lra].
    rewrite Hs. cbn [seqb s0 ROps]. destruct (Reqb 0 0) eqn:E; [reflexivity|].
    apply Reqb_false in E. congruence. }
  exists 1%nat, 4, [5]. split; [lia|]. split; [lra|].
  cbn [map]. replace (4 * 5) with 20 by ring. rewrite !vst_closed_form by lia. rewrite !Hflat.
  repeat split. intros H. inversion H. lra.
Qed.

(** * C16 (exact half): a flat window *)

Lemma Forall_lastn {A} (P : A -> Prop) n l : Forall P l -> Forall P (lastn n l).
Proof.
  unfold lastn. generalize (length l - n)%nat as k. intros k. revert l.
  induction k as [|k IH]; intros l H; [exact H|].
  destruct l as [|x l]; [exact H|]. cbn [skipn]. apply IH. inversion H; assumption.
Qed.

Lemma rsum_flat c w : Forall (fun x => x = c) w -> rsum w = INR (length w) * c.
Proof.
  induction 1 as [|x l Hx _ IH]; [rewrite ssum_R_nil; cbn; ring|].
  rewrite ssum_R_cons, IH, Hx. change (length (c :: l)) with (S (length l)). rewrite S_INR. ring.
Qed.
Lemma rmean_flat c w : Forall (fun x => x = c) w -> w <> [] -> rmean w = c.
Proof.
  intros H Hw. rewrite rmean_R, (rsum_flat c w H). field.
  apply INR_pos_neq. destruct w; [congruence | cbn; lia].
Qed.
Lemma rsqdev_flat c w : Forall (fun x => x = c) w -> rsqdev c w = 0.
Proof.
  induction 1 as [|x l Hx _ IH]; [apply rsqdev_nil|]. rewrite rsqdev_cons, IH, Hx. ring.
Qed.
Lemma rvar_flat c w : Forall (fun x => x = c) w -> rvar w = 0.
Proof.
  intros H. unfold svar. destruct (Nat.ltb_spec 1 (length w)) as [Hl|Hl]; [|reflexivity].
  assert (Hw : w <> []) by (intros ->; cbn in Hl; lia).
  rewrite (rmean_flat c w H Hw), (rsqdev_flat c w H). cbn [sofnat ROps].
  rewrite sdivd_R by (apply INR_pos_neq; lia). unfold Rdiv. ring.
Qed.
Lemma rstd_flat c w : Forall (fun x => x = c) w -> rstd w = 0.
Proof.
  intros H. destruct (rstd_cases w) as [[_ Hs]|[Hv _]]; [exact Hs|]. rewrite (rvar_flat c w H) in Hv. lra.
Qed.

Section Flat.
Variables (n : nat) (c : R) (p s : list R).
Hypothesis Hn : (1 <= n)%nat.
Hypothesis Hflat : Forall (fun x => x = c) s.
Hypothesis Hlen : (n <= length s)%nat.

Let Hwin : Forall (fun x => x = c) (lastn n (p ++ s)).
Proof. rewrite lastn_app_suffix by exact Hlen. apply Forall_lastn. exact Hflat. Qed.
Let Hwlen : length (lastn n (p ++ s)) = n.
Proof. rewrite lastn_length, app_length. lia. Qed.

Lemma flat_wlast : @spec_wlast R ROps n (p ++ s) = Some 0.
Proof.
  unfold spec_wlast. rewrite Hwlen. destruct (Nat.ltb_spec n (n - 1)) as [H|_]; [lia|].
  unfold spec_wstd. rewrite (rstd_flat c _ Hwin). reflexivity.
Qed.
Lemma flat_wmean : @spec_wmean R ROps n (p ++ s) = c.
Proof.
  unfold spec_wmean. apply rmean_flat; [exact Hwin|]. intros E. rewrite E in Hwlen. cbn in Hwlen. lia.
Qed.
Lemma flat_wvar : @spec_wvar R ROps n (p ++ s) = 0.
Proof. unfold spec_wvar. apply (rvar_flat c). exact Hwin. Qed.
Lemma flat_scur : @scur R ROps (p ++ s) = c.
Proof.
  assert (Hs : s <> []) by (intros ->; cbn in Hlen; lia).
  rewrite scur_app_suffix by exact Hs. destruct (exists_last Hs) as [s' [x Hx]].
  rewrite Hx, scur_snoc. rewrite Hx in Hflat. apply Forall_app in Hflat. destruct Hflat as [_ Hl].
  inversion Hl; assumption.
Qed.
Lemma Reqb_refl x : Reqb x x = true. Proof. apply Reqb_true. reflexivity. Qed.
Lemma flat_vst : @spec_vst R ROps n (p ++ s) = Some c.
Proof. unfold spec_vst. rewrite flat_wlast. cbn [seqb s0 ROps]. rewrite Reqb_refl, flat_scur. reflexivity. Qed.
Lemma flat_vsct : @spec_vsct R ROps n (p ++ s) = Some 0.
Proof. unfold spec_vsct. rewrite flat_wlast. cbn [seqb s0 ROps]. rewrite Reqb_refl. reflexivity. Qed.
End Flat.

(** C16 (exact arithmetic): when the last n (a fortiori the last n+1) values all equal c, WelfordOnline
    reports mean c, variance 0, std 0; Vsct is 0 and Vst is c *)
Theorem welford_flat n c p s : (1 <= n)%nat -> Forall (fun x => x = c) s -> (n <= length s)%nat ->
  cout (@welford_core R ROps n) (p ++ s) = Ok (Some 0) /\
  cout (@welford_mean_core R ROps n) (p ++ s) = Ok (Some c) /\
  cout (@welford_var_core R ROps n) (p ++ s) = Ok (Some 0).
Proof.
  intros Hn Hf Hl. rewrite welford_closed_form, welford_mean_closed_form, welford_var_closed_form by exact Hn.
  rewrite (flat_wlast n c p s), (flat_wmean n c p s), (flat_wvar n c p s) by assumption. repeat split.
Qed.
Theorem vsct_flat n c p s : (1 <= n)%nat -> Forall (fun x => x = c) s -> (n <= length s)%nat ->
  cout (@vsct_core R ROps n) (p ++ s) = Ok (Some 0).
Proof. intros Hn Hf Hl. rewrite vsct_closed_form by exact Hn. rewrite (flat_vsct n c p s) by assumption. reflexivity. Qed.
Theorem vst_flat n c p s : (1 <= n)%nat -> Forall (fun x => x = c) s -> (n <= length s)%nat ->
  cout (@vst_core R ROps n) (p ++ s) = Ok (Some c).
Proof. intros Hn Hf Hl. rewrite vst_closed_form by exact Hn. rewrite (flat_vst n c p s) by assumption. reflexivity. Qed.

(** the property's wording: the last n+1 values are identical *)
Corollary c16_exact n c p : (1 <= n)%nat ->
  cout (@welford_core R ROps n) (p ++ repeat c (n + 1)) = Ok (Some 0) /\
  cout (@vsct_core R ROps n) (p ++ repeat c (n + 1)) = Ok (Some 0) /\
  cout (@vst_core R ROps n) (p ++ repeat c (n + 1)) = Ok (Some c).
Proof.
  intros Hn.
  assert (Hf : Forall (fun x => x = c) (repeat c (n + 1))).
  { apply Forall_forall. intros x Hx. apply repeat_spec in Hx. exact Hx. }
  assert (Hl : (n <= length (repeat c (n + 1)))%nat) by (rewrite repeat_length; lia).
  split; [apply (welford_flat n c p _ Hn Hf Hl) | split; [apply (vsct_flat n c) | apply vst_flat]; assumption].
Qed.

(** * Examples: the hypotheses of the main theorems are satisfiable *)

Example ex_mean : cout (@welford_mean_core R ROps 3) [1; 2; 4; 8] = Ok (Some (@spec_wmean R ROps 3 [1; 2; 4; 8])).
Proof. apply welford_mean_closed_form. lia. Qed.
Example ex_var : cout (@welford_var_core R ROps 3) [1; 2; 4; 8] = Ok (Some (@spec_wvar R ROps 3 [1; 2; 4; 8])).
Proof. apply welford_var_closed_form. lia. Qed.
Example ex_last : cout (@welford_core R ROps 3) [1; 2; 4; 8] = Ok (@spec_wlast R ROps 3 [1; 2; 4; 8]).
Proof. apply welford_closed_form. lia. Qed.
Example ex_vst : cout (@vst_core R ROps 3) [1; 2; 4; 8] = Ok (@spec_vst R ROps 3 [1; 2; 4; 8]).
Proof. apply vst_closed_form. lia. Qed.
Example ex_vsct : cout (@vsct_core R ROps 3) [1; 2; 4; 8] = Ok (@spec_vsct R ROps 3 [1; 2; 4; 8]).
Proof. apply vsct_closed_form. lia. Qed.

(** the window [1;3] (n = 2): mean 2, variance 2, std sqrt 2 <> 0 *)
Lemma ex_rvar_13 : rvar [1; 3] = 2.
Proof.
  unfold svar. cbn [length Nat.ltb Nat.leb Nat.sub sofnat ROps INR].
  rewrite sdivd_R by lra. rewrite rmean_R, !rsqdev_cons, rsqdev_nil, !ssum_R_cons, ssum_R_nil.
  cbn [length INR]. field.
Qed.
Lemma ex_rstd_13 : @spec_wstd R ROps 2 [1; 3] <> 0.
Proof.
  unfold spec_wstd. change (lastn 2 [1; 3]) with [1; 3].
  destruct (rstd_cases [1; 3]) as [[Hv _]|[Hv Hs]]; rewrite ex_rvar_13 in *; [lra|].
  rewrite Hs. pose proof (sqrt_lt_R0 2 ltac:(lra)). lra.
Qed.

Example ex_last_nonneg : exists v, cout (@welford_core R ROps 2) [1; 3] = Ok (Some v) /\ 0 <= v.
Proof.
  eexists. split; [rewrite welford_closed_form by lia; reflexivity|]. apply rstd_nonneg.
Qed.
Example ex_vsct_bound : exists v, cout (@vsct_core R ROps 2) [1; 3] = Ok (Some v) /\
  Rabs v <= (INR 2 - 1) / sqrt (INR 2).
Proof.
  assert (H : exists v, cout (@vsct_core R ROps 2) [1; 3] = Ok (Some v)).
  { rewrite vsct_closed_form by lia. eexists. reflexivity. }
  destruct H as [v Hv]. exists v. split; [exact Hv|]. apply (vsct_bound 2 [1; 3] v); [lia | exact Hv].
Qed.
Example ex_finite_memory :
  cout (@vsct_core R ROps 2) ([7; 9] ++ [1; 3]) = cout (@vsct_core R ROps 2) ([] ++ [1; 3]).
Proof. apply vsct_finite_memory; cbn; lia. Qed.
Example ex_vsct_affine :
  cout (@vsct_core R ROps 2) (map (fun x => 3 * x + 5) [1; 3]) = cout (@vsct_core R ROps 2) [1; 3].
Proof. apply vsct_affine_invariant; [lia | lra]. Qed.
Example ex_vst_scale :
  cout (@vst_core R ROps 2) (map (fun x => 3 * x) [1; 3]) = cout (@vst_core R ROps 2) [1; 3].
Proof. apply vst_scale_invariant; [lia | lra | exact ex_rstd_13]. Qed.
Example ex_vst_scale' : exists sd, cout (@welford_core R ROps 2) [1; 3] = Ok (Some sd) /\ sd <> 0.
Proof. eexists. split; [rewrite welford_closed_form by lia; reflexivity | exact ex_rstd_13]. Qed.
Example ex_negate :
  cout (@vst_core R ROps 2) (map Ropp [1; 3]) = do o <- cout (@vst_core R ROps 2) [1; 3]; Ok (option_map Ropp o).
Proof. apply vst_negate. lia. Qed.
Example ex_flat : cout (@vst_core R ROps 2) ([1; 3] ++ [4; 4; 4]) = Ok (Some 4).
Proof. apply vst_flat; [lia | repeat constructor | cbn; lia]. Qed.

Print Assumptions welford_mean_closed_form.
Print Assumptions welford_var_closed_form.
Print Assumptions welford_closed_form.
Print Assumptions vst_closed_form.
Print Assumptions vsct_closed_form.
Print Assumptions welford_last_nonneg.
Print Assumptions welford_var_nonneg.
Print Assumptions vsct_bound.
Print Assumptions welford_mean_finite_memory.
Print Assumptions welford_var_finite_memory.
Print Assumptions welford_finite_memory.
Print Assumptions vst_finite_memory.
Print Assumptions vsct_finite_memory.
Print Assumptions vsct_affine_invariant.
Print Assumptions vst_scale_invariant.
Print Assumptions vst_scale_invariant'.
Print Assumptions welford_mean_scale.
Print Assumptions welford_mean_affine.
Print Assumptions welford_last_affine.
Print Assumptions welford_last_scale.
Print Assumptions welford_scale_outputs.
Print Assumptions vsct_negate.
Print Assumptions vst_negate.
Print Assumptions vst_scale_flat_refuted.
Print Assumptions welford_flat.
Print Assumptions vsct_flat.
Print Assumptions vst_flat.
Print Assumptions c16_exact.
