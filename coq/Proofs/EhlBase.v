(** Shared list/run lemmas for the Ehlers-indicator proofs. *)
From Coq Require Import List Arith Lia Reals Lra.
From SF Require Import Res Scalar View Models Spec Core SpecEhl.
From SF.Proofs Require Import Window RBase.
Import ListNotations.
Open Scope R_scope.

Section Lists.
Context {A : Type}.

Lemma prefixes_nil : prefixes (@nil A) = [].
Proof. reflexivity. Qed.

Lemma prefixes_snoc (l : list A) x : prefixes (l ++ [x]) = prefixes l ++ [l ++ [x]].
Proof.
  unfold prefixes. rewrite app_length. cbn [length]. rewrite Nat.add_1_r.
  rewrite seq_S, map_app. cbn [map]. f_equal.
  - apply map_ext_in. intros k Hk. apply in_seq in Hk.
    rewrite firstn_app. replace (k - length l)%nat with 0%nat by lia. cbn [firstn]. apply app_nil_r.
  - f_equal. replace (1 + length l)%nat with (length (l ++ [x])) by (rewrite app_length; cbn; lia).
    apply firstn_all.
Qed.

Lemma prefixes_length (l : list A) : length (prefixes l) = length l.
Proof. unfold prefixes. rewrite map_length, seq_length. reflexivity. Qed.

Lemma lasto_snoc (l : list A) x : lasto (l ++ [x]) = Some x.
Proof. unfold lasto. rewrite rev_app_distr. reflexivity. Qed.
Lemma lasto_nil : lasto (@nil A) = None.
Proof. reflexivity. Qed.

Lemma last_snoc (l : list A) x d : last (l ++ [x]) d = x.
Proof. apply last_last. Qed.

Lemma ovals_app (a b : list (option A)) : ovals (a ++ b) = ovals a ++ ovals b.
Proof. induction a as [|[v|] a IH]; cbn; [reflexivity | rewrite IH; reflexivity | exact IH]. Qed.

Lemma hold_last_snoc (f : list A -> option R) (l : list A) x :
  hold_last f (l ++ [x]) = match f (l ++ [x]) with Some y => Some y | None => hold_last f l end.
Proof. unfold hold_last. rewrite prefixes_snoc, fold_left_app. reflexivity. Qed.
Lemma hold_last_nil (f : list A -> option R) : hold_last f [] = None.
Proof. reflexivity. Qed.

Lemma skipn_snoc n (l : list A) x : (n <= length l)%nat -> skipn n (l ++ [x]) = skipn n l ++ [x].
Proof. intros H. rewrite skipn_app. replace (n - length l)%nat with 0%nat by lia. reflexivity. Qed.

(** the model's eviction on a window that is the last [n] of a sequence *)
Lemma evict_lastn n (F : list A) : (1 <= n)%nat ->
  (if Nat.leb n (length (lastn n F)) then tl (lastn n F) else lastn n F) = lastn (n - 1) F.
Proof.
  intros Hn. rewrite lastn_length.
  destruct (Nat.leb_spec n (Nat.min n (length F))) as [H|H].
  - unfold lastn. replace (length F - (n - 1))%nat with (S (length F - n)) by lia.
    remember (length F - n)%nat as k. clear.
    revert k. induction F as [|a F IH]; intros k; [destruct k; reflexivity|].
    destruct k; [reflexivity|]. cbn [skipn]. apply IH.
  - rewrite !lastn_all by lia. reflexivity.
Qed.
End Lists.

Lemma evict_eq {T} `{Ops T} n (q : list T) : evict n q = if Nat.leb n (length q) then tl q else q.
Proof. reflexivity. Qed.

(** * runs of a view on a concatenation *)
Section Runs.
Variable T : Type.

Lemma steps_app (v : view T) s a b : steps v s (a ++ b) = do s' <- steps v s a; steps v s' b.
Proof.
  revert s; induction a as [|x a IH]; intros s; cbn; [reflexivity|].
  destruct (vupd v s x); cbn; [apply IH | reflexivity].
Qed.

(** a successful monadic run determines the state after it *)
Lemma mrun_from_steps (v : view T) s xs outs : mrun_from v s xs = Ok outs ->
  exists s', steps v s xs = Ok s' /\ length outs = length xs.
Proof.
  revert s outs; induction xs as [|x xs IH]; intros s outs H; cbn in *.
  - inversion H; subst. eauto.
  - destruct (vupd v s x) as [s1|e]; cbn in *; [|discriminate].
    destruct (vlast v s1) as [o|e]; cbn in *; [|discriminate].
    destruct (mrun_from v s1 xs) as [r|e] eqn:E; cbn in *; [|discriminate].
    inversion H; subst. destruct (IH _ _ E) as [s' [Hs Hl]]. exists s'. cbn. auto.
Qed.

Lemma mrun_from_snoc_inv (v : view T) s xs x outs : mrun_from v s (xs ++ [x]) = Ok outs ->
  exists outs' s' s'' o, mrun_from v s xs = Ok outs' /\ steps v s xs = Ok s' /\
     vupd v s' x = Ok s'' /\ vlast v s'' = Ok o /\ outs = outs' ++ [o].
Proof.
  revert s outs; induction xs as [|y xs IH]; intros s outs H; cbn in *.
  - destruct (vupd v s x) as [s1|e] eqn:E1; cbn in *; [|discriminate].
    destruct (vlast v s1) as [o|e] eqn:E2; cbn in *; [|discriminate].
    inversion H; subst. exists [], s, s1, o. repeat split; assumption || reflexivity.
  - destruct (vupd v s y) as [s1|e] eqn:E1; cbn in *; [|discriminate].
    destruct (vlast v s1) as [o|e] eqn:E2; cbn in *; [|discriminate].
    destruct (mrun_from v s1 (xs ++ [x])) as [r|e] eqn:E; cbn in *; [|discriminate].
    inversion H; subst. destruct (IH _ _ E) as (outs' & s' & s'' & o' & H1 & H2 & H3 & H4 & H5).
    exists (o :: outs'), s', s'', o'. rewrite H1. cbn. subst r. repeat split; assumption || reflexivity.
Qed.
End Runs.

(** * sums at R *)
Lemma ssum_R_rev (l : list R) : @ssum R ROps (rev l) = @ssum R ROps l.
Proof.
  induction l as [|x l IH]; [reflexivity|]. cbn [rev]. rewrite ssum_R_app, ssum_R_cons, IH. lra.
Qed.
Lemma fold_left_acc_sum {B} (g : B -> R) (l : list B) a :
  fold_left (fun acc f => acc + g f) l a = a + @ssum R ROps (map g l).
Proof.
  revert a; induction l as [|x l IH]; intros a; cbn [fold_left map]; [rewrite ssum_R_nil; lra|].
  rewrite IH, ssum_R_cons. lra.
Qed.
Lemma ssum_R_ge0 (l : list R) : Forall (fun x => 0 <= x) l -> 0 <= @ssum R ROps l.
Proof.
  induction l as [|x l IH]; intros H; [rewrite ssum_R_nil; lra|].
  inversion H; subst. rewrite ssum_R_cons. specialize (IH H3). lra.
Qed.
Lemma ssum_R_map_scale {B} (g : B -> R) a (l : list B) :
  @ssum R ROps (map (fun x => a * g x) l) = a * @ssum R ROps (map g l).
Proof.
  induction l as [|x l IH]; cbn [map]; [rewrite !ssum_R_nil; lra|]. rewrite !ssum_R_cons, IH. lra.
Qed.
