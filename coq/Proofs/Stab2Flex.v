(** C09 for TrendFlex / ReFlex, parts (b)-(d): deviation, leaky mean square, normalised output.
    Everything is derived from the two facts of Stab2SS.v about the smoother
      [filt_gain n G]        : inputs bounded by U give filter values bounded by G U,
      [filt_fading n G rho]  : |filt_t(p++s) - filt_t(p'++s)| <= 2 G U rho^(t - |p|),
    for a deviation [dev] that is a window functional with
      |dev F| <= Kd V  when the filter values are bounded by V,
      |dev F - dev F'| <= Kd B  when the last n filter values differ by at most B
    (TrendFlex: Kd = 2; ReFlex: Kd = 4). *)
From Coq Require Import List Arith Lia ZArith Reals Lra.
From SF Require Import Res Scalar View Models Spec Core SpecEhl.
From SF.Proofs Require Import Window RBase EhlBase EhlFlex StabBase StabSS Stab2SS.
Import ListNotations.
Open Scope R_scope.
Local Existing Instance ROps.

(** * sums over windows *)
Lemma ssum_map_bound {A} (g : A -> R) (L : list A) B :
  (forall y, In y L -> Rabs (g y) <= B) -> Rabs (@ssum R ROps (map g L)) <= INR (length L) * B.
Proof.
  induction L as [|y L IH]; intros H.
  - cbn [map length INR]. rewrite ssum_R_nil, Rabs_R0. lra.
  - cbn [map]. rewrite ssum_R_cons. change (length (y :: L)) with (S (length L)). rewrite S_INR.
    eapply Rle_trans; [apply Rabs_triang|].
    pose proof (H y (or_introl eq_refl)). specialize (IH (fun z Hz => H z (or_intror Hz))). lra.
Qed.

Lemma ssum_map_diff (g g' : R -> R) (L L' : list R) B : length L = length L' ->
  (forall j, (j < length L)%nat -> Rabs (g (nth j L 0) - g' (nth j L' 0)) <= B) ->
  Rabs (@ssum R ROps (map g L) - @ssum R ROps (map g' L')) <= INR (length L) * B.
Proof.
  revert L'. induction L as [|y L IH]; intros [|y' L'] Hl H; try discriminate.
  - cbn [map length INR]. rewrite ssum_R_nil, Rminus_0_r, Rabs_R0. lra.
  - cbn [map]. rewrite !ssum_R_cons. change (length (y :: L)) with (S (length L)). rewrite S_INR.
    replace (g y + @ssum R ROps (map g L) - (g' y' + @ssum R ROps (map g' L')))
      with ((g y - g' y') + (@ssum R ROps (map g L) - @ssum R ROps (map g' L'))) by ring.
    eapply Rle_trans; [apply Rabs_triang|].
    pose proof (H 0%nat ltac:(cbn [length]; lia)) as H0. cbn [nth] in H0.
    assert (IH' := IH L' ltac:(cbn [length] in Hl; lia)
                     (fun j Hj => H (S j) ltac:(cbn [length]; lia))). lra.
Qed.

Lemma nth_skipn' {A} k (F : list A) j d : nth j (skipn k F) d = nth (k + j) F d.
Proof.
  revert F. induction k as [|k IH]; intros F; [reflexivity|].
  destruct F as [|x F]; [destruct j; reflexivity|]. cbn [skipn Nat.add nth]. apply IH.
Qed.

Lemma nth_lastn {A} n (F : list A) j d : nth j (lastn n F) d = nth (length F - n + j) F d.
Proof. unfold lastn. apply nth_skipn'. Qed.

Lemma bounded_lastn V n (F : list R) : bounded V F -> bounded V (lastn n F).
Proof.
  intros H. unfold lastn. rewrite <- (firstn_skipn (length F - n) F) in H. apply bounded_app in H. apply H.
Qed.

(** * (b) the TrendFlex deviation as a window functional *)
Lemma tf_dev_R n F : (1 <= n)%nat ->
  @tf_dev R ROps n F = @ssum R ROps (map (fun fj => last F 0 - fj) (lastn n F)) / INR n.
Proof. intros Hn. unfold tf_dev. cbn [sofnat ROps]. rewrite sdivd_R by (apply INR_pos_neq; lia). reflexivity. Qed.

Lemma win_frac n (F : list R) B : (1 <= n)%nat -> 0 <= B -> INR (length (lastn n F)) * B / INR n <= B.
Proof.
  intros Hn HB. assert (Hp : 0 < INR n) by (apply lt_0_INR; lia).
  assert (Hle : INR (length (lastn n F)) <= INR n) by (apply le_INR; rewrite lastn_length; lia).
  apply (Rmult_le_reg_r (INR n)); [exact Hp|].
  replace (INR (length (lastn n F)) * B / INR n * INR n) with (INR (length (lastn n F)) * B) by (field; lra).
  nra.
Qed.

Lemma tf_dev_bound n V F : (1 <= n)%nat -> 0 <= V -> bounded V F -> Rabs (@tf_dev R ROps n F) <= 2 * V.
Proof.
  intros Hn HV Hb. rewrite tf_dev_R by exact Hn. assert (Hp : 0 < INR n) by (apply lt_0_INR; lia).
  unfold Rdiv. rewrite Rabs_mult, (Rabs_pos_eq (/ INR n)) by (left; apply Rinv_0_lt_compat; exact Hp).
  pose proof (last_bounded V F 0 ltac:(rewrite Rabs_R0; exact HV) Hb) as Hl.
  assert (H : Rabs (@ssum R ROps (map (fun fj => last F 0 - fj) (lastn n F))) <= INR (length (lastn n F)) * (2 * V)).
  { apply ssum_map_bound. intros y Hy. pose proof (bounded_lastn V n F Hb) as Hw.
    unfold bounded in Hw. rewrite Forall_forall in Hw. specialize (Hw y Hy).
    apply Rabs_le_between in Hl. apply Rabs_le_between in Hw. apply Rabs_le. lra. }
  eapply Rle_trans; [apply Rmult_le_compat_r; [left; apply Rinv_0_lt_compat; exact Hp | exact H]|].
  apply (win_frac n F (2 * V) Hn). lra.
Qed.

Lemma tf_dev_diff n B F F' : (1 <= n)%nat -> 0 <= B -> length F = length F' ->
  (forall i, (length F - n <= i)%nat -> Rabs (nth i F 0 - nth i F' 0) <= B) ->
  Rabs (@tf_dev R ROps n F - @tf_dev R ROps n F') <= 2 * B.
Proof.
  intros Hn HB Hl H. rewrite !tf_dev_R by exact Hn. assert (Hp : 0 < INR n) by (apply lt_0_INR; lia).
  unfold Rdiv. rewrite <- Rmult_minus_distr_r, Rabs_mult, (Rabs_pos_eq (/ INR n)) by (left; apply Rinv_0_lt_compat; exact Hp).
  assert (Hlw : length (lastn n F) = length (lastn n F')) by (rewrite !lastn_length, Hl; reflexivity).
  pose proof (H (length F - 1)%nat ltac:(lia)) as Hlast. rewrite nth_last in Hlast. rewrite Hl, nth_last in Hlast.
  pose proof (ssum_map_diff (fun fj => last F 0 - fj) (fun fj => last F' 0 - fj) (lastn n F) (lastn n F') (2 * B) Hlw) as Hs.
  eapply Rle_trans; [apply Rmult_le_compat_r; [left; apply Rinv_0_lt_compat; exact Hp | apply Hs]|].
  - intros j Hj. rewrite !nth_lastn, <- Hl. pose proof (H (length F - n + j)%nat ltac:(lia)) as Hj'.
    apply Rabs_le_between in Hlast. apply Rabs_le_between in Hj'. apply Rabs_le. lra.
  - apply (win_frac n F (2 * B) Hn). lra.
Qed.

(** * (b)-(d) for an abstract window deviation *)
Section Flex.
Variable n : nat.
Variables G rho Kd : R.
Variable dev : list R -> R.
Hypothesis Hn : (1 <= n)%nat.
Hypothesis HG0 : 0 <= G.
Hypothesis Hrho : 0 <= rho < 1.
Hypothesis HKd : 0 <= Kd.
Hypothesis Hgain : filt_gain n G.
Hypothesis Hfade : filt_fading n G rho.
Hypothesis Hdev_bound : forall V F, 0 <= V -> bounded V F -> Rabs (dev F) <= Kd * V.
Hypothesis Hdev_diff : forall B F F', 0 <= B -> length F = length F' ->
  (forall i, (length F - n <= i)%nat -> Rabs (nth i F 0 - nth i F' 0) <= B) -> Rabs (dev F - dev F') <= Kd * B.

(** d_t, the whole sequence d_0..d_t, and ms_t, as functions of the history *)
Definition gdev (h : list R) : R := dev (@ss_filts R ROps n h).
Definition gdevs (h : list R) : list R := map dev (prefixes (@ss_filts R ROps n h)).
Definition gms (h : list R) : R := @flex_ms R ROps (gdevs h).

Lemma gdevs_snoc h x : gdevs (h ++ [x]) = gdevs h ++ [gdev (h ++ [x])].
Proof.
  unfold gdevs, gdev. rewrite ss_filts_snoc at 1. rewrite prefixes_snoc, map_app. cbn [map].
  rewrite <- ss_filts_snoc. reflexivity.
Qed.

Lemma gms_nil : gms [] = 0. Proof. reflexivity. Qed.
Lemma gms_snoc h x : gms (h ++ [x]) = 4 / 100 * (gdev (h ++ [x]) * gdev (h ++ [x])) + 96 / 100 * gms h.
Proof. unfold gms. rewrite gdevs_snoc, flex_ms_snoc. reflexivity. Qed.
Lemma gms_nonneg h : 0 <= gms h. Proof. apply flex_ms_nonneg. Qed.
Lemma gdevs_last h : h <> [] -> last (gdevs h) 0 = gdev h.
Proof. intros H. destruct h as [|x h _] using rev_ind; [congruence|]. rewrite gdevs_snoc, last_snoc. reflexivity. Qed.

(** (b) |d_t| <= Kd G U *)
Theorem dev_bounded U h : 0 <= U -> bounded U h -> Rabs (gdev h) <= Kd * (G * U).
Proof.
  intros HU Hb. apply Hdev_bound; [apply Rmult_le_pos; assumption | apply Hgain; assumption].
Qed.

(** (b) the deviations of two runs with a common tail of length k differ by at most 2 Kd G U rho^(k-n) *)
Theorem dev_fading U p p' s : 0 <= U -> length p = length p' -> bounded U p -> bounded U p' ->
  Rabs (gdev (p ++ s) - gdev (p' ++ s)) <= Kd * (2 * G * U * rho ^ (length s - n)).
Proof.
  intros HU Hl Hp Hp'. unfold gdev. apply Hdev_diff.
  - apply Rmult_le_pos; [apply Rmult_le_pos; [lra | exact HU] | apply pow_le; lra].
  - rewrite !ss_filts_length, !app_length, Hl. reflexivity.
  - intros i Hi. eapply Rle_trans; [apply (Hfade U p p' s HU Hl Hp Hp' i)|].
    apply Rmult_le_compat_l; [apply Rmult_le_pos; [lra | exact HU]|].
    apply pow_anti; [lra|]. rewrite ss_filts_length, app_length in Hi. lia.
Qed.

(** (c) ms_t <= (Kd G U)^2 *)
Theorem ms_bounded U h : 0 <= U -> bounded U h -> gms h <= (Kd * (G * U)) * (Kd * (G * U)).
Proof.
  intros HU. set (D := Kd * (G * U)).
  assert (HD : 0 <= D) by (unfold D; apply Rmult_le_pos; [exact HKd | apply Rmult_le_pos; assumption]).
  induction h as [|x h IH] using rev_ind; intros Hb.
  - rewrite gms_nil. nra.
  - rewrite gms_snoc. pose proof (dev_bounded U (h ++ [x]) HU Hb) as Hd. fold D in Hd.
    apply bounded_app in Hb. destruct Hb as [Hh _]. specialize (IH Hh).
    apply Rabs_le_between in Hd. set (d := gdev (h ++ [x])) in *. clearbody d.
    assert (d * d <= D * D) by nra. lra.
Qed.

(** (c) the difference of the mean squares of two runs: |ms_t - ms'_t| <= (D^2 + k W) q^(k-n) with
    D = Kd G U, W = 0.16 D^2, for every q in [max(0.96, rho), 1): geometric up to a linear factor *)
Definition ms_env (U q : R) (k : nat) : R :=
  let D := Kd * (G * U) in (D * D + INR k * (16 / 100 * (D * D))) * q ^ (k - n).

Theorem ms_fading U q p p' s : 0 <= U -> 96 / 100 <= q < 1 -> rho <= q ->
  length p = length p' -> bounded U (p ++ s) -> bounded U (p' ++ s) ->
  Rabs (gms (p ++ s) - gms (p' ++ s)) <= ms_env U q (length s).
Proof.
  intros HU Hq Hrq Hl. unfold ms_env. cbv zeta. set (D := Kd * (G * U)).
  assert (HD : 0 <= D) by (unfold D; apply Rmult_le_pos; [exact HKd | apply Rmult_le_pos; assumption]).
  induction s as [|x s IH] using rev_ind; intros Hb Hb'.
  - rewrite !app_nil_r in *. cbn [length Nat.sub pow INR].
    pose proof (ms_bounded U p HU Hb) as X1. pose proof (ms_bounded U p' HU Hb') as X2.
    pose proof (gms_nonneg p). pose proof (gms_nonneg p'). fold D in X1, X2. apply Rabs_le. lra.
  - rewrite !app_assoc in *. rewrite !gms_snoc.
    pose proof (dev_bounded U _ HU Hb) as Hd. pose proof (dev_bounded U _ HU Hb') as Hd'. fold D in Hd, Hd'.
    apply bounded_app in Hb. destruct Hb as [Hh _]. apply bounded_app in Hb'. destruct Hb' as [Hh' _].
    specialize (IH Hh Hh').
    assert (Hp : bounded U p) by (apply bounded_app in Hh; apply Hh).
    assert (Hp' : bounded U p') by (apply bounded_app in Hh'; apply Hh').
    pose proof (dev_fading U p p' (s ++ [x]) HU Hl Hp Hp') as Hdd. rewrite !app_assoc in Hdd.
    set (d := gdev ((p ++ s) ++ [x])) in *. set (d' := gdev ((p' ++ s) ++ [x])) in *.
    set (e := gms (p ++ s) - gms (p' ++ s)) in *. clearbody d d'.
    rewrite app_length in *. cbn [length] in *. replace (length s + 1)%nat with (S (length s)) in * by lia.
    set (k := length s) in *. clearbody k. rewrite S_INR.
    replace (Kd * (2 * G * U * rho ^ (S k - n))) with (2 * D * rho ^ (S k - n)) in Hdd by (unfold D; ring).
    assert (Hpw : 0 <= rho ^ (S k - n) <= q ^ (S k - n)).
    { split; [apply pow_le; lra | apply pow_incr; lra]. }
    assert (Hqk : 96 / 100 * q ^ (k - n) <= q ^ (S k - n)).
    { destruct (Nat.le_gt_cases n k) as [H|H].
      - replace (S k - n)%nat with (S (k - n)) by lia. cbn [pow]. pose proof (pow_le q (k - n) ltac:(lra)). nra.
      - replace (S k - n)%nat with 0%nat by lia. replace (k - n)%nat with 0%nat by lia. cbn [pow]. lra. }
    assert (Hq0 : 0 <= q ^ (k - n)) by (apply pow_le; lra).
    (* |d^2 - d'^2| = |d - d'| |d + d'| <= 2 D rho^.. * 2 D *)
    assert (Hsq : Rabs (d * d - d' * d') <= 2 * D * rho ^ (S k - n) * (2 * D)).
    { replace (d * d - d' * d') with ((d - d') * (d + d')) by ring. rewrite Rabs_mult.
      assert (Rabs (d + d') <= 2 * D).
      { apply Rabs_le_between in Hd. apply Rabs_le_between in Hd'. apply Rabs_le. lra. }
      apply Rmult_le_compat; try apply Rabs_pos; assumption. }
    replace (4 / 100 * (d * d) + 96 / 100 * gms (p ++ s) - (4 / 100 * (d' * d') + 96 / 100 * gms (p' ++ s)))
      with (4 / 100 * (d * d - d' * d') + 96 / 100 * (gms (p ++ s) - gms (p' ++ s))) by ring.
    fold e. eapply Rle_trans; [apply Rabs_triang|]. rewrite !Rabs_mult.
    rewrite (Rabs_pos_eq (4 / 100)), (Rabs_pos_eq (96 / 100)) by lra.
    pose proof (pos_INR k) as Hk.
    set (X := D * D + INR k * (16 / 100 * (D * D))) in *.
    assert (HX : 0 <= X) by (unfold X; nra).
    assert (H1 : 96 / 100 * Rabs e <= X * q ^ (S k - n)).
    { eapply Rle_trans; [apply Rmult_le_compat_l; [lra | exact IH]|].
      replace (96 / 100 * (X * q ^ (k - n))) with (X * (96 / 100 * q ^ (k - n))) by ring.
      apply Rmult_le_compat_l; assumption. }
    assert (H2 : 4 / 100 * Rabs (d * d - d' * d') <= 16 / 100 * (D * D) * q ^ (S k - n)).
    { eapply Rle_trans; [apply Rmult_le_compat_l; [lra | exact Hsq]|].
      replace (4 / 100 * (2 * D * rho ^ (S k - n) * (2 * D))) with (16 / 100 * (D * D) * rho ^ (S k - n)) by field.
      apply Rmult_le_compat_l; [nra | lra]. }
    unfold X in *. lra.
Qed.

(** the envelope tends to 0 *)
Lemma ms_env_zero U q : 0 <= U -> 0 <= q < 1 -> forall eps, 0 < eps -> exists M, forall k, (M <= k)%nat -> ms_env U q k < eps.
Proof.
  intros HU Hq eps He. unfold ms_env. cbv zeta. set (D := Kd * (G * U)). set (W := 16 / 100 * (D * D)).
  destruct (@poly_geo_zero q (D * D + INR n * W) W Hq eps He) as [M HM]. exists (M + n)%nat. intros k Hk.
  specialize (HM (k - n)%nat ltac:(lia)). apply Rabs_def2 in HM. destruct HM as [HM _].
  replace (INR k) with (INR n + INR (k - n)) by (rewrite <- plus_INR; f_equal; lia).
  replace (D * D + (INR n + INR (k - n)) * W) with (D * D + INR n * W + INR (k - n) * W) by ring. exact HM.
Qed.

(** (c), epsilon form *)
Corollary ms_fading_eps U p p' : 0 <= U -> length p = length p' -> forall eps, 0 < eps ->
  exists M, forall s, (M <= length s)%nat -> bounded U (p ++ s) -> bounded U (p' ++ s) ->
  Rabs (gms (p ++ s) - gms (p' ++ s)) < eps.
Proof.
  intros HU Hl eps He. set (q := Rmax (96 / 100) rho).
  assert (Hq : 96 / 100 <= q < 1) by (unfold q; split; [apply Rmax_l | apply Rmax_lub_lt; lra]).
  destruct (ms_env_zero U q HU ltac:(lra) eps He) as [M HM]. exists M. intros s Hs Hb Hb'.
  eapply Rle_lt_trans; [apply (ms_fading U q p p' s HU Hq ltac:(apply Rmax_r) Hl Hb Hb')|]. apply HM. exact Hs.
Qed.

(** * (d) the normalised output d_t / sqrt(ms_t) *)
Lemma norm_diff d d' m m' e0 D : 0 < e0 -> e0 <= m -> e0 <= m' -> Rabs d' <= D ->
  Rabs (d / sqrt m - d' / sqrt m') <= Rabs (d - d') / sqrt e0 + D * Rabs (m - m') / (2 * e0 * sqrt e0).
Proof.
  intros He Hm Hm' Hd.
  pose proof (sqrt_lt_R0 e0 He) as Hr0. pose proof (sqrt_sqrt e0 ltac:(lra)) as Hrr0.
  pose proof (sqrt_sqrt m ltac:(lra)) as Hrr. pose proof (sqrt_sqrt m' ltac:(lra)) as Hrr'.
  assert (Hr : sqrt e0 <= sqrt m) by (apply sqrt_le_1_alt; lra).
  assert (Hr' : sqrt e0 <= sqrt m') by (apply sqrt_le_1_alt; lra).
  set (r0 := sqrt e0) in *. set (r := sqrt m) in *. set (r' := sqrt m') in *. clearbody r0 r r'.
  replace (d / r - d' / r') with ((d - d') * / r + d' * ((m' - m) * / ((r + r') * r * r'))).
  2:{ rewrite <- Hrr, <- Hrr'. field. repeat split; lra. }
  eapply Rle_trans; [apply Rabs_triang|]. apply Rplus_le_compat.
  - rewrite Rabs_mult, (Rabs_pos_eq (/ r)) by (left; apply Rinv_0_lt_compat; lra).
    unfold Rdiv. apply Rmult_le_compat_l; [apply Rabs_pos|]. apply Rinv_le_contravar; lra.
  - rewrite !Rabs_mult. assert (Hpos : 0 < (r + r') * r * r') by (apply Rmult_lt_0_compat; [apply Rmult_lt_0_compat|]; lra).
    rewrite (Rabs_pos_eq (/ _)) by (left; apply Rinv_0_lt_compat; exact Hpos).
    replace (D * Rabs (m - m') / (2 * e0 * r0)) with (D * (Rabs (m - m') * / (2 * e0 * r0))) by (unfold Rdiv; ring).
    apply Rmult_le_compat; [apply Rabs_pos | | exact Hd |].
    + apply Rmult_le_pos; [apply Rabs_pos | left; apply Rinv_0_lt_compat; exact Hpos].
    + rewrite (Rabs_minus_sym m' m). apply Rmult_le_compat_l; [apply Rabs_pos|].
      apply Rinv_le_contravar; [nra|]. rewrite <- Hrr0.
      assert (r0 * r0 <= r * r') by nra. assert (2 * r0 <= r + r') by lra. nra.
Qed.

(** the value the views report when ms_t > 0 *)
Definition gout (h : list R) : R := gdev h / sqrt (gms h).

(** (d) explicit bound: if ms >= eps0 in both runs at the time of evaluation, the normalised outputs differ by
    at most 2 Kd G U rho^(k-n) / sqrt eps0 + Kd G U ms_env(k) / (2 eps0 sqrt eps0) *)
Theorem out_fading_nondegenerate_explicit U q eps0 p p' s : 0 <= U -> 96 / 100 <= q < 1 -> rho <= q -> 0 < eps0 ->
  length p = length p' -> bounded U (p ++ s) -> bounded U (p' ++ s) ->
  eps0 <= gms (p ++ s) -> eps0 <= gms (p' ++ s) ->
  Rabs (gout (p ++ s) - gout (p' ++ s))
  <= Kd * (2 * G * U * rho ^ (length s - n)) / sqrt eps0
     + Kd * (G * U) * ms_env U q (length s) / (2 * eps0 * sqrt eps0).
Proof.
  intros HU Hq Hrq He Hl Hb Hb' Hm Hm'. unfold gout.
  eapply Rle_trans; [apply (norm_diff _ _ _ _ eps0 (Kd * (G * U)) He Hm Hm' (dev_bounded U _ HU Hb'))|].
  assert (Hp : bounded U p) by (apply bounded_app in Hb; apply Hb).
  assert (Hp' : bounded U p') by (apply bounded_app in Hb'; apply Hb').
  pose proof (sqrt_lt_R0 eps0 He) as Hr0.
  apply Rplus_le_compat.
  - unfold Rdiv. apply Rmult_le_compat_r; [left; apply Rinv_0_lt_compat; exact Hr0|].
    apply dev_fading; assumption.
  - unfold Rdiv. apply Rmult_le_compat_r; [left; apply Rinv_0_lt_compat; nra|].
    apply Rmult_le_compat_l; [apply Rmult_le_pos; [exact HKd | apply Rmult_le_pos; assumption]|].
    apply ms_fading; assumption.
Qed.

(** (d) epsilon form *)
Theorem out_fading_nondegenerate U eps0 p p' : 0 <= U -> 0 < eps0 -> length p = length p' ->
  forall eps, 0 < eps -> exists M, forall s, (M <= length s)%nat ->
  bounded U (p ++ s) -> bounded U (p' ++ s) -> eps0 <= gms (p ++ s) -> eps0 <= gms (p' ++ s) ->
  Rabs (gout (p ++ s) - gout (p' ++ s)) < eps.
Proof.
  intros HU He0 Hl eps He. set (q := Rmax (96 / 100) rho).
  assert (Hq : 96 / 100 <= q < 1) by (unfold q; split; [apply Rmax_l | apply Rmax_lub_lt; lra]).
  pose proof (sqrt_lt_R0 eps0 He0) as Hr0.
  set (A := Kd * (2 * G * U) / sqrt eps0). set (Bc := Kd * (G * U) / (2 * eps0 * sqrt eps0)).
  assert (HA : 0 <= A).
  { unfold A. apply Rle_mult_inv_pos; [|exact Hr0]. apply Rmult_le_pos; [exact HKd|]. apply Rmult_le_pos; [lra | exact HU]. }
  assert (HBc : 0 <= Bc).
  { unfold Bc. apply Rle_mult_inv_pos; [|nra]. apply Rmult_le_pos; [exact HKd | apply Rmult_le_pos; assumption]. }
  destruct (@geo_zero_shift rho A n Hrho (eps / 2) ltac:(lra)) as [M1 HM1].
  destruct (ms_env_zero U q HU ltac:(lra) (eps / 2 / (Bc + 1)) ltac:(apply Rdiv_lt_0_compat; lra)) as [M2 HM2].
  exists (Nat.max M1 M2). intros s Hs Hb Hb' Hm Hm'.
  eapply Rle_lt_trans; [apply (out_fading_nondegenerate_explicit U q eps0 p p' s HU Hq ltac:(apply Rmax_r) He0 Hl Hb Hb' Hm Hm')|].
  specialize (HM1 (length s) ltac:(lia)). specialize (HM2 (length s) ltac:(lia)).
  replace (Kd * (2 * G * U * rho ^ (length s - n)) / sqrt eps0) with (A * rho ^ (length s - n)) by (unfold A; field; lra).
  replace (Kd * (G * U) * ms_env U q (length s) / (2 * eps0 * sqrt eps0)) with (Bc * ms_env U q (length s))
    by (unfold Bc; field; split; lra).
  assert (Hme : 0 <= ms_env U q (length s)).
  { unfold ms_env. cbv zeta. apply Rmult_le_pos; [|apply pow_le; lra].
    pose proof (pos_INR (length s)). set (D := Kd * (G * U)). nra. }
  assert (Bc * ms_env U q (length s) < eps / 2).
  { apply (Rmult_lt_compat_r (Bc + 1)) in HM2; [|lra].
    replace (eps / 2 / (Bc + 1) * (Bc + 1)) with (eps / 2) in HM2 by (field; lra). nra. }
  lra.
Qed.

End Flex.

(** side conditions of the abstract section, for TrendFlex *)
Ltac tf_side n Hn :=
  first [ exact Hn | assumption | lra
        | apply (flex_gain_nonneg n Hn) | apply (flex_rate_range n Hn)
        | apply (flex_filt_bibo n Hn) | apply (flex_filt_fading n Hn)
        | intros ? ?; apply (tf_dev_bound n); exact Hn
        | intros ? ? ?; apply (tf_dev_diff n); exact Hn ].

(** * TrendFlex *)
Definition tf_d (n : nat) (h : list R) : R := @tf_dev R ROps n (@ss_filts R ROps n h).
Definition tf_ms (n : nat) (h : list R) : R := @flex_ms R ROps (@tf_devs R ROps n h).
Definition tf_out (n : nat) (h : list R) : R := tf_d n h / sqrt (tf_ms n h).

Lemma tf_d_gdev n h : tf_d n h = gdev n (@tf_dev R ROps n) h. Proof. reflexivity. Qed.
Lemma tf_ms_gms n h : tf_ms n h = gms n (@tf_dev R ROps n) h. Proof. reflexivity. Qed.
Lemma tf_out_gout n h : tf_out n h = gout n (@tf_dev R ROps n) h. Proof. reflexivity. Qed.

(** C09 1(b) (TrendFlex, n >= 1): |d_t| <= 2 G U *)
Theorem trendflex_dev_bounded n U h : (1 <= n)%nat -> 0 <= U -> bounded U h ->
  Rabs (tf_d n h) <= 2 * (flex_gain n * U).
Proof.
  intros Hn HU Hb. rewrite tf_d_gdev.
  apply (dev_bounded n (flex_gain n) 2 (@tf_dev R ROps n)); tf_side n Hn.
Qed.

(** C09 1(b) (TrendFlex): the deviations of two runs with common tail s differ by <= 4 G U rho^(|s| - n);
    the prefixes are bounded by U, the tail is arbitrary *)
Theorem trendflex_dev_fading n U p p' s : (1 <= n)%nat -> 0 <= U -> length p = length p' ->
  bounded U p -> bounded U p' ->
  Rabs (tf_d n (p ++ s) - tf_d n (p' ++ s)) <= 2 * (2 * flex_gain n * U * flex_rate n ^ (length s - n)).
Proof.
  intros Hn HU Hl Hp Hp'. rewrite !tf_d_gdev.
  apply (dev_fading n (flex_gain n) (flex_rate n) 2 (@tf_dev R ROps n)); tf_side n Hn.
Qed.

(** C09 1(c) (TrendFlex): ms_t <= (2 G U)^2 *)
Theorem trendflex_ms_bounded n U h : (1 <= n)%nat -> 0 <= U -> bounded U h ->
  0 <= tf_ms n h <= (2 * (flex_gain n * U)) * (2 * (flex_gain n * U)).
Proof.
  intros Hn HU Hb. split; [apply flex_ms_nonneg|]. rewrite tf_ms_gms.
  apply (ms_bounded n (flex_gain n) 2 (@tf_dev R ROps n)); tf_side n Hn.
Qed.

(** C09 1(c) (TrendFlex): |ms_t - ms'_t| <= (D^2 + k 0.16 D^2) q^(k-n), D = 2 G U, k = |s|,
    for every q with max(0.96, rate) <= q < 1 *)
Theorem trendflex_ms_fading n U q p p' s : (1 <= n)%nat -> 0 <= U -> 96 / 100 <= q < 1 -> flex_rate n <= q ->
  length p = length p' -> bounded U (p ++ s) -> bounded U (p' ++ s) ->
  Rabs (tf_ms n (p ++ s) - tf_ms n (p' ++ s)) <= ms_env n (flex_gain n) 2 U q (length s).
Proof.
  intros Hn HU Hq Hrq Hl Hb Hb'. rewrite !tf_ms_gms.
  apply (ms_fading n (flex_gain n) (flex_rate n) 2 (@tf_dev R ROps n)); tf_side n Hn.
Qed.

Theorem trendflex_ms_fading_eps n U p p' : (1 <= n)%nat -> 0 <= U -> length p = length p' ->
  forall eps, 0 < eps -> exists M, forall s, (M <= length s)%nat -> bounded U (p ++ s) -> bounded U (p' ++ s) ->
  Rabs (tf_ms n (p ++ s) - tf_ms n (p' ++ s)) < eps.
Proof.
  intros Hn HU Hl.
  apply (ms_fading_eps n (flex_gain n) (flex_rate n) 2 (@tf_dev R ROps n)); tf_side n Hn.
Qed.

(** what the model reports when ms_t > 0 *)
Lemma trendflex_out_nondeg n h : (1 <= n)%nat -> 0 < tf_ms n h ->
  cout (@trendflex_core R ROps n) h = Ok (Some (tf_out n h)).
Proof.
  intros Hn Hm. rewrite trendflex_closed_form by exact Hn. unfold spec_trendflex.
  destruct h as [|x0 h0] eqn:Eh; [unfold tf_ms in Hm; cbn in Hm; lra|]. rewrite <- Eh in *.
  assert (Hne : h <> []) by (rewrite Eh; discriminate).
  unfold flex_val. fold (tf_ms n h). unfold sgtb. cbn [sltb s0 ROps].
  destruct (Rltb 0 (tf_ms n h)) eqn:E; [|apply Rltb_false in E; lra].
  do 2 f_equal. unfold ssqrtd, totd. cbn [ssqrt ROps]. destruct (Rlt_dec (tf_ms n h) 0) as [Hlt|_]; [lra|].
  rewrite sdivd_R by (pose proof (sqrt_lt_R0 _ Hm); lra).
  unfold tf_out. f_equal. change (@tf_devs R ROps n h) with (gdevs n (@tf_dev R ROps n) h).
  rewrite gdevs_last by exact Hne. reflexivity.
Qed.

(** C09 1(d) (TrendFlex), explicit: with ms >= eps0 in both runs at the time of evaluation *)
Theorem trendflex_fading_nondegenerate_explicit n U q eps0 p p' s o o' :
  (1 <= n)%nat -> 0 <= U -> 96 / 100 <= q < 1 -> flex_rate n <= q -> 0 < eps0 ->
  length p = length p' -> bounded U (p ++ s) -> bounded U (p' ++ s) ->
  eps0 <= tf_ms n (p ++ s) -> eps0 <= tf_ms n (p' ++ s) ->
  cout (@trendflex_core R ROps n) (p ++ s) = Ok (Some o) -> cout (@trendflex_core R ROps n) (p' ++ s) = Ok (Some o') ->
  Rabs (o - o') <= 2 * (2 * flex_gain n * U * flex_rate n ^ (length s - n)) / sqrt eps0
                   + 2 * (flex_gain n * U) * ms_env n (flex_gain n) 2 U q (length s) / (2 * eps0 * sqrt eps0).
Proof.
  intros Hn HU Hq Hrq He Hl Hb Hb' Hm Hm' Ho Ho'.
  rewrite trendflex_out_nondeg in Ho, Ho' by (assumption || lra).
  injection Ho as Ho. injection Ho' as Ho'. subst o o'. rewrite !tf_out_gout.
  apply (out_fading_nondegenerate_explicit n (flex_gain n) (flex_rate n) 2 (@tf_dev R ROps n)); tf_side n Hn.
Qed.

(** C09 1(d) (TrendFlex, every n >= 1): two runs whose inputs are bounded by U and agree on the tail s, and whose
    mean squares are >= eps0 > 0 at the time of evaluation, report values that converge to each other *)
Theorem trendflex_fading_nondegenerate n U eps0 p p' : (1 <= n)%nat -> 0 <= U -> 0 < eps0 -> length p = length p' ->
  forall eps, 0 < eps -> exists M, forall s o o', (M <= length s)%nat ->
  bounded U (p ++ s) -> bounded U (p' ++ s) -> eps0 <= tf_ms n (p ++ s) -> eps0 <= tf_ms n (p' ++ s) ->
  cout (@trendflex_core R ROps n) (p ++ s) = Ok (Some o) -> cout (@trendflex_core R ROps n) (p' ++ s) = Ok (Some o') ->
  Rabs (o - o') < eps.
Proof.
  intros Hn HU He0 Hl eps He.
  assert (HX : exists M, forall s, (M <= length s)%nat ->
    bounded U (p ++ s) -> bounded U (p' ++ s) ->
    eps0 <= gms n (@tf_dev R ROps n) (p ++ s) -> eps0 <= gms n (@tf_dev R ROps n) (p' ++ s) ->
    Rabs (gout n (@tf_dev R ROps n) (p ++ s) - gout n (@tf_dev R ROps n) (p' ++ s)) < eps).
  { apply (out_fading_nondegenerate n (flex_gain n) (flex_rate n) 2 (@tf_dev R ROps n)); tf_side n Hn. }
  destruct HX as [M HM].
  exists M. intros s o o' Hs Hb Hb' Hm Hm' Ho Ho'.
  rewrite trendflex_out_nondeg in Ho, Ho' by (assumption || lra).
  injection Ho as Ho. injection Ho' as Ho'. subst o o'. rewrite !tf_out_gout. apply HM; assumption.
Qed.
