(** C15/C08 at the level of views: constants, binary combinators, Tanh; composition examples. *)
From Coq Require Import List Arith Lia Reals Lra ZArith.
From SF Require Import Res Scalar View Models Spec Core.
From SF.Proofs Require Import Window RBase SafeBase SafeTac.
Import ListNotations.
Open Scope R_scope.
Set Implicit Arguments.

Section Generic.
Variable T : Type.

Definition pairInv (a b : view T) (Ja : vst a -> Prop) (Jb : vst b -> Prop) (s : vst a * vst b) : Prop :=
  Ja (fst s) /\ Jb (snd s).

(** a binary combinator is safe when both children are and [f] is defined on their outputs *)
Theorem binop_safe (f : T -> T -> res T) (a b : view T) (D : T -> Prop) Ja Jb (Pa Pb : T -> Prop) :
  VSafe a D Ja -> VSafe b D Jb -> VOut a Ja Pa -> VOut b Jb Pb ->
  (forall x y, Pa x -> Pb y -> exists r, f x y = Ok r) ->
  VSafe (binop f a b) D (pairInv a b Ja Jb).
Proof.
  intros Ha Hb Hoa Hob Hf. constructor.
  - destruct (vs_new Ha) as [sa [Hsa Hja]]. destruct (vs_new Hb) as [sb [Hsb Hjb]].
    exists (sa, sb). cbn. rewrite Hsa, Hsb. cbn. split; [reflexivity|]. split; assumption.
  - intros [sa sb] x [Hja Hjb] Hx. cbn in Hja, Hjb. cbn [vupd binop fst snd].
    destruct (vs_upd Ha sa x Hja Hx) as [sa' [Hua Hja']]. rewrite Hua. cbn [bind].
    destruct (vs_upd Hb sb x Hjb Hx) as [sb' [Hub Hjb']]. rewrite Hub. cbn [bind].
    exists (sa', sb'). split; [reflexivity|]. split; assumption.
  - intros [sa sb] [Hja Hjb]. cbn in Hja, Hjb. cbn [vlast binop fst snd].
    destruct (vs_last Ha sa Hja) as [oa Hla]. rewrite Hla. cbn [bind].
    destruct (vs_last Hb sb Hjb) as [ob Hlb]. rewrite Hlb. cbn [bind].
    destruct oa as [x|]; [|eauto]. destruct ob as [y|]; [|eauto].
    destruct (Hf x y (Hoa sa x Hja Hla) (Hob sb y Hjb Hlb)) as [r Hr]. rewrite Hr. cbn [bind]. eauto.
Qed.

(** ... and ready-monotone when both children are *)
Theorem binop_ready_mono (f : T -> T -> res T) (a b : view T) (D : T -> Prop) Ja Jb (Pa Pb : T -> Prop) :
  VSafe a D Ja -> VSafe b D Jb -> VOut a Ja Pa -> VOut b Jb Pb ->
  (forall x y, Pa x -> Pb y -> exists r, f x y = Ok r) ->
  VReadyMono a D Ja -> VReadyMono b D Jb ->
  VReadyMono (binop f a b) D (pairInv a b Ja Jb).
Proof.
  intros Ha Hb Hoa Hob Hf Hma Hmb [sa sb] x s' y [Hja Hjb] Hx Hl Hu. cbn in Hja, Hjb.
  cbn [vupd binop fst snd] in Hu. cbn [vlast binop fst snd] in Hl.
  destruct (vs_upd Ha sa x Hja Hx) as [sa' [Hua Hja']]. rewrite Hua in Hu. cbn [bind] in Hu.
  destruct (vs_upd Hb sb x Hjb Hx) as [sb' [Hub Hjb']]. rewrite Hub in Hu. cbn [bind] in Hu.
  inversion Hu; subst. clear Hu.
  destruct (vlast a sa) as [[xa|]|e] eqn:Ela; cbn [bind] in Hl; try discriminate.
  2:{ destruct (vlast b sb) as [ob|e]; cbn [bind] in Hl; discriminate. }
  destruct (vlast b sb) as [[xb|]|e] eqn:Elb; cbn [bind] in Hl; try discriminate.
  destruct (Hma sa x sa' xa Hja Hx Ela Hua) as [za Hza].
  destruct (Hmb sb x sb' xb Hjb Hx Elb Hub) as [zb Hzb].
  cbn [vlast binop fst snd]. rewrite Hza, Hzb. cbn [bind].
  destruct (Hf za zb (Hoa sa' za Hja' Hza) (Hob sb' zb Hjb' Hzb)) as [r Hr]. rewrite Hr. cbn [bind]. eauto.
Qed.

Theorem mapview_safe (f : T -> res T) (a : view T) (D : T -> Prop) J (P : T -> Prop) :
  VSafe a D J -> VOut a J P -> (forall x, P x -> exists r, f x = Ok r) -> VSafe (mapview f a) D J.
Proof.
  intros Ha Ho Hf. constructor.
  - exact (vs_new Ha).
  - exact (vs_upd Ha).
  - intros s Hj. cbn [vlast mapview]. destruct (vs_last Ha s Hj) as [o Hl]. rewrite Hl. cbn [bind].
    destruct o as [x|]; [|eauto]. destruct (Hf x (Ho s x Hj Hl)) as [r Hr]. rewrite Hr. cbn [bind]. eauto.
Qed.
Theorem mapview_ready_mono (f : T -> res T) (a : view T) (D : T -> Prop) J (P : T -> Prop) :
  VSafe a D J -> VOut a J P -> (forall x, P x -> exists r, f x = Ok r) ->
  VReadyMono a D J -> VReadyMono (mapview f a) D J.
Proof.
  intros Ha Ho Hf Hm s x s' y Hj Hx Hl Hu. cbn [vupd mapview] in Hu. cbn [vlast mapview] in Hl.
  destruct (vlast a s) as [[xa|]|e] eqn:Ela; cbn [bind] in Hl; try discriminate.
  destruct (Hm s x s' xa Hj Hx Ela Hu) as [z Hz]. cbn [vlast mapview]. rewrite Hz. cbn [bind].
  destruct (vs_upd Ha s x Hj Hx) as [s1 [H1 Hj']]. rewrite Hu in H1. inversion H1; subst.
  destruct (Hf z (Ho s1 z Hj' Hz)) as [r Hr]. rewrite Hr. cbn [bind]. eauto.
Qed.

End Generic.

(** * R instance: Constant, Add, Subtract, Multiply, Divide, Tanh *)
Lemma constant_safe (c : R) D : VSafe (@constant R c) D (fun _ => True).
Proof. constructor; [exists tt; auto | intros s x _ _; exists s; auto | intros s _; cbn; eauto]. Qed.
Lemma constant_ready_mono (c : R) D : VReadyMono (@constant R c) D (fun _ => True).
Proof. intros s x s' y _ _ _ _. cbn. eauto. Qed.

Definition anyR (x : R) : Prop := True.
Lemma vout_any (a : view R) J : VOut a J anyR.
Proof. intros s y _ _. exact I. Qed.

(** C15 Add / Subtract / Multiply: safe whenever the children are *)
Theorem vadd_safe (a b : view R) D Ja Jb : VSafe a D Ja -> VSafe b D Jb -> VSafe (@vadd R ROps a b) D (pairInv a b Ja Jb).
Proof. intros Ha Hb. apply binop_safe with (Pa := anyR) (Pb := anyR); try assumption; try apply vout_any. intros; eauto. Qed.
Theorem vsub_safe (a b : view R) D Ja Jb : VSafe a D Ja -> VSafe b D Jb -> VSafe (@vsub R ROps a b) D (pairInv a b Ja Jb).
Proof. intros Ha Hb. apply binop_safe with (Pa := anyR) (Pb := anyR); try assumption; try apply vout_any. intros; eauto. Qed.
Theorem vmul_safe (a b : view R) D Ja Jb : VSafe a D Ja -> VSafe b D Jb -> VSafe (@vmul R ROps a b) D (pairInv a b Ja Jb).
Proof. intros Ha Hb. apply binop_safe with (Pa := anyR) (Pb := anyR); try assumption; try apply vout_any. intros; eauto. Qed.
(** C15 Divide: safe when the divisor view only reports non-zero values *)
Theorem vdiv_safe (a b : view R) D Ja Jb : VSafe a D Ja -> VSafe b D Jb -> VOut b Jb (fun y => y <> 0) ->
  VSafe (@vdiv R ROps a b) D (pairInv a b Ja Jb).
Proof.
  intros Ha Hb Hob. apply binop_safe with (Pa := anyR) (Pb := fun y => y <> 0); try assumption; try apply vout_any.
  intros x y _ Hy. rewrite sdiv_R_ok by exact Hy. eauto.
Qed.
(** the guard is needed *)
Theorem vdiv_zero_fails : mrun (@vdiv R ROps echo (@constant R 0)) [1] = Err NonFinite.
Proof.
  unfold mrun. cbn. unfold Rdiv_res. destruct (Req_EM_T 0 0); [reflexivity | contradiction].
Qed.
(** C15 Tanh *)
Theorem vtanh_safe (a : view R) D J : VSafe a D J -> VSafe (@vtanh R ROps a) D J.
Proof. intros Ha. apply mapview_safe with (P := anyR); [assumption | apply vout_any |]. intros; cbn; eauto. Qed.
Theorem vtanh_ready_mono (a : view R) D J : VSafe a D J -> VReadyMono a D J -> VReadyMono (@vtanh R ROps a) D J.
Proof. intros Ha Hm. apply mapview_ready_mono with (P := anyR); try assumption; [apply vout_any|]. intros; cbn; eauto. Qed.
