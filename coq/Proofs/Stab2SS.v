(** C09 for TrendFlex / ReFlex, part (a): the smoother [ss_filts] inside TrendFlex/ReFlex.
    a1 = exp(-8.88442402435/n), b1 = 2 a1 cos(4.44221201218/n), c3 = -a1^2, c1 = 1 - b1 - c3.
    The model reads its lags from the window of the last n filter values, so
      n >= 3 : filt_t = c1 (x_t + x_{t-1})/2 + b1 filt_{t-1} + c3 filt_{t-2}      (rate a1, norm argument of StabSS)
      n = 2  : filt_t = c1 (x_t + x_{t-1})/2 + b1 filt_{t-1}                      (rate |b1| < 1)
      n = 1  : filt_t = c1 (x_t + x_{t-1})/2                                      (no feedback: rate 0)
    In all three cases, with a gain G and a rate rho:
      [bounded U h -> bounded (G U) (ss_filts n h)]  and, for same-length prefixes p, p' bounded by U and ANY tail s,
      |filt_t(p ++ s) - filt_t(p' ++ s)| <= 2 G U rho^(t - |p|)   for every index t. *)
From Coq Require Import List Arith Lia ZArith Reals Lra.
From SF Require Import Res Scalar View Models Spec Core SpecEhl.
From SF.Proofs Require Import Window RBase EhlBase EhlFlex StabBase StabSS.
Import ListNotations.
Open Scope R_scope.
Local Existing Instance ROps.

(** * small list facts *)
Lemma firstn_snoc_le {A} k (l : list A) x : (k <= length l)%nat -> firstn k (l ++ [x]) = firstn k l.
Proof. intros H. rewrite firstn_app. replace (k - length l)%nat with 0%nat by lia. cbn [firstn]. apply app_nil_r. Qed.

Lemma nth_last {A} (l : list A) d : nth (length l - 1) l d = last l d.
Proof.
  destruct l as [|x l _] using rev_ind; [reflexivity|].
  rewrite last_snoc, app_length. cbn [length]. rewrite app_nth2 by lia.
  replace (length l + 1 - 1 - length l)%nat with 0%nat by lia. reflexivity.
Qed.

Lemma last_bounded U (h : list R) x : Rabs x <= U -> bounded U h -> Rabs (last h x) <= U.
Proof.
  intros Hx Hb. destruct h as [|y h _] using rev_ind; [exact Hx|].
  rewrite last_snoc. apply bounded_app in Hb. destruct Hb as [_ Hb]. inversion Hb; assumption.
Qed.

Lemma last_app_nonempty {A} (p s : list A) d : s <> [] -> last (p ++ s) d = last s d.
Proof.
  intros Hs. destruct s as [|y s _] using rev_ind; [congruence|].
  rewrite app_assoc, !last_snoc. reflexivity.
Qed.

Lemma last_indep {A} (l : list A) d d' : l <> [] -> last l d = last l d'.
Proof.
  intros Hs. destruct l as [|y s _] using rev_ind; [congruence|]. rewrite !last_snoc. reflexivity.
Qed.

(** * the coefficients at R *)
Definition fx_a (n : nat) : R := @ss_a1 R ROps n.
Definition fx_th (n : nat) : R := 444221201218 / 100000000000 / INR n.

Lemma ss_a1_R n : (1 <= n)%nat -> @ss_a1 R ROps n = exp (- (888442402435 / 100000000000) / INR n).
Proof.
  intros Hn. unfold ss_a1, sexpd. cbn [sofnat ROps]. rewrite sdivd_R by (apply INR_pos_neq; lia).
  cbn [sexp sofdec ROps totd].
  replace (10 ^ Z.of_nat 11)%Z with 100000000000%Z by reflexivity.
  f_equal. field. apply INR_pos_neq; lia.
Qed.

Lemma fx_a_range n : (1 <= n)%nat -> 0 < fx_a n < 1.
Proof.
  intros Hn. unfold fx_a. rewrite ss_a1_R by exact Hn. split; [apply exp_pos|]. rewrite <- exp_0.
  apply exp_increasing. assert (Hp : 0 < INR n) by (apply lt_0_INR; lia).
  set (x := INR n) in *. clearbody x.
  assert (H : 0 < 888442402435 / 100000000000 / x) by (apply Rdiv_lt_0_compat; lra).
  replace (- (888442402435 / 100000000000) / x) with (- (888442402435 / 100000000000 / x)) by (field; lra). lra.
Qed.

Lemma ss_coefs_R n : (1 <= n)%nat ->
  @ss_b1 R ROps n = 2 * fx_a n * cos (fx_th n) /\
  @ss_c3 R ROps n = - (fx_a n * fx_a n) /\
  @ss_c1 R ROps n = 1 - @ss_b1 R ROps n - @ss_c3 R ROps n.
Proof.
  intros Hn. split; [|split; reflexivity].
  unfold ss_b1, scosd, fx_a, fx_th. rewrite s2_R. cbn [sofnat ROps]. rewrite sdivd_R by (apply INR_pos_neq; lia).
  cbn [scos sofdec smul ROps totd].
  replace (10 ^ Z.of_nat 11)%Z with 100000000000%Z by reflexivity. reflexivity.
Qed.

(** the angle is in (0, 3/2) subset (0, pi/2) for n >= 3 *)
Lemma fx_th_bounds n : (3 <= n)%nat -> 0 < fx_th n < 3 / 2.
Proof.
  intros Hn. unfold fx_th. assert (H3 : 3 <= INR n) by (apply (le_INR 3 n) in Hn; cbn in Hn; lra).
  set (x := INR n) in *. clearbody x.
  assert (Hx : 444221201218 / 100000000000 / x * x = 444221201218 / 100000000000) by (field; lra).
  set (th := 444221201218 / 100000000000 / x) in *. clearbody th. split; nra.
Qed.

Lemma fx_sin_pos n : (3 <= n)%nat -> 0 < sin (fx_th n).
Proof.
  intros Hn. destruct (fx_th_bounds n Hn) as [H0 H1]. pose proof PI2_3_2 as P32. pose proof PI_RGT_0.
  apply sin_gt_0; lra.
Qed.

(** * the state pair (filt_t, filt_{t-1}) and one step, by window length *)
Definition fpair (F : list R) : R * R := (last F 0, last (removelast F) 0).

Lemma fpair_snoc F f : fpair (F ++ [f]) = (f, last F 0).
Proof. unfold fpair. rewrite last_snoc, removelast_last. reflexivity. Qed.

(** effective feedback coefficients: what the window of n filter values lets the model see *)
Definition fx_b1e (n : nat) : R := if Nat.leb 2 n then @ss_b1 R ROps n else 0.
Definition fx_c3e (n : nat) : R := if Nat.leb 3 n then @ss_c3 R ROps n else 0.

Lemma lastn_snoc2 {A} m (F : list A) g f : (2 <= m)%nat -> lastn m (F ++ [g; f]) = lastn (m - 2) F ++ [g; f].
Proof.
  intros Hm. change (F ++ [g; f]) with (F ++ [g] ++ [f]). rewrite app_assoc.
  rewrite <- (lastn_snoc_pred m (F ++ [g]) f) by lia.
  rewrite <- (lastn_snoc_pred (m - 1) F g) by lia.
  replace (m - 1 - 1)%nat with (m - 2)%nat by lia. rewrite <- app_assoc. reflexivity.
Qed.

Lemma ss_next_pair n F xp x : (1 <= n)%nat ->
  @ss_next R ROps n F xp x =
  @ss_c1 R ROps n * (x + xp) / 2 + fx_b1e n * fst (fpair F) + fx_c3e n * snd (fpair F).
Proof.
  intros Hn. unfold ss_next. rewrite s2_R, sdivd_R by lra. cbn [smul sadd ROps].
  set (hh := @ss_c1 R ROps n * (x + xp) / 2). unfold fx_b1e, fx_c3e.
  destruct F as [|f F _] using rev_ind.
  - rewrite lastn_nil. cbn [rev fpair fst snd last removelast]. ring.
  - destruct F as [|g F _] using rev_ind.
    + cbn [app]. unfold fpair. cbn [last removelast fst snd].
      destruct (Nat.leb_spec 2 n) as [H2|H2].
      * rewrite lastn_all by (cbn [length]; lia). cbn [rev app]. destruct (Nat.leb 3 n); ring.
      * replace (n - 1)%nat with 0%nat by lia. rewrite lastn_0. cbn [rev].
        destruct (Nat.leb_spec 3 n); [lia|]. ring.
    + rewrite fpair_snoc, last_snoc. cbn [fst snd]. rewrite <- app_assoc. cbn [app].
      destruct (Nat.leb_spec 3 n) as [H3|H3].
      * rewrite lastn_snoc2 by lia. rewrite rev_app_distr. cbn [rev app].
        destruct (Nat.leb_spec 2 n); [|lia]. reflexivity.
      * destruct (Nat.leb_spec 2 n) as [H2|H2].
        -- assert (n = 2)%nat by lia. subst n. cbn [Nat.sub].
           change (F ++ [g; f]) with (F ++ [g] ++ [f]). rewrite app_assoc.
           rewrite <- (lastn_snoc_pred 1 (F ++ [g]) f) by lia. cbn [Nat.sub]. rewrite lastn_0. cbn [app rev]. ring.
        -- replace (n - 1)%nat with 0%nat by lia. rewrite lastn_0. cbn [rev]. ring.
Qed.

(** the pair after one more input *)
Definition fst8 (n : nat) (h : list R) : R * R := fpair (@ss_filts R ROps n h).

Lemma fst8_nil n : fst8 n [] = (0, 0).
Proof. reflexivity. Qed.

Lemma fst8_snoc n h x : (1 <= n)%nat ->
  fst8 n (h ++ [x]) =
  (@ss_c1 R ROps n * (x + last h x) / 2 + fx_b1e n * fst (fst8 n h) + fx_c3e n * snd (fst8 n h), fst (fst8 n h)).
Proof.
  intros Hn. unfold fst8. rewrite ss_filts_snoc, fpair_snoc, ss_next_pair by exact Hn. reflexivity.
Qed.

(** the sequence is stable under taking prefixes: filt_t depends on x_0..x_t only *)
Lemma ss_filts_firstn n k h : @ss_filts R ROps n (firstn k h) = firstn k (@ss_filts R ROps n h).
Proof.
  induction h as [|x h IH] using rev_ind; [rewrite !firstn_nil; reflexivity|].
  destruct (Nat.le_gt_cases k (length h)) as [Hk|Hk].
  - rewrite firstn_snoc_le by exact Hk. rewrite ss_filts_snoc, firstn_snoc_le by (rewrite ss_filts_length; exact Hk).
    exact IH.
  - rewrite !firstn_all2; [reflexivity| |]; rewrite ?ss_filts_length, app_length; cbn [length]; lia.
Qed.

Lemma ss_filts_nth n h t : (t < length h)%nat ->
  nth t (@ss_filts R ROps n h) 0 = fst (fst8 n (firstn (S t) h)).
Proof.
  intros Ht. unfold fst8, fpair. cbn [fst]. rewrite ss_filts_firstn, <- nth_last.
  rewrite firstn_length, ss_filts_length. replace (Nat.min (S t) (length h) - 1)%nat with t by lia.
  rewrite <- (firstn_skipn (S t) (@ss_filts R ROps n h)) at 1.
  rewrite app_nth1; [reflexivity|]. rewrite firstn_length, ss_filts_length. lia.
Qed.

(** * the abstract interface used by parts (b)-(d) *)
Definition filt_gain (n : nat) (G : R) : Prop :=
  forall U h, 0 <= U -> bounded U h -> bounded (G * U) (@ss_filts R ROps n h).
Definition filt_fading (n : nat) (G rho : R) : Prop :=
  forall U p p' s, 0 <= U -> length p = length p' -> bounded U p -> bounded U p' ->
  forall t, Rabs (nth t (@ss_filts R ROps n (p ++ s)) 0 - nth t (@ss_filts R ROps n (p' ++ s)) 0)
            <= 2 * G * U * rho ^ (t - length p).

(** from statements about the pair after every history to the indexed statements *)
Lemma filt_gain_of_pair n G : 0 <= G ->
  (forall U h, 0 <= U -> bounded U h -> Rabs (fst (fst8 n h)) <= G * U) -> filt_gain n G.
Proof.
  intros HG H U h HU Hb. unfold bounded. apply Forall_forall. intros y Hy.
  destruct (In_nth _ _ 0 Hy) as [t [Ht E]]. rewrite ss_filts_length in Ht. subst y.
  rewrite ss_filts_nth by exact Ht. apply H; [exact HU|].
  rewrite <- (firstn_skipn (S t) h) in Hb. apply bounded_app in Hb. apply Hb.
Qed.

Lemma filt_fading_of_pair n G rho : 0 <= G -> 0 <= rho <= 1 ->
  (forall U h, 0 <= U -> bounded U h -> Rabs (fst (fst8 n h)) <= G * U) ->
  (forall U p p' s, 0 <= U -> length p = length p' -> bounded U p -> bounded U p' ->
     Rabs (fst (fst8 n (p ++ s)) - fst (fst8 n (p' ++ s))) <= 2 * G * U * rho ^ (length s - 1)) ->
  filt_fading n G rho.
Proof.
  intros HG Hr Hg Hf U p p' s HU Hl Hp Hp' t.
  assert (Hpos : 0 <= 2 * G * U * rho ^ (t - length p)).
  { apply Rmult_le_pos; [apply Rmult_le_pos; [lra | exact HU] | apply pow_le; lra]. }
  destruct (Nat.lt_ge_cases t (length (p ++ s))) as [Ht|Ht].
  - rewrite !ss_filts_nth by (rewrite ?app_length in *; lia).
    destruct (Nat.lt_ge_cases t (length p)) as [Htp|Htp].
    + rewrite !firstn_app. replace (S t - length p)%nat with 0%nat by lia.
      replace (S t - length p')%nat with 0%nat by lia. rewrite !firstn_O, !app_nil_r.
      replace (t - length p)%nat with 0%nat by lia. cbn [pow]. rewrite Rmult_1_r.
      assert (B1 : bounded U (firstn (S t) p)).
      { rewrite <- (firstn_skipn (S t) p) in Hp. apply bounded_app in Hp. apply Hp. }
      assert (B2 : bounded U (firstn (S t) p')).
      { rewrite <- (firstn_skipn (S t) p') in Hp'. apply bounded_app in Hp'. apply Hp'. }
      pose proof (Hg U _ HU B1) as X1. pose proof (Hg U _ HU B2) as X2.
      apply Rabs_le_between in X1. apply Rabs_le_between in X2.
      replace (2 * G * U) with (2 * (G * U)) by ring. apply Rabs_le. lra.
    + rewrite !firstn_app. rewrite <- Hl. rewrite (firstn_all2 p), (firstn_all2 p') by lia.
      eapply Rle_trans; [apply (Hf U p p' (firstn (S t - length p) s) HU Hl Hp Hp')|].
      rewrite firstn_length. rewrite app_length in Ht.
      replace (Nat.min (S t - length p) (length s) - 1)%nat with (t - length p)%nat by lia. lra.
  - rewrite !nth_overflow; [|rewrite ss_filts_length, app_length in *; lia | rewrite ss_filts_length; lia].
    rewrite Rminus_0_r, Rabs_R0. exact Hpos.
Qed.

(** * n >= 3: the norm argument *)
Section Order2.
Variable n : nat.
Hypothesis Hn : (3 <= n)%nat.

Let a := fx_a n.
Let C := cos (fx_th n).
Let Sv := sin (fx_th n).
Let c1 := @ss_c1 R ROps n.

Definition fxN (p : R * R) : R := sqrt (Vq (a * C) (a * Sv) (fst p) (snd p)).

(** BIBO gain of the smoother inside TrendFlex/ReFlex, n >= 3 *)
Definition fx_gain3 : R := Rabs c1 / ((1 - a) * Sv).

Lemma fx_CS : C * C + Sv * Sv = 1.
Proof. unfold C, Sv. pose proof (sin2_cos2 (fx_th n)) as H. unfold Rsqr in H. lra. Qed.
Lemma fx_a_rng : 0 < a < 1. Proof. apply fx_a_range. lia. Qed.
Lemma fx_S_pos : 0 < Sv. Proof. apply fx_sin_pos. exact Hn. Qed.

Lemma fxN_nonneg p : 0 <= fxN p. Proof. apply sqrt_pos. Qed.

Lemma fxN_zero : fxN (0, 0) = 0.
Proof.
  unfold fxN, Vq. cbn [fst snd].
  replace ((0 - a * C * 0) * (0 - a * C * 0) + a * Sv * (a * Sv) * 0 * 0) with 0 by ring. apply sqrt_0.
Qed.

(** one step of  f_{t+1} = u + b1 f_t + c3 f_{t-1}  in the norm *)
Lemma fxN_step u f g : fxN (u + 2 * a * C * f + - (a * a) * g, f) <= a * fxN (f, g) + Rabs u.
Proof.
  unfold fxN. cbn [fst snd].
  replace (u + 2 * a * C * f + - (a * a) * g) with ((2 * a * C * f + - (a * a) * g) + u) by ring.
  replace f with (f + 0) at 2 by ring.
  eapply Rle_trans; [apply Vq_tri|]. rewrite Vq_unit, Vq_hom by apply fx_CS.
  rewrite Vq_scale by (pose proof fx_a_rng; lra). lra.
Qed.

Lemma fxN_sub f g f' g' : fxN (f - f', g - g') <= fxN (f, g) + fxN (f', g').
Proof.
  unfold fxN. cbn [fst snd]. unfold Rminus at 1 2.
  eapply Rle_trans; [apply Vq_tri|]. apply Rplus_le_compat_l. apply Req_le. f_equal. unfold Vq. ring.
Qed.

Lemma fxN_first p B : fxN p <= B -> Rabs (fst p) <= B / Sv.
Proof.
  intros H. pose proof fx_S_pos as HS. pose proof (Vq_first a C Sv (fst p) (snd p) fx_CS) as H1.
  fold (fxN p) in H1. rewrite (Rabs_pos_eq Sv) in H1 by lra.
  apply (Rmult_le_reg_l Sv); [exact HS|]. replace (Sv * (B / Sv)) with B by (field; lra). lra.
Qed.

Lemma fst8_snoc3 h x :
  fst8 n (h ++ [x]) =
  (c1 * (x + last h x) / 2 + 2 * a * C * fst (fst8 n h) + - (a * a) * snd (fst8 n h), fst (fst8 n h)).
Proof.
  rewrite fst8_snoc by lia. unfold fx_b1e, fx_c3e.
  destruct (Nat.leb_spec 2 n); [|lia]. destruct (Nat.leb_spec 3 n); [|lia].
  destruct (ss_coefs_R n ltac:(lia)) as (Eb & E3 & _). rewrite Eb, E3. reflexivity.
Qed.

Lemma fx_forcing U h x : Rabs x <= U -> bounded U h -> Rabs (c1 * (x + last h x) / 2) <= Rabs c1 * U.
Proof.
  intros Hx Hb. pose proof (last_bounded U h x Hx Hb) as Hl.
  unfold Rdiv. rewrite Rmult_assoc, Rabs_mult. apply Rmult_le_compat_l; [apply Rabs_pos|].
  apply Rabs_le_between in Hx. apply Rabs_le_between in Hl. apply Rabs_le. lra.
Qed.

(** the norm of the state never exceeds |c1| U / (1 - a1) *)
Lemma fx_norm_bound U h : 0 <= U -> bounded U h -> fxN (fst8 n h) <= Rabs c1 * U / (1 - a).
Proof.
  intros HU. pose proof fx_a_rng as Ha.
  assert (HB : 0 <= Rabs c1 * U / (1 - a)).
  { apply Rle_mult_inv_pos; [apply Rmult_le_pos; [apply Rabs_pos | exact HU] | lra]. }
  induction h as [|x h IH] using rev_ind; intros Hb.
  - rewrite fst8_nil, fxN_zero. exact HB.
  - apply bounded_app in Hb. destruct Hb as [Hh Hx]. inversion Hx as [|? ? Hx' _]; subst.
    rewrite fst8_snoc3. destruct (fst8 n h) as [f g] eqn:E. cbn [fst snd].
    eapply Rle_trans; [apply fxN_step|]. pose proof (fx_forcing U h x Hx' Hh) as Hf.
    specialize (IH Hh). set (B := Rabs c1 * U / (1 - a)) in *.
    assert (EB : Rabs c1 * U = B * (1 - a)) by (unfold B; field; lra).
    assert (a * fxN (f, g) <= a * B) by (apply Rmult_le_compat_l; lra). lra.
Qed.

Lemma fx_pair_gain3 U h : 0 <= U -> bounded U h -> Rabs (fst (fst8 n h)) <= fx_gain3 * U.
Proof.
  intros HU Hb. eapply Rle_trans; [apply (fxN_first _ _ (fx_norm_bound U h HU Hb))|].
  unfold fx_gain3. pose proof fx_a_rng. pose proof fx_S_pos. apply Req_le. field. lra.
Qed.

(** the difference of the states of two runs with a common tail: the norm contracts by a1 per step *)
Definition fxE (p p' s : list R) : R * R :=
  (fst (fst8 n (p ++ s)) - fst (fst8 n (p' ++ s)), snd (fst8 n (p ++ s)) - snd (fst8 n (p' ++ s))).

Lemma fxE_snoc p p' s x :
  fxE p p' (s ++ [x]) =
  (c1 * (last (p ++ s) x - last (p' ++ s) x) / 2 + 2 * a * C * fst (fxE p p' s) + - (a * a) * snd (fxE p p' s),
   fst (fxE p p' s)).
Proof.
  unfold fxE. rewrite !app_assoc, !fst8_snoc3. cbn [fst snd]. f_equal. field.
Qed.

Lemma last_diff_bound U (p p' : list R) x : 0 <= U -> length p = length p' -> bounded U p -> bounded U p' ->
  Rabs (last p x - last p' x) <= 2 * U.
Proof.
  intros HU Hl Hp Hp'. destruct p as [|z p]; destruct p' as [|z' p']; try discriminate.
  - cbn [last]. replace (x - x) with 0 by ring. rewrite Rabs_R0. lra.
  - rewrite (last_indep (z :: p) x z), (last_indep (z' :: p') x z') by discriminate.
    pose proof (last_bounded U (z :: p) z ltac:(inversion Hp; assumption) Hp) as X.
    pose proof (last_bounded U (z' :: p') z' ltac:(inversion Hp'; assumption) Hp') as X'.
    apply Rabs_le_between in X. apply Rabs_le_between in X'. apply Rabs_le. lra.
Qed.

Lemma fxE_decay U p p' s : 0 <= U -> length p = length p' -> bounded U p -> bounded U p' ->
  fxN (fxE p p' s) <= 2 * (Rabs c1 * U / (1 - a)) * a ^ (length s - 1).
Proof.
  intros HU Hl Hp Hp'. pose proof fx_a_rng as Ha.
  set (B := Rabs c1 * U / (1 - a)).
  assert (HB : 0 <= B).
  { apply Rle_mult_inv_pos; [apply Rmult_le_pos; [apply Rabs_pos | exact HU] | lra]. }
  assert (EB : Rabs c1 * U = B * (1 - a)) by (unfold B; field; lra).
  induction s as [|x s IH] using rev_ind.
  - cbn [length Nat.sub pow]. rewrite Rmult_1_r. unfold fxE. rewrite !app_nil_r.
    destruct (fst8 n p) as [f g] eqn:E1. destruct (fst8 n p') as [f' g'] eqn:E2. cbn [fst snd].
    eapply Rle_trans; [apply fxN_sub|].
    pose proof (fx_norm_bound U p HU Hp) as X1. pose proof (fx_norm_bound U p' HU Hp') as X2.
    rewrite E1 in X1. rewrite E2 in X2. fold B in X1, X2. lra.
  - rewrite fxE_snoc. destruct (fxE p p' s) as [e1 e2] eqn:E. cbn [fst snd].
    eapply Rle_trans; [apply fxN_step|]. rewrite app_length. cbn [length].
    destruct (list_eq_dec Req_EM_T s []) as [Es|Es].
    + subst s. cbn [length Nat.add Nat.sub pow] in *. rewrite !app_nil_r. rewrite Rmult_1_r in *.
      assert (Hf : Rabs (c1 * (last p x - last p' x) / 2) <= Rabs c1 * U).
      { unfold Rdiv. rewrite Rmult_assoc, Rabs_mult. apply Rmult_le_compat_l; [apply Rabs_pos|].
        pose proof (last_diff_bound U p p' x HU Hl Hp Hp') as X. apply Rabs_le_between in X.
        apply Rabs_le. lra. }
      assert (a * fxN (e1, e2) <= a * (2 * B)) by (apply Rmult_le_compat_l; lra). nra.
    + rewrite !last_app_nonempty by exact Es.
      replace (c1 * (last s x - last s x) / 2) with 0 by field. rewrite Rabs_R0, Rplus_0_r.
      replace (length s + 1 - 1)%nat with (S (length s - 1)) by (destruct s; [congruence | cbn [length]; lia]).
      cbn [pow]. assert (a * fxN (e1, e2) <= a * (2 * B * a ^ (length s - 1))) by (apply Rmult_le_compat_l; lra).
      lra.
Qed.

Lemma fx_pair_fading3 U p p' s : 0 <= U -> length p = length p' -> bounded U p -> bounded U p' ->
  Rabs (fst (fst8 n (p ++ s)) - fst (fst8 n (p' ++ s))) <= 2 * fx_gain3 * U * a ^ (length s - 1).
Proof.
  intros HU Hl Hp Hp'. pose proof (fxN_first _ _ (fxE_decay U p p' s HU Hl Hp Hp')) as H.
  unfold fxE in H at 1. cbn [fst] in H. eapply Rle_trans; [exact H|].
  unfold fx_gain3. pose proof fx_a_rng. pose proof fx_S_pos. apply Req_le. field. lra.
Qed.

Lemma fx_gain3_nonneg : 0 <= fx_gain3.
Proof.
  unfold fx_gain3. pose proof fx_a_rng. pose proof fx_S_pos.
  apply Rle_mult_inv_pos; [apply Rabs_pos | nra].
Qed.

(** C09 (TrendFlex/ReFlex smoother, n >= 3): BIBO with gain |c1| / ((1 - a1) sin theta) *)
Theorem flex_filt_bibo3 : filt_gain n fx_gain3.
Proof. apply filt_gain_of_pair; [apply fx_gain3_nonneg | apply fx_pair_gain3]. Qed.

(** C09 (TrendFlex/ReFlex smoother, n >= 3): the filter values of two runs with a common tail differ by
    at most 2 G U a1^(k-1) after k common inputs *)
Theorem flex_filt_fading3 : filt_fading n fx_gain3 a.
Proof.
  pose proof fx_a_rng. apply filt_fading_of_pair; [apply fx_gain3_nonneg | lra | apply fx_pair_gain3 | apply fx_pair_fading3].
Qed.

(** the homogeneous recursion contracts the quadratic form by exactly a1^2 per step *)
Theorem flex_filt_homogeneous_exact f g :
  Vq (a * C) (a * Sv) (2 * a * C * f + - (a * a) * g) f = a * a * Vq (a * C) (a * Sv) f g.
Proof. apply Vq_hom. apply fx_CS. Qed.

End Order2.

(** * n = 1, 2: no second lag in the window; first-order recursion with feedback beta = b1 (n = 2) or 0 (n = 1) *)
Lemma fx_b1_small2 : Rabs (@ss_b1 R ROps 2) < 1.
Proof.
  destruct (ss_coefs_R 2 ltac:(lia)) as (Eb & _). rewrite Eb.
  assert (Ha : 0 < fx_a 2 < / 2).
  { unfold fx_a. rewrite ss_a1_R by lia. split; [apply exp_pos|].
    replace (INR 2) with 2 by (cbn; lra).
    set (x := 888442402435 / 100000000000 / 2).
    replace (- (888442402435 / 100000000000) / 2) with (- x) by (unfold x; field).
    rewrite exp_Ropp. apply Rinv_lt_contravar; [pose proof (exp_pos x); lra|].
    pose proof (exp_ineq1 x ltac:(unfold x; lra)) as H. unfold x in *. lra. }
  rewrite !Rabs_mult. rewrite (Rabs_pos_eq 2) by lra. rewrite (Rabs_pos_eq (fx_a 2)) by lra.
  pose proof (COS_bound (fx_th 2)) as Hc. assert (Hc' : Rabs (cos (fx_th 2)) <= 1) by (apply Rabs_le; lra).
  pose proof (Rabs_pos (cos (fx_th 2))). nra.
Qed.

Section Order1.
Variable n : nat.
Hypothesis Hn : (1 <= n <= 2)%nat.

Let beta := fx_b1e n.
Let c1 := @ss_c1 R ROps n.

(** BIBO gain for n = 1, 2 *)
Definition fx_gain12 : R := Rabs c1 / (1 - Rabs beta).

Lemma fx_beta_lt1 : Rabs beta < 1.
Proof.
  unfold beta, fx_b1e. destruct (Nat.leb_spec 2 n) as [H|H].
  - assert (n = 2)%nat by lia. subst n. apply fx_b1_small2.
  - rewrite Rabs_R0. lra.
Qed.

Lemma fst8_snoc12 h x : fst8 n (h ++ [x]) = (c1 * (x + last h x) / 2 + beta * fst (fst8 n h), fst (fst8 n h)).
Proof.
  rewrite fst8_snoc by lia. unfold fx_c3e. destruct (Nat.leb_spec 3 n); [lia|]. f_equal. fold beta c1. ring.
Qed.

Lemma fx_forcing12 U h x : Rabs x <= U -> bounded U h -> Rabs (c1 * (x + last h x) / 2) <= Rabs c1 * U.
Proof.
  intros Hx Hb. pose proof (last_bounded U h x Hx Hb) as Hl.
  unfold Rdiv. rewrite Rmult_assoc, Rabs_mult. apply Rmult_le_compat_l; [apply Rabs_pos|].
  apply Rabs_le_between in Hx. apply Rabs_le_between in Hl. apply Rabs_le. lra.
Qed.

Lemma fx_pair_gain12 U h : 0 <= U -> bounded U h -> Rabs (fst (fst8 n h)) <= fx_gain12 * U.
Proof.
  intros HU. pose proof fx_beta_lt1 as Hb1. pose proof (Rabs_pos beta) as Hb0.
  set (B := fx_gain12 * U).
  assert (EB : Rabs c1 * U = B * (1 - Rabs beta)) by (unfold B, fx_gain12; field; lra).
  assert (HB : 0 <= B).
  { unfold B, fx_gain12. apply Rmult_le_pos; [|exact HU]. apply Rle_mult_inv_pos; [apply Rabs_pos | lra]. }
  induction h as [|x h IH] using rev_ind; intros Hb.
  - rewrite fst8_nil. cbn [fst]. rewrite Rabs_R0. exact HB.
  - apply bounded_app in Hb. destruct Hb as [Hh Hx]. inversion Hx as [|? ? Hx' _]; subst.
    rewrite fst8_snoc12. cbn [fst]. eapply Rle_trans; [apply Rabs_triang|].
    pose proof (fx_forcing12 U h x Hx' Hh) as Hf. rewrite Rabs_mult. specialize (IH Hh).
    assert (Rabs beta * Rabs (fst (fst8 n h)) <= Rabs beta * B) by (apply Rmult_le_compat_l; lra). lra.
Qed.

Lemma fx_pair_fading12 U p p' s : 0 <= U -> length p = length p' -> bounded U p -> bounded U p' ->
  Rabs (fst (fst8 n (p ++ s)) - fst (fst8 n (p' ++ s))) <= 2 * fx_gain12 * U * Rabs beta ^ (length s - 1).
Proof.
  intros HU Hl Hp Hp'. pose proof fx_beta_lt1 as Hb1. pose proof (Rabs_pos beta) as Hb0.
  replace (2 * fx_gain12 * U) with (2 * (fx_gain12 * U)) by ring. set (B := fx_gain12 * U).
  assert (EB : Rabs c1 * U = B * (1 - Rabs beta)) by (unfold B, fx_gain12; field; lra).
  assert (HB : 0 <= B).
  { unfold B, fx_gain12. apply Rmult_le_pos; [|exact HU]. apply Rle_mult_inv_pos; [apply Rabs_pos | lra]. }
  induction s as [|x s IH] using rev_ind.
  - cbn [length Nat.sub pow]. rewrite Rmult_1_r, !app_nil_r.
    pose proof (fx_pair_gain12 U p HU Hp) as X1. pose proof (fx_pair_gain12 U p' HU Hp') as X2. fold B in X1, X2.
    apply Rabs_le_between in X1. apply Rabs_le_between in X2. apply Rabs_le. lra.
  - rewrite !app_assoc, !fst8_snoc12. cbn [fst]. rewrite app_length. cbn [length].
    set (e := fst (fst8 n (p ++ s)) - fst (fst8 n (p' ++ s))) in *.
    replace (c1 * (x + last (p ++ s) x) / 2 + beta * fst (fst8 n (p ++ s)) -
             (c1 * (x + last (p' ++ s) x) / 2 + beta * fst (fst8 n (p' ++ s))))
      with (c1 * (last (p ++ s) x - last (p' ++ s) x) / 2 + beta * e) by (unfold e; field).
    eapply Rle_trans; [apply Rabs_triang|]. rewrite (Rabs_mult beta).
    destruct (list_eq_dec Req_EM_T s []) as [Es|Es].
    + subst s. cbn [length Nat.add Nat.sub pow] in *. rewrite !app_nil_r. rewrite Rmult_1_r in *.
      assert (Hf : Rabs (c1 * (last p x - last p' x) / 2) <= Rabs c1 * U).
      { unfold Rdiv. rewrite Rmult_assoc, Rabs_mult. apply Rmult_le_compat_l; [apply Rabs_pos|].
        pose proof (last_diff_bound U p p' x HU Hl Hp Hp') as X. apply Rabs_le_between in X.
        apply Rabs_le. lra. }
      assert (Rabs beta * Rabs e <= Rabs beta * (2 * B)) by (apply Rmult_le_compat_l; lra). nra.
    + rewrite !last_app_nonempty by exact Es.
      replace (c1 * (last s x - last s x) / 2) with 0 by field. rewrite Rabs_R0, Rplus_0_l.
      replace (length s + 1 - 1)%nat with (S (length s - 1)) by (destruct s; [congruence | cbn [length]; lia]).
      cbn [pow]. assert (Rabs beta * Rabs e <= Rabs beta * (2 * B * Rabs beta ^ (length s - 1)))
        by (apply Rmult_le_compat_l; lra).
      lra.
Qed.

Lemma fx_gain12_nonneg : 0 <= fx_gain12.
Proof. unfold fx_gain12. pose proof fx_beta_lt1. apply Rle_mult_inv_pos; [apply Rabs_pos | lra]. Qed.

(** C09 (TrendFlex/ReFlex smoother, n = 1, 2): gain |c1| / (1 - |beta|), beta = b1 for n = 2, 0 for n = 1 *)
Theorem flex_filt_bibo12 : filt_gain n fx_gain12.
Proof. apply filt_gain_of_pair; [apply fx_gain12_nonneg | apply fx_pair_gain12]. Qed.

(** ... and fading at rate |beta| (for n = 1: the difference is exactly 0 from the second common input on) *)
Theorem flex_filt_fading12 : filt_fading n fx_gain12 (Rabs beta).
Proof.
  pose proof fx_beta_lt1. pose proof (Rabs_pos beta).
  apply filt_fading_of_pair; [apply fx_gain12_nonneg | lra | apply fx_pair_gain12 | apply fx_pair_fading12].
Qed.

End Order1.

(** * all n >= 1 together: gain and rate as functions of n *)
Definition flex_gain (n : nat) : R := if Nat.leb 3 n then fx_gain3 n else fx_gain12 n.
Definition flex_rate (n : nat) : R := if Nat.leb 3 n then fx_a n else Rabs (fx_b1e n).

Lemma flex_rate_range n : (1 <= n)%nat -> 0 <= flex_rate n < 1.
Proof.
  intros Hn. unfold flex_rate. destruct (Nat.leb_spec 3 n) as [H|H].
  - pose proof (fx_a_range n Hn). lra.
  - split; [apply Rabs_pos | apply fx_beta_lt1; lia].
Qed.

Lemma flex_rate_1 : flex_rate 1 = 0.
Proof. unfold flex_rate, fx_b1e. cbn [Nat.leb]. apply Rabs_R0. Qed.

Lemma flex_gain_nonneg n : (1 <= n)%nat -> 0 <= flex_gain n.
Proof.
  intros Hn. unfold flex_gain. destruct (Nat.leb_spec 3 n) as [H|H];
  [apply fx_gain3_nonneg; exact H | apply fx_gain12_nonneg; lia].
Qed.

(** C09 (smoother inside TrendFlex/ReFlex, every n >= 1): BIBO *)
Theorem flex_filt_bibo n : (1 <= n)%nat -> filt_gain n (flex_gain n).
Proof.
  intros Hn. unfold flex_gain. destruct (Nat.leb_spec 3 n) as [H|H];
  [apply flex_filt_bibo3; exact H | apply flex_filt_bibo12; lia].
Qed.

(** C09 (smoother inside TrendFlex/ReFlex, every n >= 1): geometric fading of the difference of two runs *)
Theorem flex_filt_fading n : (1 <= n)%nat -> filt_fading n (flex_gain n) (flex_rate n).
Proof.
  intros Hn. unfold flex_gain, flex_rate. destruct (Nat.leb_spec 3 n) as [H|H];
  [apply flex_filt_fading3; exact H | apply flex_filt_fading12; lia].
Qed.
