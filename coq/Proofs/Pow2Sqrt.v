(** C12, floating-point half, part 3: the views built on WelfordOnline.  The sum of squared deviations [m2]
    scales by sc^2 (each product of two scaled quantities is rounded, and rounding commutes with sc^2 because it
    commutes with sc twice), the variance by sc^2, and the standard deviation fl(sqrt var) by sc
    (sqrt (sc^2 x) = sc sqrt x, then (H1)).  No hypothesis beyond (H1), (H2). *)
From Coq Require Import List Arith Lia Reals Lra ZArith Bool.
From SF Require Import Res Scalar View Models Core.
From SF.Proofs Require Import Pow2Base.
Import ListNotations.
Open Scope R_scope.

Section Views.
Variable rnd : R -> R.
Variable cnat : nat -> R.
Variable cdec : Z -> nat -> R.
Variable sc : R.
Hypothesis rnd_sc : forall x, rnd (sc * x) = sc * rnd x.
Hypothesis sc_pos : 0 < sc.

Notation PO := (RndOps rnd cnat cdec).
Notation scl := (scl sc).
Notation sco := (sco sc).

Ltac sc_rw := sc_rw_with rnd sc rnd_sc sc_pos.
Ltac crush := crush_with rnd sc rnd_sc sc_pos.

(** (mean, m2, count): mean scales by sc, m2 by sc^2 *)
Definition tri_sc (t : R * R * nat) : R * R * nat := (sc * fst (fst t), sc * (sc * snd (fst t)), snd t).

Lemma wo_add_sc mean m2 count x :
  @wo_add R PO (sc * mean) (sc * (sc * m2)) count (sc * x) = rmap tri_sc (@wo_add R PO mean m2 count x).
Proof. unfold wo_add, tri_sc. crush. Qed.

Lemma wo_remove_sc mean m2 count old :
  @wo_remove R PO (sc * mean) (sc * (sc * m2)) count (sc * old) = rmap tri_sc (@wo_remove R PO mean m2 count old).
Proof. unfold wo_remove, tri_sc. crush. Qed.

Definition wo_f (st : @wo_st R) : @wo_st R :=
  {| wo_q := scl (wo_q st); wo_mean := sc * wo_mean st; wo_m2 := sc * (sc * wo_m2 st); wo_count := wo_count st |}.

Lemma wo_step_sc n st v : @wo_step R PO n (wo_f st) (sc * v) = rmap wo_f (@wo_step R PO n st v).
Proof.
  destruct st as [q mean m2 count]. unfold wo_step, wo_f. cbn [wo_q wo_mean wo_m2 wo_count]. sc_rw.
  destruct (Nat.ltb n (length (q ++ [v]))).
  - destruct (pop_front (q ++ [v])) as [[old q']|e]; cbn [bind rmap fst snd]; [|reflexivity].
    rewrite wo_remove_sc. destruct (@wo_remove R PO mean m2 count old) as [[[a b] k]|e]; cbn [bind rmap tri_sc fst snd]; [|reflexivity].
    rewrite wo_add_sc. destruct (@wo_add R PO a b k v) as [[[a' b'] k']|e]; reflexivity.
  - cbn [bind rmap]. rewrite wo_add_sc. destruct (@wo_add R PO mean m2 count v) as [[[a' b'] k']|e]; reflexivity.
Qed.

Lemma wo_variance_sc st : @wo_variance R PO (wo_f st) = rmap (fun x => sc * (sc * x)) (@wo_variance R PO st).
Proof. destruct st as [q mean m2 count]. unfold wo_variance, wo_f. cbn [wo_q wo_mean wo_m2 wo_count]. crush. Qed.

Lemma wo_last_sc n st : @wo_last R PO n (wo_f st) = rmap sco (@wo_last R PO n st).
Proof.
  unfold wo_last. destruct (usub n 1) as [n1|e]; cbn [bind rmap]; [|reflexivity].
  rewrite wo_variance_sc. destruct st as [q mean m2 count]. cbn [wo_f wo_count].
  destruct (Nat.ltb count n1); [reflexivity|].
  destruct (@wo_variance R PO _) as [var|e]; cbn [bind rmap]; [|reflexivity]. crush.
Qed.

Lemma wo_new_sc n : rmap wo_f (@wo_new R PO n) = @wo_new R PO n.
Proof.
  unfold wo_new. destruct (assert (Nat.ltb 0 n)); cbn [bind rmap]; [|reflexivity].
  unfold wo_f. cbn [wo_q wo_mean wo_m2 wo_count]. opsimp. rewrite !sc_0. reflexivity.
Qed.

(** WelfordOnline (standard deviation): scales by sc *)
Theorem welford_scales n vs :
  cout (@welford_core R PO n) (map (Rmult sc) vs) = rmap sco (cout (@welford_core R PO n) vs).
Proof.
  apply (cout_sim (@welford_core R PO n) sc wo_f sco).
  - apply wo_new_sc.
  - apply wo_step_sc.
  - apply wo_last_sc.
Qed.

(** its mean getter scales by sc, its variance getter by sc^2 *)
Theorem welford_mean_scales n vs :
  cout (@welford_mean_core R PO n) (map (Rmult sc) vs) = rmap sco (cout (@welford_mean_core R PO n) vs).
Proof.
  apply (cout_sim (@welford_mean_core R PO n) sc wo_f sco).
  - apply wo_new_sc.
  - apply wo_step_sc.
  - intros st. reflexivity.
Qed.
Theorem welford_var_scales n vs :
  cout (@welford_var_core R PO n) (map (Rmult sc) vs)
  = rmap (option_map (fun x => sc * (sc * x))) (cout (@welford_var_core R PO n) vs).
Proof.
  apply (cout_sim (@welford_var_core R PO n) sc wo_f (option_map (fun x => sc * (sc * x)))).
  - apply wo_new_sc.
  - apply wo_step_sc.
  - intros st. cbn [clast welford_var_core]. rewrite wo_variance_sc.
    destruct (@wo_variance R PO st); reflexivity.
Qed.

(** ** Vst and Vsct (both own a WelfordOnline) *)
Definition vw_f (st : R * @wo_st R) : R * @wo_st R := (sc * fst st, wo_f (snd st)).

Lemma vst_step_sc n st v :
  cstep (@vst_core R PO n) (vw_f st) (sc * v) = rmap vw_f (cstep (@vst_core R PO n) st v).
Proof.
  destruct st as [x w]. cbn [cstep vst_core vw_f fst snd]. rewrite wo_step_sc.
  destruct (@wo_step R PO n w v); reflexivity.
Qed.

Lemma vst_new_sc n : rmap vw_f (cnew (@vst_core R PO n)) = cnew (@vst_core R PO n).
Proof.
  cbn [cnew vst_core]. rewrite <- (wo_new_sc n) at 2. destruct (@wo_new R PO n); cbn [bind rmap]; [|reflexivity].
  unfold vw_f. cbn [fst snd]. opsimp. rewrite sc_0. reflexivity.
Qed.

(** the inner WelfordOnline of Vst is the stand-alone WelfordOnline on the same history *)
Lemma vst_crun_welford n vs : rmap snd (crun (@vst_core R PO n) vs) = crun (@welford_core R PO n) vs.
Proof.
  induction vs as [|v vs IH] using rev_ind.
  - unfold crun. cbn [cnew vst_core welford_core cfold]. destruct (@wo_new R PO n); reflexivity.
  - rewrite !crun_snoc, <- IH. destruct (crun (@vst_core R PO n) vs) as [[x w]|e]; cbn [bind rmap snd]; [|reflexivity].
    cbn [cstep vst_core welford_core snd]. destruct (@wo_step R PO n w v); reflexivity.
Qed.

Lemma vst_last_sc n st :
  clast (@vst_core R PO n) (vw_f st)
  = match @wo_last R PO n (snd st) with
    | Ok (Some sd) => if Reqb sd 0 then rmap sco (clast (@vst_core R PO n) st) else clast (@vst_core R PO n) st
    | _ => clast (@vst_core R PO n) st
    end.
Proof.
  destruct st as [x w]. cbn [clast vst_core vw_f fst snd]. rewrite wo_last_sc.
  destruct (@wo_last R PO n w) as [[sd|]|e]; cbn [bind rmap Pow2Base.sco option_map]; try reflexivity. crush.
Qed.

(** Vst on the scaled history, in general: decided by the standard deviation of the ORIGINAL window --
    flat window (sd = 0): the answer is the latest value, which scales; otherwise bit-identical *)
Theorem vst_pow2 n vs :
  cout (@vst_core R PO n) (map (Rmult sc) vs)
  = match cout (@welford_core R PO n) vs with
    | Ok (Some sd) => if Reqb sd 0 then rmap sco (cout (@vst_core R PO n) vs) else cout (@vst_core R PO n) vs
    | _ => cout (@vst_core R PO n) vs
    end.
Proof.
  unfold cout at 1. rewrite (crun_sim (@vst_core R PO n) sc vw_f (vst_new_sc n) (vst_step_sc n)).
  unfold cout. rewrite <- vst_crun_welford.
  destruct (crun (@vst_core R PO n) vs) as [st|e]; cbn [bind rmap]; [|reflexivity].
  rewrite vst_last_sc. cbn [clast welford_core]. reflexivity.
Qed.

(** Vst is bit-identical on the scaled history when the window is not flat *)
Theorem vst_scale_free n vs sd : cout (@welford_core R PO n) vs = Ok (Some sd) -> sd <> 0 ->
  cout (@vst_core R PO n) (map (Rmult sc) vs) = cout (@vst_core R PO n) vs.
Proof.
  intros Hw Hsd. rewrite vst_pow2, Hw. apply Reqb_false in Hsd. rewrite Hsd. reflexivity.
Qed.
(** ... and scales on a flat window (where it answers the latest value itself) *)
Theorem vst_flat_scales n vs : cout (@welford_core R PO n) vs = Ok (Some 0) ->
  cout (@vst_core R PO n) (map (Rmult sc) vs) = rmap sco (cout (@vst_core R PO n) vs).
Proof.
  intros Hw. rewrite vst_pow2, Hw. assert (H : Reqb 0 0 = true) by (apply Reqb_true; reflexivity). rewrite H. reflexivity.
Qed.

Lemma vsct_step_sc n st v :
  cstep (@vsct_core R PO n) (vw_f st) (sc * v) = rmap vw_f (cstep (@vsct_core R PO n) st v).
Proof. exact (vst_step_sc n st v). Qed.

Lemma vsct_last_sc n st : clast (@vsct_core R PO n) (vw_f st) = clast (@vsct_core R PO n) st.
Proof.
  destruct st as [x [q mean m2 count]]. cbn [clast vsct_core vw_f fst snd]. rewrite wo_last_sc.
  destruct (@wo_last R PO n _) as [[sd|]|e]; cbn [bind rmap Pow2Base.sco option_map wo_f wo_mean]; try reflexivity. crush.
Qed.

(** Vsct is bit-identical on the scaled history (flat windows included: it answers 0 there) *)
Theorem vsct_scale_free n vs :
  cout (@vsct_core R PO n) (map (Rmult sc) vs) = cout (@vsct_core R PO n) vs.
Proof.
  rewrite <- (rmap_id (cout (@vsct_core R PO n) vs)).
  apply (cout_sim (@vsct_core R PO n) sc vw_f (fun o => o)).
  - exact (vst_new_sc n).
  - apply vsct_step_sc.
  - intros st. rewrite rmap_id. apply vsct_last_sc.
Qed.

End Views.
