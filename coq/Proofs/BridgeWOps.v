(** Task 1 of BridgeW: the primitive binary64 square root against the rounded real square root [b64_sqrt],
    a division fact that needs no finiteness check (a finite float divided by a finite float of magnitude
    at least 1 is finite), and [arith_sim3]: [arith_sim] (BridgeSim.v) extended with [ssqrt] and that division
    fact; [prim_arith_sim3 : arith_sim3 FOps B64Ops3 f2r ffinite nat53]. *)
From Coq Require Import List Arith Lia Reals Lra ZArith Floats Bool.
From SF Require Import Res Scalar View Models Spec Core FloatOps SpecBridge.
From SF.Proofs Require Import Window RBase FltErr FltBridge Flt2P Flt2B64 Flt2Prim BridgeOps BridgeSim BridgeP
  WdriftVar WdriftVarB64.
From Flocq Require Import Core BinarySingleNaN.
From Flocq Require IEEE754.PrimFloat.
Import ListNotations.
Open Scope R_scope.

(** * 1. Square root *)

(** what [PrimFloat.sqrt] answers, by the class of its argument *)
Lemma prim_sqrt_class x :
  f2r (PrimFloat.sqrt x) = b64_sqrt (f2r x) /\
  ffinite (PrimFloat.sqrt x)
  = match FP.Prim2B x with B754_zero _ => true | B754_finite false _ _ _ => true | _ => false end.
Proof.
  unfold ffinite, f2r. rewrite FP.sqrt_equiv.
  destruct (Bsqrt_correct prec emax FP.Hprec FP.Hmax mode_NE (FP.Prim2B x)) as [E [Hf _]].
  split; [exact E | exact Hf].
Qed.

(** a finite float of non-negative real value (+0, -0 or positive): finite, correctly rounded root *)
Theorem prim_sqrt_fin x : ffinite x = true -> 0 <= f2r x ->
  ffinite (PrimFloat.sqrt x) = true /\ f2r (PrimFloat.sqrt x) = b64_round (R_sqrt.sqrt (f2r x)).
Proof.
  intros Fx Hx. destruct (prim_sqrt_class x) as [E Hf]. split; [|exact E].
  rewrite Hf. unfold ffinite, f2r in Fx, Hx.
  destruct (FP.Prim2B x) as [sx|sx| |sx mx ex Bx]; try discriminate; try reflexivity.
  destruct sx; [|reflexivity]. exfalso. cbn [B2R] in Hx.
  assert (H : F2R (Float radix2 (cond_Zopp true (Zpos mx)) ex) < 0) by (apply F2R_lt_0; reflexivity). lra.
Qed.

(** the converse, in the style of BridgeOps.v: a FINITE root forces a finite argument of non-negative value *)
Theorem prim_sqrt_fin_inv x : ffinite (PrimFloat.sqrt x) = true ->
  ffinite x = true /\ 0 <= f2r x /\ f2r (PrimFloat.sqrt x) = b64_sqrt (f2r x).
Proof.
  intros H. destruct (prim_sqrt_class x) as [E Hf]. rewrite Hf in H. unfold ffinite, f2r.
  destruct (FP.Prim2B x) as [sx|sx| |sx mx ex Bx] eqn:Ex; try discriminate.
  - split; [reflexivity|]. split; [cbn; lra|]. unfold f2r in E. rewrite Ex in E. exact E.
  - destruct sx; [discriminate|]. split; [reflexivity|]. split.
    + cbn [B2R]. apply F2R_ge_0. cbn. lia.
    + unfold f2r in E. rewrite Ex in E. exact E.
Qed.

(** the other cases, as they are: a finite float of NEGATIVE value has a NaN root (not finite); the real value
    of that NaN is 0 by convention, while [B64Ops3] answers [Err Domain] *)
Theorem prim_sqrt_neg x : ffinite x = true -> f2r x < 0 ->
  ffinite (PrimFloat.sqrt x) = false /\ PrimFloat.is_nan (PrimFloat.sqrt x) = true.
Proof.
  intros Fx Hx. split.
  - destruct (ffinite (PrimFloat.sqrt x)) eqn:H; [|reflexivity].
    destruct (prim_sqrt_fin_inv x H) as [_ [H0 _]]. lra.
  - rewrite FP.is_nan_equiv, FP.sqrt_equiv. unfold ffinite, f2r in Fx, Hx.
    destruct (FP.Prim2B x) as [sx|sx| |sx mx ex Bx]; try discriminate; cbn [B2R] in Hx; try lra.
    destruct sx; [reflexivity|]. exfalso.
    assert (H : 0 <= F2R (Float radix2 (cond_Zopp false (Zpos mx)) ex)) by (apply F2R_ge_0; cbn; lia). lra.
Qed.
(** signed zeros and the infinities (by computation): sqrt(-0) = -0, sqrt(+inf) = +inf, sqrt(-inf) = sqrt(nan) = nan *)
Example prim_sqrt_specials :
  feqb_bits (PrimFloat.sqrt (-0)%float) (-0)%float = true /\ feqb_bits (PrimFloat.sqrt 0%float) 0%float = true /\
  PrimFloat.sqrt PrimFloat.infinity = PrimFloat.infinity /\
  PrimFloat.is_nan (PrimFloat.sqrt PrimFloat.neg_infinity) = true /\ PrimFloat.is_nan (PrimFloat.sqrt PrimFloat.nan) = true.
Proof. vm_compute. repeat split. Qed.

(** * 2. A division that cannot overflow: finite / (finite of magnitude >= 1) *)
Lemma b64_round_abs_le x y : b64_format y -> Rabs x <= y -> Rabs (b64_round x) <= y.
Proof.
  intros Fy H. unfold b64_round. apply abs_round_le_generic; try assumption.
  - apply FLT_exp_valid. exact b64_prec_gt_0.
  - apply valid_rnd_N.
Qed.

Lemma B2R_lt_emax (z : binary_float prec emax) : Rabs (B2R z) < bpow radix2 emax.
Proof.
  destruct z as [s|s| |s m e Hb]; cbn [B2R]; try (rewrite Rabs_R0; apply bpow_gt_0).
  apply abs_B2R_lt_emax with (x := B754_finite s m e Hb).
Qed.

Theorem prim_div_ge1_fin x y : ffinite x = true -> ffinite y = true -> 1 <= Rabs (f2r y) ->
  ffinite (PrimFloat.div x y) = true.
Proof.
  unfold ffinite, f2r. rewrite FP.div_equiv. intros Fx Fy Hy.
  assert (Hy0 : B2R (FP.Prim2B y) <> 0).
  { intros E. rewrite E, Rabs_R0 in Hy. lra. }
  generalize (Bdiv_correct prec emax FP.Hprec FP.Hmax mode_NE (FP.Prim2B x) (FP.Prim2B y) Hy0).
  rewrite Rlt_bool_true.
  - intros [_ [Hf _]]. rewrite Hf. exact Fx.
  - eapply Rle_lt_trans; [|apply (B2R_lt_emax (FP.Prim2B x))].
    change (round radix2 (fexp prec emax) (round_mode mode_NE)) with b64_round.
    apply b64_round_abs_le.
    + apply generic_format_abs. apply (f2r_format x).
    + unfold Rdiv. rewrite Rabs_mult, Rabs_inv.
      set (a := Rabs (B2R (FP.Prim2B x))). set (b := Rabs (B2R (FP.Prim2B y))) in *.
      assert (Ha : 0 <= a) by apply Rabs_pos.
      assert (Hb : / b <= 1). { rewrite <- Rinv_1. apply Rinv_le_contravar; lra. }
      assert (Hb0 : 0 <= / b). { left. apply Rinv_0_lt_compat. lra. }
      nra.
Qed.

(** * 3. [arith_sim3] = [arith_sim] + square root + the non-overflowing division *)
Section ArithSim3.
Variable A : Type.
Variable OA : Ops A.
Variable OB : Ops R.
Variable phi : A -> R.
Variable finb : A -> bool.
Variable N : nat -> Prop.

Record arith_sim3 : Prop := {
  as3_base : arith_sim OA OB phi finb N;
  (* sqrt: a finite root forces a finite argument, [OB] does not err and commutes with [phi] *)
  as3_sqrt : forall x r, @ssqrt A OA x = Ok r -> finb r = true ->
               finb x = true /\ 0 <= phi x /\ @ssqrt R OB (phi x) = Ok (phi r);
  (* sqrt of a finite argument of non-negative value is finite *)
  as3_sqrt_fin : forall x r, finb x = true -> 0 <= phi x -> @ssqrt A OA x = Ok r -> finb r = true;
  (* finite / finite of magnitude >= 1 (a count): finite *)
  as3_div_ge1 : forall x y q, finb x = true -> finb y = true -> 1 <= Rabs (phi y) ->
               @sdiv A OA x y = Ok q -> finb q = true;
  (* the comparisons of [OB] are the real ones, its zero is 0 and its naturals are [INR] *)
  as3_leb : forall a b, @sleb R OB a b = Rleb a b;
  as3_zero : @s0 R OB = 0;
  as3_ofnat : forall k, @sofnat R OB k = INR k;
}.
End ArithSim3.
Arguments arith_sim3 {A} OA OB phi finb N.
Arguments as3_base {A OA OB phi finb N} _.
Arguments as3_sqrt {A OA OB phi finb N} _.
Arguments as3_sqrt_fin {A OA OB phi finb N} _.
Arguments as3_div_ge1 {A OA OB phi finb N} _.
Arguments as3_leb {A OA OB phi finb N} _.
Arguments as3_zero {A OA OB phi finb N} _.
Arguments as3_ofnat {A OA OB phi finb N} _.

(** [B64Ops3] differs from [B64Ops] in [ssqrt] only: the arithmetic simulation carries over verbatim *)
Theorem prim_arith_sim_B3 : arith_sim FOps B64Ops3 f2r ffinite nat53.
Proof.
  pose proof prim_arith_sim as P.
  constructor.
  - exact (as_s0 P).
  - exact (as_s1 P).
  - exact (as_add P).
  - exact (as_sub P).
  - exact (as_mul P).
  - exact (as_div P).
  - exact (as_neg P).
  - exact (as_abs P).
  - exact (as_ltb P).
  - exact (as_leb P).
  - exact (as_eqb P).
  - exact (as_nat P).
Qed.

Theorem prim_arith_sim3 : arith_sim3 FOps B64Ops3 f2r ffinite nat53.
Proof.
  constructor.
  - exact prim_arith_sim_B3.
  - intros x r E Hr. cbn [ssqrt FOps] in E. inversion E; subst r; clear E.
    destruct (prim_sqrt_fin_inv x Hr) as [Fx [Hx Er]]. split; [exact Fx|]. split; [exact Hx|].
    cbn [ssqrt B64Ops3 FlOps3]. destruct (Rlt_dec (f2r x) 0) as [Hn|_]; [lra|]. rewrite Er. reflexivity.
  - intros x r Fx Hx E. cbn [ssqrt FOps] in E. inversion E; subst r. exact (proj1 (prim_sqrt_fin x Fx Hx)).
  - intros x y q Fx Fy Hy E. cbn [sdiv FOps] in E. inversion E; subst q. exact (prim_div_ge1_fin x y Fx Fy Hy).
  - reflexivity.
  - reflexivity.
  - reflexivity.
Qed.

Print Assumptions prim_sqrt_fin.
Print Assumptions prim_sqrt_fin_inv.
Print Assumptions prim_sqrt_neg.
Print Assumptions prim_div_ge1_fin.
Print Assumptions prim_arith_sim3.
