(** W3 (C09 wording conflict), all-steps version at [R]: on a constant tail LaguerreRSI(16) does not
    forget its prefix.  After the prefix 10,11,12,13,14 it reports exactly 0 and after the prefix 2,1
    exactly 1 at EVERY tail step from the third on: the four Laguerre stages stay strictly ordered
    (increasing resp. decreasing) forever, so CU = 0 resp. CD = 0 although all stages converge to 5. *)
From Coq Require Import List Arith Lia Reals Lra.
From SF Require Import Res Scalar View Models Spec Core SpecEhl.
From SF.Proofs Require Import Window RBase EhlBase EhlLrsi.
Import ListNotations.
Open Scope R_scope.

Definition lag4R := (R * R * R * R)%type.

(** the inductive invariant on the deviations e_i = s*(L_i - 5), s = +-1 *)
Definition ord_inv (s : R) (l : lag4R) : Prop :=
  let '(l0, l1, l2, l3) := l in
  let e0 := s * (l0 - 5) in let e1 := s * (l1 - 5) in let e2 := s * (l2 - 5) in let e3 := s * (l3 - 5) in
  e0 < 0 /\ - 2 * (2 / 17) * e0 <= e0 - e1 /\ 0 < e1 - e2 /\ 0 < e2 - e3 /\
  0 <= (e1 - e2) - 2 / 17 * (e0 - e1) - 2 / 17 * (2 / 17) * e0.

Lemma ord_inv_step s l : s = 1 \/ s = -1 -> ord_inv s l -> ord_inv s (@lad_step R ROps (2 / 17) l 5).
Proof.
  intros Hs. destruct l as [[[l0 l1] l2] l3]. unfold ord_inv, lad_step.
  cbn [sadd ssub smul sneg s1 ROps]. intros (H0 & H1 & H2 & H3 & H4).
  destruct Hs; subst s; repeat split; lra.
Qed.

Lemma repeat_snoc {A} (a : A) k : repeat a (S k) = repeat a k ++ [a].
Proof. induction k as [|k IH]; [reflexivity|]. cbn [repeat app] in *. rewrite <- IH. reflexivity. Qed.

Lemma ord_inv_tail s pre k : s = 1 \/ s = -1 ->
  ord_inv s (@lrsi_stages R ROps (2 / 17) (pre ++ repeat 5 3)) ->
  ord_inv s (@lrsi_stages R ROps (2 / 17) (pre ++ repeat 5 (3 + k))).
Proof.
  intros Hs H3. induction k as [|k IH]; [rewrite Nat.add_0_r; exact H3|].
  replace (3 + S k)%nat with (S (3 + k)) by lia. rewrite repeat_snoc, app_assoc, lrsi_stages_snoc.
  apply ord_inv_step; assumption.
Qed.

Ltac case_leb :=
  repeat match goal with
         | |- context [Rleb ?a ?b] =>
             let E := fresh "E" in destruct (Rleb a b) eqn:E; [apply Rleb_true in E | apply Rleb_false in E]
         end.

(** strictly decreasing stages: CD = 0 < CU, value 1 *)
Lemma ord_inv_val_one g xs : ord_inv 1 (@lrsi_stages R ROps g xs) -> @lrsi_val R ROps g xs = Some 1.
Proof.
  unfold lrsi_val. destruct (@lrsi_stages R ROps g xs) as [[[l0 l1] l2] l3].
  unfold ord_inv, lrsi_cu, lrsi_cd, spos. cbn [sadd ssub sleb seqb s0 ROps]. intros (H0 & H1 & H2 & H3 & H4).
  case_leb; try lra.
  assert (Hne : l0 - l1 + (l1 - l2) + (l2 - l3) + (0 + 0 + 0) <> 0) by lra.
  apply Reqb_false in Hne. rewrite Hne. f_equal. rewrite sdivd_R by lra. field. lra.
Qed.

(** strictly increasing stages: CU = 0 < CD, value 0 *)
Lemma ord_inv_val_zero g xs : ord_inv (-1) (@lrsi_stages R ROps g xs) -> @lrsi_val R ROps g xs = Some 0.
Proof.
  unfold lrsi_val. destruct (@lrsi_stages R ROps g xs) as [[[l0 l1] l2] l3].
  unfold ord_inv, lrsi_cu, lrsi_cd, spos. cbn [sadd ssub sleb seqb s0 ROps]. intros (H0 & H1 & H2 & H3 & H4).
  case_leb; try lra.
  assert (Hne : 0 + 0 + 0 + (l1 - l0 + (l2 - l1) + (l3 - l2)) <> 0) by lra.
  apply Reqb_false in Hne. rewrite Hne. f_equal. rewrite sdivd_R by lra. field. lra.
Qed.

Lemma lrsi_gamma_16 : @lrsi_gamma R ROps 16 = 2 / 17.
Proof.
  unfold lrsi_gamma, s2. cbn [sofnat sadd s1 ROps]. replace (INR 16) with 16 by (simpl; lra).
  rewrite sdivd_R by lra. cbn. lra.
Qed.

Lemma base_B : ord_inv 1 (@lrsi_stages R ROps (2 / 17) ([] ++ repeat 5 3)).
Proof.
  unfold lrsi_stages. cbn [app repeat fold_left lad_step]. unfold ord_inv.
  cbn [sadd ssub smul sneg s0 s1 ROps]. repeat split; lra.
Qed.

Lemma base_A : ord_inv (-1) (@lrsi_stages R ROps (2 / 17) ([12; 13; 14] ++ repeat 5 3)).
Proof.
  unfold lrsi_stages. cbn [app repeat fold_left lad_step]. unfold ord_inv.
  cbn [sadd ssub smul sneg s0 s1 ROps]. repeat split; lra.
Qed.

Lemma hold_last_snoc_some {A} (f : list A -> option R) l x y :
  f (l ++ [x]) = Some y -> @hold_last R A f (l ++ [x]) = Some y.
Proof. intros H. rewrite hold_last_snoc, H. reflexivity. Qed.

(** spec-level statement *)
Lemma spec_lrsi_tail_B k : (3 <= k)%nat -> @spec_lrsi R ROps 16 ([2; 1] ++ repeat 5 k) = Some 1.
Proof.
  intros Hk. unfold spec_lrsi. rewrite lrsi_gamma_16. cbn [app skipn].
  assert (Hi : ord_inv 1 (@lrsi_stages R ROps (2 / 17) ([] ++ repeat 5 (3 + (k - 3)))))
    by (apply ord_inv_tail; [left; reflexivity | exact base_B]).
  replace (3 + (k - 3))%nat with k in Hi by lia. cbn [app] in Hi.
  apply ord_inv_val_one in Hi. destruct k as [|k]; [lia|]. rewrite repeat_snoc in *.
  apply hold_last_snoc_some; exact Hi.
Qed.

Lemma spec_lrsi_tail_A k : (3 <= k)%nat -> @spec_lrsi R ROps 16 ([10; 11; 12; 13; 14] ++ repeat 5 k) = Some 0.
Proof.
  intros Hk. unfold spec_lrsi. rewrite lrsi_gamma_16. cbn [app skipn].
  assert (Hi : ord_inv (-1) (@lrsi_stages R ROps (2 / 17) ([12; 13; 14] ++ repeat 5 (3 + (k - 3)))))
    by (apply ord_inv_tail; [right; reflexivity | exact base_A]).
  replace (3 + (k - 3))%nat with k in Hi by lia.
  apply ord_inv_val_zero in Hi. destruct k as [|k]; [lia|]. rewrite repeat_snoc in *.
  change (12 :: 13 :: 14 :: repeat 5 k ++ [5]) with ([12; 13; 14] ++ repeat 5 k ++ [5]).
  rewrite app_assoc in *. apply hold_last_snoc_some; exact Hi.
Qed.

(** W3, all steps: the two streams share the constant tail 5,5,5,... and differ only in a finite prefix,
    yet from the third tail step on LaguerreRSI(16) reports exactly 0 on one and exactly 1 on the other,
    forever: the influence of the prefix never fades. *)
Theorem lrsi_never_fades : forall k, (3 <= k)%nat ->
  cout (@lrsi_core R ROps 16) ([10; 11; 12; 13; 14] ++ repeat 5 k) = Ok (Some 0) /\
  cout (@lrsi_core R ROps 16) ([2; 1] ++ repeat 5 k) = Ok (Some 1).
Proof.
  intros k Hk. rewrite !lrsi_closed_form, spec_lrsi_tail_A, spec_lrsi_tail_B by exact Hk. split; reflexivity.
Qed.

(** in the form of the property: same tail, different prefixes, outputs differ by 1 at every later step *)
Corollary lrsi_fading_refuted_all_steps :
  exists (pa pb : list R) (c : R), forall k, (3 <= k)%nat ->
    exists ya yb, cout (@lrsi_core R ROps 16) (pa ++ repeat c k) = Ok (Some ya) /\
                  cout (@lrsi_core R ROps 16) (pb ++ repeat c k) = Ok (Some yb) /\ yb - ya = 1.
Proof.
  exists [10; 11; 12; 13; 14], [2; 1], 5. intros k Hk. destruct (lrsi_never_fades k Hk) as [Ha Hb].
  exists 0, 1. repeat split; [exact Ha | exact Hb | lra].
Qed.

Example lrsi_never_fades_ex : (3 <= 60)%nat. Proof. lia. Qed.

Print Assumptions lrsi_never_fades.
Print Assumptions lrsi_fading_refuted_all_steps.
