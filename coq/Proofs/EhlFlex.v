(** TrendFlex / ReFlex (trend_flex.rs, re_flex.rs): C11 closed forms at [R], C07 range, C12 scaling. *)
From Coq Require Import List Arith Lia Reals Lra ZArith.
From SF Require Import Res Scalar View Models Spec Core SpecEhl.
From SF.Proofs Require Import Window RBase EhlBase.
Import ListNotations.
Open Scope R_scope.

(** * scalar constants and total operations at R *)
Lemma sofdec_2_0 : @sofdec R ROps 2 0 = 2.
Proof. cbn. lra. Qed.
Lemma s2_R : @s2 R ROps = 2.
Proof. apply sofdec_2_0. Qed.
Lemma sofdec_4_2 : @sofdec R ROps 4 2 = 4 / 100.
Proof. cbn. lra. Qed.
Lemma sofdec_96_2 : @sofdec R ROps 96 2 = 96 / 100.
Proof. cbn. lra. Qed.

Lemma sdiv_sdivd a b : b <> 0 -> @sdiv R ROps a b = Ok (@sdivd R ROps a b).
Proof. intros H. rewrite sdivd_R by exact H. apply sdiv_R_ok; exact H. Qed.

(** * SuperSmoother coefficients *)
Lemma flex_coefs_R n : (1 <= n)%nat ->
  @flex_coefs R ROps n = Ok (@ss_c1 R ROps n, @ss_b1 R ROps n, @ss_c3 R ROps n).
Proof.
  intros Hn. assert (Hnz : INR n <> 0) by (apply INR_pos_neq; lia).
  unfold flex_coefs. cbn [sofnat ROps].
  rewrite !sdiv_sdivd by exact Hnz. cbn [bind sexp scos ROps].
  unfold ss_c1, ss_b1, ss_c3, ss_a1, sexpd, scosd, totd, s2. cbn [sexp scos sofnat ROps smul sneg ssub s1].
  f_equal. f_equal; [f_equal|]; ring.
Qed.

(** * the filt sequence *)
Definition ss_acc (n : nat) (h : list R) : list R * option R :=
  fold_left (fun (acc : list R * option R) x =>
               let xp := match snd acc with None => x | Some p => p end in
               (fst acc ++ [@ss_next R ROps n (fst acc) xp x], Some x)) h ([], None).

Lemma ss_filts_acc n h : @ss_filts R ROps n h = fst (ss_acc n h).
Proof. reflexivity. Qed.

Lemma ss_acc_snd n h : snd (ss_acc n h) = lasto h.
Proof.
  destruct h as [|a h] using rev_ind; [reflexivity|].
  unfold ss_acc. rewrite fold_left_app. cbn [fold_left snd]. rewrite lasto_snoc. reflexivity.
Qed.

Lemma lasto_last {A} (h : list A) (x : A) : match lasto h with None => x | Some p => p end = last h x.
Proof.
  destruct h as [|a h _] using rev_ind; [reflexivity|]. rewrite lasto_snoc, last_snoc. reflexivity.
Qed.

Lemma ss_filts_nil n : @ss_filts R ROps n [] = [].
Proof. reflexivity. Qed.

Lemma ss_filts_snoc n h x :
  @ss_filts R ROps n (h ++ [x]) = @ss_filts R ROps n h ++ [@ss_next R ROps n (@ss_filts R ROps n h) (last h x) x].
Proof.
  rewrite !ss_filts_acc. unfold ss_acc at 1. rewrite fold_left_app. fold (ss_acc n h).
  cbn [fold_left fst]. rewrite ss_acc_snd, lasto_last. reflexivity.
Qed.

Lemma ss_filts_length n h : length (@ss_filts R ROps n h) = length h.
Proof.
  induction h as [|a h IH] using rev_ind; [reflexivity|].
  rewrite ss_filts_snoc, !app_length, IH. reflexivity.
Qed.

Lemma lastn_snoc_pred {A} n (F : list A) f : (1 <= n)%nat -> lastn (n - 1) F ++ [f] = lastn n (F ++ [f]).
Proof.
  intros Hn. rewrite <- (evict_push_lastn n F f Hn). f_equal. symmetry. apply evict_lastn. exact Hn.
Qed.

(** the model's filter step *)
Lemma flex_filt_R n (F : list R) v xp : 
  @flex_filt R ROps (@ss_c1 R ROps n) (@ss_b1 R ROps n) (@ss_c3 R ROps n) (lastn (n - 1) F) v xp
  = Ok (@ss_next R ROps n F xp v).
Proof.
  unfold flex_filt, ss_next. fold (@s2 R ROps).
  rewrite sdiv_sdivd by (rewrite s2_R; lra). cbn [bind].
  destruct (rev (lastn (n - 1) F)) as [|f1 [|f2 r]]; reflexivity.
Qed.

(** * deviations *)
Lemma tf_devs_snoc n h x :
  @tf_devs R ROps n (h ++ [x]) = @tf_devs R ROps n h ++ [@tf_dev R ROps n (@ss_filts R ROps n (h ++ [x]))].
Proof.
  unfold tf_devs. rewrite ss_filts_snoc at 1. rewrite prefixes_snoc, map_app. cbn [map].
  rewrite <- ss_filts_snoc. reflexivity.
Qed.
Lemma rf_devs_snoc n h x :
  @rf_devs R ROps n (h ++ [x]) = @rf_devs R ROps n h ++ [@rf_dev R ROps n (@ss_filts R ROps n (h ++ [x]))].
Proof.
  unfold rf_devs. rewrite ss_filts_snoc at 1. rewrite prefixes_snoc, map_app. cbn [map].
  rewrite <- ss_filts_snoc. reflexivity.
Qed.

Lemma flex_ms_snoc ds d :
  @flex_ms R ROps (ds ++ [d]) = 4 / 100 * (d * d) + 96 / 100 * @flex_ms R ROps ds.
Proof.
  unfold flex_ms. rewrite fold_left_app. cbn [fold_left]. rewrite sofdec_4_2, sofdec_96_2. reflexivity.
Qed.
Lemma flex_ms_nil : @flex_ms R ROps [] = 0.
Proof. reflexivity. Qed.
Lemma flex_ms_nonneg ds : 0 <= @flex_ms R ROps ds.
Proof.
  induction ds as [|d ds IH] using rev_ind; [rewrite flex_ms_nil; lra|].
  rewrite flex_ms_snoc. pose proof (Rle_0_sqr d) as Hd. unfold Rsqr in Hd. lra.
Qed.

(** the model's normalisation step in terms of the deviation sequence *)
Lemma flex_norm_R (s : @flex_st R) q v d reflex ds : fx_lastm s = @flex_ms R ROps ds ->
  @flex_norm R ROps s q v d reflex =
  Ok {| fx_lastval := v; fx_lastm := @flex_ms R ROps (ds ++ [d]); fx_q := q;
        fx_out := match @flex_val R ROps (ds ++ [d]) with
                  | Some o => Some o
                  | None => if reflex then fx_out s else Some 0
                  end |}.
Proof.
  intros Hm. unfold flex_norm, flex_val. rewrite last_snoc.
  assert (Hms : @sadd R ROps (@smul R ROps (@sofdec R ROps 4 2) (@ssq R ROps d))
                             (@smul R ROps (@sofdec R ROps 96 2) (fx_lastm s))
                = @flex_ms R ROps (ds ++ [d])).
  { rewrite flex_ms_snoc, Hm, sofdec_4_2, sofdec_96_2. reflexivity. }
  rewrite Hms. set (m := @flex_ms R ROps (ds ++ [d])). clearbody m.
  unfold sgtb. cbn [sltb s0 ROps]. destruct (Rltb 0 m) eqn:E.
  - apply Rltb_true in E. cbn [ssqrt ROps]. destruct (Rlt_dec m 0) as [H|H]; [lra|]. cbn [bind].
    assert (Hs : sqrt m <> 0) by (pose proof (sqrt_lt_R0 m E); lra).
    rewrite sdiv_sdivd by exact Hs. cbn [bind]. unfold ssqrtd, totd. cbn [ssqrt ROps].
    destruct (Rlt_dec m 0); [lra|]. reflexivity.
  - reflexivity.
Qed.

(** * invariants *)
Definition flex_inv (devs : nat -> list R -> list R) (spec : nat -> list R -> option R)
           (n : nat) (h : list R) (s : @flex_st R) : Prop :=
  fx_q s = lastn n (@ss_filts R ROps n h) /\
  (h <> [] -> fx_lastval s = last h 0) /\
  fx_lastm s = @flex_ms R ROps (devs n h) /\
  fx_out s = spec n h.

Lemma lastn_nil_iff {A} n (l : list A) : (1 <= n)%nat -> lastn n l = [] -> l = [].
Proof.
  intros Hn H. apply (f_equal (@length A)) in H. rewrite lastn_length in H. cbn in H.
  destruct l; [reflexivity | cbn in H; lia].
Qed.

(** the part shared by both steps: previous input, eviction, filter, push *)
Lemma flex_lastval n devs spec h s v : (1 <= n)%nat -> flex_inv devs spec n h s ->
  match fx_q s with [] => v | _ => fx_lastval s end = last h v.
Proof.
  intros Hn (Hq & Hl & _ & _). rewrite Hq.
  destruct (lastn n (@ss_filts R ROps n h)) eqn:E.
  - apply lastn_nil_iff in E; [|exact Hn]. apply (f_equal (@length R)) in E. rewrite ss_filts_length in E.
    destruct h; [reflexivity | discriminate].
  - assert (Hne : h <> []) by (intros ->; rewrite ss_filts_nil, lastn_nil in E; discriminate).
    rewrite (Hl Hne). destruct h as [|a h _] using rev_ind; [congruence|]. rewrite !last_snoc. reflexivity.
Qed.

Lemma last_lastn {A} n (l : list A) d : (1 <= n)%nat -> last (lastn n l) d = last l d.
Proof.
  intros Hn. destruct l as [|a l _] using rev_ind; [rewrite lastn_nil; reflexivity|].
  rewrite <- (lastn_snoc_pred n l a Hn), !last_snoc. reflexivity.
Qed.

Lemma tf_dsum_R n (F : list R) (f : R) :
  fold_left (fun acc fj => @sadd R ROps acc (@ssub R ROps f fj)) (rev (lastn n (F ++ [f]))) 0
  = @ssum R ROps (map (fun fj => @ssub R ROps (last (F ++ [f]) 0) fj) (lastn n (F ++ [f]))).
Proof.
  rewrite last_snoc. cbn [sadd ssub ROps].
  rewrite (fold_left_acc_sum (fun fj => f - fj)). rewrite map_rev, ssum_R_rev. lra.
Qed.

Lemma trendflex_step_inv n h s v : (1 <= n)%nat ->
  flex_inv (@tf_devs R ROps) (@spec_trendflex R ROps) n h s ->
  exists s', @trendflex_step R ROps n s v = Ok s' /\
             flex_inv (@tf_devs R ROps) (@spec_trendflex R ROps) n (h ++ [v]) s'.
Proof.
  intros Hn Hi. pose proof (flex_lastval n _ _ h s v Hn Hi) as Hlv. destruct Hi as (Hq & Hl & Hm & Ho).
  assert (Hnz : INR n <> 0) by (apply INR_pos_neq; lia).
  unfold trendflex_step. rewrite Hlv, evict_eq, Hq, (evict_lastn n _ Hn), (flex_coefs_R n Hn).
  cbn [bind]. rewrite flex_filt_R. cbn [bind].
  rewrite (lastn_snoc_pred n _ _ Hn), <- ss_filts_snoc.
  cbn [sofnat ROps]. rewrite sdiv_sdivd by exact Hnz. cbn [bind].
  rewrite (flex_norm_R s _ v _ false (@tf_devs R ROps n h) Hm).
  eexists; split; [reflexivity|].
  assert (Hd : @sdivd R ROps (fold_left (fun acc f => @sadd R ROps acc
                 (@ssub R ROps (@ss_next R ROps n (@ss_filts R ROps n h) (last h v) v) f))
                 (rev (lastn n (@ss_filts R ROps n (h ++ [v])))) s0) (INR n)
               = @tf_dev R ROps n (@ss_filts R ROps n (h ++ [v]))).
  { rewrite ss_filts_snoc. cbn [s0 ROps]. rewrite tf_dsum_R. reflexivity. }
  rewrite Hd, <- tf_devs_snoc.
  split; [|split; [|split]]; cbn [fx_q fx_lastval fx_lastm fx_out].
  - reflexivity.
  - intros _. rewrite last_snoc. reflexivity.
  - reflexivity.
  - unfold spec_trendflex. destruct (h ++ [v]) eqn:E; [destruct h; discriminate|]. rewrite <- E.
    destruct (@flex_val R ROps (@tf_devs R ROps n (h ++ [v]))); reflexivity.
Qed.

(** C11 (TrendFlex): the output equals the batch evaluation of the difference equations *)
Theorem trendflex_closed_form n vs : (1 <= n)%nat ->
  cout (@trendflex_core R ROps n) vs = Ok (@spec_trendflex R ROps n vs).
Proof.
  intros Hn.
  destruct (@crun_inv R (@trendflex_core R ROps n) (fun _ => True)
              (flex_inv (@tf_devs R ROps) (@spec_trendflex R ROps) n) (@flex_new R ROps)) with (vs := vs)
    as [s [Hr (_ & _ & _ & Ho)]].
  - reflexivity.
  - repeat split.
  - intros h s v _ _ Hi. apply trendflex_step_inv; assumption.
  - apply Forall_forall; trivial.
  - unfold cout. rewrite Hr. cbn [bind clast trendflex_core]. rewrite Ho. reflexivity.
Qed.

(** * ReFlex *)
Lemma reflex_sum_R (l : list R) i f sl acc :
  @reflex_sum R ROps l i f sl acc
  = acc + @ssum R ROps (map (fun p => @ssub R ROps (@sadd R ROps f (@smul R ROps (@sofnat R ROps (fst p)) sl)) (snd p))
                            (combine (seq i (length l)) l)).
Proof.
  revert i acc; induction l as [|x l IH]; intros i acc; cbn [reflex_sum length seq combine map].
  - rewrite ssum_R_nil. lra.
  - rewrite IH, ssum_R_cons. cbn [fst snd sadd ssub smul sofnat ROps]. lra.
Qed.

Lemma front_hd (q : list R) : q <> [] -> front q = Ok (hd 0 q).
Proof. destruct q; [congruence | reflexivity]. Qed.

Lemma reflex_step_inv n h s v : (1 <= n)%nat ->
  flex_inv (@rf_devs R ROps) (@spec_reflex R ROps) n h s ->
  exists s', @reflex_step R ROps n s v = Ok s' /\
             flex_inv (@rf_devs R ROps) (@spec_reflex R ROps) n (h ++ [v]) s'.
Proof.
  intros Hn Hi. pose proof (flex_lastval n _ _ h s v Hn Hi) as Hlv. destruct Hi as (Hq & Hl & Hm & Ho).
  assert (Hnz : INR n <> 0) by (apply INR_pos_neq; lia).
  unfold reflex_step. rewrite Hlv, evict_eq, Hq, (evict_lastn n _ Hn), (flex_coefs_R n Hn).
  cbn [bind]. rewrite flex_filt_R. cbn [bind].
  rewrite (lastn_snoc_pred n _ _ Hn), <- ss_filts_snoc.
  rewrite front_hd.
  2:{ intros E. apply lastn_nil_iff in E; [|exact Hn]. apply (f_equal (@length R)) in E.
      rewrite ss_filts_length, app_length in E. cbn in E. lia. }
  cbn [bind sofnat ROps]. rewrite sdiv_sdivd by exact Hnz. cbn [bind].
  rewrite sdiv_sdivd by exact Hnz. cbn [bind].
  rewrite (flex_norm_R s _ v _ true (@rf_devs R ROps n h) Hm).
  eexists; split; [reflexivity|].
  set (f := @ss_next R ROps n (@ss_filts R ROps n h) (last h v) v).
  assert (Hf : f = last (@ss_filts R ROps n (h ++ [v])) 0) by (rewrite ss_filts_snoc, last_snoc; reflexivity).
  assert (Hd : @sdivd R ROps (@reflex_sum R ROps (rev (lastn n (@ss_filts R ROps n (h ++ [v])))) 0 f
                 (@sdivd R ROps (@ssub R ROps (hd 0 (lastn n (@ss_filts R ROps n (h ++ [v])))) f) (INR n)) s0) (INR n)
               = @rf_dev R ROps n (@ss_filts R ROps n (h ++ [v]))).
  { rewrite reflex_sum_R, rev_length. unfold rf_dev. cbv zeta. cbn [s0 sofnat ROps]. rewrite <- Hf. f_equal. lra. }
  rewrite Hd, <- rf_devs_snoc.
  split; [|split; [|split]]; cbn [fx_q fx_lastval fx_lastm fx_out].
  - reflexivity.
  - intros _. rewrite last_snoc. reflexivity.
  - reflexivity.
  - unfold spec_reflex. rewrite rf_devs_snoc at 2. rewrite hold_last_snoc, <- rf_devs_snoc, Ho. reflexivity.
Qed.

(** C11 (ReFlex) *)
Theorem reflex_closed_form n vs : (1 <= n)%nat ->
  cout (@reflex_core R ROps n) vs = Ok (@spec_reflex R ROps n vs).
Proof.
  intros Hn.
  destruct (@crun_inv R (@reflex_core R ROps n) (fun _ => True)
              (flex_inv (@rf_devs R ROps) (@spec_reflex R ROps) n) (@flex_new R ROps)) with (vs := vs)
    as [s [Hr (_ & _ & _ & Ho)]].
  - reflexivity.
  - repeat split.
  - intros h s v _ _ Hi. apply reflex_step_inv; assumption.
  - apply Forall_forall; trivial.
  - unfold cout. rewrite Hr. cbn [bind clast reflex_core]. rewrite Ho. reflexivity.
Qed.

(** * C07-style range: |d / sqrt ms| <= 5 because ms >= 0.04 d^2 *)
Lemma flex_val_bound ds o : @flex_val R ROps ds = Some o -> Rabs o <= 5.
Proof.
  unfold flex_val. unfold sgtb. cbn [sltb s0 ROps].
  destruct (Rltb 0 (@flex_ms R ROps ds)) eqn:E; [|discriminate].
  apply Rltb_true in E. intros H. inversion H; subst o; clear H.
  destruct ds as [|d ds _] using rev_ind; [rewrite flex_ms_nil in E; lra|].
  rewrite last_snoc. rewrite flex_ms_snoc in *.
  pose proof (flex_ms_nonneg ds) as Hp. set (mp := @flex_ms R ROps ds) in *. clearbody mp.
  set (m := 4 / 100 * (d * d) + 96 / 100 * mp) in *.
  unfold ssqrtd, totd. cbn [ssqrt ROps]. destruct (Rlt_dec m 0) as [Hlt|_]; [lra|].
  pose proof (sqrt_lt_R0 m E) as Hr. pose proof (sqrt_sqrt m (Rlt_le _ _ E)) as Hrr.
  set (r := sqrt m) in *. clearbody r.
  rewrite sdivd_R by lra. unfold Rdiv. rewrite Rabs_mult, (Rabs_pos_eq (/ r)) by (left; apply Rinv_0_lt_compat; exact Hr).
  apply (Rmult_le_reg_r r); [exact Hr|]. rewrite Rmult_assoc, Rinv_l, Rmult_1_r by lra.
  pose proof (Rabs_pos d) as Ha. assert (Hsq : Rabs d * Rabs d = d * d).
  { unfold Rabs. destruct (Rcase_abs d); ring. }
  set (ad := Rabs d) in *. clearbody ad. subst m.
  destruct (Rle_dec ad (5 * r)) as [Hle|Hgt]; [exact Hle|]. exfalso.
  assert (Hgt' : 5 * r < ad) by lra.
  assert (H1 : (5 * r) * (5 * r) < ad * ad) by (apply Rmult_le_0_lt_compat; lra). nra.
Qed.

(** C07 (TrendFlex): every reported value is in [-5, 5] *)
Theorem trendflex_range n vs y : (1 <= n)%nat ->
  cout (@trendflex_core R ROps n) vs = Ok (Some y) -> Rabs y <= 5.
Proof.
  intros Hn H. rewrite (trendflex_closed_form n vs Hn) in H. inversion H as [H1]; clear H.
  unfold spec_trendflex in H1. destruct vs as [|x vs]; [discriminate|].
  destruct (@flex_val R ROps (@tf_devs R ROps n (x :: vs))) as [o|] eqn:E; inversion H1; subst y.
  - eapply flex_val_bound; exact E.
  - rewrite Rabs_R0. lra.
Qed.

Lemma hold_last_bound {A} (f : list A -> option R) (P : R -> Prop) :
  (forall l y, f l = Some y -> P y) -> forall l y, @hold_last R A f l = Some y -> P y.
Proof.
  intros Hf l. induction l as [|a l IH] using rev_ind; intros y H; [discriminate|].
  rewrite hold_last_snoc in H. destruct (f (l ++ [a])) as [z|] eqn:E.
  - inversion H; subst. eapply Hf; exact E.
  - apply IH; exact H.
Qed.

(** the same bound for ReFlex *)
Theorem reflex_range n vs y : (1 <= n)%nat ->
  cout (@reflex_core R ROps n) vs = Ok (Some y) -> Rabs y <= 5.
Proof.
  intros Hn H. rewrite (reflex_closed_form n vs Hn) in H. inversion H as [H1]; clear H.
  unfold spec_reflex in H1.
  exact (hold_last_bound (@flex_val R ROps) (fun y => Rabs y <= 5) flex_val_bound _ _ H1).
Qed.

(** * C12: scaling.  The filter and the deviations are linear in the input, ms is quadratic, the test
    ms > 0 is scale invariant, so the output is multiplied by the sign of the factor - for every
    history, including the 0/0 steps (ms = 0), where both streams take the same fallback branch. *)
Lemma lastn_map {A B} (f : A -> B) n (l : list A) : lastn n (map f l) = map f (lastn n l).
Proof. unfold lastn. rewrite map_length, skipn_map. reflexivity. Qed.
Lemma last_map {A B} (f : A -> B) (l : list A) d : last (map f l) (f d) = f (last l d).
Proof.
  destruct l as [|x l _] using rev_ind; [reflexivity|]. rewrite map_app. cbn [map]. rewrite !last_snoc. reflexivity.
Qed.
Lemma last_map_scale a (l : list R) : last (map (Rmult a) l) 0 = a * last l 0.
Proof. rewrite <- (last_map (Rmult a)). f_equal. lra. Qed.
Lemma prefixes_map {A B} (f : A -> B) (l : list A) : prefixes (map f l) = map (map f) (prefixes l).
Proof.
  unfold prefixes. rewrite map_length, map_map. apply map_ext. intros k. apply firstn_map.
Qed.
Lemma combine_map_r {A B C} (f : B -> C) (l : list A) (l' : list B) :
  combine l (map f l') = map (fun p => (fst p, f (snd p))) (combine l l').
Proof.
  revert l'; induction l as [|x l IH]; intros [|y l']; cbn; try reflexivity. rewrite IH. reflexivity.
Qed.
Lemma sdivd_scale a x b : @sdivd R ROps (a * x) b = a * @sdivd R ROps x b.
Proof.
  unfold sdivd. cbn [sdiv ROps]. unfold Rdiv_res. destruct (Req_EM_T b 0); cbn [s0 ROps]; [lra|].
  unfold Rdiv. ring.
Qed.

Lemma ss_next_scale n a F xp x :
  @ss_next R ROps n (map (Rmult a) F) (a * xp) (a * x) = a * @ss_next R ROps n F xp x.
Proof.
  unfold ss_next. rewrite lastn_map, <- map_rev.
  assert (Hh : @sdivd R ROps (@smul R ROps (@ss_c1 R ROps n) (@sadd R ROps (a * x) (a * xp))) (@s2 R ROps)
               = a * @sdivd R ROps (@smul R ROps (@ss_c1 R ROps n) (@sadd R ROps x xp)) (@s2 R ROps)).
  { rewrite <- sdivd_scale. f_equal. cbn [smul sadd ROps]. ring. }
  rewrite Hh. destruct (rev (lastn (n - 1) F)) as [|f1 [|f2 r]]; cbn [map sadd smul ROps]; ring.
Qed.

Lemma ss_filts_scale n a h :
  @ss_filts R ROps n (map (Rmult a) h) = map (Rmult a) (@ss_filts R ROps n h).
Proof.
  induction h as [|x h IH] using rev_ind; [reflexivity|].
  rewrite map_app. cbn [map]. rewrite !ss_filts_snoc, IH, map_app. cbn [map]. f_equal. f_equal.
  rewrite (last_map (Rmult a)). apply ss_next_scale.
Qed.

Lemma tf_dev_scale n a F : @tf_dev R ROps n (map (Rmult a) F) = a * @tf_dev R ROps n F.
Proof.
  unfold tf_dev. cbn [s0 ROps]. rewrite last_map_scale, lastn_map, map_map, <- sdivd_scale. f_equal.
  rewrite <- (ssum_R_map_scale (fun fj => last F 0 - fj)). f_equal. apply map_ext. intros fj.
  cbn [ssub ROps]. ring.
Qed.

Lemma rf_dev_scale n a F : @rf_dev R ROps n (map (Rmult a) F) = a * @rf_dev R ROps n F.
Proof.
  unfold rf_dev. cbv zeta. cbn [s0 ROps]. rewrite last_map_scale, lastn_map, map_length, <- map_rev.
  rewrite combine_map_r, map_map, <- sdivd_scale. f_equal.
  set (w := lastn n F). set (f := last F 0).
  assert (Hs : @sdivd R ROps (@ssub R ROps (hd 0 (map (Rmult a) w)) (a * f)) (@sofnat R ROps n)
               = a * @sdivd R ROps (@ssub R ROps (hd 0 w) f) (@sofnat R ROps n)).
  { rewrite <- sdivd_scale. f_equal. cbn [ssub ROps]. destruct w; cbn [map hd]; ring. }
  rewrite Hs.
  rewrite <- (ssum_R_map_scale (fun p => @ssub R ROps (@sadd R ROps f (@smul R ROps (@sofnat R ROps (fst p))
                 (@sdivd R ROps (@ssub R ROps (hd 0 w) f) (@sofnat R ROps n)))) (snd p))).
  f_equal. apply map_ext. intros p. cbn [fst snd ssub sadd smul ROps]. ring.
Qed.

Lemma tf_devs_scale n a h : @tf_devs R ROps n (map (Rmult a) h) = map (Rmult a) (@tf_devs R ROps n h).
Proof.
  unfold tf_devs. rewrite ss_filts_scale, prefixes_map, !map_map. apply map_ext. intros F. apply tf_dev_scale.
Qed.
Lemma rf_devs_scale n a h : @rf_devs R ROps n (map (Rmult a) h) = map (Rmult a) (@rf_devs R ROps n h).
Proof.
  unfold rf_devs. rewrite ss_filts_scale, prefixes_map, !map_map. apply map_ext. intros F. apply rf_dev_scale.
Qed.

Lemma flex_ms_scale a ds : @flex_ms R ROps (map (Rmult a) ds) = a * a * @flex_ms R ROps ds.
Proof.
  induction ds as [|d ds IH] using rev_ind; [cbn [map]; rewrite flex_ms_nil; lra|].
  rewrite map_app. cbn [map]. rewrite !flex_ms_snoc, IH. ring.
Qed.

(** the sign of a non-zero factor *)
Definition sg (a : R) : R := a / Rabs a.
Lemma sg_pos a : 0 < a -> sg a = 1.
Proof. intros H. unfold sg. rewrite Rabs_pos_eq by lra. field. lra. Qed.
Lemma sg_neg a : a < 0 -> sg a = -1.
Proof. intros H. unfold sg. rewrite Rabs_left by lra. field. lra. Qed.

Lemma flex_val_scale a ds : a <> 0 ->
  @flex_val R ROps (map (Rmult a) ds) = option_map (Rmult (sg a)) (@flex_val R ROps ds).
Proof.
  intros Ha. unfold flex_val. cbv zeta. rewrite flex_ms_scale. cbn [s0 ROps]. rewrite last_map_scale.
  pose proof (flex_ms_nonneg ds) as Hp. set (m := @flex_ms R ROps ds) in *. clearbody m.
  assert (Haa : 0 < a * a) by nra.
  unfold sgtb. cbn [sltb ROps].
  destruct (Rltb 0 m) eqn:E.
  - apply Rltb_true in E. assert (E' : Rltb 0 (a * a * m) = true) by (apply Rltb_true; nra).
    rewrite E'. cbn [option_map]. f_equal.
    unfold ssqrtd, totd. cbn [ssqrt ROps].
    destruct (Rlt_dec (a * a * m) 0) as [H|_]; [nra|]. destruct (Rlt_dec m 0) as [H|_]; [lra|].
    rewrite sqrt_mult by lra. replace (a * a) with (Rsqr a) by reflexivity. rewrite sqrt_Rsqr_abs.
    pose proof (sqrt_lt_R0 m E) as Hr. pose proof (Rabs_pos_lt a Ha) as Hab.
    rewrite !sdivd_R by nra. unfold sg. field. split; lra.
  - apply Rltb_false in E. assert (E' : Rltb 0 (a * a * m) = false) by (apply Rltb_false; nra).
    rewrite E'. reflexivity.
Qed.

Lemma spec_trendflex_scale n a h : a <> 0 ->
  @spec_trendflex R ROps n (map (Rmult a) h) = option_map (Rmult (sg a)) (@spec_trendflex R ROps n h).
Proof.
  intros Ha. unfold spec_trendflex. rewrite tf_devs_scale, (flex_val_scale a _ Ha).
  destruct h as [|x h]; [reflexivity|]. cbn [map option_map]. f_equal.
  destruct (@flex_val R ROps (@tf_devs R ROps n (x :: h))); cbn [option_map s0 ROps]; [reflexivity | lra].
Qed.

Lemma hold_flex_val_scale a ds : a <> 0 ->
  @hold_last R R (@flex_val R ROps) (map (Rmult a) ds)
  = option_map (Rmult (sg a)) (@hold_last R R (@flex_val R ROps) ds).
Proof.
  intros Ha. induction ds as [|d ds IH] using rev_ind; [reflexivity|].
  rewrite map_app. cbn [map]. rewrite !hold_last_snoc, IH.
  replace (map (Rmult a) ds ++ [a * d]) with (map (Rmult a) (ds ++ [d])) by (rewrite map_app; reflexivity).
  rewrite (flex_val_scale a _ Ha). destruct (@flex_val R ROps (ds ++ [d])); reflexivity.
Qed.

Lemma spec_reflex_scale n a h : a <> 0 ->
  @spec_reflex R ROps n (map (Rmult a) h) = option_map (Rmult (sg a)) (@spec_reflex R ROps n h).
Proof. intros Ha. unfold spec_reflex. rewrite rf_devs_scale. apply hold_flex_val_scale; exact Ha. Qed.

Lemma option_map_id {A} (f : A -> A) (o : option A) : (forall x, f x = x) -> option_map f o = o.
Proof. intros H. destruct o; cbn; [rewrite H|]; reflexivity. Qed.

(** C12 (TrendFlex): unchanged under x -> a*x, a > 0, at every step (no side condition: the test ms > 0
    is itself scale invariant, and at ms = 0 both streams report 0) *)
Theorem trendflex_scale_invariant n a vs : (1 <= n)%nat -> 0 < a ->
  cout (@trendflex_core R ROps n) (map (Rmult a) vs) = cout (@trendflex_core R ROps n) vs.
Proof.
  intros Hn Ha. rewrite !trendflex_closed_form by exact Hn. f_equal.
  rewrite spec_trendflex_scale by lra. apply option_map_id. intros x. rewrite sg_pos by exact Ha. lra.
Qed.

(** C12 (TrendFlex): negated under x -> -x (more generally x -> a*x, a < 0) *)
Theorem trendflex_negate n vs : (1 <= n)%nat ->
  cout (@trendflex_core R ROps n) (map Ropp vs)
  = match cout (@trendflex_core R ROps n) vs with Ok o => Ok (option_map Ropp o) | Err e => Err e end.
Proof.
  intros Hn. rewrite !trendflex_closed_form by exact Hn. f_equal.
  replace (map Ropp vs) with (map (Rmult (-1)) vs) by (apply map_ext; intros; lra).
  rewrite spec_trendflex_scale by lra. rewrite sg_neg by lra.
  destruct (@spec_trendflex R ROps n vs); cbn [option_map]; [f_equal; lra | reflexivity].
Qed.

Theorem trendflex_neg_scale n a vs : (1 <= n)%nat -> a < 0 ->
  cout (@trendflex_core R ROps n) (map (Rmult a) vs)
  = Ok (option_map Ropp (@spec_trendflex R ROps n vs)).
Proof.
  intros Hn Ha. rewrite !trendflex_closed_form by exact Hn. f_equal.
  rewrite spec_trendflex_scale by lra. rewrite sg_neg by lra.
  destruct (@spec_trendflex R ROps n vs); cbn [option_map]; [f_equal; lra | reflexivity].
Qed.

(** C12 (ReFlex): unchanged under x -> a*x, a > 0 (when ms = 0 both streams keep their previous output) *)
Theorem reflex_scale_invariant n a vs : (1 <= n)%nat -> 0 < a ->
  cout (@reflex_core R ROps n) (map (Rmult a) vs) = cout (@reflex_core R ROps n) vs.
Proof.
  intros Hn Ha. rewrite !reflex_closed_form by exact Hn. f_equal.
  rewrite spec_reflex_scale by lra. apply option_map_id. intros x. rewrite sg_pos by exact Ha. lra.
Qed.

(** C12 (ReFlex): negated under x -> -x *)
Theorem reflex_negate n vs : (1 <= n)%nat ->
  cout (@reflex_core R ROps n) (map Ropp vs)
  = match cout (@reflex_core R ROps n) vs with Ok o => Ok (option_map Ropp o) | Err e => Err e end.
Proof.
  intros Hn. rewrite !reflex_closed_form by exact Hn. f_equal.
  replace (map Ropp vs) with (map (Rmult (-1)) vs) by (apply map_ext; intros; lra).
  rewrite spec_reflex_scale by lra. rewrite sg_neg by lra.
  destruct (@spec_reflex R ROps n vs); cbn [option_map]; [f_equal; lra | reflexivity].
Qed.

(** hypotheses are satisfiable *)
Example trendflex_closed_form_ex :
  cout (@trendflex_core R ROps 3) [1; 2; 4] = Ok (@spec_trendflex R ROps 3 [1; 2; 4]).
Proof. apply trendflex_closed_form. lia. Qed.
Example reflex_closed_form_ex :
  cout (@reflex_core R ROps 3) [1; 2; 4] = Ok (@spec_reflex R ROps 3 [1; 2; 4]).
Proof. apply reflex_closed_form. lia. Qed.
Example flex_scale_ex :
  cout (@trendflex_core R ROps 3) (map (Rmult 2) [1; 2; 4]) = cout (@trendflex_core R ROps 3) [1; 2; 4] /\
  cout (@reflex_core R ROps 3) (map (Rmult 2) [1; 2; 4]) = cout (@reflex_core R ROps 3) [1; 2; 4].
Proof. split; [apply trendflex_scale_invariant | apply reflex_scale_invariant]; (lia || lra). Qed.

Print Assumptions trendflex_closed_form.
Print Assumptions reflex_closed_form.
Print Assumptions trendflex_range.
Print Assumptions reflex_range.
Print Assumptions trendflex_scale_invariant.
Print Assumptions trendflex_negate.
Print Assumptions trendflex_neg_scale.
Print Assumptions reflex_scale_invariant.
Print Assumptions reflex_negate.
