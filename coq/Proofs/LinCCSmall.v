(** CyberCycle with small windows (recorded findings): for n in {4,5} a non-zero constant input is NOT
    sent to 0 (the smooth lags at window positions < 3 are taken as 0, so the forcing term is a non-zero
    constant); for n = 3 the output is identically 0 whatever the input. *)
From Coq Require Import List Arith Lia ZArith Reals Lra.
From SF Require Import Res Scalar View Models Spec Core SpecLin.
From SF.Proofs Require Import Window RBase LinBase LinCC LinDC.
Import ListNotations.
Open Scope R_scope.
Local Existing Instance ROps.

(** the values of the batch recursion on a constant stream do not depend on how long the stream is *)
Lemma ccb_upto_repeat sm n al c k d : sm_causal sm ->
  ccb_upto sm n al (repeat c (k + d)) k = ccb_upto sm n al (repeat c k) k.
Proof.
  intros Hc. induction d as [|d IH]; [rewrite Nat.add_0_r; reflexivity|].
  replace (k + S d)%nat with (S (k + d)) by lia. rewrite repeat_snoc.
  rewrite ccb_upto_app by (assumption || rewrite repeat_length; lia). exact IH.
Qed.

Definition cyc (n : nat) (c : R) (L k : nat) : R :=
  fst (ccb_upto (ccb_gsmooth n) n (@ccb_alpha R ROps n) (repeat c L) k).

Lemma cyc_snd n c L k :
  snd (ccb_upto (ccb_gsmooth n) n (@ccb_alpha R ROps n) (repeat c L) (S k)) = cyc n c L k.
Proof. reflexivity. Qed.

Lemma cout_cyc n c k : (3 <= n)%nat ->
  cout (@cyber_core R ROps n) (repeat c (S k)) = Ok (Some (cyc n c (S k) (S k))).
Proof.
  intros Hn. rewrite cyber_closed_form_gen by exact Hn. unfold spec_cyber_gen, ccb_out.
  rewrite repeat_length. reflexivity.
Qed.

Lemma cyc_indep n c k d : cyc n c (k + d) k = cyc n c k k.
Proof. unfold cyc. rewrite ccb_upto_repeat by apply ccb_gsmooth_causal. reflexivity. Qed.

Lemma ccb_smooth_repeat c L t j : (j + 3 <= t)%nat -> (t < L)%nat -> ccb_smooth (repeat c L) t j = c.
Proof. intros H1 H2. apply ccb_smooth_const. intros i Hi. apply lagx_repeat; lia. Qed.

(** n = 4: constant forcing (1-alpha/2)^2 c = 16c/25, alpha = 2/5 *)
Lemma cyc4_rec c L k : (3 <= k)%nat -> (S k < L)%nat ->
  cyc 4 c L (S (S k)) = 16 / 25 * c + 6 / 5 * cyc 4 c L (S k) - 9 / 25 * cyc 4 c L k.
Proof.
  intros Hk HL. unfold cyc at 1. rewrite ccb_upto_S. cbn [fst]. rewrite cyc_snd. fold (cyc 4 c L (S k)).
  destruct (Nat.ltb_spec (S (S k)) 4); [lia|]. rewrite ccb_eq_R, ccb_alpha_R.
  unfold ccb_gsmooth. cbn [Nat.sub Nat.ltb Nat.leb]. rewrite ccb_smooth_repeat by lia.
  cbn [s0 ROps]. replace (INR 4) with 4 by (cbn; lra). field.
Qed.

(** n = 5: constant forcing -(1-alpha/2)^2 c = -25c/36, alpha = 1/3 *)
Lemma cyc5_rec c L k : (3 <= k)%nat -> (S k < L)%nat ->
  cyc 5 c L (S (S k)) = - (25 / 36) * c + 4 / 3 * cyc 5 c L (S k) - 4 / 9 * cyc 5 c L k.
Proof.
  intros Hk HL. unfold cyc at 1. rewrite ccb_upto_S. cbn [fst]. rewrite cyc_snd. fold (cyc 5 c L (S k)).
  destruct (Nat.ltb_spec (S (S k)) 5); [lia|]. rewrite ccb_eq_R, ccb_alpha_R.
  unfold ccb_gsmooth. cbn [Nat.sub Nat.ltb Nat.leb]. rewrite !ccb_smooth_repeat by lia.
  cbn [s0 ROps]. replace (INR 5) with 5 by (cbn; lra). field.
Qed.

(** three consecutive small values force a small forcing term *)
Lemma forcing_small F p q y0 y1 y2 e :
  y2 = F + p * y1 - q * y0 -> 0 <= p <= 2 -> 0 <= q <= 1 ->
  Rabs y0 < e -> Rabs y1 < e -> Rabs y2 < e -> Rabs F < 4 * e.
Proof.
  intros E Hp Hq H0 H1 H2. apply Rabs_def2 in H0, H1, H2. apply Rabs_def1; nra.
Qed.

Definition tends_to_0 (f : nat -> res (option R)) : Prop :=
  forall eps, 0 < eps -> exists T0, forall t o, (T0 <= t)%nat -> f t = Ok (Some o) -> Rabs o < eps.

(** C10 fails for CyberCycle with n in {4,5}: on a constant non-zero input the output does not tend
    to 0 (witness: any c <> 0; the forcing term stays at 16c/25, resp. -25c/36) *)
Theorem cyber_small_n_dc_refuted n c : (n = 4 \/ n = 5)%nat -> c <> 0 ->
  ~ tends_to_0 (fun t => cout (@cyber_core R ROps n) (repeat c t)).
Proof.
  intros Hn Hc Hlim.
  assert (He : 0 < Rabs c / 10) by (pose proof (Rabs_pos_lt c Hc); lra).
  destruct (Hlim (Rabs c / 10) He) as [T0 HT].
  set (k := (T0 + 3)%nat).
  assert (Hy : forall i, (i <= 2)%nat -> Rabs (cyc n c (k + 2) (k + i)) < Rabs c / 10).
  { intros i Hi. replace (k + 2)%nat with ((k + i) + (2 - i))%nat by lia. rewrite cyc_indep.
    apply (HT (k + i)%nat); [lia|]. replace (k + i)%nat with (S (T0 + 2 + i)) by lia.
    apply cout_cyc. lia. }
  pose proof (Hy 0%nat ltac:(lia)) as H0. pose proof (Hy 1%nat ltac:(lia)) as H1.
  pose proof (Hy 2%nat ltac:(lia)) as H2.
  replace (k + 0)%nat with k in H0 by lia. replace (k + 1)%nat with (S k) in H1 by lia.
  replace (k + 2)%nat with (S (S k)) in H0, H1, H2 by lia.
  destruct Hn as [-> | ->].
  - pose proof (cyc4_rec c (S (S k)) k ltac:(lia) ltac:(lia)) as E.
    pose proof (@forcing_small (16 / 25 * c) (6 / 5) (9 / 25) _ _ _ _ E ltac:(lra) ltac:(lra) H0 H1 H2) as HF.
    rewrite Rabs_mult, (Rabs_pos_eq (16 / 25)) in HF by lra. lra.
  - pose proof (cyc5_rec c (S (S k)) k ltac:(lia) ltac:(lia)) as E.
    pose proof (@forcing_small (- (25 / 36) * c) (4 / 3) (4 / 9) _ _ _ _ E ltac:(lra) ltac:(lra) H0 H1 H2) as HF.
    rewrite Rabs_mult, Rabs_Ropp, (Rabs_pos_eq (25 / 36)) in HF by lra. lra.
Qed.

(** the first output with a full window is already non-zero *)
Theorem cyber4_first_output c :
  cout (@cyber_core R ROps 4) (repeat c 4) = Ok (Some (16 / 25 * c)).
Proof.
  rewrite cyber_closed_form_gen by lia. unfold spec_cyber_gen, ccb_out.
  cbn [repeat length]. do 2 f_equal. change [c; c; c; c] with (repeat c 4).
  rewrite ccb_upto_S. cbn [fst Nat.ltb Nat.leb]. rewrite ccb_eq_R, ccb_alpha_R.
  unfold ccb_gsmooth. cbn [Nat.sub Nat.ltb Nat.leb]. rewrite ccb_smooth_repeat by lia.
  cbn [ccb_upto fst snd Nat.ltb Nat.leb s0 ROps]. replace (INR 4) with 4 by (cbn; lra). field.
Qed.

Theorem cyber5_first_output c :
  cout (@cyber_core R ROps 5) (repeat c 5) = Ok (Some (- (25 / 36) * c)).
Proof.
  rewrite cyber_closed_form_gen by lia. unfold spec_cyber_gen, ccb_out.
  cbn [repeat length]. do 2 f_equal. change [c; c; c; c; c] with (repeat c 5).
  rewrite ccb_upto_S. cbn [fst Nat.ltb Nat.leb]. rewrite ccb_eq_R, ccb_alpha_R.
  unfold ccb_gsmooth. cbn [Nat.sub Nat.ltb Nat.leb]. rewrite !ccb_smooth_repeat by lia.
  cbn [ccb_upto fst snd Nat.ltb Nat.leb s0 ROps]. replace (INR 5) with 5 by (cbn; lra). field.
Qed.

(** n = 3 (accepted by the constructor): every smooth lag is at a window position < 3, the output is
    identically 0 for every input *)
Lemma ccb_upto_3 al (h : list R) k : ccb_upto (ccb_gsmooth 3) 3 al h k = (0, 0).
Proof.
  induction k as [|t IH]; [reflexivity|]. rewrite ccb_upto_S, IH. cbn [fst snd].
  destruct (Nat.ltb (S t) 3); [reflexivity|]. rewrite ccb_eq_R. unfold ccb_gsmooth.
  cbn [Nat.sub Nat.ltb Nat.leb s0 ROps]. f_equal. ring.
Qed.

Theorem cyber3_identically_zero x xs : cout (@cyber_core R ROps 3) (x :: xs) = Ok (Some 0).
Proof.
  rewrite cyber_closed_form_gen by lia. unfold spec_cyber_gen, ccb_out. rewrite ccb_upto_3. reflexivity.
Qed.
