(** C16 / C13 at f64 for Drawdown (drawdown.rs), POSITIVE finite inputs: the running peak and the minimum since the peak
    are tracked EXACTLY (comparisons and copies only); every step's drawdown (peak - min) / peak costs two rounded
    operations, is finite, lies in [0, 1], and is within 3 * 2^-53 of the exact one; the answer is the running maximum
    of these, and taking a maximum does not amplify errors: the answer is finite and within 3 * 2^-53 (absolute; the
    exact answer is in [0, 1)) of the exact answer -- for every stream length, with no further side condition
    (no overflow is possible).  The comparison [dd > max_drawdown] itself may differ between the float run and the exact
    run (two drawdowns closer than the rounding error), i.e. the step at which the maximum was attained may differ;
    the value may not, beyond 3u. *)
From Coq Require Import List Arith Lia Reals Lra ZArith Floats Bool.
From SF Require Import Res Scalar View Models Core Spec FloatOps.
From SF.Proofs Require Import FltErr FltBridge Flt2P Flt2B64 Flt2Prim BridgeOps FRangeBase FAccBase.
From Flocq Require Import Core BinarySingleNaN.
Import ListNotations.
Open Scope R_scope.

Local Notation F := PrimFloat.float.
Local Notation fzero := PrimFloat.zero.
Local Notation pos := (fun x : F => ffinite x = true /\ 0 < f2r x).
Local Notation u53 := (/ 9007199254740992).

(** * One drawdown: two roundings, never an overflow *)
Lemma dd_answer pk mn : ffinite pk = true -> ffinite mn = true -> 0 < f2r mn <= f2r pk ->
  let d := PrimFloat.div (PrimFloat.sub pk mn) pk in
  ffinite d = true /\ 0 <= f2r d <= 1 /\ Rabs (f2r d - (f2r pk - f2r mn) / f2r pk) <= 3 * u53.
Proof.
  intros Fp Fm [Hm Hmp]. cbv zeta.
  pose proof BIG_pos as BP. pose proof b64_u_val as Hu. pose proof u_eta as Heta. pose proof b64_eta_nonneg as He0.
  pose proof (f2r_bounds pk) as Bp.
  assert (Hs : 0 <= b64_sub (f2r pk) (f2r mn) <= f2r pk).
  { split; [apply rnd_ge; [exact b64_format_0 | lra] | apply rnd_le; [apply f2r_format | lra]]. }
  destruct (sub_spec pk mn Fp Fm) as [(_ & Fd & Ed)|[(Hr & _)|(Hr & _)]]; [|exfalso; lra|exfalso; lra].
  set (d1 := PrimFloat.sub pk mn) in *.
  assert (Hp0 : f2r pk <> 0) by lra.
  assert (Hq : 0 <= f2r d1 / f2r pk <= 1).
  { rewrite Ed. split.
    - apply Rmult_le_pos; [lra|]. apply Rlt_le, Rinv_0_lt_compat. lra.
    - apply (Rmult_le_reg_r (f2r pk)); [lra|]. unfold Rdiv. rewrite Rmult_assoc, Rinv_l by lra. lra. }
  assert (Hqr : 0 <= b64_div (f2r d1) (f2r pk) <= 1).
  { split; [apply rnd_ge; [exact b64_format_0 | apply Hq] | apply rnd_le; [exact b64_format_1 | apply Hq]]. }
  assert (H1B : 1 < BIG) by (change 1 with (bpow radix2 0); apply bpow_lt; lia).
  destruct (div_spec d1 pk Fd Fp Hp0) as [(_ & Fq & Eq)|[(Hr & _)|(Hr & _)]]; [|exfalso; lra|exfalso; lra].
  split; [exact Fq|]. split; [rewrite Eq; exact Hqr|].
  rewrite Eq. unfold b64_div.
  destruct (rnd_sub_rel (f2r pk) (f2r mn) (f2r_format _) (f2r_format _)) as (e1 & He1 & R1).
  unfold b64_sub in Ed. rewrite R1 in Ed.
  destruct (b64_round_err (f2r d1 / f2r pk)) as (e2 & ee & He2 & Hee & R2). rewrite R2, Ed.
  set (t := (f2r pk - f2r mn) / f2r pk).
  assert (Ht : 0 <= t <= 1).
  { unfold t. split.
    - apply Rmult_le_pos; [lra|]. apply Rlt_le, Rinv_0_lt_compat. lra.
    - apply (Rmult_le_reg_r (f2r pk)); [lra|]. unfold Rdiv. rewrite Rmult_assoc, Rinv_l by lra. lra. }
  replace ((f2r pk - f2r mn) * (1 + e1) / f2r pk * (1 + e2) + ee - t)
    with (t * ((1 + e1) * (1 + e2) - 1) + ee) by (unfold t; field; exact Hp0).
  rewrite Hu in He1, He2, Heta.
  assert (Hu0 : 0 <= u53) by lra.
  pose proof (two_d_small e1 e2 u53 Hu0 ltac:(lra) He1 He2) as H2.
  eapply Rle_trans; [apply Rabs_triang|]. rewrite Rabs_mult, (Rabs_pos_eq t) by lra.
  assert (t * Rabs ((1 + e1) * (1 + e2) - 1) <= 1 * (33 / 16 * u53)).
  { apply Rmult_le_compat; [lra | apply Rabs_pos | lra | exact H2]. }
  lra.
Qed.

(** a maximum does not amplify errors *)
Lemma max_lipschitz a b a' b' e : Rabs (a - a') <= e -> Rabs (b - b') <= e ->
  Rabs ((if Rltb b a then a else b) - (if Rltb b' a' then a' else b')) <= e.
Proof.
  intros Ha Hb. apply Rabs_le_inv' in Ha. apply Rabs_le_inv' in Hb. apply Rabs_le'.
  unfold Rltb. destruct (Rlt_dec b a), (Rlt_dec b' a'); lra.
Qed.

(** * Simulation *)
Lemma if_f2r_dd (b : bool) (x y : F) : (if b then f2r x else f2r y) = f2r (if b then x else y).
Proof. destruct b; reflexivity. Qed.

Definition dd_rel (sf : @dd_st F) (sr : @dd_st R) : Prop :=
  dd_peak sr = option_map f2r (dd_peak sf) /\ dd_min sr = f2r (dd_min sf) /\ ffinite (dd_min sf) = true /\
  (forall p, dd_peak sf = Some p -> ffinite p = true /\ 0 < f2r (dd_min sf) <= f2r p) /\
  ffinite (dd_max sf) = true /\ 0 <= f2r (dd_max sf) <= 1 /\ Rabs (f2r (dd_max sf) - dd_max sr) <= 3 * u53.

Lemma dd_step_sim sf sr v sf' : pos v -> dd_rel sf sr -> @dd_step F FOps sf v = Ok sf' ->
  exists sr', @dd_step R ROps sr (f2r v) = Ok sr' /\ dd_rel sf' sr'.
Proof.
  intros [Fv Pv] (Hp & Hm & Fm & Hpk & Fx & Rx & Hx). unfold dd_step. rewrite Hp, Hm.
  (* peak and minimum: exact *)
  assert (H0 : exists pk mn,
    (let '(pk0, mn0) := match dd_peak sf with None => (v, v) | Some p => if @sgtb F FOps v p then (v, v) else (p, dd_min sf) end in
     (pk0, if @sltb F FOps v mn0 then v else mn0)) = (pk, mn) /\
    (let '(pk0, mn0) := match option_map f2r (dd_peak sf) with None => (f2r v, f2r v)
                        | Some p => if @sgtb R ROps (f2r v) p then (f2r v, f2r v) else (p, f2r (dd_min sf)) end in
     (pk0, if @sltb R ROps (f2r v) mn0 then f2r v else mn0)) = (f2r pk, f2r mn) /\
    ffinite pk = true /\ ffinite mn = true /\ 0 < f2r mn <= f2r pk).
  { destruct (dd_peak sf) as [p|] eqn:Ep; cbn [option_map].
    - destruct (Hpk p eq_refl) as (Fp & Hmn). unfold sgtb. cbn [sltb FOps ROps].
      rewrite (prim_ltb_real p v Fp Fv). destruct (Rltb (f2r p) (f2r v)) eqn:Ec.
      + rewrite (prim_ltb_real v v Fv Fv). replace (Rltb (f2r v) (f2r v)) with false by (symmetry; apply Rltb_false; lra).
        exists v, v. repeat split; try assumption; lra.
      + apply Rltb_false in Ec. rewrite (prim_ltb_real v (dd_min sf) Fv Fm).
        destruct (Rltb (f2r v) (f2r (dd_min sf))) eqn:Ec2.
        * apply Rltb_true in Ec2. exists p, v. repeat split; try assumption; lra.
        * exists p, (dd_min sf). repeat split; try assumption; lra.
    - cbn [sltb FOps ROps]. rewrite (prim_ltb_real v v Fv Fv).
      replace (Rltb (f2r v) (f2r v)) with false by (symmetry; apply Rltb_false; lra).
      exists v, v. repeat split; try assumption; lra. }
  destruct H0 as (pk & mn & EF & ER & Fpk & Fmn & Hord).
  (* rewrite both steps through the pair *)
  assert (EF' : forall (k : F -> F -> res (@dd_st F)),
    (let '(pk0, mn0) := match dd_peak sf with None => (v, v) | Some p => if @sgtb F FOps v p then (v, v) else (p, dd_min sf) end in
     let mn1 := if @sltb F FOps v mn0 then v else mn0 in k pk0 mn1) = k pk mn).
  { intros k. destruct (match dd_peak sf with None => (v, v) | Some p => if @sgtb F FOps v p then (v, v) else (p, dd_min sf) end)
      as [pk0 mn0]. cbv zeta in EF |- *. inversion EF; reflexivity. }
  assert (ER' : forall (k : R -> R -> res (@dd_st R)),
    (let '(pk0, mn0) := match option_map f2r (dd_peak sf) with None => (f2r v, f2r v)
                        | Some p => if @sgtb R ROps (f2r v) p then (f2r v, f2r v) else (p, f2r (dd_min sf)) end in
     let mn1 := if @sltb R ROps (f2r v) mn0 then f2r v else mn0 in k pk0 mn1) = k (f2r pk) (f2r mn)).
  { intros k. destruct (match option_map f2r (dd_peak sf) with None => (f2r v, f2r v)
                        | Some p => if @sgtb R ROps (f2r v) p then (f2r v, f2r v) else (p, f2r (dd_min sf)) end)
      as [pk0 mn0]. cbv zeta in ER |- *. inversion ER; reflexivity. }
  rewrite (EF' (fun pk mn => do dd <- sdiv (ssub pk mn) pk;
                 Ok {| dd_max := if sgtb dd (dd_max sf) then dd else dd_max sf; dd_peak := Some pk; dd_min := mn |})).
  rewrite (ER' (fun pk mn => do dd <- sdiv (ssub pk mn) pk;
                 Ok {| dd_max := if sgtb dd (dd_max sr) then dd else dd_max sr; dd_peak := Some pk; dd_min := mn |})).
  cbn [sdiv ssub FOps ROps bind]. rewrite Rdiv_res_ok by lra. cbn [bind].
  intros H; inversion H; subst sf'; clear H. eexists. split; [reflexivity|].
  destruct (dd_answer pk mn Fpk Fmn Hord) as (Fd & Rd & Hd). cbv zeta in Fd, Rd, Hd.
  set (d := PrimFloat.div (PrimFloat.sub pk mn) pk) in *.
  unfold dd_rel. cbn [dd_max dd_peak dd_min option_map]. split; [reflexivity|]. split; [reflexivity|].
  split; [exact Fmn|]. split; [intros p Hp'; inversion Hp'; subst p; split; [exact Fpk | exact Hord]|].
  unfold sgtb. cbn [sltb FOps ROps]. rewrite (prim_ltb_real _ _ Fx Fd).
  split; [destruct (Rltb (f2r (dd_max sf)) (f2r d)); assumption|].
  split; [destruct (Rltb (f2r (dd_max sf)) (f2r d)); assumption|].
  rewrite <- if_f2r_dd. apply max_lipschitz; assumption.
Qed.

(** after any positive finite history: the exact run succeeds; peak and minimum-since-peak are its, value for value *)
Theorem drawdown_state_exact fs sf : Forall pos fs -> crun (@drawdown_core F FOps) fs = Ok sf ->
  exists sr, crun (@drawdown_core R ROps) (map f2r fs) = Ok sr /\ dd_rel sf sr.
Proof.
  intros Hf Hr.
  apply (@crun_sim F R (@drawdown_core F FOps) (@drawdown_core R ROps) f2r pos dd_rel
           {| dd_max := s0; dd_peak := None; dd_min := s0 |} {| dd_max := s0; dd_peak := None; dd_min := s0 |})
    with (vs := fs); try reflexivity; try assumption.
  - destruct prim_zero_fin as [F0 E0]. unfold dd_rel. cbn [dd_max dd_peak dd_min option_map s0 FOps ROps].
    rewrite E0. repeat split; try assumption; try discriminate; try lra.
    rewrite Rminus_0_r, Rabs_R0. lra.
  - intros sa sb v sa' Pv HR Hs. exact (dd_step_sim sa sb v sa' Pv HR Hs).
Qed.

(** the float run itself never fails (IEEE division) and always answers *)
Lemma dd_cfold_ok fs : forall s, exists s', cfold (@drawdown_core F FOps) s fs = Ok s'.
Proof.
  induction fs as [|v fs IH]; intros s; cbn [cfold]; [eauto|].
  cbn [cstep drawdown_core]. unfold dd_step.
  destruct (match dd_peak s with None => (v, v) | Some p => if sgtb v p then (v, v) else (p, dd_min s) end) as [pk mn].
  cbn [sdiv FOps bind]. apply IH.
Qed.
Theorem drawdown_f64_total fs : exists v, cout (@drawdown_core F FOps) fs = Ok (Some v).
Proof.
  unfold cout, crun. cbn [cnew drawdown_core bind].
  destruct (dd_cfold_ok fs {| dd_max := s0; dd_peak := None; dd_min := s0 |}) as [s' ->]. cbn. eauto.
Qed.

(** C16 / C13 at f64, Drawdown: positive finite inputs: the answer is finite, in [0, 1], and within 3 * 2^-53 of the
    exact answer -- for every stream length, no side condition. *)
Theorem drawdown_f64_accuracy (fs : list F) (v : F) : Forall pos fs ->
  cout (@drawdown_core F FOps) fs = Ok (Some v) ->
  ffinite v = true /\ 0 <= f2r v <= 1 /\
  exists r, cout (@drawdown_core R ROps) (map f2r fs) = Ok (Some r) /\ Rabs (f2r v - r) <= 3 * / 9007199254740992.
Proof.
  intros Hf Hc. unfold cout in Hc |- *.
  destruct (crun (@drawdown_core F FOps) fs) as [sf|e] eqn:Er; [|discriminate]. cbn [bind clast drawdown_core] in Hc.
  destruct (drawdown_state_exact fs sf Hf Er) as (sr & ER & (_ & _ & _ & _ & Fx & Rx & Hx)).
  inversion Hc; subst v. split; [exact Fx|]. split; [exact Rx|].
  rewrite ER. cbn [bind clast drawdown_core]. exists (dd_max sr). split; [reflexivity | exact Hx].
Qed.

(** * Example: the stream of the crate's own unit test *)
Local Set Warnings "-inexact-float".
Example drawdown_f64_accuracy_ex :
  forallb (fun x => ffinite x && PrimFloat.ltb fzero x) [100; 80; 110; 95; 87]%float = true /\
  cout (@drawdown_core F FOps) [100; 80; 110; 95; 87]%float = Ok (Some 0.20909090909090908%float).
Proof. split; vm_compute; reflexivity. Qed.

Print Assumptions drawdown_state_exact.
Print Assumptions drawdown_f64_total.
Print Assumptions drawdown_f64_accuracy.
