(** C09: FADING MEMORY FOR CHAINS of the linear recursive views (Ema, LaguerreFilter, SuperSmoother,
    RoofingFilter, CyberCycle).  "Two streams that become identical from some point on produce outputs
    that converge to each other" -- for a stand-alone view this is [fading_eps] (StabBase); here it is
    lifted to views ([view_fading_eps]) and shown to be preserved by wrapping a linear, BIBO-stable,
    fading core around a linear, eventually-ready, fading view.  The proof: by linearity the difference of
    the two runs is the run on (difference of prefixes ++ zeros); the inner view's answers to that stream
    decay; the outer core's answer is split (again by linearity) into its zero-input response to the early
    inner answers (decays) plus its response to the late, small inner answers (small by the BIBO gain). *)
From Coq Require Import List Arith Lia ZArith Reals Lra.
From SF Require Import Res Scalar View Models Spec Core SpecLin.
From SF.Proofs Require Import Chain Window RBase AvgP LinBase LinLinear SafeD SafeF
  StabBase StabEma StabLag StabSS StabRoof StabCC StabComp Stab2Chain.
Import ListNotations.
Open Scope R_scope.
Local Existing Instance ROps.

(* ------------------------------------------------------------------------------------------------ *)
(** * lists *)

Lemma nth_error_ext_eq {A} (l l' : list A) : (forall t, nth_error l t = nth_error l' t) -> l = l'.
Proof.
  revert l'. induction l as [|x l IH]; intros [|y l'] H.
  - reflexivity.
  - specialize (H 0%nat). discriminate.
  - specialize (H 0%nat). discriminate.
  - pose proof (H 0%nat) as H0. cbn in H0. injection H0 as ->. f_equal. apply IH. intros t. apply (H (S t)).
Qed.

Lemma last_nth_error {A} (l : list A) (d x : A) : l <> [] -> last l d = x -> nth_error l (length l - 1) = Some x.
Proof.
  induction l as [|y l IH]; intros Hne H; [congruence|].
  destruct l as [|z l].
  - cbn in *. congruence.
  - cbn [length]. replace (S (S (length l)) - 1)%nat with (S (length (z :: l) - 1)) by (cbn [length]; lia).
    cbn [nth_error]. apply IH; [discriminate | exact H].
Qed.

Lemma nth_error_last {A} (l : list A) (d x : A) : nth_error l (length l - 1) = Some x -> last l d = x.
Proof.
  induction l as [|y l IH]; intros H; [discriminate|].
  destruct l as [|z l].
  - cbn in *. congruence.
  - cbn [length] in H. replace (S (S (length l)) - 1)%nat with (S (length (z :: l) - 1)) in H by (cbn [length]; lia).
    cbn [nth_error] in H. change (last (y :: z :: l) d) with (last (z :: l) d). apply IH. exact H.
Qed.

Lemma last_some_nth (l : list (option R)) o : last l None = Some o -> nth_error l (length l - 1) = Some (Some o).
Proof. intros H. apply (last_nth_error l None); [intros ->; discriminate | exact H]. Qed.

Lemma last_some_nonnil (l : list (option R)) o : last l None = Some o -> l <> [].
Proof. intros H ->. discriminate. Qed.

Lemma firstn_S_last {A} (l : list A) t x : nth_error l t = Some x -> last (firstn (S t) l) x = x
  /\ forall d, last (firstn (S t) l) d = x.
Proof.
  intros H. assert (E : firstn (S t) l = firstn t l ++ [x]).
  { revert t H. induction l as [|y l IH]; intros [|t] H; try discriminate.
    - cbn in H. injection H as ->. reflexivity.
    - cbn [nth_error] in H. cbn [firstn app]. f_equal. apply IH. exact H. }
  rewrite E. split; [|intros d]; apply last_last.
Qed.

Lemma somes_all_some (l : list (option R)) : (forall o, In o l -> o <> None) -> length (somes l) = length l.
Proof.
  induction l as [|[v|] l IH]; intros H; cbn [somes length].
  - reflexivity.
  - f_equal. apply IH. intros o Ho. apply H. right. exact Ho.
  - exfalso. apply (H None); [left; reflexivity | reflexivity].
Qed.

Lemma in_skipn_nth {A} (l : list A) n x : In x (skipn n l) -> exists i, nth_error l (n + i) = Some x.
Proof.
  intros H. destruct (In_nth_error _ _ H) as [i Hi]. exists i.
  rewrite <- (firstn_skipn n l) at 1.
  destruct (Nat.le_gt_cases n (length l)) as [Hn|Hn].
  - rewrite nth_error_app2 by (rewrite firstn_length; lia). rewrite firstn_length, Nat.min_l by exact Hn.
    replace (n + i - n)%nat with i by lia. exact Hi.
  - rewrite skipn_all2 in Hi by lia. destruct i; discriminate.
Qed.

(* ------------------------------------------------------------------------------------------------ *)
(** * runs: lengths and prefixes *)

Lemma mrun_from_len (v : view R) s xs l : mrun_from v s xs = Ok l -> length l = length xs.
Proof.
  revert s l. induction xs as [|x xs IH]; intros s l H; cbn [mrun_from] in H.
  - injection H as <-. reflexivity.
  - apply bind_ok in H. destruct H as [s' [_ H]]. apply bind_ok in H. destruct H as [o [_ H]].
    apply bind_ok in H. destruct H as [r [Hr H]]. injection H as <-. cbn [length]. f_equal. eapply IH. exact Hr.
Qed.

Lemma mrun_len (v : view R) xs l : mrun v xs = Ok l -> length l = length xs.
Proof. unfold mrun. intros H. apply bind_ok in H. destruct H as [s [_ H]]. eapply mrun_from_len. exact H. Qed.

Lemma mrun_from_prefix (v : view R) s xs ys l :
  mrun_from v s (xs ++ ys) = Ok l -> mrun_from v s xs = Ok (firstn (length xs) l).
Proof.
  revert s l. induction xs as [|x xs IH]; intros s l H; [reflexivity|].
  cbn [app mrun_from] in H. cbn [mrun_from].
  apply bind_ok in H. destruct H as [s' [Hs H]]. apply bind_ok in H. destruct H as [o [Ho H]].
  apply bind_ok in H. destruct H as [r [Hr H]]. injection H as <-.
  rewrite Hs. cbn [bind]. rewrite Ho. cbn [bind]. rewrite (IH _ _ Hr). reflexivity.
Qed.

(** a run on a prefix is the prefix of the run *)
Lemma mrun_prefix (v : view R) xs ys l : mrun v (xs ++ ys) = Ok l -> mrun v xs = Ok (firstn (length xs) l).
Proof.
  unfold mrun. intros H. apply bind_ok in H. destruct H as [s [Hs H]]. rewrite Hs. cbn [bind].
  eapply mrun_from_prefix. exact H.
Qed.

(** the answer at step [t] of a run is the last answer of the run on the first [t+1] inputs *)
Lemma mrun_at_is_last (v : view R) xs l t o : mrun v xs = Ok l -> nth_error l t = Some o ->
  exists l', mrun v (firstn (S t) xs) = Ok l' /\ last l' None = o.
Proof.
  intros H Ht. pose proof (mrun_len _ _ _ H) as Hl.
  rewrite <- (firstn_skipn (S t) xs) in H. apply mrun_prefix in H.
  eexists. split; [exact H|].
  assert (Hlt : (t < length l)%nat) by (apply nth_error_Some; congruence).
  assert (E : length (firstn (S t) xs) = S t) by (rewrite firstn_length; lia).
  rewrite E. apply firstn_S_last. exact Ht.
Qed.

Lemma mrun_echo_R (xs : list R) : mrun (@echo R) xs = Ok (map Some xs).
Proof. unfold mrun. cbn [vnew echo bind]. apply (@mrun_from_echo R). Qed.

(* ------------------------------------------------------------------------------------------------ *)
(** * linear combinations of streams and of answer streams *)

Definition olin_list (a b : R) (la lb : list (option R)) : list (option R) :=
  map (fun p => olin a b (fst p) (snd p)) (combine la lb).

Lemma olin_list_length a b la lb : length la = length lb -> length (olin_list a b la lb) = length la.
Proof. intros H. unfold olin_list. rewrite map_length, combine_length. lia. Qed.

Lemma lcomb_length a b (xs ys : list R) : length xs = length ys -> length (lcomb a b xs ys) = length xs.
Proof. intros H. unfold lcomb. rewrite map_length, combine_length. lia. Qed.

Lemma olin_list_nth a b la lb t x y : nth_error la t = Some x -> nth_error lb t = Some y ->
  nth_error (olin_list a b la lb) t = Some (olin a b x y).
Proof.
  revert lb t. induction la as [|x0 la IH]; intros [|y0 lb] [|t] Hx Hy; try discriminate.
  - cbn in *. congruence.
  - cbn [nth_error] in Hx, Hy. unfold olin_list. cbn [combine map nth_error]. apply IH; assumption.
Qed.

Lemma lcomb_1_0 (xs ys : list R) : length xs = length ys -> lcomb 1 0 xs ys = xs.
Proof.
  revert ys. induction xs as [|x xs IH]; intros [|y ys] H; try discriminate; [reflexivity|].
  unfold lcomb in *. cbn [combine map fst snd]. rewrite IH by (cbn in H; lia). f_equal. cbn [sadd smul ROps]. ring.
Qed.

Lemma lcomb_zero_r (xs : list R) a b : lcomb a b xs (repeat 0 (length xs)) = map (Rmult a) xs.
Proof.
  induction xs as [|x xs IH]; [reflexivity|]. unfold lcomb in *. cbn [length repeat combine map fst snd].
  rewrite IH. f_equal. cbn [sadd smul ROps]. ring.
Qed.

Lemma lcomb_zero_l (xs : list R) a b : lcomb a b (repeat 0 (length xs)) xs = map (Rmult b) xs.
Proof.
  induction xs as [|x xs IH]; [reflexivity|]. unfold lcomb in *. cbn [length repeat combine map fst snd].
  rewrite IH. f_equal. cbn [sadd smul ROps]. ring.
Qed.

Lemma map_Rmult_1 (xs : list R) : map (Rmult 1) xs = xs.
Proof. induction xs as [|x xs IH]; [reflexivity|]. cbn [map]. rewrite IH. f_equal. ring. Qed.

Lemma lcomb_zeros a b k : lcomb a b (repeat 0 k) (repeat 0 k) = repeat 0 k.
Proof.
  induction k as [|k IH]; [reflexivity|]. unfold lcomb in *. cbn [repeat combine map fst snd]. rewrite IH.
  f_equal. cbn [sadd smul ROps]. ring.
Qed.

(** [d1 ++ d2 = (d1 ++ 0..0) + (0..0 ++ d2)] *)
Lemma lcomb_split (d1 d2 : list R) :
  lcomb 1 1 (d1 ++ repeat 0 (length d2)) (repeat 0 (length d1) ++ d2) = d1 ++ d2.
Proof.
  rewrite lcomb_app by (rewrite repeat_length; reflexivity).
  rewrite lcomb_zero_r, lcomb_zero_l, !map_Rmult_1. reflexivity.
Qed.

(** answer streams with the same pattern of [None]s *)
Definition opt_sync (x y : option R) : Prop := x = None <-> y = None.
Definition same_pat (la lb : list (option R)) : Prop := Forall2 opt_sync la lb.

Lemma same_pat_length la lb : same_pat la lb -> length la = length lb.
Proof. intros H. induction H as [|x y la lb _ _ IH]; [reflexivity | cbn [length]; f_equal; exact IH]. Qed.

Lemma same_pat_firstn la lb k : same_pat la lb -> same_pat (firstn k la) (firstn k lb).
Proof.
  intros H. revert k. induction H as [|x y la lb Hxy H IH]; intros [|k]; cbn [firstn].
  - constructor.
  - constructor.
  - constructor.
  - constructor; [exact Hxy | apply IH].
Qed.

Lemma same_pat_of_olin la lb : length la = length lb ->
  la = olin_list 1 0 la lb -> lb = olin_list 1 0 lb la -> same_pat la lb.
Proof.
  revert lb. induction la as [|x la IH]; intros [|y lb] Hl H1 H2; try discriminate; [constructor|].
  unfold olin_list in H1, H2. cbn [combine map fst snd] in H1, H2.
  injection H1 as Hx H1. injection H2 as Hy H2. constructor.
  - unfold opt_sync. destruct x, y; cbn in Hx, Hy; split; intros; congruence.
  - apply IH; [cbn in Hl; lia | exact H1 | exact H2].
Qed.

Lemma somes_olin_list a b la lb : same_pat la lb ->
  somes (olin_list a b la lb) = lcomb a b (somes la) (somes lb).
Proof.
  intros H. induction H as [|x y la lb Hxy H IH]; [reflexivity|].
  unfold olin_list, lcomb in *. cbn [combine map fst snd]. destruct x as [x|], y as [y|].
  - cbn [olin somes combine map fst snd]. rewrite IH. reflexivity.
  - exfalso. destruct Hxy as [_ Hxy]. specialize (Hxy eq_refl). discriminate.
  - exfalso. destruct Hxy as [Hxy _]. specialize (Hxy eq_refl). discriminate.
  - cbn [olin somes]. exact IH.
Qed.

Lemma same_pat_somes_length la lb : same_pat la lb -> length (somes la) = length (somes lb).
Proof.
  intros H. induction H as [|x y la lb Hxy H IH]; [reflexivity|]. destruct x as [x|], y as [y|]; cbn [somes length].
  - f_equal. exact IH.
  - exfalso. destruct Hxy as [_ Hxy]. specialize (Hxy eq_refl). discriminate.
  - exfalso. destruct Hxy as [Hxy _]. specialize (Hxy eq_refl). discriminate.
  - exact IH.
Qed.

Lemma olin_list_firstn a b la lb k : firstn k (olin_list a b la lb) = olin_list a b (firstn k la) (firstn k lb).
Proof. unfold olin_list. rewrite firstn_map, combine_firstn. reflexivity. Qed.

Lemma last_olin_list a b la lb : length la = length lb ->
  last (olin_list a b la lb) None = olin a b (last la None) (last lb None).
Proof.
  revert lb. induction la as [|x la IH]; intros [|y lb] H; try discriminate; [reflexivity|].
  destruct la as [|x1 la], lb as [|y1 lb]; try discriminate; [reflexivity|].
  specialize (IH (y1 :: lb) ltac:(cbn in H |- *; lia)).
  change (last (x :: x1 :: la) None) with (last (x1 :: la) None).
  change (last (y :: y1 :: lb) None) with (last (y1 :: lb) None). rewrite <- IH. reflexivity.
Qed.

Lemma same_pat_nth la lb t x : same_pat la lb -> nth_error la t = Some x ->
  exists y, nth_error lb t = Some y /\ opt_sync x y.
Proof.
  intros H. revert t. induction H as [|x0 y0 la lb Hxy H IH]; intros [|t] Ht; try discriminate.
  - cbn in Ht. injection Ht as <-. exists y0. split; [reflexivity | exact Hxy].
  - cbn [nth_error] in Ht |- *. apply IH. exact Ht.
Qed.

Lemma same_pat_last la lb : same_pat la lb -> opt_sync (last la None) (last lb None).
Proof.
  intros H. induction H as [|x y la lb Hxy H IH]; [split; reflexivity|].
  destruct H as [|x1 y1 la lb Hxy1 H]; [exact Hxy|]. exact IH.
Qed.

(* ------------------------------------------------------------------------------------------------ *)
(** * the view-level notions *)

(** C09 for a view (any chain): two streams with same-length prefixes and a common tail [s]; the last
    answers of the two runs are within [eps] of each other once the common tail is long enough *)
Definition view_fading_eps (v : view R) : Prop :=
  forall p p', length p = length p' -> forall eps, 0 < eps -> exists M, forall s outs outs',
  (M <= length s)%nat -> mrun v (p ++ s) = Ok outs -> mrun v (p' ++ s) = Ok outs' ->
  forall o o', last outs None = Some o -> last outs' None = Some o' -> Rabs (o - o') < eps.

(** C10 for a view: the run on [a*x_i + b*y_i] is the pointwise combination of the two runs (and no run fails) *)
Definition view_linear (v : view R) : Prop :=
  forall a b xs ys, length xs = length ys -> exists la lb,
  mrun v xs = Ok la /\ mrun v ys = Ok lb /\ mrun v (lcomb a b xs ys) = Ok (olin_list a b la lb).

(** the view answers [Some _] at every step from index [W] on *)
Definition view_ready (v : view R) (W : nat) : Prop :=
  forall xs la t, mrun v xs = Ok la -> (W <= t)%nat -> nth_error la t <> Some None.
Definition core_ready (c : core R) (W : nat) : Prop :=
  forall vs, (W <= length vs)%nat -> cout c vs <> Ok None.

(** the answers to (anything ++ zeros) tend to 0 *)
Definition view_zero_input_decays (v : view R) : Prop :=
  forall q eps, 0 < eps -> exists M, forall k outs o, (M <= k)%nat ->
  mrun v (q ++ repeat 0 k) = Ok outs -> last outs None = Some o -> Rabs o < eps.

(** ** the last answer of a chain is the wrapper core's answer to the inner answers *)
Lemma wrap_last (c : core R) (a : view R) xs la outs o :
  mrun a xs = Ok la -> mrun (wrap c a) xs = Ok outs -> last outs None = Some o ->
  cout c (somes la) = Ok (Some o).
Proof.
  intros Ha Hw Hl. pose proof (last_some_nth outs o Hl) as Hn.
  pose proof (@chain_cout R c a xs la outs Ha Hw _ _ Hn) as Hc.
  pose proof (mrun_len _ _ _ Ha) as L1. pose proof (mrun_len _ _ _ Hw) as L2.
  assert (Hne : (1 <= length outs)%nat).
  { destruct outs; [discriminate | cbn [length]; lia]. }
  rewrite firstn_all2 in Hc by lia. exact Hc.
Qed.

Lemma standalone_last (c : core R) xs outs o :
  mrun (standalone c) xs = Ok outs -> last outs None = Some o -> cout c xs = Ok (Some o).
Proof.
  intros H Hl. pose proof (wrap_last c (@echo R) xs (map Some xs) outs o (mrun_echo_R xs) H Hl) as Hc.
  rewrite somes_map_Some in Hc. exact Hc.
Qed.

(** C09: a fading core run stand-alone is a fading view *)
Theorem standalone_fading (c : core R) : fading_eps c -> view_fading_eps (standalone c).
Proof.
  intros Hf p p' Hl eps He. destruct (Hf p p' Hl eps He) as [M HM]. exists M.
  intros s outs outs' Hs Ho Ho' o o' Hlo Hlo'. apply (HM s Hs o o').
  - eapply standalone_last; eassumption.
  - eapply standalone_last; eassumption.
Qed.

(** ** consequences of linearity *)
Lemma view_linear_total v : view_linear v -> forall xs, exists la, mrun v xs = Ok la.
Proof. intros H xs. destruct (H 1 0 xs xs eq_refl) as (la & _ & Hla & _). eauto. Qed.

Lemma core_linear_total c : core_linear c -> forall vs, exists o, cout c vs = Ok o.
Proof. intros H vs. destruct (H 1 0 vs vs eq_refl) as (o & _ & Ho & _). eauto. Qed.

(** the two runs of a linear view on equal-length streams are silent at the same steps *)
Lemma view_linear_same_pat v xs ys la lb : view_linear v -> length xs = length ys ->
  mrun v xs = Ok la -> mrun v ys = Ok lb -> same_pat la lb.
Proof.
  intros Hlin Hl Ha Hb.
  destruct (Hlin 1 0 xs ys Hl) as (la1 & lb1 & H1 & H2 & H3).
  destruct (Hlin 1 0 ys xs (eq_sym Hl)) as (lb2 & la2 & H4 & H5 & H6).
  rewrite lcomb_1_0 in H3 by exact Hl. rewrite lcomb_1_0 in H6 by (symmetry; exact Hl).
  rewrite Ha in H1, H5, H3. rewrite Hb in H2, H4, H6.
  injection H1 as <-. injection H2 as <-. injection H4 as <-. injection H5 as <-.
  injection H3 as H3. injection H6 as H6.
  apply same_pat_of_olin; [|exact H3|exact H6].
  rewrite (mrun_len _ _ _ Ha), (mrun_len _ _ _ Hb). exact Hl.
Qed.

(** the same for a core *)
Lemma core_linear_sync c xs ys ox oy : core_linear c -> length xs = length ys ->
  cout c xs = Ok ox -> cout c ys = Ok oy -> opt_sync ox oy.
Proof.
  intros Hlin Hl Ha Hb.
  destruct (Hlin 1 0 xs ys Hl) as (la1 & lb1 & H1 & H2 & H3).
  destruct (Hlin 1 0 ys xs (eq_sym Hl)) as (lb2 & la2 & H4 & H5 & H6).
  rewrite lcomb_1_0 in H3 by exact Hl. rewrite lcomb_1_0 in H6 by (symmetry; exact Hl).
  rewrite Ha in H1, H5, H3. rewrite Hb in H2, H4, H6.
  injection H1 as <-. injection H2 as <-. injection H4 as <-. injection H5 as <-.
  injection H3 as H3. injection H6 as H6. unfold opt_sync.
  destruct ox, oy; cbn in H3, H6; split; intros; congruence.
Qed.

(** a linear view answers 0 (or nothing) to zeros *)
Lemma view_linear_zeros v k la o : view_linear v -> mrun v (repeat 0 k) = Ok la -> In (Some o) la -> o = 0.
Proof.
  intros Hlin Ha Hin. destruct (Hlin 0 0 (repeat 0 k) (repeat 0 k) eq_refl) as (l1 & l2 & H1 & H2 & H3).
  rewrite lcomb_zeros in H3. rewrite Ha in H1, H2, H3. injection H1 as <-. injection H2 as <-. injection H3 as H3.
  destruct (In_nth_error _ _ Hin) as [t Ht].
  pose proof (olin_list_nth 0 0 la la t _ _ Ht Ht) as Hn. rewrite <- H3, Ht in Hn.
  cbn [olin sadd smul ROps] in Hn. injection Hn as Hn. lra.
Qed.

Lemma core_linear_zeros c k o : core_linear c -> cout c (repeat 0 k) = Ok (Some o) -> o = 0.
Proof.
  intros Hlin Ha. destruct (Hlin 0 0 (repeat 0 k) (repeat 0 k) eq_refl) as (l1 & l2 & H1 & H2 & H3).
  rewrite lcomb_zeros in H3. rewrite Ha in H1, H2, H3. injection H1 as <-. injection H2 as <-. injection H3 as H3.
  cbn [olin sadd smul ROps] in H3. lra.
Qed.

Lemma last_in {A} (l : list A) d x : l <> [] -> last l d = x -> In x l.
Proof.
  intros Hne H. destruct (exists_last Hne) as (l' & y & ->). rewrite last_last in H. subst y.
  apply in_or_app. right. left. reflexivity.
Qed.

(** for a linear view, fading memory and zero-input decay are the same thing *)
Lemma view_zid_of_fading v : view_linear v -> view_fading_eps v -> view_zero_input_decays v.
Proof.
  intros Hlin Hf q eps He.
  destruct (Hf q (repeat 0 (length q)) ltac:(rewrite repeat_length; reflexivity) eps He) as [M HM].
  exists M. intros k outs o Hk Ho Hl.
  destruct (view_linear_total v Hlin (repeat 0 (length q) ++ repeat 0 k)) as [outs0 Ho0].
  assert (Hsp : same_pat outs outs0).
  { eapply view_linear_same_pat; [exact Hlin | | exact Ho | exact Ho0]. rewrite !app_length, !repeat_length. reflexivity. }
  destruct (last outs0 None) as [o0|] eqn:El0.
  - assert (o0 = 0).
    { rewrite <- repeat_app in Ho0. eapply view_linear_zeros; [exact Hlin | exact Ho0 |].
      apply (last_in outs0 None); [eapply last_some_nonnil; exact El0 | exact El0]. }
    subst o0.
    pose proof (HM (repeat 0 k) outs outs0 ltac:(rewrite repeat_length; exact Hk) Ho Ho0 o 0 Hl El0) as H.
    rewrite Rminus_0_r in H. exact H.
  - exfalso. pose proof (same_pat_last _ _ Hsp) as [_ Hs]. rewrite El0 in Hs. specialize (Hs eq_refl). congruence.
Qed.

Lemma view_fading_of_zid v : view_linear v -> view_zero_input_decays v -> view_fading_eps v.
Proof.
  intros Hlin Hz p p' Hl eps He. destruct (Hz (lcomb 1 (-1) p p') eps He) as [M HM]. exists M.
  intros s outs outs' Hs Ho Ho' o o' Hlo Hlo'.
  destruct (Hlin 1 (-1) (p ++ s) (p' ++ s)) as (l1 & l2 & H1 & H2 & H3).
  { rewrite !app_length, Hl. reflexivity. }
  rewrite Ho in H1. rewrite Ho' in H2. injection H1 as <-. injection H2 as <-.
  rewrite lcomb_app, lcomb_self_zero in H3 by exact Hl.
  replace (o - o') with (1 * o + -1 * o') by ring.
  apply (HM (length s) _ _ Hs H3).
  rewrite last_olin_list, Hlo, Hlo'; [reflexivity|].
  rewrite (mrun_len _ _ _ Ho), (mrun_len _ _ _ Ho'), !app_length, Hl. reflexivity.
Qed.

(** a linear fading core has a decaying zero-input response *)
Lemma core_zid_of_fading c : core_linear c -> fading_eps c -> zero_input_decays c.
Proof.
  intros Hlin Hf d eps He.
  destruct (Hf d (repeat 0 (length d)) ltac:(rewrite repeat_length; reflexivity) eps He) as [M HM].
  exists M. intros k Hk o Ho.
  destruct (core_linear_total c Hlin (repeat 0 (length d) ++ repeat 0 k)) as [o0 Ho0].
  assert (Hs : opt_sync (Some o) o0).
  { eapply core_linear_sync; [exact Hlin | | exact Ho | exact Ho0]. rewrite !app_length, !repeat_length. reflexivity. }
  destruct o0 as [o0|]; [|destruct Hs as [_ Hs]; specialize (Hs eq_refl); discriminate].
  assert (o0 = 0) by (rewrite <- repeat_app in Ho0; eapply core_linear_zeros; eassumption). subst o0.
  pose proof (HM (repeat 0 k) ltac:(rewrite repeat_length; exact Hk) o 0 Ho Ho0) as H.
  rewrite Rminus_0_r in H. exact H.
Qed.

(* ------------------------------------------------------------------------------------------------ *)
(** * Echo *)
Lemma olin_list_map_Some a b (xs ys : list R) :
  olin_list a b (map Some xs) (map Some ys) = map Some (lcomb a b xs ys).
Proof.
  revert ys. induction xs as [|x xs IH]; intros [|y ys]; try reflexivity.
  unfold olin_list, lcomb in *. cbn [map combine fst snd olin]. rewrite IH. reflexivity.
Qed.

Lemma echo_linear : view_linear (@echo R).
Proof.
  intros a b xs ys _. exists (map Some xs), (map Some ys). rewrite !mrun_echo_R, olin_list_map_Some. auto.
Qed.

Lemma echo_ready : view_ready (@echo R) 0.
Proof.
  intros xs la t H _ Hn. rewrite mrun_echo_R in H. injection H as <-.
  rewrite nth_error_map in Hn. destruct (nth_error xs t); discriminate.
Qed.

Lemma echo_fading : view_fading_eps (@echo R).
Proof.
  intros p p' _ eps He. exists 1%nat. intros s outs outs' Hs Ho Ho' o o' Hl Hl'.
  rewrite mrun_echo_R in Ho, Ho'. injection Ho as <-. injection Ho' as <-.
  assert (Hne : s <> []) by (destruct s; [cbn in Hs; lia | discriminate]).
  destruct (exists_last Hne) as (s' & x & ->).
  rewrite app_assoc, map_app in Hl, Hl'. cbn [map] in Hl, Hl'. rewrite last_last in Hl, Hl'.
  injection Hl as <-. injection Hl' as <-. replace (x - x) with 0 by ring. rewrite Rabs_R0. exact He.
Qed.

(* ------------------------------------------------------------------------------------------------ *)
(** * wrapping a linear core around a linear view *)
Lemma cout_parts (c : core R) sc vs o : cnew c = Ok sc -> cout c vs = Ok o ->
  exists s', cfold c sc vs = Ok s' /\ clast c s' = Ok o.
Proof.
  unfold cout, crun. intros Hn H. rewrite Hn in H. cbn [bind] in H. apply bind_ok in H. exact H.
Qed.

Lemma core_linear_new c : core_linear c -> exists sc, cnew c = Ok sc.
Proof.
  intros H. destruct (core_linear_total c H []) as [o Ho]. unfold cout, crun in Ho.
  destruct (cnew c); [eauto | discriminate].
Qed.

Lemma wrap_total (c : core R) (a : view R) xs la : core_linear c -> mrun a xs = Ok la ->
  exists outs, mrun (wrap c a) xs = Ok outs.
Proof.
  intros Hlin Ha. destruct (core_linear_new c Hlin) as [sc Hsc].
  rewrite (@mrun_wrap R c a xs la sc Ha Hsc). apply replay_from_ok.
  - intros s' t Ht Hf. destruct (core_linear_total c Hlin (somes (firstn t la))) as [o Ho].
    destruct (cout_parts c sc _ o Hsc Ho) as (s'' & H1 & H2). rewrite Hf in H1. injection H1 as <-. eauto.
  - intros t Ht. destruct (core_linear_total c Hlin (somes (firstn t la))) as [o Ho].
    destruct (cout_parts c sc _ o Hsc Ho) as (s'' & H1 & _). eauto.
Qed.

(** C10 lifts to chains: a linear core around a linear view is a linear view *)
Theorem wrap_linear (c : core R) (a : view R) : core_linear c -> view_linear a -> view_linear (wrap c a).
Proof.
  intros Hc Ha al be xs ys Hl.
  destruct (Ha al be xs ys Hl) as (la & lb & H1 & H2 & H3).
  destruct (wrap_total c a xs la Hc H1) as [ox Hox].
  destruct (wrap_total c a ys lb Hc H2) as [oy Hoy].
  destruct (wrap_total c a _ _ Hc H3) as [oz Hoz].
  exists ox, oy. split; [exact Hox|]. split; [exact Hoy|]. rewrite Hoz. f_equal.
  pose proof (view_linear_same_pat a xs ys la lb Ha Hl H1 H2) as Hsp.
  pose proof (mrun_len _ _ _ Hox) as Lx. pose proof (mrun_len _ _ _ Hoy) as Ly.
  pose proof (mrun_len _ _ _ Hoz) as Lz. rewrite lcomb_length in Lz by exact Hl.
  apply nth_error_ext_eq. intros t.
  destruct (Nat.lt_ge_cases t (length xs)) as [Ht|Ht].
  - destruct (nth_error ox t) as [x|] eqn:Ex; [|apply nth_error_None in Ex; lia].
    destruct (nth_error oy t) as [y|] eqn:Ey; [|apply nth_error_None in Ey; lia].
    destruct (nth_error oz t) as [z|] eqn:Ez; [|apply nth_error_None in Ez; lia].
    rewrite (olin_list_nth al be ox oy t x y Ex Ey). f_equal.
    pose proof (@chain_cout R c a xs la ox H1 Hox t x Ex) as Cx.
    pose proof (@chain_cout R c a ys lb oy H2 Hoy t y Ey) as Cy.
    pose proof (@chain_cout R c a _ _ oz H3 Hoz t z Ez) as Cz.
    pose proof (same_pat_firstn la lb (S t) Hsp) as Hsp'.
    rewrite olin_list_firstn, somes_olin_list in Cz by exact Hsp'.
    destruct (Hc al be _ _ (same_pat_somes_length _ _ Hsp')) as (x' & y' & E1 & E2 & E3).
    rewrite Cx in E1. rewrite Cy in E2. rewrite Cz in E3. congruence.
  - assert (E1 : nth_error oz t = None) by (apply nth_error_None; lia).
    assert (E2 : nth_error (olin_list al be ox oy) t = None).
    { apply nth_error_None. rewrite olin_list_length; lia. }
    congruence.
Qed.

Corollary standalone_linear (c : core R) : core_linear c -> view_linear (standalone c).
Proof. intros H. apply wrap_linear; [exact H | apply echo_linear]. Qed.

(** ** readiness *)
Lemma nth_error_firstn_some {A} (l : list A) n t x : nth_error (firstn n l) t = Some x -> nth_error l t = Some x.
Proof.
  revert n t. induction l as [|y l IH]; intros [|n] [|t] H; cbn [firstn nth_error] in *; try discriminate.
  - exact H.
  - eapply IH. exact H.
Qed.

Lemma ready_count (l : list (option R)) W : (forall t, (W <= t)%nat -> nth_error l t <> Some None) ->
  (length l - W <= length (somes l))%nat.
Proof.
  intros H. rewrite <- (firstn_skipn W l) at 2. rewrite somes_app, app_length.
  rewrite (somes_all_some (skipn W l)).
  - rewrite skipn_length. lia.
  - intros o Ho ->. destruct (in_skipn_nth l W None Ho) as [i Hi]. apply (H (W + i)%nat); [lia | exact Hi].
Qed.

Lemma wrap_ready (c : core R) (a : view R) Wa Wc :
  core_ready c Wc -> view_ready a Wa -> view_ready (wrap c a) (Wa + Wc).
Proof.
  intros Hc Ha xs outs t Hw Ht Hn.
  destruct (mrun_wrap_inner c a xs outs Hw) as [la Hla].
  pose proof (@chain_cout R c a xs la outs Hla Hw t None Hn) as Hco.
  apply (Hc (somes (firstn (S t) la))); [|exact Hco].
  assert (Hlt : (t < length outs)%nat) by (apply nth_error_Some; congruence).
  rewrite (mrun_len _ _ _ Hw), <- (mrun_len _ _ _ Hla) in Hlt.
  pose proof (ready_count (firstn (S t) la) Wa) as Hrc. rewrite firstn_length in Hrc.
  assert (Hp : forall t0, (Wa <= t0)%nat -> nth_error (firstn (S t) la) t0 <> Some None).
  { intros t0 Ht0 Hn0. apply (Ha xs la t0 Hla Ht0). eapply nth_error_firstn_some. exact Hn0. }
  specialize (Hrc Hp). lia.
Qed.

Lemma standalone_ready (c : core R) W : core_ready c W -> view_ready (standalone c) W.
Proof. intros H. apply (wrap_ready c (@echo R) 0 W H echo_ready). Qed.

(* ------------------------------------------------------------------------------------------------ *)
(** * the composition theorem *)

(** zero-input decay passes through a linear, BIBO-stable core with decaying zero-input response *)
Theorem wrap_zero_input_decays (c : core R) (a : view R) K Wa :
  core_linear c -> bibo c K -> zero_input_decays c ->
  view_linear a -> view_ready a Wa -> view_zero_input_decays a ->
  view_zero_input_decays (wrap c a).
Proof.
  intros Hc Hb Hz Ha Hr Hza q eps He.
  set (Kp := Rabs K + 1). assert (HKp : 0 < Kp) by (unfold Kp; pose proof (Rabs_pos K); lra).
  assert (HKK : K <= Kp) by (unfold Kp; pose proof (Rle_abs K); lra).
  set (eps1 := eps / (2 * Kp)). assert (He1 : 0 < eps1) by (unfold eps1; apply Rdiv_lt_0_compat; lra).
  assert (Ee1 : Kp * eps1 = eps / 2) by (unfold eps1; field; lra).
  clearbody Kp eps1.
  destruct (Hza q eps1 He1) as [M1 HM1].
  set (m1 := Nat.max M1 Wa).
  destruct (view_linear_total a Ha (q ++ repeat 0 m1)) as [l1 Hl1].
  destruct (Hz (somes l1) (eps / 2) ltac:(lra)) as [M2 HM2].
  exists (m1 + M2)%nat. intros k outs o Hk Hw Hlo.
  destruct (mrun_wrap_inner c a _ outs Hw) as [la Hla].
  pose proof (wrap_last c a _ la outs o Hla Hw Hlo) as Hco.
  pose proof (mrun_len _ _ _ Hla) as Lla. rewrite app_length, repeat_length in Lla.
  (* the inner answers: the first |q|+m1 of them are l1, the others are small *)
  assert (Hpre : forall i, (i <= k)%nat -> mrun a (q ++ repeat 0 i) = Ok (firstn (length q + i) la)).
  { intros i Hi. pose proof Hla as H. replace k with (i + (k - i))%nat in H by lia.
    rewrite repeat_app, app_assoc in H. apply mrun_prefix in H. rewrite app_length, repeat_length in H. exact H. }
  assert (E1 : firstn (length q + m1) la = l1).
  { pose proof (Hpre m1 ltac:(lia)) as H. rewrite Hl1 in H. injection H as H. symmetry. exact H. }
  set (l2 := skipn (length q + m1) la).
  assert (Ela : la = l1 ++ l2) by (rewrite <- E1; symmetry; apply firstn_skipn).
  assert (Ll2 : length l2 = (k - m1)%nat) by (unfold l2; rewrite skipn_length; lia).
  assert (Hl2 : forall x, In x l2 -> exists y, x = Some y /\ Rabs y < eps1).
  { intros x Hx. destruct (in_skipn_nth la _ x Hx) as [i Hi].
    destruct x as [y|]; [|exfalso; apply (Hr _ la (length q + m1 + i)%nat Hla); [lia | exact Hi]].
    exists y. split; [reflexivity|].
    assert (Hlt : (length q + m1 + i < length la)%nat) by (apply nth_error_Some; congruence).
    pose proof (Hpre (S (m1 + i)) ltac:(lia)) as Hp.
    apply (HM1 (S (m1 + i)) _ y ltac:(lia) Hp).
    replace (length q + S (m1 + i))%nat with (S (length q + m1 + i)) by lia.
    apply firstn_S_last. exact Hi. }
  rewrite Ela, somes_app in Hco. set (d1 := somes l1) in *. set (d2 := somes l2) in *.
  assert (Ld2 : length d2 = (k - m1)%nat).
  { unfold d2. rewrite somes_all_some; [exact Ll2|]. intros x Hx. destruct (Hl2 x Hx) as (y & -> & _). discriminate. }
  assert (Bd2 : bounded eps1 d2).
  { apply Forall_forall. intros y Hy. apply in_somes in Hy. destruct (Hl2 _ Hy) as (y' & E & Hy').
    injection E as <-. lra. }
  (* split the outer core's input: (early ++ zeros) + (zeros ++ late) *)
  rewrite <- (lcomb_split d1 d2) in Hco.
  destruct (Hc 1 1 (d1 ++ repeat 0 (length d2)) (repeat 0 (length d1) ++ d2)) as (ox & oy & H1 & H2 & H3).
  { rewrite !app_length, !repeat_length. lia. }
  rewrite Hco in H3. destruct ox as [x|], oy as [y|]; try discriminate.
  cbn [olin sadd smul ROps] in H3. injection H3 as H3.
  pose proof (HM2 (length d2) ltac:(lia) x H1) as Hx.
  assert (Hy : Rabs y <= K * eps1).
  { apply (Hb eps1 (repeat 0 (length d1) ++ d2)); [|exact H2].
    apply bounded_app. split; [apply bounded_repeat; rewrite Rabs_R0; lra | exact Bd2]. }
  subst o. replace (1 * x + 1 * y) with (x + y) by ring.
  eapply Rle_lt_trans; [apply Rabs_triang|].
  assert (K * eps1 <= Kp * eps1) by (apply Rmult_le_compat_r; lra). lra.
Qed.

(** C09, composition: wrapping a linear, BIBO-stable, fading core around a linear, eventually-ready,
    fading view gives a fading view *)
Theorem fading_compose (c : core R) (a : view R) K Wa :
  core_linear c -> bibo c K -> fading_eps c ->
  view_linear a -> view_ready a Wa -> view_fading_eps a ->
  view_fading_eps (wrap c a).
Proof.
  intros Hc Hb Hf Ha Hr Hfa. apply view_fading_of_zid; [apply wrap_linear; assumption|].
  apply (wrap_zero_input_decays c a K Wa); try assumption.
  - apply core_zid_of_fading; assumption.
  - apply view_zid_of_fading; assumption.
Qed.

(** the same for every late step of the two runs, not only the last one *)
Theorem view_fading_all_steps (v : view R) : view_fading_eps v ->
  forall p p', length p = length p' -> forall eps, 0 < eps -> exists M, forall s outs outs' t o o',
  mrun v (p ++ s) = Ok outs -> mrun v (p' ++ s) = Ok outs' -> (length p + M <= S t)%nat ->
  nth_error outs t = Some (Some o) -> nth_error outs' t = Some (Some o') -> Rabs (o - o') < eps.
Proof.
  intros Hf p p' Hl eps He. destruct (Hf p p' Hl eps He) as [M HM]. exists M.
  intros s outs outs' t o o' Ho Ho' Ht Hn Hn'.
  destruct (mrun_at_is_last v _ outs t _ Ho Hn) as (l & Hr & Hlast).
  destruct (mrun_at_is_last v _ outs' t _ Ho' Hn') as (l' & Hr' & Hlast').
  rewrite firstn_app, firstn_all2 in Hr, Hr' by lia. rewrite <- Hl in Hr'.
  assert (Hlt : (t < length outs)%nat) by (apply nth_error_Some; congruence).
  rewrite (mrun_len _ _ _ Ho), app_length in Hlt.
  apply (HM (firstn (S t - length p) s) l l'); try assumption.
  rewrite firstn_length. lia.
Qed.

(* ------------------------------------------------------------------------------------------------ *)
(** * the linear recursive views *)
Lemma ema_core_linear n : (1 <= n)%nat -> core_linear (@ema_core R ROps n).
Proof.
  intros Hn a b xs ys Hl.
  pose proof (@ema_default_closed_form n xs (or_introl Hn)) as Hx.
  pose proof (@ema_default_closed_form n ys (or_introl Hn)) as Hy.
  eexists _, _. split; [exact Hx|]. split; [exact Hy|].
  exact (@ema_linear n _ a b xs ys _ _ Hn Hl Hx Hy).
Qed.

Lemma lin_linear v : lin_ok v -> core_linear (lin_core v).
Proof.
  destruct v as [n|g|n|n m|n]; cbn [lin_ok lin_core]; intros H.
  - apply ema_core_linear; exact H.
  - apply laguerre_linear.
  - apply ss_linear; exact H.
  - apply roofing_linear; apply H.
  - apply cyber_linear; exact H.
Qed.

Lemma lin_fading v : lin_ok v -> fading_eps (lin_core v).
Proof.
  destruct v as [n|g|n|n m|n]; cbn [lin_ok lin_core]; intros H.
  - apply ema_fading_eps; exact H.
  - apply laguerre_fading_eps; exact H.
  - apply ss_fading_eps; exact H.
  - apply roofing_fading_eps; apply H.
  - apply cyber_fading_eps; exact H.
Qed.

(** the number of values a member needs before it answers *)
Definition lin_warm (v : lin_view) : nat :=
  match v with
  | LEma n => n
  | LLaguerre _ => 1
  | LSuperSmoother n => n
  | LRoofing n m => n + m + 1
  | LCyberCycle _ => 1
  end.

Lemma lin_ready v : lin_ok v -> core_ready (lin_core v) (lin_warm v).
Proof.
  destruct v as [n|g|n|n m|n]; cbn [lin_ok lin_core lin_warm]; intros H vs Hl Hc.
  - apply warmup_ema in Hc. lia.
  - apply warmup_laguerre in Hc. lia.
  - apply (warmup_ss n vs H) in Hc. lia.
  - apply (warmup_roofing n m vs (proj1 H) (proj2 H)) in Hc. lia.
  - apply (warmup_cyber n vs H) in Hc. lia.
Qed.

Fixpoint chain_warm (l : list lin_view) : nat :=
  match l with [] => 0%nat | w :: r => (chain_warm r + lin_warm w)%nat end.

(** C10 for chains of any depth *)
Theorem chain_linear l : Forall lin_ok l -> view_linear (chain_view l).
Proof.
  induction l as [|w r IH]; intros H; cbn [chain_view].
  - apply echo_linear.
  - inversion H; subst. apply wrap_linear; [apply lin_linear; assumption | apply IH; assumption].
Qed.

(** a chain answers at every step once the warm-ups of its members have passed *)
Theorem chain_ready l : Forall lin_ok l -> view_ready (chain_view l) (chain_warm l).
Proof.
  induction l as [|w r IH]; intros H; cbn [chain_view chain_warm].
  - apply echo_ready.
  - inversion H; subst. apply wrap_ready; [apply lin_ready; assumption | apply IH; assumption].
Qed.

(** C09: FADING MEMORY FOR CHAINS OF ANY DEPTH of linear recursive views (outermost member first) *)
Theorem fading_chain_list l : Forall lin_ok l -> view_fading_eps (chain_view l).
Proof.
  induction l as [|w r IH]; intros H; cbn [chain_view].
  - apply echo_fading.
  - inversion H; subst.
    apply (fading_compose (lin_core w) (chain_view r) (lin_gain w) (chain_warm r)).
    + apply lin_linear; assumption.
    + apply lin_bibo; assumption.
    + apply lin_fading; assumption.
    + apply chain_linear; assumption.
    + apply chain_ready; assumption.
    + apply IH; assumption.
Qed.

(** C09: the two-level chain  w(v(x)) *)
Theorem fading_chain2 v w : lin_ok v -> lin_ok w ->
  view_fading_eps (wrap (lin_core w) (standalone (lin_core v))).
Proof. intros Hv Hw. apply (fading_chain_list [w; v]). repeat constructor; assumption. Qed.

(** the statement is not vacuous: a chain never fails and its last answer exists once the stream is longer
    than the total warm-up *)
Theorem chain_answers l xs : Forall lin_ok l -> (chain_warm l < length xs)%nat ->
  exists outs o, mrun (chain_view l) xs = Ok outs /\ last outs None = Some o.
Proof.
  intros H Hl. destruct (view_linear_total _ (chain_linear l H) xs) as [outs Ho].
  pose proof (mrun_len _ _ _ Ho) as L.
  destruct (nth_error outs (length outs - 1)) as [x|] eqn:E; [|apply nth_error_None in E; lia].
  destruct x as [o|]; [|exfalso; apply (chain_ready l H xs outs (length outs - 1)%nat Ho); [lia | exact E]].
  exists outs, o. split; [exact Ho | apply nth_error_last; exact E].
Qed.

(** C09 for chains, spelled out on the answers at every late step [t] of the two runs *)
Corollary fading_chain_outputs l p p' eps : Forall lin_ok l -> length p = length p' -> 0 < eps ->
  exists M, forall s outs outs' t o o',
  mrun (chain_view l) (p ++ s) = Ok outs -> mrun (chain_view l) (p' ++ s) = Ok outs' ->
  (length p + M <= S t)%nat -> nth_error outs t = Some (Some o) -> nth_error outs' t = Some (Some o') ->
  Rabs (o - o') < eps.
Proof. intros H Hl He. apply view_fading_all_steps; [apply fading_chain_list; exact H | exact Hl | exact He]. Qed.

(* ------------------------------------------------------------------------------------------------ *)
(** * the readiness hypothesis of [fading_compose] cannot be dropped *)
(** a view that answers its first input at the first step and nothing afterwards: linear and (vacuously)
    fading; wrapped in Ema(1) -- which then holds that first value forever -- the chain does not fade *)
Definition once : view R := {|
  vst := nat * R; vnew := Ok (0%nat, 0);
  vupd := fun s x => Ok (S (fst s), x);
  vlast := fun s => Ok (if Nat.eqb (fst s) 1 then Some (snd s) else None);
  vpop := fun _ => 0%nat |}.

Lemma once_from_late n y xs : (1 <= n)%nat -> mrun_from once (n, y) xs = Ok (repeat None (length xs)).
Proof.
  revert n y. induction xs as [|x xs IH]; intros n y Hn; [reflexivity|].
  cbn [mrun_from once vupd vlast bind fst snd]. rewrite (IH (S n) x) by lia.
  destruct n; [lia|]. reflexivity.
Qed.

Lemma once_run x xs : mrun once (x :: xs) = Ok (Some x :: repeat None (length xs)).
Proof.
  unfold mrun. cbn [vnew once bind]. cbn [mrun_from once vupd vlast bind fst snd Nat.eqb].
  rewrite (once_from_late 1 x xs) by lia. reflexivity.
Qed.

Lemma once_linear : view_linear once.
Proof.
  intros a b [|x xs] [|y ys] Hl; try discriminate.
  - exists [], []. repeat split; reflexivity.
  - exists (Some x :: repeat None (length xs)), (Some y :: repeat None (length ys)).
    rewrite !once_run. repeat split. unfold lcomb. cbn [combine map fst snd]. rewrite once_run.
    unfold olin_list. cbn [combine map fst snd olin]. do 2 f_equal.
    rewrite map_length, combine_length. cbn in Hl. replace (length ys) with (length xs) by lia.
    rewrite Nat.min_id. clear. induction (length xs) as [|k IH]; [reflexivity|].
    cbn [repeat combine map fst snd olin]. f_equal. exact IH.
Qed.

Lemma last_repeat_none k (x : option R) : last (x :: repeat None (S k)) None = None.
Proof.
  revert x. induction k as [|k IH]; intros x; [reflexivity|].
  change (last (x :: repeat None (S (S k))) None) with (last (@None R :: repeat None (S k)) None). apply IH.
Qed.

Lemma once_fading : view_fading_eps once.
Proof.
  intros p p' Hl eps He. exists 2%nat. intros s outs outs' Hs Ho Ho' o o' Hlo Hlo'. exfalso.
  destruct (p ++ s) as [|x r] eqn:E.
  - apply (f_equal (@length R)) in E. rewrite app_length in E. cbn in E. lia.
  - rewrite once_run in Ho. injection Ho as <-.
    assert (Hr : (2 <= S (length r))%nat).
    { apply (f_equal (@length R)) in E. rewrite app_length in E. cbn [length] in E. lia. }
    destruct (length r) as [|k]; [lia|]. rewrite last_repeat_none in Hlo. discriminate.
Qed.

Lemma ema1_single x : cout (@ema_core R ROps 1) [x] = Ok (Some x).
Proof.
  rewrite ema_default_closed_form by (left; lia). unfold SpecAvg.spec_ema.
  cbn [length Nat.ltb Nat.leb SpecAvg.ema_val fold_left]. reflexivity.
Qed.

Lemma somes_once_firstn (x : R) k m : somes (firstn (S k) (Some x :: repeat None m)) = [x].
Proof.
  cbn [firstn somes]. f_equal. revert k. induction m as [|m IH]; intros [|k]; try reflexivity.
  cbn [repeat firstn somes]. apply IH.
Qed.

(** FINDING: without "the inner view eventually always answers", composition does not preserve fading *)
Theorem fading_compose_needs_ready : exists (c : core R) (a : view R) (K : R),
  core_linear c /\ bibo c K /\ fading_eps c /\ view_linear a /\ view_fading_eps a /\
  ~ view_fading_eps (wrap c a).
Proof.
  exists (@ema_core R ROps 1), once, 1.
  split; [apply ema_core_linear; lia|]. split; [apply ema_bibo; lia|]. split; [apply ema_fading_eps; lia|].
  split; [apply once_linear|]. split; [apply once_fading|].
  intros Hf. destruct (Hf [1] [0] eq_refl (1 / 2) ltac:(lra)) as [M HM].
  assert (Hrun : forall x, exists outs, mrun (wrap (@ema_core R ROps 1) once) ([x] ++ repeat 0 M) = Ok outs
                                  /\ last outs None = Some x).
  { intros x. cbn [app].
    destruct (wrap_total (@ema_core R ROps 1) once (x :: repeat 0 M) _ (ema_core_linear 1 ltac:(lia)) (once_run x _))
      as [outs Ho].
    exists outs. split; [exact Ho|]. pose proof (mrun_len _ _ _ Ho) as L. cbn [length] in L.
    destruct (nth_error outs (length outs - 1)) as [y|] eqn:E; [|apply nth_error_None in E; lia].
    pose proof (@chain_cout R _ _ _ _ outs (once_run x _) Ho _ _ E) as Hc.
    rewrite somes_once_firstn, ema1_single in Hc. injection Hc as <-. apply nth_error_last. exact E. }
  destruct (Hrun 1) as (o1 & H1 & L1). destruct (Hrun 0) as (o0 & H0 & L0).
  pose proof (HM (repeat 0 M) o1 o0 ltac:(rewrite repeat_length; lia) H1 H0 1 0 L1 L0) as H.
  rewrite Rminus_0_r, Rabs_R1 in H. lra.
Qed.

(* ------------------------------------------------------------------------------------------------ *)
(** * examples: the hypotheses are satisfiable *)
Example standalone_fading_ex : view_fading_eps (standalone (@ema_core R ROps 3)).
Proof. apply standalone_fading. apply ema_fading_eps. lia. Qed.

Example fading_compose_ex :
  view_fading_eps (wrap (@ss_core R ROps 7) (standalone (@laguerre_core R ROps (4 / 5)))).
Proof.
  apply (fading_compose (@ss_core R ROps 7) (standalone (@laguerre_core R ROps (4 / 5))) (ss_gain 7) 1).
  - apply ss_linear; lia.
  - apply ss_bibo; lia.
  - apply ss_fading_eps; lia.
  - apply standalone_linear, laguerre_linear.
  - apply standalone_ready. apply (lin_ready (LLaguerre (4 / 5))). cbn [lin_ok]. lra.
  - apply standalone_fading, laguerre_fading_eps. lra.
Qed.

Example fading_chain2_ex :
  view_fading_eps (wrap (@cyber_core R ROps 5) (standalone (@roofing_core R ROps 48 10))).
Proof. apply (fading_chain2 (LRoofing 48 10) (LCyberCycle 5)); cbn [lin_ok]; lia. Qed.

Example fading_chain_list_ex : view_fading_eps (chain_view [LEma 3; LLaguerre (4 / 5); LSuperSmoother 7; LCyberCycle 4]).
Proof. apply fading_chain_list. repeat constructor; cbn [lin_ok]; try lia; lra. Qed.

(** the two runs in the statement exist and have a last answer: here for a 12-step stream *)
Example chain_answers_ex : exists outs o,
  mrun (chain_view [LEma 3; LLaguerre (4 / 5); LSuperSmoother 7]) (repeat 1 12) = Ok outs /\ last outs None = Some o.
Proof. apply chain_answers; [repeat constructor; cbn [lin_ok]; try lia; lra | cbn; lia]. Qed.

Print Assumptions standalone_fading.
Print Assumptions wrap_linear.
Print Assumptions wrap_zero_input_decays.
Print Assumptions fading_compose.
Print Assumptions view_fading_all_steps.
Print Assumptions chain_linear.
Print Assumptions chain_ready.
Print Assumptions fading_chain2.
Print Assumptions fading_chain_list.
Print Assumptions chain_answers.
Print Assumptions fading_chain_outputs.
Print Assumptions fading_compose_needs_ready.
