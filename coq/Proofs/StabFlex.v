(** C09 for TrendFlex / ReFlex: the normalised output never exceeds 5 in absolute value, whatever the
    input (ms_t = 0.04 d_t^2 + 0.96 ms_{t-1} >= 0.04 d_t^2, so |d_t / sqrt ms_t| <= 1/0.2 = 5; a held ReFlex
    output was produced the same way).  No bound on the input is needed: BIBO holds with the absolute
    bound 5.  (Fading of the normalised output on eventually-constant tails is false: finding W3.) *)
From Coq Require Import List Arith Lia ZArith Reals Lra.
From SF Require Import Res Scalar View Models Spec Core.
From SF.Proofs Require Import Window RBase StabBase.
Import ListNotations.
Open Scope R_scope.
Local Existing Instance ROps.

(** invariants preserved by every successful step are true of every reachable state *)
Lemma cfold_pres (c : core R) (I : cst c -> Prop) :
  (forall s v s', cstep c s v = Ok s' -> I s -> I s') ->
  forall vs s s', cfold c s vs = Ok s' -> I s -> I s'.
Proof.
  intros Hstep. induction vs as [|v vs IH]; intros s s' H Hi; cbn [cfold] in H.
  - injection H as H. subst. exact Hi.
  - destruct (cstep c s v) as [s1|e] eqn:E; cbn [bind] in H; [|discriminate].
    apply (IH s1 s' H). apply (Hstep s v s1 E Hi).
Qed.

Lemma crun_pres (c : core R) (I : cst c -> Prop) s0 :
  cnew c = Ok s0 -> I s0 ->
  (forall s v s', cstep c s v = Ok s' -> I s -> I s') ->
  forall vs s, crun c vs = Ok s -> I s.
Proof.
  intros Hn H0 Hstep vs s H. unfold crun in H. rewrite Hn in H. cbn [bind] in H.
  apply (cfold_pres c I Hstep vs s0 s H H0).
Qed.

Definition flex_ok (s : @flex_st R) : Prop :=
  0 <= fx_lastm s /\ forall o, fx_out s = Some o -> Rabs o <= 5.

Lemma sofdec_4_2 : @sofdec R ROps 4 2 = 4 / 100.
Proof. cbn [sofdec ROps]. replace (10 ^ Z.of_nat 2)%Z with 100%Z by reflexivity. reflexivity. Qed.
Lemma sofdec_96_2 : @sofdec R ROps 96 2 = 96 / 100.
Proof. cbn [sofdec ROps]. replace (10 ^ Z.of_nat 2)%Z with 100%Z by reflexivity. reflexivity. Qed.

(** |d / sqrt ms| <= 5 when ms >= 0.04 d^2 *)
Lemma flex_ratio_bound d ms : 0 < ms -> 4 / 100 * (d * d) <= ms -> Rabs (d / sqrt ms) <= 5.
Proof.
  intros Hms Hd. pose proof (sqrt_lt_R0 ms Hms) as Hr. pose proof (sqrt_sqrt ms ltac:(lra)) as Hrr.
  set (r := sqrt ms) in *. clearbody r.
  assert (H1 : d <= 5 * r) by (destruct (Rle_lt_dec d (5 * r)) as [H|H]; [exact H | exfalso; nra]).
  assert (H2 : - (5 * r) <= d) by (destruct (Rle_lt_dec (- (5 * r)) d) as [H|H]; [exact H | exfalso; nra]).
  apply Rabs_le. split.
  - apply (Rmult_le_reg_r r); [exact Hr|]. replace (d / r * r) with d by (field; lra). lra.
  - apply (Rmult_le_reg_r r); [exact Hr|]. replace (d / r * r) with d by (field; lra). lra.
Qed.

Lemma flex_norm_pres (s : @flex_st R) q v d b s' :
  flex_ok s -> @flex_norm R ROps s q v d b = Ok s' -> flex_ok s'.
Proof.
  intros [Hm Ho]. unfold flex_norm. cbv zeta. rewrite sofdec_4_2, sofdec_96_2. unfold ssq.
  cbn [smul sadd ROps]. set (ms0 := 4 / 100 * (d * d) + 96 / 100 * fx_lastm s).
  assert (Hms : 4 / 100 * (d * d) <= ms0) by (unfold ms0; lra).
  assert (Hms0 : 0 <= ms0) by (pose proof (Rle_0_sqr d) as X; unfold Rsqr in X; lra).
  clearbody ms0. unfold sgtb. cbn [sltb s0 ROps].
  destruct (Rltb 0 ms0) eqn:E; [apply Rltb_true in E | apply Rltb_false in E].
  - cbn [ssqrt ROps]. destruct (Rlt_dec ms0 0) as [Hneg|_]; [lra|]. cbn [bind].
    rewrite sdiv_R_ok by (pose proof (sqrt_lt_R0 ms0 E); lra). cbn [bind].
    intros H. injection H as H. subst s'. split; cbn [fx_lastm fx_out]; [exact Hms0|].
    intros o Ho'. injection Ho' as Ho'. subst o. apply flex_ratio_bound; assumption.
  - intros H. injection H as H. subst s'. split; cbn [fx_lastm fx_out]; [exact Hms0|].
    intros o Ho'. destruct b; [apply Ho; exact Ho'|]. injection Ho' as Ho'. subst o. rewrite Rabs_R0. lra.
Qed.

Lemma trendflex_step_pres n (s : @flex_st R) v s' :
  @trendflex_step R ROps n s v = Ok s' -> flex_ok s -> flex_ok s'.
Proof.
  unfold trendflex_step. cbv zeta. intros H Hi.
  apply bind_ok in H. destruct H as [[[c1 b1] c3] [_ H]]. cbv beta iota in H.
  apply bind_ok in H. destruct H as [filt [_ H]].
  apply bind_ok in H. destruct H as [d [_ H]].
  exact (flex_norm_pres _ _ _ _ _ _ Hi H).
Qed.

Lemma reflex_step_pres n (s : @flex_st R) v s' :
  @reflex_step R ROps n s v = Ok s' -> flex_ok s -> flex_ok s'.
Proof.
  unfold reflex_step. cbv zeta. intros H Hi.
  apply bind_ok in H. destruct H as [[[c1 b1] c3] [_ H]]. cbv beta iota in H.
  apply bind_ok in H. destruct H as [filt [_ H]].
  apply bind_ok in H. destruct H as [fr [_ H]].
  apply bind_ok in H. destruct H as [slope [_ H]].
  apply bind_ok in H. destruct H as [d [_ H]].
  exact (flex_norm_pres _ _ _ _ _ _ Hi H).
Qed.

Lemma flex_new_ok : flex_ok (@flex_new R ROps).
Proof. split; cbn [flex_new fx_lastm fx_out s0 ROps]; [lra | discriminate]. Qed.

(** C09 (TrendFlex): every output is in [-5, 5], for every window length and every input stream *)
Theorem trendflex_bounded n vs o : cout (@trendflex_core R ROps n) vs = Ok (Some o) -> Rabs o <= 5.
Proof.
  unfold cout. intros H. apply bind_ok in H. destruct H as [s [Hr Hl]].
  cbn [clast trendflex_core] in Hl. injection Hl as Hl.
  pose proof (@crun_pres (@trendflex_core R ROps n) flex_ok _ eq_refl flex_new_ok
                (fun s v s' => trendflex_step_pres n s v s') vs s Hr) as [_ Ho].
  apply Ho. exact Hl.
Qed.

(** C09 (ReFlex): every output (division branch or held) is in [-5, 5] *)
Theorem reflex_bounded n vs o : cout (@reflex_core R ROps n) vs = Ok (Some o) -> Rabs o <= 5.
Proof.
  unfold cout. intros H. apply bind_ok in H. destruct H as [s [Hr Hl]].
  cbn [clast reflex_core] in Hl. injection Hl as Hl.
  pose proof (@crun_pres (@reflex_core R ROps n) flex_ok _ eq_refl flex_new_ok
                (fun s v s' => reflex_step_pres n s v s') vs s Hr) as [_ Ho].
  apply Ho. exact Hl.
Qed.
