(** The generic part of the bridge for the Welford views: from [arith_sim3] (BridgeWOps.v) alone, the step and
    answer simulations of WelfordOnline (std / mean / variance), Vst, Vsct and WelfordRolling (std), and the
    bridges through [core_bridge] (BridgeSim.v). *)
From Coq Require Import List Arith Lia Reals Lra ZArith Bool.
From SF Require Import Res Scalar View Models Spec Core SpecBridge SpecBridgeW.
From SF.Proofs Require Import Flt2Prim BridgeSim BridgeWOps.
Import ListNotations.
Open Scope R_scope.

(** two cores over the same state type with the same constructor and pointwise equal steps run alike
    (the runs of [welford_core] / [welford_mean_core] / [welford_var_core], or of one core at two scalar
    instances that differ in members the step does not use, are NOT convertible: [cfold] is stuck on the stream) *)
Lemma cfold_build_ext {T St : Type} (new : res St) (st1 st2 : St -> T -> res St) l1 l2 p1 p2 vs :
  (forall s v, st1 s v = st2 s v) ->
  forall s, cfold (@Build_core T St new st1 l1 p1) s vs = cfold (@Build_core T St new st2 l2 p2) s vs.
Proof.
  intros H. induction vs as [|v vs IH]; intros s; [reflexivity|]. cbn [cfold cstep]. rewrite H.
  destruct (st2 s v) as [s'|e]; cbn [bind]; [apply IH | reflexivity].
Qed.
Lemma crun_build_ext {T St : Type} (new : res St) (st1 st2 : St -> T -> res St) l1 l2 p1 p2 vs :
  (forall s v, st1 s v = st2 s v) ->
  crun (@Build_core T St new st1 l1 p1) vs = crun (@Build_core T St new st2 l2 p2) vs.
Proof.
  intros H. unfold crun. cbn [cnew]. destruct new as [s|e] eqn:En; [|reflexivity]. cbn [bind]. rewrite <- En.
  apply cfold_build_ext. exact H.
Qed.

Lemma crun_welford_mean_core {T} {OT : Ops T} n vs : crun (@welford_mean_core T OT n) vs = crun (@welford_core T OT n) vs.
Proof. apply (@crun_build_ext T (@wo_st T)). reflexivity. Qed.
Lemma crun_welford_var_core {T} {OT : Ops T} n vs : crun (@welford_var_core T OT n) vs = crun (@welford_core T OT n) vs.
Proof. apply (@crun_build_ext T (@wo_st T)). reflexivity. Qed.

Section ViewsW.
Variable A : Type.
Variable OA : Ops A.
Variable OB : Ops R.
Variable phi : A -> R.
Variable finb : A -> bool.
Variable N : nat -> Prop.
Hypothesis AS3 : arith_sim3 OA OB phi finb N.
Let AS : arith_sim OA OB phi finb N := as3_base AS3.

(** ** WelfordOnline: the state *)
Definition wo_map (s : @wo_st A) : @wo_st R :=
  {| wo_q := map phi (wo_q s); wo_mean := phi (wo_mean s); wo_m2 := phi (wo_m2 s); wo_count := wo_count s |}.

Lemma wo_add_sim mean m2 count x mean' m2' c' : N (count + 1) ->
  @wo_add A OA mean m2 count x = Ok (mean', m2', c') -> finb mean' = true -> finb m2' = true ->
  @wo_add R OB (phi mean) (phi m2) count (phi x) = Ok (phi mean', phi m2', c') /\ c' = (count + 1)%nat /\
  finb mean = true /\ finb m2 = true.
Proof.
  intros HN E Fm Fm2. unfold wo_add in *. cbv zeta in *.
  destruct (as_nat AS _ HN) as [Fn En].
  destruct (@sdiv A OA (ssub x mean) (sofnat (count + 1))) as [d|e] eqn:Ed; [|discriminate]. cbn [bind] in E.
  inversion E; subst mean' m2' c'; clear E.
  destruct (as_add AS _ _ Fm) as [Fmean [Fd Ea]].
  destruct (as_div AS _ _ _ Fn Ed Fd) as [Fs Ed'].
  destruct (as_sub AS _ _ Fs) as [_ [_ Es]].
  destruct (as_add AS _ _ Fm2) as [Fm2o [Fp Ea2]].
  destruct (as_mul AS _ _ Fp) as [_ [Fs2 Em]].
  destruct (as_sub AS _ _ Fs2) as [_ [_ Es2]].
  rewrite Es, En in Ed'. rewrite Ed'. cbn [bind]. split; [|auto].
  rewrite Ea2, Em, Es2, Es, Ea. reflexivity.
Qed.

Lemma wo_remove_count mean m2 count old mean' m2' c' :
  @wo_remove A OA mean m2 count old = Ok (mean', m2', c') -> c' = (count - 1)%nat.
Proof.
  unfold wo_remove. destruct (Nat.leb count 1) eqn:El.
  - intros E. inversion E. apply Nat.leb_le in El. lia.
  - cbv zeta. destruct (@sdiv A OA (ssub old mean) (sofnat (count - 1))); [|discriminate].
    cbn [bind]. intros E. inversion E. reflexivity.
Qed.

Lemma wo_remove_sim mean m2 count old mean' m2' c' : ((2 <= count)%nat -> N (count - 1)) ->
  @wo_remove A OA mean m2 count old = Ok (mean', m2', c') -> finb mean' = true -> finb m2' = true ->
  @wo_remove R OB (phi mean) (phi m2) count (phi old) = Ok (phi mean', phi m2', c').
Proof.
  intros HN E Fm Fm2. unfold wo_remove in *. destruct (Nat.leb count 1) eqn:El.
  - inversion E; subst mean' m2' c'. rewrite (proj2 (as_s0 AS)). reflexivity.
  - cbv zeta in *. apply Nat.leb_gt in El. destruct (as_nat AS _ (HN ltac:(lia))) as [Fn En].
    destruct (@sdiv A OA (ssub old mean) (sofnat (count - 1))) as [d|e] eqn:Ed; [|discriminate]. cbn [bind] in E.
    inversion E; subst mean' m2' c'; clear E.
    destruct (as_sub AS _ _ Fm) as [_ [Fd Ea]].
    destruct (as_div AS _ _ _ Fn Ed Fd) as [Fs Ed'].
    destruct (as_sub AS _ _ Fs) as [_ [_ Es]].
    destruct (as_sub AS _ _ Fm2) as [_ [Fp Ea2]].
    destruct (as_mul AS _ _ Fp) as [_ [Fs2 Em]].
    destruct (as_sub AS _ _ Fs2) as [_ [_ Es2]].
    rewrite Es, En in Ed'. rewrite Ed'. cbn [bind].
    rewrite Ea2, Em, Es2, Es, Ea. reflexivity.
Qed.

(** the invariant: the count is the length of the queue, at most the window *)
Definition wo_inv (n : nat) (s : @wo_st A) : Prop := wo_count s = length (wo_q s) /\ (length (wo_q s) <= n)%nat.

Lemma wo_step_sim n s v s' : (1 <= n)%nat -> (forall j, (j <= n)%nat -> N j) -> wo_inv n s ->
  @wo_step A OA n s v = Ok s' -> wo_sfin finb s' = true ->
  @wo_step R OB n (wo_map s) (phi v) = Ok (wo_map s') /\ wo_inv n s'.
Proof.
  intros Hn1 HN [Hc Hl] E Hs'. unfold wo_step in *. cbn [wo_map wo_q wo_mean wo_m2 wo_count].
  replace (map phi (wo_q s) ++ [phi v]) with (map phi (wo_q s ++ [v])) by (rewrite map_app; reflexivity).
  rewrite map_length.
  assert (Hlen : length (wo_q s ++ [v]) = S (length (wo_q s))) by (rewrite app_length; cbn; lia).
  destruct (Nat.ltb n (length (wo_q s ++ [v]))) eqn:El.
  - apply Nat.ltb_lt in El.
    destruct (wo_q s ++ [v]) as [|old q'] eqn:Eq; [cbn in E; discriminate|].
    cbn [pop_front bind map] in *.
    destruct (@wo_remove A OA (wo_mean s) (wo_m2 s) (wo_count s) old) as [[[mean1 m21] c1]|e] eqn:Er; [|discriminate].
    cbn [bind] in E.
    destruct (@wo_add A OA mean1 m21 c1 v) as [[[mean2 m22] c2]|e] eqn:Ea; [|discriminate].
    cbn [bind] in E. inversion E; subst s'; clear E.
    unfold wo_sfin in Hs'. cbn [wo_q wo_mean wo_m2] in Hs'.
    apply andb_true_iff in Hs'. destruct Hs' as [Hs' F2]. apply andb_true_iff in Hs'. destruct Hs' as [_ F1].
    pose proof (wo_remove_count _ _ _ _ _ _ _ Er) as Ec1.
    assert (Hcn : wo_count s = n) by lia.
    destruct (wo_add_sim mean1 m21 c1 v mean2 m22 c2 ltac:(apply HN; lia) Ea F1 F2) as [Ea' [Ec2 [G1 G2]]].
    assert (HN1 : (2 <= wo_count s)%nat -> N (wo_count s - 1)) by (intros; apply HN; lia).
    rewrite (wo_remove_sim _ _ _ _ _ _ _ HN1 Er G1 G2). cbn [bind].
    rewrite Ea'. cbn [bind]. split; [reflexivity|]. unfold wo_inv. cbn [wo_q wo_count]. cbn [length] in *. lia.
  - apply Nat.ltb_ge in El. cbn [bind] in *.
    destruct (@wo_add A OA (wo_mean s) (wo_m2 s) (wo_count s) v) as [[[mean2 m22] c2]|e] eqn:Ea; [|discriminate].
    cbn [bind] in E. inversion E; subst s'; clear E.
    unfold wo_sfin in Hs'. cbn [wo_q wo_mean wo_m2] in Hs'.
    apply andb_true_iff in Hs'. destruct Hs' as [Hs' F2]. apply andb_true_iff in Hs'. destruct Hs' as [_ F1].
    assert (HN1 : N (wo_count s + 1)) by (apply HN; lia).
    destruct (wo_add_sim _ _ _ v mean2 m22 c2 HN1 Ea F1 F2) as [Ea' [Ec2 _]].
    rewrite Ea'. cbn [bind]. split; [unfold wo_map; cbn [wo_q wo_mean wo_m2 wo_count]; reflexivity|].
    unfold wo_inv. cbn [wo_q wo_count]. lia.
Qed.

Lemma wo_sfin_parts s : wo_sfin finb s = true ->
  forallb finb (wo_q s) = true /\ finb (wo_mean s) = true /\ finb (wo_m2 s) = true.
Proof.
  unfold wo_sfin. intros H. apply andb_true_iff in H. destruct H as [H F2].
  apply andb_true_iff in H. destruct H as [Fq F1]. auto.
Qed.

(** [variance()]: a finite m2 gives a finite variance (division by a count >= 1), simulated *)
Lemma wo_variance_sim n s var : (forall j, (j <= n)%nat -> N j) -> wo_inv n s -> wo_sfin finb s = true ->
  @wo_variance A OA s = Ok var -> finb var = true /\ @wo_variance R OB (wo_map s) = Ok (phi var).
Proof.
  intros HN [Hc Hl] Hs E. destruct (wo_sfin_parts s Hs) as [_ [_ Fm2]].
  unfold wo_variance in *. cbn [wo_map wo_count wo_m2].
  destruct (Nat.ltb 1 (wo_count s)) eqn:El.
  - apply Nat.ltb_lt in El.
    assert (HN1 : N (wo_count s - 1)) by (apply HN; lia).
    destruct (as_nat AS (wo_count s - 1)%nat HN1) as [Fn En].
    assert (Fv : finb var = true).
    { apply (as3_div_ge1 AS3 _ _ _ Fm2 Fn); [|exact E]. rewrite En, (as3_ofnat AS3).
      rewrite Rabs_right; [|apply Rle_ge, pos_INR]. change 1 with (INR 1). apply le_INR. lia. }
    split; [exact Fv|]. destruct (as_div AS _ _ _ Fn E Fv) as [_ Ed]. rewrite En in Ed. exact Ed.
  - inversion E; subst var. split; [exact (proj1 (as_s0 AS))|]. rewrite (proj2 (as_s0 AS)). reflexivity.
Qed.

(** [last()] (the standard deviation): ALWAYS finite on a finite state, and simulated *)
Lemma wo_last_sim n s o : (forall j, (j <= n)%nat -> N j) -> wo_inv n s -> wo_sfin finb s = true ->
  @wo_last A OA n s = Ok o -> ofin finb o = true /\ @wo_last R OB n (wo_map s) = Ok (option_map phi o).
Proof.
  intros HN Hi Hs E. unfold wo_last in *. destruct (usub n 1) as [n1|e]; [|discriminate]. cbn [bind] in *.
  replace (wo_count (wo_map s)) with (wo_count s) by reflexivity.
  destruct (Nat.ltb (wo_count s) n1).
  - inversion E; subst o. split; reflexivity.
  - destruct (@wo_variance A OA s) as [var|e] eqn:Ev; [|discriminate]. cbn [bind] in E.
    destruct (wo_variance_sim n s var HN Hi Hs Ev) as [Fv Ev']. rewrite Ev'. cbn [bind].
    pose proof (as_leb AS var s0 Fv (proj1 (as_s0 AS))) as Hleb. rewrite (proj2 (as_s0 AS)) in Hleb.
    rewrite <- Hleb.
    destruct (@sleb A OA var s0) eqn:El.
    + inversion E; subst o. cbn [ofin option_map]. split; [exact (proj1 (as_s0 AS))|].
      rewrite (proj2 (as_s0 AS)). reflexivity.
    + destruct (@ssqrt A OA var) as [r|e] eqn:Eq; [|discriminate]. cbn [bind] in E. inversion E; subst o.
      assert (Hpos : 0 <= phi var).
      { symmetry in Hleb. rewrite (as3_leb AS3), (as3_zero AS3) in Hleb. apply Rleb_false in Hleb. lra. }
      pose proof (as3_sqrt_fin AS3 var r Fv Hpos Eq) as Fr.
      destruct (as3_sqrt AS3 var r Eq Fr) as [_ [_ Eq']]. rewrite Eq'. cbn [bind ofin option_map].
      split; [exact Fr | reflexivity].
Qed.

Definition wo_rel (n : nat) (k : nat) (s : @wo_st A) (t : @wo_st R) : Prop :=
  t = wo_map s /\ wo_inv n s /\ (1 <= n)%nat.

Lemma wo_new_sim n s : @wo_new A OA n = Ok s -> exists t, @wo_new R OB n = Ok t /\ wo_rel n 0 s t.
Proof.
  unfold wo_new. destruct (Nat.ltb 0 n) eqn:Hn; cbn; [|discriminate]. intros E. inversion E; subst s.
  eexists; split; [reflexivity|]. apply Nat.ltb_lt in Hn. split; [|split; [split; cbn; lia | lia]].
  unfold wo_map. cbn [wo_q wo_mean wo_m2 wo_count map]. rewrite (proj2 (as_s0 AS)). reflexivity.
Qed.

Lemma wo_step_rel n k s t v s' : (forall j, (j <= n)%nat -> N j) -> wo_rel n k s t ->
  @wo_step A OA n s v = Ok s' -> wo_sfin finb s' = true ->
  exists t', @wo_step R OB n t (phi v) = Ok t' /\ wo_rel n (S k) s' t'.
Proof.
  intros HN [-> [Hi Hn]] E Hs'. destruct (wo_step_sim n s v s' Hn HN Hi E Hs') as [E' Hi'].
  exists (wo_map s'). split; [exact E'|]. split; [reflexivity|]. split; assumption.
Qed.

(** the checkers of [last()] and [variance()] imply the checker of [mean()] (= the bare state check) *)
Lemma wo_mean_st_ok n s : wo_sfin finb s = true -> st_ok finb (@welford_mean_core A OA n) (wo_sfin finb) s = true.
Proof.
  intros H. unfold st_ok. rewrite H. cbn [clast welford_mean_core ofin andb]. exact (proj1 (proj2 (wo_sfin_parts s H))).
Qed.
Lemma welford_chk_to_mean n vs : all_finite_welford finb n vs = true -> all_finite_welford_mean finb n vs = true.
Proof.
  unfold all_finite_welford, all_finite_welford_mean, all_finite_run. cbn [cnew welford_core welford_mean_core].
  destruct (@wo_new A OA n) as [s|e]; [|discriminate]. intros H. apply andb_true_iff in H. destruct H as [H1 H2].
  apply andb_true_iff. split.
  - apply wo_mean_st_ok. unfold st_ok in H1. apply andb_true_iff in H1. tauto.
  - clear H1. revert s H2. induction vs as [|v vs IH]; intros s H; [reflexivity|].
    cbn [cfold_chk cstep welford_core welford_mean_core] in *.
    destruct (@wo_step A OA n s v) as [s1|e]; [|discriminate].
    apply andb_true_iff in H. destruct H as [H1 H2]. apply andb_true_iff. split; [|exact (IH s1 H2)].
    apply wo_mean_st_ok. unfold st_ok in H1. apply andb_true_iff in H1. tauto.
Qed.
Lemma welford_var_chk_to_mean n vs : all_finite_welford_var finb n vs = true -> all_finite_welford_mean finb n vs = true.
Proof.
  unfold all_finite_welford_var, all_finite_welford_mean, all_finite_run. cbn [cnew welford_var_core welford_mean_core].
  destruct (@wo_new A OA n) as [s|e]; [|discriminate]. intros H. apply andb_true_iff in H. destruct H as [H1 H2].
  apply andb_true_iff. split.
  - apply wo_mean_st_ok. unfold st_ok in H1. apply andb_true_iff in H1. tauto.
  - clear H1. revert s H2. induction vs as [|v vs IH]; intros s H; [reflexivity|].
    cbn [cfold_chk cstep welford_var_core welford_mean_core] in *.
    destruct (@wo_step A OA n s v) as [s1|e]; [|discriminate].
    apply andb_true_iff in H. destruct H as [H1 H2]. apply andb_true_iff. split; [|exact (IH s1 H2)].
    apply wo_mean_st_ok. unfold st_ok in H1. apply andb_true_iff in H1. tauto.
Qed.

Section WoBridge.
Variable n : nat.
Variable fs : list A.
Hypothesis HN : forall j, (j <= n)%nat -> N j.

(** WelfordOnline observed through [last()] *)
Theorem welford_bridge_gen : all_finite_welford finb n fs = true ->
  res_map (option_map phi) (cout (@welford_core A OA n) fs) = cout (@welford_core R OB n) (map phi fs).
Proof.
  intros Hc.
  apply (@core_bridge A phi finb (@welford_core A OA n) (@welford_core R OB n) (wo_sfin finb) (wo_rel n) (length fs)).
  - intros s E. exact (wo_new_sim n s E).
  - intros k s t v s' _ Hr _ E Hs'. exact (wo_step_rel n k s t v s' HN Hr E Hs').
  - intros k s t o _ [-> [Hi _]] Hs E _. exact (proj2 (wo_last_sim n s o HN Hi Hs E)).
  - lia.
  - exact Hc.
Qed.

(** ... through [mean()] *)
Theorem welford_mean_bridge_gen : all_finite_welford_mean finb n fs = true ->
  res_map (option_map phi) (cout (@welford_mean_core A OA n) fs) = cout (@welford_mean_core R OB n) (map phi fs).
Proof.
  intros Hc.
  apply (@core_bridge A phi finb (@welford_mean_core A OA n) (@welford_mean_core R OB n) (wo_sfin finb) (wo_rel n) (length fs)).
  - intros s E. exact (wo_new_sim n s E).
  - intros k s t v s' _ Hr _ E Hs'. exact (wo_step_rel n k s t v s' HN Hr E Hs').
  - intros k s t o _ [-> _] _ E _. cbn [clast welford_mean_core] in *. inversion E; subst o. reflexivity.
  - lia.
  - exact Hc.
Qed.

(** ... through [variance()] *)
Theorem welford_var_bridge_gen : all_finite_welford_var finb n fs = true ->
  res_map (option_map phi) (cout (@welford_var_core A OA n) fs) = cout (@welford_var_core R OB n) (map phi fs).
Proof.
  intros Hc.
  apply (@core_bridge A phi finb (@welford_var_core A OA n) (@welford_var_core R OB n) (wo_sfin finb) (wo_rel n) (length fs)).
  - intros s E. exact (wo_new_sim n s E).
  - intros k s t v s' _ Hr _ E Hs'. exact (wo_step_rel n k s t v s' HN Hr E Hs').
  - intros k s t o _ [-> [Hi _]] Hs E _. cbn [clast welford_var_core] in *.
    destruct (@wo_variance A OA s) as [var|e] eqn:Ev; [|discriminate]. cbn [bind] in E. inversion E; subst o.
    rewrite (proj2 (wo_variance_sim n s var HN Hi Hs Ev)). reflexivity.
  - lia.
  - exact Hc.
Qed.

(** the STATE (queue, mean, m2, count) reached; the checker of [mean()] is the bare state check *)
Theorem welford_bridge_run_gen : all_finite_welford_mean finb n fs = true ->
  exists s, crun (@welford_core A OA n) fs = Ok s /\ crun (@welford_core R OB n) (map phi fs) = Ok (wo_map s) /\
            wo_sfin finb s = true /\ wo_inv n s.
Proof.
  intros Hc.
  destruct (@core_bridge_run A phi finb (@welford_mean_core A OA n) (@welford_mean_core R OB n) (wo_sfin finb) (wo_rel n) (length fs))
    with (fs := fs) as [s [t [E1 [E2 [[Hr [Hi _]] Hs]]]]].
  - intros s E. exact (wo_new_sim n s E).
  - intros k s t v s' _ Hr _ E Hs'. exact (wo_step_rel n k s t v s' HN Hr E Hs').
  - lia.
  - exact Hc.
  - exists s. subst t. rewrite <- !crun_welford_mean_core. split; [exact E1|]. split; [exact E2|]. split; assumption.
Qed.
End WoBridge.

(** ** Vst and Vsct *)
Definition vst_map (s : A * @wo_st A) : R * @wo_st R := (phi (fst s), wo_map (snd s)).
Definition vst_rel (n : nat) (k : nat) (s : A * @wo_st A) (t : R * @wo_st R) : Prop :=
  t = vst_map s /\ wo_inv n (snd s) /\ (1 <= n)%nat.

Lemma vst_new_sim n s : (do w <- @wo_new A OA n; Ok (@s0 A OA, w)) = Ok s ->
  exists t, (do w <- @wo_new R OB n; Ok (@s0 R OB, w)) = Ok t /\ vst_rel n 0 s t.
Proof.
  destruct (@wo_new A OA n) as [w|e] eqn:En; [|discriminate]. cbn [bind]. intros E. inversion E; subst s.
  destruct (wo_new_sim n w En) as [t [Et [-> [Hi Hn]]]]. rewrite Et. cbn [bind].
  eexists; split; [reflexivity|]. split; [|split; assumption].
  unfold vst_map. cbn [fst snd]. rewrite (proj2 (as_s0 AS)). reflexivity.
Qed.

Lemma vst_step_rel n k (s : A * @wo_st A) t v s' : (forall j, (j <= n)%nat -> N j) -> vst_rel n k s t ->
  (do w <- @wo_step A OA n (snd s) v; Ok (v, w)) = Ok s' -> vst_sfin finb s' = true ->
  exists t', (do w <- @wo_step R OB n (snd t) (phi v); Ok (phi v, w)) = Ok t' /\ vst_rel n (S k) s' t'.
Proof.
  intros HN [-> [Hi Hn]] E Hs'. destruct (@wo_step A OA n (snd s) v) as [w|e] eqn:Es; [|discriminate].
  cbn [bind] in E. inversion E; subst s'. unfold vst_sfin in Hs'. cbn [fst snd] in Hs'.
  apply andb_true_iff in Hs'. destruct Hs' as [_ Hw].
  destruct (wo_step_sim n (snd s) v w Hn HN Hi Es Hw) as [E' Hi'].
  unfold vst_map at 1. cbn [snd]. rewrite E'. cbn [bind].
  eexists; split; [reflexivity|]. split; [reflexivity|]. split; assumption.
Qed.

Lemma vst_last_sim n s o : (forall j, (j <= n)%nat -> N j) -> wo_inv n (snd s) -> vst_sfin finb s = true ->
  clast (@vst_core A OA n) s = Ok o -> ofin finb o = true ->
  clast (@vst_core R OB n) (vst_map s) = Ok (option_map phi o).
Proof.
  intros HN Hi Hs E Ho. cbn [clast vst_core] in *. unfold vst_map. cbn [fst snd].
  unfold vst_sfin in Hs. apply andb_true_iff in Hs. destruct Hs as [Fx Hs].
  destruct (@wo_last A OA n (snd s)) as [ol|e] eqn:El; [|discriminate]. cbn [bind] in E.
  destruct (wo_last_sim n (snd s) ol HN Hi Hs El) as [Fl El']. rewrite El'. cbn [bind].
  destruct ol as [sd|]; cbn [option_map ofin] in *.
  - pose proof (as_eqb AS sd s0 Fl (proj1 (as_s0 AS))) as Heq. rewrite (proj2 (as_s0 AS)) in Heq. rewrite <- Heq.
    destruct (@seqb A OA sd s0).
    + inversion E; subst o. reflexivity.
    + destruct (@sdiv A OA (fst s) sd) as [r|e] eqn:Ed; [|discriminate]. cbn [bind] in E. inversion E; subst o.
      cbn [ofin] in Ho. destruct (as_div AS _ _ _ Fl Ed Ho) as [_ Ed']. rewrite Ed'. reflexivity.
  - inversion E; subst o. reflexivity.
Qed.

Lemma vsct_last_sim n s o : (forall j, (j <= n)%nat -> N j) -> wo_inv n (snd s) -> vst_sfin finb s = true ->
  clast (@vsct_core A OA n) s = Ok o -> ofin finb o = true ->
  clast (@vsct_core R OB n) (vst_map s) = Ok (option_map phi o).
Proof.
  intros HN Hi Hs E Ho. cbn [clast vsct_core] in *. unfold vst_map. cbn [fst snd].
  unfold vst_sfin in Hs. apply andb_true_iff in Hs. destruct Hs as [Fx Hs].
  destruct (@wo_last A OA n (snd s)) as [ol|e] eqn:El; [|discriminate]. cbn [bind] in E.
  destruct (wo_last_sim n (snd s) ol HN Hi Hs El) as [Fl El']. rewrite El'. cbn [bind].
  destruct ol as [sd|]; cbn [option_map ofin] in *.
  - pose proof (as_eqb AS sd s0 Fl (proj1 (as_s0 AS))) as Heq. rewrite (proj2 (as_s0 AS)) in Heq. rewrite <- Heq.
    destruct (@seqb A OA sd s0).
    + inversion E; subst o. cbn [option_map]. rewrite (proj2 (as_s0 AS)). reflexivity.
    + destruct (@sdiv A OA (ssub (fst s) (wo_mean (snd s))) sd) as [r|e] eqn:Ed; [|discriminate].
      cbn [bind] in E. inversion E; subst o.
      cbn [ofin] in Ho. destruct (as_div AS _ _ _ Fl Ed Ho) as [Fs Ed'].
      destruct (as_sub AS _ _ Fs) as [_ [_ Es]]. rewrite Es in Ed'.
      cbn [wo_map wo_mean]. rewrite Ed'. reflexivity.
  - inversion E; subst o. reflexivity.
Qed.

Theorem vst_bridge_gen n fs : (forall j, (j <= n)%nat -> N j) -> all_finite_vst finb n fs = true ->
  res_map (option_map phi) (cout (@vst_core A OA n) fs) = cout (@vst_core R OB n) (map phi fs).
Proof.
  intros HN Hc.
  apply (@core_bridge A phi finb (@vst_core A OA n) (@vst_core R OB n) (vst_sfin finb) (vst_rel n) (length fs)).
  - intros s E. exact (vst_new_sim n s E).
  - intros k s t v s' _ Hr _ E Hs'. exact (vst_step_rel n k s t v s' HN Hr E Hs').
  - intros k s t o _ [-> [Hi _]] Hs E Ho. exact (vst_last_sim n s o HN Hi Hs E Ho).
  - lia.
  - exact Hc.
Qed.

Theorem vsct_bridge_gen n fs : (forall j, (j <= n)%nat -> N j) -> all_finite_vsct finb n fs = true ->
  res_map (option_map phi) (cout (@vsct_core A OA n) fs) = cout (@vsct_core R OB n) (map phi fs).
Proof.
  intros HN Hc.
  apply (@core_bridge A phi finb (@vsct_core A OA n) (@vsct_core R OB n) (vst_sfin finb) (vst_rel n) (length fs)).
  - intros s E. exact (vst_new_sim n s E).
  - intros k s t v s' _ Hr _ E Hs'. exact (vst_step_rel n k s t v s' HN Hr E Hs').
  - intros k s t o _ [-> [Hi _]] Hs E Ho. exact (vsct_last_sim n s o HN Hi Hs E Ho).
  - lia.
  - exact Hc.
Qed.

(** ** WelfordRolling, second moment included *)
Definition wr_map (s : @wr_st A) : @wr_st R :=
  {| wr_mean := phi (wr_mean s); wr_s := phi (wr_s s); wr_n := wr_n s |}.
Definition wr_relf (k : nat) (s : @wr_st A) (t : @wr_st R) : Prop := t = wr_map s /\ wr_n s = k.

Lemma wr_step_simf k s t v s' : N (S k) -> wr_relf k s t ->
  @wr_step A OA s v = Ok s' -> wr_sfin finb s' = true ->
  exists t', @wr_step R OB t (phi v) = Ok t' /\ wr_relf (S k) s' t'.
Proof.
  intros HN [-> Hk] E Hs'. unfold wr_step in *. cbv zeta in *. cbn [wr_map wr_mean wr_s wr_n]. rewrite Hk in *.
  destruct (as_nat AS _ HN) as [Fn En].
  destruct (@sdiv A OA (ssub v (wr_mean s)) (sofnat (S k))) as [d|e] eqn:Ed; [|discriminate]. cbn [bind] in E.
  inversion E; subst s'; clear E. unfold wr_sfin in Hs'. cbn [wr_mean wr_s] in Hs'.
  apply andb_true_iff in Hs'. destruct Hs' as [Fm Fs2].
  destruct (as_add AS _ _ Fm) as [_ [Fd Ea]].
  destruct (as_div AS _ _ _ Fn Ed Fd) as [Fs Ed'].
  destruct (as_sub AS _ _ Fs) as [_ [_ Es]].
  destruct (as_add AS _ _ Fs2) as [_ [Fp Ea2]].
  destruct (as_mul AS _ _ Fp) as [_ [Fs3 Em]].
  destruct (as_sub AS _ _ Fs3) as [_ [_ Es3]].
  rewrite Es, En in Ed'. rewrite Ed'. cbn [bind].
  eexists; split; [reflexivity|]. split; [|reflexivity].
  unfold wr_map. cbn [wr_mean wr_s wr_n]. rewrite Ea2, Em, Es3, Es, Ea. reflexivity.
Qed.

Lemma wr_variance_sim k s var : ((1 <= k)%nat -> N k) -> wr_n s = k ->
  @wr_variance A OA s = Ok var -> finb var = true -> finb (wr_s s) = true /\ @wr_variance R OB (wr_map s) = Ok (phi var)
  \/ (wr_n s <= 1)%nat /\ @wr_variance R OB (wr_map s) = Ok (phi var).
Proof.
  intros HN Hk E Fv. unfold wr_variance in *. cbn [wr_map wr_n wr_s].
  destruct (Nat.ltb 1 (wr_n s)) eqn:El.
  - apply Nat.ltb_lt in El. left. rewrite Hk in *. destruct (as_nat AS k (HN ltac:(lia))) as [Fn En].
    destruct (as_div AS _ _ _ Fn E Fv) as [Fs Ed]. rewrite En in Ed. split; assumption.
  - apply Nat.ltb_ge in El. right. split; [exact El|]. inversion E; subst var. rewrite (proj2 (as_s0 AS)). reflexivity.
Qed.

Lemma wr_last_sim k s o : ((1 <= k)%nat -> N k) -> wr_n s = k ->
  @wr_last A OA s = Ok o -> ofin finb o = true -> @wr_last R OB (wr_map s) = Ok (option_map phi o).
Proof.
  intros HN Hk E Ho. unfold wr_last in *. replace (wr_n (wr_map s)) with (wr_n s) by reflexivity.
  destruct (Nat.eqb (wr_n s) 0); [inversion E; reflexivity|].
  destruct (@wr_variance A OA s) as [var|e] eqn:Ev; [|discriminate]. cbn [bind] in E.
  destruct (@ssqrt A OA var) as [r|e] eqn:Eq; [|discriminate]. cbn [bind] in E. inversion E; subst o. cbn [ofin] in Ho.
  destruct (as3_sqrt AS3 var r Eq Ho) as [Fv [_ Eq']].
  assert (Ev' : @wr_variance R OB (wr_map s) = Ok (phi var)).
  { destruct (wr_variance_sim k s var HN Hk Ev Fv) as [[_ H]|[_ H]]; exact H. }
  rewrite Ev'. cbn [bind]. rewrite Eq'. reflexivity.
Qed.

Theorem wr_bridge_gen fs : (forall j, (1 <= j <= length fs)%nat -> N j) -> all_finite_wr finb fs = true ->
  res_map (option_map phi) (cout (@wrolling_core A OA) fs) = cout (@wrolling_core R OB) (map phi fs).
Proof.
  intros HN Hc.
  apply (@core_bridge A phi finb (@wrolling_core A OA) (@wrolling_core R OB) (wr_sfin finb) wr_relf (length fs)).
  - intros s E. cbn [cnew wrolling_core] in *. inversion E; subst s. eexists; split; [reflexivity|].
    split; [|reflexivity]. unfold wr_map, wr_new. cbn [wr_mean wr_s wr_n]. rewrite (proj2 (as_s0 AS)). reflexivity.
  - intros k s t v s' Hk Hr _ E Hs'. apply (wr_step_simf k s t v s'); try assumption. apply HN. lia.
  - intros k s t o Hk [-> Hn] _ E Ho. apply (wr_last_sim k s o); try assumption. intros H1. apply HN. lia.
  - lia.
  - exact Hc.
Qed.

(** the state (mean, sum of squares, count) *)
Theorem wr_bridge_run_gen fs : (forall j, (1 <= j <= length fs)%nat -> N j) -> all_finite_wr finb fs = true ->
  exists s, crun (@wrolling_core A OA) fs = Ok s /\ crun (@wrolling_core R OB) (map phi fs) = Ok (wr_map s) /\
            wr_sfin finb s = true /\ wr_n s = length fs.
Proof.
  intros HN Hc.
  destruct (@core_bridge_run A phi finb (@wrolling_core A OA) (@wrolling_core R OB) (wr_sfin finb) wr_relf (length fs))
    with (fs := fs) as [s [t [E1 [E2 [[Hr Hn] Hs]]]]].
  - intros s E. cbn [cnew wrolling_core] in *. inversion E; subst s. eexists; split; [reflexivity|].
    split; [|reflexivity]. unfold wr_map, wr_new. cbn [wr_mean wr_s wr_n]. rewrite (proj2 (as_s0 AS)). reflexivity.
  - intros k s t v s' Hk Hr _ E Hs'. apply (wr_step_simf k s t v s'); try assumption. apply HN. lia.
  - lia.
  - exact Hc.
  - exists s. subst t. auto.
Qed.
End ViewsW.

Arguments wo_map {A} phi s.
Arguments wr_map {A} phi s.
Arguments wo_inv {A} n s.
Arguments welford_bridge_gen {A OA OB phi finb N} AS3 n fs.
Arguments welford_mean_bridge_gen {A OA OB phi finb N} AS3 n fs.
Arguments welford_var_bridge_gen {A OA OB phi finb N} AS3 n fs.
Arguments welford_bridge_run_gen {A OA OB phi finb N} AS3 n fs.
Arguments welford_chk_to_mean {A OA} finb n vs.
Arguments welford_var_chk_to_mean {A OA} finb n vs.
Arguments vst_bridge_gen {A OA OB phi finb N} AS3 n fs.
Arguments vsct_bridge_gen {A OA OB phi finb N} AS3 n fs.
Arguments wr_bridge_gen {A OA OB phi finb N} AS3 fs.
Arguments wr_bridge_run_gen {A OA OB phi finb N} AS3 fs.
Arguments wr_variance_sim {A OA OB phi finb N} AS3 k s var.
Arguments wo_variance_sim {A OA OB phi finb N} AS3 n s var.
Arguments wo_sfin_parts {A} finb s.

Print Assumptions welford_bridge_gen.
Print Assumptions vst_bridge_gen.
Print Assumptions vsct_bridge_gen.
Print Assumptions wr_bridge_gen.
