(** Primitive binary64 floats ([PrimFloat.float], the arithmetic of Rust's f64), operation by operation, WITH
    overflow: on finite operands [+ - /] give either the correctly rounded real result (when that is below
    2^1024 in magnitude) or the infinity of the sign of the exact result -- never NaN.  Plus the few facts
    about operations on an infinity that the range proofs need, monotonicity of rounding, and an invariant
    principle for [crun] that does not need the step to be total.  Everything is derived from Flocq's
    [IEEE754.PrimFloat] bridge ([Bplus_correct] etc.), nothing by computation on a stream. *)
From Coq Require Import List Arith Lia Reals Lra ZArith Floats Bool.
From SF Require Import Res Scalar View Models Core Spec FloatOps.
From SF.Proofs Require Import FltErr FltBridge Flt2P Flt2B64 Flt2Prim BridgeOps.
From Flocq Require Import Core BinarySingleNaN.
From Flocq Require IEEE754.PrimFloat.
Import ListNotations.
Open Scope R_scope.

Module FP := Flocq.IEEE754.PrimFloat.
Local Notation P2B := FP.Prim2B.
Local Notation F := PrimFloat.float.
Local Notation pinf := PrimFloat.infinity.
Local Notation ninf := PrimFloat.neg_infinity.
Local Notation fnan := PrimFloat.nan.

(** * An invariant principle that tolerates failing steps *)
Lemma crun_pres {T} (c : core T) (D : T -> Prop) (Inv : cst c -> Prop) s0 :
  cnew c = Ok s0 -> Inv s0 ->
  (forall s v s', D v -> Inv s -> cstep c s v = Ok s' -> Inv s') ->
  forall vs s, Forall D vs -> crun c vs = Ok s -> Inv s.
Proof.
  intros Hn H0 Hstep vs. induction vs as [|v vs IH] using rev_ind; intros s HD Hr.
  - unfold crun in Hr. rewrite Hn in Hr. cbn in Hr. inversion Hr; subst; exact H0.
  - apply Forall_app in HD. destruct HD as [HD Hv]. apply Forall_inv in Hv.
    rewrite crun_snoc in Hr. destruct (crun c vs) as [s1|e]; [|discriminate]. cbn [bind] in Hr.
    exact (Hstep s1 v s Hv (IH s1 HD eq_refl) Hr).
Qed.

(** * Rounding *)
Definition BIG : R := bpow radix2 1024.

Lemma BIG_pos : 0 < BIG. Proof. apply bpow_gt_0. Qed.
Lemma rnd_mono x y : x <= y -> b64_round x <= b64_round y.
Proof. apply round_le; [apply FLT_exp_valid; exact b64_prec_gt_0 | apply valid_rnd_N]. Qed.
Lemma rnd_id x : b64_format x -> b64_round x = x.
Proof. apply round_generic. apply valid_rnd_N. Qed.
Lemma rnd_ge a x : b64_format a -> a <= x -> a <= b64_round x.
Proof. intros Fa H. rewrite <- (rnd_id a Fa). apply rnd_mono. exact H. Qed.
Lemma rnd_le a x : b64_format a -> x <= a -> b64_round x <= a.
Proof. intros Fa H. rewrite <- (rnd_id a Fa). apply rnd_mono. exact H. Qed.
Lemma format_opp x : b64_format x -> b64_format (- x).
Proof. apply generic_format_opp. Qed.
Lemma format_100 : b64_format 100. Proof. apply (b64_format_IZR 100). reflexivity. Qed.
Lemma format_m1 : b64_format (-1). Proof. apply (b64_format_IZR (-1)). reflexivity. Qed.
(** twice a binary64 number is a binary64 number (as a real: no upper bound in the FLT format) *)
Lemma format_double x : b64_format x -> b64_format (x * 2).
Proof.
  intros Fx. apply FLT_format_generic in Fx; [|exact b64_prec_gt_0].
  destruct Fx as [f Ex Hm He]. apply generic_format_FLT.
  exists (Float radix2 (Fnum f) (Fexp f + 1)); cbn [Fnum Fexp]; [|exact Hm|lia].
  rewrite Ex. unfold F2R. cbn [Fnum Fexp]. rewrite bpow_plus. cbn. lra.
Qed.

Lemma f2r_lt_BIG x : Rabs (f2r x) < BIG.
Proof. unfold f2r. apply abs_B2R_lt_emax. Qed.
Lemma f2r_bounds x : - BIG < f2r x < BIG.
Proof. pose proof (Rabs_def2 _ _ (f2r_lt_BIG x)). lra. Qed.

(** * Classification, constants *)
Lemma of_B (x : F) b : P2B x = b -> x = FP.B2Prim b.
Proof. intros H. rewrite <- (FP.B2Prim_Prim2B x), H. reflexivity. Qed.

Lemma B_of_SF_inf (b : binary_float prec emax) s : B2SF b = S754_infinity s -> b = B754_infinity s.
Proof. destruct b; cbn; intros H; try discriminate. inversion H; reflexivity. Qed.

Lemma Bsign_R (b : binary_float prec emax) :
  (Bsign b = false -> 0 <= B2R b) /\ (Bsign b = true -> B2R b <= 0).
Proof.
  destruct b as [s|s| |s m e H]; cbn [Bsign B2R]; split; intros Hs; try apply Rle_refl; try discriminate; subst s.
  - apply F2R_ge_0. cbn. lia.
  - apply F2R_le_0. cbn. lia.
Qed.

Lemma f2r_m1 : ffinite (-1)%float = true /\ f2r (-1)%float = -1.
Proof.
  change (-1)%float with (PrimFloat.opp PrimFloat.one).
  destruct (prim_opp_fin PrimFloat.one) as [Hf E]. destruct prim_one_fin as [H1 E1].
  rewrite Hf, E, H1, E1. split; reflexivity.
Qed.
Lemma f2r_100 : ffinite (f_ofdec 100 0) = true /\ f2r (f_ofdec 100 0) = 100.
Proof.
  change (f_ofdec 100 0) with (f_of_Z 100). apply (f_of_Z_exact 100). reflexivity.
Qed.

(** a finite float whose real value lies between those of two finite floats lies between them *)
Lemma range_real lo hi v : ffinite lo = true -> ffinite hi = true -> ffinite v = true ->
  f2r lo <= f2r v <= f2r hi -> PrimFloat.leb lo v && PrimFloat.leb v hi = true.
Proof.
  intros Hl Hh Hv [H1 H2]. rewrite (prim_leb_real lo v Hl Hv), (prim_leb_real v hi Hv Hh).
  apply andb_true_iff. split; apply Rleb_true; assumption.
Qed.

(** * The three operations on FINITE operands: rounded result, or the infinity of the right sign *)
Local Ltac overflow_inf E :=
  unfold binary_overflow in E; cbn [overflow_to_inf] in E; apply B_of_SF_inf in E.

Theorem add_spec x y : ffinite x = true -> ffinite y = true ->
  let r := b64_add (f2r x) (f2r y) in
  (Rabs r < BIG /\ ffinite (PrimFloat.add x y) = true /\ f2r (PrimFloat.add x y) = r)
  \/ (BIG <= r /\ PrimFloat.add x y = pinf) \/ (r <= - BIG /\ PrimFloat.add x y = ninf).
Proof.
  unfold ffinite, f2r. intros Hx Hy. cbv zeta. rewrite FP.add_equiv.
  generalize (Bplus_correct prec emax FP.Hprec FP.Hmax mode_NE _ _ Hx Hy).
  change (round radix2 (SpecFloat.fexp prec emax) (round_mode mode_NE) (B2R (P2B x) + B2R (P2B y)))
    with (b64_add (B2R (P2B x)) (B2R (P2B y))).
  change (bpow radix2 emax) with BIG.
  case Rlt_bool_spec; intros Hov.
  - intros [E [Hf _]]. left. split; [exact Hov|]. split; [exact Hf | exact E].
  - intros [E Hs]. overflow_inf E. right.
    pose proof (Bsign_R (P2B x)) as [Px Nx]. pose proof (Bsign_R (P2B y)) as [Py Ny]. rewrite <- Hs in Py, Ny.
    pose proof (of_B _ _ (eq_trans (FP.add_equiv x y) E)) as Er.
    destruct (Bsign (P2B x)).
    + right. split; [|exact Er].
      assert (H0 : b64_add (B2R (P2B x)) (B2R (P2B y)) <= 0).
      { apply rnd_le; [exact b64_format_0|]. pose proof (Nx eq_refl). pose proof (Ny eq_refl). lra. }
      rewrite Rabs_left1 in Hov by exact H0. lra.
    + left. split; [|exact Er].
      assert (H0 : 0 <= b64_add (B2R (P2B x)) (B2R (P2B y))).
      { apply rnd_ge; [exact b64_format_0|]. pose proof (Px eq_refl). pose proof (Py eq_refl). lra. }
      rewrite Rabs_pos_eq in Hov by exact H0. exact Hov.
Qed.

Theorem sub_spec x y : ffinite x = true -> ffinite y = true ->
  let r := b64_sub (f2r x) (f2r y) in
  (Rabs r < BIG /\ ffinite (PrimFloat.sub x y) = true /\ f2r (PrimFloat.sub x y) = r)
  \/ (BIG <= r /\ PrimFloat.sub x y = pinf) \/ (r <= - BIG /\ PrimFloat.sub x y = ninf).
Proof.
  unfold ffinite, f2r. intros Hx Hy. cbv zeta. rewrite FP.sub_equiv.
  generalize (Bminus_correct prec emax FP.Hprec FP.Hmax mode_NE _ _ Hx Hy).
  change (round radix2 (SpecFloat.fexp prec emax) (round_mode mode_NE) (B2R (P2B x) - B2R (P2B y)))
    with (b64_sub (B2R (P2B x)) (B2R (P2B y))).
  change (bpow radix2 emax) with BIG.
  case Rlt_bool_spec; intros Hov.
  - intros [E [Hf _]]. left. split; [exact Hov|]. split; [exact Hf | exact E].
  - intros [E Hs]. overflow_inf E. right.
    pose proof (Bsign_R (P2B x)) as [Px Nx]. pose proof (Bsign_R (P2B y)) as [Py Ny].
    pose proof (of_B _ _ (eq_trans (FP.sub_equiv x y) E)) as Er.
    destruct (Bsign (P2B x)); destruct (Bsign (P2B y)); try discriminate Hs.
    + right. split; [|exact Er].
      assert (H0 : b64_sub (B2R (P2B x)) (B2R (P2B y)) <= 0).
      { apply rnd_le; [exact b64_format_0|]. pose proof (Nx eq_refl). pose proof (Py eq_refl). lra. }
      rewrite Rabs_left1 in Hov by exact H0. lra.
    + left. split; [|exact Er].
      assert (H0 : 0 <= b64_sub (B2R (P2B x)) (B2R (P2B y))).
      { apply rnd_ge; [exact b64_format_0|]. pose proof (Px eq_refl). pose proof (Ny eq_refl). lra. }
      rewrite Rabs_pos_eq in Hov by exact H0. exact Hov.
Qed.

Theorem div_spec x y : ffinite x = true -> ffinite y = true -> f2r y <> 0 ->
  let r := b64_div (f2r x) (f2r y) in
  (Rabs r < BIG /\ ffinite (PrimFloat.div x y) = true /\ f2r (PrimFloat.div x y) = r)
  \/ (BIG <= r /\ PrimFloat.div x y = pinf) \/ (r <= - BIG /\ PrimFloat.div x y = ninf).
Proof.
  unfold ffinite, f2r. intros Hx Hy Hy0. cbv zeta. rewrite FP.div_equiv.
  generalize (Bdiv_correct prec emax FP.Hprec FP.Hmax mode_NE (P2B x) (P2B y) Hy0).
  change (round radix2 (SpecFloat.fexp prec emax) (round_mode mode_NE) (B2R (P2B x) / B2R (P2B y)))
    with (b64_div (B2R (P2B x)) (B2R (P2B y))).
  change (bpow radix2 emax) with BIG.
  case Rlt_bool_spec; intros Hov.
  - intros [E [Hf _]]. left. split; [exact Hov|]. split; [rewrite Hf; exact Hx | exact E].
  - intros E. overflow_inf E. right.
    pose proof (Bsign_R (P2B x)) as [Px Nx]. pose proof (Bsign_R (P2B y)) as [Py Ny].
    pose proof (of_B _ _ (eq_trans (FP.div_equiv x y) E)) as Er.
    set (a := B2R (P2B x)) in *. set (b := B2R (P2B y)) in *.
    assert (Hq : forall q, 0 <= q -> BIG <= Rabs (b64_div a b) -> a / b = q -> BIG <= b64_div a b).
    { intros q Hq Hb Eq. rewrite Rabs_pos_eq in Hb; [exact Hb|].
      apply rnd_ge; [exact b64_format_0 | rewrite Eq; exact Hq]. }
    assert (Hq' : forall q, q <= 0 -> BIG <= Rabs (b64_div a b) -> a / b = q -> b64_div a b <= - BIG).
    { intros q Hq0 Hb Eq. rewrite Rabs_left1 in Hb; [lra|].
      apply rnd_le; [exact b64_format_0 | rewrite Eq; exact Hq0]. }
    destruct (Bsign (P2B x)); destruct (Bsign (P2B y)); cbn [xorb] in Er.
    + left. split; [|exact Er]. pose proof (Nx eq_refl). pose proof (Ny eq_refl).
      apply (Hq ((- a) / (- b))); [|exact Hov | field; exact Hy0].
      apply Rmult_le_pos; [lra|]. apply Rlt_le, Rinv_0_lt_compat. lra.
    + right. split; [|exact Er]. pose proof (Nx eq_refl). pose proof (Py eq_refl).
      apply (Hq' (- ((- a) / b))); [|exact Hov | field; exact Hy0].
      assert (0 <= (- a) / b); [|lra]. apply Rmult_le_pos; [lra|]. apply Rlt_le, Rinv_0_lt_compat. lra.
    + right. split; [|exact Er]. pose proof (Px eq_refl). pose proof (Ny eq_refl).
      apply (Hq' (- (a / (- b)))); [|exact Hov | field; exact Hy0].
      assert (0 <= a / (- b)); [|lra]. apply Rmult_le_pos; [lra|]. apply Rlt_le, Rinv_0_lt_compat. lra.
    + left. split; [|exact Er]. pose proof (Px eq_refl). pose proof (Py eq_refl).
      apply (Hq (a / b)); [|exact Hov | reflexivity].
      apply Rmult_le_pos; [lra|]. apply Rlt_le, Rinv_0_lt_compat. lra.
Qed.

(** * Operations with an infinity *)
Lemma P2B_pinf : P2B pinf = B754_infinity false. Proof. reflexivity. Qed.
Lemma P2B_ninf : P2B ninf = B754_infinity true. Proof. reflexivity. Qed.

Local Ltac by_cases y Hy :=
  unfold ffinite in Hy; destruct (P2B y) as [s|s| |s m e H]; try discriminate Hy; try destruct s; reflexivity.

Lemma add_pinf_l y : ffinite y = true -> PrimFloat.add pinf y = pinf.
Proof. intros Hy. apply (of_B _ (B754_infinity false)). rewrite FP.add_equiv, P2B_pinf. by_cases y Hy. Qed.
Lemma add_pinf_r y : ffinite y = true -> PrimFloat.add y pinf = pinf.
Proof. intros Hy. apply (of_B _ (B754_infinity false)). rewrite FP.add_equiv, P2B_pinf. by_cases y Hy. Qed.
Lemma sub_pinf_l y : ffinite y = true -> PrimFloat.sub pinf y = pinf.
Proof. intros Hy. apply (of_B _ (B754_infinity false)). rewrite FP.sub_equiv, P2B_pinf. by_cases y Hy. Qed.
Lemma sub_pinf_r y : ffinite y = true -> PrimFloat.sub y pinf = ninf.
Proof. intros Hy. apply (of_B _ (B754_infinity true)). rewrite FP.sub_equiv, P2B_pinf. by_cases y Hy. Qed.

(** finite / +infinity is a zero; and a finite quotient by +infinity forces a finite dividend *)
Lemma div_pinf_r x : ffinite x = true -> ffinite (PrimFloat.div x pinf) = true /\ f2r (PrimFloat.div x pinf) = 0.
Proof.
  unfold ffinite, f2r. rewrite FP.div_equiv, P2B_pinf. intros Hx.
  destruct (P2B x) as [s|s| |s m e H]; try discriminate Hx; cbn; split; reflexivity.
Qed.
Lemma div_pinf_r_fin x : ffinite (PrimFloat.div x pinf) = true -> ffinite x = true.
Proof.
  unfold ffinite. rewrite FP.div_equiv, P2B_pinf.
  destruct (P2B x) as [s|s| |s m e H]; cbn; intros Hx; try discriminate Hx; reflexivity.
Qed.
(** +infinity / positive finite = +infinity *)
Lemma div_pinf_l y : ffinite y = true -> 0 < f2r y -> PrimFloat.div pinf y = pinf.
Proof.
  unfold ffinite, f2r. intros Hy Hp. apply (of_B _ (B754_infinity false)). rewrite FP.div_equiv, P2B_pinf.
  pose proof (Bsign_R (P2B y)) as [_ Ny].
  destruct (P2B y) as [s|s| |s m e H]; try discriminate Hy.
  - cbn [B2R] in Hp. lra.
  - destruct s; [|reflexivity]. specialize (Ny eq_refl). lra.
Qed.

(** * Comparisons of finite floats are those of the real values *)
Lemma ltb_real_true x y : ffinite x = true -> ffinite y = true -> PrimFloat.ltb x y = true -> f2r x < f2r y.
Proof. intros Hx Hy H. rewrite (prim_ltb_real x y Hx Hy) in H. apply Rltb_true. exact H. Qed.
Lemma ltb_real_false x y : ffinite x = true -> ffinite y = true -> PrimFloat.ltb x y = false -> f2r y <= f2r x.
Proof. intros Hx Hy H. rewrite (prim_ltb_real x y Hx Hy) in H. apply Rltb_false. exact H. Qed.
Lemma eqb_real_true x y : ffinite x = true -> ffinite y = true -> PrimFloat.eqb x y = true -> f2r x = f2r y.
Proof. intros Hx Hy H. rewrite (prim_eqb_real x y Hx Hy) in H. apply Reqb_true. exact H. Qed.
Lemma eqb_real_false x y : ffinite x = true -> ffinite y = true -> PrimFloat.eqb x y = false -> f2r x <> f2r y.
Proof. intros Hx Hy H. rewrite (prim_eqb_real x y Hx Hy) in H. apply Reqb_false. exact H. Qed.

(** * Non-negative extended values: +infinity, or finite with a non-negative real value *)
Definition nnx (x : F) : Prop := x = pinf \/ (ffinite x = true /\ 0 <= f2r x).

Lemma nnx_zero : nnx PrimFloat.zero.
Proof. right. destruct prim_zero_fin as [H E]. rewrite E. split; [exact H | lra]. Qed.

Lemma nnx_add x y : nnx x -> nnx y -> nnx (PrimFloat.add x y).
Proof.
  intros [->|[Fx Px]] [->|[Fy Py]].
  - left. reflexivity.
  - left. apply add_pinf_l. exact Fy.
  - left. apply add_pinf_r. exact Fx.
  - destruct (add_spec x y Fx Fy) as [(_ & Hf & E)|[(_ & E)|(Hr & _)]].
    + right. split; [exact Hf|]. rewrite E. apply rnd_ge; [exact b64_format_0 | lra].
    + left. exact E.
    + exfalso. assert (0 <= b64_add (f2r x) (f2r y)) by (apply rnd_ge; [exact b64_format_0 | lra]).
      pose proof BIG_pos. lra.
Qed.

Lemma nnx_div_pos x w : nnx x -> ffinite w = true -> 0 < f2r w -> nnx (PrimFloat.div x w).
Proof.
  intros [->|[Fx Px]] Fw Pw.
  - left. apply div_pinf_l; assumption.
  - assert (H0 : 0 <= b64_div (f2r x) (f2r w)).
    { apply rnd_ge; [exact b64_format_0|]. apply Rmult_le_pos; [exact Px|]. apply Rlt_le, Rinv_0_lt_compat. exact Pw. }
    destruct (div_spec x w Fx Fw ltac:(lra)) as [(_ & Hf & E)|[(_ & E)|(Hr & _)]].
    + right. split; [exact Hf|]. rewrite E. exact H0.
    + left. exact E.
    + exfalso. pose proof BIG_pos. lra.
Qed.

Print Assumptions add_spec.
Print Assumptions sub_spec.
Print Assumptions div_spec.
