(** BridgeE, part 2: WelfordOnline at f64 with NO executable hypothesis.
    [welford_all_finite_of_bound]: finite inputs of magnitude at most M with 16 n M^2 <= 2^1023 never overflow the f64
    state (queue, mean, m2) of WelfordOnline(n), 2 <= n < 2^53, for streams shorter than 2^45 with 48 t 2^-1075 <= M;
    [welford_mean_prim_drift_bounded], [welford_m2_prim_drift_bounded]; [welford_f64_finite] (C08 at f64). *)
From Coq Require Import List Arith Lia Reals Lra ZArith Floats Bool.
From SF Require Import Res Scalar View Models Spec Core FloatOps SpecBridge SpecBridgeW SpecRoll SpecWelf.
From SF.Proofs Require Import Window RBase SmaP WinAP RollP WelfP FltErr FltBridge Flt2P Flt2B64 Flt2Prim
  BridgeOps BridgeSim BridgeP WdriftArith WdriftP WdriftB64 WdriftVar WdriftVarB64 FAccBase BridgeWOps BridgeWSim BridgeWP
  BridgeWBound.
From Flocq Require Import Core BinarySingleNaN.
Import ListNotations.
Open Scope R_scope.
Local Notation float := PrimFloat.float.

(** * 1. Magnitude of a rounded value: |fl(x)| <= 1.01 |x| + eta, for every real x *)
Lemma rnd_abs x B : Rabs x <= B -> Rabs (b64_round x) <= 101 / 100 * B + b64_eta.
Proof.
  intros H. destruct (b64_round_err x) as [d [e [Hd [He E]]]]. rewrite E.
  eapply Rle_trans; [apply Rabs_triang|]. apply Rplus_le_compat; [|exact He].
  rewrite Rabs_mult. rewrite b64_u_val in Hd.
  assert (H1 : Rabs (1 + d) <= 101 / 100).
  { eapply Rle_trans; [apply Rabs_triang|]. rewrite Rabs_R1. lra. }
  pose proof (Rabs_pos x) as Px. pose proof (Rabs_pos (1 + d)) as Pd.
  rewrite (Rmult_comm (101 / 100) B). apply Rmult_le_compat; assumption.
Qed.

Lemma Rabs_sub_le' a b A B : Rabs a <= A -> Rabs b <= B -> Rabs (a - b) <= A + B.
Proof. intros Ha Hb. unfold Rminus. eapply Rle_trans; [apply Rabs_triang|]. rewrite Rabs_Ropp. lra. Qed.
Lemma Rabs_add_le' a b A B : Rabs a <= A -> Rabs b <= B -> Rabs (a + b) <= A + B.
Proof. intros Ha Hb. eapply Rle_trans; [apply Rabs_triang|]. lra. Qed.
Lemma Rabs_div_ge1 a N A : 1 <= N -> Rabs a <= A -> Rabs (a / N) <= A.
Proof.
  intros HN Ha. unfold Rdiv. rewrite Rabs_mult, Rabs_inv, (Rabs_right N) by lra.
  assert (H1 : / N <= 1) by (rewrite <- Rinv_1; apply Rinv_le_contravar; lra).
  assert (H0 : 0 < / N) by (apply Rinv_0_lt_compat; lra). pose proof (Rabs_pos a). nra.
Qed.

(** the five rounded intermediates of one Welford update / downdate, given bounds on the operands;
    [sg] chooses the update (+) or the downdate (-): the magnitudes are the same *)
Section Mag.
Variables m q x N M A Q : R.
Hypothesis Hm : Rabs m <= A.
Hypothesis Hx : Rabs x <= M.
Hypothesis Hq : Rabs q <= Q.
Hypothesis HN : 1 <= N.
Let e := b64_eta.
Definition mag_D := 101 / 100 * (M + A) + b64_eta.
Definition mag_Dd := 101 / 100 * mag_D + b64_eta.
Definition mag_A' := 101 / 100 * (A + mag_Dd) + b64_eta.
Definition mag_T := 101 / 100 * (M + mag_A') + b64_eta.
Definition mag_P := 101 / 100 * (mag_D * mag_T) + b64_eta.
Definition mag_Q' := 101 / 100 * (Q + mag_P) + b64_eta.

Lemma mag_delta : Rabs (b64_sub x m) <= mag_D.
Proof. unfold b64_sub, mag_D. apply rnd_abs. apply Rabs_sub_le'; assumption. Qed.
Lemma mag_d : Rabs (b64_div (b64_sub x m) N) <= mag_Dd.
Proof. unfold b64_div, mag_Dd. apply rnd_abs. apply Rabs_div_ge1; [exact HN | exact mag_delta]. Qed.
Lemma mag_mean_add : Rabs (b64_add m (b64_div (b64_sub x m) N)) <= mag_A'.
Proof. unfold b64_add at 1, mag_A'. apply rnd_abs. apply Rabs_add_le'; [exact Hm | exact mag_d]. Qed.
Lemma mag_mean_sub : Rabs (b64_sub m (b64_div (b64_sub x m) N)) <= mag_A'.
Proof. unfold b64_sub at 1, mag_A'. apply rnd_abs. apply Rabs_sub_le'; [exact Hm | exact mag_d]. Qed.
Lemma mag_t m' : Rabs m' <= mag_A' -> Rabs (b64_sub x m') <= mag_T.
Proof. intros H. unfold b64_sub, mag_T. apply rnd_abs. apply Rabs_sub_le'; assumption. Qed.
Lemma mag_p m' : Rabs m' <= mag_A' -> Rabs (b64_mul (b64_sub x m) (b64_sub x m')) <= mag_P.
Proof.
  intros H. unfold b64_mul, mag_P. apply rnd_abs. rewrite Rabs_mult.
  apply Rmult_le_compat; try apply Rabs_pos; [exact mag_delta | exact (mag_t m' H)].
Qed.
Lemma mag_q_add m' : Rabs m' <= mag_A' -> Rabs (b64_add q (b64_mul (b64_sub x m) (b64_sub x m'))) <= mag_Q'.
Proof. intros H. unfold b64_add, mag_Q'. apply rnd_abs. apply Rabs_add_le'; [exact Hq | exact (mag_p m' H)]. Qed.
Lemma mag_q_sub m' : Rabs m' <= mag_A' -> Rabs (b64_sub q (b64_mul (b64_sub x m) (b64_sub x m'))) <= mag_Q'.
Proof. intros H. unfold b64_sub at 1, mag_Q'. apply rnd_abs. apply Rabs_sub_le'; [exact Hq | exact (mag_p m' H)]. Qed.
End Mag.

(** * 2. One Welford update / downdate at f64, when the rounded intermediates stay below 2^1024 *)
Definition LIM : R := bpow radix2 1024.

Lemma prim_wo_add mean m2 count x A Q M : ffinite mean = true -> ffinite m2 = true -> ffinite x = true ->
  (Z.of_nat (count + 1) < 2 ^ 53)%Z ->
  Rabs (f2r mean) <= A -> Rabs (f2r x) <= M -> Rabs (f2r m2) <= Q ->
  mag_D M A < LIM -> mag_Dd M A < LIM -> mag_A' M A < LIM -> mag_T M A < LIM -> mag_P M A < LIM -> mag_Q' M A Q < LIM ->
  exists mean' m2', @wo_add float FOps mean m2 count x = Ok (mean', m2', (count + 1)%nat) /\
    ffinite mean' = true /\ ffinite m2' = true /\ Rabs (f2r mean') <= mag_A' M A /\ Rabs (f2r m2') <= mag_Q' M A Q.
Proof.
  intros Fm Fq Fx Hc Hm Hx Hq LD LDd LA LT LP LQ.
  destruct (f_ofnat_exact (count + 1) Hc) as [Fn En].
  assert (HN : 1 <= INR (count + 1)) by (change 1 with (INR 1); apply le_INR; lia).
  unfold wo_add. cbv zeta. cbn [ssub sadd smul sdiv sofnat FOps bind].
  pose proof (mag_delta (f2r mean) (f2r x) M A Hm Hx) as B1.
  destruct (prim_sub_b64 x mean Fx Fm ltac:(unfold LIM in *; lra)) as [E1 F1].
  pose proof (mag_d (f2r mean) (f2r x) (INR (count + 1)) M A Hm Hx HN) as B2.
  destruct (prim_div_b64 (PrimFloat.sub x mean) (f_ofnat (count + 1)) F1 Fn) as [E2 F2].
  { rewrite En. lra. }
  { rewrite E1, En. unfold LIM in *. lra. }
  rewrite E1, En in E2.
  pose proof (mag_mean_add (f2r mean) (f2r x) (INR (count + 1)) M A Hm Hx HN) as B3.
  destruct (prim_add_b64 mean _ Fm F2) as [E3 F3].
  { rewrite E2. unfold LIM in *. lra. }
  rewrite E2 in E3. rewrite <- E3 in B3.
  pose proof (mag_t (f2r x) M A Hx _ B3) as B4.
  destruct (prim_sub_b64 x _ Fx F3 ltac:(unfold LIM in *; lra)) as [E4 F4].
  pose proof (mag_p (f2r mean) (f2r x) M A Hm Hx _ B3) as B5.
  destruct (prim_mul_b64 _ _ F1 F4) as [E5 F5].
  { rewrite E1, E4. unfold LIM in *. lra. }
  rewrite E1, E4 in E5.
  pose proof (mag_q_add (f2r mean) (f2r m2) (f2r x) M A Q Hm Hx Hq _ B3) as B6.
  destruct (prim_add_b64 m2 _ Fq F5) as [E6 F6].
  { rewrite E5. unfold LIM in *. lra. }
  rewrite E5 in E6. rewrite <- E6 in B6.
  eexists; eexists. split; [reflexivity|]. repeat split; assumption.
Qed.

Lemma prim_wo_remove mean m2 count old A Q M : ffinite mean = true -> ffinite m2 = true -> ffinite old = true ->
  (2 <= count)%nat -> (Z.of_nat count < 2 ^ 53)%Z ->
  Rabs (f2r mean) <= A -> Rabs (f2r old) <= M -> Rabs (f2r m2) <= Q ->
  mag_D M A < LIM -> mag_Dd M A < LIM -> mag_A' M A < LIM -> mag_T M A < LIM -> mag_P M A < LIM -> mag_Q' M A Q < LIM ->
  exists mean' m2', @wo_remove float FOps mean m2 count old = Ok (mean', m2', (count - 1)%nat) /\
    ffinite mean' = true /\ ffinite m2' = true /\ Rabs (f2r mean') <= mag_A' M A /\ Rabs (f2r m2') <= mag_Q' M A Q.
Proof.
  intros Fm Fq Fx Hc2 Hc Hm Hx Hq LD LDd LA LT LP LQ.
  destruct (f_ofnat_exact (count - 1) ltac:(lia)) as [Fn En].
  assert (HN : 1 <= INR (count - 1)) by (change 1 with (INR 1); apply le_INR; lia).
  unfold wo_remove. destruct (Nat.leb_spec count 1) as [H|_]; [lia|].
  cbv zeta. cbn [ssub sadd smul sdiv sofnat FOps bind].
  pose proof (mag_delta (f2r mean) (f2r old) M A Hm Hx) as B1.
  destruct (prim_sub_b64 old mean Fx Fm ltac:(unfold LIM in *; lra)) as [E1 F1].
  pose proof (mag_d (f2r mean) (f2r old) (INR (count - 1)) M A Hm Hx HN) as B2.
  destruct (prim_div_b64 (PrimFloat.sub old mean) (f_ofnat (count - 1)) F1 Fn) as [E2 F2].
  { rewrite En. lra. }
  { rewrite E1, En. unfold LIM in *. lra. }
  rewrite E1, En in E2.
  pose proof (mag_mean_sub (f2r mean) (f2r old) (INR (count - 1)) M A Hm Hx HN) as B3.
  destruct (prim_sub_b64 mean _ Fm F2) as [E3 F3].
  { rewrite E2. unfold LIM in *. lra. }
  rewrite E2 in E3. rewrite <- E3 in B3.
  pose proof (mag_t (f2r old) M A Hx _ B3) as B4.
  destruct (prim_sub_b64 old _ Fx F3 ltac:(unfold LIM in *; lra)) as [E4 F4].
  pose proof (mag_p (f2r mean) (f2r old) M A Hm Hx _ B3) as B5.
  destruct (prim_mul_b64 _ _ F1 F4) as [E5 F5].
  { rewrite E1, E4. unfold LIM in *. lra. }
  rewrite E1, E4 in E5.
  pose proof (mag_q_sub (f2r mean) (f2r m2) (f2r old) M A Q Hm Hx Hq _ B3) as B6.
  destruct (prim_sub_b64 m2 _ Fq F5) as [E6 F6].
  { rewrite E5. unfold LIM in *. lra. }
  rewrite E5 in E6. rewrite <- E6 in B6.
  eexists; eexists. split; [reflexivity|]. repeat split; assumption.
Qed.

(** * 3. The numeric side conditions, from  16 n M^2 <= 2^1023 *)
Lemma LIM_2 : LIM = 2 * bpow radix2 1023.
Proof. unfold LIM. change 1024%Z with (1 + 1023)%Z. rewrite bpow_plus. f_equal. Qed.

Lemma M_le_of_sq N M : 2 <= N -> 0 <= M -> 16 * N * M * M <= bpow radix2 1023 -> 32 * M <= bpow radix2 1023.
Proof.
  intros HN HM H.
  assert (HB : 32 <= bpow radix2 1023).
  { apply Rle_trans with (bpow radix2 5); [cbn; lra | apply bpow_le; lia]. }
  destruct (Rle_dec M 1) as [H1|H1]; [lra|].
  assert (M <= M * M) by nra. assert (2 * (M * M) <= N * (M * M)) by nra. nra.
Qed.

Definition wo_A0 (M : R) : R := 9 / 8 * M.
Definition wo_Q0 (N M : R) : R := 2 * N * (M * M) + M / 16.

Lemma welford_lim N M : 2 <= N -> 0 <= M -> b64_eta <= M / 48 -> 16 * N * M * M <= bpow radix2 1023 ->
  let A0 := wo_A0 M in let Q0 := wo_Q0 N M in let A1 := mag_A' M A0 in let Q1 := mag_Q' M A0 Q0 in
  (mag_D M A0 < LIM /\ mag_Dd M A0 < LIM /\ mag_A' M A0 < LIM /\ mag_T M A0 < LIM /\ mag_P M A0 < LIM /\ mag_Q' M A0 Q0 < LIM) /\
  (mag_D M A1 < LIM /\ mag_Dd M A1 < LIM /\ mag_A' M A1 < LIM /\ mag_T M A1 < LIM /\ mag_P M A1 < LIM /\ mag_Q' M A1 Q1 < LIM).
Proof.
  intros HN HM He HB. cbv zeta.
  pose proof (M_le_of_sq N M HN HM HB) as HM32. pose proof b64_eta_nonneg as He0.
  rewrite LIM_2. set (B := bpow radix2 1023) in *.
  assert (HB0 : 0 < B) by apply bpow_gt_0.
  assert (HX : 0 <= M * M) by (apply Rmult_le_pos; assumption).
  assert (HNX : 2 * (M * M) <= N * (M * M)) by (apply Rmult_le_compat_r; assumption).
  assert (HB' : 16 * (N * (M * M)) <= B) by lra.
  (* downdate, from A0 = 9/8 M *)
  assert (D0 : 0 <= mag_D M (wo_A0 M) <= 22 / 10 * M) by (unfold mag_D, wo_A0; lra).
  assert (Dd0 : 0 <= mag_Dd M (wo_A0 M) <= 23 / 10 * M) by (unfold mag_Dd; lra).
  assert (A1 : 0 <= mag_A' M (wo_A0 M) <= 35 / 10 * M) by (unfold mag_A', wo_A0 in *; lra).
  assert (T0 : 0 <= mag_T M (wo_A0 M) <= 46 / 10 * M) by (unfold mag_T; lra).
  assert (DT0 : 0 <= mag_D M (wo_A0 M) * mag_T M (wo_A0 M) <= 1012 / 100 * (M * M)).
  { split; [apply Rmult_le_pos; lra|].
    replace (1012 / 100 * (M * M)) with ((22 / 10 * M) * (46 / 10 * M)) by field. apply Rmult_le_compat; lra. }
  assert (P0 : 0 <= mag_P M (wo_A0 M) <= 1023 / 100 * (M * M) + M / 48) by (unfold mag_P; lra).
  assert (Q1 : 0 <= mag_Q' M (wo_A0 M) (wo_Q0 N M)
               <= 101 / 100 * (2 * N * (M * M) + M / 16 + 1023 / 100 * (M * M) + M / 48) + M / 48).
  { unfold mag_Q', wo_Q0. assert (0 <= N * (M * M)) by nra. lra. }
  (* update, from A1 <= 3.5 M *)
  set (a1 := mag_A' M (wo_A0 M)) in *. set (q1 := mag_Q' M (wo_A0 M) (wo_Q0 N M)) in *.
  assert (D1 : 0 <= mag_D M a1 <= 46 / 10 * M) by (unfold mag_D; lra).
  assert (Dd1 : 0 <= mag_Dd M a1 <= 47 / 10 * M) by (unfold mag_Dd; lra).
  assert (A2 : 0 <= mag_A' M a1 <= 84 / 10 * M) by (unfold mag_A'; lra).
  assert (T1 : 0 <= mag_T M a1 <= 96 / 10 * M) by (unfold mag_T; lra).
  assert (DT1 : 0 <= mag_D M a1 * mag_T M a1 <= 4416 / 100 * (M * M)).
  { split; [apply Rmult_le_pos; lra|].
    replace (4416 / 100 * (M * M)) with ((46 / 10 * M) * (96 / 10 * M)) by field. apply Rmult_le_compat; lra. }
  assert (P1 : 0 <= mag_P M a1 <= 4461 / 100 * (M * M) + M / 48) by (unfold mag_P; lra).
  assert (Q2 : mag_Q' M a1 q1 <= 101 / 100 * (q1 + (4461 / 100 * (M * M) + M / 48)) + M / 48) by (unfold mag_Q'; lra).
  repeat split; try lra.
Qed.

(** * 4. The binary64-rounded state of WelfordOnline on a bounded stream: a-priori bounds on mean and m2 *)
Lemma welford_state_b64 n M vs : (2 <= n)%nat -> (Z.of_nat n < 2 ^ 53)%Z ->
  (Z.of_nat (length vs) < 2 ^ 45)%Z -> 0 <= M -> 48 * (INR (length vs) * b64_eta) <= M ->
  Forall (fun x => b64_format x /\ Rabs x <= M) vs ->
  exists s, crun (@welford_core R B64Ops n) vs = Ok s /\ wo_q s = lastn n vs /\
            Rabs (wo_mean s) <= wo_A0 M /\ Rabs (wo_m2 s) <= wo_Q0 (INR n) M.
Proof.
  intros Hn Hn53 Ht HM He Hvs.
  assert (Hsm : 160 * (INR (length vs) * b64_u) <= 1).
  { pose proof (INR_lt_pow _ _ Ht) as Hb. change (2 ^ 45)%Z with 35184372088832%Z in Hb. rewrite b64_u_val. lra. }
  destruct (wo2_run b64_u b64_eta b64_add b64_sub b64_mul b64_div b64_format b64_u_nonneg b64_eta_nonneg
              b64_format_0 b64_add_ok b64_sub_ok b64_mul_ok b64_div_ok M HM n Hn (length vs) (b64_nat_F n Hn53) Hsm He vs Hvs)
    as [s [Hr [[Hq [_ Hi]] _]]].
  change (crun (@welford_core R B64Ops n) vs = Ok s) in Hr.
  destruct (welford_m2_drift_b64 n M vs Hn Hn53 Ht HM He Hvs) as [s_fl [s_ex [Hr' [_ [Hx2 HE]]]]].
  rewrite Hr in Hr'. inversion Hr'; subst s_fl; clear Hr'.
  exists s. split; [exact Hr|]. split; [exact Hq|].
  destruct (Hi (le_n _)) as [_ Em].
  pose proof (wo_apriori b64_u b64_eta b64_u_nonneg b64_eta_nonneg M HM (length vs) Hsm He (length vs) (le_n _)) as Hap.
  pose proof (Forall_lastn _ n vs Hvs) as HW.
  assert (HWa : Forall (fun x => Rabs x <= M) (lastn n vs)).
  { revert HW. apply Forall_impl. intros x [_ H]; exact H. }
  pose proof (Rmean_bound b64_format M HM (lastn n vs) HW) as Hmu.
  split.
  - unfold wo_A0. replace (wo_mean s) with (rmean (lastn n vs) + (wo_mean s - rmean (lastn n vs))) by ring.
    eapply Rle_trans; [apply Rabs_triang|]. change (Rmean (lastn n vs)) with (rmean (lastn n vs)) in Hmu. lra.
  - rewrite Hx2 in HE. pose proof (rsqdev_mean_le M (lastn n vs) HWa) as [HS0 HS1].
    set (S' := rsqdev (rmean (lastn n vs)) (lastn n vs)) in *.
    assert (Hc : INR (length (lastn n vs)) <= INR n) by (apply le_INR; rewrite lastn_length; lia).
    set (N := INR n) in *. set (t := INR (length vs)) in *.
    assert (HN : 2 <= N) by (unfold N; change 2 with (INR 2); apply le_INR; exact Hn).
    assert (Ht0 : 0 <= t) by apply pos_INR.
    assert (HX : 0 <= M * M) by (apply Rmult_le_pos; assumption).
    pose proof b64_eta_nonneg as He0. pose proof b64_u_nonneg as Hu0.
    assert (E1 : t * ((33 * N + 80) * (b64_u * (M * M)) + (13 * N * M + 3) * b64_eta)
                 = (33 * N + 80) * (M * M) * (t * b64_u) + (13 * N * M + 3) * (t * b64_eta)) by ring.
    rewrite E1 in HE.
    assert (A2 : (33 * N + 80) * (M * M) * (t * b64_u) <= (33 * N + 80) * (M * M) * (/ 160)).
    { apply Rmult_le_compat_l; [apply Rmult_le_pos; lra | lra]. }
    assert (A3 : (13 * N * M + 3) * (t * b64_eta) <= (13 * N * M + 3) * (M / 48)).
    { apply Rmult_le_compat_l; [|lra]. assert (0 <= N * M) by (apply Rmult_le_pos; lra). lra. }
    assert (A4 : INR (length (lastn n vs)) * (M * M) <= N * (M * M)) by (apply Rmult_le_compat_r; assumption).
    assert (A5 : 2 * (M * M) <= N * (M * M)) by (apply Rmult_le_compat_r; assumption).
    unfold wo_Q0. replace (wo_m2 s) with (S' + (wo_m2 s - S')) by ring.
    eapply Rle_trans; [apply Rabs_triang|]. rewrite (Rabs_right S') by lra. lra.
Qed.

(** * 5. The checker is implied by a magnitude bound *)
Lemma f2r_Forall_abs M l : Forall (fun x => Rabs (f2r x) <= M) l -> Forall (fun x => Rabs x <= M) (map f2r l).
Proof.
  intros Hl. apply Forall_forall. intros y Hy. apply in_map_iff in Hy. destruct Hy as [x [<- Hx]].
  rewrite Forall_forall in Hl. exact (Hl x Hx).
Qed.
Lemma Forall_map_f2r_inv M l : Forall (fun x => Rabs x <= M) (map f2r l) -> Forall (fun x => Rabs (f2r x) <= M) l.
Proof.
  intros Hl. apply Forall_forall. intros x Hx. rewrite Forall_forall in Hl. apply Hl. apply in_map. exact Hx.
Qed.

Lemma eta_prefix t t' M : (t <= t')%nat -> 48 * (INR t' * b64_eta) <= M -> 48 * (INR t * b64_eta) <= M.
Proof. intros H He. apply le_INR in H. pose proof b64_eta_nonneg. pose proof (pos_INR t). nra. Qed.

(** WelfordOnline: window 2 <= n < 2^53, t < 2^45 finite inputs of magnitude at most M, 48 t 2^-1075 <= M and
    16 n M^2 <= 2^1023: the f64 state (queue, mean, m2) never overflows -- the state checker succeeds *)
Theorem welford_all_finite_of_bound n M fs : (2 <= n)%nat -> (Z.of_nat n < 2 ^ 53)%Z ->
  (Z.of_nat (length fs) < 2 ^ 45)%Z -> 0 <= M -> 48 * (INR (length fs) * b64_eta) <= M ->
  Forall (fun x => ffinite x = true /\ Rabs (f2r x) <= M) fs ->
  16 * INR n * M * M <= bpow radix2 1023 ->
  all_finite_welford_mean ffinite n fs = true.
Proof.
  intros Hn Hn53 Ht HM He HD HB. revert Ht He HD.
  assert (HN : 2 <= INR n) by (change 2 with (INR 2); apply le_INR; exact Hn).
  induction fs as [|v vs IH] using rev_ind; intros Ht He HD.
  - unfold all_finite_welford_mean, all_finite_run. cbn [cnew welford_mean_core]. unfold wo_new.
    destruct (Nat.ltb_spec 0 n) as [_|H]; [|lia]. cbn [assert bind cfold_chk].
    rewrite wo_mean_st_ok; [reflexivity|]. unfold wo_sfin. cbn [wo_q wo_mean wo_m2 forallb s0 FOps].
    rewrite (proj1 prim_zero_fin). reflexivity.
  - apply Forall_app in HD. destruct HD as [HD Hv]. apply Forall_inv in Hv. destruct Hv as [Fv Mv].
    rewrite app_length in Ht, He. cbn [length] in Ht, He.
    assert (Ht' : (Z.of_nat (length vs) < 2 ^ 45)%Z) by lia.
    assert (He' : 48 * (INR (length vs) * b64_eta) <= M) by (apply (eta_prefix _ (length vs + 1)); [lia | exact He]).
    specialize (IH Ht' He' HD).
    assert (He1 : b64_eta <= M / 48).
    { pose proof (eta_prefix 1 (length vs + 1) M ltac:(lia) He) as H. cbn [INR] in H. lra. }
    assert (Hb : Forall (fun x => Rabs (f2r x) <= M) vs).
    { revert HD. apply Forall_impl. intros x [_ H]; exact H. }
    destruct (welford_bridge_run_gen prim_arith_sim3 n vs (nat53_le n Hn53) IH) as [s [Er [Eb [Hs [Hcnt Hlen]]]]].
    destruct (welford_state_b64 n M (map f2r vs) Hn Hn53 ltac:(rewrite map_length; exact Ht') HM
                ltac:(rewrite map_length; exact He') (f2r_Din M vs Hb)) as [t [Et [Hq [Hmean Hm2]]]].
    rewrite crun_welford_B3, Eb in Et. inversion Et; subst t; clear Et. cbn [wo_map wo_q wo_mean wo_m2] in Hq, Hmean, Hm2.
    destruct (wo_sfin_parts ffinite s Hs) as [Fq [Fmean Fm2]].
    assert (HqM : Forall (fun x => Rabs (f2r x) <= M) (wo_q s)).
    { apply Forall_map_f2r_inv. rewrite Hq. apply Forall_lastn. apply f2r_Forall_abs. exact Hb. }
    pose proof (welford_lim (INR n) M HN HM He1 HB) as HL. cbv zeta in HL.
    destruct HL as [[L1 [L2 [L3 [L4 [L5 L6]]]]] [K1 [K2 [K3 [K4 [K5 K6]]]]]].
    (* the f64 step *)
    assert (Hstep : exists s', @wo_step float FOps n s v = Ok s' /\ wo_sfin ffinite s' = true).
    { unfold wo_step.
      assert (Hlen' : length (wo_q s ++ [v]) = S (length (wo_q s))) by (rewrite app_length; cbn; lia).
      destruct (Nat.ltb_spec n (length (wo_q s ++ [v]))) as [El|El].
      - assert (Hl : length (wo_q s) = n) by lia.
        destruct (wo_q s) as [|old q0] eqn:Eq; [cbn in Hl; lia|].
        cbn [app pop_front bind].
        cbn [forallb] in Fq. apply andb_true_iff in Fq. destruct Fq as [Fold Fq0].
        pose proof (Forall_inv HqM) as Mold.
        destruct (prim_wo_remove (wo_mean s) (wo_m2 s) (wo_count s) old (wo_A0 M) (wo_Q0 (INR n) M) M Fmean Fm2 Fold
                    ltac:(lia) ltac:(lia) Hmean Mold Hm2 L1 L2 L3 L4 L5 L6) as [mean1 [m21 [Erm [F1 [F2 [B1 B2]]]]]].
        rewrite Erm. cbn [bind].
        destruct (prim_wo_add mean1 m21 (wo_count s - 1) v _ _ M F1 F2 Fv ltac:(lia) B1 Mv B2 K1 K2 K3 K4 K5 K6)
          as [mean2 [m22 [Ead [G1 [G2 _]]]]].
        rewrite Ead. cbn [bind]. eexists; split; [reflexivity|].
        unfold wo_sfin. cbn [wo_q wo_mean wo_m2]. rewrite forallb_app, Fq0, G1, G2. cbn [forallb]. rewrite Fv. reflexivity.
      - cbn [bind].
        destruct (prim_wo_add (wo_mean s) (wo_m2 s) (wo_count s) v (wo_A0 M) (wo_Q0 (INR n) M) M Fmean Fm2 Fv
                    ltac:(lia) Hmean Mv Hm2 L1 L2 L3 L4 L5 L6) as [mean2 [m22 [Ead [G1 [G2 _]]]]].
        rewrite Ead. cbn [bind]. eexists; split; [reflexivity|].
        unfold wo_sfin. cbn [wo_q wo_mean wo_m2]. rewrite forallb_app, Fq, G1, G2. cbn [forallb]. rewrite Fv. reflexivity. }
    destruct Hstep as [s' [Es' Hs']].
    apply (all_finite_run_snoc float ffinite (@welford_mean_core float FOps n) (wo_sfin ffinite) vs v s s' IH).
    + rewrite crun_welford_mean_core. exact Er.
    + exact Es'.
    + apply wo_mean_st_ok. exact Hs'.
Qed.

(** * 6. The drift theorems with no executable hypothesis *)

(** WelfordOnline mean at f64: |f64 mean - exact window mean| <= t (10 u M + 3 eta) *)
Theorem welford_mean_prim_drift_bounded n M fs : (2 <= n)%nat -> (Z.of_nat n < 2 ^ 53)%Z ->
  (Z.of_nat (length fs) < 2 ^ 45)%Z -> 0 <= M -> 48 * (INR (length fs) * b64_eta) <= M ->
  Forall (fun x => ffinite x = true /\ Rabs (f2r x) <= M) fs -> 16 * INR n * M * M <= bpow radix2 1023 ->
  exists m_f m_ex,
    cout (@welford_mean_core float FOps n) fs = Ok (Some m_f) /\ ffinite m_f = true /\
    cout (@welford_mean_core R ROps n) (map f2r fs) = Ok (Some m_ex) /\
    m_ex = @spec_wmean R ROps n (map f2r fs) /\
    Rabs (f2r m_f - m_ex) <= INR (length fs) * (10 * b64_u * M + 3 * b64_eta).
Proof.
  intros Hn Hn53 Ht HM He HD HB. apply (welford_mean_prim_drift n M fs Hn Hn53 Ht HM He).
  - revert HD. apply Forall_impl. intros x [_ H]; exact H.
  - exact (welford_all_finite_of_bound n M fs Hn Hn53 Ht HM He HD HB).
Qed.

(** WelfordOnline m2 (the state) at f64: at most linear in the number of updates *)
Theorem welford_m2_prim_drift_bounded n M fs : (2 <= n)%nat -> (Z.of_nat n < 2 ^ 53)%Z ->
  (Z.of_nat (length fs) < 2 ^ 45)%Z -> 0 <= M -> 48 * (INR (length fs) * b64_eta) <= M ->
  Forall (fun x => ffinite x = true /\ Rabs (f2r x) <= M) fs -> 16 * INR n * M * M <= bpow radix2 1023 ->
  exists s_f s_ex,
    crun (@welford_core float FOps n) fs = Ok s_f /\ ffinite (wo_m2 s_f) = true /\
    crun (@welford_core R ROps n) (map f2r fs) = Ok s_ex /\
    wo_m2 s_ex = rsqdev (rmean (lastn n (map f2r fs))) (lastn n (map f2r fs)) /\
    Rabs (f2r (wo_m2 s_f) - wo_m2 s_ex)
    <= INR (length fs) * ((33 * INR n + 80) * (b64_u * (M * M)) + (13 * INR n * M + 3) * b64_eta).
Proof.
  intros Hn Hn53 Ht HM He HD HB. apply (welford_m2_prim_drift n M fs Hn Hn53 Ht HM He).
  - revert HD. apply Forall_impl. intros x [_ H]; exact H.
  - exact (welford_all_finite_of_bound n M fs Hn Hn53 Ht HM He HD HB).
Qed.

(** * 7. C08 at f64: every answer of WelfordOnline on a bounded stream is finite *)

(** at f64 no operation of [last()] / [variance()] errs *)
Lemma wo_variance_prim_ok (s : @wo_st float) : exists var, @wo_variance float FOps s = Ok var.
Proof. unfold wo_variance. destruct (Nat.ltb 1 (wo_count s)); cbn [sdiv FOps]; eexists; reflexivity. Qed.
Lemma wo_last_prim_ok n (s : @wo_st float) : (1 <= n)%nat -> exists o, @wo_last float FOps n s = Ok o.
Proof.
  intros Hn. unfold wo_last, usub. destruct (Nat.ltb_spec n 1) as [H|_]; [lia|]. cbn [bind].
  destruct (Nat.ltb (wo_count s) (n - 1)); [eexists; reflexivity|].
  destruct (wo_variance_prim_ok s) as [var Ev]. rewrite Ev. cbn [bind].
  destruct (sleb var s0); [eexists; reflexivity|]. cbn [ssqrt FOps bind]. eexists; reflexivity.
Qed.

(** the f64 state reached on a bounded stream: finite, count = queue length <= n *)
Theorem welford_f64_state_finite n M fs : (2 <= n)%nat -> (Z.of_nat n < 2 ^ 53)%Z ->
  (Z.of_nat (length fs) < 2 ^ 45)%Z -> 0 <= M -> 48 * (INR (length fs) * b64_eta) <= M ->
  Forall (fun x => ffinite x = true /\ Rabs (f2r x) <= M) fs -> 16 * INR n * M * M <= bpow radix2 1023 ->
  exists s, crun (@welford_core float FOps n) fs = Ok s /\ wo_sfin ffinite s = true /\
            wo_count s = length (wo_q s) /\ (length (wo_q s) <= n)%nat.
Proof.
  intros Hn Hn53 Ht HM He HD HB.
  destruct (welford_bridge_run_gen prim_arith_sim3 n fs (nat53_le n Hn53)
              (welford_all_finite_of_bound n M fs Hn Hn53 Ht HM He HD HB)) as [s [Er [_ [Hs [Hc Hl]]]]].
  exists s. auto.
Qed.

(** WelfordOnline::last() (the standard deviation), ::variance() and ::mean() at f64 on a bounded stream (any prefix of
    it: the hypotheses are monotone in the stream): the run does not err and every answer is finite *)
Theorem welford_f64_finite n M fs : (2 <= n)%nat -> (Z.of_nat n < 2 ^ 53)%Z ->
  (Z.of_nat (length fs) < 2 ^ 45)%Z -> 0 <= M -> 48 * (INR (length fs) * b64_eta) <= M ->
  Forall (fun x => ffinite x = true /\ Rabs (f2r x) <= M) fs -> 16 * INR n * M * M <= bpow radix2 1023 ->
  (exists o, cout (@welford_core float FOps n) fs = Ok o /\ ofin ffinite o = true) /\
  (exists var, cout (@welford_var_core float FOps n) fs = Ok (Some var) /\ ffinite var = true) /\
  (exists m, cout (@welford_mean_core float FOps n) fs = Ok (Some m) /\ ffinite m = true).
Proof.
  intros Hn Hn53 Ht HM He HD HB.
  destruct (welford_f64_state_finite n M fs Hn Hn53 Ht HM He HD HB) as [s [Er [Hs [Hc Hl]]]].
  destruct (welford_answers_finite n s Hn53 Hc Hl Hs) as [Hvar Hlast].
  split; [|split].
  - destruct (wo_last_prim_ok n s ltac:(lia)) as [o Eo]. exists o. split; [|exact (Hlast o Eo)].
    unfold cout. rewrite Er. exact Eo.
  - destruct (wo_variance_prim_ok s) as [var Ev]. exists var. split; [|exact (Hvar var Ev)].
    unfold cout. rewrite crun_welford_var_core, Er. cbn [bind clast welford_var_core]. rewrite Ev. reflexivity.
  - exists (wo_mean s). split; [|exact (proj1 (proj2 (wo_sfin_parts ffinite s Hs)))].
    unfold cout. rewrite crun_welford_mean_core, Er. reflexivity.
Qed.

(** read along the stream: every prefix *)
Corollary welford_f64_finite_prefix n M fs k o : (2 <= n)%nat -> (Z.of_nat n < 2 ^ 53)%Z ->
  (Z.of_nat (length fs) < 2 ^ 45)%Z -> 0 <= M -> 48 * (INR (length fs) * b64_eta) <= M ->
  Forall (fun x => ffinite x = true /\ Rabs (f2r x) <= M) fs -> 16 * INR n * M * M <= bpow radix2 1023 ->
  cout (@welford_core float FOps n) (firstn k fs) = Ok o -> ofin ffinite o = true.
Proof.
  intros Hn Hn53 Ht HM He HD HB Eo.
  assert (Hk : (length (firstn k fs) <= length fs)%nat) by (rewrite firstn_length; lia).
  assert (Ht' : (Z.of_nat (length (firstn k fs)) < 2 ^ 45)%Z).
  { eapply Z.le_lt_trans; [apply Nat2Z.inj_le; exact Hk | exact Ht]. }
  destruct (welford_f64_finite n M (firstn k fs) Hn Hn53 Ht' HM (eta_prefix _ _ M Hk He)) as [[o' [Eo' Fo']] _].
  - rewrite <- (firstn_skipn k fs) in HD. apply Forall_app in HD. exact (proj1 HD).
  - exact HB.
  - rewrite Eo in Eo'. inversion Eo'; subst o'. exact Fo'.
Qed.

(** hypotheses are satisfiable: the 12-value stream of BridgeWP.v, window 2, M = 128 *)
Lemma stream12_fin_bounded : Forall (fun x => ffinite x = true /\ Rabs (f2r x) <= 128) stream12.
Proof.
  pose proof stream12_bounded as Hb. assert (Hf : Forall (fun x => ffinite x = true) stream12) by (repeat constructor).
  rewrite Forall_forall in *. intros x Hx. split; [exact (Hf x Hx) | exact (Hb x Hx)].
Qed.
Lemma big_ex : 16 * INR 2 * 128 * 128 <= bpow radix2 1023.
Proof. replace (INR 2) with 2 by (cbn; lra). apply Rle_trans with (bpow radix2 20); [cbn; lra | apply bpow_le; lia]. Qed.

Example welford_bounded_ex : all_finite_welford_mean ffinite 2 stream12 = true.
Proof.
  apply (welford_all_finite_of_bound 2 128 stream12); [lia | reflexivity | reflexivity | lra | exact eta12
    | exact stream12_fin_bounded | exact big_ex].
Qed.
Example welford_m2_bounded_ex : exists s_f s_ex,
  crun (@welford_core float FOps 2) stream12 = Ok s_f /\ ffinite (wo_m2 s_f) = true /\
  crun (@welford_core R ROps 2) (map f2r stream12) = Ok s_ex /\
  wo_m2 s_ex = rsqdev (rmean (lastn 2 (map f2r stream12))) (lastn 2 (map f2r stream12)) /\
  Rabs (f2r (wo_m2 s_f) - wo_m2 s_ex)
  <= INR 12 * ((33 * INR 2 + 80) * (b64_u * (128 * 128)) + (13 * INR 2 * 128 + 3) * b64_eta).
Proof.
  apply (welford_m2_prim_drift_bounded 2 128 stream12); [lia | reflexivity | reflexivity | lra | exact eta12
    | exact stream12_fin_bounded | exact big_ex].
Qed.
Example welford_finite_ex : forall k o, cout (@welford_core float FOps 2) (firstn k stream12) = Ok o -> ofin ffinite o = true.
Proof.
  intros k o. apply (welford_f64_finite_prefix 2 128 stream12 k o); [lia | reflexivity | reflexivity | lra | exact eta12
    | exact stream12_fin_bounded | exact big_ex].
Qed.
(** the magnitude condition cannot be dropped: m2 overflows on inputs of magnitude 1e200 (BridgeWP.[w_overflow_rejected]) *)

Print Assumptions welford_all_finite_of_bound.
Print Assumptions welford_mean_prim_drift_bounded.
Print Assumptions welford_m2_prim_drift_bounded.
Print Assumptions welford_f64_finite.
