(** C18 (bounded memory), scalar-generic: every core of the catalogue keeps [cpop] under a bound that
    depends on the window length only; composites add up; [pop_bound d] bounds [vpop (denote d)]. *)
From Coq Require Import List Arith Lia Bool.
From SF Require Import Res Scalar View Models Core Spec SpecStruct.
Import ListNotations.

Section Bound.
Context {T : Type} {OT : Ops T}.

(** * Invariant-based boundedness *)

(** [I] holds of the constructed state, is preserved by every successful step and implies the bound *)
Record core_inv (c : core T) (I : cst c -> Prop) (B : nat) : Prop := {
  ci_new : forall s, cnew c = Ok s -> I s;
  ci_step : forall s v s', I s -> cstep c s v = Ok s' -> I s';
  ci_pop : forall s, I s -> cpop c s <= B }.
Definition core_bounded (c : core T) (B : nat) : Prop := exists I, core_inv c I B.
(** the form of the task text: the bound itself is inductive *)
Definition core_simply_bounded (c : core T) (B : nat) : Prop := core_inv c (fun s => cpop c s <= B) B.

Record view_inv (a : view T) (I : vst a -> Prop) (B : nat) : Prop := {
  vi_new : forall s, vnew a = Ok s -> I s;
  vi_upd : forall s x s', I s -> vupd a s x = Ok s' -> I s';
  vi_pop : forall s, I s -> vpop a s <= B }.
Definition view_bounded (a : view T) (B : nat) : Prop := exists I, view_inv a I B.

Lemma simply_bounded c B : core_simply_bounded c B -> core_bounded c B.
Proof. intros H. eexists; exact H. Qed.

Lemma core_inv_cfold c I B : core_inv c I B -> forall vs s s', I s -> cfold c s vs = Ok s' -> I s'.
Proof.
  intros [_ Hs _]. induction vs as [|v vs IH]; intros s s' Hi H; cbn in H.
  - inversion H; subst; assumption.
  - destruct (cstep c s v) as [s1|e] eqn:E; cbn in H; [|discriminate]. eapply IH; [|eassumption]. eapply Hs; eassumption.
Qed.

(** C18 for a core fed with any history *)
Theorem core_bounded_crun c B : core_bounded c B -> forall vs s, crun c vs = Ok s -> cpop c s <= B.
Proof.
  intros [I HI] vs s H. unfold crun in H. destruct (cnew c) as [s0|e] eqn:E; cbn in H; [|discriminate].
  apply (ci_pop _ _ _ HI). eapply core_inv_cfold; [eassumption| |eassumption]. apply (ci_new _ _ _ HI); assumption.
Qed.

Lemma view_inv_steps a I B : view_inv a I B -> forall xs s s', I s -> steps a s xs = Ok s' -> I s'.
Proof.
  intros [_ Hs _]. induction xs as [|x xs IH]; intros s s' Hi H; cbn in H.
  - inversion H; subst; assumption.
  - destruct (vupd a s x) as [s1|e] eqn:E; cbn in H; [|discriminate]. eapply IH; [|eassumption]. eapply Hs; eassumption.
Qed.

Theorem view_bounded_state_after a B : view_bounded a B ->
  forall xs s, state_after a xs = Ok s -> vpop a s <= B.
Proof.
  intros [I HI] xs s H. unfold state_after in H. destruct (vnew a) as [s0|e] eqn:E; cbn in H; [|discriminate].
  apply (vi_pop _ _ _ HI). eapply view_inv_steps; [eassumption| |eassumption]. apply (vi_new _ _ _ HI); assumption.
Qed.

Lemma length_tl {A} (q : list A) : length (tl q) = length q - 1.
Proof. destruct q; cbn; lia. Qed.

(** * Case analysis of a step *)
Ltac destr_one :=
  match goal with
  | H : context [match ?x with _ => _ end] |- _ =>
      lazymatch x with
      | context [match _ with _ => _ end] => fail
      | _ => idtac
      end;
      first [ is_var x; destruct x | let E := fresh "E" in destruct x eqn:E ];
      cbn beta iota zeta in *; try discriminate
  end.

Ltac nat_hyps :=
  repeat match goal with
  | H : Nat.leb _ _ = true |- _ => apply Nat.leb_le in H
  | H : Nat.leb _ _ = false |- _ => apply Nat.leb_gt in H
  | H : Nat.ltb _ _ = true |- _ => apply Nat.ltb_lt in H
  | H : Nat.ltb _ _ = false |- _ => apply Nat.ltb_ge in H
  end.

Ltac inv_ok :=
  repeat match goal with
  | H : Ok _ = Ok _ |- _ => inversion H; clear H; subst
  | H : (_, _) = (_, _) |- _ => inversion H; clear H; subst
  end.

Ltac len_solve :=
  inv_ok; cbn [length tl app fst snd] in *; rewrite ?app_length in *; cbn [length] in *; nat_hyps;
  unfold wb in *; try lia.

Ltac crush := repeat destr_one; len_solve.


#[local] Hint Unfold bind pop_front front evict assert usub
  sma_step cum_step min_step max_step ext_new roc_step wo_step wo_new wo_add wo_remove hln_step
  be_step cog_step cti_step net_step rsi_step myrsi_step alma_step trendflex_step reflex_step flex_norm flex_new wr_new ss_new
  laguerre_step lrsi_step cc_step eft_step dd_step wr_step ema_step ss_step rf_step : stepdb.

Ltac projs := cbn [sma_q sma_sum cum_q cum_out ext_q ext_opt roc_q roc_oldest roc_out wo_q wo_mean wo_m2 wo_count
  hln_q hln_min hln_max hln_last hln_init be_q be_p rsi_q rsi_out my_q al_qv al_qw al_qo fx_q fx_out fx_lastval fx_lastm
  cc_vals cc_out ef_q ef_qout ef_ma ef_high ef_low lg_len lg_prev lg_out lr_len lr_prev lr_value fst snd] in *.

Ltac list_eqs := repeat match goal with E : @eq (list _) _ _ |- _ => apply (f_equal (@length _)) in E end.
Ltac solve_new := let s := fresh "s" in let H := fresh "H" in
  intros s H; autounfold with stepdb in H; projs; repeat destr_one; inv_ok; projs; cbn [length]; unfold wb; lia.
Ltac solve_step H := autounfold with stepdb in H; projs; repeat destr_one; inv_ok; projs;
  repeat match goal with E : @eq (list _) _ _ |- _ => apply (f_equal (@length _)) in E end;
  cbn [length tl app] in *; rewrite ?app_length, ?length_tl in *; cbn [length] in *; nat_hyps; unfold wb in *; try lia.

Lemma sma_bounded n : core_simply_bounded (sma_core n) (wb n).
Proof.
  split; cbn [cnew cstep cpop sma_core]; [solve_new| |trivial].
  intros [q sm] v s' Hb H. solve_step H.
Qed.
Lemma cumulative_bounded n : core_simply_bounded (cumulative_core n) (wb n).
Proof.
  split; cbn [cnew cstep cpop cumulative_core]; [solve_new| |trivial].
  intros [q o] v s' Hb H. solve_step H.
Qed.
Lemma min_bounded n : core_simply_bounded (min_core n) (wb n).
Proof.
  split; cbn [cnew cstep cpop min_core]; [solve_new| |trivial].
  intros [q o] v s' Hb H. solve_step H.
Qed.
Lemma max_bounded n : core_simply_bounded (max_core n) (wb n).
Proof.
  split; cbn [cnew cstep cpop max_core]; [solve_new| |trivial].
  intros [q o] v s' Hb H. solve_step H.
Qed.
Lemma roc_bounded n : core_simply_bounded (roc_core n) (wb n).
Proof.
  split; cbn [cnew cstep cpop roc_core]; [solve_new| |trivial].
  intros [old q o] v s' Hb H. solve_step H.
Qed.
Lemma welford_bounded n : core_simply_bounded (welford_core n) (wb n).
Proof.
  split; cbn [cnew cstep cpop welford_core]; [solve_new| |trivial].
  intros [q m m2 k] v s' Hb H. solve_step H.
Qed.
Lemma welford_mean_bounded n : core_simply_bounded (welford_mean_core n) (wb n).
Proof.
  split; cbn [cnew cstep cpop welford_mean_core]; [solve_new| |trivial].
  intros [q m m2 k] v s' Hb H. solve_step H.
Qed.
Lemma welford_var_bounded n : core_simply_bounded (welford_var_core n) (wb n).
Proof.
  split; cbn [cnew cstep cpop welford_var_core]; [solve_new| |trivial].
  intros [q m m2 k] v s' Hb H. solve_step H.
Qed.
Lemma vst_bounded n : core_simply_bounded (vst_core n) (wb n).
Proof.
  split; cbn [cnew cstep cpop vst_core]; [solve_new| |trivial].
  intros [x [q m m2 k]] v s' Hb H. solve_step H.
Qed.
Lemma vsct_bounded n : core_simply_bounded (vsct_core n) (wb n).
Proof.
  split; cbn [cnew cstep cpop vsct_core]; [solve_new| |trivial].
  intros [x [q m m2 k]] v s' Hb H. solve_step H.
Qed.
Lemma hln_bounded n : core_simply_bounded (hln_core n) (wb n).
Proof.
  split; cbn [cnew cstep cpop hln_core]; [solve_new| |trivial].
  intros [q mn mx l i] v s' Hb H. solve_step H.
Qed.
Lemma entropy_bounded n : core_simply_bounded (entropy_core n) (wb n).
Proof.
  split; cbn [cnew cstep cpop entropy_core]; [solve_new| |trivial].
  intros [q p] v s' Hb H. solve_step H.
Qed.
Lemma cog_bounded n : core_simply_bounded (cog_core n) (wb n).
Proof.
  split; cbn [cnew cstep cpop cog_core]; [solve_new| |trivial].
  intros [q o] v s' Hb H. solve_step H.
Qed.
Lemma cti_bounded n : core_simply_bounded (cti_core n) (wb n).
Proof.
  split; cbn [cnew cstep cpop cti_core]; [solve_new| |trivial].
  intros q v s' Hb H. solve_step H.
Qed.
Lemma net_bounded n : core_simply_bounded (net_core n) (wb n).
Proof.
  split; cbn [cnew cstep cpop net_core]; [solve_new| |trivial].
  intros [q o] v s' Hb H. solve_step H.
Qed.
Lemma rsi_bounded n : core_simply_bounded (rsi_core n) (wb n).
Proof.
  split; cbn [cnew cstep cpop rsi_core]; [solve_new| |trivial].
  intros [g l o lv q out] v s' Hb H. solve_step H.
Qed.
Lemma myrsi_bounded n : core_simply_bounded (myrsi_core n) (wb n).
Proof.
  split; cbn [cnew cstep cpop myrsi_core]; [solve_new| |trivial].
  intros [cu cd out q lv old] v s' Hb H. solve_step H.
Qed.
Lemma trendflex_bounded n : core_simply_bounded (trendflex_core n) (wb n).
Proof.
  split; cbn [cnew cstep cpop trendflex_core]; [solve_new| |trivial].
  intros [lv lm q out] v s' Hb H. solve_step H.
Qed.
Lemma reflex_bounded n : core_simply_bounded (reflex_core n) (wb n).
Proof.
  split; cbn [cnew cstep cpop reflex_core]; [solve_new| |trivial].
  intros [lv lm q out] v s' Hb H. solve_step H.
Qed.

(** scalar-state cores hold no queue *)
Lemma gte_bounded clip: core_simply_bounded (gte_core clip) 0.
Proof. split; intros; cbn [cpop gte_core]; lia. Qed.
Lemma lte_bounded clip: core_simply_bounded (lte_core clip) 0.
Proof. split; intros; cbn [cpop lte_core]; lia. Qed.
Lemma drawdown_bounded : core_simply_bounded (drawdown_core ) 0.
Proof. split; intros; cbn [cpop drawdown_core]; lia. Qed.
Lemma lnret_bounded : core_simply_bounded (lnret_core ) 0.
Proof. split; intros; cbn [cpop lnret_core]; lia. Qed.
Lemma wrolling_bounded : core_simply_bounded (wrolling_core ) 0.
Proof. split; intros; cbn [cpop wrolling_core]; lia. Qed.
Lemma wrolling_mean_bounded : core_simply_bounded (wrolling_mean_core ) 0.
Proof. split; intros; cbn [cpop wrolling_mean_core]; lia. Qed.
Lemma ema_alpha_bounded n alpha: core_simply_bounded (ema_core_alpha n alpha) 0.
Proof. split; intros; cbn [cpop ema_core_alpha]; lia. Qed.
Lemma ema_bounded n : core_simply_bounded (ema_core n) 0.
Proof. apply ema_alpha_bounded. Qed.
Lemma ss_bounded n: core_simply_bounded (ss_core n) 0.
Proof. split; intros; cbn [cpop ss_core]; lia. Qed.
Lemma roofing_bounded n m: core_simply_bounded (roofing_core n m) 0.
Proof. split; intros; cbn [cpop roofing_core]; lia. Qed.

(** LaguerreFilter: five vectors trimmed to two entries; LaguerreRSI: four queues of at most three *)
Lemma laguerre_bounded g : core_simply_bounded (laguerre_core g) 10.
Proof.
  split; cbn [cnew cstep cpop laguerre_core]; [solve_new| |trivial].
  intros [p o k] v s' Hb H. solve_step H; destruct k; lia.
Qed.
Lemma lrsi_bounded n : core_simply_bounded (lrsi_core n) 12.
Proof.
  split; cbn [cnew cstep cpop lrsi_core]; [solve_new| |trivial].
  intros [g [k p o]] v s' Hb H. solve_step H.
Qed.

(** Alma: three queues evicted and pushed together.  The plain bound is not inductive (from an
    unreachable state with unequal queue lengths it can grow): the invariant records equal lengths. *)
Definition alma_I (n : nat) (st : T * @alma_st T) : Prop :=
  length (al_qv (snd st)) <= wb n /\ length (al_qw (snd st)) = length (al_qv (snd st))
  /\ length (al_qo (snd st)) = length (al_qv (snd st)).
Lemma alma_custom_inv n sigma offset : core_inv (alma_core_custom n sigma offset) (alma_I n) (3 * wb n).
Proof.
  unfold alma_I. split; cbn [cnew cstep cpop alma_core_custom].
  - intros s H. autounfold with stepdb in H. repeat destr_one. inv_ok. projs. cbn [length]. unfold wb. lia.
  - intros [sg [ws cw qv qw qo]] v s' (Hv & Hw & Ho) H. solve_step H.
  - intros [sg [ws cw qv qw qo]] (Hv & Hw & Ho). projs. lia.
Qed.
Lemma alma_custom_bounded n sigma offset : core_bounded (alma_core_custom n sigma offset) (3 * wb n).
Proof. eexists; apply alma_custom_inv. Qed.
Lemma alma_bounded n : core_bounded (alma_core n) (3 * wb n).
Proof. apply alma_custom_bounded. Qed.

(** CyberCycle: [vals] and [out] evicted and pushed together, [smooth] has [n] entries *)
Definition cyber_I (n : nat) (st : T * @cc_st T) : Prop :=
  length (cc_vals (snd st)) <= wb n /\ length (cc_out (snd st)) = length (cc_vals (snd st)).
Lemma cyber_inv n : core_inv (cyber_core n) (cyber_I n) (2 * wb n + n).
Proof.
  unfold cyber_I. split; cbn [cnew cstep cpop cyber_core].
  - intros s H. autounfold with stepdb in H. repeat destr_one. inv_ok. projs. cbn [length]. unfold wb. lia.
  - intros [al [vals out]] v s' (Hv & Ho) H. solve_step H.
  - intros [al [vals out]] (Hv & Ho). projs. lia.
Qed.
Lemma cyber_bounded n : core_bounded (cyber_core n) (2 * wb n + n).
Proof. eexists; apply cyber_inv. Qed.

(** the plain CyberCycle bound is not inductive: from an (unreachable) state with unequal queues it grows *)
Lemma cyber_plain_bound_not_inductive (x : T) :
  exists s v s', cpop (cyber_core 3) s <= 9 /\ cstep (cyber_core 3) s v = Ok s' /\ ~ cpop (cyber_core 3) s' <= 9.
Proof.
  exists (x, {| cc_vals := []; cc_out := [x; x; x; x; x; x] |}), x. eexists. cbn. split; [lia|]. split; [reflexivity|]. cbn. lia.
Qed.

(** PFE and EFT own a user-supplied moving-average view: bounded relative to it *)
Lemma pfe_inv n (ma : view T) Im Bm : view_inv ma Im Bm ->
  core_inv (pfe_core n ma) (fun s => Im (fst (fst s)) /\ length (snd (fst s)) <= wb n) (Bm + wb n).
Proof.
  intros [Hn Hu Hp]. split; cbn [cnew cstep cpop pfe_core].
  - intros s H. autounfold with stepdb in H. repeat destr_one. inv_ok. cbn [fst snd length]. split; [auto | unfold wb; lia].
  - intros [[m q] out] v s' [Hm Hq] H. cbn [fst snd] in *. autounfold with stepdb in H.
    repeat destr_one; inv_ok; cbn [fst snd]; (split; [eauto|]); list_eqs; cbn [length app] in *;
      rewrite ?app_length, ?length_tl in *; cbn [length] in *; nat_hyps; unfold wb in *; lia.
  - intros [[m q] out] [Hm Hq]. cbn [fst snd] in *. specialize (Hp _ Hm). lia.
Qed.
Lemma pfe_bounded n (ma : view T) Bm : view_bounded ma Bm -> core_bounded (pfe_core n ma) (Bm + wb n).
Proof. intros [Im H]. eexists. apply pfe_inv; eassumption. Qed.

Lemma eft_inv n (ma : view T) Im Bm : view_inv ma Im Bm ->
  core_inv (eft_core n ma)
    (fun s => Im (ef_ma s) /\ length (ef_q s) <= wb n /\ length (ef_qout s) <= wb n) (Bm + 2 * wb n).
Proof.
  intros [Hn Hu Hp]. split; cbn [cnew cstep cpop eft_core].
  - intros s H. autounfold with stepdb in H. repeat destr_one. inv_ok. projs. cbn [length]. split; [auto | unfold wb; lia].
  - intros [m q hi lo qo] v s' (Hm & Hq & Ho) H. projs. autounfold with stepdb in H. projs.
    repeat destr_one; inv_ok; projs; (split; [eauto|]); list_eqs; cbn [length app] in *;
      rewrite ?app_length, ?length_tl in *; cbn [length] in *; nat_hyps; unfold wb in *; lia.
  - intros [m q hi lo qo] (Hm & Hq & Ho). projs. specialize (Hp _ Hm). lia.
Qed.
Lemma eft_bounded n (ma : view T) Bm : view_bounded ma Bm -> core_bounded (eft_core n ma) (Bm + 2 * wb n).
Proof. intros [Im H]. eexists. apply eft_inv; eassumption. Qed.


(** * Composites: the bound of a composite is the sum of the bounds *)
Lemma echo_bounded : view_bounded (@echo T) 0.
Proof. exists (fun _ => True). split; cbn; intros; auto. Qed.
Lemma constant_bounded c : view_bounded (constant c) 0.
Proof. exists (fun _ => True). split; cbn; intros; auto. Qed.

Lemma wrap_inv (c : core T) (a : view T) Ic Ia Bc Ba : core_inv c Ic Bc -> view_inv a Ia Ba ->
  view_inv (wrap c a) (fun s => Ia (fst s) /\ Ic (snd s)) (Ba + Bc).
Proof.
  intros [Cn Cs Cp] [Vn Vu Vp]. split; cbn [vnew vupd vpop wrap].
  - intros s H. unfold bind in H. repeat destr_one. inv_ok. cbn [fst snd]. auto.
  - intros [sa sc] x s' [Ha Hc] H. cbn [fst snd] in *. unfold bind in H.
    repeat destr_one; inv_ok; cbn [fst snd]; eauto.
  - intros [sa sc] [Ha Hc]. cbn [fst snd] in *. specialize (Vp _ Ha). specialize (Cp _ Hc). lia.
Qed.
Lemma wrap_bounded (c : core T) (a : view T) Bc Ba :
  core_bounded c Bc -> view_bounded a Ba -> view_bounded (wrap c a) (Ba + Bc).
Proof. intros [Ic Hc] [Ia Ha]. eexists. apply wrap_inv; eassumption. Qed.

Lemma binop_inv f (a b : view T) Ia Ib Ba Bb : view_inv a Ia Ba -> view_inv b Ib Bb ->
  view_inv (binop f a b) (fun s => Ia (fst s) /\ Ib (snd s)) (Ba + Bb).
Proof.
  intros [An Au Ap] [Bn Bu Bp]. split; cbn [vnew vupd vpop binop].
  - intros s H. unfold bind in H. repeat destr_one. inv_ok. cbn [fst snd]. auto.
  - intros [sa sb] x s' [Ha Hb] H. cbn [fst snd] in *. unfold bind in H.
    repeat destr_one; inv_ok; cbn [fst snd]; eauto.
  - intros [sa sb] [Ha Hb]. cbn [fst snd] in *. specialize (Ap _ Ha). specialize (Bp _ Hb). lia.
Qed.
Lemma binop_bounded f (a b : view T) Ba Bb :
  view_bounded a Ba -> view_bounded b Bb -> view_bounded (binop f a b) (Ba + Bb).
Proof. intros [Ia Ha] [Ib Hb]. eexists. apply binop_inv; eassumption. Qed.

Lemma mapview_bounded f (a : view T) Ba : view_bounded a Ba -> view_bounded (mapview f a) Ba.
Proof. intros [Ia [An Au Ap]]. exists Ia. split; cbn [vnew vupd vpop mapview vst]; assumption. Qed.

(** * The catalogue: [pop_bound d] bounds the population of [denote d] *)
Theorem pop_bound_bounded (d : desc T) : view_bounded (denote d) (pop_bound d).
Proof.
  induction d; cbn [denote pop_bound];
    try solve [ apply echo_bounded | apply constant_bounded
              | apply binop_bounded; assumption | apply mapview_bounded; assumption
              | apply wrap_bounded; [|assumption];
                first [ apply simply_bounded;
                        first [ apply gte_bounded | apply lte_bounded | apply drawdown_bounded | apply lnret_bounded
                              | apply wrolling_bounded | apply wrolling_mean_bounded | apply ema_bounded
                              | apply ema_alpha_bounded | apply ss_bounded | apply roofing_bounded
                              | apply sma_bounded | apply cumulative_bounded | apply min_bounded | apply max_bounded
                              | apply roc_bounded | apply welford_bounded | apply welford_mean_bounded
                              | apply welford_var_bounded | apply vst_bounded | apply vsct_bounded | apply hln_bounded
                              | apply entropy_bounded | apply cog_bounded | apply cti_bounded | apply net_bounded
                              | apply rsi_bounded | apply myrsi_bounded | apply trendflex_bounded | apply reflex_bounded
                              | apply laguerre_bounded | apply lrsi_bounded ]
                      | apply alma_bounded | apply alma_custom_bounded | apply cyber_bounded
                      | apply pfe_bounded; assumption | apply eft_bounded; assumption ] ].
Qed.

(** C18, chain theorem: whatever the inputs, the population of a catalogue view never exceeds
    [pop_bound d], a function of the window lengths in [d] only *)
Theorem pop_bound_sound (d : desc T) xs s :
  state_after (denote d) xs = Ok s -> vpop (denote d) s <= pop_bound d.
Proof. apply view_bounded_state_after, pop_bound_bounded. Qed.


(** tighter readings *)
Lemma wb_pos n : 1 <= n -> wb n = n.
Proof. unfold wb; lia. Qed.

(** single-queue views with a proper window: at most [n] elements *)
Corollary sma_pop n vs s : 1 <= n -> crun (sma_core n) vs = Ok s -> cpop (sma_core n) s <= n.
Proof.
  intros Hn H. pose proof (core_bounded_crun _ _ (simply_bounded _ _ (sma_bounded n)) vs s H) as Hb.
  rewrite (wb_pos n Hn) in Hb. exact Hb.
Qed.

(** CyberCycle (constructor requires 3 <= n): [vals], [out], [smooth] hold at most 3n elements *)
Corollary cyber_pop n vs s : crun (cyber_core n) vs = Ok s -> cpop (cyber_core n) s <= 3 * n.
Proof.
  intros H. pose proof (core_bounded_crun _ _ (cyber_bounded n) vs s H) as Hb.
  unfold crun in H. cbn [cnew cyber_core] in H. unfold bind, assert in H.
  destruct (Nat.leb 3 n) eqn:E; [|discriminate]. apply Nat.leb_le in E. unfold wb in Hb. lia.
Qed.
End Bound.

(** * Examples and assumptions *)
From Coq Require Import QArith.
Open Scope nat_scope.

(** a three-level descriptor: EFT(5) over Alma(4) over (Sma(3) + CyberCycle(7)), smoothed by Ema(3) over Echo *)
Example pop_bound_example :
  pop_bound (DEft 5 (DAlma 4 (DAdd (DSma 3 DEcho) (DCyber 7 (DProbe 0)))) (DEma 3 (@DEcho Q))) = 46.
Proof. reflexivity. Qed.

(** the hypothesis of [pop_bound_sound] is satisfiable, and the bound is attained *)
Example pop_bound_sound_example :
  exists s, state_after (denote (DSma 2 (DCumulative 3 (@DEcho Q)))) [1#1; 2#1; 3#1; 4#1]%Q = Ok s
            /\ vpop (denote (DSma 2 (DCumulative 3 (@DEcho Q)))) s = pop_bound (DSma 2 (DCumulative 3 (@DEcho Q))).
Proof. eexists. split; vm_compute; reflexivity. Qed.

Example core_bounded_crun_example :
  exists s, crun (@cog_core Q QOps 0) [1#1; 2#1; 3#1]%Q = Ok s /\ cpop (@cog_core Q QOps 0) s = wb 0.
Proof. eexists. split; vm_compute; reflexivity. Qed.

(** the plain Alma bound [cpop <= 3n] is not inductive either (exact scalar, unreachable start state) *)
Example alma_plain_bound_not_inductive :
  let c := @alma_core_custom Q QOps 1 (1#1)%Q (1#2)%Q in
  let s : cst c := ((1#1)%Q, {| al_wsum := 0%Q; al_cw := 0%Q; al_qv := []; al_qw := []; al_qo := [0; 0; 0]%Q |}) in
  cpop c s <= 3 * wb 1 /\ exists s', cstep c s (1#1)%Q = Ok s' /\ cpop c s' = 6.
Proof. cbn zeta. split; [vm_compute; lia|]. eexists. split; vm_compute; reflexivity. Qed.

Print Assumptions pop_bound_sound.
Print Assumptions pop_bound_bounded.
Print Assumptions core_bounded_crun.
Print Assumptions cyber_pop.
Print Assumptions cyber_plain_bound_not_inductive.
Print Assumptions eft_bounded.
Print Assumptions pfe_bounded.
