(** f64 accuracy of the views that do only a few rounded operations per answer, at the primitive-float instance
    [FOps] (C16, and the f64 clauses of C02 / C06 / C13 / C14): entry point.
    - FAccBComb : Add / Subtract / Multiply / Divide correctly rounded; GTE / LTE / Echo / Constant exact
    - FAccBRoc  : Roc, (301/100) u |r| + 102 * 2^-1075, same hold steps, same readiness
    - FAccBDd   : Drawdown on positive inputs, 3 u absolute, always finite
    - FAccBCog  : CenterOfGravity on positive inputs, (2L+4) u L, finite under no overflow of the weighted sum;
                  refuted for mixed signs
    - FAccBCti  : CorrelationTrendIndicator: accuracy refuted on an affine window with a large offset *)
From SF.Proofs Require Export FAccBComb FAccBRoc FAccBDd FAccBCog FAccBCti.

Print Assumptions add_f64_correctly_rounded.
Print Assumptions sub_f64_correctly_rounded.
Print Assumptions mul_f64_correctly_rounded.
Print Assumptions div_f64_correctly_rounded.
Print Assumptions gte_f64_exact.
Print Assumptions lte_f64_exact.
Print Assumptions echo_f64_exact.
Print Assumptions constant_f64_exact.
Print Assumptions roc_f64_accuracy.
Print Assumptions roc_f64_readiness.
Print Assumptions roc_f64_hold_agrees.
Print Assumptions roc_f64_hold_spec.
Print Assumptions drawdown_f64_accuracy.
Print Assumptions drawdown_f64_total.
Print Assumptions cog_f64_accuracy_pos.
Print Assumptions cog_f64_accuracy_pos_n.
Print Assumptions cog_f64_readiness.
Print Assumptions cog_f64_accuracy_mixed_refuted.
Print Assumptions cti_f64_accuracy_refuted.
Print Assumptions cti_f64_accuracy_refuted4.
