(** C07 (f64 clause) for the comparison-only views Min, Max, GTE, LTE at the PRIMITIVE-FLOAT instance
    [FOps] (IEEE binary64, the arithmetic of Rust's f64): on finite inputs the real value of the f64
    answer IS the answer of the exact model on the real values of the inputs -- 0 ulps, for every
    stream length.  (These views only compare and copy; on finite floats the IEEE comparisons are the
    real comparisons of the values, -0 and +0 having the same value.) *)
From Coq Require Import List Arith Lia Reals Lra ZArith Floats.
From SF Require Import Res Scalar View Models Spec Core FloatOps.
From SF.Proofs Require Import Window RBase FltErr FltBridge Flt2P Flt2B64.
Import ListNotations.
Open Scope R_scope.

Definition res_map {A B} (f : A -> B) (r : res A) : res B :=
  match r with Ok a => Ok (f a) | Err e => Err e end.

(** * Generic simulation: a scalar [A] whose comparisons are the real comparisons through [phi] *)
Section CmpSim.
Variable A : Type.
Variable OA : Ops A.
Variable phi : A -> R.
Variable fin : A -> Prop.
Hypothesis ltb_ok : forall x y, fin x -> fin y -> @sltb A OA x y = Rltb (phi x) (phi y).
Hypothesis leb_ok : forall x y, fin x -> fin y -> @sleb A OA x y = Rleb (phi x) (phi y).
Hypothesis eqb_ok : forall x y, fin x -> fin y -> @seqb A OA x y = Reqb (phi x) (phi y).

(** ** GTE / LTE *)
Lemma gte_cfold_ok (T : Type) (OT : Ops T) clip vs : forall s, exists s', cfold (@gte_core T OT clip) s vs = Ok s'.
Proof. induction vs as [|v vs IH]; intros s; cbn; [eauto | apply IH]. Qed.
Lemma lte_cfold_ok (T : Type) (OT : Ops T) clip vs : forall s, exists s', cfold (@lte_core T OT clip) s vs = Ok s'.
Proof. induction vs as [|v vs IH]; intros s; cbn; [eauto | apply IH]. Qed.

Lemma gte_cout_snoc (T : Type) (OT : Ops T) clip vs a :
  cout (@gte_core T OT clip) (vs ++ [a]) = Ok (Some (if sgeb a clip then a else clip)).
Proof.
  unfold cout. rewrite crun_snoc. unfold crun. cbn [cnew gte_core bind].
  destruct (gte_cfold_ok T OT clip vs None) as [s' ->]. reflexivity.
Qed.
Lemma lte_cout_snoc (T : Type) (OT : Ops T) clip vs a :
  cout (@lte_core T OT clip) (vs ++ [a]) = Ok (Some (if sleb a clip then a else clip)).
Proof.
  unfold cout. rewrite crun_snoc. unfold crun. cbn [cnew lte_core bind].
  destruct (lte_cfold_ok T OT clip vs None) as [s' ->]. reflexivity.
Qed.

Theorem gte_sim clip fs : fin clip -> Forall fin fs ->
  cout (@gte_core R ROps (phi clip)) (map phi fs) = res_map (option_map phi) (cout (@gte_core A OA clip) fs).
Proof.
  intros Fc Hf. destruct fs as [|a fs _] using rev_ind; [reflexivity|].
  rewrite map_app. cbn [map]. rewrite !gte_cout_snoc. cbn [res_map option_map].
  apply Forall_app in Hf. destruct Hf as [_ Ha]. apply Forall_inv in Ha.
  unfold sgeb. rewrite (leb_ok clip a Fc Ha). cbn [sleb ROps]. destruct (Rleb (phi clip) (phi a)); reflexivity.
Qed.
Theorem lte_sim clip fs : fin clip -> Forall fin fs ->
  cout (@lte_core R ROps (phi clip)) (map phi fs) = res_map (option_map phi) (cout (@lte_core A OA clip) fs).
Proof.
  intros Fc Hf. destruct fs as [|a fs _] using rev_ind; [reflexivity|].
  rewrite map_app. cbn [map]. rewrite !lte_cout_snoc. cbn [res_map option_map].
  apply Forall_app in Hf. destruct Hf as [_ Ha]. apply Forall_inv in Ha.
  rewrite (leb_ok a clip Ha Fc). cbn [sleb ROps]. destruct (Rleb (phi a) (phi clip)); reflexivity.
Qed.

(** ** Min / Max *)
Definition ext_map (s : @ext_st A) : @ext_st R :=
  {| ext_q := map phi (ext_q s); ext_opt := option_map phi (ext_opt s) |}.
Definition ext_fin (s : @ext_st A) : Prop :=
  Forall fin (ext_q s) /\ forall m, ext_opt s = Some m -> fin m.

Lemma min_fold_sim r : forall x, fin x -> Forall fin r ->
  fold_left (fun m y => if @sgtb R ROps m y then y else m) (map phi r) (phi x)
  = phi (fold_left (fun m y => if @sgtb A OA m y then y else m) r x)
  /\ fin (fold_left (fun m y => if @sgtb A OA m y then y else m) r x).
Proof.
  induction r as [|y r IH]; intros x Fx Hr; [split; [reflexivity | exact Fx]|].
  inversion Hr as [|? ? Fy Hr']; subst. cbn [map fold_left].
  replace (@sgtb R ROps (phi x) (phi y)) with (@sgtb A OA x y)
    by (unfold sgtb; cbn [sltb ROps]; apply ltb_ok; assumption).
  destruct (@sgtb A OA x y); apply IH; assumption.
Qed.
Lemma max_fold_sim r : forall x, fin x -> Forall fin r ->
  fold_left (fun m y => if @sgtb R ROps m y then m else y) (map phi r) (phi x)
  = phi (fold_left (fun m y => if @sgtb A OA m y then m else y) r x)
  /\ fin (fold_left (fun m y => if @sgtb A OA m y then m else y) r x).
Proof.
  induction r as [|y r IH]; intros x Fx Hr; [split; [reflexivity | exact Fx]|].
  inversion Hr as [|? ? Fy Hr']; subst. cbn [map fold_left].
  replace (@sgtb R ROps (phi x) (phi y)) with (@sgtb A OA x y)
    by (unfold sgtb; cbn [sltb ROps]; apply ltb_ok; assumption).
  destruct (@sgtb A OA x y); apply IH; assumption.
Qed.

Lemma min_by_sim q : Forall fin q ->
  @min_by R ROps (map phi q) = option_map phi (@min_by A OA q) /\ forall m, @min_by A OA q = Some m -> fin m.
Proof.
  intros Hq. destruct q as [|x r]; [split; [reflexivity | discriminate]|].
  inversion Hq as [|? ? Fx Hr]; subst. destruct (min_fold_sim r x Fx Hr) as [E Ff].
  unfold min_by. cbn [map option_map]. split; [rewrite E; reflexivity|]. intros m H; inversion H; subst; exact Ff.
Qed.
Lemma max_by_sim q : Forall fin q ->
  @max_by R ROps (map phi q) = option_map phi (@max_by A OA q) /\ forall m, @max_by A OA q = Some m -> fin m.
Proof.
  intros Hq. destruct q as [|x r]; [split; [reflexivity | discriminate]|].
  inversion Hq as [|? ? Fx Hr]; subst. destruct (max_fold_sim r x Fx Hr) as [E Ff].
  unfold max_by. cbn [map option_map]. split; [rewrite E; reflexivity|]. intros m H; inversion H; subst; exact Ff.
Qed.

Lemma min_step_sim n s v : ext_fin s -> fin v ->
  @min_step R ROps n (ext_map s) (phi v) = res_map ext_map (@min_step A OA n s v)
  /\ forall s', @min_step A OA n s v = Ok s' -> ext_fin s'.
Proof.
  intros [Hq Ho] Fv. unfold min_step. cbn [ext_map ext_q ext_opt]. rewrite map_length.
  destruct (Nat.leb n (length (ext_q s))).
  - destruct (ext_q s) as [|p q'] eqn:Eq; [cbn; split; [reflexivity | discriminate]|].
    inversion Hq as [|? ? Fp Hq']; subst. cbn [map pop_front bind].
    destruct (ext_opt s) as [m|] eqn:Eo; [|cbn; split; [reflexivity | discriminate]].
    pose proof (Ho m eq_refl) as Fm. cbn [option_map bind].
    rewrite (eqb_ok p m Fp Fm). cbn [seqb ROps].
    destruct (min_by_sim q' Hq') as [Eb Fb].
    destruct (Reqb (phi p) (phi m)).
    + rewrite Eb. destruct (@min_by A OA q') as [b|] eqn:Em; cbn [option_map res_map ext_map ext_q ext_opt].
      * pose proof (Fb b eq_refl) as Fbb. rewrite (ltb_ok v b Fv Fbb). cbn [sltb ROps]. split.
        -- unfold ext_map; cbn [ext_q ext_opt option_map res_map]. rewrite map_app. cbn [map]. destruct (Rltb (phi v) (phi b)); reflexivity.
        -- intros s' H; inversion H; subst. split; cbn [ext_q ext_opt].
           ++ apply Forall_app; split; [exact Hq' | constructor; [exact Fv | constructor]].
           ++ intros m' H'; inversion H'; subst. destruct (Rltb (phi v) (phi b)); assumption.
      * split; [unfold ext_map; cbn [ext_q ext_opt option_map res_map]; rewrite map_app; reflexivity|].
        intros s' H; inversion H; subst. split; cbn [ext_q ext_opt].
        -- apply Forall_app; split; [exact Hq' | constructor; [exact Fv | constructor]].
        -- intros m' H'; inversion H'; subst. exact Fv.
    + cbn [option_map res_map ext_map ext_q ext_opt]. rewrite (ltb_ok v m Fv Fm). cbn [sltb ROps]. split.
      * unfold ext_map; cbn [ext_q ext_opt option_map res_map]. rewrite map_app. cbn [map]. destruct (Rltb (phi v) (phi m)); reflexivity.
      * intros s' H; inversion H; subst. split; cbn [ext_q ext_opt].
        -- apply Forall_app; split; [exact Hq' | constructor; [exact Fv | constructor]].
        -- intros m' H'; inversion H'; subst. destruct (Rltb (phi v) (phi m)); assumption.
  - cbn [bind]. destruct (ext_opt s) as [m|] eqn:Eo; cbn [option_map res_map ext_map ext_q ext_opt].
    + pose proof (Ho m eq_refl) as Fm. rewrite (ltb_ok v m Fv Fm). cbn [sltb ROps]. split.
      * unfold ext_map; cbn [ext_q ext_opt option_map res_map]. rewrite map_app. cbn [map]. destruct (Rltb (phi v) (phi m)); reflexivity.
      * intros s' H; inversion H; subst. split; cbn [ext_q ext_opt].
        -- apply Forall_app; split; [exact Hq | constructor; [exact Fv | constructor]].
        -- intros m' H'; inversion H'; subst. destruct (Rltb (phi v) (phi m)); assumption.
    + split; [unfold ext_map; cbn [ext_q ext_opt option_map res_map]; rewrite map_app; reflexivity|].
      intros s' H; inversion H; subst. split; cbn [ext_q ext_opt].
      * apply Forall_app; split; [exact Hq | constructor; [exact Fv | constructor]].
      * intros m' H'; inversion H'; subst. exact Fv.
Qed.

Lemma max_step_sim n s v : ext_fin s -> fin v ->
  @max_step R ROps n (ext_map s) (phi v) = res_map ext_map (@max_step A OA n s v)
  /\ forall s', @max_step A OA n s v = Ok s' -> ext_fin s'.
Proof.
  intros [Hq Ho] Fv. unfold max_step. cbn [ext_map ext_q ext_opt]. rewrite map_length.
  destruct (Nat.leb n (length (ext_q s))).
  - destruct (ext_q s) as [|p q'] eqn:Eq; [cbn; split; [reflexivity | discriminate]|].
    inversion Hq as [|? ? Fp Hq']; subst. cbn [map pop_front bind].
    destruct (ext_opt s) as [m|] eqn:Eo; [|cbn; split; [reflexivity | discriminate]].
    pose proof (Ho m eq_refl) as Fm. cbn [option_map bind].
    rewrite (eqb_ok p m Fp Fm). cbn [seqb ROps].
    destruct (max_by_sim q' Hq') as [Eb Fb].
    destruct (Reqb (phi p) (phi m)).
    + rewrite Eb. destruct (@max_by A OA q') as [b|] eqn:Em; cbn [option_map res_map ext_map ext_q ext_opt].
      * pose proof (Fb b eq_refl) as Fbb. unfold sgtb. rewrite (ltb_ok b v Fbb Fv). cbn [sltb ROps]. split.
        -- unfold ext_map; cbn [ext_q ext_opt option_map res_map]. rewrite map_app. cbn [map]. destruct (Rltb (phi b) (phi v)); reflexivity.
        -- intros s' H; inversion H; subst. split; cbn [ext_q ext_opt].
           ++ apply Forall_app; split; [exact Hq' | constructor; [exact Fv | constructor]].
           ++ intros m' H'; inversion H'; subst. destruct (Rltb (phi b) (phi v)); assumption.
      * split; [unfold ext_map; cbn [ext_q ext_opt option_map res_map]; rewrite map_app; reflexivity|].
        intros s' H; inversion H; subst. split; cbn [ext_q ext_opt].
        -- apply Forall_app; split; [exact Hq' | constructor; [exact Fv | constructor]].
        -- intros m' H'; inversion H'; subst. exact Fv.
    + cbn [option_map res_map ext_map ext_q ext_opt]. unfold sgtb. rewrite (ltb_ok m v Fm Fv). cbn [sltb ROps]. split.
      * unfold ext_map; cbn [ext_q ext_opt option_map res_map]. rewrite map_app. cbn [map]. destruct (Rltb (phi m) (phi v)); reflexivity.
      * intros s' H; inversion H; subst. split; cbn [ext_q ext_opt].
        -- apply Forall_app; split; [exact Hq' | constructor; [exact Fv | constructor]].
        -- intros m' H'; inversion H'; subst. destruct (Rltb (phi m) (phi v)); assumption.
  - cbn [bind]. destruct (ext_opt s) as [m|] eqn:Eo; cbn [option_map res_map ext_map ext_q ext_opt].
    + pose proof (Ho m eq_refl) as Fm. unfold sgtb. rewrite (ltb_ok m v Fm Fv). cbn [sltb ROps]. split.
      * unfold ext_map; cbn [ext_q ext_opt option_map res_map]. rewrite map_app. cbn [map]. destruct (Rltb (phi m) (phi v)); reflexivity.
      * intros s' H; inversion H; subst. split; cbn [ext_q ext_opt].
        -- apply Forall_app; split; [exact Hq | constructor; [exact Fv | constructor]].
        -- intros m' H'; inversion H'; subst. destruct (Rltb (phi m) (phi v)); assumption.
    + split; [unfold ext_map; cbn [ext_q ext_opt option_map res_map]; rewrite map_app; reflexivity|].
      intros s' H; inversion H; subst. split; cbn [ext_q ext_opt].
      * apply Forall_app; split; [exact Hq | constructor; [exact Fv | constructor]].
      * intros m' H'; inversion H'; subst. exact Fv.
Qed.

Lemma min_cfold_sim n vs : forall s, ext_fin s -> Forall fin vs ->
  cfold (@min_core R ROps n) (ext_map s) (map phi vs) = res_map ext_map (cfold (@min_core A OA n) s vs).
Proof.
  induction vs as [|v vs IH]; intros s Hs Hv; [reflexivity|].
  inversion Hv as [|? ? Fv Hv']; subst. cbn [map cfold cstep min_core].
  destruct (min_step_sim n s v Hs Fv) as [E Hf]. rewrite E.
  destruct (@min_step A OA n s v) as [s'|e]; cbn [res_map bind]; [|reflexivity].
  apply IH; [apply Hf; reflexivity | exact Hv'].
Qed.
Lemma max_cfold_sim n vs : forall s, ext_fin s -> Forall fin vs ->
  cfold (@max_core R ROps n) (ext_map s) (map phi vs) = res_map ext_map (cfold (@max_core A OA n) s vs).
Proof.
  induction vs as [|v vs IH]; intros s Hs Hv; [reflexivity|].
  inversion Hv as [|? ? Fv Hv']; subst. cbn [map cfold cstep max_core].
  destruct (max_step_sim n s v Hs Fv) as [E Hf]. rewrite E.
  destruct (@max_step A OA n s v) as [s'|e]; cbn [res_map bind]; [|reflexivity].
  apply IH; [apply Hf; reflexivity | exact Hv'].
Qed.

Theorem min_sim n fs : Forall fin fs ->
  cout (@min_core R ROps n) (map phi fs) = res_map (option_map phi) (cout (@min_core A OA n) fs).
Proof.
  intros Hf. unfold cout, crun. cbn [cnew min_core]. unfold ext_new.
  destruct (Nat.ltb 0 n); cbn [assert bind]; [|reflexivity].
  pose proof (min_cfold_sim n fs {| ext_q := []; ext_opt := None |}) as H.
  cbn [ext_map ext_q ext_opt map option_map] in H. unfold ext_map in H. cbn [ext_q ext_opt map option_map] in H.
  rewrite H; [|split; [constructor | discriminate] | exact Hf].
  destruct (cfold (@min_core A OA n) {| ext_q := []; ext_opt := None |} fs); reflexivity.
Qed.
Theorem max_sim n fs : Forall fin fs ->
  cout (@max_core R ROps n) (map phi fs) = res_map (option_map phi) (cout (@max_core A OA n) fs).
Proof.
  intros Hf. unfold cout, crun. cbn [cnew max_core]. unfold ext_new.
  destruct (Nat.ltb 0 n); cbn [assert bind]; [|reflexivity].
  pose proof (max_cfold_sim n fs {| ext_q := []; ext_opt := None |}) as H.
  unfold ext_map in H. cbn [ext_q ext_opt map option_map] in H.
  rewrite H; [|split; [constructor | discriminate] | exact Hf].
  destruct (cfold (@max_core A OA n) {| ext_q := []; ext_opt := None |} fs); reflexivity.
Qed.
End CmpSim.

(** * The primitive-float instance *)
Definition fin64 (x : PrimFloat.float) : Prop := ffinite x = true.

(** Min at f64: the real value of the answer is the exact model's answer on the real values (0 ulps) *)
Theorem min_prim_exact n fs : Forall fin64 fs ->
  cout (@min_core R ROps n) (map f2r fs) = res_map (option_map f2r) (cout (@min_core PrimFloat.float FOps n) fs).
Proof. apply (min_sim PrimFloat.float FOps f2r fin64); [exact prim_ltb_real | exact prim_eqb_real]. Qed.
Theorem max_prim_exact n fs : Forall fin64 fs ->
  cout (@max_core R ROps n) (map f2r fs) = res_map (option_map f2r) (cout (@max_core PrimFloat.float FOps n) fs).
Proof. apply (max_sim PrimFloat.float FOps f2r fin64); [exact prim_ltb_real | exact prim_eqb_real]. Qed.
Theorem gte_prim_exact clip fs : fin64 clip -> Forall fin64 fs ->
  cout (@gte_core R ROps (f2r clip)) (map f2r fs)
  = res_map (option_map f2r) (cout (@gte_core PrimFloat.float FOps clip) fs).
Proof. apply (gte_sim PrimFloat.float FOps f2r fin64). exact prim_leb_real. Qed.
Theorem lte_prim_exact clip fs : fin64 clip -> Forall fin64 fs ->
  cout (@lte_core R ROps (f2r clip)) (map f2r fs)
  = res_map (option_map f2r) (cout (@lte_core PrimFloat.float FOps clip) fs).
Proof. apply (lte_sim PrimFloat.float FOps f2r fin64). exact prim_leb_real. Qed.

(** hypotheses are satisfiable, and the statement is not vacuous: a concrete f64 run *)
Example min_prim_exact_ex : Forall fin64 [1.5; -0; 0.1; 3]%float.
Proof. repeat constructor. Qed.
Example min_prim_run_ex : cout (@min_core PrimFloat.float FOps 2) [1.5; -0; 0.1; 3]%float = Ok (Some 0.1%float).
Proof. vm_compute. reflexivity. Qed.

Print Assumptions min_prim_exact.
Print Assumptions max_prim_exact.
Print Assumptions gte_prim_exact.
Print Assumptions lte_prim_exact.
