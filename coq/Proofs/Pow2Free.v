(** C12, floating-point half, part 2: scale-free views (Rsi, MyRSI, Roc, HLNormalizer, CenterOfGravity) at the
    rounded instance: the internal sums scale by sc, the answer is a rounded quotient of two scaled quantities,
    fl((sc a) / (sc b)) = fl(a / b) EXACTLY, the tests against 0 and between scaled quantities are unchanged
    because sc > 0, and the additive constants (100 in Rsi and Roc, -1 and 2 in HLN, (len+1)/2 in CoG) meet
    only quantities that are already scale-free.  So the answer is bit-identical (errors included).
    (HLN is also offset-invariant in exact arithmetic; that is NOT true of rounded arithmetic and not claimed.) *)
From Coq Require Import List Arith Lia Reals Lra ZArith Bool.
From SF Require Import Res Scalar View Models Core.
From SF.Proofs Require Import Pow2Base.
Import ListNotations.
Open Scope R_scope.

Section Views.
Variable rnd : R -> R.
Variable cnat : nat -> R.
Variable cdec : Z -> nat -> R.
Variable sc : R.
Hypothesis rnd_sc : forall x, rnd (sc * x) = sc * rnd x.
Hypothesis sc_pos : 0 < sc.

Notation PO := (RndOps rnd cnat cdec).
Notation scl := (scl sc).
Notation sco := (sco sc).

Ltac sc_rw := sc_rw_with rnd sc rnd_sc sc_pos.
Ltac crush := crush_with rnd sc rnd_sc sc_pos.

(* ------------------------------------------------------------------------------------------ *)
(** * 2. Scale-free views: bit-identical answers *)

(** ** Rsi *)
Definition pair_sc (p : R * R) : R * R := (sc * fst p, sc * snd p).
Definition rsi_f (st : @rsi_st R) : @rsi_st R :=
  {| rsi_gain := sc * rsi_gain st; rsi_loss := sc * rsi_loss st; rsi_oldref := sc * rsi_oldref st;
     rsi_lastval := sc * rsi_lastval st; rsi_q := scl (rsi_q st); rsi_out := rsi_out st |}.

(** the sums recomputed over the window: every change scales, [change / wl] scales ([wl] is a constant),
    the tests against 0 are unchanged, so both sums scale (and an error occurs on one side iff on the other) *)
Lemma rsi_sums_sc wl q : forall prev g l,
  @rsi_sums R PO wl (scl q) (sc * prev) (sc * g) (sc * l) = rmap pair_sc (@rsi_sums R PO wl q prev g l).
Proof.
  induction q as [|y q IH]; intros prev g l; [reflexivity|].
  cbn [Pow2Base.scl map rsi_sums]. fold (scl q). opsimp. sc_rw.
  destruct (Rltb 0 (rnd (y - prev))); destruct (Reqb wl 0); cbn [bind rmap]; try reflexivity;
    sc_rw; apply IH.
Qed.

Lemma rsi_step_sc n st v : @rsi_step R PO n (rsi_f st) (sc * v) = rmap rsi_f (@rsi_step R PO n st v).
Proof.
  destruct st as [g l oref lv q o]. unfold rsi_step, rsi_f.
  cbn [rsi_gain rsi_loss rsi_oldref rsi_lastval rsi_q rsi_out].
  assert (Hs : forall q0 r, @rsi_sums R PO (@sofnat R PO n) (scl q0) (sc * r) (@s0 R PO) (@s0 R PO)
                 = rmap pair_sc (@rsi_sums R PO (@sofnat R PO n) q0 r (@s0 R PO) (@s0 R PO))).
  { intros q0 r. cbn [s0 RndOps]. rewrite <- (sc_0 sc) at 1 2. apply rsi_sums_sc. }
  destruct q as [|x q]; cbn [Pow2Base.scl map]; [|fold (scl q)].
  - destruct (Nat.leb n (length (@nil R))); cbn [pop_front bind app]; [reflexivity|].
    destruct (Nat.ltb (length [sc * v]) n) eqn:E; cbn [length] in E |- *; rewrite E; [crush|].
    change [sc * v] with (scl [v]). rewrite Hs.
    destruct (@rsi_sums R PO (@sofnat R PO n) [v] v s0 s0) as [[a b]|e]; unfold pair_sc; crush.
  - change (sc * x :: scl q) with (scl (x :: q)). rewrite (scl_length sc).
    destruct (Nat.leb n (length (x :: q))); cbn [Pow2Base.scl map pop_front bind]; fold (scl q).
    + rewrite (scl_single sc), <- (scl_app sc), (scl_length sc).
      destruct (Nat.ltb (length (q ++ [v])) n); [crush|].
      rewrite Hs. destruct (@rsi_sums R PO (@sofnat R PO n) (q ++ [v]) x s0 s0) as [[a b]|e]; unfold pair_sc; crush.
    + change (sc * x :: scl q) with (scl (x :: q)).
      rewrite (scl_single sc), <- (scl_app sc), (scl_length sc).
      destruct (Nat.ltb (length ((x :: q) ++ [v])) n); [crush|].
      rewrite Hs. destruct (@rsi_sums R PO (@sofnat R PO n) ((x :: q) ++ [v]) oref s0 s0) as [[a b]|e];
        unfold pair_sc; crush.
Qed.

(** Rsi is bit-identical on the scaled history (errors included) *)
Theorem rsi_scale_free n vs :
  cout (@rsi_core R PO n) (map (Rmult sc) vs) = cout (@rsi_core R PO n) vs.
Proof.
  rewrite <- (rmap_id (cout (@rsi_core R PO n) vs)).
  apply (cout_sim (@rsi_core R PO n) sc rsi_f (fun o => o)).
  - cbn. unfold rsi_f. cbn [rsi_gain rsi_loss rsi_oldref rsi_lastval rsi_q rsi_out]. rewrite sc_0. reflexivity.
  - apply rsi_step_sc.
  - intros st. reflexivity.
Qed.

(** ** MyRSI *)
Definition myrsi_f (st : @myrsi_st R) : @myrsi_st R :=
  {| my_cu := sc * my_cu st; my_cd := sc * my_cd st; my_out := my_out st; my_q := scl (my_q st);
     my_lastval := sc * my_lastval st; my_oldest := sc * my_oldest st |}.

Lemma myrsi_sums_sc q : forall prev cu cd,
  @myrsi_sums R PO (scl q) (sc * prev) (sc * cu) (sc * cd) = pair_sc (@myrsi_sums R PO q prev cu cd).
Proof.
  induction q as [|y q IH]; intros prev cu cd; [reflexivity|].
  cbn [Pow2Base.scl map myrsi_sums]. fold (scl q). opsimp. sc_rw.
  destruct (Rltb prev y); apply IH.
Qed.

Lemma myrsi_step_sc n st v : @myrsi_step R PO n (myrsi_f st) (sc * v) = rmap myrsi_f (@myrsi_step R PO n st v).
Proof.
  destruct st as [cu cd o q lv old]. unfold myrsi_step, myrsi_f.
  cbn [my_cu my_cd my_out my_q my_lastval my_oldest].
  assert (Hs : forall q0 r, @myrsi_sums R PO (scl q0) (sc * r) (@s0 R PO) (@s0 R PO)
                 = pair_sc (@myrsi_sums R PO q0 r (@s0 R PO) (@s0 R PO))).
  { intros q0 r. cbn [s0 RndOps]. rewrite <- (sc_0 sc) at 1 2. apply myrsi_sums_sc. }
  destruct q as [|x q]; cbn [Pow2Base.scl map]; [|fold (scl q)].
  - destruct (Nat.leb n (length (@nil R))); cbn [pop_front bind app]; [reflexivity|].
    change [sc * v] with (scl [v]). rewrite Hs.
    destruct (@myrsi_sums R PO [v] v s0 s0) as [a b]; unfold pair_sc; crush.
  - change (sc * x :: scl q) with (scl (x :: q)). rewrite (scl_length sc).
    destruct (Nat.leb n (length (x :: q))); cbn [Pow2Base.scl map pop_front bind]; fold (scl q).
    + rewrite (scl_single sc), <- (scl_app sc).
      rewrite Hs. destruct (@myrsi_sums R PO (q ++ [v]) x s0 s0) as [a b]; unfold pair_sc; crush.
    + change (sc * x :: scl q) with (scl (x :: q)).
      rewrite (scl_single sc), <- (scl_app sc).
      rewrite Hs. destruct (@myrsi_sums R PO ((x :: q) ++ [v]) old s0 s0) as [a b]; unfold pair_sc; crush.
Qed.

(** MyRSI is bit-identical on the scaled history *)
Theorem myrsi_scale_free n vs :
  cout (@myrsi_core R PO n) (map (Rmult sc) vs) = cout (@myrsi_core R PO n) vs.
Proof.
  rewrite <- (rmap_id (cout (@myrsi_core R PO n) vs)).
  apply (cout_sim (@myrsi_core R PO n) sc myrsi_f (fun o => o)).
  - cbn. unfold myrsi_f. cbn [my_cu my_cd my_out my_q my_lastval my_oldest]. rewrite sc_0. reflexivity.
  - apply myrsi_step_sc.
  - intros [cu cd o q lv old]. cbn [clast myrsi_core myrsi_f my_q my_out]. rewrite scl_length.
    destruct (Nat.ltb (length q) n); reflexivity.
Qed.

(** ** Roc *)
Definition roc_f (st : @roc_st R) : @roc_st R :=
  {| roc_oldest := sco (roc_oldest st); roc_q := scl (roc_q st); roc_out := roc_out st |}.

Lemma roc_step_sc n st v : @roc_step R PO n (roc_f st) (sc * v) = rmap roc_f (@roc_step R PO n st v).
Proof.
  destruct st as [[old|] q o]; unfold roc_step, roc_f; cbn [roc_oldest roc_q roc_out]; crush.
Qed.

(** Roc is bit-identical on the scaled history *)
Theorem roc_scale_free n vs :
  cout (@roc_core R PO n) (map (Rmult sc) vs) = cout (@roc_core R PO n) vs.
Proof.
  rewrite <- (rmap_id (cout (@roc_core R PO n) vs)).
  apply (cout_sim (@roc_core R PO n) sc roc_f (fun o => o)).
  - reflexivity.
  - apply roc_step_sc.
  - intros st. reflexivity.
Qed.

(** ** HLNormalizer (scaling only; offsets are NOT preserved by rounded arithmetic) *)

Lemma extent_fold_sc q : forall mm,
  fold_left (fun (mm : R * R) v =>
               let mx := if @sgtb R PO v (snd mm) then v else snd mm in
               let mn := if @sltb R PO v (fst mm) then v else fst mm in (mn, mx)) (scl q) (pair_sc mm)
  = pair_sc (fold_left (fun (mm : R * R) v =>
               let mx := if @sgtb R PO v (snd mm) then v else snd mm in
               let mn := if @sltb R PO v (fst mm) then v else fst mm in (mn, mx)) q mm).
Proof.
  induction q as [|y q IH]; intros [a b]; [reflexivity|].
  cbn [Pow2Base.scl map fold_left]. fold (scl q). rewrite <- IH. f_equal.
  unfold pair_sc. cbn [fst snd]. opsimp. sc_rw. destruct (Rltb b y), (Rltb y a); reflexivity.
Qed.

Lemma extent_queue_sc q : @extent_queue R PO (scl q) = rmap pair_sc (@extent_queue R PO q).
Proof.
  unfold extent_queue. destruct q as [|x q]; [reflexivity|].
  change (Pow2Base.scl sc (x :: q)) with (sc * x :: scl q) at 1. cbn [front bind rmap].
  change (sc * x, sc * x) with (pair_sc (x, x)). change (sc * x :: scl q) with (scl (x :: q)).
  rewrite extent_fold_sc. reflexivity.
Qed.

Definition hln_f (st : @hln_st R) : @hln_st R :=
  {| hln_q := scl (hln_q st); hln_min := sc * hln_min st; hln_max := sc * hln_max st;
     hln_last := sc * hln_last st; hln_init := hln_init st |}.

Lemma hln_step_sc n st v : @hln_step R PO n (hln_f st) (sc * v) = rmap hln_f (@hln_step R PO n st v).
Proof.
  destruct st as [q mn mx l i]. unfold hln_step, hln_f.
  cbn [hln_q hln_min hln_max hln_last hln_init].
  destruct i; crush; rewrite ?extent_queue_sc;
    try (destruct (@extent_queue R PO _) as [[a b]|e]); unfold pair_sc; crush.
Qed.

Lemma hln_last_sc st : @hln_lastf R PO (hln_f st) = @hln_lastf R PO st.
Proof.
  destruct st as [q mn mx l i]. unfold hln_lastf, hln_f.
  cbn [hln_q hln_min hln_max hln_last hln_init]. crush.
Qed.

(** HLNormalizer is bit-identical on the scaled history *)
Theorem hln_scale_free n vs :
  cout (@hln_core R PO n) (map (Rmult sc) vs) = cout (@hln_core R PO n) vs.
Proof.
  rewrite <- (rmap_id (cout (@hln_core R PO n) vs)).
  apply (cout_sim (@hln_core R PO n) sc hln_f (fun o => o)).
  - cbn. unfold hln_f. cbn [hln_q hln_min hln_max hln_last hln_init]. rewrite sc_0. reflexivity.
  - apply hln_step_sc.
  - intros st. rewrite rmap_id. apply hln_last_sc.
Qed.

(** ** CenterOfGravity *)
Lemma cog_sums_sc q : forall w num den,
  @cog_sums R PO (scl q) w (sc * num) (sc * den) = pair_sc (@cog_sums R PO q w num den).
Proof.
  induction q as [|y q IH]; intros w num den; [reflexivity|].
  cbn [Pow2Base.scl map cog_sums]. fold (scl q). opsimp. sc_rw. apply IH.
Qed.

Definition cog_f (st : list R * option R) : list R * option R := (scl (fst st), snd st).

Lemma cog_step_sc n st v : @cog_step R PO n (cog_f st) (sc * v) = rmap cog_f (@cog_step R PO n st v).
Proof.
  destruct st as [q o]. unfold cog_step, cog_f. cbn [fst snd]. sc_rw.
  opsimp. rewrite <- (sc_0 sc) at 1 2. rewrite cog_sums_sc.
  destruct (@cog_sums R PO (evict n q ++ [v]) (length (evict n q ++ [v])) 0 0) as [num den].
  unfold pair_sc. crush.
Qed.

(** CenterOfGravity is bit-identical on the scaled history *)
Theorem cog_scale_free n vs :
  cout (@cog_core R PO n) (map (Rmult sc) vs) = cout (@cog_core R PO n) vs.
Proof.
  rewrite <- (rmap_id (cout (@cog_core R PO n) vs)).
  apply (cout_sim (@cog_core R PO n) sc cog_f (fun o => o)).
  - reflexivity.
  - apply cog_step_sc.
  - intros st. reflexivity.
Qed.

End Views.
