(** EhlersFisherTransform (ehlers_fisher_transform.rs): C11 closed form at [R] for an arbitrary
    moving-average view, C07 range |y| <= ln 199, C12 invariance under x |-> a*x+b (a > 0). *)
From Coq Require Import List Arith Lia Reals Lra ZArith.
From SF Require Import Res Scalar View Models Spec Core SpecEhl.
From SF.Proofs Require Import Chain Window RBase EhlBase Pure.
Import ListNotations.
Open Scope R_scope.

(** * constants *)
Lemma sofdec_5_1 : @sofdec R ROps 5 1 = 1 / 2.
Proof. cbn. lra. Qed.
Lemma sofdec_99_2 : @sofdec R ROps 99 2 = 99 / 100.
Proof. cbn. lra. Qed.
Lemma sofdec_m99_2 : @sofdec R ROps (-99) 2 = - (99 / 100).
Proof. cbn. lra. Qed.

(** * maxima and minima of a window *)
Lemma smax_R a b : @smax R ROps a b = Rmax a b.
Proof.
  unfold smax, sgeb. cbn [sleb ROps]. unfold Rmax.
  destruct (Rle_dec a b) as [H|H].
  - destruct (Rleb b a) eqn:E; [apply Rleb_true in E; lra | reflexivity].
  - destruct (Rleb b a) eqn:E; [reflexivity | apply Rleb_false in E; lra].
Qed.
Lemma smin_R a b : @smin R ROps a b = Rmin a b.
Proof.
  unfold smin. cbn [sleb ROps]. unfold Rmin.
  destruct (Rle_dec a b) as [H|H].
  - destruct (Rleb a b) eqn:E; [reflexivity | apply Rleb_false in E; lra].
  - destruct (Rleb a b) eqn:E; [apply Rleb_true in E; lra | reflexivity].
Qed.

Lemma fold_left_ext2 {A B} (f g : A -> B -> A) l a : (forall x y, f x y = g x y) ->
  fold_left f l a = fold_left g l a.
Proof. intros H. revert a; induction l as [|y l IH]; intros a; cbn; [reflexivity|]. rewrite H. apply IH. Qed.

Lemma wmax_R (w : list R) : @wmax R ROps w = fold_left Rmax (tl w) (hd 0 w).
Proof. unfold wmax. apply fold_left_ext2. apply smax_R. Qed.
Lemma wmin_R (w : list R) : @wmin R ROps w = fold_left Rmin (tl w) (hd 0 w).
Proof. unfold wmin. apply fold_left_ext2. apply smin_R. Qed.

Lemma fold_Rmax_assoc r a b : fold_left Rmax r (Rmax a b) = Rmax a (fold_left Rmax r b).
Proof.
  revert a b; induction r as [|y r IH]; intros a b; cbn [fold_left]; [reflexivity|].
  rewrite <- IH. f_equal. symmetry. apply Rmax_assoc.
Qed.
Lemma fold_Rmin_assoc r a b : fold_left Rmin r (Rmin a b) = Rmin a (fold_left Rmin r b).
Proof.
  revert a b; induction r as [|y r IH]; intros a b; cbn [fold_left]; [reflexivity|].
  rewrite <- IH. f_equal. symmetry. apply Rmin_assoc.
Qed.

Lemma wmax_single v : @wmax R ROps [v] = v. Proof. reflexivity. Qed.
Lemma wmin_single v : @wmin R ROps [v] = v. Proof. reflexivity. Qed.

Lemma wmax_cons x (q : list R) : q <> [] -> @wmax R ROps (x :: q) = Rmax x (@wmax R ROps q).
Proof.
  intros Hq. destruct q as [|y r]; [contradiction|]. rewrite !wmax_R. cbn [tl hd fold_left].
  apply fold_Rmax_assoc.
Qed.
Lemma wmin_cons x (q : list R) : q <> [] -> @wmin R ROps (x :: q) = Rmin x (@wmin R ROps q).
Proof.
  intros Hq. destruct q as [|y r]; [contradiction|]. rewrite !wmin_R. cbn [tl hd fold_left].
  apply fold_Rmin_assoc.
Qed.
Lemma wmax_snoc (q : list R) v : q <> [] -> @wmax R ROps (q ++ [v]) = Rmax (@wmax R ROps q) v.
Proof.
  intros Hq. destruct q as [|y r]; [contradiction|]. rewrite !wmax_R. cbn [app tl hd].
  rewrite fold_left_app. reflexivity.
Qed.
Lemma wmin_snoc (q : list R) v : q <> [] -> @wmin R ROps (q ++ [v]) = Rmin (@wmin R ROps q) v.
Proof.
  intros Hq. destruct q as [|y r]; [contradiction|]. rewrite !wmin_R. cbn [app tl hd].
  rewrite fold_left_app. reflexivity.
Qed.

Lemma wmin_le_wmax (q : list R) : q <> [] -> @wmin R ROps q <= @wmax R ROps q.
Proof.
  intros Hq. destruct q as [|x q]; [contradiction|]. destruct q as [|y r].
  - rewrite wmax_single, wmin_single. lra.
  - rewrite wmax_cons, wmin_cons by discriminate.
    pose proof (Rmin_l x (@wmin R ROps (y :: r))). pose proof (Rmax_l x (@wmax R ROps (y :: r))). lra.
Qed.

Lemma max_by_wmax (q : list R) : q <> [] -> @max_by R ROps q = Some (@wmax R ROps q).
Proof.
  intros Hq. destruct q as [|x r]; [contradiction|]. unfold max_by. f_equal. rewrite wmax_R. cbn [tl hd].
  apply fold_left_ext2. intros m y. unfold sgtb. cbn [sltb ROps]. unfold Rmax.
  destruct (Rltb y m) eqn:E; destruct (Rle_dec m y) as [H|H]; try reflexivity.
  - apply Rltb_true in E. lra.
  - apply Rltb_false in E. lra.
Qed.
Lemma min_by_wmin (q : list R) : q <> [] -> @min_by R ROps q = Some (@wmin R ROps q).
Proof.
  intros Hq. destruct q as [|x r]; [contradiction|]. unfold min_by. f_equal. rewrite wmin_R. cbn [tl hd].
  apply fold_left_ext2. intros m y. unfold sgtb. cbn [sltb ROps]. unfold Rmin.
  destruct (Rltb y m) eqn:E; destruct (Rle_dec m y) as [H|H]; try reflexivity.
  - apply Rltb_true in E. lra.
  - apply Rltb_false in E. lra.
Qed.

(** * the step function in two phases *)
(** phase 1: eviction of the oldest value and repair of the cached extrema *)
Definition eft_p1 (n : nat) (q : list R) (hi lo v : R) : res (list R * R * R) :=
  let '(high, low) := match q with [] => (v, v) | _ => (hi, lo) end in
  if Nat.leb n (length q)
  then do '(old, q') <- pop_front q;
       do high' <- (if @sgeb R ROps old high
                    then match @max_by R ROps q' with Some h => Ok h | None => Err UnwrapNone end
                    else Ok high);
       do low' <- (if @sleb R ROps old low
                   then match @min_by R ROps q' with Some l => Ok l | None => Err UnwrapNone end
                   else Ok low);
       Ok (q', high', low')
  else Ok (q, high, low).

(** phase 2: push, compare with the new value, normalise, feed the MA, Fisher recursion *)
Definition eft_p2 (ma : view R) (m : vst ma) (qout : list R) (q : list R) (high low v : R)
  : res (eft_st (vst ma)) :=
  let q := q ++ [v] in
  let '(high, low) := if @sgtb R ROps v high then (v, low) else if @sltb R ROps v low then (high, v) else (high, low) in
  if @seqb R ROps high low
  then Ok {| ef_ma := m; ef_q := q; ef_high := high; ef_low := low; ef_qout := qout ++ [0] |}
  else
    let half := @sofdec R ROps 5 1 in
    do r <- @sdiv R ROps (v - low) (high - low);
    let x := @sofdec R ROps 2 0 * (r - half) in
    do m' <- vupd ma m x;
    do o <- vlast ma m';
    match o with
    | None => Ok {| ef_ma := m'; ef_q := q; ef_high := high; ef_low := low; ef_qout := qout |}
    | Some sm =>
        let sm := @sclamp R ROps sm (@sofdec R ROps (-99) 2) (@sofdec R ROps 99 2) in
        match @last_opt R qout with
        | None => Ok {| ef_ma := m'; ef_q := q; ef_high := high; ef_low := low; ef_qout := qout ++ [0] |}
        | Some prev =>
            do a <- @sdiv R ROps (1 + sm) (1 - sm);
            do l <- @sln R ROps a;
            let fish := half * l + half * prev in
            Ok {| ef_ma := m'; ef_q := q; ef_high := high; ef_low := low; ef_qout := qout ++ [fish] |}
        end
    end.

Lemma eft_step_split n (ma : view R) (s : eft_st (vst ma)) v :
  @eft_step R ROps n ma s v =
  do '(q, high, low) <- eft_p1 n (ef_q s) (ef_high s) (ef_low s) v;
  eft_p2 ma (ef_ma s) (@evict R n (ef_qout s)) q high low v.
Proof. unfold eft_step, eft_p1. destruct (ef_q s); reflexivity. Qed.

(** phase 1 keeps the cached extrema exact *)
Lemma eft_p1_ok n (vs : list R) hi lo v : (2 <= n)%nat ->
  (vs <> [] -> hi = @wmax R ROps (lastn n vs) /\ lo = @wmin R ROps (lastn n vs)) ->
  exists q1 h1 l1, eft_p1 n (lastn n vs) hi lo v = Ok (q1, h1, l1) /\
    q1 ++ [v] = lastn n (vs ++ [v]) /\
    (q1 = [] -> h1 = v /\ l1 = v) /\
    (q1 <> [] -> h1 = @wmax R ROps q1 /\ l1 = @wmin R ROps q1).
Proof.
  intros Hn Hhl. pose proof (evict_push_lastn n vs v ltac:(lia)) as Hev.
  pose proof (lastn_length n vs) as Hlen. unfold eft_p1.
  destruct (Nat.leb_spec n (length (lastn n vs))) as [Hfull|Hnf].
  - (* full window: the oldest value leaves *)
    destruct (lastn n vs) as [|old q'] eqn:Eq; [cbn in Hfull; lia|].
    assert (Hvs : vs <> []) by (intros ->; rewrite lastn_nil in Eq; discriminate).
    destruct (Hhl Hvs) as [Hhi Hlo]. cbn [length] in Hfull.
    assert (Hq' : q' <> []) by (destruct q'; [cbn in Hfull; lia | discriminate]).
    cbn [pop_front bind tl] in *. rewrite (max_by_wmax q' Hq'), (min_by_wmin q' Hq').
    rewrite (wmax_cons old q' Hq') in Hhi. rewrite (wmin_cons old q' Hq') in Hlo.
    exists q', (@wmax R ROps q'), (@wmin R ROps q'). split; [|split; [exact Hev | split; [contradiction | auto]]].
    unfold sgeb. cbn [sleb ROps].
    assert (H1 : (if Rleb hi old then Ok (@wmax R ROps q') else Ok hi) = @Ok R (@wmax R ROps q')).
    { destruct (Rleb hi old) eqn:E; [reflexivity|]. apply Rleb_false in E. f_equal. subst hi.
      unfold Rmax in *. destruct (Rle_dec old (@wmax R ROps q')); [reflexivity | lra]. }
    assert (H2 : (if Rleb old lo then Ok (@wmin R ROps q') else Ok lo) = @Ok R (@wmin R ROps q')).
    { destruct (Rleb old lo) eqn:E; [reflexivity|]. apply Rleb_false in E. f_equal. subst lo.
      unfold Rmin in *. destruct (Rle_dec old (@wmin R ROps q')); [lra | reflexivity]. }
    rewrite H1. cbn [bind]. rewrite H2. reflexivity.
  - destruct (lastn n vs) as [|x q] eqn:Eq.
    + exists [], v, v. repeat split; auto; contradiction.
    + assert (Hvs : vs <> []) by (intros ->; rewrite lastn_nil in Eq; discriminate).
      destruct (Hhl Hvs) as [Hhi Hlo].
      exists (x :: q), hi, lo. split; [reflexivity|]. split; [exact Hev|]. split; [discriminate | auto].
Qed.

(** comparing the cached extrema with the pushed value *)
Lemma eft_hl_push (q1 : list R) h1 l1 v :
  (q1 = [] -> h1 = v /\ l1 = v) ->
  (q1 <> [] -> h1 = @wmax R ROps q1 /\ l1 = @wmin R ROps q1) ->
  (if @sgtb R ROps v h1 then (v, l1) else if @sltb R ROps v l1 then (h1, v) else (h1, l1))
  = (@wmax R ROps (q1 ++ [v]), @wmin R ROps (q1 ++ [v])).
Proof.
  intros He Hne. unfold sgtb. cbn [sltb ROps]. destruct q1 as [|x q].
  - destruct (He eq_refl) as [-> ->]. cbn [app]. rewrite wmax_single, wmin_single.
    assert (E : Rltb v v = false) by (apply Rltb_false; lra). rewrite E. reflexivity.
  - destruct (Hne ltac:(discriminate)) as [Hh Hl].
    pose proof (wmin_le_wmax (x :: q) ltac:(discriminate)) as Hle.
    rewrite wmax_snoc, wmin_snoc by discriminate. rewrite <- Hh, <- Hl in *.
    unfold Rmax, Rmin.
    destruct (Rltb h1 v) eqn:E1; [apply Rltb_true in E1 | apply Rltb_false in E1];
    (destruct (Rltb v l1) eqn:E2; [apply Rltb_true in E2 | apply Rltb_false in E2]);
    destruct (Rle_dec h1 v); destruct (Rle_dec l1 v); try lra; try reflexivity; f_equal; lra.
Qed.

(** * the specification, one history step at a time *)
Definition eft_x (hi lo v : R) : R := @sofdec R ROps 2 0 * ((v - lo) / (hi - lo) - @sofdec R ROps 5 1).

Lemma eft_norm_snoc n (vs : list R) v :
  @eft_norm R ROps n (vs ++ [v]) =
  let w := lastn n (vs ++ [v]) in
  if Reqb (@wmax R ROps w) (@wmin R ROps w) then None
  else Some (eft_x (@wmax R ROps w) (@wmin R ROps w) v).
Proof.
  unfold eft_norm. cbv zeta. rewrite last_snoc. cbn [seqb ROps].
  destruct (Reqb (@wmax R ROps (lastn n (vs ++ [v]))) (@wmin R ROps (lastn n (vs ++ [v])))) eqn:E; [reflexivity|].
  apply Reqb_false in E. cbn [ssub ROps]. rewrite sdivd_R by lra. reflexivity.
Qed.

Lemma eft_events_snoc n (vs : list R) v :
  @eft_events R ROps n (vs ++ [v]) = @eft_events R ROps n vs ++ [@eft_norm R ROps n (vs ++ [v])].
Proof. unfold eft_events. rewrite prefixes_snoc, map_app. reflexivity. Qed.

Definition eft_new (n : nat) (p : list R) : list R :=
  match @eft_norm R ROps n p with Some x => [x] | None => [] end.

Lemma eft_inputs_snoc n (vs : list R) v :
  @eft_inputs R ROps n (vs ++ [v]) = @eft_inputs R ROps n vs ++ eft_new n (vs ++ [v]).
Proof.
  unfold eft_inputs, eft_new. rewrite eft_events_snoc, ovals_app. cbn [ovals].
  destruct (eft_norm n (vs ++ [v])); reflexivity.
Qed.

Lemma eft_run_snoc_None (evs : list (option R)) : forall mas prev,
  length mas = length (ovals evs) -> @eft_run R ROps (evs ++ [None]) mas prev = Some 0.
Proof.
  induction evs as [|[y|] r IH]; intros mas prev Hl; cbn [app eft_run ovals] in *.
  - reflexivity.
  - destruct mas as [|[sm|] ms]; cbn [length] in Hl; [lia | |]; apply IH; lia.
  - apply IH. exact Hl.
Qed.

Lemma eft_run_snoc_Some (evs : list (option R)) x o : forall mas prev,
  length mas = length (ovals evs) ->
  @eft_run R ROps (evs ++ [Some x]) (mas ++ [o]) prev =
  match o with
  | None => @eft_run R ROps evs mas prev
  | Some sm => Some (match @eft_run R ROps evs mas prev with None => 0 | Some p => @eft_fish R ROps sm p end)
  end.
Proof.
  induction evs as [|[y|] r IH]; intros mas prev Hl; cbn [app eft_run ovals] in *.
  - destruct mas; [|cbn in Hl; lia]. cbn [app eft_run]. destruct o; reflexivity.
  - destruct mas as [|[sm|] ms]; cbn [length] in Hl; [lia | |]; cbn [app]; apply IH; lia.
  - apply IH. exact Hl.
Qed.

(** * the output queue: only its last element matters *)
Lemma last_opt_snoc (q : list R) x : @last_opt R (q ++ [x]) = Some x.
Proof. unfold last_opt. rewrite rev_app_distr. reflexivity. Qed.
Lemma last_opt_nil : @last_opt R [] = None.
Proof. reflexivity. Qed.
Lemma last_opt_evict n (q : list R) : (2 <= n)%nat -> @last_opt R (@evict R n q) = @last_opt R q.
Proof.
  intros Hn. rewrite evict_eq. destruct (Nat.leb_spec n (length q)) as [H|H]; [|reflexivity].
  destruct q as [|a [|b r]]; cbn [length] in H; [lia | lia |]. cbn [tl].
  destruct (@exists_last R (b :: r) ltac:(discriminate)) as [l' [z Hz]]. rewrite Hz.
  change (a :: l' ++ [z]) with ((a :: l') ++ [z]). rewrite !last_opt_snoc. reflexivity.
Qed.

(** * the invariant *)
Definition eft_inv (n : nat) (ma : view R) (m0 : vst ma) (vs : list R) (mas : list (option R))
  (s : eft_st (vst ma)) : Prop :=
  ef_q s = lastn n vs /\
  (vs <> [] -> ef_high s = @wmax R ROps (lastn n vs) /\ ef_low s = @wmin R ROps (lastn n vs)) /\
  steps ma m0 (@eft_inputs R ROps n vs) = Ok (ef_ma s) /\
  @last_opt R (ef_qout s) = @eft_run R ROps (@eft_events R ROps n vs) mas None.

(** the clamp keeps the argument of the logarithm positive *)
Lemma sclamp_R x lo hi : lo <= hi -> lo <= @sclamp R ROps x lo hi <= hi.
Proof.
  intros H. unfold sclamp, sgtb. cbn [sltb ROps].
  destruct (Rltb x lo) eqn:E1; [lra|]. apply Rltb_false in E1.
  destruct (Rltb hi x) eqn:E2; [lra|]. apply Rltb_false in E2. lra.
Qed.
Lemma eft_clamp_bounds x :
  - (99 / 100) <= @sclamp R ROps x (@sofdec R ROps (-99) 2) (@sofdec R ROps 99 2) <= 99 / 100.
Proof. rewrite sofdec_m99_2, sofdec_99_2. apply sclamp_R. lra. Qed.

Lemma eft_fisher_arg_pos c : - (99 / 100) <= c <= 99 / 100 -> 0 < (1 + c) / (1 - c).
Proof. intros H. apply Rdiv_lt_0_compat; lra. Qed.

Lemma sln_R_ok x : 0 < x -> @sln R ROps x = Ok (ln x).
Proof. intros H. cbn. destruct (Rle_dec x 0); [lra | reflexivity]. Qed.

Lemma eft_run_inv n (ma : view R) m0 : (2 <= n)%nat -> vnew ma = Ok m0 ->
  forall vs mas, mrun_from ma m0 (@eft_inputs R ROps n vs) = Ok mas ->
  exists s, crun (@eft_core R ROps n ma) vs = Ok s /\ eft_inv n ma m0 vs mas s.
Proof.
  intros Hn Hm0 vs. induction vs as [|v vs IH] using rev_ind; intros mas Hrun.
  - cbn in Hrun. inversion Hrun; subst mas. eexists. split.
    + unfold crun. cbn [cnew eft_core]. destruct (Nat.leb_spec 2 n) as [_|H]; [|lia].
      cbn [assert bind]. rewrite Hm0. reflexivity.
    + repeat split; try reflexivity.
  - rewrite eft_inputs_snoc in Hrun. rewrite crun_snoc.
    pose proof (eft_norm_snoc n vs v) as Hnorm. cbv zeta in Hnorm.
    set (w := lastn n (vs ++ [v])) in *.
    destruct (Reqb (@wmax R ROps w) (@wmin R ROps w)) eqn:Eeq.
    + (* high = low: 0 is pushed, the MA is not consulted *)
      assert (Hnew : eft_new n (vs ++ [v]) = []) by (unfold eft_new; rewrite Hnorm; reflexivity).
      rewrite Hnew, app_nil_r in Hrun.
      destruct (IH mas Hrun) as [s [Hc [Hq [Hhl [Hs Ho]]]]].
      rewrite Hc. cbn [bind cstep eft_core]. rewrite eft_step_split, Hq.
      destruct (eft_p1_ok n vs (ef_high s) (ef_low s) v Hn Hhl) as (q1 & h1 & l1 & Hp1 & Hev & He & Hne).
      rewrite Hp1. cbn [bind]. unfold eft_p2. cbv zeta. rewrite (eft_hl_push q1 h1 l1 v He Hne), Hev.
      fold w. cbn [seqb ROps]. rewrite Eeq.
      eexists; split; [reflexivity|]. split; [reflexivity|]. cbn [ef_q ef_high ef_low ef_ma ef_qout].
      split; [auto|]. split.
      * rewrite eft_inputs_snoc, Hnew, app_nil_r. exact Hs.
      * rewrite last_opt_snoc, eft_events_snoc, Hnorm. symmetry. apply eft_run_snoc_None.
        destruct (mrun_from_steps R ma m0 _ _ Hrun) as [s' [_ Hl]]. exact Hl.
    + assert (Hnew : eft_new n (vs ++ [v]) = [eft_x (@wmax R ROps w) (@wmin R ROps w) v])
        by (unfold eft_new; rewrite Hnorm; reflexivity).
      rewrite Hnew in Hrun.
      destruct (mrun_from_snoc_inv R ma m0 _ _ _ Hrun) as (outs' & m1 & m2 & o & Hr1 & Hs1 & Hu & Hl & Hmas).
      destruct (IH outs' Hr1) as [s [Hc [Hq [Hhl [Hs Ho]]]]].
      rewrite Hs1 in Hs. inversion Hs as [Hm1]. clear Hs.
      assert (Hlen : length outs' = length (ovals (@eft_events R ROps n vs))).
      { destruct (mrun_from_steps R ma m0 _ _ Hr1) as [s' [_ Hl']]. exact Hl'. }
      rewrite Hc. cbn [bind cstep eft_core]. rewrite eft_step_split, Hq.
      destruct (eft_p1_ok n vs (ef_high s) (ef_low s) v Hn Hhl) as (q1 & h1 & l1 & Hp1 & Hev & He & Hne).
      rewrite Hp1. cbn [bind]. unfold eft_p2. cbv zeta. rewrite (eft_hl_push q1 h1 l1 v He Hne), Hev.
      fold w. cbn [seqb ROps]. rewrite Eeq.
      pose proof Eeq as Hneq. apply Reqb_false in Hneq.
      rewrite sdiv_R_ok by lra. cbn [bind]. fold (eft_x (@wmax R ROps w) (@wmin R ROps w) v).
      rewrite <- Hm1, Hu. cbn [bind]. rewrite Hl. cbn [bind].
      assert (Hsteps : steps ma m0 (@eft_inputs R ROps n (vs ++ [v])) = Ok m2).
      { rewrite eft_inputs_snoc, Hnew, steps_app, Hs1. cbn [bind steps]. rewrite Hu. reflexivity. }
      assert (Hev' : @eft_events R ROps n (vs ++ [v]) =
                     @eft_events R ROps n vs ++ [Some (eft_x (@wmax R ROps w) (@wmin R ROps w) v)])
        by (rewrite eft_events_snoc, Hnorm; reflexivity).
      subst mas. rewrite (last_opt_evict n (ef_qout s) Hn), Ho.
      destruct o as [sm|].
      * pose proof (eft_clamp_bounds sm) as Hcl.
        set (c := @sclamp R ROps sm (@sofdec R ROps (-99) 2) (@sofdec R ROps 99 2)) in *.
        destruct (@eft_run R ROps (@eft_events R ROps n vs) outs' None) as [prev|] eqn:Eprev.
        -- rewrite sdiv_R_ok by lra. cbn [bind].
           rewrite sln_R_ok by (apply eft_fisher_arg_pos; exact Hcl). cbn [bind].
           eexists; split; [reflexivity|]. split; [reflexivity|].
           cbn [ef_q ef_high ef_low ef_ma ef_qout]. split; [auto|]. split; [exact Hsteps|].
           rewrite last_opt_snoc, Hev', (eft_run_snoc_Some _ _ _ _ _ Hlen), Eprev.
           f_equal. unfold eft_fish. fold c. cbn [sadd smul ssub s1 ROps].
           rewrite sdivd_R by lra. unfold slnd, totd.
           rewrite sln_R_ok by (apply eft_fisher_arg_pos; exact Hcl). reflexivity.
        -- eexists; split; [reflexivity|]. split; [reflexivity|].
           cbn [ef_q ef_high ef_low ef_ma ef_qout]. split; [auto|]. split; [exact Hsteps|].
           rewrite last_opt_snoc, Hev', (eft_run_snoc_Some _ _ _ _ _ Hlen), Eprev. reflexivity.
      * eexists; split; [reflexivity|]. split; [reflexivity|].
        cbn [ef_q ef_high ef_low ef_ma ef_qout]. split; [auto|]. split; [exact Hsteps|].
        rewrite (last_opt_evict n (ef_qout s) Hn), Ho, Hev', (eft_run_snoc_Some _ _ _ _ _ Hlen). reflexivity.
Qed.

(** * C11: the closed form *)
Theorem eft_closed_form : forall n (ma : view R) vs mas, (2 <= n)%nat ->
  mrun ma (@eft_inputs R ROps n vs) = Ok mas ->
  cout (@eft_core R ROps n ma) vs = Ok (@spec_eft R ROps n vs mas).
Proof.
  intros n ma vs mas Hn Hrun. unfold mrun in Hrun.
  destruct (vnew ma) as [m0|e] eqn:Hm0; cbn [bind] in Hrun; [|discriminate].
  destruct (eft_run_inv n ma m0 Hn Hm0 vs mas Hrun) as [s [Hc [Hq [Hhl [Hs Ho]]]]].
  unfold cout. rewrite Hc. cbn [bind clast eft_core]. rewrite Ho. reflexivity.
Qed.

(** * C07: every reported value lies in [-ln 199, ln 199], for any MA view *)
Lemma ln_le_mono x y : 0 < x -> x <= y -> ln x <= ln y.
Proof.
  intros Hx [Hlt|Heq]; [left; apply ln_increasing; assumption | subst; lra].
Qed.
Lemma Rabs_le_inv' a b : Rabs a <= b -> - b <= a <= b.
Proof. unfold Rabs. destruct (Rcase_abs a); lra. Qed.
Lemma ln199_ge0 : 0 <= ln 199.
Proof. rewrite <- ln_1. apply ln_le_mono; lra. Qed.

Lemma eft_fisher_arg_bound c : - (99 / 100) <= c <= 99 / 100 -> Rabs (ln ((1 + c) / (1 - c))) <= ln 199.
Proof.
  intros Hc. pose proof (eft_fisher_arg_pos c Hc) as Hpos.
  set (a := (1 + c) / (1 - c)) in *.
  assert (Ha : a * (1 - c) = 1 + c) by (unfold a; field; lra).
  assert (Hup : a <= 199) by nra.
  assert (Hlo : / 199 <= a).
  { apply (Rmult_le_reg_r 199); [lra|]. rewrite Rinv_l by lra. nra. }
  apply Rabs_le. split.
  - rewrite <- ln_Rinv by lra. apply ln_le_mono; [apply Rinv_0_lt_compat; lra | exact Hlo].
  - apply ln_le_mono; assumption.
Qed.

Definition eft_bounded (y : R) : Prop := Rabs y <= ln 199.

Lemma eft_bounded_0 : eft_bounded 0.
Proof. unfold eft_bounded. rewrite Rabs_R0. apply ln199_ge0. Qed.

Lemma last_opt_In (q : list R) x : @last_opt R q = Some x -> In x q.
Proof.
  unfold last_opt. intros H. apply in_rev. destruct (rev q) as [|y r]; [discriminate|].
  inversion H; subst. left; reflexivity.
Qed.

(** the part of phase 2 after the comparison with the new value *)
Definition eft_p3 (ma : view R) (m : vst ma) (qout : list R) (q : list R) (high low v : R)
  : res (eft_st (vst ma)) :=
  if @seqb R ROps high low
  then Ok {| ef_ma := m; ef_q := q; ef_high := high; ef_low := low; ef_qout := qout ++ [0] |}
  else
    let half := @sofdec R ROps 5 1 in
    do r <- @sdiv R ROps (v - low) (high - low);
    let x := @sofdec R ROps 2 0 * (r - half) in
    do m' <- vupd ma m x;
    do o <- vlast ma m';
    match o with
    | None => Ok {| ef_ma := m'; ef_q := q; ef_high := high; ef_low := low; ef_qout := qout |}
    | Some sm =>
        let sm := @sclamp R ROps sm (@sofdec R ROps (-99) 2) (@sofdec R ROps 99 2) in
        match @last_opt R qout with
        | None => Ok {| ef_ma := m'; ef_q := q; ef_high := high; ef_low := low; ef_qout := qout ++ [0] |}
        | Some prev =>
            do a <- @sdiv R ROps (1 + sm) (1 - sm);
            do l <- @sln R ROps a;
            let fish := half * l + half * prev in
            Ok {| ef_ma := m'; ef_q := q; ef_high := high; ef_low := low; ef_qout := qout ++ [fish] |}
        end
    end.

Lemma eft_p3_qout (ma : view R) m qout q high low v s' :
  eft_p3 ma m qout q high low v = Ok s' -> Forall eft_bounded qout -> Forall eft_bounded (ef_qout s').
Proof.
  intros H HF. unfold eft_p3 in H. cbv zeta in H.
  assert (Hpush0 : Forall eft_bounded (qout ++ [0])).
  { apply Forall_app; split; [exact HF | constructor; [apply eft_bounded_0 | constructor]]. }
  destruct (@seqb R ROps high low).
  { inversion H; subst s'. exact Hpush0. }
  destruct (@sdiv R ROps (v - low) (high - low)) as [r|e]; cbn [bind] in H; [|discriminate].
  destruct (vupd ma m _) as [m'|e]; cbn [bind] in H; [|discriminate].
  destruct (vlast ma m') as [[sm|]|e]; cbn [bind] in H; [| |discriminate].
  - pose proof (eft_clamp_bounds sm) as Hcl.
    set (c := @sclamp R ROps sm (@sofdec R ROps (-99) 2) (@sofdec R ROps 99 2)) in *.
    destruct (@last_opt R qout) as [prev|] eqn:Eprev.
    + rewrite sdiv_R_ok in H by lra. cbn [bind] in H.
      rewrite sln_R_ok in H by (apply eft_fisher_arg_pos; exact Hcl). cbn [bind] in H.
      inversion H; subst s'. cbn [ef_qout].
      apply Forall_app; split; [exact HF | constructor; [|constructor]].
      pose proof (eft_fisher_arg_bound c Hcl) as Hl.
      assert (Hp : eft_bounded prev).
      { apply last_opt_In in Eprev. rewrite Forall_forall in HF. apply HF. exact Eprev. }
      unfold eft_bounded in *. change (5e-1) with (@sofdec R ROps 5 1). rewrite sofdec_5_1.
      apply Rabs_le_inv' in Hl. apply Rabs_le_inv' in Hp. apply Rabs_le. lra.
    + inversion H; subst s'. exact Hpush0.
  - inversion H; subst s'. exact HF.
Qed.

Lemma Forall_evict (P : R -> Prop) n (q : list R) : Forall P q -> Forall P (@evict R n q).
Proof.
  intros H. rewrite evict_eq. destruct (Nat.leb n (length q)); [|exact H].
  destruct q; [exact H|]. inversion H; assumption.
Qed.

Lemma eft_step_qout n (ma : view R) (s s' : eft_st (vst ma)) v :
  @eft_step R ROps n ma s v = Ok s' -> Forall eft_bounded (ef_qout s) -> Forall eft_bounded (ef_qout s').
Proof.
  intros H HF. rewrite eft_step_split in H.
  destruct (eft_p1 n (ef_q s) (ef_high s) (ef_low s) v) as [[[q h] l]|e]; cbn [bind] in H; [|discriminate].
  pose proof (Forall_evict eft_bounded n (ef_qout s) HF) as HF'.
  unfold eft_p2 in H. cbv zeta in H.
  destruct (@sgtb R ROps v h); [|destruct (@sltb R ROps v l)];
    exact (eft_p3_qout ma (ef_ma s) (@evict R n (ef_qout s)) (q ++ [v]) _ _ v s' H HF').
Qed.

Lemma eft_crun_qout n (ma : view R) vs : forall s,
  crun (@eft_core R ROps n ma) vs = Ok s -> Forall eft_bounded (ef_qout s).
Proof.
  induction vs as [|v vs IH] using rev_ind; intros s H.
  - unfold crun in H. cbn [cnew eft_core cfold] in H.
    destruct (assert (Nat.leb 2 n)); cbn [bind] in H; [|discriminate].
    destruct (vnew ma); cbn [bind] in H; [|discriminate]. inversion H; subst s. constructor.
  - rewrite crun_snoc in H. apply bind_ok in H. destruct H as [s1 [H1 H2]].
    exact (eft_step_qout n ma s1 s v H2 (IH s1 H1)).
Qed.

(** strong form: no hypothesis on the MA view, none on [n] (for [n < 2] the constructor fails) *)
Theorem eft_range_strong : forall n (ma : view R) vs y,
  cout (@eft_core R ROps n ma) vs = Ok (Some y) -> Rabs y <= ln 199.
Proof.
  intros n ma vs y H. unfold cout in H. apply bind_ok in H. destruct H as [s [Hc Hl]].
  cbn [clast eft_core] in Hl. inversion Hl as [Hl'].
  pose proof (eft_crun_qout n ma vs s Hc) as HF. rewrite Forall_forall in HF.
  apply (HF y). apply last_opt_In. exact Hl'.
Qed.

Theorem eft_range : forall n (ma : view R) vs y, (2 <= n)%nat ->
  cout (@eft_core R ROps n ma) vs = Ok (Some y) -> Rabs y <= ln 199.
Proof. intros n ma vs y _. apply eft_range_strong. Qed.

(** * C12: invariance under x |-> a*x + b with a > 0 *)
Section Affine.
Variables a b : R.
Hypothesis Ha : 0 < a.
Let f (x : R) : R := a * x + b.

Lemma aff_Rmax x y : Rmax (f x) (f y) = f (Rmax x y).
Proof.
  unfold f, Rmax. destruct (Rle_dec x y) as [H|H]; destruct (Rle_dec (a * x + b) (a * y + b)) as [H'|H'];
    try reflexivity; exfalso; nra.
Qed.
Lemma aff_Rmin x y : Rmin (f x) (f y) = f (Rmin x y).
Proof.
  unfold f, Rmin. destruct (Rle_dec x y) as [H|H]; destruct (Rle_dec (a * x + b) (a * y + b)) as [H'|H'];
    try reflexivity; exfalso; nra.
Qed.
Lemma aff_fold_Rmax r x : fold_left Rmax (map f r) (f x) = f (fold_left Rmax r x).
Proof. revert x; induction r as [|y r IH]; intros x; cbn [map fold_left]; [reflexivity|]. rewrite aff_Rmax. apply IH. Qed.
Lemma aff_fold_Rmin r x : fold_left Rmin (map f r) (f x) = f (fold_left Rmin r x).
Proof. revert x; induction r as [|y r IH]; intros x; cbn [map fold_left]; [reflexivity|]. rewrite aff_Rmin. apply IH. Qed.

Lemma aff_wmax (w : list R) : w <> [] -> @wmax R ROps (map f w) = f (@wmax R ROps w).
Proof. intros Hw. destruct w as [|x r]; [contradiction|]. rewrite !wmax_R. cbn [map tl hd]. apply aff_fold_Rmax. Qed.
Lemma aff_wmin (w : list R) : w <> [] -> @wmin R ROps (map f w) = f (@wmin R ROps w).
Proof. intros Hw. destruct w as [|x r]; [contradiction|]. rewrite !wmin_R. cbn [map tl hd]. apply aff_fold_Rmin. Qed.

Lemma lastn_map {A B} (g : A -> B) n (l : list A) : lastn n (map g l) = map g (lastn n l).
Proof. unfold lastn. rewrite map_length. apply skipn_map. Qed.

Lemma aff_eft_norm n (p : list R) : p <> [] -> @eft_norm R ROps n (map f p) = @eft_norm R ROps n p.
Proof.
  intros Hp. destruct (exists_last Hp) as [vs [v Hv]]. subst p.
  rewrite map_app. cbn [map]. rewrite !eft_norm_snoc. cbv zeta.
  change (map f vs ++ [f v]) with (map f vs ++ map f [v]). rewrite <- map_app, lastn_map.
  set (w := lastn n (vs ++ [v])).
  destruct w as [|x r] eqn:Ew.
  - cbn [map]. assert (E0 : Reqb (@wmax R ROps []) (@wmin R ROps []) = true) by (apply Reqb_true; reflexivity).
    rewrite E0. reflexivity.
  - rewrite <- Ew. assert (Hw : w <> []) by (rewrite Ew; discriminate).
    rewrite (aff_wmax w Hw), (aff_wmin w Hw).
    set (hi := @wmax R ROps w). set (lo := @wmin R ROps w).
    destruct (Reqb hi lo) eqn:E.
    + apply Reqb_true in E. assert (E' : Reqb (f hi) (f lo) = true) by (apply Reqb_true; rewrite E; reflexivity).
      rewrite E'. reflexivity.
    + apply Reqb_false in E. assert (E' : Reqb (f hi) (f lo) = false).
      { apply Reqb_false. unfold f. intros H. apply E. nra. }
      rewrite E'. f_equal. unfold eft_x. f_equal. f_equal. unfold f. field. split; [lra|]. nra.
Qed.

Lemma prefixes_map {A B} (g : A -> B) (l : list A) : prefixes (map g l) = map (map g) (prefixes l).
Proof.
  unfold prefixes. rewrite map_length, map_map. apply map_ext. intros k. apply firstn_map.
Qed.

Lemma prefixes_nonempty {A} (l p : list A) : In p (prefixes l) -> p <> [].
Proof.
  unfold prefixes. intros H. apply in_map_iff in H. destruct H as [k [Hk Hin]]. apply in_seq in Hin.
  subst p. destruct l; [cbn in Hin; lia|]. destruct k; [lia|]. discriminate.
Qed.

Theorem eft_events_affine n (vs : list R) :
  @eft_events R ROps n (map f vs) = @eft_events R ROps n vs.
Proof.
  unfold eft_events. rewrite prefixes_map, map_map. apply map_ext_in.
  intros p Hp. apply aff_eft_norm. exact (prefixes_nonempty vs p Hp).
Qed.

Theorem eft_inputs_affine n (vs : list R) :
  @eft_inputs R ROps n (map f vs) = @eft_inputs R ROps n vs.
Proof. unfold eft_inputs. rewrite eft_events_affine. reflexivity. Qed.

Theorem spec_eft_affine n (vs : list R) mas :
  @spec_eft R ROps n (map f vs) mas = @spec_eft R ROps n vs mas.
Proof. unfold spec_eft. rewrite eft_events_affine. reflexivity. Qed.
End Affine.

(** C12 *)
Theorem eft_affine_invariant : forall n a b (vs : list R), 0 < a ->
  @eft_events R ROps n (map (fun x => a * x + b) vs) = @eft_events R ROps n vs /\
  @eft_inputs R ROps n (map (fun x => a * x + b) vs) = @eft_inputs R ROps n vs /\
  forall mas, @spec_eft R ROps n (map (fun x => a * x + b) vs) mas = @spec_eft R ROps n vs mas.
Proof.
  intros n a b vs Ha. split; [|split].
  - apply eft_events_affine; exact Ha.
  - apply eft_inputs_affine; exact Ha.
  - intros mas. apply spec_eft_affine; exact Ha.
Qed.

(** corollary on the model: the two runs report the same value, for the same MA view *)
Theorem eft_affine_invariant_cout : forall n (ma : view R) a b (vs : list R) mas, (2 <= n)%nat -> 0 < a ->
  mrun ma (@eft_inputs R ROps n vs) = Ok mas ->
  cout (@eft_core R ROps n ma) (map (fun x => a * x + b) vs) = cout (@eft_core R ROps n ma) vs.
Proof.
  intros n ma a b vs mas Hn Ha Hrun.
  destruct (eft_affine_invariant n a b vs Ha) as [_ [Hin Hspec]].
  rewrite (eft_closed_form n ma vs mas Hn Hrun).
  rewrite (eft_closed_form n ma (map (fun x => a * x + b) vs) mas Hn) by (rewrite Hin; exact Hrun).
  rewrite Hspec. reflexivity.
Qed.

(** * the hypotheses are satisfiable *)
Example eft_closed_form_hyps :
  (2 <= 2)%nat /\ exists mas, mrun (@echo R) (@eft_inputs R ROps 2 [1; 2; 4]) = Ok mas.
Proof. split; [lia|]. eexists. apply echo_latest. Qed.

(** a concrete run with [ma := echo]: after [1; 2] the window is [1; 2], the MA receives 2*(1 - 1/2) = 1
    and, nothing having been pushed but the initial 0 (high = low at the first step), answers 1,
    which is clamped to 0.99: the value is 1/2 ln 199 + 1/2 * 0 *)
Example eft_echo_value :
  cout (@eft_core R ROps 2 (@echo R)) [1; 2] = Ok (Some (/ 2 * ln 199)).
Proof.
  assert (Hin : @eft_inputs R ROps 2 [1; 2] = [1]).
  { unfold eft_inputs, eft_events, prefixes. cbn [length seq map firstn].
    change [1; 2] with ([1] ++ [2]). rewrite (eft_norm_snoc 2 [1] 2). cbv zeta.
    change [1] with ([] ++ [1]) at 1. rewrite (eft_norm_snoc 2 [] 1). cbv zeta.
    cbn [app]. unfold lastn. cbn [length Nat.sub skipn].
    rewrite wmax_single, wmin_single.
    assert (E1 : Reqb 1 1 = true) by (apply Reqb_true; reflexivity). rewrite E1.
    rewrite wmax_cons, wmin_cons by discriminate. rewrite wmax_single, wmin_single.
    assert (Hmx : Rmax 1 2 = 2) by (apply Rmax_right; lra).
    assert (Hmn : Rmin 1 2 = 1) by (apply Rmin_left; lra). rewrite Hmx, Hmn.
    assert (E2 : Reqb 2 1 = false) by (apply Reqb_false; lra). rewrite E2.
    cbn [ovals]. f_equal. unfold eft_x. rewrite sofdec_5_1. cbn [sofdec ROps]. cbn. lra. }
  rewrite (eft_closed_form 2 (@echo R) [1; 2] [Some 1]).
  - unfold spec_eft, eft_events, prefixes. cbn [length seq map firstn].
    change [1; 2] with ([1] ++ [2]). rewrite (eft_norm_snoc 2 [1] 2). cbv zeta.
    change [1] with ([] ++ [1]) at 1. rewrite (eft_norm_snoc 2 [] 1). cbv zeta.
    cbn [app]. unfold lastn. cbn [length Nat.sub skipn].
    rewrite wmax_single, wmin_single.
    assert (E1 : Reqb 1 1 = true) by (apply Reqb_true; reflexivity). rewrite E1.
    rewrite wmax_cons, wmin_cons by discriminate. rewrite wmax_single, wmin_single.
    assert (Hmx : Rmax 1 2 = 2) by (apply Rmax_right; lra).
    assert (Hmn : Rmin 1 2 = 1) by (apply Rmin_left; lra). rewrite Hmx, Hmn.
    assert (E2 : Reqb 2 1 = false) by (apply Reqb_false; lra). rewrite E2.
    cbn [eft_run]. do 2 f_equal. unfold eft_fish.
    assert (Hc : @sclamp R ROps 1 (@sofdec R ROps (-99) 2) (@sofdec R ROps 99 2) = 99 / 100).
    { rewrite sofdec_m99_2, sofdec_99_2. unfold sclamp, sgtb. cbn [sltb ROps].
      assert (F1 : Rltb 1 (- (99 / 100)) = false) by (apply Rltb_false; lra).
      assert (F2 : Rltb (99 / 100) 1 = true) by (apply Rltb_true; lra). rewrite F1, F2. reflexivity. }
    rewrite Hc, sofdec_5_1. cbn [sadd ssub smul s0 s1 ROps]. rewrite sdivd_R by lra.
    unfold slnd, totd. rewrite sln_R_ok by lra.
    replace ((1 + 99 / 100) / (1 - 99 / 100)) with 199 by field. lra.
  - lia.
  - rewrite Hin. exact (echo_latest [1]).
Qed.

Example eft_range_hyps : exists y, cout (@eft_core R ROps 2 (@echo R)) [1; 2] = Ok (Some y).
Proof. eexists. apply eft_echo_value. Qed.

Example eft_affine_hyps : 0 < 3 /\ (2 <= 2)%nat /\
  exists mas, mrun (@echo R) (@eft_inputs R ROps 2 [1; 2]) = Ok mas.
Proof. split; [lra|]. split; [lia|]. eexists. apply echo_latest. Qed.

Print Assumptions eft_closed_form.
Print Assumptions eft_range_strong.
Print Assumptions eft_range.
Print Assumptions eft_affine_invariant.
Print Assumptions eft_affine_invariant_cout.
