(** C09 (stability and fading memory), second part: TrendFlex/ReFlex smoother, deviation, mean square and normalised
    output; LaguerreRSI ladder and output; EhlersFisherTransform two-run statement; BIBO of chains.
    Summary, correspondence of SpecStab2.v at R, satisfiability examples and assumptions.
    The proofs are in Stab2{SS,Flex,Lrsi,Eft,Chain}.v.

    TrendFlex/ReFlex smoother (Stab2SS.v)  [filt_gain n G], [filt_fading n G rho]
        flex_filt_bibo3 / flex_filt_fading3   (n >= 3: G = |c1|/((1-a1) sin theta), rho = a1; norm argument)
        flex_filt_bibo12 / flex_filt_fading12 (n = 1, 2: no c3 term in the window; G = |c1|/(1-|b1e|), rho = |b1e|; b1e = 0 for n = 1)
        flex_filt_bibo / flex_filt_fading     (every n >= 1), flex_filt_homogeneous_exact
    TrendFlex (Stab2Flex.v)
        trendflex_dev_bounded (|d| <= 2 G U), trendflex_dev_fading (<= 4 G U rho^(k-n)),
        trendflex_ms_bounded (ms <= (2GU)^2), trendflex_ms_fading ((D^2 + 0.16 k D^2) q^(k-n), q >= max(0.96, rho)),
        trendflex_ms_fading_eps, trendflex_fading_nondegenerate_explicit, trendflex_fading_nondegenerate
        (generic section [Flex]: dev_bounded, dev_fading, ms_bounded, ms_fading, out_fading_nondegenerate for any
         window deviation with constants Kd)
    ReFlex (Stab2Reflex.v; Kd = 4)
        reflex_dev_bounded (|d| <= 4 G U), reflex_dev_fading, reflex_ms_bounded, reflex_ms_fading,
        reflex_fading_nondegenerate
    LaguerreRSI (Stab2Lrsi.v)
        lrsi_n1_silent (n = 1: gamma = 1, never an output), lrsi_ladder_fading, lrsi_fading_nondegenerate_explicit,
        lrsi_fading_nondegenerate
    EFT (Stab2Eft.v)
        finite_memory, ready_after, echo_finite_memory, echo_ready, sma_finite_memory, sma_ready,
        two_run_step, eft_two_run_halving (general), eft_fading, eft_fading_cout, eft_fading_echo, eft_fading_sma
    chains (Stab2Chain.v)  lin_bibo, bibo_chain, bibo_chain_list, bibo_chain_outputs *)
From Coq Require Import List Arith Lia ZArith Reals Lra.
From SF Require Import Res Scalar View Models Spec Core SpecLin SpecStab SpecEhl SpecStab2.
From SF.Proofs Require Import Window RBase EhlBase EhlFlex EhlLrsi EhlEft.
From SF.Proofs Require Export StabBase Stab2SS Stab2Flex Stab2Reflex Stab2Lrsi Stab2Eft Stab2Chain.
Import ListNotations.
Open Scope R_scope.

(** * SpecStab2.v at R *)
Lemma stab2_flex_b1e_R n : @stab2_flex_b1e R ROps n = fx_b1e n.
Proof. reflexivity. Qed.
Lemma stab2_flex_c3e_R n : @stab2_flex_c3e R ROps n = fx_c3e n.
Proof. reflexivity. Qed.
Lemma stab2_flex_rate_R n : @stab2_flex_rate R ROps n = flex_rate n.
Proof. reflexivity. Qed.
Lemma spow_R q k : @spow R ROps q k = q ^ k.
Proof. induction k as [|k IH]; [reflexivity|]. cbn [spow pow smul ROps]. rewrite IH. reflexivity. Qed.
Lemma stab2_ms_env_R n g kd u q k : @stab2_ms_env R ROps n g kd u q k = ms_env n g kd u q k.
Proof.
  unfold stab2_ms_env, ms_env. cbv zeta. rewrite spow_R. cbn [sadd smul sofnat sofdec ROps].
  replace (IZR 16 / IZR (10 ^ Z.of_nat 2)) with (16 / 100) by (cbn; lra). reflexivity.
Qed.
Lemma stab2_eft_sync_R n m : stab2_eft_sync n m = (n + m - 1)%nat.
Proof. reflexivity. Qed.

(** * satisfiability of the hypotheses *)
Example flex_filt_ex : filt_gain 3 (flex_gain 3) /\ filt_fading 3 (flex_gain 3) (flex_rate 3) /\ 0 <= flex_rate 3 < 1
                       /\ filt_gain 1 (flex_gain 1) /\ filt_fading 2 (flex_gain 2) (flex_rate 2).
Proof.
  repeat split; try (apply flex_filt_bibo; lia); try (apply flex_filt_fading; lia); apply flex_rate_range; lia.
Qed.

Example bounded_ex2 : bounded 1 ([1; -1] ++ [/ 2]) /\ bounded 1 ([0; 1] ++ [/ 2]) /\ length [1; -1] = length [0; 1].
Proof.
  repeat split; unfold bounded; repeat (apply Forall_cons; [apply Rabs_le; lra|]); apply Forall_nil.
Qed.

Example trendflex_dev_ex : Rabs (tf_d 3 ([1; -1] ++ [/ 2])) <= 2 * (flex_gain 3 * 1)
  /\ Rabs (tf_d 3 ([1; -1] ++ [/ 2]) - tf_d 3 ([0; 1] ++ [/ 2])) <= 2 * (2 * flex_gain 3 * 1 * flex_rate 3 ^ (1 - 3)).
Proof.
  destruct bounded_ex2 as (B1 & B2 & Hl). split.
  - apply trendflex_dev_bounded; [lia | lra | exact B1].
  - apply (trendflex_dev_fading 3 1 [1; -1] [0; 1] [/ 2]); [lia | lra | exact Hl | |].
    + apply bounded_app in B1. apply B1.
    + apply bounded_app in B2. apply B2.
Qed.

Example trendflex_ms_ex : 0 <= tf_ms 3 ([1; -1] ++ [/ 2]) <= (2 * (flex_gain 3 * 1)) * (2 * (flex_gain 3 * 1))
  /\ exists M, forall s, (M <= length s)%nat -> bounded 1 ([1; -1] ++ s) -> bounded 1 ([0; 1] ++ s) ->
       Rabs (tf_ms 3 ([1; -1] ++ s) - tf_ms 3 ([0; 1] ++ s)) < / 1000.
Proof.
  destruct bounded_ex2 as (B1 & B2 & Hl). split.
  - apply trendflex_ms_bounded; [lia | lra | exact B1].
  - apply trendflex_ms_fading_eps; [lia | lra | exact Hl | lra].
Qed.

Example trendflex_fading_nondegenerate_ex : exists M, forall s o o', (M <= length s)%nat ->
  bounded 1 ([1; -1] ++ s) -> bounded 1 ([0; 1] ++ s) ->
  / 100 <= tf_ms 3 ([1; -1] ++ s) -> / 100 <= tf_ms 3 ([0; 1] ++ s) ->
  cout (@trendflex_core R ROps 3) ([1; -1] ++ s) = Ok (Some o) -> cout (@trendflex_core R ROps 3) ([0; 1] ++ s) = Ok (Some o') ->
  Rabs (o - o') < / 1000.
Proof. apply trendflex_fading_nondegenerate; [lia | lra | lra | reflexivity | lra]. Qed.

Example reflex_fading_nondegenerate_ex : exists M, forall s o o', (M <= length s)%nat ->
  bounded 1 ([1; -1] ++ s) -> bounded 1 ([0; 1] ++ s) ->
  / 100 <= rf_ms 4 ([1; -1] ++ s) -> / 100 <= rf_ms 4 ([0; 1] ++ s) ->
  cout (@reflex_core R ROps 4) ([1; -1] ++ s) = Ok (Some o) -> cout (@reflex_core R ROps 4) ([0; 1] ++ s) = Ok (Some o') ->
  Rabs (o - o') < / 1000.
Proof. apply reflex_fading_nondegenerate; [lia | lra | lra | reflexivity | lra]. Qed.

Example lrsi_fading_nondegenerate_ex : exists M, forall s o o', (M <= length s)%nat ->
  / 100 <= lrsi_den 2 ([1; -1] ++ s) -> / 100 <= lrsi_den 2 ([0; 1] ++ s) ->
  cout (@lrsi_core R ROps 2) ([1; -1] ++ s) = Ok (Some o) -> cout (@lrsi_core R ROps 2) ([0; 1] ++ s) = Ok (Some o') ->
  Rabs (o - o') < / 1000.
Proof. apply lrsi_fading_nondegenerate; [lia | lra | reflexivity | lra]. Qed.

Example lrsi_ladder_fading_ex : (2 <= 5)%nat /\ 0 < gam 5 < 1 /\ gam 1 = 1.
Proof. split; [lia|]. split; [apply gam_range; lia | apply gam_1]. Qed.

Example eft_memory_ex : finite_memory (@echo R) 1 /\ ready_after (@echo R) 1 /\
  finite_memory (standalone (@sma_core R ROps 4)) 4 /\ ready_after (standalone (@sma_core R ROps 4)) 4.
Proof.
  repeat split; [apply echo_finite_memory; lia | apply echo_ready | apply sma_finite_memory; lia | apply sma_ready; lia].
Qed.

(** the non-degeneracy hypotheses can hold: ms_t > 0 and CU + CD > 0 on concrete histories *)
Lemma ss_c1_pos2 : 0 < @ss_c1 R ROps 2.
Proof.
  destruct (ss_coefs_R 2 ltac:(lia)) as (_ & E3 & E1). rewrite E1, E3.
  pose proof fx_b1_small2 as Hb. apply Rabs_def2 in Hb. pose proof (fx_a_range 2 ltac:(lia)). nra.
Qed.

Example tf_ms_pos_ex : 0 < tf_ms 2 ([0] ++ [1]).
Proof.
  rewrite tf_ms_gms, gms_snoc. pose proof (gms_nonneg 2 (@tf_dev R ROps 2) [0]) as H0.
  assert (Hd : gdev 2 (@tf_dev R ROps 2) ([0] ++ [1]) = @ss_c1 R ROps 2 / 4).
  { unfold gdev. change ([0] ++ [1]) with (([] ++ [0]) ++ [1]). rewrite !ss_filts_snoc, ss_filts_nil.
    rewrite !ss_next_pair by lia. cbn [app last]. unfold fpair. cbn [last removelast fst snd].
    rewrite tf_dev_R by lia. cbn [app]. rewrite lastn_all by (cbn [length]; lia).
    cbn [map last]. rewrite !ssum_R_cons, ssum_R_nil. replace (INR 2) with 2 by (cbn; lra). field. }
  rewrite Hd. pose proof ss_c1_pos2. nra.
Qed.

Example lrsi_den_ex : 5 / 9 <= lrsi_den 2 [0; 0; 1].
Proof.
  unfold lrsi_den. cbn [skipn]. unfold lrsi_stages. cbn [fold_left]. rewrite gam_eq.
  replace (INR 2) with 2 by (cbn; lra). unfold lad_step. cbn [sadd ssub smul sneg s0 s1 ROps].
  unfold lrsi_cu, lrsi_cd. rewrite !spos_R. cbn [sadd ssub ROps].
  repeat match goal with |- context [Rmax 0 ?x] =>
    let H1 := fresh in let H2 := fresh in
    pose proof (Rmax_l 0 x) as H1; pose proof (Rmax_r 0 x) as H2; set (Rmax 0 x) in * end.
  lra.
Qed.

(** * assumptions *)
Print Assumptions flex_filt_bibo.
Print Assumptions flex_filt_fading.
Print Assumptions flex_filt_homogeneous_exact.
Print Assumptions trendflex_dev_bounded.
Print Assumptions trendflex_dev_fading.
Print Assumptions trendflex_ms_bounded.
Print Assumptions trendflex_ms_fading.
Print Assumptions trendflex_ms_fading_eps.
Print Assumptions trendflex_fading_nondegenerate_explicit.
Print Assumptions trendflex_fading_nondegenerate.
Print Assumptions reflex_dev_bounded.
Print Assumptions reflex_dev_fading.
Print Assumptions reflex_ms_bounded.
Print Assumptions reflex_ms_fading.
Print Assumptions reflex_fading_nondegenerate.
Print Assumptions lrsi_n1_silent.
Print Assumptions lrsi_ladder_fading.
Print Assumptions lrsi_fading_nondegenerate_explicit.
Print Assumptions lrsi_fading_nondegenerate.
Print Assumptions echo_finite_memory.
Print Assumptions sma_finite_memory.
Print Assumptions eft_two_run_halving.
Print Assumptions eft_fading.
Print Assumptions eft_fading_cout.
Print Assumptions eft_fading_echo.
Print Assumptions eft_fading_sma.
Print Assumptions bibo_chain.
Print Assumptions bibo_chain_list.
