(** C10, DC behaviour: LaguerreFilter reproduces a constant; SuperSmoother has unit DC gain; the
    high-pass forcing terms of RoofingFilter and CyberCycle (n >= 6) vanish on a constant input;
    CyberCycle with n in {4,5} does NOT send a constant to 0 (recorded finding), n = 3 is identically 0. *)
From Coq Require Import List Arith Lia ZArith Reals Lra.
From SF Require Import Res Scalar View Models Spec Core SpecLin.
From SF.Proofs Require Import Window RBase LinBase LinSS LinLag LinCC.
Import ListNotations.
Open Scope R_scope.
Local Existing Instance ROps.

Lemma nth_repeat_lt (c : R) L i : (i < L)%nat -> nth i (repeat c L) 0 = c.
Proof. intros H. rewrite (nth_indep _ 0 c) by (rewrite repeat_length; lia). apply nth_repeat. Qed.

Lemma repeat_snoc (c : R) L : repeat c (S L) = repeat c L ++ [c].
Proof. cbn [repeat]. apply repeat_cons. Qed.

(** * LaguerreFilter: a constant stream is reproduced exactly, from the first output on *)
Lemma lagb_at_const g c L t : (t < L)%nat -> lagb_at g (repeat c L) t = (c, c, c, c).
Proof.
  induction t as [|t IH]; intros H.
  - cbn [lagb_at]. rewrite nth_repeat_lt by lia. reflexivity.
  - rewrite lagb_at_S, IH by lia. rewrite nth_repeat_lt by lia. unfold lag_ladder.
    cbn [sadd ssub smul sneg s1 ROps]. repeat (f_equal; try ring).
Qed.

Theorem laguerre_dc g c k : cout (@laguerre_core R ROps g) (repeat c (S k)) = Ok (Some c).
Proof.
  rewrite laguerre_closed_form. unfold spec_laguerre. rewrite repeat_length.
  rewrite lagb_at_const by lia. rewrite lagb_out_R. do 2 f_equal. field.
Qed.

(** * SuperSmoother: unit DC gain, a constant is a fixed point of the recursion *)
Theorem ss_dc_gain n : @ssb_c1 R ROps n + @ssb_b1 R ROps n + @ssb_c3 R ROps n = 1.
Proof. unfold ssb_c1. cbn [ssub s1 ROps]. ring. Qed.

Lemma ssb_eq_fixed c1 b1 c3 c : c1 + b1 + c3 = 1 -> ssb_eq c1 b1 c3 c c c c = c.
Proof. intros H. rewrite ssb_eq_R. replace c1 with (1 - b1 - c3) by lra. field. Qed.

(** if filt_{t-1} = filt_{t-2} = c and x_t = x_{t-1} = c then filt_t = c *)
Theorem ss_dc_fixed_point n (h : list R) t c :
  ssb_upto (ssb_c1 n) (ssb_b1 n) (ssb_c3 n) h t = (c, c) -> lagx h t 0 = c -> lagx h t 1 = c ->
  ssb_upto (ssb_c1 n) (ssb_b1 n) (ssb_c3 n) h (S t) = (c, c).
Proof.
  intros Hp H0 H1. rewrite ssb_upto_S, Hp, H0, H1. cbn [fst snd].
  rewrite ssb_eq_fixed by apply ss_dc_gain. reflexivity.
Qed.

(** * high-pass of RoofingFilter: the forcing term vanishes from the third constant sample on *)
Theorem hp_dc_forcing (h : list R) t c :
  (forall j, (j <= 2)%nat -> lagx h t j = c) -> lagx h t 0 - 2 * lagx h t 1 + lagx h t 2 = 0.
Proof. intros H. rewrite !H by lia. ring. Qed.

(** ... so that hp follows the homogeneous recursion *)
Theorem hp_dc_homogeneous al (h : list R) t c :
  (forall j, (j <= 2)%nat -> lagx h t j = c) ->
  fst (hpb_upto al h (S t)) =
  2 * (1 - al) * fst (hpb_upto al h t) - (1 - al) * (1 - al) * snd (hpb_upto al h t).
Proof.
  intros H. rewrite hpb_upto_S. cbn [fst]. rewrite hpb_eq_R.
  pose proof (hp_dc_forcing h t c H) as F.
  replace (lagx h t 0 - 2 * lagx h t 1 + lagx h t 2) with 0 by lra. ring.
Qed.

Corollary hp_dc_repeat al c L t : (2 <= t < L)%nat ->
  fst (hpb_upto al (repeat c L) (S t)) =
  2 * (1 - al) * fst (hpb_upto al (repeat c L) t) - (1 - al) * (1 - al) * snd (hpb_upto al (repeat c L) t).
Proof. intros H. apply hp_dc_homogeneous with (c := c). intros j Hj. apply lagx_repeat; lia. Qed.

(** * CyberCycle *)
Lemma ccb_smooth_const (h : list R) t j c :
  (forall i, (i <= 3)%nat -> lagx h t (j + i) = c) -> ccb_smooth h t j = c.
Proof.
  intros H. rewrite ccb_smooth_R. rewrite <- (Nat.add_0_r j) at 1. rewrite !H by lia. field.
Qed.

(** the forcing term (second difference of smooth) vanishes once the last six inputs are equal *)
Theorem cyber_dc_forcing (h : list R) t c :
  (forall j, (j <= 5)%nat -> lagx h t j = c) ->
  ccb_smooth h t 0 - 2 * ccb_smooth h t 1 + ccb_smooth h t 2 = 0.
Proof.
  intros H. rewrite !(ccb_smooth_const h t _ c); [ring | | |]; intros i Hi; apply H; lia.
Qed.

Theorem cyber_dc_homogeneous n al (h : list R) t c : (n <= S t)%nat ->
  (forall j, (j <= 5)%nat -> lagx h t j = c) ->
  fst (ccb_upto ccb_smooth n al h (S t)) =
  2 * (1 - al) * fst (ccb_upto ccb_smooth n al h t) - (1 - al) * (1 - al) * snd (ccb_upto ccb_smooth n al h t).
Proof.
  intros Hn H. rewrite ccb_upto_S. cbn [fst]. destruct (Nat.ltb_spec (S t) n); [lia|].
  rewrite ccb_eq_R. pose proof (cyber_dc_forcing h t c H) as F.
  replace (ccb_smooth h t 0 - 2 * ccb_smooth h t 1 + ccb_smooth h t 2) with 0 by lra. ring.
Qed.

(** on a stream that is constant from the start, CyberCycle (n >= 6) reports 0 at every step *)
Lemma ccb_upto_const_zero n al c L k : (6 <= n)%nat -> (k <= L)%nat ->
  ccb_upto ccb_smooth n al (repeat c L) k = (0, 0).
Proof.
  intros Hn. induction k as [|t IH]; intros H; [reflexivity|].
  assert (E : ccb_upto ccb_smooth n al (repeat c L) t = (0, 0)) by (apply IH; lia).
  destruct (Nat.ltb_spec (S t) n) as [Hs|Hs].
  - rewrite ccb_upto_S, E. destruct (Nat.ltb_spec (S t) n); [reflexivity | lia].
  - assert (Hh : fst (ccb_upto ccb_smooth n al (repeat c L) (S t)) = 0).
    { rewrite (@cyber_dc_homogeneous n al (repeat c L) t c) by (lia || (intros j Hj; apply lagx_repeat; lia)).
      rewrite E. cbn [fst snd]. ring. }
    rewrite ccb_upto_S in *. cbn [fst] in Hh. rewrite Hh, E. reflexivity.
Qed.

Theorem cyber_dc_zero n c k : (6 <= n)%nat ->
  cout (@cyber_core R ROps n) (repeat c (S k)) = Ok (Some 0).
Proof.
  intros Hn. rewrite cyber_closed_form by exact Hn. unfold spec_cyber, ccb_out.
  rewrite repeat_length. cbn [repeat]. change (c :: repeat c k) with (repeat c (S k)).
  rewrite ccb_upto_const_zero by lia. reflexivity.
Qed.

(** model level: a full window of a constant with zero previous outputs is a fixed state *)
Lemma nth_error_repeat_lt (c : R) L i : (i < L)%nat -> nth_error (repeat c L) i = Some c.
Proof. intros H. rewrite (nth_error_Some_nth _ _ 0) by (rewrite repeat_length; lia). rewrite nth_repeat_lt by lia. reflexivity. Qed.

Lemma tl_repeat (c : R) L : tl (repeat c L) = repeat c (L - 1).
Proof. destruct L; [reflexivity|]. replace (S L - 1)%nat with L by lia. reflexivity. Qed.

Lemma cc_smooth_repeat c n i : (3 <= i < n)%nat -> cc_smooth (repeat c n) i = Ok c.
Proof.
  intros H. unfold cc_smooth. destruct (Nat.ltb_spec i 3); [lia|]. unfold getq.
  rewrite !nth_error_repeat_lt by lia. cbn [bind]. rewrite two_R, six_R, sdiv_six.
  cbn [sadd smul ROps]. f_equal. field.
Qed.

Theorem cyber_dc_fixed_state n al c : (6 <= n)%nat ->
  cc_step n al {| cc_vals := repeat c n; cc_out := repeat 0 n |} c
  = Ok {| cc_vals := repeat c n; cc_out := repeat 0 n |}.
Proof.
  intros Hn. unfold cc_step. cbn [cc_vals cc_out]. rewrite repeat_length, Nat.leb_refl.
  rewrite !tl_repeat. rewrite <- !repeat_snoc. replace (S (n - 1)) with n by lia.
  rewrite repeat_length, Nat.ltb_irrefl. unfold usub.
  destruct (Nat.ltb_spec n 1); [lia|]. cbn [bind].
  destruct (Nat.ltb_spec (n - 1) n); [|lia]. cbn [bind].
  destruct (Nat.ltb_spec (n - 1) 1); [lia|]. destruct (Nat.ltb_spec (n - 1) 2); [lia|].
  rewrite (cc_smooth_repeat c n (n - 1)) by lia. cbn [bind].
  rewrite (cc_smooth_repeat c n (n - 1 - 1)) by lia. cbn [bind].
  rewrite (cc_smooth_repeat c n (n - 1 - 2)) by lia. cbn [bind]. unfold getq.
  rewrite !nth_error_repeat_lt by lia. cbn [bind].
  assert (E0 : repeat 0 n = repeat 0 (n - 1) ++ [0])
    by (rewrite <- repeat_snoc; f_equal; lia).
  do 2 f_equal. rewrite E0. do 2 f_equal.
  unfold ssq. cbn [sadd ssub smul s1 ROps]. rewrite two_R. ring.
Qed.
