(** C09 for EhlersFisherTransform (any moving average): every stored/returned fish value is at most
    ln 199 in absolute value (the smoothed input is clamped to [-0.99, 0.99]), and the recursion
    fish_t = 0.5 ln((1+sm_t)/(1-sm_t)) + 0.5 fish_{t-1} halves the difference of two runs whose clamped
    smoothed inputs agree. *)
From Coq Require Import List Arith Lia ZArith Reals Lra.
From SF Require Import Res Scalar View Models Spec Core.
From SF.Proofs Require Import Window RBase LinBase SafeE StabBase StabFlex.
Import ListNotations.
Open Scope R_scope.
Local Existing Instance ROps.

(** the Fisher term of a clamped value *)
Definition fisher (sm : R) : R := ln ((1 + sm) / (1 - sm)).
Definition fish_rec (prev sm : R) : R := / 2 * fisher sm + / 2 * prev.

Lemma ln199_pos : 0 < ln 199.
Proof. rewrite <- ln_1. apply ln_increasing; lra. Qed.

Lemma ln_le' x y : 0 < x -> x <= y -> ln x <= ln y.
Proof. intros Hx [H|H]; [left; apply ln_increasing; assumption | subst; right; reflexivity]. Qed.

Lemma fisher_bound sm : -99 / 100 <= sm <= 99 / 100 -> Rabs (fisher sm) <= ln 199.
Proof.
  intros [H1 H2]. unfold fisher.
  assert (Hd : 0 < 1 - sm) by lra.
  assert (Hlo : / 199 <= (1 + sm) / (1 - sm)).
  { apply (Rmult_le_reg_r (1 - sm)); [exact Hd|].
    replace ((1 + sm) / (1 - sm) * (1 - sm)) with (1 + sm) by (field; lra). lra. }
  assert (Hhi : (1 + sm) / (1 - sm) <= 199).
  { apply (Rmult_le_reg_r (1 - sm)); [exact Hd|].
    replace ((1 + sm) / (1 - sm) * (1 - sm)) with (1 + sm) by (field; lra). lra. }
  assert (Hp : 0 < (1 + sm) / (1 - sm)) by lra.
  apply Rabs_le. split.
  - rewrite <- ln_Rinv by lra. apply ln_le'; lra.
  - apply ln_le'; lra.
Qed.

Lemma fish_rec_bound prev sm : -99 / 100 <= sm <= 99 / 100 -> Rabs prev <= ln 199 ->
  Rabs (fish_rec prev sm) <= ln 199.
Proof.
  intros Hs Hp. pose proof (fisher_bound sm Hs) as Hf. unfold fish_rec.
  apply Rabs_le_between in Hf. apply Rabs_le_between in Hp. apply Rabs_le. lra.
Qed.

(** exact halving *)
Theorem fish_rec_halving p p' sm : fish_rec p sm - fish_rec p' sm = (p - p') / 2.
Proof. unfold fish_rec. field. Qed.

(** ... iterated over a common sequence of clamped smoothed inputs *)
Theorem fish_fold_halving sms : forall p p',
  fold_left fish_rec sms p - fold_left fish_rec sms p' = (/ 2) ^ length sms * (p - p').
Proof.
  induction sms as [|sm sms IH]; intros p p'; [cbn; ring|].
  cbn [fold_left length pow]. rewrite IH, fish_rec_halving. field.
Qed.

(** * the model: what one step does to the queue of fish values *)
Ltac eft_crunch H :=
  repeat first
  [ progress cbv beta iota zeta in H
  | match type of H with
    | bind ?m _ = Ok _ => let E := fresh "E" in destruct m eqn:E; cbn [bind] in H; [|discriminate]
    end
  | match type of H with
    | (match ?e with _ => _ end) = Ok _ => let E := fresh "E" in destruct e eqn:E
    end ].

Lemma eft_step_qout n (ma : view R) (s s' : eft_st (vst ma)) v :
  @eft_step R ROps n ma s v = Ok s' ->
  ef_qout s' = evict n (ef_qout s) \/ ef_qout s' = evict n (ef_qout s) ++ [0] \/
  exists sm prev, -99 / 100 <= sm <= 99 / 100 /\ last_opt (evict n (ef_qout s)) = Some prev /\
                  ef_qout s' = evict n (ef_qout s) ++ [fish_rec prev sm].
Proof.
  intros H. unfold eft_step in H. eft_crunch H; injection H as H; subst s'; cbn [ef_qout]; auto.
  right. right.
  match goal with E : @sdiv R ROps (sadd _ ?x) _ = Ok _ |- _ => set (sm := x) in * end.
  pose proof (sclamp_R_bounds ltac:(match goal with sm := @sclamp _ _ ?y _ _ |- _ => exact y end)) as Hb.
  fold sm in Hb.
  match goal with E : @sdiv R ROps _ _ = Ok ?a, E' : @sln R ROps ?a = Ok ?l |- _ =>
    cbn [sdiv sadd ssub s1 ROps] in E; rewrite Rdiv_res_ok in E by lra; injection E as E; subst a;
    cbn [sln ROps] in E'; destruct (Rle_dec ((1 + sm) / (1 - sm)) 0) as [Hn|Hn]; [discriminate|];
    injection E' as E'; subst l end.
  exists sm. eexists. split; [exact Hb|]. split; [reflexivity|].
  do 2 f_equal. unfold fish_rec, fisher. set (X := ln _). clearbody X. lra.
Qed.

Definition eft_ok (ma : view R) (s : eft_st (vst ma)) : Prop :=
  Forall (fun x => Rabs x <= ln 199) (ef_qout s).

Lemma Forall_evict {A} (P : A -> Prop) n (q : list A) : Forall P q -> Forall P (evict n q).
Proof.
  intros H. unfold evict. destruct (Nat.leb n (length q)); [|exact H].
  destruct q; [exact H|]. inversion H; assumption.
Qed.

Lemma last_opt_in (q : list R) x : last_opt q = Some x -> In x q.
Proof.
  unfold last_opt. intros H. destruct (rev q) as [|y r] eqn:E; [discriminate|]. injection H as H. subst y.
  apply in_rev. rewrite E. left. reflexivity.
Qed.

Lemma eft_step_pres n (ma : view R) (s s' : eft_st (vst ma)) v :
  @eft_step R ROps n ma s v = Ok s' -> eft_ok ma s -> eft_ok ma s'.
Proof.
  intros H Hi. unfold eft_ok in *. pose proof (Forall_evict _ n _ Hi) as He.
  destruct (eft_step_qout n ma s s' v H) as [E|[E|(sm & prev & Hs & Hl & E)]]; rewrite E.
  - exact He.
  - apply Forall_app. split; [exact He|]. constructor; [|constructor]. rewrite Rabs_R0. pose proof ln199_pos. lra.
  - apply Forall_app. split; [exact He|]. constructor; [|constructor]. apply fish_rec_bound; [exact Hs|].
    rewrite Forall_forall in He. apply He. apply last_opt_in. exact Hl.
Qed.

(** C09 (EhlersFisherTransform): every output is at most ln 199 in absolute value, for every window
    length, every moving average and every input stream *)
Theorem eft_bounded n (ma : view R) vs o :
  cout (@eft_core R ROps n ma) vs = Ok (Some o) -> Rabs o <= ln 199.
Proof.
  unfold cout. intros H. apply bind_ok in H. destruct H as [s [Hr Hl]].
  cbn [clast eft_core] in Hl. injection Hl as Hl.
  unfold crun in Hr. apply bind_ok in Hr. destruct Hr as [s0 [Hn Hf]].
  assert (H0 : eft_ok ma s0).
  { cbn [cnew eft_core] in Hn. apply bind_ok in Hn. destruct Hn as [u [_ Hn]].
    apply bind_ok in Hn. destruct Hn as [m0 [_ Hn]]. injection Hn as Hn. subst s0. constructor. }
  pose proof (@cfold_pres (@eft_core R ROps n ma) (eft_ok ma)
                (fun s v s' => eft_step_pres n ma s s' v) vs s0 s Hf H0) as Hs.
  unfold eft_ok in Hs. rewrite Forall_forall in Hs. apply Hs. apply last_opt_in. exact Hl.
Qed.

(** C09 (EhlersFisherTransform), fading of the recursive part: two states that take the Fisher branch
    with the same clamped smoothed input end with fish values whose difference is half the previous one *)
Theorem eft_step_halving n (q1 q2 : list R) prev1 prev2 sm :
  last_opt (evict n q1) = Some prev1 -> last_opt (evict n q2) = Some prev2 ->
  forall x1 x2, last_opt (evict n q1 ++ [fish_rec prev1 sm]) = Some x1 ->
                last_opt (evict n q2 ++ [fish_rec prev2 sm]) = Some x2 ->
  x1 - x2 = (prev1 - prev2) / 2.
Proof.
  intros _ _ x1 x2 H1 H2. rewrite last_opt_snoc in H1, H2. injection H1 as H1. injection H2 as H2.
  subst. apply fish_rec_halving.
Qed.
