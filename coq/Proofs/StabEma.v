(** C09 for Ema (default alpha = 2, n >= 1): w = 2/(n+1) in (0,1]; BIBO with gain 1 (convex combination);
    exact fading: the difference of two runs contracts by (1-w) at every common step. *)
From Coq Require Import List Arith Lia Reals Lra.
From SF Require Import Res Scalar View Models Spec Core SpecAvg SpecStab.
From SF.Proofs Require Import Window RBase SmaP AvgP StabBase.
Import ListNotations.
Open Scope R_scope.

(** the weight and the contraction factor *)
Definition ema_w (n : nat) : R := 2 / (1 + INR n).
Definition ema_rho (n : nat) : R := 1 - ema_w n.

Lemma ema_w_eq n : Rema_w n 2 = ema_w n.
Proof. apply ema_weight_R. Qed.

Lemma stab_ema_rho_R n : @stab_ema_rho R ROps n = ema_rho n.
Proof.
  unfold stab_ema_rho, ema_rho, ema_w. rewrite AvgP.two_R. cbn [ssub sadd s1 sofnat ROps].
  rewrite sdivd_R by apply one_plus_INR_neq. reflexivity.
Qed.

(** 0 < w <= 1, i.e. 0 <= rho < 1 *)
Lemma ema_w_range1 n : (1 <= n)%nat -> 0 < ema_w n <= 1.
Proof.
  intros Hn. unfold ema_w. apply le_INR in Hn. cbn in Hn.
  set (x := INR n) in *. clearbody x. split.
  - apply Rdiv_lt_0_compat; lra.
  - apply (Rmult_le_reg_r (1 + x)); [lra|]. replace (2 / (1 + x) * (1 + x)) with 2 by (field; lra). lra.
Qed.

Lemma ema_rho_range n : (1 <= n)%nat -> 0 <= ema_rho n < 1.
Proof. intros Hn. pose proof (ema_w_range1 n Hn). unfold ema_rho. lra. Qed.

(** the default core answers the recursion's value from the n-th value on *)
Lemma ema_cout_val n h o : (1 <= n)%nat -> cout (@ema_core R ROps n) h = Ok (Some o) ->
  (n <= length h)%nat /\ o = ema_valT (ema_w n) h.
Proof.
  intros Hn H. rewrite ema_default_closed_form in H by (left; exact Hn).
  unfold spec_ema in H. destruct (Nat.ltb_spec (length h) n) as [Hl|Hl]; [discriminate|].
  split; [exact Hl|]. rewrite ema_w_eq in H. unfold ema_valT.
  injection H as H. rewrite H. reflexivity.
Qed.

(** * BIBO, gain 1 *)
Lemma bounded_between U l : bounded U l -> Forall (between (- U) U) l.
Proof. apply Forall_impl. intros x Hx. unfold between. apply Rabs_le_between in Hx. lra. Qed.

(** C09 (Ema): |x_i| <= U for all i  implies  |out| <= U, whatever the stream length *)
Theorem ema_bibo n : (1 <= n)%nat -> bibo (@ema_core R ROps n) 1.
Proof.
  intros Hn U vs Hb o Ho.
  pose proof (@ema_default_hull n (- U) U vs o Hn (bounded_between U vs Hb) Ho) as [H1 H2].
  rewrite Rmult_1_l. apply Rabs_le. lra.
Qed.

(** * exact fading *)
Lemma ema_fold_diff w s : forall e e', Rfold w s e - Rfold w s e' = (1 - w) ^ length s * (e - e').
Proof.
  induction s as [|x s IH]; intros e e'; [cbn; ring|].
  cbn [fold_left length pow]. rewrite IH, !ema_rec_R. ring.
Qed.

Lemma ema_valT_app w x0 r s : ema_valT w ((x0 :: r) ++ s) = Rfold w s (ema_valT w (x0 :: r)).
Proof. unfold ema_valT, ema_val. cbn [app]. rewrite fold_left_app. reflexivity. Qed.

(** the recursion's values e_t, e'_t of two streams with a common tail [s] after non-empty prefixes:
    e_t - e'_t = (1-w)^|s| (e_0 - e'_0), for every weight *)
Theorem ema_contraction w p p' s : p <> [] -> p' <> [] ->
  ema_valT w (p ++ s) - ema_valT w (p' ++ s) = (1 - w) ^ length s * (ema_valT w p - ema_valT w p').
Proof.
  intros Hp Hp'. destruct p as [|x0 r]; [congruence|]. destruct p' as [|y0 r']; [congruence|].
  rewrite !ema_valT_app. apply ema_fold_diff.
Qed.

(** C09 (Ema), exact: the outputs of two streams that agree from some point on differ by exactly
    rho^k times the difference at that point, rho = 1 - 2/(n+1), k the number of common steps *)
Theorem ema_fading_exact n p p' s o o' : (1 <= n)%nat -> p <> [] -> length p = length p' ->
  cout (@ema_core R ROps n) (p ++ s) = Ok (Some o) -> cout (@ema_core R ROps n) (p' ++ s) = Ok (Some o') ->
  o - o' = ema_rho n ^ length s * (ema_valT (ema_w n) p - ema_valT (ema_w n) p') /\
  Rabs (o - o') = ema_rho n ^ length s * Rabs (ema_valT (ema_w n) p - ema_valT (ema_w n) p').
Proof.
  intros Hn Hp Hl Ho Ho'.
  destruct (ema_cout_val n _ o Hn Ho) as [_ E]. destruct (ema_cout_val n _ o' Hn Ho') as [_ E'].
  assert (Hp' : p' <> []) by (destruct p, p'; try discriminate; congruence).
  assert (Hd : o - o' = ema_rho n ^ length s * (ema_valT (ema_w n) p - ema_valT (ema_w n) p')).
  { subst o o'. apply ema_contraction; assumption. }
  split; [exact Hd|]. rewrite Hd, Rabs_mult. f_equal. apply Rabs_pos_eq. apply pow_le.
  apply ema_rho_range. exact Hn.
Qed.

Lemma ema_valT_hull w lo hi h : 0 <= w <= 1 -> h <> [] -> Forall (between lo hi) h -> between lo hi (ema_valT w h).
Proof.
  intros Hw Hh Hb. destruct h as [|x0 r]; [congruence|]. unfold ema_valT, ema_val.
  inversion Hb; subst. apply ema_fold_hull; assumption.
Qed.

(** C09 (Ema), fading memory with explicit constants: |out - out'| <= 2U rho^k *)
Theorem ema_fading n : (1 <= n)%nat -> fading_bound (@ema_core R ROps n) (fun V k => V * ema_rho n ^ k).
Proof.
  intros Hn U p p' s o o' HU Hl Hp Hp' Ho Ho'.
  pose proof (ema_rho_range n Hn) as Hr. pose proof (ema_w_range1 n Hn) as Hw.
  destruct p as [|x0 r].
  - destruct p'; [|discriminate]. rewrite Ho in Ho'. injection Ho' as E. subst o'.
    replace (o - o) with 0 by ring. rewrite Rabs_R0.
    apply Rmult_le_pos; [lra | apply pow_le; lra].
  - destruct (@ema_fading_exact n (x0 :: r) p' s o o' Hn ltac:(discriminate) Hl Ho Ho') as [_ E].
    rewrite E. rewrite (Rmult_comm (2 * U)). apply Rmult_le_compat_l; [apply pow_le; lra|].
    assert (Hp0 : p' <> []) by (destruct p'; discriminate).
    destruct (ema_valT_hull (ema_w n) (- U) U (x0 :: r)) as [A1 A2];
      [lra | discriminate | apply bounded_between; exact Hp |].
    destruct (ema_valT_hull (ema_w n) (- U) U p') as [B1 B2];
      [lra | exact Hp0 | apply bounded_between; exact Hp' |].
    apply Rabs_le. lra.
Qed.

(** epsilon form *)
Corollary ema_fading_eps n : (1 <= n)%nat -> fading_eps (@ema_core R ROps n).
Proof.
  intros Hn p p' Hl eps He.
  destruct (bounded_exists p) as [V1 [HV1 Hb1]]. destruct (bounded_exists p') as [V2 [HV2 Hb2]].
  set (U := V1 + V2).
  destruct (@geo_zero_shift (ema_rho n) (2 * U) 0 (ema_rho_range n Hn) eps He) as [M HM].
  exists M. intros s Hs o o' Ho Ho'.
  eapply Rle_lt_trans.
  - apply (@ema_fading n Hn U p p' s o o'); try assumption; unfold U; try lra.
    + eapply bounded_mono; [|exact Hb1]. lra.
    + eapply bounded_mono; [|exact Hb2]. lra.
  - cbv beta. pose proof (HM (length s) Hs) as H. rewrite Nat.sub_0_r in H. exact H.
Qed.
