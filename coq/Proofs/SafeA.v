(** C15/C08 for sma, cumulative, min, max, roc. *)
From Coq Require Import List Arith Lia Reals Lra ZArith.
From SF Require Import Res Scalar View Models Spec Core.
From SF.Proofs Require Import Window RBase SafeBase SafeTac.
Import ListNotations.
Open Scope R_scope.

(* ---------------------------------------------------------------- sma *)
Definition sma_I (n k : nat) (s : @sma_st R) : Prop := length (sma_q s) = Nat.min n k.

Lemma sma_safe n : (1 <= n)%nat -> Safe (@sma_core R ROps n) (fun _ => True) (sma_I n).
Proof.
  intros Hn. constructor.
  - eexists. split; [reflexivity|]. unfold sma_I. cbn. lia.
  - intros k s v Hi _. unfold sma_I in *. cbn [cstep sma_core]. unfold sma_step.
    destruct (Nat.leb_spec n (length (sma_q s))) as [Hf|Hf].
    + destruct (full_nonempty n (sma_q s) Hn Hf) as [x [r Hq]]. rewrite Hq. cbn [pop_front bind].
      eexists. split; [reflexivity|]. cbn [sma_q]. rewrite Hq in Hi, Hf. rewrite app_length. cbn in *. lia.
    + cbn [bind]. eexists. split; [reflexivity|]. cbn [sma_q]. apply len_push_notfull; assumption.
  - intros k s Hi. unfold sma_I in Hi. cbn [clast sma_core]. unfold sma_last.
    destruct (Nat.ltb_spec (length (sma_q s)) n) as [H|H]; [eauto|].
    rewrite sdiv_R_ok by (apply INR_pos_neq; lia). cbn [bind]. eauto.
Qed.

Lemma sma_ready n : (1 <= n)%nat -> ReadyAt (@sma_core R ROps n) (sma_I n) n.
Proof.
  intros Hn k s Hi. unfold sma_I in Hi. cbn [clast sma_core]. unfold sma_last. split; intros Hk.
  - destruct (Nat.ltb_spec (length (sma_q s)) n) as [H|H]; [reflexivity|lia].
  - destruct (Nat.ltb_spec (length (sma_q s)) n) as [H|H]; [lia|].
    rewrite sdiv_R_ok by (apply INR_pos_neq; lia). cbn [bind]. eauto.
Qed.

(** C15 Sma *)
Theorem safe_sma n vs : (1 <= n)%nat ->
  exists s o, crun (@sma_core R ROps n) vs = Ok s /\ clast (@sma_core R ROps n) s = Ok o.
Proof. intros Hn. apply (safe_run (sma_safe n Hn)). apply trueD. Qed.
(** C08 Sma *)
Theorem ready_mono_sma n : (1 <= n)%nat ->
  CReadyMono (@sma_core R ROps n) (fun _ => True) (InvOf (@sma_core R ROps n) (sma_I n)).
Proof. intros Hn. exact (ready_at_mono (sma_safe n Hn) (sma_ready n Hn)). Qed.
Theorem warmup_sma n vs : (1 <= n)%nat ->
  (cout (@sma_core R ROps n) vs = Ok None <-> (length vs < n)%nat).
Proof. intros Hn. apply (warmup_none (sma_safe n Hn) (sma_ready n Hn)). apply trueD. Qed.
