(** Chaining (C01): a wrapper sees exactly its inner view's outputs.  Generic in the scalar type and
    in the inner view (an arbitrary [view T], not only catalogue members); axiom-free. *)
From Coq Require Import List Arith Lia.
From SF Require Import Res Scalar View.
Import ListNotations.
Set Implicit Arguments.

Section Chain.
Variable T : Type.

(** the chain [W(A)] equals: run [A]; replay [W]'s core on [A]'s outputs (only where [A] has one) *)
Lemma mrun_from_wrap (c : core T) (a : view T) sa sc xs la :
  mrun_from a sa xs = Ok la ->
  mrun_from (wrap c a) (sa, sc) xs = replay_from c sc la.
Proof.
  revert sa sc la. induction xs as [|x xs IH]; intros sa sc la H; cbn in *.
  - inversion H; subst. reflexivity.
  - destruct (vupd a sa x) as [sa'|e] eqn:Eu; cbn in *; [|discriminate].
    destruct (vlast a sa') as [o|e] eqn:El; cbn in *; [|discriminate].
    destruct (mrun_from a sa' xs) as [r|e] eqn:Er; cbn in *; [|discriminate].
    inversion H; subst. destruct o as [v|]; cbn.
    + destruct (cstep c sc v) as [sc'|e]; cbn; [|reflexivity].
      rewrite (IH _ sc' _ Er). reflexivity.
    + rewrite (IH _ sc _ Er). reflexivity.
Qed.

Theorem mrun_wrap (c : core T) (a : view T) xs la sc :
  mrun a xs = Ok la -> cnew c = Ok sc ->
  mrun (wrap c a) xs = replay_from c sc la.
Proof.
  unfold mrun. intros H Hc. cbn. destruct (vnew a) as [sa|e]; cbn in *; [|discriminate].
  rewrite Hc; cbn. apply mrun_from_wrap; assumption.
Qed.

(** stand-alone [W] over [Echo] fed a stream of values is the replay on [Some] of each value *)
Lemma mrun_from_standalone (c : core T) sc o xs :
  mrun_from (standalone c) (o, sc) xs = replay_from c sc (map Some xs).
Proof.
  apply mrun_from_wrap. clear. revert o. induction xs as [|x xs IH]; intros o; cbn; [reflexivity|].
  rewrite (IH (Some x)). reflexivity.
Qed.

(** if the inner view fails, so does the chain (the same error) *)
Lemma mrun_from_wrap_err (c : core T) (a : view T) sa sc xs e :
  mrun_from a sa xs = Err e -> exists e', mrun_from (wrap c a) (sa, sc) xs = Err e'.
Proof.
  revert sa sc e. induction xs as [|x xs IH]; intros sa sc e H; cbn in *; [discriminate|].
  destruct (vupd a sa x) as [sa'|e1] eqn:Eu; cbn in *; [|eauto].
  destruct (vlast a sa') as [o|e1] eqn:El; cbn in *; [|eauto].
  destruct (mrun_from a sa' xs) as [r|e1] eqn:Er; cbn in *; [discriminate|].
  destruct o as [v|]; cbn.
  - destruct (cstep c sc v) as [sc'|e2]; cbn; [|eauto].
    destruct (clast c sc') as [o'|e3]; cbn; [|eauto].
    destruct (IH sa' sc' _ Er) as [e' He']. rewrite He'. cbn. eauto.
  - destruct (clast c sc) as [o'|e3]; cbn; [|eauto].
    destruct (IH sa' sc _ Er) as [e' He']. rewrite He'. cbn. eauto.
Qed.

(** binary combinators: both children receive the raw input; a value only when both have one *)
Fixpoint zipf (f : T -> T -> res T) (la lb : list (option T)) : res (list (option T)) :=
  match la, lb with
  | oa :: la', ob :: lb' =>
      do o <- match oa, ob with Some x, Some y => do r <- f x y; Ok (Some r) | _, _ => Ok None end;
      do r <- zipf f la' lb'; Ok (o :: r)
  | _, _ => Ok []
  end.

Lemma mrun_from_binop f (a b : view T) sa sb xs la lb :
  mrun_from a sa xs = Ok la -> mrun_from b sb xs = Ok lb ->
  mrun_from (binop f a b) (sa, sb) xs = zipf f la lb.
Proof.
  revert sa sb la lb. induction xs as [|x xs IH]; intros sa sb la lb Ha Hb; cbn in *.
  - inversion Ha; inversion Hb; subst. reflexivity.
  - destruct (vupd a sa x) as [sa'|e] eqn:Eua; cbn in *; [|discriminate].
    destruct (vlast a sa') as [oa|e] eqn:Ela; cbn in *; [|discriminate].
    destruct (mrun_from a sa' xs) as [ra|e] eqn:Era; cbn in *; [|discriminate].
    destruct (vupd b sb x) as [sb'|e] eqn:Eub; cbn in *; [|discriminate].
    destruct (vlast b sb') as [ob|e] eqn:Elb; cbn in *; [|discriminate].
    destruct (mrun_from b sb' xs) as [rb|e] eqn:Erb; cbn in *; [|discriminate].
    inversion Ha; inversion Hb; subst. cbn. rewrite ?Ela, ?Elb. cbn.
    rewrite (IH _ _ _ _ Era Erb). reflexivity.
Qed.

Theorem mrun_binop f (a b : view T) xs la lb :
  mrun a xs = Ok la -> mrun b xs = Ok lb -> mrun (binop f a b) xs = zipf f la lb.
Proof.
  unfold mrun; cbn. destruct (vnew a) as [sa|e]; cbn; [|discriminate].
  destruct (vnew b) as [sb|e]; cbn; [|discriminate]. apply mrun_from_binop.
Qed.

(** [zipf] reports a value exactly where both children do *)
Lemma zipf_some f la lb r : zipf f la lb = Ok r -> length la = length lb ->
  forall i, (exists v, nth_error r i = Some (Some v)) <->
            (exists x y, nth_error la i = Some (Some x) /\ nth_error lb i = Some (Some y)).
Proof.
  revert lb r. induction la as [|oa la IH]; intros lb r H Hl i; destruct lb as [|ob lb]; cbn in *; try discriminate.
  - inversion H; subst. split; [intros [v Hv] | intros [x [y [Hx _]]]]; destruct i; discriminate.
  - destruct (match oa with Some x => match ob with Some y => do r0 <- f x y; Ok (Some r0) | None => Ok None end | None => Ok None end) as [o|e] eqn:Eo; cbn in *; [|discriminate].
    destruct (zipf f la lb) as [r'|e] eqn:Er; cbn in *; [|discriminate].
    inversion H; subst. destruct i; cbn.
    + destruct oa as [x|], ob as [y|]; cbn in *.
      * destruct (f x y); cbn in *; [|discriminate]. inversion Eo; subst. split; intros _; eauto.
      * inversion Eo; subst. split; [intros [v Hv]; discriminate | intros [x' [y' [_ Hy]]]; discriminate].
      * inversion Eo; subst. split; [intros [v Hv]; discriminate | intros [x' [y' [Hx _]]]; discriminate].
      * inversion Eo; subst. split; [intros [v Hv]; discriminate | intros [x' [y' [Hx _]]]; discriminate].
    + apply (IH _ _ Er). lia.
Qed.

(** [mapview]: computed in [last] from the child's current output *)
Fixpoint mapf (f : T -> res T) (la : list (option T)) : res (list (option T)) :=
  match la with
  | [] => Ok []
  | o :: la' => do o' <- match o with None => Ok None | Some v => do r <- f v; Ok (Some r) end;
                do r <- mapf f la'; Ok (o' :: r)
  end.

Lemma mrun_from_mapview f (a : view T) sa xs la :
  mrun_from a sa xs = Ok la -> mrun_from (mapview f a) sa xs = mapf f la.
Proof.
  revert sa la. induction xs as [|x xs IH]; intros sa la H; cbn in *.
  - inversion H; reflexivity.
  - destruct (vupd a sa x) as [sa'|e]; cbn in *; [|discriminate].
    destruct (vlast a sa') as [o|e]; cbn in *; [|discriminate].
    destruct (mrun_from a sa' xs) as [r|e] eqn:Er; cbn in *; [|discriminate].
    inversion H; subst; cbn. rewrite (IH _ _ Er). reflexivity.
Qed.

Theorem mrun_mapview f (a : view T) xs la :
  mrun a xs = Ok la -> mrun (mapview f a) xs = mapf f la.
Proof. unfold mrun; cbn. destruct (vnew a); cbn; [apply mrun_from_mapview | discriminate]. Qed.

(** the state of a combinator is exactly the tuple of its children's states *)
Lemma steps_binop f (a b : view T) sa sb xs sa' sb' :
  steps a sa xs = Ok sa' -> steps b sb xs = Ok sb' -> steps (binop f a b) (sa, sb) xs = Ok (sa', sb').
Proof.
  revert sa sb. induction xs as [|x xs IH]; intros sa sb Ha Hb; cbn in *.
  - inversion Ha; inversion Hb; reflexivity.
  - destruct (vupd a sa x) as [sa1|e]; cbn in *; [|discriminate].
    destruct (vupd b sb x) as [sb1|e]; cbn in *; [|discriminate]. apply IH; assumption.
Qed.

(** echo and constant *)
Lemma mrun_from_echo o xs : mrun_from (@echo T) o xs = Ok (map Some xs).
Proof. revert o; induction xs as [|x xs IH]; intros o; cbn; [reflexivity|]. rewrite IH. reflexivity. Qed.

End Chain.
