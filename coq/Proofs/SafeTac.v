(** Small helpers shared by the Safe*.v files (R instance). *)
From Coq Require Import List Arith Lia Reals Lra ZArith.
From SF Require Import Res Scalar View Models Spec Core.
From SF.Proofs Require Import Window RBase SafeBase.
Import ListNotations.
Open Scope R_scope.

Lemma sofdec_2_0 : @sofdec R ROps 2 0 = 2.
Proof. cbn. lra. Qed.
Lemma sofdec_6_0 : @sofdec R ROps 6 0 = 6.
Proof. cbn. lra. Qed.
Lemma sofdec_100_0 : @sofdec R ROps 100 0 = 100.
Proof. cbn. lra. Qed.
Lemma sofdec_5_1 : @sofdec R ROps 5 1 = 5 / 10.
Proof. cbn. reflexivity. Qed.
Lemma s2_neq0 : @sofdec R ROps 2 0 <> 0.
Proof. rewrite sofdec_2_0. lra. Qed.
Lemma s6_neq0 : @sofdec R ROps 6 0 <> 0.
Proof. rewrite sofdec_6_0. lra. Qed.

Lemma INR_S_neq0 n : INR (S n) <> 0.
Proof. apply not_0_INR. lia. Qed.
Lemma INR_ge1 n : (1 <= n)%nat -> 1 <= INR n.
Proof. intros H. change 1 with (INR 1). apply le_INR. exact H. Qed.
Lemma INR_pos' n : (1 <= n)%nat -> 0 < INR n.
Proof. intros H. pose proof (INR_ge1 n H). lra. Qed.
Lemma one_plus_INR_neq0 n : 1 + INR n <> 0.
Proof. pose proof (pos_INR n). lra. Qed.
Lemma INR_plus1_neq0 n : INR n + 1 <> 0.
Proof. pose proof (pos_INR n). lra. Qed.

Lemma trueD (vs : list R) : Forall (fun _ : R => True) vs.
Proof. apply Forall_forall. trivial. Qed.

(** queue bookkeeping common to every windowed core: evict-when-full then push keeps [len = min n k] *)
Lemma len_push_full {A} n k (q : list A) (x : A) : (1 <= n)%nat ->
  length q = Nat.min n k -> (n <= length q)%nat -> length (tl q ++ [x]) = Nat.min n (S k).
Proof. intros Hn Hl Hf. rewrite app_length. destruct q; cbn in *; lia. Qed.
Lemma len_push_notfull {A} n k (q : list A) (x : A) :
  length q = Nat.min n k -> (length q < n)%nat -> length (q ++ [x]) = Nat.min n (S k).
Proof. intros Hl Hf. rewrite app_length. cbn. lia. Qed.
Lemma full_nonempty {A} n (q : list A) : (1 <= n)%nat -> (n <= length q)%nat -> exists x r, q = x :: r.
Proof. intros Hn Hf. destruct q as [|x r]; cbn in *; [lia|eauto]. Qed.

Lemma evict_len {T} n k (q : list T) (x : T) : (1 <= n)%nat ->
  length q = Nat.min n k -> length (evict n q ++ [x]) = Nat.min n (S k).
Proof.
  intros Hn Hl. unfold evict. destruct (Nat.leb_spec n (length q)).
  - apply len_push_full; assumption.
  - apply len_push_notfull; assumption.
Qed.

Lemma last_opt_snoc {T} (q : list T) x : last_opt (q ++ [x]) = Some x.
Proof. unfold last_opt. rewrite rev_app_distr. reflexivity. Qed.
Lemma last_opt_nil {T} : @last_opt T [] = None.
Proof. reflexivity. Qed.
Lemma last_opt_nonempty {T} (q : list T) : q <> [] -> exists y, last_opt q = Some y.
Proof.
  intros H. destruct (exists_last H) as [l [x Hx]]. subst. exists x. apply last_opt_snoc.
Qed.
