(** C07 at f64 for HLNormalizer: on finite inputs every FINITE value it reports at binary64 lies in [-1, 1]
    EXACTLY.  (A non-finite answer is possible only through overflow of [max - min] or of [(last - min) * 2]:
    see [hln_inf_ex].)  The extremes are kept by comparisons only, so [min <= last <= max] holds exactly;
    rounding is monotone, doubling is exact, and -1, 1, 2 are binary64 numbers. *)
From Coq Require Import List Arith Lia Reals Lra ZArith Floats Bool.
From SF Require Import Res Scalar View Models Core Spec FloatOps SpecFRange.
From SF.Proofs Require Import FltErr FltBridge Flt2P Flt2B64 Flt2Prim BridgeOps FRangeBase FRangeMy.
From Flocq Require Import Core BinarySingleNaN.
Import ListNotations.
Open Scope R_scope.

Local Notation F := PrimFloat.float.
Local Notation pinf := PrimFloat.infinity.
Local Notation ninf := PrimFloat.neg_infinity.
Local Notation fzero := PrimFloat.zero.
Local Notation fone := PrimFloat.one.
Local Notation fin := (fun x : F => ffinite x = true).

(** the extremes of a queue of finite values are finite (they are elements of it) *)
Lemma extent_fold_fin q : forall mm : F * F, Forall fin q -> ffinite (fst mm) = true -> ffinite (snd mm) = true ->
  let r := fold_left (fun (mm : F * F) v =>
                   let mx := if @sgtb F FOps v (snd mm) then v else snd mm in
                   let mn := if @sltb F FOps v (fst mm) then v else fst mm in (mn, mx)) q mm in
  ffinite (fst r) = true /\ ffinite (snd r) = true.
Proof.
  induction q as [|v q IH]; intros mm Hq H1 H2; [split; assumption|].
  inversion Hq as [|? ? Fv Hq']; subst. cbn [fold_left]. apply IH; [exact Hq' | |]; cbn [fst snd].
  - destruct (sltb v (fst mm)); assumption.
  - destruct (sgtb v (snd mm)); assumption.
Qed.
Lemma extent_queue_fin q a b : Forall fin q -> @extent_queue F FOps q = Ok (a, b) -> ffinite a = true /\ ffinite b = true.
Proof.
  intros Hq. unfold extent_queue. destruct q as [|f r]; [discriminate|]. cbn [front bind]. intros H.
  inversion Hq as [|? ? Ff _]; subst.
  pose proof (extent_fold_fin (f :: r) (f, f) Hq Ff Ff) as HH. cbv zeta in HH.
  remember (fold_left _ (f :: r) (f, f)) as R eqn:ER in H. injection H as ->. rewrite <- ER in HH. exact HH.
Qed.

(** * The invariant: everything stored is finite and [min <= last <= max] (as real values, i.e. as floats) *)
Definition hln_rinv (s : @hln_st F) : Prop :=
  Forall fin (hln_q s) /\ ffinite (hln_min s) = true /\ ffinite (hln_max s) = true /\ ffinite (hln_last s) = true /\
  f2r (hln_min s) <= f2r (hln_last s) <= f2r (hln_max s).

Lemma hln_rstep n s v s' : ffinite v = true -> hln_rinv s -> @hln_step F FOps n s v = Ok s' -> hln_rinv s'.
Proof.
  intros Fv (Hq & Fmn & Fmx & _ & _). unfold hln_step.
  assert (H0 : exists mn mx, (if hln_init s then (v, v) else (hln_min s, hln_max s)) = (mn, mx)
                              /\ ffinite mn = true /\ ffinite mx = true).
  { destruct (hln_init s); eexists _, _; (split; [reflexivity|]); auto. }
  destruct H0 as (mn & mx & -> & Fn & Fx).
  assert (Hv1 : Forall fin [v]) by (constructor; [exact Fv | constructor]).
  set (X := (if Nat.leb n (length (hln_q s)) then _ else _)).
  assert (HX : (exists q a b, X = Ok (q, a, b) /\ Forall fin q /\ ffinite a = true /\ ffinite b = true) \/ exists e, X = Err e).
  { unfold X. destruct (Nat.leb n (length (hln_q s))).
    - destruct (hln_q s) as [|old r] eqn:Eq; cbn [front bind tl].
      + right. eexists; reflexivity.
      + inversion Hq as [|? ? Fo Hr]; subst.
        assert (Hq' : Forall fin (r ++ [v])) by (apply Forall_app; split; assumption).
        destruct (sleb old mn || sgeb old mx).
        * destruct (extent_queue (r ++ [v])) as [[a b]|e] eqn:Ee; cbn [bind].
          -- destruct (extent_queue_fin _ a b Hq' Ee) as [Fa Fb]. left. exists (r ++ [v]), a, b. auto.
          -- right. eexists; reflexivity.
        * left. exists (r ++ [v]), mn, mx. auto.
    - left. exists (hln_q s ++ [v]), mn, mx. split; [reflexivity|]. split; [apply Forall_app; split; assumption | auto]. }
  clearbody X. destruct HX as [(q & a & b & -> & Hq' & Fa & Fb)|(e & ->)]; [|discriminate].
  cbn [bind]. intros H. inversion H; subst s'. unfold hln_rinv. cbn [hln_q hln_min hln_max hln_last].
  unfold sgtb. cbn [sltb FOps].
  split; [exact Hq'|].
  destruct (PrimFloat.ltb v a) eqn:E1; destruct (PrimFloat.ltb b v) eqn:E2; repeat split; try assumption; try apply Rle_refl;
    try (apply ltb_real_false; assumption).
Qed.

Lemma hln_rrun n fs s : Forall fin fs -> crun (@hln_core F FOps n) fs = Ok s -> hln_rinv s.
Proof.
  apply (@crun_pres F (@hln_core F FOps n) fin hln_rinv
           {| hln_q := []; hln_min := s0; hln_max := s0; hln_last := s0; hln_init := true |}).
  - reflexivity.
  - unfold hln_rinv. cbn [hln_q hln_min hln_max hln_last]. destruct prim_zero_fin as [H0 E0].
    split; [constructor|]. cbn [s0 FOps]. repeat split; try exact H0; apply Rle_refl.
  - intros s1 v s2 Fv Hi Hs. exact (hln_rstep n s1 v s2 Fv Hi Hs).
Qed.

(** the core arithmetic fact: for finite [mn <= last <= mx], a FINITE [-1 + ((last - mn) * 2) / (mx - mn)] is in [-1, 1] *)
Lemma hln_ratio_range last mn mx : ffinite last = true -> ffinite mn = true -> ffinite mx = true ->
  f2r mn <= f2r last <= f2r mx ->
  let v := PrimFloat.add (PrimFloat.opp fone)
             (PrimFloat.div (PrimFloat.mul (PrimFloat.sub last mn) (f_ofdec 2 0)) (PrimFloat.sub mx mn)) in
  ffinite v = true -> -1 <= f2r v <= 1.
Proof.
  intros Fl Fn Fx [Hlo Hhi]. cbv zeta. intros Fv.
  pose proof BIG_pos as BP.
  destruct (prim_add_fin _ _ Fv) as (_ & Fr & Ev). rewrite Ev.
  change (PrimFloat.opp fone) with (-1)%float. rewrite (proj2 f2r_m1).
  set (d1 := PrimFloat.sub last mn) in *. set (m := PrimFloat.mul d1 (f_ofdec 2 0)) in *.
  assert (Hfin : forall r, 0 <= r <= 2 -> -1 <= b64_add (-1) r <= 1).
  { intros r Hr. split; [apply rnd_ge; [exact format_m1 | lra] | apply rnd_le; [exact b64_format_1 | lra]]. }
  assert (H2 : 0 <= b64_sub (f2r mx) (f2r mn)) by (apply rnd_ge; [exact b64_format_0 | lra]).
  destruct (sub_spec mx mn Fx Fn) as [(_ & Fd2 & Ed2)|[(_ & E)|(Hr & _)]]; [| |exfalso; lra].
  - set (d2 := PrimFloat.sub mx mn) in *.
    destruct (prim_div_fin m d2 Fd2 Fr) as (Fm & Hd0 & Er).
    destruct (prim_mul_fin d1 (f_ofdec 2 0) Fm) as (Fd1 & _ & Em). rewrite (proj2 prim_two_fin) in Em. fold m in Em.
    destruct (prim_sub_fin last mn Fd1) as (_ & _ & Ed1). fold d1 in Ed1.
    assert (H1 : 0 <= f2r d1 <= f2r d2).
    { rewrite Ed1, Ed2. split; [apply rnd_ge; [exact b64_format_0 | lra] | apply rnd_mono; lra]. }
    assert (Hm : 0 <= f2r m <= f2r d2 * 2).
    { rewrite Em. split; [apply rnd_ge; [exact b64_format_0 | lra]|].
      apply rnd_le; [apply format_double, f2r_format | lra]. }
    assert (Hq : 0 <= f2r m / f2r d2 <= 2).
    { assert (Hp : 0 < f2r d2) by lra. split.
      - apply Rmult_le_pos; [lra|]. apply Rlt_le, Rinv_0_lt_compat. exact Hp.
      - apply (Rmult_le_reg_r (f2r d2)); [exact Hp|]. unfold Rdiv. rewrite Rmult_assoc, Rinv_l by lra. lra. }
    apply Hfin. rewrite Er. split; [apply rnd_ge; [exact b64_format_0 | apply Hq] | apply rnd_le; [exact b64_format_2 | apply Hq]].
  - rewrite E in Fr |- *. pose proof (div_pinf_r_fin m Fr) as Fm. destruct (div_pinf_r m Fm) as [_ E0].
    rewrite E0. apply Hfin. lra.
Qed.

Lemma hln_last_range s v : hln_rinv s -> @hln_lastf F FOps s = Ok (Some v) -> ffinite v = true ->
  PrimFloat.leb (-1) v && PrimFloat.leb v 1 = true.
Proof.
  intros (_ & Fn & Fx & Fl & Hord). unfold hln_lastf.
  destruct (seqb (hln_last s) (hln_min s) && seqb (hln_last s) (hln_max s)).
  - intros H _. inversion H. reflexivity.
  - cbn [sdiv smul ssub sadd sneg s1 sofdec FOps bind]. intros H Fv. injection H as Hv. subst v.
    apply (range_real (-1)%float fone); try apply f2r_m1; try apply prim_one_fin; [exact Fv|].
    rewrite (proj2 f2r_m1), (proj2 prim_one_fin). apply hln_ratio_range; assumption.
Qed.

(** C07 at f64, HLNormalizer (strong form): FINITE inputs -- nothing is assumed about the intermediate results --
    and a finite answer: the answer is in [-1, 1] exactly.  Any window length. *)
Theorem hln_range_f64_fin n (fs : list F) (v : F) : Forall fin fs ->
  cout (@hln_core F FOps n) fs = Ok (Some v) -> ffinite v = true ->
  PrimFloat.leb (-1) v && PrimFloat.leb v 1 = true.
Proof.
  intros Hf Hc Fv. unfold cout in Hc.
  destruct (crun (@hln_core F FOps n) fs) as [s|e] eqn:Er; [|discriminate]. cbn [bind clast hln_core] in Hc.
  exact (hln_last_range s v (hln_rrun n fs s Hf Er) Hc Fv).
Qed.

(** the same, with the executable hypothesis *)
Theorem hln_range_f64 n (fs : list F) (v : F) :
  all_finite_out ffinite (@hln_core F FOps n) fs = true ->
  cout (@hln_core F FOps n) fs = Ok (Some v) -> PrimFloat.leb (-1) v && PrimFloat.leb v 1 = true.
Proof.
  unfold all_finite_out. intros H Hc. apply andb_true_iff in H. destruct H as [Hf Ho]. rewrite Hc in Ho. cbn [ofinb] in Ho.
  apply (hln_range_f64_fin n fs v); [apply forallb_fin; exact Hf | exact Hc | exact Ho].
Qed.

Local Set Warnings "-inexact-float".
Example hln_range_f64_ex :
  all_finite_out ffinite (@hln_core F FOps 3) [1e6; 8.13; 3.461; 5.401; 3.311]%float = true /\
  exists v, cout (@hln_core F FOps 3) [1e6; 8.13; 3.461; 5.401; 3.311]%float = Ok (Some v).
Proof. split; [vm_compute; reflexivity|]. eexists. vm_compute. reflexivity. Qed.
(** finiteness of the answer cannot be dropped: [(last - min) * 2] overflows while [max - min] does not,
    and the answer is +infinity (finite inputs, no NaN anywhere) *)
Example hln_inf_ex :
  forallb ffinite [-0x1p1021; 0x1.8p1023]%float = true /\
  cout (@hln_core F FOps 3) [-0x1p1021; 0x1.8p1023]%float = Ok (Some pinf).
Proof. vm_compute. split; reflexivity. Qed.

Print Assumptions hln_range_f64_fin.
Print Assumptions hln_range_f64.
