(** BridgeE, main file: the executable finiteness checker removed from the primitive-float ([FOps]) drift theorems, and the
    float-level stability statements (C09: bounded input, bounded finite output for every length of the stream; C08: every
    value ever returned is finite).

    - Ema            (BridgeEEma.v): [ema_all_finite_of_bound], [ema_prim_drift_bounded], [ema_bridge_bounded],
                                     [ema_f64_bibo_gen], [ema_f64_bibo], [ema_f64_bibo_prefix], [ema_f64_finite]
    - WelfordOnline  (BridgeEWelf.v): [welford_all_finite_of_bound], [welford_mean_prim_drift_bounded],
                                     [welford_m2_prim_drift_bounded], [welford_f64_state_finite], [welford_f64_finite],
                                     [welford_f64_finite_prefix]
    - WelfordRolling (BridgeEWr.v):  [wr_all_finite_of_bound] (STATE checker), [wr_s_prim_drift_bounded],
                                     [wr_var_prim_drift_bounded]
    - Sma, Cumulative (here):        [sma_f64_bibo_gen], [sma_f64_bibo], [sma_f64_finite], [cumulative_f64_finite],
                                     [cumulative_f64_bibo] *)
From Coq Require Import List Arith Lia Reals Lra ZArith Floats Bool.
From SF Require Import Res Scalar View Models Spec Core FloatOps SpecBridge.
From SF.Proofs Require Import Window RBase SmaP WinAP FltErr FltBridge Flt2P Flt2B64 Flt2Prim BridgeOps BridgeSim BridgeP
  BridgeWOps BridgeWBound.
From SF.Proofs Require Export BridgeEEma BridgeEWelf BridgeEWr.
From Flocq Require Import Core BinarySingleNaN.
Import ListNotations.
Open Scope R_scope.
Local Notation float := PrimFloat.float.

(** * Sma *)

(** C08 at f64 for Sma on bounded input: the run does not err and every answer is finite *)
Theorem sma_f64_finite n M fs : (1 <= n)%nat -> (Z.of_nat n < 2 ^ 53)%Z -> 0 <= M ->
  Forall (fun x => ffinite x = true /\ Rabs (f2r x) <= M) fs ->
  (Z.of_nat (length fs) < 2 ^ 51)%Z -> 3 * (INR n * M) <= bpow radix2 1023 ->
  exists o, cout (@sma_core float FOps n) fs = Ok o /\ ofin ffinite o = true.
Proof.
  intros Hn Hn53 HM HD Ht HB.
  destruct (all_finite_run_cout ffinite (@sma_core float FOps n) (sma_sfin ffinite) fs
              (sma_all_finite_of_bound_simple n M fs Hn Hn53 HM HD Ht HB)) as [s [o [_ [_ [Eo Fo]]]]].
  exists o. auto.
Qed.

(** Sma answers only when the window is full *)
Lemma sma_some_length n M fs v : (1 <= n)%nat -> (Z.of_nat n < 2 ^ 53)%Z -> 0 <= M ->
  Forall (fun x => ffinite x = true /\ Rabs (f2r x) <= M) fs ->
  (Z.of_nat (length fs) < 2 ^ 51)%Z -> 3 * (INR n * M) <= bpow radix2 1023 ->
  cout (@sma_core float FOps n) fs = Ok (Some v) -> (n <= length fs)%nat.
Proof.
  intros Hn Hn53 HM HD Ht HB Ev.
  pose proof (sma_all_finite_of_bound_simple n M fs Hn Hn53 HM HD Ht HB) as Hc.
  assert (Hb : Forall (fun x => Rabs (f2r x) <= M) fs).
  { revert HD. apply Forall_impl. intros x [_ H]; exact H. }
  destruct (sma_sum_prim_drift n M fs Hn HM Hb Hc) as [s [Er [Hq _]]].
  assert (Hlen : length (sma_q s) = Nat.min n (length fs)).
  { rewrite <- (map_length f2r (sma_q s)), Hq, lastn_length, map_length. reflexivity. }
  unfold cout in Ev. rewrite Er in Ev. cbn [bind clast sma_core] in Ev. unfold sma_last in Ev.
  destruct (Nat.ltb_spec (length (sma_q s)) n) as [H|H]; [discriminate | lia].
Qed.

(** general form: |answer| <= (1+u)^(2t+1) M + eta, t = length of the stream *)
Theorem sma_f64_bibo_gen n M fs v : (1 <= n)%nat -> (Z.of_nat n < 2 ^ 53)%Z -> 0 <= M ->
  Forall (fun x => ffinite x = true /\ Rabs (f2r x) <= M) fs ->
  (Z.of_nat (length fs) < 2 ^ 51)%Z -> 3 * (INR n * M) <= bpow radix2 1023 ->
  cout (@sma_core float FOps n) fs = Ok (Some v) ->
  ffinite v = true /\ Rabs (f2r v) <= (1 + b64_u) ^ (2 * length fs + 1) * M + b64_eta.
Proof.
  intros Hn Hn53 HM HD Ht HB Ev.
  pose proof (sma_some_length n M fs v Hn Hn53 HM HD Ht HB Ev) as Hl.
  destruct (sma_prim_drift_bounded n M fs Hn Hn53 Hl Ht HM HD HB) as [o_f [o_ex [Eo [Fo [Ex HE]]]]].
  rewrite Ev in Eo. inversion Eo; subst o_f. split; [exact Fo|].
  assert (Hx : Rabs o_ex <= M).
  { rewrite (sma_closed_form n (map f2r fs) Hn) in Ex. unfold spec_sma in Ex. rewrite map_length in Ex.
    destruct (Nat.ltb_spec (length fs) n) as [H|H]; [lia|]. unfold smean in Ex. rewrite lastn_length, map_length in Ex.
    replace (Nat.min n (length fs)) with n in Ex by lia. rewrite sdivd_R in Ex by (apply INR_pos_neq; lia).
    inversion Ex; subst o_ex.
    assert (Hb : Forall (fun x => Rabs x <= M) (lastn n (map f2r fs))).
    { apply Forall_lastn. apply Forall_forall. intros y Hy. apply in_map_iff in Hy. destruct Hy as [x [<- Hx]].
      rewrite Forall_forall in HD. exact (proj2 (HD x Hx)). }
    pose proof (ssum_abs_le M _ Hb) as H1. rewrite lastn_length, map_length in H1.
    replace (Nat.min n (length fs)) with n in H1 by lia.
    assert (HnP : 0 < INR n) by (apply lt_0_INR; lia).
    unfold Rdiv. rewrite Rabs_mult, Rabs_inv, (Rabs_right (INR n)) by lra.
    apply Rmult_le_reg_r with (INR n); [exact HnP|]. rewrite Rmult_assoc, Rinv_l by lra. lra. }
  replace (f2r v) with (o_ex + (f2r v - o_ex)) by ring. eapply Rle_trans; [apply Rabs_triang|]. lra.
Qed.

(** the stability statement for Sma at f64: streams of at most 2^31 values, 2^-1000 <= M, 3 n M <= 2^1023:
    every value Sma ever returns is finite and of magnitude at most M (1 + 1e-6) *)
Theorem sma_f64_bibo n M fs v : (1 <= n)%nat -> (Z.of_nat n < 2 ^ 53)%Z -> bpow radix2 (-1000) <= M ->
  Forall (fun x => ffinite x = true /\ Rabs (f2r x) <= M) fs ->
  (Z.of_nat (length fs) <= 2 ^ 31)%Z -> 3 * (INR n * M) <= bpow radix2 1023 ->
  cout (@sma_core float FOps n) fs = Ok (Some v) ->
  ffinite v = true /\ Rabs (f2r v) <= M * (1 + 1 / 1000000).
Proof.
  intros Hn Hn53 HMlo HD Ht HB Ev.
  assert (HM : 0 <= M) by (pose proof (bpow_ge_0 radix2 (-1000)); lra).
  assert (Ht51 : (Z.of_nat (length fs) < 2 ^ 51)%Z).
  { eapply Z.le_lt_trans; [exact Ht | reflexivity]. }
  destruct (sma_f64_bibo_gen n M fs v Hn Hn53 HM HD Ht51 HB Ev) as [Fv Hv]. split; [exact Fv|].
  eapply Rle_trans; [exact Hv|].
  pose proof b64_u_nonneg as Hu. pose proof (b64_eta_le M HMlo) as He.
  assert (Hk : INR (2 * length fs + 1) * b64_u <= 4294967297 / 9007199254740992).
  { rewrite plus_INR, mult_INR. change (INR 2) with 2. change (INR 1) with 1. rewrite INR_IZR_INZ.
    assert (H : IZR (Z.of_nat (length fs)) <= IZR (2 ^ 31)) by (apply IZR_le; exact Ht).
    change (2 ^ 31)%Z with 2147483648%Z in H. rewrite b64_u_val.
    assert (H0 : 0 <= IZR (Z.of_nat (length fs))) by (apply IZR_le; lia). lra. }
  assert (Hk0 : 0 <= INR (2 * length fs + 1) * b64_u) by (apply Rmult_le_pos; [apply pos_INR | exact Hu]).
  pose proof (pow_gamma b64_u (2 * length fs + 1) Hu ltac:(lra)) as Hg.
  set (k := INR (2 * length fs + 1) * b64_u) in *.
  assert (Hq : k / (1 - k) <= 1 / 2000000).
  { apply Rmult_le_reg_r with (1 - k); [lra|]. unfold Rdiv. rewrite Rmult_assoc, Rinv_l by lra. lra. }
  set (P := (1 + b64_u) ^ (2 * length fs + 1)) in *.
  assert (HP : P * M <= (1 + 1 / 2000000) * M) by (apply Rmult_le_compat_r; lra).
  lra.
Qed.

(** * Cumulative *)

(** C08 at f64 for Cumulative on bounded input *)
Theorem cumulative_f64_finite n M fs : (1 <= n)%nat -> 0 <= M ->
  Forall (fun x => ffinite x = true /\ Rabs (f2r x) <= M) fs ->
  (Z.of_nat (length fs) < 2 ^ 51)%Z -> 3 * (INR n * M) <= bpow radix2 1023 ->
  exists o, cout (@cumulative_core float FOps n) fs = Ok o /\ ofin ffinite o = true.
Proof.
  intros Hn HM HD Ht HB.
  assert (Hc : all_finite_cumulative ffinite n fs = true).
  { apply (cumulative_all_finite_of_bound n M fs Hn HM HD).
    pose proof (pow1u_le2 (length fs) Ht) as Hp.
    assert (H1 : 1 <= INR n) by (change 1 with (INR 1); apply le_INR; exact Hn).
    assert (HnM : 0 <= INR n * M) by (apply Rmult_le_pos; lra).
    assert (HMn : M <= INR n * M) by nra.
    assert (HP : (1 + b64_u) ^ (2 * length fs) * (INR n * M) <= 2 * (INR n * M)) by (apply Rmult_le_compat_r; assumption).
    lra. }
  destruct (all_finite_run_cout ffinite (@cumulative_core float FOps n) (cum_sfin ffinite) fs Hc) as [s [o [_ [_ [Eo Fo]]]]].
  exists o. auto.
Qed.

(** stability of Cumulative at f64: |answer| <= (1+u)^(2t) n M <= 2 n M for t < 2^51 *)
Theorem cumulative_f64_bibo n M fs v : (1 <= n)%nat -> 0 <= M ->
  Forall (fun x => ffinite x = true /\ Rabs (f2r x) <= M) fs ->
  (Z.of_nat (length fs) < 2 ^ 51)%Z -> 3 * (INR n * M) <= bpow radix2 1023 ->
  cout (@cumulative_core float FOps n) fs = Ok (Some v) ->
  ffinite v = true /\ Rabs (f2r v) <= (1 + b64_u) ^ (2 * length fs) * (INR n * M) /\ Rabs (f2r v) <= 2 * (INR n * M).
Proof.
  intros Hn HM HD Ht HB Ev.
  assert (Hne : fs <> []) by (intros ->; cbn in Ev; discriminate).
  destruct (cumulative_prim_drift_bounded n M fs Hn Hne Ht HM HD HB) as [o_f [o_ex [Eo [Fo [Ex HE]]]]].
  rewrite Ev in Eo. inversion Eo; subst o_f. split; [exact Fo|].
  assert (HnM : 0 <= INR n * M) by (apply Rmult_le_pos; [apply pos_INR | exact HM]).
  assert (Hx : Rabs o_ex <= INR n * M).
  { rewrite (cumulative_closed_form n (map f2r fs) Hn) in Ex. unfold spec_cumulative in Ex.
    destruct (map f2r fs) eqn:Em; [destruct fs; [congruence | discriminate]|]. rewrite <- Em in Ex. inversion Ex; subst o_ex.
    assert (Hb : Forall (fun x => Rabs x <= M) (lastn n (map f2r fs))).
    { apply Forall_lastn. apply Forall_forall. intros y Hy. apply in_map_iff in Hy. destruct Hy as [x [<- Hx]].
      rewrite Forall_forall in HD. exact (proj2 (HD x Hx)). }
    pose proof (ssum_abs_le M _ Hb) as H1. rewrite lastn_length in H1.
    eapply Rle_trans; [exact H1|]. apply Rmult_le_compat_r; [exact HM|]. apply le_INR. lia. }
  assert (H1 : Rabs (f2r v) <= (1 + b64_u) ^ (2 * length fs) * (INR n * M)).
  { replace (f2r v) with (o_ex + (f2r v - o_ex)) by ring. eapply Rle_trans; [apply Rabs_triang|]. lra. }
  split; [exact H1|]. eapply Rle_trans; [exact H1|].
  apply Rmult_le_compat_r; [exact HnM | exact (pow1u_le2 (length fs) Ht)].
Qed.

(** hypotheses are satisfiable *)
Lemma stream10_fin_bounded : Forall (fun x => ffinite x = true /\ Rabs (f2r x) <= 128) stream10.
Proof.
  pose proof stream10_bounded as Hb. pose proof stream10_fin64 as Hf.
  rewrite Forall_forall in *. intros x Hx. split; [exact (Hf x Hx) | exact (Hb x Hx)].
Qed.
Example sma_bibo_ex : forall v, cout (@sma_core float FOps 3) stream10 = Ok (Some v) ->
  ffinite v = true /\ Rabs (f2r v) <= 128 * (1 + 1 / 1000000).
Proof.
  intros v. apply (sma_f64_bibo 3 128 stream10 v); [lia | reflexivity | | exact stream10_fin_bounded | cbn; lia |].
  - apply Rle_trans with (bpow radix2 0); [apply bpow_le; lia | cbn; lra].
  - replace (INR 3) with 3 by (cbn; lra). apply Rle_trans with (bpow radix2 11); [cbn; lra | apply bpow_le; lia].
Qed.
Example cumulative_bibo_ex : forall v, cout (@cumulative_core float FOps 3) stream10 = Ok (Some v) ->
  ffinite v = true /\ Rabs (f2r v) <= (1 + b64_u) ^ 20 * (INR 3 * 128) /\ Rabs (f2r v) <= 2 * (INR 3 * 128).
Proof.
  intros v. apply (cumulative_f64_bibo 3 128 stream10 v); [lia | lra | exact stream10_fin_bounded | reflexivity |].
  replace (INR 3) with 3 by (cbn; lra). apply Rle_trans with (bpow radix2 11); [cbn; lra | apply bpow_le; lia].
Qed.

Print Assumptions ema_all_finite_of_bound.
Print Assumptions ema_prim_drift_bounded.
Print Assumptions ema_f64_bibo.
Print Assumptions ema_f64_finite.
Print Assumptions welford_all_finite_of_bound.
Print Assumptions welford_mean_prim_drift_bounded.
Print Assumptions welford_m2_prim_drift_bounded.
Print Assumptions welford_f64_finite.
Print Assumptions wr_all_finite_of_bound.
Print Assumptions wr_s_prim_drift_bounded.
Print Assumptions wr_var_prim_drift_bounded.
Print Assumptions sma_f64_finite.
Print Assumptions sma_f64_bibo_gen.
Print Assumptions sma_f64_bibo.
Print Assumptions cumulative_f64_finite.
Print Assumptions cumulative_f64_bibo.
