(** C09 for EhlersFisherTransform, two-run statement.  The SAME moving-average view [ma] and two input histories
    hA, hB.  Once the last n-1 inputs agree ([win_sync]) every later window, hence every later normalised value fed
    to the MA, is the same in both runs; once the MA inputs have a common suffix of length >= M-1 and the MA has
    finite memory M ([finite_memory]) its answers are the same; from then on every Fisher step halves the
    difference of the two fish values (a flat window resets both to 0). *)
From Coq Require Import List Arith Lia ZArith Reals Lra.
From SF Require Import Res Scalar View Models Spec Core SpecEhl.
From SF.Proofs Require Import Chain Window RBase SmaP EhlBase EhlFlex EhlEft StabBase.
Import ListNotations.
Open Scope R_scope.
Local Existing Instance ROps.

(** * windows *)
Lemma lastn_lastn_le {A} m k (l : list A) : (m <= k)%nat -> lastn m (lastn k l) = lastn m l.
Proof.
  intros H. destruct (Nat.le_gt_cases m (length (lastn k l))) as [Hm|Hm].
  - transitivity (lastn m (firstn (length l - k) l ++ lastn k l)).
    + symmetry. apply lastn_app_suffix. exact Hm.
    + f_equal. unfold lastn. apply firstn_skipn.
  - rewrite lastn_length in Hm. rewrite (lastn_all k l) by lia. reflexivity.
Qed.

Lemma lastn_app_congr {A} m (a b c : list A) : (m <= length a)%nat -> (m <= length b)%nat ->
  lastn m a = lastn m b -> lastn (m + length c) (a ++ c) = lastn (m + length c) (b ++ c).
Proof.
  intros Ha Hb E.
  assert (H : forall l : list A, (m <= length l)%nat -> lastn (m + length c) (l ++ c) = lastn m l ++ c).
  { intros l Hl. unfold lastn. rewrite app_length.
    replace (length l + length c - (m + length c))%nat with (length l - m)%nat by lia.
    rewrite skipn_app. replace (length l - m - length l)%nat with 0%nat by lia. reflexivity. }
  rewrite (H a Ha), (H b Hb), E. reflexivity.
Qed.

Lemma nth_error_firstn_snoc {A} (xs : list A) i x : nth_error xs i = Some x -> firstn (S i) xs = firstn i xs ++ [x].
Proof.
  revert i. induction xs as [|y xs IH]; intros [|i] H; try discriminate.
  - cbn in H. injection H as H. subst. reflexivity.
  - cbn [nth_error] in H. cbn [firstn app]. f_equal. apply IH. exact H.
Qed.

(** * moving averages with finite memory *)
(** the answer after at least M inputs depends on the last M inputs only *)
Definition finite_memory (ma : view R) (M : nat) : Prop :=
  forall xs ys la lb i j oa ob, mrun ma xs = Ok la -> mrun ma ys = Ok lb ->
  nth_error la i = Some oa -> nth_error lb j = Some ob -> (M <= S i)%nat -> (M <= S j)%nat ->
  lastn M (firstn (S i) xs) = lastn M (firstn (S j) ys) -> oa = ob.
(** there is an answer once M inputs were received *)
Definition ready_after (ma : view R) (M : nat) : Prop :=
  forall xs la i o, mrun ma xs = Ok la -> nth_error la i = Some o -> (M <= S i)%nat -> o <> None.

Lemma mrun_length (ma : view R) xs la : mrun ma xs = Ok la -> length la = length xs.
Proof.
  unfold mrun. intros H. apply bind_ok in H. destruct H as [s [_ H]].
  destruct (mrun_from_steps _ ma s xs la H) as [_ [_ Hl]]. exact Hl.
Qed.

Lemma mrun_echo (xs : list R) : mrun (@echo R) xs = Ok (map Some xs).
Proof. unfold mrun. cbn [vnew echo bind]. apply mrun_from_echo. Qed.

Lemma echo_answer (xs : list R) i o : nth_error (map Some xs) i = Some o -> exists x, nth_error xs i = Some x /\ o = Some x.
Proof.
  intros H. destruct (nth_error xs i) as [x|] eqn:E.
  - rewrite (map_nth_error Some i xs E) in H. injection H as H. eauto.
  - apply nth_error_None in E. assert (nth_error (map Some xs) i = None) by (apply nth_error_None; rewrite map_length; exact E).
    congruence.
Qed.

Theorem echo_finite_memory M : (1 <= M)%nat -> finite_memory (@echo R) M.
Proof.
  intros HM xs ys la lb i j oa ob Ha Hb Hi Hj _ _ E.
  rewrite mrun_echo in Ha, Hb. injection Ha as Ha. injection Hb as Hb. subst la lb.
  destruct (echo_answer xs i oa Hi) as [x [Hx Eo]]. destruct (echo_answer ys j ob Hj) as [y [Hy Eo']]. subst.
  rewrite (nth_error_firstn_snoc xs i x Hx), (nth_error_firstn_snoc ys j y Hy) in E.
  rewrite <- !(lastn_snoc_pred M) in E by exact HM. apply app_inj_tail in E. destruct E as [_ E]. congruence.
Qed.

Theorem echo_ready : ready_after (@echo R) 1.
Proof.
  intros xs la i o Ha Hi _. rewrite mrun_echo in Ha. injection Ha as Ha. subst la.
  destruct (echo_answer xs i o Hi) as [x [_ E]]. subst. discriminate.
Qed.

Lemma sma_answer m xs la i o : (1 <= m)%nat -> mrun (standalone (@sma_core R ROps m)) xs = Ok la ->
  nth_error la i = Some o -> (i < length xs)%nat /\ o = @spec_sma R ROps m (firstn (S i) xs).
Proof.
  intros Hm Hr Hi. pose proof (mrun_length _ _ _ Hr) as Hl.
  assert (Hlt : (i < length la)%nat) by (apply nth_error_Some; congruence).
  split; [lia|]. pose proof (standalone_cout (@sma_core R ROps m) xs Hr i Hi) as Hc.
  rewrite sma_closed_form in Hc by exact Hm. congruence.
Qed.

Theorem sma_finite_memory m : (1 <= m)%nat -> finite_memory (standalone (@sma_core R ROps m)) m.
Proof.
  intros Hm xs ys la lb i j oa ob Ha Hb Hi Hj Mi Mj E.
  destruct (sma_answer m xs la i oa Hm Ha Hi) as [Li Eo]. destruct (sma_answer m ys lb j ob Hm Hb Hj) as [Lj Eo'].
  subst oa ob. unfold spec_sma. rewrite !firstn_length.
  destruct (Nat.ltb_spec (Nat.min (S i) (length xs)) m); [lia|].
  destruct (Nat.ltb_spec (Nat.min (S j) (length ys)) m); [lia|]. rewrite E. reflexivity.
Qed.

Theorem sma_ready m : (1 <= m)%nat -> ready_after (standalone (@sma_core R ROps m)) m.
Proof.
  intros Hm xs la i o Ha Hi Mi. destruct (sma_answer m xs la i o Hm Ha Hi) as [Li Eo]. subst o.
  unfold spec_sma. rewrite firstn_length. destruct (Nat.ltb_spec (Nat.min (S i) (length xs)) m); [lia | discriminate].
Qed.

(** * one step of the specification *)
Definition stepf (o : option R) (prev : option R) : option R :=
  match o with
  | None => prev
  | Some sm => Some (match prev with None => 0 | Some p => @eft_fish R ROps sm p end)
  end.

Lemma eft_inputs_length_mas n (ma : view R) h mas : mrun ma (@eft_inputs R ROps n h) = Ok mas ->
  length mas = length (ovals (@eft_events R ROps n h)).
Proof. intros H. apply mrun_length in H. exact H. Qed.

Lemma mrun_snoc_inv (ma : view R) xs x outs : mrun ma (xs ++ [x]) = Ok outs ->
  exists outs' o, mrun ma xs = Ok outs' /\ outs = outs' ++ [o].
Proof.
  unfold mrun. intros H. apply bind_ok in H. destruct H as [s [Hs H]]. rewrite Hs. cbn [bind].
  destruct (mrun_from_snoc_inv _ ma s xs x outs H) as (outs' & _ & _ & o & H1 & _ & _ & _ & H5). eauto.
Qed.

Lemma spec_eft_snoc n (ma : view R) h v masv : mrun ma (@eft_inputs R ROps n (h ++ [v])) = Ok masv ->
  match @eft_norm R ROps n (h ++ [v]) with
  | None => mrun ma (@eft_inputs R ROps n h) = Ok masv /\ @spec_eft R ROps n (h ++ [v]) masv = Some 0
  | Some x => exists mas o, masv = mas ++ [o] /\ mrun ma (@eft_inputs R ROps n h) = Ok mas /\
                @eft_inputs R ROps n (h ++ [v]) = @eft_inputs R ROps n h ++ [x] /\
                @spec_eft R ROps n (h ++ [v]) masv = stepf o (@spec_eft R ROps n h mas)
  end.
Proof.
  intros H. rewrite eft_inputs_snoc in H. unfold eft_new in H. unfold spec_eft. rewrite eft_events_snoc.
  pose proof (eft_inputs_snoc n h v) as Ein. unfold eft_new in Ein.
  destruct (@eft_norm R ROps n (h ++ [v])) as [x|].
  - destruct (mrun_snoc_inv ma _ x masv H) as (mas & o & Hm & E). exists mas, o.
    split; [exact E|]. split; [exact Hm|]. split; [exact Ein|]. subst masv.
    rewrite eft_run_snoc_Some by (apply (eft_inputs_length_mas n ma h mas Hm)). reflexivity.
  - rewrite app_nil_r in H. split; [exact H|]. apply eft_run_snoc_None. apply (eft_inputs_length_mas n ma h masv H).
Qed.

(** every value of the specification is at most ln 199 in absolute value *)
Lemma spec_eft_bound n (ma : view R) h mas y : (2 <= n)%nat -> mrun ma (@eft_inputs R ROps n h) = Ok mas ->
  @spec_eft R ROps n h mas = Some y -> Rabs y <= ln 199.
Proof.
  intros Hn Hm Hy. apply (eft_range_strong n ma h y). rewrite (eft_closed_form n ma h mas Hn Hm), Hy. reflexivity.
Qed.

(** the Fisher recursion halves differences *)
Lemma eft_fish_halving sm p p' : @eft_fish R ROps sm p - @eft_fish R ROps sm p' = (p - p') / 2.
Proof. unfold eft_fish. cbv zeta. rewrite sofdec_5_1. cbn [smul sadd ROps]. field. Qed.

Ltac csplit := repeat match goal with |- _ /\ _ => split end.

(** * two runs *)
(** the last n-1 inputs agree: all later windows agree *)
Definition win_sync (n : nat) (hA hB : list R) : Prop :=
  lastn (n - 1) hA = lastn (n - 1) hB /\ (n - 1 <= length hA)%nat /\ (n - 1 <= length hB)%nat.
(** the two lists have a common suffix of length k *)
Definition in_common (k : nat) (IA IB : list R) : Prop :=
  lastn k IA = lastn k IB /\ (k <= length IA)%nat /\ (k <= length IB)%nat.

Lemma win_sync_tail n p p' s : (n - 1 <= length s)%nat -> win_sync n (p ++ s) (p' ++ s).
Proof.
  intros H. unfold win_sync. rewrite !lastn_app_suffix by exact H. rewrite !app_length. repeat split; lia.
Qed.

Lemma in_common_0 IA IB : in_common 0 IA IB.
Proof. unfold in_common. rewrite !lastn_0. repeat split; lia. Qed.

Lemma in_common_snoc k IA IB x : in_common k IA IB -> in_common (S k) (IA ++ [x]) (IB ++ [x]).
Proof.
  intros (E & HA & HB). unfold in_common. rewrite !app_length. cbn [length].
  pose proof (lastn_app_congr k IA IB [x] HA HB E) as H. cbn [length] in H.
  replace (k + 1)%nat with (S k) in H by lia. repeat split; [exact H | lia | lia].
Qed.

Lemma in_common_le k m IA IB : (m <= k)%nat -> in_common k IA IB -> in_common m IA IB.
Proof.
  intros H (E & HA & HB). unfold in_common.
  rewrite <- (lastn_lastn_le m k IA H), <- (lastn_lastn_le m k IB H), E. repeat split; lia.
Qed.

Lemma win_sync_step n hA hB v : (2 <= n)%nat -> win_sync n hA hB ->
  win_sync n (hA ++ [v]) (hB ++ [v]) /\ @eft_norm R ROps n (hA ++ [v]) = @eft_norm R ROps n (hB ++ [v]).
Proof.
  intros Hn (E & HA & HB).
  pose proof (lastn_app_congr (n - 1) hA hB [v] HA HB E) as H. cbn [length] in H.
  replace (n - 1 + 1)%nat with n in H by lia. split.
  - unfold win_sync. rewrite !app_length. cbn [length].
    rewrite <- (lastn_lastn_le (n - 1) n (hA ++ [v])), <- (lastn_lastn_le (n - 1) n (hB ++ [v])) by lia.
    rewrite H. repeat split; lia.
  - rewrite !eft_norm_snoc. cbv zeta. rewrite H. reflexivity.
Qed.

(** one step of two synchronised runs *)
Lemma two_run_step n (ma : view R) M k hA hB v masA' masB' : (2 <= n)%nat -> (1 <= M)%nat -> finite_memory ma M ->
  win_sync n hA hB -> in_common k (@eft_inputs R ROps n hA) (@eft_inputs R ROps n hB) ->
  mrun ma (@eft_inputs R ROps n (hA ++ [v])) = Ok masA' -> mrun ma (@eft_inputs R ROps n (hB ++ [v])) = Ok masB' ->
  win_sync n (hA ++ [v]) (hB ++ [v]) /\
  exists masA masB, mrun ma (@eft_inputs R ROps n hA) = Ok masA /\ mrun ma (@eft_inputs R ROps n hB) = Ok masB /\
  match @eft_norm R ROps n (hA ++ [v]) with
  | None => masA' = masA /\ masB' = masB /\
            @spec_eft R ROps n (hA ++ [v]) masA' = Some 0 /\ @spec_eft R ROps n (hB ++ [v]) masB' = Some 0 /\
            in_common k (@eft_inputs R ROps n (hA ++ [v])) (@eft_inputs R ROps n (hB ++ [v]))
  | Some x => exists oA oB, masA' = masA ++ [oA] /\ masB' = masB ++ [oB] /\
            @spec_eft R ROps n (hA ++ [v]) masA' = stepf oA (@spec_eft R ROps n hA masA) /\
            @spec_eft R ROps n (hB ++ [v]) masB' = stepf oB (@spec_eft R ROps n hB masB) /\
            in_common (S k) (@eft_inputs R ROps n (hA ++ [v])) (@eft_inputs R ROps n (hB ++ [v])) /\
            ((M <= S k)%nat -> oA = oB)
  end.
Proof.
  intros Hn HM Hfm Hw Hc HrA HrB. destruct (win_sync_step n hA hB v Hn Hw) as [Hw' Hev]. split; [exact Hw'|].
  pose proof (spec_eft_snoc n ma hA v masA' HrA) as SA. pose proof (spec_eft_snoc n ma hB v masB' HrB) as SB.
  rewrite <- Hev in SB. pose proof (eft_inputs_snoc n hA v) as EA. pose proof (eft_inputs_snoc n hB v) as EB.
  unfold eft_new in EA, EB. rewrite <- Hev in EB.
  destruct (@eft_norm R ROps n (hA ++ [v])) as [x|].
  - destruct SA as (masA & oA & E1 & HmA & EiA & HsA). destruct SB as (masB & oB & E2 & HmB & EiB & HsB).
    exists masA, masB. split; [exact HmA|]. split; [exact HmB|]. exists oA, oB.
    pose proof (in_common_snoc k _ _ x Hc) as Hc'. rewrite <- EiA, <- EiB in Hc'.
    split; [exact E1|]. split; [exact E2|]. split; [exact HsA|]. split; [exact HsB|]. split; [exact Hc'|].
    intros HMk. pose proof (in_common_le (S k) M _ _ HMk Hc') as (EM & LA & LB).
    pose proof (mrun_length _ _ _ HrA) as LmA. pose proof (mrun_length _ _ _ HrB) as LmB.
    pose proof (mrun_length _ _ _ HmA) as LmA0. pose proof (mrun_length _ _ _ HmB) as LmB0.
    apply (Hfm _ _ _ _ (length masA) (length masB) oA oB HrA HrB).
    + subst masA'. rewrite nth_error_app2 by lia. rewrite Nat.sub_diag. reflexivity.
    + subst masB'. rewrite nth_error_app2 by lia. rewrite Nat.sub_diag. reflexivity.
    + rewrite EiA, app_length in LA. cbn [length] in LA. lia.
    + rewrite EiB, app_length in LB. cbn [length] in LB. lia.
    + rewrite !firstn_all2; [exact EM | |]; rewrite ?EiA, ?EiB, app_length; cbn [length]; lia.
  - destruct SA as [HmA HsA]. destruct SB as [HmB HsB]. exists masA', masB'.
    rewrite app_nil_r in EA, EB. rewrite EA, EB.
    split; [exact HmA|]. split; [exact HmB|]. split; [reflexivity|]. split; [reflexivity|].
    split; [exact HsA|]. split; [exact HsB | exact Hc].
Qed.

(** C09 (EFT), general two-run statement: synchronised windows, MA inputs with a common suffix of length >= M-1,
    both runs have a fish value; then after ANY common continuation s2 both have a value, the MA gave the same
    answers cm to both, and the difference has been halved once for every answer in cm *)
Theorem eft_two_run_halving n (ma : view R) M k hA hB : (2 <= n)%nat -> (1 <= M)%nat -> finite_memory ma M ->
  win_sync n hA hB -> in_common k (@eft_inputs R ROps n hA) (@eft_inputs R ROps n hB) -> (M <= S k)%nat ->
  forall s2 masA masB,
  mrun ma (@eft_inputs R ROps n (hA ++ s2)) = Ok masA -> mrun ma (@eft_inputs R ROps n (hB ++ s2)) = Ok masB ->
  exists mA0 mB0 cm, masA = mA0 ++ cm /\ masB = mB0 ++ cm /\
    mrun ma (@eft_inputs R ROps n hA) = Ok mA0 /\ mrun ma (@eft_inputs R ROps n hB) = Ok mB0 /\
    win_sync n (hA ++ s2) (hB ++ s2) /\
    in_common (k + length cm) (@eft_inputs R ROps n (hA ++ s2)) (@eft_inputs R ROps n (hB ++ s2)) /\
    forall a b, @spec_eft R ROps n hA mA0 = Some a -> @spec_eft R ROps n hB mB0 = Some b ->
    exists a' b', @spec_eft R ROps n (hA ++ s2) masA = Some a' /\ @spec_eft R ROps n (hB ++ s2) masB = Some b' /\
                  Rabs (a' - b') <= (/ 2) ^ length (ovals cm) * Rabs (a - b).
Proof.
  intros Hn HM Hfm Hw Hc HMk. induction s2 as [|v s2 IH] using rev_ind; intros masA masB HrA HrB.
  - rewrite app_nil_r in *. exists masA, masB, []. rewrite !app_nil_r, Nat.add_0_r. csplit; try assumption; try reflexivity.
    intros a b Ha Hb. exists a, b. cbn [ovals length pow]. csplit; try assumption. lra.
  - rewrite !app_assoc in *.
    assert (Hpre : exists mA1 mB1, mrun ma (@eft_inputs R ROps n (hA ++ s2)) = Ok mA1 /\
                                   mrun ma (@eft_inputs R ROps n (hB ++ s2)) = Ok mB1).
    { pose proof (spec_eft_snoc n ma (hA ++ s2) v masA HrA) as SA.
      pose proof (spec_eft_snoc n ma (hB ++ s2) v masB HrB) as SB.
      destruct (@eft_norm R ROps n ((hA ++ s2) ++ [v])); destruct (@eft_norm R ROps n ((hB ++ s2) ++ [v]));
      repeat match goal with
      | H : exists _, _ |- _ => destruct H
      | H : _ /\ _ |- _ => destruct H
      end; eauto. }
    destruct Hpre as (mA1 & mB1 & H1 & H2).
    destruct (IH mA1 mB1 H1 H2) as (mA0 & mB0 & cm & E1 & E2 & HA0 & HB0 & Hw1 & Hc1 & Hval).
    destruct (two_run_step n ma M (k + length cm) (hA ++ s2) (hB ++ s2) v masA masB Hn HM Hfm Hw1 Hc1 HrA HrB)
      as (Hw2 & mA1' & mB1' & H1' & H2' & Hcase).
    rewrite H1 in H1'. injection H1' as H1'. subst mA1'. rewrite H2 in H2'. injection H2' as H2'. subst mB1'.
    destruct (@eft_norm R ROps n ((hA ++ s2) ++ [v])) as [x|].
    + destruct Hcase as (oA & oB & EA & EB & SA & SB & Hc2 & Ho). specialize (Ho ltac:(lia)). subst oB.
      exists mA0, mB0, (cm ++ [oA]). rewrite app_length. cbn [length].
      replace (k + (length cm + 1))%nat with (S (k + length cm)) by lia.
      subst mA1 mB1 masA masB.
      split; [symmetry; apply app_assoc|]. split; [symmetry; apply app_assoc|].
      split; [exact HA0|]. split; [exact HB0|]. split; [exact Hw2|]. split; [exact Hc2|].
      intros a b Ha Hb. destruct (Hval a b Ha Hb) as (a1 & b1 & Ha1 & Hb1 & Hd).
      rewrite SA, SB, Ha1, Hb1. rewrite ovals_app.
      destruct oA as [sm|]; cbn [stepf ovals].
      * exists (@eft_fish R ROps sm a1), (@eft_fish R ROps sm b1). split; [reflexivity|]. split; [reflexivity|].
        rewrite eft_fish_halving. rewrite app_length. cbn [length]. rewrite Nat.add_1_r. cbn [pow].
        unfold Rdiv. rewrite Rabs_mult, (Rabs_pos_eq (/ 2)) by lra. lra.
      * exists a1, b1. split; [reflexivity|]. split; [reflexivity|]. rewrite app_nil_r. exact Hd.
    + destruct Hcase as (EA & EB & SA & SB & Hc2). exists mA0, mB0, cm.
      subst mA1 mB1. csplit; try assumption; try congruence.
      intros a b Ha Hb. exists 0, 0. rewrite SA, SB. split; [reflexivity|]. split; [reflexivity|].
      rewrite Rminus_0_r, Rabs_R0. apply Rmult_le_pos; [apply pow_le; lra | apply Rabs_pos].
Qed.

(** * the statement of the property: histories p ++ s and p' ++ s *)
Lemma mrun_inputs_prefix n (ma : view R) h v masv : mrun ma (@eft_inputs R ROps n (h ++ [v])) = Ok masv ->
  exists mas, mrun ma (@eft_inputs R ROps n h) = Ok mas.
Proof.
  intros H. pose proof (spec_eft_snoc n ma h v masv H) as S1.
  destruct (@eft_norm R ROps n (h ++ [v])).
  - destruct S1 as (mas & o & _ & Hm & _). eauto.
  - destruct S1 as [Hm _]. eauto.
Qed.

(** invariant along a tail t (|t| >= n-1) none of whose windows from the n-th tail value on is flat *)
Lemma eft_tail_inv n (ma : view R) M p p' : (2 <= n)%nat -> (1 <= M)%nat -> finite_memory ma M -> ready_after ma M ->
  forall t, (n - 1 <= length t)%nat ->
  (forall j, (n <= j <= length t)%nat -> @eft_norm R ROps n (p ++ firstn j t) <> None) ->
  forall masA masB, mrun ma (@eft_inputs R ROps n (p ++ t)) = Ok masA -> mrun ma (@eft_inputs R ROps n (p' ++ t)) = Ok masB ->
  win_sync n (p ++ t) (p' ++ t) /\
  in_common (length t - (n - 1)) (@eft_inputs R ROps n (p ++ t)) (@eft_inputs R ROps n (p' ++ t)) /\
  ((n + M - 1 <= length t)%nat ->
   exists a b, @spec_eft R ROps n (p ++ t) masA = Some a /\ @spec_eft R ROps n (p' ++ t) masB = Some b /\
               Rabs (a - b) <= (/ 2) ^ (length t - (n + M - 1)) * (2 * ln 199)).
Proof.
  intros Hn HM Hfm Hrd. induction t as [|v t IH] using rev_ind; intros Hlen Hflat masA masB HrA HrB.
  - cbn [length] in Hlen. lia.
  - rewrite app_length in *. cbn [length] in *.
    destruct (Nat.lt_ge_cases (length t) (n - 1)) as [Hshort|Hlong].
    + (* the tail has exactly n-1 values *)
      split; [apply win_sync_tail; rewrite app_length; cbn [length]; lia|].
      replace (length t + 1 - (n - 1))%nat with 0%nat by lia. split; [apply in_common_0|]. intros; lia.
    + rewrite !app_assoc in HrA, HrB.
      destruct (mrun_inputs_prefix n ma _ v masA HrA) as [mA1 H1].
      destruct (mrun_inputs_prefix n ma _ v masB HrB) as [mB1 H2].
      assert (Hflat' : forall j, (n <= j <= length t)%nat -> @eft_norm R ROps n (p ++ firstn j t) <> None).
      { intros j Hj. specialize (Hflat j ltac:(lia)). rewrite firstn_app in Hflat.
        replace (j - length t)%nat with 0%nat in Hflat by lia. rewrite firstn_O, app_nil_r in Hflat. exact Hflat. }
      destruct (IH Hlong Hflat' mA1 mB1 H1 H2) as (Hw1 & Hc1 & Hval).
      destruct (two_run_step n ma M (length t - (n - 1)) (p ++ t) (p' ++ t) v masA masB Hn HM Hfm Hw1 Hc1 HrA HrB)
        as (Hw2 & mA1' & mB1' & H1' & H2' & Hcase).
      rewrite H1 in H1'. injection H1' as H1'. subst mA1'. rewrite H2 in H2'. injection H2' as H2'. subst mB1'.
      pose proof (Hflat (length t + 1)%nat ltac:(lia)) as Hnf.
      rewrite firstn_all2 in Hnf by (rewrite app_length; cbn [length]; lia). rewrite app_assoc in Hnf.
      destruct (@eft_norm R ROps n ((p ++ t) ++ [v])) as [x|]; [clear Hnf | congruence].
      destruct Hcase as (oA & oB & EA & EB & SA & SB & Hc2 & Ho).
      rewrite <- !app_assoc in Hw2, Hc2. split; [exact Hw2|].
      replace (length t + 1 - (n - 1))%nat with (S (length t - (n - 1))) by lia. split; [exact Hc2|].
      intros Hbig. specialize (Ho ltac:(lia)). subst oB.
      (* the common answer exists *)
      assert (HoS : oA <> None).
      { apply (Hrd _ masA (length mA1) oA HrA).
        - subst masA. rewrite nth_error_app2 by lia. rewrite Nat.sub_diag. reflexivity.
        - destruct Hc1 as (_ & L1 & _). pose proof (mrun_length _ _ _ H1) as Lm. lia. }
      destruct oA as [sm|]; [clear HoS | congruence]. cbn [stepf] in SA, SB.
      rewrite <- !app_assoc in SA, SB. rewrite SA, SB.
      destruct (Nat.eq_dec (length t + 1) (n + M - 1)) as [Eq|Neq].
      * (* first step with a common answer: both values are bounded by ln 199 *)
        rewrite Eq, Nat.sub_diag. cbn [pow]. rewrite Rmult_1_l.
        eexists. eexists. split; [reflexivity|]. split; [reflexivity|].
        assert (BA := fun y => spec_eft_bound n ma _ masA y Hn HrA).
        assert (BB := fun y => spec_eft_bound n ma _ masB y Hn HrB).
        rewrite <- !app_assoc in BA, BB. specialize (BA _ SA). specialize (BB _ SB).
        apply Rabs_le_inv' in BA. apply Rabs_le_inv' in BB. apply Rabs_le. lra.
      * destruct (Hval ltac:(lia)) as (a0 & b0 & Ha0 & Hb0 & Hd). rewrite Ha0, Hb0.
        eexists. eexists. split; [reflexivity|]. split; [reflexivity|].
        rewrite eft_fish_halving.
        replace (length t + 1 - (n + M - 1))%nat with (S (length t - (n + M - 1))) by lia. cbn [pow].
        unfold Rdiv. rewrite Rabs_mult, (Rabs_pos_eq (/ 2)) by lra. lra.
Qed.

(** C09 (EFT): two histories p ++ s1 ++ s2 and p' ++ s1 ++ s2 with |s1| = n + M - 1, the same moving average with
    finite memory M (ready after M inputs), no flat window from the n-th tail value on: both runs have a value and
    |fish - fish'| <= (1/2)^|s2| * 2 ln 199.  The prefixes p, p' are arbitrary (any lengths, any values). *)
Theorem eft_fading n (ma : view R) M p p' s1 s2 masA masB :
  (2 <= n)%nat -> (1 <= M)%nat -> finite_memory ma M -> ready_after ma M -> length s1 = (n + M - 1)%nat ->
  (forall j, (n <= j <= length (s1 ++ s2))%nat -> @eft_norm R ROps n (p ++ firstn j (s1 ++ s2)) <> None) ->
  mrun ma (@eft_inputs R ROps n (p ++ s1 ++ s2)) = Ok masA -> mrun ma (@eft_inputs R ROps n (p' ++ s1 ++ s2)) = Ok masB ->
  exists a b, @spec_eft R ROps n (p ++ s1 ++ s2) masA = Some a /\ @spec_eft R ROps n (p' ++ s1 ++ s2) masB = Some b /\
              Rabs (a - b) <= (/ 2) ^ length s2 * (2 * ln 199).
Proof.
  intros Hn HM Hfm Hrd Hl Hflat HrA HrB.
  destruct (eft_tail_inv n ma M p p' Hn HM Hfm Hrd (s1 ++ s2) ltac:(rewrite app_length; lia) Hflat masA masB HrA HrB)
    as (_ & _ & Hval).
  destruct (Hval ltac:(rewrite app_length; lia)) as (a & b & Ha & Hb & Hd). exists a, b.
  split; [exact Ha|]. split; [exact Hb|]. rewrite app_length in Hd.
  replace (length s1 + length s2 - (n + M - 1))%nat with (length s2) in Hd by lia. exact Hd.
Qed.

(** the same in terms of the model's outputs *)
Corollary eft_fading_cout n (ma : view R) M p p' s1 s2 masA masB :
  (2 <= n)%nat -> (1 <= M)%nat -> finite_memory ma M -> ready_after ma M -> length s1 = (n + M - 1)%nat ->
  (forall j, (n <= j <= length (s1 ++ s2))%nat -> @eft_norm R ROps n (p ++ firstn j (s1 ++ s2)) <> None) ->
  mrun ma (@eft_inputs R ROps n (p ++ s1 ++ s2)) = Ok masA -> mrun ma (@eft_inputs R ROps n (p' ++ s1 ++ s2)) = Ok masB ->
  exists a b, cout (@eft_core R ROps n ma) (p ++ s1 ++ s2) = Ok (Some a) /\
              cout (@eft_core R ROps n ma) (p' ++ s1 ++ s2) = Ok (Some b) /\
              Rabs (a - b) <= (/ 2) ^ length s2 * (2 * ln 199).
Proof.
  intros Hn HM Hfm Hrd Hl Hflat HrA HrB.
  destruct (eft_fading n ma M p p' s1 s2 masA masB Hn HM Hfm Hrd Hl Hflat HrA HrB) as (a & b & Ha & Hb & Hd).
  exists a, b. rewrite (eft_closed_form n ma _ masA Hn HrA), (eft_closed_form n ma _ masB Hn HrB), Ha, Hb. auto.
Qed.


(** specialisations: EFT over Echo (memory 1; its run never fails) and over a stand-alone Sma(m) (memory m) *)
Corollary eft_fading_echo n p p' s1 s2 : (2 <= n)%nat -> length s1 = n ->
  (forall j, (n <= j <= length (s1 ++ s2))%nat -> @eft_norm R ROps n (p ++ firstn j (s1 ++ s2)) <> None) ->
  exists a b, cout (@eft_core R ROps n (@echo R)) (p ++ s1 ++ s2) = Ok (Some a) /\
              cout (@eft_core R ROps n (@echo R)) (p' ++ s1 ++ s2) = Ok (Some b) /\
              Rabs (a - b) <= (/ 2) ^ length s2 * (2 * ln 199).
Proof.
  intros Hn Hl Hflat.
  apply (eft_fading_cout n (@echo R) 1 p p' s1 s2 _ _ Hn (le_n 1) (echo_finite_memory 1 (le_n 1)) echo_ready
           ltac:(lia) Hflat (mrun_echo _) (mrun_echo _)).
Qed.

Corollary eft_fading_sma n m p p' s1 s2 masA masB : (2 <= n)%nat -> (1 <= m)%nat -> length s1 = (n + m - 1)%nat ->
  (forall j, (n <= j <= length (s1 ++ s2))%nat -> @eft_norm R ROps n (p ++ firstn j (s1 ++ s2)) <> None) ->
  mrun (standalone (@sma_core R ROps m)) (@eft_inputs R ROps n (p ++ s1 ++ s2)) = Ok masA ->
  mrun (standalone (@sma_core R ROps m)) (@eft_inputs R ROps n (p' ++ s1 ++ s2)) = Ok masB ->
  exists a b, cout (@eft_core R ROps n (standalone (@sma_core R ROps m))) (p ++ s1 ++ s2) = Ok (Some a) /\
              cout (@eft_core R ROps n (standalone (@sma_core R ROps m))) (p' ++ s1 ++ s2) = Ok (Some b) /\
              Rabs (a - b) <= (/ 2) ^ length s2 * (2 * ln 199).
Proof.
  intros Hn Hm Hl Hflat HrA HrB.
  apply (eft_fading_cout n _ m p p' s1 s2 masA masB Hn Hm (sma_finite_memory m Hm) (sma_ready m Hm) Hl Hflat HrA HrB).
Qed.

(** satisfiability: n = 2 over Echo, prefixes [0] and [5; 7], tail 1, 2, 3 (strictly increasing: no flat window) *)
Lemma eft_norm_incr2 (h : list R) a b : a < b -> @eft_norm R ROps 2 ((h ++ [a]) ++ [b]) <> None.
Proof.
  intros Hab. rewrite eft_norm_snoc. cbv zeta.
  replace (lastn 2 ((h ++ [a]) ++ [b])) with [a; b].
  2:{ rewrite <- app_assoc. cbn [app]. symmetry. change [a; b] with ([] ++ [a; b]) at 2.
      rewrite (lastn_app_suffix 2 h [a; b]) by (cbn [length]; lia). reflexivity. }
  rewrite wmax_R, wmin_R. cbn [tl hd fold_left].
  rewrite Rmax_right, Rmin_left by lra. destruct (Reqb b a) eqn:E; [apply Reqb_true in E; lra | discriminate].
Qed.

Example eft_fading_echo_ex :
  exists a b, cout (@eft_core R ROps 2 (@echo R)) ([0] ++ [1; 2] ++ [3]) = Ok (Some a) /\
              cout (@eft_core R ROps 2 (@echo R)) ([5; 7] ++ [1; 2] ++ [3]) = Ok (Some b) /\
              Rabs (a - b) <= (/ 2) ^ 1 * (2 * ln 199).
Proof.
  apply (eft_fading_echo 2 [0] [5; 7] [1; 2] [3]); [lia | reflexivity|].
  intros j Hj. cbn [length app] in Hj. assert (j = 2 \/ j = 3)%nat as [E|E] by lia; subst j; cbn [firstn app].
  - apply (eft_norm_incr2 [0] 1 2). lra.
  - apply (eft_norm_incr2 [0; 1] 2 3). lra.
Qed.
