(** HLNormalizer (hl_normalizer.rs) and BinaryEntropy (binary_entropy.rs): closed forms (C02), ranges (C07),
    finite memory (C03), invariances (C12), flat window (C16), all at [R] and for every window length n >= 1. *)
From Coq Require Import List Arith Lia Reals Lra Bool.
From SF Require Import Res Scalar View Models Spec Core SpecHln.
From SF.Proofs Require Import Window RBase.
Import ListNotations.
Open Scope R_scope.

(** * Extremes of a list *)
Definition is_min (m : R) (l : list R) : Prop := In m l /\ forall x, In x l -> m <= x.
Definition is_max (m : R) (l : list R) : Prop := In m l /\ forall x, In x l -> x <= m.

Definition minF (m v : R) : R := if Rltb v m then v else m.
Definition maxF (m v : R) : R := if Rltb m v then v else m.

Lemma minF_cases m v : (v < m /\ minF m v = v) \/ (m <= v /\ minF m v = m).
Proof. unfold minF. destruct (Rltb v m) eqn:E; [left; apply Rltb_true in E | right; apply Rltb_false in E]; auto. Qed.
Lemma maxF_cases m v : (m < v /\ maxF m v = v) \/ (v <= m /\ maxF m v = m).
Proof. unfold maxF. destruct (Rltb m v) eqn:E; [left; apply Rltb_true in E | right; apply Rltb_false in E]; auto. Qed.

Lemma is_min_unique m m' l : is_min m l -> is_min m' l -> m = m'.
Proof. intros [Hi Hl] [Hi' Hl']. apply Rle_antisym; auto. Qed.
Lemma is_max_unique m m' l : is_max m l -> is_max m' l -> m = m'.
Proof. intros [Hi Hl] [Hi' Hl']. apply Rle_antisym; auto. Qed.

Lemma is_min_single v : is_min v [v].
Proof. split; [left; reflexivity|]. intros x [<-|[]]. lra. Qed.
Lemma is_max_single v : is_max v [v].
Proof. split; [left; reflexivity|]. intros x [<-|[]]. lra. Qed.

Lemma is_min_snoc m l v : is_min m l -> is_min (minF m v) (l ++ [v]).
Proof.
  intros [Hi Hl]. destruct (minF_cases m v) as [[H ->]|[H ->]]; split.
  - apply in_or_app; right; left; reflexivity.
  - intros x Hx. apply in_app_or in Hx. destruct Hx as [Hx|[<-|[]]]; [specialize (Hl x Hx)|]; lra.
  - apply in_or_app; left; exact Hi.
  - intros x Hx. apply in_app_or in Hx. destruct Hx as [Hx|[<-|[]]]; [apply Hl; exact Hx | lra].
Qed.
Lemma is_max_snoc m l v : is_max m l -> is_max (maxF m v) (l ++ [v]).
Proof.
  intros [Hi Hl]. destruct (maxF_cases m v) as [[H ->]|[H ->]]; split.
  - apply in_or_app; right; left; reflexivity.
  - intros x Hx. apply in_app_or in Hx. destruct Hx as [Hx|[<-|[]]]; [specialize (Hl x Hx)|]; lra.
  - apply in_or_app; left; exact Hi.
  - intros x Hx. apply in_app_or in Hx. destruct Hx as [Hx|[<-|[]]]; [apply Hl; exact Hx | lra].
Qed.

(** the core list fact behind the lazy re-scan: removing a non-extremal element keeps the extreme *)
Lemma is_min_tl m old t : is_min m (old :: t) -> m < old -> is_min m t.
Proof.
  intros [Hi Hl] Hlt. split.
  - destruct Hi as [Hi|Hi]; [lra | exact Hi].
  - intros x Hx. apply Hl. right; exact Hx.
Qed.
Lemma is_max_tl m old t : is_max m (old :: t) -> old < m -> is_max m t.
Proof.
  intros [Hi Hl] Hlt. split.
  - destruct Hi as [Hi|Hi]; [lra | exact Hi].
  - intros x Hx. apply Hl. right; exact Hx.
Qed.

(** an element already in the list does not move the extreme *)
Lemma minF_absorb m l v : is_min m l -> In v l -> minF m v = m.
Proof. intros [_ Hl] Hv. specialize (Hl v Hv). destruct (minF_cases m v) as [[H ->]|[H ->]]; lra. Qed.
Lemma maxF_absorb m l v : is_max m l -> In v l -> maxF m v = m.
Proof. intros [_ Hl] Hv. specialize (Hl v Hv). destruct (maxF_cases m v) as [[H ->]|[H ->]]; lra. Qed.

Lemma fold_minF_is_min l : forall l0 a, is_min a l0 -> is_min (fold_left minF l a) (l0 ++ l).
Proof.
  induction l as [|v l IH]; intros l0 a Ha; cbn [fold_left].
  - rewrite app_nil_r. exact Ha.
  - replace (l0 ++ v :: l) with ((l0 ++ [v]) ++ l) by (rewrite <- app_assoc; reflexivity).
    apply IH. apply is_min_snoc. exact Ha.
Qed.
Lemma fold_maxF_is_max l : forall l0 a, is_max a l0 -> is_max (fold_left maxF l a) (l0 ++ l).
Proof.
  induction l as [|v l IH]; intros l0 a Ha; cbn [fold_left].
  - rewrite app_nil_r. exact Ha.
  - replace (l0 ++ v :: l) with ((l0 ++ [v]) ++ l) by (rewrite <- app_assoc; reflexivity).
    apply IH. apply is_max_snoc. exact Ha.
Qed.

Lemma wmin_R f r : @wmin R ROps f r = fold_left minF r f.
Proof. reflexivity. Qed.
Lemma wmax_R f r : @wmax R ROps f r = fold_left maxF r f.
Proof. reflexivity. Qed.

Lemma wmin_is_min f r : is_min (@wmin R ROps f r) (f :: r).
Proof. rewrite wmin_R. apply (fold_minF_is_min r [f] f). apply is_min_single. Qed.
Lemma wmax_is_max f r : is_max (@wmax R ROps f r) (f :: r).
Proof. rewrite wmax_R. apply (fold_maxF_is_max r [f] f). apply is_max_single. Qed.

(** the model's re-scan *)
Lemma extent_queue_R q : q <> [] ->
  exists a b, @extent_queue R ROps q = Ok (a, b) /\ is_min a q /\ is_max b q.
Proof.
  intros Hq. destruct q as [|f r]; [contradiction|].
  unfold extent_queue. cbn [front bind].
  set (F := fun (mm : R * R) v => _).
  assert (HF : forall l a b, fold_left F l (a, b) = (fold_left minF l a, fold_left maxF l b)).
  { induction l as [|v l IH]; intros a b; cbn [fold_left]; [reflexivity|].
    unfold F at 2. cbn [fst snd]. rewrite IH. reflexivity. }
  rewrite HF. do 2 eexists. split; [reflexivity|]. split.
  - cbn [fold_left]. replace (minF f f) with f by (destruct (minF_cases f f) as [[_ ->]|[_ ->]]; reflexivity).
    apply (fold_minF_is_min r [f] f). apply is_min_single.
  - cbn [fold_left]. replace (maxF f f) with f by (destruct (maxF_cases f f) as [[_ ->]|[_ ->]]; reflexivity).
    apply (fold_maxF_is_max r [f] f). apply is_max_single.
Qed.

(** * HLNormalizer: invariant *)
Lemma last_lastn n (h : list R) d d' : (1 <= n)%nat -> h <> [] -> last (lastn n h) d = last h d'.
Proof.
  intros Hn Hh. destruct (exists_last Hh) as [h' [x ->]].
  rewrite <- (evict_push_lastn n h' x Hn). rewrite !last_last. reflexivity.
Qed.

Lemma last_cons_default (f : R) r d : last (f :: r) d = last r f.
Proof.
  revert f. induction r as [|a r IH]; intros f; [reflexivity|].
  change (last (f :: a :: r) d) with (last (a :: r) d). rewrite IH.
  destruct r as [|b r]; [reflexivity|]. change (last (a :: b :: r) f) with (last (b :: r) f).
  rewrite <- (IH a), <- (IH f). reflexivity.
Qed.

Lemma lastn_nonempty n (h : list R) : (1 <= n)%nat -> h <> [] -> lastn n h <> [].
Proof.
  intros Hn Hh E. pose proof (lastn_length n h) as Hl. rewrite E in Hl. cbn [length] in Hl.
  destruct h; [contradiction | cbn [length] in Hl; lia].
Qed.

Definition hln_inv (n : nat) (h : list R) (s : @hln_st R) : Prop :=
  hln_q s = lastn n h /\
  hln_init s = (match h with [] => true | _ => false end) /\
  (h <> [] -> is_min (hln_min s) (lastn n h) /\ is_max (hln_max s) (lastn n h) /\ hln_last s = last h 0).

Lemma hln_step_inv n h s v : (1 <= n)%nat -> hln_inv n h s ->
  exists s', @hln_step R ROps n s v = Ok s' /\ hln_inv n (h ++ [v]) s'.
Proof.
  intros Hn (Hq & Hi & Hx). unfold hln_step. rewrite Hq.
  pose proof (evict_push_lastn n h v Hn) as Hev.
  assert (Hne : h ++ [v] <> []) by (destruct h; discriminate).
  assert (Hinit' : (match h ++ [v] with [] => true | _ => false end) = false)
    by (destruct h; reflexivity).
  change (@sgtb R ROps) with (fun a b : R => Rltb b a). change (@sltb R ROps) with Rltb.
  cbv beta.
  destruct (Nat.leb n (length (lastn n h))) eqn:E.
  - (* full window *)
    apply Nat.leb_le in E. rewrite lastn_length in E.
    assert (Hh : h <> []) by (intros ->; cbn in E; lia).
    destruct (Hx Hh) as (Hmin & Hmax & Hlast).
    rewrite Hi. destruct h as [|h0 hr] eqn:Eh; [contradiction|]. rewrite <- Eh in *.
    destruct (lastn_hd_tl n h) as [old Hold]; [lia | lia |].
    rewrite Hold in Hev, Hmin, Hmax |- *. cbn [front bind tl] in *.
    set (t := tl (lastn n h)) in *.
    assert (Hvin : In v (t ++ [v])) by (apply in_or_app; right; left; reflexivity).
    destruct (@sleb R ROps old (hln_min s) || @sgeb R ROps old (hln_max s)) eqn:Eb.
    + (* re-scan *)
      destruct (extent_queue_R (t ++ [v])) as (a & b & Hext & Ha & Hb); [destruct t; discriminate|].
      rewrite Hext. cbn [bind]. eexists; split; [reflexivity|].
      split; [|split]; cbn [hln_q hln_min hln_max hln_last hln_init].
      * exact Hev.
      * symmetry; exact Hinit'.
      * intros _. rewrite <- Hev. fold (minF a v) (maxF b v).
        rewrite (minF_absorb a (t ++ [v]) v Ha Hvin), (maxF_absorb b (t ++ [v]) v Hb Hvin).
        split; [exact Ha | split; [exact Hb|]]. rewrite last_last. reflexivity.
    + (* old is strictly inside: extremes of the tail are unchanged *)
      apply orb_false_iff in Eb. destruct Eb as [E1 E2].
      unfold sgeb in E2. cbn [sleb ROps] in E1, E2. apply Rleb_false in E1, E2.
      cbn [bind]. eexists; split; [reflexivity|].
      split; [|split]; cbn [hln_q hln_min hln_max hln_last hln_init].
      * exact Hev.
      * symmetry; exact Hinit'.
      * intros _. rewrite <- Hev. fold (minF (hln_min s) v) (maxF (hln_max s) v).
        split; [|split].
        -- apply is_min_snoc. apply (is_min_tl _ old); assumption.
        -- apply is_max_snoc. apply (is_max_tl _ old); assumption.
        -- rewrite last_last. reflexivity.
  - (* window not yet full *)
    apply Nat.leb_gt in E. rewrite lastn_length in E.
    cbn [bind]. destruct h as [|h0 hr] eqn:Eh.
    + (* first value *)
      rewrite Hi. cbn [bind]. eexists; split; [reflexivity|].
      split; [|split]; cbn [hln_q hln_min hln_max hln_last hln_init].
      * exact Hev.
      * reflexivity.
      * intros _. rewrite <- Hev. rewrite lastn_nil. cbn [app].
        replace (if Rltb v v then v else v) with v by (destruct (Rltb v v); reflexivity).
        split; [apply is_min_single | split; [apply is_max_single | reflexivity]].
    + rewrite <- Eh in *. assert (Hh : h <> []) by (rewrite Eh; discriminate).
      destruct (Hx Hh) as (Hmin & Hmax & Hlast).
      rewrite Hi, Eh. rewrite <- Eh. cbn [bind]. eexists; split; [reflexivity|].
      split; [|split]; cbn [hln_q hln_min hln_max hln_last hln_init].
      * exact Hev.
      * symmetry; exact Hinit'.
      * intros _. rewrite <- Hev. fold (minF (hln_min s) v) (maxF (hln_max s) v).
        split; [apply is_min_snoc; exact Hmin | split; [apply is_max_snoc; exact Hmax|]].
        rewrite last_last. reflexivity.
Qed.

Lemma s2_R : @s2 R ROps = 2.
Proof. unfold s2. cbn [sofdec ROps]. change (10 ^ Z.of_nat 0)%Z with 1%Z. lra. Qed.

Lemma hln_run n vs : (1 <= n)%nat ->
  exists s, crun (@hln_core R ROps n) vs = Ok s /\ hln_inv n vs s.
Proof.
  intros Hn.
  apply (@crun_inv R (@hln_core R ROps n) (fun _ => True) (hln_inv n)
           {| hln_q := []; hln_min := 0; hln_max := 0; hln_last := 0; hln_init := true |}).
  - reflexivity.
  - split; [reflexivity | split; [reflexivity | intros H; contradiction]].
  - intros h s v _ _ Hi. apply hln_step_inv; assumption.
  - apply Forall_forall; trivial.
Qed.

(** the answer in terms of the extremes of the window *)
Lemma hln_lastf_R s mnx x : hln_min s = fst mnx -> hln_max s = snd mnx -> hln_last s = x ->
  fst mnx <= x <= snd mnx ->
  @hln_lastf R ROps s = Ok (Some (@hl_norm R ROps (fst mnx) (snd mnx) x)).
Proof.
  destruct mnx as [mn mx]. cbn [fst snd]. intros H1 H2 H3 Hb.
  unfold hln_lastf, hl_norm. rewrite H1, H2, H3. clear H1 H2 H3.
  change (@sofdec R ROps 2 0) with (@s2 R ROps). rewrite s2_R. cbn [seqb ssub smul sneg sadd s0 s1 ROps].
  destruct (Reqb mx mn) eqn:E.
  - apply Reqb_true in E. subst mx. assert (x = mn) by lra. subst x.
    replace (Reqb mn mn) with true by (symmetry; apply Reqb_true; reflexivity). reflexivity.
  - apply Reqb_false in E.
    replace (Reqb x mn && Reqb x mx) with false.
    2:{ symmetry. apply andb_false_iff.
        destruct (Reqb x mn) eqn:E1; [|left; reflexivity]. right. apply Reqb_true in E1. subst x.
        apply Reqb_false. intros Heq. apply E. symmetry; exact Heq. }
    rewrite sdiv_R_ok by lra. rewrite sdivd_R by lra. cbn [bind]. do 2 f_equal. field. lra.
Qed.

(** C02: HLNormalizer is 2(x-min)/(max-min)-1 (0 when max=min) over the last n values (all values before n). *)
Theorem hln_closed_form n vs : (1 <= n)%nat -> vs <> [] ->
  cout (@hln_core R ROps n) vs = Ok (@spec_hln R ROps n vs).
Proof.
  intros Hn Hvs. destruct (hln_run n vs Hn) as (s & Hr & Hq & Hi & Hx).
  destruct (Hx Hvs) as (Hmin & Hmax & Hlast).
  unfold cout. rewrite Hr. cbn [bind clast hln_core]. unfold spec_hln.
  pose proof (lastn_nonempty n vs Hn Hvs) as Hw.
  pose proof (last_lastn n vs 0 0 Hn Hvs) as Hll.
  destruct (lastn n vs) as [|f r] eqn:Ew; [contradiction|].
  assert (Hlast' : hln_last s = last r f).
  { rewrite Hlast, <- Hll. apply last_cons_default. }
  apply (hln_lastf_R s (@wmin R ROps f r, @wmax R ROps f r)); cbn [fst snd].
  - apply (is_min_unique _ _ (f :: r)); [exact Hmin | apply wmin_is_min].
  - apply (is_max_unique _ _ (f :: r)); [exact Hmax | apply wmax_is_max].
  - exact Hlast'.
  - assert (Hin : In (last r f) (f :: r)).
    { destruct r as [|r0 rr]; [left; reflexivity|]. right. 
      destruct (@exists_last _ (r0 :: rr)) as [l' [y Hy]]; [discriminate|]. rewrite Hy, last_last.
      apply in_or_app; right; left; reflexivity. }
    split; [apply (proj2 (wmin_is_min f r)) | apply (proj2 (wmax_is_max f r))]; exact Hin.
Qed.

(** before any value the model (like the Rust code, whose [init] state has last = min = max = 0) answers 0 *)
Lemma hln_empty_history n : cout (@hln_core R ROps n) [] = Ok (Some 0).
Proof.
  unfold cout, crun. cbn [hln_core cnew bind cfold clast]. unfold hln_lastf.
  cbn [hln_last hln_min hln_max seqb s0 ROps].
  replace (Reqb 0 0) with true by (symmetry; apply Reqb_true; reflexivity). reflexivity.
Qed.

(** * BinaryEntropy: invariant *)
Lemma count_nonneg_cons x l :
  @count_nonneg R ROps (x :: l) = ((if Rleb 0 x then 1 else 0) + @count_nonneg R ROps l)%nat.
Proof. unfold count_nonneg. cbn [filter]. unfold sgeb. cbn [sleb s0 ROps]. destruct (Rleb 0 x); reflexivity. Qed.
Lemma count_nonneg_app l x :
  @count_nonneg R ROps (l ++ [x]) = (@count_nonneg R ROps l + (if Rleb 0 x then 1 else 0))%nat.
Proof.
  unfold count_nonneg. rewrite filter_app, app_length. cbn [filter]. unfold sgeb. cbn [sleb s0 ROps].
  destruct (Rleb 0 x); reflexivity.
Qed.
Lemma count_nonneg_le l : (@count_nonneg R ROps l <= length l)%nat.
Proof.
  induction l as [|x l IH]; [cbn; lia|]. rewrite count_nonneg_cons. cbn [length]. destruct (Rleb 0 x); lia.
Qed.

Definition be_inv (n : nat) (h : list R) (s : @be_st R) : Prop :=
  be_q s = lastn n h /\ be_p s = @count_nonneg R ROps (lastn n h).

Lemma be_step_inv n h s v : (1 <= n)%nat -> be_inv n h s ->
  exists s', @be_step R ROps n s v = Ok s' /\ be_inv n (h ++ [v]) s'.
Proof.
  intros Hn [Hq Hp]. unfold be_step. rewrite Hq, Hp.
  pose proof (evict_push_lastn n h v Hn) as Hev.
  unfold sgeb. cbn [sleb s0 ROps].
  destruct (Nat.leb n (length (lastn n h))) eqn:E.
  - apply Nat.leb_le in E. rewrite lastn_length in E.
    destruct (lastn_hd_tl n h) as [old Hold]; [lia | lia |].
    rewrite Hold in Hev |- *. cbn [pop_front bind tl] in *. set (t := tl (lastn n h)) in *.
    rewrite count_nonneg_cons.
    destruct (Rleb 0 old).
    + unfold usub. cbn [Nat.add Nat.ltb Nat.leb bind]. 
      eexists; split; [reflexivity|]. split; cbn [be_q be_p]; [exact Hev|].
      rewrite <- Hev, count_nonneg_app. destruct (Rleb 0 v); lia.
    + cbn [bind Nat.add]. eexists; split; [reflexivity|]. split; cbn [be_q be_p]; [exact Hev|].
      rewrite <- Hev, count_nonneg_app. destruct (Rleb 0 v); lia.
  - cbn [bind]. eexists; split; [reflexivity|]. split; cbn [be_q be_p]; [exact Hev|].
    rewrite <- Hev, count_nonneg_app. destruct (Rleb 0 v); lia.
Qed.

Lemma be_run n vs : (1 <= n)%nat ->
  exists s, crun (@entropy_core R ROps n) vs = Ok s /\ be_inv n vs s.
Proof.
  intros Hn.
  apply (@crun_inv R (@entropy_core R ROps n) (fun _ => True) (be_inv n) {| be_q := []; be_p := 0 |}).
  - reflexivity.
  - split; reflexivity.
  - intros h s v _ _ Hi. apply be_step_inv; assumption.
  - apply Forall_forall; trivial.
Qed.

(** the entropy function at [R] *)
Definition H2 (p : R) : R := - (p * (ln p / ln 2) + (1 - p) * (ln (1 - p) / ln 2)).

Lemma binary_entropy_R p : 0 < p < 1 -> @binary_entropy R ROps p = H2 p.
Proof.
  intros Hp. unfold binary_entropy, H2, be_log2d. cbn [seqb s0 s1 slog2 ssub sneg sadd smul ROps].
  replace (Reqb p 0) with false by (symmetry; apply Reqb_false; lra).
  replace (Reqb p 1) with false by (symmetry; apply Reqb_false; lra). cbn [orb].
  destruct (Rle_dec p 0); [lra|]. destruct (Rle_dec (1 - p) 0); [lra|]. reflexivity.
Qed.
Lemma binary_entropy_R_0 : @binary_entropy R ROps 0 = 0.
Proof.
  unfold binary_entropy. cbn [seqb s0 s1 ROps].
  replace (Reqb 0 0) with true by (symmetry; apply Reqb_true; reflexivity). reflexivity.
Qed.
Lemma binary_entropy_R_1 : @binary_entropy R ROps 1 = 0.
Proof.
  unfold binary_entropy. cbn [seqb s0 s1 ROps].
  replace (Reqb 1 1) with true by (symmetry; apply Reqb_true; reflexivity). rewrite orb_true_r. reflexivity.
Qed.

(** C02: BinaryEntropy is the Shannon entropy (bits) of the fraction of non-negative values among the last n. *)
Theorem entropy_closed_form n vs : (1 <= n)%nat ->
  cout (@entropy_core R ROps n) vs = Ok (@spec_entropy R ROps n vs).
Proof.
  intros Hn. destruct (be_run n vs Hn) as (s & Hr & Hq & Hp).
  unfold cout. rewrite Hr. cbn [bind clast entropy_core]. unfold be_last, spec_entropy.
  rewrite Hq, Hp. destruct (lastn n vs) as [|f r] eqn:Ew; [reflexivity|].
  set (w := f :: r) in *. set (k := @count_nonneg R ROps w).
  assert (Hlen : (0 < length w)%nat) by (unfold w; cbn [length]; lia).
  assert (Hk : (k <= length w)%nat) by apply count_nonneg_le.
  assert (HL : 0 < INR (length w)) by (apply lt_0_INR; exact Hlen).
  cbn [sofnat ROps]. rewrite sdiv_R_ok, sdivd_R by lra. cbn [bind].
  destruct (Nat.eqb_spec k 0) as [E0|E0].
  - rewrite E0. cbn [orb INR]. replace (0 / INR (length w)) with 0 by (field; lra).
    rewrite binary_entropy_R_0. cbn [sneg s0 ROps]. rewrite Ropp_0. reflexivity.
  - destruct (Nat.eqb_spec k (length w)) as [E1|E1].
    + rewrite E1. cbn [orb]. replace (INR (length w) / INR (length w)) with 1 by (field; lra).
      rewrite binary_entropy_R_1. cbn [sneg s0 ROps]. rewrite Ropp_0. reflexivity.
    + cbn [orb].
      assert (Hk0 : 0 < INR k) by (apply lt_0_INR; lia).
      assert (Hk1 : INR k < INR (length w)) by (apply lt_INR; lia).
      assert (Hpt : 0 < INR k / INR (length w) < 1).
      { split; [apply Rdiv_lt_0_compat; lra|]. apply (Rmult_lt_reg_r (INR (length w))); [lra|].
        unfold Rdiv. rewrite Rmult_assoc, Rinv_l by lra. lra. }
      rewrite binary_entropy_R by exact Hpt. unfold H2.
      cbn [slog2 ssub sneg sadd smul s1 ROps].
      destruct (Rle_dec (INR k / INR (length w)) 0); [lra|].
      destruct (Rle_dec (1 - INR k / INR (length w)) 0); [lra|]. reflexivity.
Qed.

(** * C07: ranges *)
Lemma hl_norm_range mn mx x : mn <= x <= mx -> -1 <= @hl_norm R ROps mn mx x <= 1.
Proof.
  intros Hb. unfold hl_norm. rewrite s2_R. cbn [seqb ssub smul s0 s1 ROps].
  destruct (Reqb mx mn) eqn:E; [lra|]. apply Reqb_false in E.
  rewrite sdivd_R by lra. assert (Hd : 0 < mx - mn) by lra.
  assert (H0 : 0 <= 2 * (x - mn) / (mx - mn)).
  { apply Rmult_le_pos; [lra|]. left. apply Rinv_0_lt_compat. exact Hd. }
  assert (H1 : 2 * (x - mn) / (mx - mn) <= 2).
  { apply (Rmult_le_reg_r (mx - mn)); [exact Hd|]. unfold Rdiv. rewrite Rmult_assoc, Rinv_l by lra. lra. }
  lra.
Qed.

Lemma In_last_cons (f : R) r : In (last r f) (f :: r).
Proof.
  destruct r as [|r0 rr]; [left; reflexivity|]. right.
  destruct (@exists_last _ (r0 :: rr)) as [l' [y Hy]]; [discriminate|]. rewrite Hy, last_last.
  apply in_or_app; right; left; reflexivity.
Qed.

(** C07: the HLNormalizer output lies in [-1, 1] *)
Theorem hln_range n vs : (1 <= n)%nat -> vs <> [] ->
  exists y, cout (@hln_core R ROps n) vs = Ok (Some y) /\ -1 <= y <= 1.
Proof.
  intros Hn Hvs. rewrite (hln_closed_form n vs Hn Hvs). unfold spec_hln.
  pose proof (lastn_nonempty n vs Hn Hvs) as Hw.
  destruct (lastn n vs) as [|f r]; [contradiction|].
  eexists; split; [reflexivity|]. apply hl_norm_range.
  split; [apply (proj2 (wmin_is_min f r)) | apply (proj2 (wmax_is_max f r))]; apply In_last_cons.
Qed.

Lemma ln_le_minus_1 t : 0 < t -> ln t <= t - 1.
Proof.
  intros Ht. destruct (Req_dec (ln t) 0) as [E|E].
  - assert (t = 1) by (rewrite <- (exp_ln t Ht), E; apply exp_0). lra.
  - pose proof (exp_ineq1 (ln t) E) as H. rewrite (exp_ln t Ht) in H. lra.
Qed.

Lemma ln2_pos : 0 < ln 2.
Proof. rewrite <- ln_1. apply ln_increasing; lra. Qed.

Lemma H2_range p : 0 < p < 1 -> 0 <= H2 p <= 1.
Proof.
  intros [Hp0 Hp1]. pose proof ln2_pos as HL.
  assert (Ha : ln p < 0) by (rewrite <- ln_1; apply ln_increasing; lra).
  assert (Hb : ln (1 - p) < 0) by (rewrite <- ln_1; apply ln_increasing; lra).
  assert (Hup : - (p * ln p + (1 - p) * ln (1 - p)) <= ln 2).
  { assert (H1 : p * ln (/ (2 * p)) <= p * (/ (2 * p) - 1)).
    { apply Rmult_le_compat_l; [lra|]. apply ln_le_minus_1. apply Rinv_0_lt_compat. lra. }
    assert (H2' : (1 - p) * ln (/ (2 * (1 - p))) <= (1 - p) * (/ (2 * (1 - p)) - 1)).
    { apply Rmult_le_compat_l; [lra|]. apply ln_le_minus_1. apply Rinv_0_lt_compat. lra. }
    rewrite ln_Rinv, ln_mult in H1, H2' by lra.
    replace (p * (/ (2 * p) - 1)) with (1 / 2 - p) in H1 by (field; lra).
    replace ((1 - p) * (/ (2 * (1 - p)) - 1)) with (p - 1 / 2) in H2' by (field; lra).
    lra. }
  assert (Hlo : 0 <= - (p * ln p + (1 - p) * ln (1 - p))).
  { assert (0 <= p * - ln p) by (apply Rmult_le_pos; lra).
    assert (0 <= (1 - p) * - ln (1 - p)) by (apply Rmult_le_pos; lra).
    lra. }
  replace (H2 p) with (- (p * ln p + (1 - p) * ln (1 - p)) / ln 2) by (unfold H2; field; lra).
  set (X := - (p * ln p + (1 - p) * ln (1 - p))) in *. clearbody X. split.
  - apply Rmult_le_pos; [exact Hlo|]. left. apply Rinv_0_lt_compat. exact HL.
  - apply (Rmult_le_reg_r (ln 2)); [exact HL|]. unfold Rdiv. rewrite Rmult_assoc, Rinv_l by lra. lra.
Qed.

Lemma binary_entropy_range p : 0 <= p <= 1 -> 0 <= @binary_entropy R ROps p <= 1.
Proof.
  intros [H0 H1]. destruct (Req_dec p 0) as [->|Hn0]; [rewrite binary_entropy_R_0; lra|].
  destruct (Req_dec p 1) as [->|Hn1]; [rewrite binary_entropy_R_1; lra|].
  rewrite binary_entropy_R by lra. apply H2_range. lra.
Qed.

Lemma frac_nonneg_range (w : list R) : w <> [] ->
  0 <= INR (@count_nonneg R ROps w) / INR (length w) <= 1.
Proof.
  intros Hw. assert (Hlen : (0 < length w)%nat) by (destruct w; [contradiction | cbn [length]; lia]).
  assert (HL : 0 < INR (length w)) by (apply lt_0_INR; exact Hlen).
  pose proof (le_INR _ _ (count_nonneg_le w)) as Hk. pose proof (pos_INR (@count_nonneg R ROps w)) as Hk0.
  split.
  - apply Rmult_le_pos; [exact Hk0|]. left. apply Rinv_0_lt_compat. exact HL.
  - apply (Rmult_le_reg_r (INR (length w))); [exact HL|]. unfold Rdiv. rewrite Rmult_assoc, Rinv_l by lra. lra.
Qed.

(** C07: the BinaryEntropy output lies in [0, 1] *)
Theorem entropy_range n vs : (1 <= n)%nat -> vs <> [] ->
  exists y, cout (@entropy_core R ROps n) vs = Ok (Some y) /\ 0 <= y <= 1.
Proof.
  intros Hn Hvs. rewrite (entropy_closed_form n vs Hn). unfold spec_entropy.
  pose proof (lastn_nonempty n vs Hn Hvs) as Hw.
  destruct (lastn n vs) as [|f r] eqn:Ew; [contradiction|].
  eexists; split; [reflexivity|]. cbn [sofnat ROps].
  assert (HL : 0 < INR (length (f :: r))) by (apply lt_0_INR; cbn [length]; lia).
  rewrite sdivd_R by lra. apply binary_entropy_range. apply frac_nonneg_range. discriminate.
Qed.
(** on the empty history BinaryEntropy has no value *)
Lemma entropy_empty_history n : cout (@entropy_core R ROps n) [] = Ok None.
Proof. reflexivity. Qed.

(** * C03: finite memory, K = n *)
Lemma spec_hln_suffix n (p s : list R) : (n <= length s)%nat ->
  @spec_hln R ROps n (p ++ s) = @spec_hln R ROps n s.
Proof. intros H. unfold spec_hln. rewrite lastn_app_suffix by exact H. reflexivity. Qed.
Lemma spec_entropy_suffix n (p s : list R) : (n <= length s)%nat ->
  @spec_entropy R ROps n (p ++ s) = @spec_entropy R ROps n s.
Proof. intros H. unfold spec_entropy. rewrite lastn_app_suffix by exact H. reflexivity. Qed.

(** C03: the HLNormalizer answer depends on the last n values only *)
Theorem hln_finite_memory n p p' s : (1 <= n)%nat -> (n <= length s)%nat ->
  cout (@hln_core R ROps n) (p ++ s) = cout (@hln_core R ROps n) (p' ++ s).
Proof.
  intros Hn Hs. assert (Hne : forall q : list R, q ++ s <> []).
  { intros q E. apply app_eq_nil in E. destruct E as [_ ->]. cbn [length] in Hs. lia. }
  rewrite !hln_closed_form by (try exact Hn; apply Hne). rewrite !spec_hln_suffix by exact Hs. reflexivity.
Qed.

(** C03: the BinaryEntropy answer depends on the last n values only *)
Theorem entropy_finite_memory n p p' s : (1 <= n)%nat -> (n <= length s)%nat ->
  cout (@entropy_core R ROps n) (p ++ s) = cout (@entropy_core R ROps n) (p' ++ s).
Proof.
  intros Hn Hs. rewrite !entropy_closed_form by exact Hn. rewrite !spec_entropy_suffix by exact Hs. reflexivity.
Qed.

(** * C12: invariances *)
Lemma lastn_map {A B} (g : A -> B) n l : lastn n (map g l) = map g (lastn n l).
Proof. unfold lastn. rewrite map_length. apply skipn_map. Qed.

Lemma last_map_R (g : R -> R) r f : last (map g r) (g f) = g (last r f).
Proof.
  revert f. induction r as [|a r IH]; intros f; [reflexivity|].
  cbn [map]. rewrite (last_cons_default a r f), (last_cons_default (g a) (map g r) (g f)). apply IH.
Qed.

Lemma is_min_map_mono g m l : (forall x y, x <= y -> g x <= g y) -> is_min m l -> is_min (g m) (map g l).
Proof.
  intros Hg [Hi Hl]. split; [apply in_map; exact Hi|].
  intros y Hy. apply in_map_iff in Hy. destruct Hy as (x & <- & Hx). apply Hg, Hl, Hx.
Qed.
Lemma is_max_map_mono g m l : (forall x y, x <= y -> g x <= g y) -> is_max m l -> is_max (g m) (map g l).
Proof.
  intros Hg [Hi Hl]. split; [apply in_map; exact Hi|].
  intros y Hy. apply in_map_iff in Hy. destruct Hy as (x & <- & Hx). apply Hg, Hl, Hx.
Qed.
Lemma is_min_map_anti g m l : (forall x y, x <= y -> g y <= g x) -> is_min m l -> is_max (g m) (map g l).
Proof.
  intros Hg [Hi Hl]. split; [apply in_map; exact Hi|].
  intros y Hy. apply in_map_iff in Hy. destruct Hy as (x & <- & Hx). apply Hg, Hl, Hx.
Qed.
Lemma is_max_map_anti g m l : (forall x y, x <= y -> g y <= g x) -> is_max m l -> is_min (g m) (map g l).
Proof.
  intros Hg [Hi Hl]. split; [apply in_map; exact Hi|].
  intros y Hy. apply in_map_iff in Hy. destruct Hy as (x & <- & Hx). apply Hg, Hl, Hx.
Qed.

Lemma wmin_map_mono g f r : (forall x y, x <= y -> g x <= g y) ->
  @wmin R ROps (g f) (map g r) = g (@wmin R ROps f r).
Proof.
  intros Hg. apply (is_min_unique _ _ (g f :: map g r)); [apply wmin_is_min|].
  apply (is_min_map_mono g _ (f :: r) Hg), wmin_is_min.
Qed.
Lemma wmax_map_mono g f r : (forall x y, x <= y -> g x <= g y) ->
  @wmax R ROps (g f) (map g r) = g (@wmax R ROps f r).
Proof.
  intros Hg. apply (is_max_unique _ _ (g f :: map g r)); [apply wmax_is_max|].
  apply (is_max_map_mono g _ (f :: r) Hg), wmax_is_max.
Qed.
Lemma wmin_map_anti g f r : (forall x y, x <= y -> g y <= g x) ->
  @wmin R ROps (g f) (map g r) = g (@wmax R ROps f r).
Proof.
  intros Hg. apply (is_min_unique _ _ (g f :: map g r)); [apply wmin_is_min|].
  apply (is_max_map_anti g _ (f :: r) Hg), wmax_is_max.
Qed.
Lemma wmax_map_anti g f r : (forall x y, x <= y -> g y <= g x) ->
  @wmax R ROps (g f) (map g r) = g (@wmin R ROps f r).
Proof.
  intros Hg. apply (is_max_unique _ _ (g f :: map g r)); [apply wmax_is_max|].
  apply (is_min_map_anti g _ (f :: r) Hg), wmin_is_min.
Qed.

Lemma hl_norm_affine a b mn mx x : 0 < a ->
  @hl_norm R ROps (a * mn + b) (a * mx + b) (a * x + b) = @hl_norm R ROps mn mx x.
Proof.
  intros Ha. unfold hl_norm. rewrite s2_R. cbn [seqb ssub smul s0 s1 ROps].
  destruct (Reqb mx mn) eqn:E.
  - apply Reqb_true in E. subst mx.
    replace (Reqb (a * mn + b) (a * mn + b)) with true by (symmetry; apply Reqb_true; reflexivity). reflexivity.
  - apply Reqb_false in E. assert (Hd : a * (mx - mn) <> 0) by (apply Rmult_integral_contrapositive_currified; lra).
    replace (Reqb (a * mx + b) (a * mn + b)) with false by (symmetry; apply Reqb_false; lra).
    rewrite !sdivd_R by lra. field. split; lra.
Qed.
Lemma hl_norm_neg mn mx x : @hl_norm R ROps (- mx) (- mn) (- x) = - @hl_norm R ROps mn mx x.
Proof.
  unfold hl_norm. rewrite s2_R. cbn [seqb ssub smul s0 s1 ROps].
  destruct (Reqb mx mn) eqn:E.
  - apply Reqb_true in E. subst mx.
    replace (Reqb (- mn) (- mn)) with true by (symmetry; apply Reqb_true; reflexivity). lra.
  - apply Reqb_false in E.
    replace (Reqb (- mn) (- mx)) with false by (symmetry; apply Reqb_false; lra).
    rewrite !sdivd_R by lra. field. lra.
Qed.

Lemma spec_hln_affine n a b vs : 0 < a ->
  @spec_hln R ROps n (map (fun x => a * x + b) vs) = @spec_hln R ROps n vs.
Proof.
  intros Ha. unfold spec_hln. set (g := fun x => a * x + b).
  rewrite lastn_map. destruct (lastn n vs) as [|f r]; [reflexivity|]. cbn [map].
  assert (Hg : forall x y, x <= y -> g x <= g y).
  { intros x y Hxy. unfold g. apply Rplus_le_compat_r, Rmult_le_compat_l; lra. }
  rewrite (wmin_map_mono g f r Hg), (wmax_map_mono g f r Hg), (last_map_R g r f).
  unfold g. rewrite hl_norm_affine by exact Ha. reflexivity.
Qed.
Lemma spec_hln_neg n vs :
  @spec_hln R ROps n (map Ropp vs) = option_map Ropp (@spec_hln R ROps n vs).
Proof.
  unfold spec_hln. rewrite lastn_map. destruct (lastn n vs) as [|f r]; [reflexivity|].
  cbn [map option_map].
  assert (Hg : forall x y, x <= y -> - y <= - x) by (intros; lra).
  rewrite (wmin_map_anti Ropp f r Hg), (wmax_map_anti Ropp f r Hg), (last_map_R Ropp r f).
  rewrite hl_norm_neg. reflexivity.
Qed.

(** C12: HLNormalizer is unchanged under x -> a*x+b with a > 0 *)
Theorem hln_affine_invariant n a b vs : (1 <= n)%nat -> 0 < a ->
  cout (@hln_core R ROps n) (map (fun x => a * x + b) vs) = cout (@hln_core R ROps n) vs.
Proof.
  intros Hn Ha. destruct vs as [|v vs]; [reflexivity|].
  rewrite !hln_closed_form by (try exact Hn; discriminate). rewrite spec_hln_affine by exact Ha. reflexivity.
Qed.

(** C12: HLNormalizer is negated under x -> -x (both answers are 0 on a flat window, and -0 = 0) *)
Theorem hln_negation n vs : (1 <= n)%nat -> vs <> [] ->
  exists y, cout (@hln_core R ROps n) vs = Ok (Some y) /\
            cout (@hln_core R ROps n) (map Ropp vs) = Ok (Some (- y)).
Proof.
  intros Hn Hvs. assert (Hvs' : map Ropp vs <> []) by (destruct vs; [contradiction | discriminate]).
  rewrite !hln_closed_form by assumption. rewrite spec_hln_neg.
  unfold spec_hln. pose proof (lastn_nonempty n vs Hn Hvs) as Hw.
  destruct (lastn n vs) as [|f r]; [contradiction|]. eexists; split; reflexivity.
Qed.

Lemma count_nonneg_scale a l : 0 < a ->
  @count_nonneg R ROps (map (fun x => a * x) l) = @count_nonneg R ROps l.
Proof.
  intros Ha. induction l as [|x l IH]; [reflexivity|]. cbn [map]. rewrite !count_nonneg_cons, IH.
  f_equal. destruct (Rleb 0 x) eqn:E.
  - apply Rleb_true in E. replace (Rleb 0 (a * x)) with true; [reflexivity|].
    symmetry. apply Rleb_true. apply Rmult_le_pos; lra.
  - apply Rleb_false in E. replace (Rleb 0 (a * x)) with false; [reflexivity|].
    symmetry. apply Rleb_false. rewrite <- (Rmult_0_r a). apply Rmult_lt_compat_l; lra.
Qed.

Lemma spec_entropy_nonempty n (h : list R) : lastn n h <> [] ->
  @spec_entropy R ROps n h =
  Some (@binary_entropy R ROps (@sdivd R ROps (INR (@count_nonneg R ROps (lastn n h))) (INR (length (lastn n h))))).
Proof. intros H. unfold spec_entropy. destruct (lastn n h); [contradiction | reflexivity]. Qed.

(** C12: BinaryEntropy is unchanged under x -> a*x with a > 0 *)
Theorem entropy_scale_invariant n a vs : (1 <= n)%nat -> 0 < a ->
  cout (@entropy_core R ROps n) (map (fun x => a * x) vs) = cout (@entropy_core R ROps n) vs.
Proof.
  intros Hn Ha. rewrite !entropy_closed_form by exact Hn.
  destruct (lastn n vs) as [|f r] eqn:Ew.
  - unfold spec_entropy. rewrite lastn_map, Ew. reflexivity.
  - rewrite !spec_entropy_nonempty; rewrite ?lastn_map, ?Ew; try discriminate.
    rewrite count_nonneg_scale by exact Ha. rewrite map_length. reflexivity.
Qed.

(** * C16 (exact half): a flat window gives 0 *)
Theorem hln_flat_window n c vs : (1 <= n)%nat -> vs <> [] ->
  (forall x, In x (lastn n vs) -> x = c) ->
  cout (@hln_core R ROps n) vs = Ok (Some 0).
Proof.
  intros Hn Hvs Hc. rewrite hln_closed_form by assumption. unfold spec_hln.
  pose proof (lastn_nonempty n vs Hn Hvs) as Hw.
  destruct (lastn n vs) as [|f r]; [contradiction|].
  rewrite (Hc _ (proj1 (wmin_is_min f r))), (Hc _ (proj1 (wmax_is_max f r))).
  unfold hl_norm. cbn [seqb s0 ROps].
  replace (Reqb c c) with true by (symmetry; apply Reqb_true; reflexivity). reflexivity.
Qed.

(** * Examples: the hypotheses are satisfiable, and concrete values *)
Ltac decide_Rb :=
  repeat match goal with
  | |- context [Rltb ?a ?b] =>
      first [ replace (Rltb a b) with true by (symmetry; apply Rltb_true; lra)
            | replace (Rltb a b) with false by (symmetry; apply Rltb_false; lra) ]
  | |- context [Reqb ?a ?b] =>
      first [ replace (Reqb a b) with true by (symmetry; apply Reqb_true; lra)
            | replace (Reqb a b) with false by (symmetry; apply Reqb_false; lra) ]
  end.

(** window [3; 2]: min 2, max 3, newest 2 *)
Example hln_closed_form_ex : cout (@hln_core R ROps 2) [1; 3; 2] = Ok (Some (-1)).
Proof.
  rewrite hln_closed_form by (try lia; discriminate).
  unfold spec_hln, lastn. cbn [length Nat.sub skipn last]. unfold wmin, wmax, hl_norm, sgtb. rewrite s2_R.
  cbn [fold_left sltb seqb ssub smul s0 s1 ROps]. decide_Rb. rewrite sdivd_R by lra. do 2 f_equal. lra.
Qed.

(** the Rust unit test: [-1, 1, -1, 1] with n = 4 has entropy 1 *)
Example entropy_closed_form_ex : cout (@entropy_core R ROps 4) [-1; 1; -1; 1] = Ok (Some 1).
Proof.
  rewrite entropy_closed_form by lia. rewrite spec_entropy_nonempty by (unfold lastn; cbn; discriminate).
  unfold lastn. cbn [length Nat.sub skipn]. rewrite !count_nonneg_cons.
  replace (Rleb 0 (-1)) with false by (symmetry; apply Rleb_false; lra).
  replace (Rleb 0 1) with true by (symmetry; apply Rleb_true; lra).
  change (@count_nonneg R ROps []) with 0%nat. cbn [Nat.add].
  rewrite sdivd_R by (cbn [INR]; lra).
  replace (INR 2 / INR 4) with (/ 2) by (cbn [INR]; lra).
  rewrite binary_entropy_R by lra. unfold H2. replace (1 - / 2) with (/ 2) by lra.
  rewrite ln_Rinv by lra. pose proof ln2_pos. do 2 f_equal. field. lra.
Qed.

Example hln_range_ex : exists y, cout (@hln_core R ROps 2) [1; 3; 2] = Ok (Some y) /\ -1 <= y <= 1.
Proof. apply hln_range; [lia | discriminate]. Qed.
Example entropy_range_ex : exists y, cout (@entropy_core R ROps 4) [-1; 1; -1; 1] = Ok (Some y) /\ 0 <= y <= 1.
Proof. apply entropy_range; [lia | discriminate]. Qed.
Example hln_finite_memory_ex :
  cout (@hln_core R ROps 2) ([5] ++ [1; 2]) = cout (@hln_core R ROps 2) ([7; 8] ++ [1; 2]).
Proof. apply hln_finite_memory; cbn [length]; lia. Qed.
Example entropy_finite_memory_ex :
  cout (@entropy_core R ROps 2) ([5] ++ [1; -2]) = cout (@entropy_core R ROps 2) ([-7; 8] ++ [1; -2]).
Proof. apply entropy_finite_memory; cbn [length]; lia. Qed.
Example hln_affine_invariant_ex :
  cout (@hln_core R ROps 2) (map (fun x => 3 * x + 1) [1; 3; 2]) = cout (@hln_core R ROps 2) [1; 3; 2].
Proof. apply hln_affine_invariant; [lia | lra]. Qed.
Example hln_negation_ex : exists y, cout (@hln_core R ROps 2) [1; 3; 2] = Ok (Some y) /\
  cout (@hln_core R ROps 2) (map Ropp [1; 3; 2]) = Ok (Some (- y)).
Proof. apply hln_negation; [lia | discriminate]. Qed.
Example entropy_scale_invariant_ex :
  cout (@entropy_core R ROps 2) (map (fun x => 3 * x) [1; -3; 2]) = cout (@entropy_core R ROps 2) [1; -3; 2].
Proof. apply entropy_scale_invariant; [lia | lra]. Qed.
Example hln_flat_window_ex : cout (@hln_core R ROps 2) [1; 4; 4] = Ok (Some 0).
Proof.
  apply (hln_flat_window 2 4); [lia | discriminate |].
  unfold lastn. cbn [length Nat.sub skipn]. intros x [<-|[<-|[]]]; reflexivity.
Qed.

(** * Sanity: the specifications are executable, and agree with the model run at [Q] (syntactically) on every
      prefix of a test history, for several window lengths *)
Definition hlnp_prefixes {A} (l : list A) : list (list A) := map (fun k => firstn k l) (seq 1 (length l)).
Definition hlnp_dataQ : list QArith_base.Q :=
  map QArith_base.inject_Z [1; 5; 2; 2; 7; -1; -1; -1; 0; 3; -4; -4; 9; 2]%Z.
Example spec_hln_agrees_at_Q :
  map (fun n => map (cout (@hln_core _ QOps n)) (hlnp_prefixes hlnp_dataQ)) [1; 2; 3; 5; 20]%nat =
  map (fun n => map (fun h => Ok (@spec_hln _ QOps n h)) (hlnp_prefixes hlnp_dataQ)) [1; 2; 3; 5; 20]%nat.
Proof. vm_compute. reflexivity. Qed.
Example spec_entropy_agrees_at_Q :
  map (fun n => map (cout (@entropy_core _ QOps n)) (hlnp_prefixes hlnp_dataQ)) [1; 2; 3; 5; 20]%nat =
  map (fun n => map (fun h => Ok (@spec_entropy _ QOps n h)) (hlnp_prefixes hlnp_dataQ)) [1; 2; 3; 5; 20]%nat.
Proof. vm_compute. reflexivity. Qed.

Print Assumptions hln_closed_form.
Print Assumptions entropy_closed_form.
Print Assumptions hln_range.
Print Assumptions entropy_range.
Print Assumptions hln_finite_memory.
Print Assumptions entropy_finite_memory.
Print Assumptions hln_affine_invariant.
Print Assumptions hln_negation.
Print Assumptions entropy_scale_invariant.
Print Assumptions hln_flat_window.
