(** C12, floating-point half ("... and BIT-EXACTLY in f64 for a a power of two"): summary file.

    Pow2Base.v   the rounded instance [RndOps rnd cnat cdec], scaling lemmas, generic simulation, tactics
    Pow2Lin.v    Sma Cumulative Ema Min Max                                   scale by sc       (abstract rnd)
    Pow2Lin2.v   WelfordRolling SuperSmoother Laguerre Roofing CyberCycle Alma  scale by sc
    Pow2Free.v   Rsi MyRSI Roc HLNormalizer CenterOfGravity                   bit-identical
    Pow2Free2.v  Drawdown LnReturn BinaryEntropy LaguerreRSI TrendFlex ReFlex bit-identical
    Pow2Sqrt.v   WelfordOnline (std, mean, variance), Vst, Vsct
    Pow2Extra.v  NET, CTI (not in the list of C12)                            bit-identical
    Pow2Flx.v    (H1) for Flocq's FLX format and sc = radix^k; the instance [FlxOps prec]; binary64 = FLT
    this file    the resulting [*_pow2_flx] theorems (radix 2, round to nearest even, any precision, sc = 2^k, k : Z)

    Reading of the statements: [x2 vs] is the history with every input multiplied by 2^k;
    [o2 r] maps [Ok (Some o)] to [Ok (Some (2^k * o))], [Ok None] to [Ok None], [Err e] to [Err e].
    The equalities are equalities of real numbers that ARE the floating-point results, i.e. bit-exact.
    No guard is needed (window sizes, lengths, zero divisors...): whatever the original run does -- answer,
    no answer yet, error -- the scaled run does the same.

    FLX is binary64 without underflow/overflow (Pow2Flx.v: [b64_round_flx], [b64_round_not_pow2_invariant]). *)
From Coq Require Import List Arith Lia Reals Lra ZArith Bool.
From SF Require Import Res Scalar View Models Core SpecPow2.
From SF.Proofs Require Import FltErr Pow2Base Pow2Lin Pow2Lin2 Pow2Free Pow2Free2 Pow2Sqrt Pow2Extra Pow2Flx.
From Flocq Require Import Core.
Import ListNotations.
Open Scope R_scope.

(** the executable specification functions of SpecPow2.v, at the reals, are the [map (Rmult a)] / [rmap (sco a)]
    used in the statements *)
Lemma spec_scale_hist_R a vs : @spec_scale_hist R ROps a vs = map (Rmult a) vs.
Proof. reflexivity. Qed.
Lemma spec_scale_res_R a r : @spec_scale_res R ROps a r = rmap (sco a) r.
Proof. destruct r as [[x|]|e]; reflexivity. Qed.

Section Pow2Flx.
Variable prec : Z.       (* 53 for binary64; no hypothesis on prec is needed *)
Variable k : Z.          (* scaling factor 2^k, k of either sign *)
Notation FO := (FlxOps prec).
Notation p2 := (bpow radix2 k).
Notation x2 := (map (Rmult (bpow radix2 k))).            (* the scaled history *)
Notation o2 := (rmap (sco (bpow radix2 k))).             (* the scaled answer: Ok (Some (2^k * o)) / Ok None / Err e *)

Ltac flx := first [ apply flx_rnd_pow2 | apply pow2_pos ].

(** 1. value-like views: the answer on the scaled history is 2^k times the answer, bit for bit *)
Theorem sma_pow2_flx n vs : cout (@sma_core R FO n) (x2 vs) = o2 (cout (@sma_core R FO n) vs).
Proof. apply sma_scales; flx. Qed.
Theorem ema_pow2_flx n vs : cout (@ema_core R FO n) (x2 vs) = o2 (cout (@ema_core R FO n) vs).
Proof. apply ema_scales; flx. Qed.
Theorem ema_alpha_pow2_flx n alpha vs :
  cout (@ema_core_alpha R FO n alpha) (x2 vs) = o2 (cout (@ema_core_alpha R FO n alpha) vs).
Proof. apply ema_alpha_scales; flx. Qed.
Theorem cumulative_pow2_flx n vs : cout (@cumulative_core R FO n) (x2 vs) = o2 (cout (@cumulative_core R FO n) vs).
Proof. apply cumulative_scales; flx. Qed.
Theorem min_pow2_flx n vs : cout (@min_core R FO n) (x2 vs) = o2 (cout (@min_core R FO n) vs).
Proof. apply min_scales; flx. Qed.
Theorem max_pow2_flx n vs : cout (@max_core R FO n) (x2 vs) = o2 (cout (@max_core R FO n) vs).
Proof. apply max_scales; flx. Qed.

(** 2. scale-free views: the answer on the scaled history is the same, bit for bit *)
Theorem rsi_pow2_flx n vs : cout (@rsi_core R FO n) (x2 vs) = cout (@rsi_core R FO n) vs.
Proof. apply rsi_scale_free; flx. Qed.
Theorem myrsi_pow2_flx n vs : cout (@myrsi_core R FO n) (x2 vs) = cout (@myrsi_core R FO n) vs.
Proof. apply myrsi_scale_free; flx. Qed.
Theorem roc_pow2_flx n vs : cout (@roc_core R FO n) (x2 vs) = cout (@roc_core R FO n) vs.
Proof. apply roc_scale_free; flx. Qed.
Theorem hln_pow2_flx n vs : cout (@hln_core R FO n) (x2 vs) = cout (@hln_core R FO n) vs.
Proof. apply hln_scale_free; flx. Qed.
Theorem cog_pow2_flx n vs : cout (@cog_core R FO n) (x2 vs) = cout (@cog_core R FO n) vs.
Proof. apply cog_scale_free; flx. Qed.

(** 3. views with a square root *)
Theorem welford_pow2_flx n vs : cout (@welford_core R FO n) (x2 vs) = o2 (cout (@welford_core R FO n) vs).
Proof. apply welford_scales; flx. Qed.
Theorem welford_mean_pow2_flx n vs : cout (@welford_mean_core R FO n) (x2 vs) = o2 (cout (@welford_mean_core R FO n) vs).
Proof. apply welford_mean_scales; flx. Qed.
Theorem welford_var_pow2_flx n vs :
  cout (@welford_var_core R FO n) (x2 vs)
  = rmap (option_map (fun x => p2 * (p2 * x))) (cout (@welford_var_core R FO n) vs).
Proof. apply welford_var_scales; flx. Qed.
Theorem vst_pow2_flx n vs sd : cout (@welford_core R FO n) vs = Ok (Some sd) -> sd <> 0 ->
  cout (@vst_core R FO n) (x2 vs) = cout (@vst_core R FO n) vs.
Proof. apply vst_scale_free; flx. Qed.
Theorem vst_flat_pow2_flx n vs : cout (@welford_core R FO n) vs = Ok (Some 0) ->
  cout (@vst_core R FO n) (x2 vs) = o2 (cout (@vst_core R FO n) vs).
Proof. apply vst_flat_scales; flx. Qed.
Theorem vsct_pow2_flx n vs : cout (@vsct_core R FO n) (x2 vs) = cout (@vsct_core R FO n) vs.
Proof. apply vsct_scale_free; flx. Qed.

(** more value-like views *)
Theorem alma_pow2_flx n vs : cout (@alma_core R FO n) (x2 vs) = o2 (cout (@alma_core R FO n) vs).
Proof. apply alma_scales; flx. Qed.
Theorem alma_custom_pow2_flx n sigma offset vs :
  cout (@alma_core_custom R FO n sigma offset) (x2 vs) = o2 (cout (@alma_core_custom R FO n sigma offset) vs).
Proof. apply alma_custom_scales; flx. Qed.
Theorem ss_pow2_flx n vs : cout (@ss_core R FO n) (x2 vs) = o2 (cout (@ss_core R FO n) vs).
Proof. apply ss_scales; flx. Qed.
Theorem laguerre_pow2_flx g vs : cout (@laguerre_core R FO g) (x2 vs) = o2 (cout (@laguerre_core R FO g) vs).
Proof. apply laguerre_scales; flx. Qed.
Theorem roofing_pow2_flx n m vs : cout (@roofing_core R FO n m) (x2 vs) = o2 (cout (@roofing_core R FO n m) vs).
Proof. apply roofing_scales; flx. Qed.
Theorem cyber_pow2_flx n vs : cout (@cyber_core R FO n) (x2 vs) = o2 (cout (@cyber_core R FO n) vs).
Proof. apply cyber_scales; flx. Qed.
Theorem wrolling_pow2_flx vs : cout (@wrolling_core R FO) (x2 vs) = o2 (cout (@wrolling_core R FO) vs).
Proof. apply wrolling_scales; flx. Qed.
Theorem wrolling_mean_pow2_flx vs : cout (@wrolling_mean_core R FO) (x2 vs) = o2 (cout (@wrolling_mean_core R FO) vs).
Proof. apply wrolling_mean_scales; flx. Qed.

(** more scale-free views *)
Theorem drawdown_pow2_flx vs : cout (@drawdown_core R FO) (x2 vs) = cout (@drawdown_core R FO) vs.
Proof. apply drawdown_scale_free; flx. Qed.
Theorem lnret_pow2_flx vs : cout (@lnret_core R FO) (x2 vs) = cout (@lnret_core R FO) vs.
Proof. apply lnret_scale_free; flx. Qed.
Theorem entropy_pow2_flx n vs : cout (@entropy_core R FO n) (x2 vs) = cout (@entropy_core R FO n) vs.
Proof. apply entropy_scale_free; flx. Qed.
Theorem lrsi_pow2_flx n vs : cout (@lrsi_core R FO n) (x2 vs) = cout (@lrsi_core R FO n) vs.
Proof. apply lrsi_scale_free; flx. Qed.
Theorem trendflex_pow2_flx n vs : cout (@trendflex_core R FO n) (x2 vs) = cout (@trendflex_core R FO n) vs.
Proof. apply trendflex_scale_free; flx. Qed.
Theorem reflex_pow2_flx n vs : cout (@reflex_core R FO n) (x2 vs) = cout (@reflex_core R FO n) vs.
Proof. apply reflex_scale_free; flx. Qed.
(** two views outside the list of C12 *)
Theorem net_pow2_flx n vs : cout (@net_core R FO n) (x2 vs) = cout (@net_core R FO n) vs.
Proof. apply net_scale_free; flx. Qed.
Theorem cti_pow2_flx n vs : cout (@cti_core R FO n) (x2 vs) = cout (@cti_core R FO n) vs.
Proof. apply cti_scale_free; flx. Qed.
End Pow2Flx.


(* ------------------------------------------------------------------------------------------ *)
(** * The hypotheses are satisfiable *)

(** (H1), (H2): exact arithmetic with any positive factor; FLX with a power of two of either sign *)
Example hyp_exact_ex : (forall x : R, (fun y : R => y) (3 * x) = 3 * (fun y : R => y) x) /\ 0 < 3.
Proof. split; [reflexivity | lra]. Qed.
Example hyp_flx_ex : (forall x, flx_rnd 53 (bpow radix2 (-7) * x) = bpow radix2 (-7) * flx_rnd 53 x) /\ 0 < bpow radix2 (-7).
Proof. split; [apply flx_rnd_pow2 | apply pow2_pos]. Qed.

Lemma flx_rnd_IZR z : (Z.abs z < 2 ^ 53)%Z -> flx_rnd 53 (IZR z) = IZR z.
Proof.
  intros Hz. unfold flx_rnd. apply round_generic; [apply valid_rnd_N|].
  replace (IZR z) with (F2R (Float radix2 z 0)) by (unfold F2R; cbn; lra).
  apply generic_format_FLX. exists (Float radix2 z 0); [reflexivity | exact Hz].
Qed.

(** the hypothesis of [vst_pow2_flx] (a non-flat window): window 2, history 1, 3: the standard deviation is fl(sqrt 2) *)
Example vst_hyp_ex : exists sd, cout (@welford_core R (FlxOps 53) 2) [1; 3] = Ok (Some sd) /\ sd <> 0.
Proof.
  assert (R0 : flx_rnd 53 0 = 0) by (apply (flx_rnd_IZR 0); reflexivity).
  assert (R1 : flx_rnd 53 1 = 1) by (apply (flx_rnd_IZR 1); reflexivity).
  assert (R2 : flx_rnd 53 2 = 2) by (apply (flx_rnd_IZR 2); reflexivity).
  exists (flx_rnd 53 (sqrt 2)). split.
  - unfold cout, crun. cbn [cnew welford_core wo_new assert Nat.ltb Nat.leb bind cfold cstep clast].
    unfold wo_step. cbn [wo_q wo_mean wo_m2 wo_count app length Nat.ltb Nat.leb bind].
    unfold wo_add. cbn [Nat.add]. unfold FlxOps. cbn [s0 s1 sadd ssub smul sdiv sofnat RndOps INR].
    assert (N10 : Reqb 1 0 = false) by (apply Reqb_false; lra).
    assert (N20 : Reqb 2 0 = false) by (apply Reqb_false; lra).
    unfold rdiv_res at 1. rewrite Rminus_0_r, R1, N10. cbn [bind].
    replace (1 / 1) with 1 by lra. rewrite R1, Rplus_0_l, R1.
    replace (1 - 1) with 0 by lra. rewrite R0, Rmult_0_r, R0, Rplus_0_l, R0.
    cbn [bind wo_q wo_mean wo_m2 wo_count app length Nat.add INR].
    replace (3 - 1) with 2 by lra. replace (1 + 1) with 2 by lra. rewrite R2.
    unfold rdiv_res at 1. rewrite N20. cbn [bind].
    replace (2 / 2) with 1 by lra. rewrite R1. replace (1 + 1) with 2 by lra. rewrite R2.
    replace (3 - 2) with 1 by lra. rewrite R1, Rmult_1_r, R2, Rplus_0_l, R2.
    cbn [bind]. unfold wo_last, wo_variance. cbn [usub Nat.ltb Nat.leb Nat.sub bind wo_count wo_m2].
    cbn [s0 sdiv sofnat sleb ssqrt RndOps INR]. rewrite R1. unfold rdiv_res. rewrite N10. cbn [bind].
    replace (2 / 1) with 2 by lra. rewrite R2.
    assert (L : Rleb 2 0 = false) by (apply Rleb_false; lra). rewrite L.
    unfold rsqrt_res. assert (L2 : Rltb 2 0 = false) by (apply Rltb_false; lra). rewrite L2. reflexivity.
  - assert (H1 : 1 <= flx_rnd 53 (sqrt 2)).
    { rewrite <- R1 at 1. unfold flx_rnd. apply round_le; [apply FLX_exp_valid; reflexivity | apply valid_rnd_N|].
      rewrite <- sqrt_1 at 1. apply sqrt_le_1_alt. lra. }
    lra.
Qed.

(** the hypothesis of [vst_flat_pow2_flx]: a single value *)
Example vst_flat_hyp_ex : cout (@welford_core R (FlxOps 53) 2) [1] = Ok (Some 0).
Proof.
  assert (R0 : flx_rnd 53 0 = 0) by (apply (flx_rnd_IZR 0); reflexivity).
  assert (R1 : flx_rnd 53 1 = 1) by (apply (flx_rnd_IZR 1); reflexivity).
  assert (N10 : Reqb 1 0 = false) by (apply Reqb_false; lra).
  unfold cout, crun. cbn [cnew welford_core wo_new assert Nat.ltb Nat.leb bind cfold cstep clast].
  unfold wo_step. cbn [wo_q wo_mean wo_m2 wo_count app length Nat.ltb Nat.leb bind].
  unfold wo_add. cbn [Nat.add]. unfold FlxOps. cbn [s0 s1 sadd ssub smul sdiv sofnat RndOps INR].
  unfold rdiv_res. rewrite Rminus_0_r, R1, N10. cbn [bind].
  unfold wo_last, wo_variance. cbn [usub Nat.ltb Nat.leb Nat.sub bind wo_count wo_m2 s0 sleb RndOps].
  assert (L : Rleb 0 0 = true) by (apply Rleb_true; lra). rewrite L. reflexivity.
Qed.

(** a concrete bit-exact instance: Rsi(14) on a history scaled by 2^-20, precision 53 *)
Example rsi_pow2_flx_ex vs :
  cout (@rsi_core R (FlxOps 53) 14) (map (Rmult (bpow radix2 (-20))) vs) = cout (@rsi_core R (FlxOps 53) 14) vs.
Proof. apply rsi_pow2_flx. Qed.

Print Assumptions sma_scales.
Print Assumptions cumulative_scales.
Print Assumptions ema_alpha_scales.
Print Assumptions ema_scales.
Print Assumptions min_scales.
Print Assumptions max_scales.
Print Assumptions rsi_scale_free.
Print Assumptions myrsi_scale_free.
Print Assumptions roc_scale_free.
Print Assumptions hln_scale_free.
Print Assumptions cog_scale_free.
Print Assumptions welford_scales.
Print Assumptions welford_mean_scales.
Print Assumptions welford_var_scales.
Print Assumptions vst_pow2.
Print Assumptions vst_scale_free.
Print Assumptions vst_flat_scales.
Print Assumptions vsct_scale_free.
Print Assumptions wrolling_scales.
Print Assumptions wrolling_mean_scales.
Print Assumptions ss_scales.
Print Assumptions laguerre_scales.
Print Assumptions roofing_scales.
Print Assumptions cyber_scales.
Print Assumptions alma_custom_scales.
Print Assumptions alma_scales.
Print Assumptions drawdown_scale_free.
Print Assumptions lnret_scale_free.
Print Assumptions entropy_scale_free.
Print Assumptions lrsi_scale_free.
Print Assumptions trendflex_scale_free.
Print Assumptions reflex_scale_free.
Print Assumptions round_FLX_mult_bpow.
Print Assumptions flx_rnd_pow2.
Print Assumptions b64_round_flx.
Print Assumptions b64_round_not_pow2_invariant.
Print Assumptions sma_pow2_flx.
Print Assumptions ema_pow2_flx.
Print Assumptions ema_alpha_pow2_flx.
Print Assumptions cumulative_pow2_flx.
Print Assumptions min_pow2_flx.
Print Assumptions max_pow2_flx.
Print Assumptions rsi_pow2_flx.
Print Assumptions myrsi_pow2_flx.
Print Assumptions roc_pow2_flx.
Print Assumptions hln_pow2_flx.
Print Assumptions cog_pow2_flx.
Print Assumptions welford_pow2_flx.
Print Assumptions welford_mean_pow2_flx.
Print Assumptions welford_var_pow2_flx.
Print Assumptions vst_pow2_flx.
Print Assumptions vst_flat_pow2_flx.
Print Assumptions vsct_pow2_flx.
Print Assumptions alma_pow2_flx.
Print Assumptions alma_custom_pow2_flx.
Print Assumptions ss_pow2_flx.
Print Assumptions laguerre_pow2_flx.
Print Assumptions roofing_pow2_flx.
Print Assumptions cyber_pow2_flx.
Print Assumptions wrolling_pow2_flx.
Print Assumptions wrolling_mean_pow2_flx.
Print Assumptions drawdown_pow2_flx.
Print Assumptions lnret_pow2_flx.
Print Assumptions entropy_pow2_flx.
Print Assumptions lrsi_pow2_flx.
Print Assumptions trendflex_pow2_flx.
Print Assumptions reflex_pow2_flx.
Print Assumptions net_scale_free.
Print Assumptions cti_scale_free.
Print Assumptions net_pow2_flx.
Print Assumptions cti_pow2_flx.
