(** C10: SuperSmoother converges to the constant on a constant stream (poles a1*exp(+-i*theta),
    0 < a1 < 1, via the quadratic form W = e_t^2 - b1 e_t e_{t-1} + a1^2 e_{t-1}^2, W_{t+1} = a1^2 W_t). *)
From Coq Require Import List Arith Lia ZArith Reals Lra.
From SF Require Import Res Scalar View Models Spec Core SpecLin.
From SF.Proofs Require Import Window RBase LinBase LinSS LinCC LinDC.
Import ListNotations.
Open Scope R_scope.
Local Existing Instance ROps.

Section Quad.
Variables a C Sv c : R.
Let b1 := 2 * a * C.
Let c3 := - (a * a).
Let c1 := 1 - b1 - c3.
Definition Wq (f g : R) : R := (f - c) * (f - c) - b1 * (f - c) * (g - c) + a * a * ((g - c) * (g - c)).

Lemma Wq_step f g : Wq (c1 * (c + c) / 2 + b1 * f + c3 * g) f = a * a * Wq f g.
Proof. unfold Wq, c1, c3, b1. field. Qed.

Lemma Wq_lower f g : C * C + Sv * Sv = 1 -> Sv * Sv * ((f - c) * (f - c)) <= Wq f g.
Proof.
  intros H. unfold Wq, b1.
  pose proof (Rle_0_sqr (a * (g - c) - C * (f - c))) as Hs. unfold Rsqr in Hs.
  replace (Sv * Sv) with (1 - C * C) by lra. nra.
Qed.
End Quad.

(** * the coefficients at [R] *)
Lemma ssb_a1_R n : (1 <= n)%nat ->
  @ssb_a1 R ROps n = exp (- (1414 / 1000) * (3141592653589793 / 1000000000000000) / INR n).
Proof.
  intros Hn. unfold ssb_a1, sexpd. cbn [sofnat ROps]. rewrite sdivd_R by (apply INR_pos_neq; lia).
  cbn [sexp sofdec smul sneg ROps].
  replace (10 ^ Z.of_nat 3)%Z with 1000%Z by reflexivity.
  replace (10 ^ Z.of_nat 15)%Z with 1000000000000000%Z by reflexivity. reflexivity.
Qed.

(** 0 < a1 < 1 *)
Lemma ssb_a1_bounds n : (1 <= n)%nat -> 0 < @ssb_a1 R ROps n < 1.
Proof.
  intros Hn. rewrite ssb_a1_R by exact Hn. split; [apply exp_pos|]. rewrite <- exp_0.
  apply exp_increasing. assert (Hp : 0 < INR n) by (apply lt_0_INR; lia).
  set (x := INR n) in *. clearbody x.
  assert (H : 0 < 1414 / 1000 * (3141592653589793 / 1000000000000000) / x).
  { apply Rdiv_lt_0_compat; lra. }
  replace (- (1414 / 1000) * (3141592653589793 / 1000000000000000) / x)
    with (- (1414 / 1000 * (3141592653589793 / 1000000000000000) / x)) by (field; lra). lra.
Qed.

Lemma ssb_coefs_R n :
  @ssb_b1 R ROps n = 2 * ssb_a1 n * cos (ssb_theta n) /\
  @ssb_c3 R ROps n = - (ssb_a1 n * ssb_a1 n) /\
  @ssb_c1 R ROps n = 1 - ssb_b1 n - ssb_c3 n.
Proof.
  split; [|split; reflexivity]. unfold ssb_b1. rewrite l_two_R. reflexivity.
Qed.

(** sin(4.4422/N) <> 0 for every N >= 1 *)
Lemma sin_theta_neq n : (1 <= n)%nat -> sin (@ssb_theta R ROps n) <> 0.
Proof.
  intros Hn. rewrite ssb_theta_R by lia.
  pose proof PI_4 as P4. pose proof PI2_3_2 as P32.
  destruct (Nat.eq_dec n 1) as [E|E]; [|destruct (Nat.eq_dec n 2) as [E2|E2]].
  - subst n. replace (INR 1) with 1 by (cbn; lra). apply Rlt_not_eq. apply sin_lt_0; lra.
  - subst n. replace (INR 2) with 2 by (cbn; lra). apply Rgt_not_eq. apply sin_gt_0; lra.
  - destruct (theta_bounds n) as [H0 H1]; [lia|]. apply Rgt_not_eq. apply sin_gt_0; lra.
Qed.

(** * the filter on a constant stream *)
Section Const.
Variable n : nat.
Variable c : R.
Hypothesis Hn : (1 <= n)%nat.

Let c1 := @ssb_c1 R ROps n.
Let b1 := @ssb_b1 R ROps n.
Let c3 := @ssb_c3 R ROps n.
Let a := @ssb_a1 R ROps n.

Definition ssF (k : nat) : R * R := ssb_upto c1 b1 c3 (repeat c k) k.

Lemma ssb_upto_repeat k d : ssb_upto c1 b1 c3 (repeat c (k + d)) k = ssb_upto c1 b1 c3 (repeat c k) k.
Proof.
  induction d as [|d IH]; [rewrite Nat.add_0_r; reflexivity|].
  replace (k + S d)%nat with (S (k + d)) by lia. rewrite repeat_snoc.
  rewrite ssb_upto_app by (rewrite repeat_length; lia). exact IH.
Qed.

Lemma ssF_S k : (1 <= k)%nat ->
  ssF (S k) = (c1 * (c + c) / 2 + b1 * fst (ssF k) + c3 * snd (ssF k), fst (ssF k)).
Proof.
  intros Hk. unfold ssF. rewrite ssb_upto_S. replace (S k) with (k + 1)%nat by lia.
  rewrite ssb_upto_repeat. rewrite !lagx_repeat by lia. rewrite ssb_eq_R. reflexivity.
Qed.

Let W (p : R * R) : R := Wq a (cos (ssb_theta n)) c (fst p) (snd p).

Lemma ssW_pow m : W (ssF (S m)) = (a * a) ^ m * W (ssF 1).
Proof.
  induction m as [|m IH]; [cbn [pow]; ring|].
  rewrite ssF_S by lia. unfold W in *. cbn [fst snd].
  destruct (ssb_coefs_R n) as (Eb & E3 & E1). unfold c1, b1, c3. rewrite E1, E3, Eb.
  fold a. rewrite Wq_step. rewrite IH. cbn [pow]. ring.
Qed.

(** C10 (SuperSmoother): on a constant stream the output converges to the constant *)
Theorem ss_dc_converges : forall eps, 0 < eps -> exists T0, forall t, (T0 <= t)%nat ->
  exists o, cout (@ss_core R ROps n) (repeat c t) = Ok (Some o) /\ Rabs (o - c) < eps.
Proof.
  intros eps He.
  pose proof (ssb_a1_bounds n Hn) as [Ha0 Ha1]. fold a in Ha0, Ha1.
  pose proof (sin_theta_neq n Hn) as Hs. set (sn := sin (ssb_theta n)) in *.
  assert (HS2 : 0 < sn * sn) by nra.
  assert (Hq : Rabs (a * a) < 1) by (rewrite Rabs_pos_eq by nra; nra).
  set (W1 := W (ssF 1)).
  assert (HW1 : 0 <= W1).
  { unfold W1, W. eapply Rle_trans; [|apply (Wq_lower a (cos (ssb_theta n)) sn c)].
    - pose proof (Rle_0_sqr (fst (ssF 1) - c)) as H. unfold Rsqr in H. nra.
    - pose proof (sin2_cos2 (ssb_theta n)) as H. unfold Rsqr in H. fold sn in H. lra. }
  assert (He2p : 0 < eps * eps) by nra.
  assert (Hy : 0 < eps * eps * (sn * sn) / (W1 + 1)).
  { apply Rdiv_lt_0_compat; [apply Rmult_lt_0_compat; assumption | lra]. }
  destruct (pow_lt_1_zero (a * a) Hq _ Hy) as [N0 HN].
  exists (Nat.max n (S N0)). intros t Ht.
  rewrite ss_closed_form by exact Hn. unfold spec_ss, ssb_out. cbv zeta. rewrite repeat_length.
  destruct (Nat.ltb_spec t n); [lia|]. eexists; split; [reflexivity|].
  fold c1 b1 c3. fold (ssF t). destruct t as [|m]; [lia|].
  pose proof (ssW_pow m) as HWm. fold W1 in HWm.
  assert (Hlow : sn * sn * ((fst (ssF (S m)) - c) * (fst (ssF (S m)) - c)) <= W (ssF (S m))).
  { unfold W. apply Wq_lower. pose proof (sin2_cos2 (ssb_theta n)) as H2. unfold Rsqr in H2. fold sn in H2. lra. }
  pose proof (HN m ltac:(lia)) as Hm. rewrite Rabs_pos_eq in Hm by (apply pow_le; nra).
  set (e := fst (ssF (S m)) - c) in *. set (q := (a * a) ^ m) in *.
  assert (Hq0 : 0 <= q) by (apply pow_le; nra).
  assert (Hqb : q * (W1 + 1) < eps * eps * (sn * sn)).
  { apply (Rmult_lt_compat_r (W1 + 1)) in Hm; [|lra].
    replace (eps * eps * (sn * sn) / (W1 + 1) * (W1 + 1)) with (eps * eps * (sn * sn)) in Hm by (field; lra).
    exact Hm. }
  assert (He2 : e * e < eps * eps) by nra.
  apply Rabs_def1; nra.
Qed.
End Const.

(** * decay of a double real pole: y_{m+2} = 2 r y_{m+1} - r^2 y_m, 0 <= r < 1 *)
Lemma double_pole_decay (y : nat -> R) r : 0 <= r < 1 ->
  (forall m, y (S (S m)) = 2 * r * y (S m) - r * r * y m) ->
  forall eps, 0 < eps -> exists M, forall m, (M <= m)%nat -> Rabs (y m) < eps.
Proof.
  intros Hr Hrec eps He.
  set (z := fun m => y (S m) - r * y m).
  assert (Hz : forall m, Rabs (z m) = r ^ m * Rabs (z 0%nat)).
  { induction m as [|m IH]; [cbn [pow]; ring|].
    replace (z (S m)) with (r * z m) by (unfold z; rewrite Hrec; ring).
    rewrite Rabs_mult, IH, (Rabs_pos_eq r) by lra. cbn [pow]. ring. }
  set (rho := (1 + r) / 2). assert (Hrho : r < rho < 1) by (unfold rho; lra).
  set (Z0 := Rabs (z 0%nat)) in *. assert (HZ0 : 0 <= Z0) by apply Rabs_pos.
  set (K := Rabs (y 0%nat) + Z0 / (rho - r)).
  assert (HZK : Z0 <= K * (rho - r)).
  { unfold K. pose proof (Rabs_pos (y 0%nat)) as Hy0.
    replace ((Rabs (y 0%nat) + Z0 / (rho - r)) * (rho - r)) with (Rabs (y 0%nat) * (rho - r) + Z0) by (field; lra).
    nra. }
  assert (HK0 : 0 <= K).
  { unfold K. pose proof (Rabs_pos (y 0%nat)). assert (0 <= Z0 / (rho - r)) by (apply Rle_mult_inv_pos; lra). lra. }
  assert (Hb : forall m, Rabs (y m) <= K * rho ^ m).
  { induction m as [|m IH].
    - cbn [pow]. unfold K. assert (0 <= Z0 / (rho - r)) by (apply Rle_mult_inv_pos; lra). lra.
    - replace (y (S m)) with (r * y m + z m) by (unfold z; ring).
      eapply Rle_trans; [apply Rabs_triang|]. rewrite Rabs_mult, (Rabs_pos_eq r), Hz by lra.
      assert (Hp : r ^ m <= rho ^ m) by (apply pow_incr; lra).
      assert (Hp0 : 0 <= r ^ m) by (apply pow_le; lra).
      assert (Hq0 : 0 <= rho ^ m) by (apply pow_le; lra).
      cbn [pow]. 
      assert (H1 : r ^ m * Z0 <= rho ^ m * (K * (rho - r))) by (apply Rmult_le_compat; lra).
      assert (H2 : r * Rabs (y m) <= r * (K * rho ^ m)) by (apply Rmult_le_compat_l; lra).
      lra. }
  assert (Hq : Rabs rho < 1) by (rewrite Rabs_pos_eq; lra).
  assert (Hy : 0 < eps / (K + 1)) by (apply Rdiv_lt_0_compat; lra).
  destruct (pow_lt_1_zero rho Hq _ Hy) as [M HM]. exists M. intros m Hm.
  pose proof (HM m Hm) as H. rewrite Rabs_pos_eq in H by (apply pow_le; lra).
  eapply Rle_lt_trans; [apply Hb|].
  assert (Hq0 : 0 <= rho ^ m) by (apply pow_le; lra).
  apply (Rmult_lt_compat_r (K + 1)) in H; [|lra].
  replace (eps / (K + 1) * (K + 1)) with eps in H by (field; lra). nra.
Qed.

(** * CyberCycle (n >= 6): after any prefix, a constant tail drives the output to 0 *)
Section CyberDecay.
Variable n : nat.
Variable p : list R.
Variable c : R.
Hypothesis Hn : (6 <= n)%nat.
Let al := @ccb_alpha R ROps n.
Local Notation up m k := (ccb_upto ccb_smooth n al (p ++ repeat c m) k).

Lemma ccb_upto_tail m d k : (k <= length p + m)%nat -> up (m + d) k = up m k.
Proof.
  intros Hk. induction d as [|d IH]; [rewrite Nat.add_0_r; reflexivity|].
  replace (m + S d)%nat with (S (m + d)) by lia. rewrite repeat_snoc, app_assoc.
  rewrite LinCC.ccb_upto_app; [exact IH | apply LinCC.ccb_smooth_causal |].
  rewrite app_length, repeat_length. lia.
Qed.

Lemma ccb_upto_tail' m m' k : (m <= m')%nat -> (k <= length p + m)%nat -> up m' k = up m k.
Proof. intros H Hk. replace m' with (m + (m' - m))%nat by lia. apply ccb_upto_tail. exact Hk. Qed.

Let Y (m : nat) : R := fst (up m (length p + m)).

Lemma lagx_tail m t j : (j <= 5)%nat -> (length p + 5 <= t)%nat -> (t < length p + m)%nat ->
  lagx (p ++ repeat c m) t j = c.
Proof.
  intros Hj H1 H2. rewrite lagx_ge by lia. rewrite app_nth2 by lia. apply nth_repeat_lt. lia.
Qed.

Lemma Y_rec m : (n <= m)%nat -> Y (S (S m)) = 2 * (1 - al) * Y (S m) - (1 - al) * (1 - al) * Y m.
Proof.
  intros Hm. unfold Y at 1. replace (length p + S (S m))%nat with (S (S (length p + m))) by lia.
  rewrite (@cyber_dc_homogeneous n al (p ++ repeat c (S (S m))) (S (length p + m)) c)
    by (lia || (intros j Hj; apply lagx_tail; lia)).
  change (snd (up (S (S m)) (S (length p + m)))) with (fst (up (S (S m)) (length p + m))).
  rewrite (ccb_upto_tail' (S m) (S (S m)) (S (length p + m))) by lia.
  rewrite (ccb_upto_tail' m (S (S m)) (length p + m)) by lia.
  unfold Y. replace (length p + S m)%nat with (S (length p + m)) by lia. reflexivity.
Qed.

(** C10 (CyberCycle, n >= 6): a constant stream is sent to 0 once the transient has decayed *)
Theorem cyber_dc_decays : forall eps, 0 < eps -> exists M, forall m, (M <= m)%nat ->
  exists o, cout (@cyber_core R ROps n) (p ++ repeat c m) = Ok (Some o) /\ Rabs o < eps.
Proof.
  intros eps He.
  assert (Hal : 0 <= 1 - al < 1).
  { unfold al. rewrite ccb_alpha_R. assert (H6 : 6 <= INR n) by (apply (le_INR 6 n) in Hn; cbn in Hn; lra).
    set (x := INR n) in *. clearbody x.
    assert (E : 1 - 2 / (x + 1) = (x - 1) / (x + 1)) by (field; lra). rewrite E.
    split; [apply Rle_mult_inv_pos; lra|].
    apply (Rmult_lt_reg_r (x + 1)); [lra|]. replace ((x - 1) / (x + 1) * (x + 1)) with (x - 1) by (field; lra). lra. }
  destruct (@double_pole_decay (fun m => Y (n + m)) (1 - al) Hal) with (eps := eps) as [M HM].
  - intros m. replace (n + S (S m))%nat with (S (S (n + m))) by lia.
    replace (n + S m)%nat with (S (n + m)) by lia. apply Y_rec. lia.
  - exact He.
  - exists (n + M)%nat. intros m Hm. rewrite cyber_closed_form by exact Hn. unfold spec_cyber, ccb_out.
    destruct (p ++ repeat c m) as [|x l] eqn:E.
    { apply (f_equal (@length R)) in E. rewrite app_length, repeat_length in E. cbn in E. lia. }
    rewrite <- E. eexists; split; [reflexivity|].
    rewrite app_length, repeat_length. fold al. fold (Y m).
    replace m with (n + (m - n))%nat by lia. apply HM. lia.
Qed.
End CyberDecay.
