(** C07 at f64 for Rsi: on finite inputs every value Rsi reports at binary64 is either NaN (possible only when both
    the gain and the loss sum overflowed: inf / inf) or lies in [0, 100] EXACTLY. *)
From Coq Require Import List Arith Lia Reals Lra ZArith Floats Bool.
From SF Require Import Res Scalar View Models Core Spec FloatOps SpecFRange.
From SF.Proofs Require Import FltErr FltBridge Flt2P Flt2B64 Flt2Prim BridgeOps FRangeBase FRangeMy.
From Flocq Require Import Core BinarySingleNaN.
Import ListNotations.
Open Scope R_scope.

Local Notation F := PrimFloat.float.
Local Notation pinf := PrimFloat.infinity.
Local Notation ninf := PrimFloat.neg_infinity.
Local Notation fnan := PrimFloat.nan.
Local Notation fzero := PrimFloat.zero.
Local Notation fone := PrimFloat.one.
Local Notation fin := (fun x : F => ffinite x = true).
Local Notation f100 := (f_ofdec 100 0).

(** a change [v - prev] of finite values: as a gain (when > 0) and as a loss (its absolute value) it is a
    non-negative extended value *)
Lemma change_nnx v prev : ffinite v = true -> ffinite prev = true ->
  (PrimFloat.ltb fzero (PrimFloat.sub v prev) = true -> nnx (PrimFloat.sub v prev))
  /\ nnx (PrimFloat.abs (PrimFloat.sub v prev)).
Proof.
  intros Fv Fp. destruct (sub_spec v prev Fv Fp) as [(_ & Fc & _)|[(_ & ->)|(_ & ->)]].
  - set (c := PrimFloat.sub v prev) in *. split.
    + intros H. right. split; [exact Fc|]. apply Rlt_le.
      pose proof (ltb_real_true fzero c (proj1 prim_zero_fin) Fc H) as H'. rewrite (proj2 prim_zero_fin) in H'. exact H'.
    + right. destruct (prim_abs_fin c) as [Hf E]. rewrite Hf, E. split; [exact Fc | apply Rabs_pos].
  - split; [intros _|]; left; reflexivity.
  - split; [intros H; discriminate H | left; reflexivity].
Qed.

Lemma rsi_sums_nnx wl q : ffinite wl = true -> 0 < f2r wl ->
  forall prev g l p, Forall fin q -> ffinite prev = true -> nnx g -> nnx l ->
  @rsi_sums F FOps wl q prev g l = Ok p -> nnx (fst p) /\ nnx (snd p).
Proof.
  intros Fw Pw. induction q as [|v q IH]; intros prev g l p Hq Fp Hg Hl H.
  - cbn [rsi_sums] in H. inversion H; subst p. split; assumption.
  - inversion Hq as [|? ? Fv Hq']; subst. cbn [rsi_sums] in H. unfold sgtb in H. cbn [sltb ssub sabs sadd sdiv s0 FOps bind] in H.
    destruct (change_nnx v prev Fv Fp) as [Hup Hdn].
    destruct (PrimFloat.ltb fzero (PrimFloat.sub v prev)) eqn:E.
    + apply (IH v _ _ p Hq' Fv) in H; [exact H | | exact Hl].
      apply nnx_add; [exact Hg|]. apply nnx_div_pos; [apply Hup; reflexivity | exact Fw | exact Pw].
    + apply (IH v _ _ p Hq' Fv) in H; [exact H | exact Hg |].
      apply nnx_add; [exact Hl|]. apply nnx_div_pos; [exact Hdn | exact Fw | exact Pw].
Qed.

(** [100 - 100 / (1 + rs)] for a finite [rs >= 0] *)
Lemma rsi_tail rs : ffinite rs = true -> 0 <= f2r rs ->
  okv 0 100 (PrimFloat.sub f100 (PrimFloat.div f100 (PrimFloat.add fone rs))).
Proof.
  pose proof BIG_pos as BP. pose proof BIG_gt_100 as B100.
  destruct f2r_100 as [F100 E100]. destruct prim_one_fin as [F1 E1].
  intros Fr Pr. right.
  assert (Ht : 1 <= b64_add (f2r fone) (f2r rs)) by (apply rnd_ge; [exact b64_format_1 | rewrite E1; lra]).
  destruct (add_spec fone rs F1 Fr) as [(_ & Ft & Et)|[(_ & ->)|(Hr & _)]]; [| |exfalso; lra].
  - set (t := PrimFloat.add fone rs) in *. rewrite <- Et in Ht.
    assert (Hq : 0 <= 100 / f2r t <= 100).
    { split.
      - apply Rmult_le_pos; [lra|]. apply Rlt_le, Rinv_0_lt_compat. lra.
      - apply (Rmult_le_reg_r (f2r t)); [lra|]. unfold Rdiv. rewrite Rmult_assoc, Rinv_l by lra. nra. }
    assert (HR : 0 <= b64_div (f2r f100) (f2r t) <= 100).
    { rewrite E100. split; [apply rnd_ge; [exact b64_format_0 | apply Hq] | apply rnd_le; [exact format_100 | apply Hq]]. }
    destruct (div_spec f100 t F100 Ft ltac:(lra)) as [(_ & Fd & Ed)|[(Hr & _)|(Hr & _)]]; [|exfalso; lra|exfalso; lra].
    set (d := PrimFloat.div f100 t) in *. rewrite <- Ed in HR.
    assert (HO : 0 <= b64_sub (f2r f100) (f2r d) <= 100).
    { rewrite E100. split; [apply rnd_ge; [exact b64_format_0 | lra] | apply rnd_le; [exact format_100 | lra]]. }
    destruct (sub_spec f100 d F100 Fd) as [(_ & Fo & Eo)|[(Hr & _)|(Hr & _)]]; [|exfalso; lra|exfalso; lra].
    split; [exact Fo | rewrite Eo; exact HO].
  - change (PrimFloat.sub f100 (PrimFloat.div f100 pinf)) with f100. split; [exact F100 | rewrite E100; lra].
Qed.

(** the answer computed from the two sums when [loss != 0] *)
Lemma rsi_answer gain loss : nnx gain -> nnx loss -> PrimFloat.eqb loss fzero = false ->
  okv 0 100 (PrimFloat.sub f100 (PrimFloat.div f100 (PrimFloat.add fone (PrimFloat.div gain loss)))).
Proof.
  pose proof BIG_pos as BP. destruct f2r_100 as [F100 E100].
  assert (Hinf : okv 0 100 (PrimFloat.sub f100 (PrimFloat.div f100 (PrimFloat.add fone pinf)))).
  { right. change (PrimFloat.sub f100 (PrimFloat.div f100 (PrimFloat.add fone pinf))) with f100.
    split; [exact F100 | rewrite E100; lra]. }
  intros [->|[Fg Pg]] [->|[Fl Pl]] Hne.
  - left. reflexivity.
  - pose proof (eqb_real_false loss fzero Fl (proj1 prim_zero_fin) Hne) as Hl0. rewrite (proj2 prim_zero_fin) in Hl0.
    rewrite (div_pinf_l loss Fl ltac:(lra)). exact Hinf.
  - destruct (div_pinf_r gain Fg) as [Fr Er]. apply rsi_tail; [exact Fr | rewrite Er; lra].
  - pose proof (eqb_real_false loss fzero Fl (proj1 prim_zero_fin) Hne) as Hl0. rewrite (proj2 prim_zero_fin) in Hl0.
    assert (H0 : 0 <= b64_div (f2r gain) (f2r loss)).
    { apply rnd_ge; [exact b64_format_0|]. apply Rmult_le_pos; [exact Pg|]. apply Rlt_le, Rinv_0_lt_compat. lra. }
    destruct (div_spec gain loss Fg Fl Hl0) as [(_ & Fr & Er)|[(_ & ->)|(Hr & _)]]; [| exact Hinf | exfalso; lra].
    apply rsi_tail; [exact Fr | rewrite Er; exact H0].
Qed.

(** * The invariant *)
Definition rsi_rinv (s : @rsi_st F) : Prop :=
  Forall fin (rsi_q s) /\ ffinite (rsi_oldref s) = true /\ forall o, rsi_out s = Some o -> okv 0 100 o.

Lemma rsi_rstep n s v s' : (1 <= n)%nat -> (Z.of_nat n < 2 ^ 53)%Z ->
  ffinite v = true -> rsi_rinv s -> @rsi_step F FOps n s v = Ok s' -> rsi_rinv s'.
Proof.
  intros Hn Hb Fv (Hq & Fo & Ho). unfold rsi_step. cbv zeta.
  destruct (f_ofnat_exact n Hb) as [Fw Ew].
  assert (Pw : 0 < f2r (f_ofnat n)). { rewrite Ew. apply lt_0_INR. lia. }
  assert (Hb' : (exists old q0, (if Nat.leb n (length (rsi_q s))
                      then do '(old, q') <- pop_front (rsi_q s); Ok (old, q')
                      else Ok (match rsi_q s with [] => v | _ => rsi_oldref s end, rsi_q s)) = Ok (old, q0)
                      /\ ffinite old = true /\ Forall fin q0) \/
               exists e, (if Nat.leb n (length (rsi_q s))
                      then do '(old, q') <- pop_front (rsi_q s); Ok (old, q')
                      else Ok (match rsi_q s with [] => v | _ => rsi_oldref s end, rsi_q s)) = Err e).
  { destruct (Nat.leb n (length (rsi_q s))).
    - destruct (rsi_q s) as [|x r] eqn:Eq; cbn [pop_front bind].
      + right. eexists; reflexivity.
      + inversion Hq; subst. left. exists x, r. auto.
    - left. eexists _, _. split; [reflexivity|]. split; [|exact Hq]. destruct (rsi_q s); assumption. }
  destruct Hb' as [(old & q0 & -> & Fold & Hq0)|(e & ->)]; [|discriminate].
  cbn [bind].
  assert (Hq1 : Forall fin (q0 ++ [v])) by (apply Forall_app; split; [exact Hq0 | constructor; [exact Fv | constructor]]).
  destruct (Nat.ltb (length (q0 ++ [v])) n).
  - intros H; inversion H; subst s'. unfold rsi_rinv. cbn [rsi_q rsi_oldref rsi_out]. auto.
  - cbn [sofnat FOps].
    destruct (@rsi_sums F FOps (f_ofnat n) (q0 ++ [v]) old s0 s0) as [[g l]|e] eqn:Es; [|discriminate].
    pose proof (rsi_sums_nnx (f_ofnat n) (q0 ++ [v]) Fw Pw old s0 s0 (g, l) Hq1 Fold nnx_zero nnx_zero Es) as [Hg Hl].
    cbn [fst snd] in Hg, Hl. cbn [bind seqb sdiv sadd ssub s0 s1 sofdec FOps].
    destruct (PrimFloat.eqb l fzero) eqn:El; cbn [bind]; intros H; inversion H; subst s';
      unfold rsi_rinv; cbn [rsi_q rsi_oldref rsi_out]; (split; [exact Hq1|]); (split; [exact Fold|]);
      intros o Eo; inversion Eo; subst o.
    + right. destruct f2r_100 as [F100 E100]. split; [exact F100 | rewrite E100; lra].
    + apply rsi_answer; assumption.
Qed.

Lemma rsi_rrun n fs s : (1 <= n)%nat -> (Z.of_nat n < 2 ^ 53)%Z ->
  Forall fin fs -> crun (@rsi_core F FOps n) fs = Ok s -> rsi_rinv s.
Proof.
  intros Hn Hb.
  apply (@crun_pres F (@rsi_core F FOps n) fin rsi_rinv
           {| rsi_gain := s0; rsi_loss := s0; rsi_oldref := s0; rsi_lastval := s0; rsi_q := []; rsi_out := None |}).
  - reflexivity.
  - unfold rsi_rinv. cbn [rsi_q rsi_oldref rsi_out]. split; [constructor|]. split; [exact (proj1 prim_zero_fin) | discriminate].
  - intros s1 v s2 Fv Hi Hs. exact (rsi_rstep n s1 v s2 Hn Hb Fv Hi Hs).
Qed.

(** C07 at f64, Rsi (strong form): on FINITE inputs -- nothing is assumed about intermediate results --
    every value reported is NaN or lies in [0, 100] exactly *)
Theorem rsi_range_f64_nan n (fs : list F) (v : F) : (1 <= n)%nat -> (Z.of_nat n < 2 ^ 53)%Z -> Forall fin fs ->
  cout (@rsi_core F FOps n) fs = Ok (Some v) ->
  PrimFloat.is_nan v = false -> PrimFloat.leb 0 v && PrimFloat.leb v 100 = true.
Proof.
  intros Hn Hb Hf Hc Hnan. unfold cout in Hc.
  destruct (crun (@rsi_core F FOps n) fs) as [s|e] eqn:Er; [|discriminate]. cbn [bind clast rsi_core] in Hc.
  destruct (rsi_rrun n fs s Hn Hb Hf Er) as (_ & _ & Ho). inversion Hc as [Hc'].
  apply (okv_range 0 100 fzero f100); try apply prim_zero_fin; try apply f2r_100; [apply Ho; exact Hc' | exact Hnan].
Qed.

(** C07 at f64, Rsi: finite inputs and a finite answer: the answer is in [0, 100] exactly *)
Theorem rsi_range_f64 n (fs : list F) (v : F) : (1 <= n)%nat -> (Z.of_nat n < 2 ^ 53)%Z ->
  all_finite_out ffinite (@rsi_core F FOps n) fs = true ->
  cout (@rsi_core F FOps n) fs = Ok (Some v) -> PrimFloat.leb 0 v && PrimFloat.leb v 100 = true.
Proof.
  unfold all_finite_out. intros Hn Hb H Hc. apply andb_true_iff in H. destruct H as [Hf Ho]. rewrite Hc in Ho. cbn [ofinb] in Ho.
  apply (rsi_range_f64_nan n fs v Hn Hb); [apply forallb_fin; exact Hf | exact Hc | apply fin_not_nan; exact Ho].
Qed.

Local Set Warnings "-inexact-float".
Example rsi_range_f64_ex :
  (1 <= 3)%nat /\ (Z.of_nat 3 < 2 ^ 53)%Z /\
  all_finite_out ffinite (@rsi_core F FOps 3) [1e6; 8.13; 3.461; 5.401; 3.311; 8]%float = true /\
  exists v, cout (@rsi_core F FOps 3) [1e6; 8.13; 3.461; 5.401; 3.311; 8]%float = Ok (Some v).
Proof. split; [lia|]. split; [reflexivity|]. split; [vm_compute; reflexivity|]. eexists. vm_compute. reflexivity. Qed.
(** the NaN alternative is real: a huge rise and a huge fall inside the window, both sums overflow *)
Example rsi_nan_ex :
  forallb ffinite [-0x1.8p1023; 0x1.8p1023; -0x1.8p1023]%float = true /\
  cout (@rsi_core F FOps 2) [-0x1.8p1023; 0x1.8p1023; -0x1.8p1023]%float = Ok (Some fnan).
Proof. vm_compute. split; reflexivity. Qed.

Print Assumptions rsi_range_f64_nan.
Print Assumptions rsi_range_f64.
