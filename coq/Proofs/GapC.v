(** C08 leftovers (a starved wrapper never changes its answer; whole-history monotone windows for
    Rsi / MyRSI) and the C13 sanity corollary (population variance by moments). *)
From Coq Require Import List Arith Lia Reals Lra ZArith.
From SF Require Import Res Scalar View Models Spec Core SpecRsi SpecRoll SpecGap.
From SF.Proofs Require Import Chain Window RBase EhlBase Pure RsiP RollP.
Import ListNotations.
Open Scope R_scope.

(** * C08 (2): a view that is delivered nothing never changes its answer *)
Section Starved.
Context {T : Type}.

Lemma all_none_repeat (la : list (option T)) : Forall (fun o => o = None) la -> la = repeat None (length la).
Proof. induction 1 as [|o la Ho _ IH]; [reflexivity|]. subst o. cbn [length repeat]. rewrite <- IH. reflexivity. Qed.

Lemma replay_from_nones (c : core T) s o k : clast c s = Ok o ->
  replay_from c s (repeat None k) = Ok (repeat o k).
Proof.
  intros Hl. induction k as [|k IH]; [reflexivity|].
  cbn [repeat replay_from]. rewrite Hl. cbn [bind]. rewrite IH. reflexivity.
Qed.

Lemma replay_from_nones_err (c : core T) s e k : clast c s = Err e ->
  replay_from c s (repeat None (S k)) = Err e.
Proof. intros Hl. cbn [repeat replay_from]. rewrite Hl. reflexivity. Qed.

(** C08: if the inner view [a] reports nothing during the whole run, the wrapper [wrap c a] answers,
    after every update, exactly what it answered before any update *)
Theorem starved_constant (c : core T) (a : view T) xs la s0 o0 :
  mrun a xs = Ok la -> Forall (fun o => o = None) la ->
  cnew c = Ok s0 -> clast c s0 = Ok o0 ->
  mrun (wrap c a) xs = Ok (spec_starved o0 (length xs)).
Proof.
  intros Ha Hn Hc Hl. rewrite (mrun_wrap c a xs Ha Hc). rewrite (all_none_repeat la Hn).
  assert (Hlen : length la = length xs).
  { unfold mrun in Ha. destruct (vnew a) as [sa|e]; cbn [bind] in Ha; [|discriminate].
    destruct (mrun_from_steps T a sa xs la Ha) as [_ [_ H]]. exact H. }
  rewrite Hlen. apply replay_from_nones. exact Hl.
Qed.

(** the same, stated on a given successful run: every answer equals the initial one *)
Corollary starved_constant_run (c : core T) (a : view T) xs la outs s0 :
  mrun a xs = Ok la -> Forall (fun o => o = None) la -> cnew c = Ok s0 ->
  mrun (wrap c a) xs = Ok outs ->
  forall o, In o outs -> clast c s0 = Ok o.
Proof.
  intros Ha Hn Hc Hw o Ho.
  destruct (clast c s0) as [o0|e] eqn:Hl.
  - rewrite (starved_constant c a xs la s0 o0 Ha Hn Hc Hl) in Hw. inversion Hw; subst outs.
    apply repeat_spec in Ho. subst o. reflexivity.
  - exfalso. rewrite (mrun_wrap c a xs Ha Hc), (all_none_repeat la Hn) in Hw.
    destruct (length la) as [|k] eqn:E.
    + cbn in Hw. inversion Hw; subst outs. destruct Ho.
    + rewrite (replay_from_nones_err c s0 e k Hl) in Hw. discriminate.
Qed.
End Starved.

(** * C08 (3) / C05: the window is the whole history (length exactly n, first change d_0 = 0) *)
Local Notation cf := (@changes_from R ROps).
Local Notation chg := (@changes R ROps).
Local Notation gof := (@gain_of R ROps).
Local Notation lof := (@loss_of R ROps).
Local Notation wG := (@win_gain R ROps).
Local Notation wL := (@win_loss R ROps).
Local Notation mval := (@myrsi_value R ROps).

Lemma whole_window n h : (2 <= n)%nat -> length h = n ->
  exists x r, h = x :: r /\ r <> [] /\ lastn n (chg h) = 0 :: cf x r.
Proof.
  intros Hn Hl. destruct h as [|x r]; [cbn in Hl; lia|]. exists x, r. split; [reflexivity|]. split.
  - intros ->. cbn in Hl. lia.
  - rewrite lastn_all by (rewrite chg_length; lia). reflexivity.
Qed.

Lemma whole_rising_G_L n h : (2 <= n)%nat -> length h = n -> strictly_rising h ->
  0 < wG n h /\ wL n h = 0.
Proof.
  intros Hn Hl Hr. destruct (whole_window n h Hn Hl) as (x & r & -> & Hne & E).
  unfold win_gain, win_loss, gains, losses. rewrite E.
  assert (HF : Forall (fun d => 0 < d) (cf x r)).
  { apply (chain_cf Rlt); [intros; lra | exact Hr]. }
  assert (Hcne : cf x r <> []).
  { intros E0. apply (f_equal (@length R)) in E0. rewrite cf_length in E0. destruct r; [congruence | discriminate]. }
  destruct tie_contributes_zero as [G0 L0]. rewrite !smap_cons, G0, L0. split.
  - assert (0 < @ssum R ROps (map gof (cf x r))); [|lra].
    apply smap_pos; [apply gof_nonneg|]. apply Forall_Exists_ne; [exact Hcne|].
    revert HF. apply Forall_impl. intros d. apply gof_pos.
  - assert (@ssum R ROps (map lof (cf x r)) = 0); [|lra].
    apply smap_zero. revert HF. apply Forall_impl. intros d Hd. apply lof_zero. lra.
Qed.

Lemma whole_falling_G_L n h : (2 <= n)%nat -> length h = n -> strictly_falling h ->
  wG n h = 0 /\ 0 < wL n h.
Proof.
  intros Hn Hl Hr. destruct (whole_window n h Hn Hl) as (x & r & -> & Hne & E).
  unfold win_gain, win_loss, gains, losses. rewrite E.
  assert (HF : Forall (fun d => d < 0) (cf x r)).
  { apply (chain_cf Rgt); [intros; lra | exact Hr]. }
  assert (Hcne : cf x r <> []).
  { intros E0. apply (f_equal (@length R)) in E0. rewrite cf_length in E0. destruct r; [congruence | discriminate]. }
  destruct tie_contributes_zero as [G0 L0]. rewrite !smap_cons, G0, L0. split.
  - assert (@ssum R ROps (map gof (cf x r)) = 0); [|lra].
    apply smap_zero. revert HF. apply Forall_impl. intros d Hd. apply gof_zero. lra.
  - assert (0 < @ssum R ROps (map lof (cf x r))); [|lra].
    apply smap_pos; [apply lof_nonneg|]. apply Forall_Exists_ne; [exact Hcne|].
    revert HF. apply Forall_impl. intros d. apply lof_pos.
Qed.

(** C05: a strictly rising history of length exactly n >= 2: Rsi(n) = 100, MyRSI(n) = +1 *)
Theorem rsi_rising_whole n h : (2 <= n)%nat -> length h = n -> strictly_rising h ->
  cout (@rsi_core R ROps n) h = Ok (Some 100).
Proof.
  intros Hn Hl Hr. destruct (whole_rising_G_L n h Hn Hl Hr) as [HG HL].
  rewrite rsi_answer by lia. destruct (Req_EM_T (wL n h) 0); [reflexivity | contradiction].
Qed.
Theorem myrsi_rising_whole n h : (2 <= n)%nat -> length h = n -> strictly_rising h ->
  cout (@myrsi_core R ROps n) h = Ok (Some 1).
Proof.
  intros Hn Hl Hr. destruct (whole_rising_G_L n h Hn Hl Hr) as [HG HL].
  destruct (length_pos_snoc h) as (h' & v & ->); [lia|].
  rewrite app_length in Hl. cbn [length] in Hl.
  rewrite myrsi_answer by lia. rewrite HL.
  destruct (Req_EM_T _ 0) as [E|E]; [lra|]. do 2 f_equal. field. lra.
Qed.
(** C05: a strictly falling history of length exactly n >= 2: Rsi(n) = 0, MyRSI(n) = -1 *)
Theorem rsi_falling_whole n h : (2 <= n)%nat -> length h = n -> strictly_falling h ->
  cout (@rsi_core R ROps n) h = Ok (Some 0).
Proof.
  intros Hn Hl Hr. destruct (whole_falling_G_L n h Hn Hl Hr) as [HG HL].
  rewrite rsi_answer by lia. rewrite HG.
  destruct (Req_EM_T (wL n h) 0); [lra|]. do 2 f_equal. field. lra.
Qed.
Theorem myrsi_falling_whole n h : (2 <= n)%nat -> length h = n -> strictly_falling h ->
  cout (@myrsi_core R ROps n) h = Ok (Some (-1)).
Proof.
  intros Hn Hl Hr. destruct (whole_falling_G_L n h Hn Hl Hr) as [HG HL].
  destruct (length_pos_snoc h) as (h' & v & ->); [lia|].
  rewrite app_length in Hl. cbn [length] in Hl.
  rewrite myrsi_answer by lia. rewrite HG.
  destruct (Req_EM_T _ 0) as [E|E]; [lra|]. do 2 f_equal. field. lra.
Qed.

(** the guard n >= 2 is needed: with n = 1 and one value the only change is d_0 = 0, so
    G = L = 0: Rsi answers 100 but MyRSI holds its initial 0 *)
Theorem whole_n1_values x :
  cout (@rsi_core R ROps 1) [x] = Ok (Some 100) /\ cout (@myrsi_core R ROps 1) [x] = Ok (Some 0).
Proof.
  assert (E : lastn 1 (chg [x]) = [0]) by (rewrite lastn_all by (cbn; lia); reflexivity).
  destruct tie_contributes_zero as [G0 L0].
  assert (HG : wG 1 [x] = 0).
  { unfold win_gain, gains. rewrite E, smap_cons, G0. cbn [map]. rewrite ssum_R_nil. lra. }
  assert (HL : wL 1 [x] = 0).
  { unfold win_loss, losses. rewrite E, smap_cons, L0. cbn [map]. rewrite ssum_R_nil. lra. }
  split.
  - rewrite rsi_answer by (cbn; lia). rewrite HL. destruct (Req_EM_T 0 0); [reflexivity | congruence].
  - change [x] with ([] ++ [x]). rewrite myrsi_answer by (cbn; lia). cbn [app]. rewrite HG, HL.
    destruct (Req_EM_T (0 + 0) 0) as [_|E0]; [reflexivity | lra].
Qed.

(** * C13 sanity corollary: the population variance is "mean of squares - square of mean" *)
Lemma spec_rvar_moments_R h : @spec_rvar_moments R ROps h = Rmean (map (fun x => x * x) h) - Rmean h * Rmean h.
Proof. reflexivity. Qed.

Theorem spec_rvar_is_moments h : @spec_rvar R ROps h = @spec_rvar_moments R ROps h.
Proof.
  rewrite spec_rvar_moments_R. unfold spec_rvar. destruct h as [|x0 h0].
  - cbn [length sofnat ROps INR]. rewrite sdivd_R_0. unfold smean. cbn [map length sofnat ROps INR].
    rewrite !sdivd_R_0. lra.
  - set (h := x0 :: h0). assert (Hn : INR (length h) <> 0) by (apply INR_pos_neq; cbn; lia).
    cbn [sofnat ROps]. rewrite sdivd_R by exact Hn. rewrite spec_rdev_R, dev_expand.
    pose proof (Rmean_mul h) as Hm.
    assert (Hsq : Rmean (map (fun x => x * x) h) = Rsum (map (fun x => x * x) h) / INR (length h)).
    { unfold smean. rewrite map_length. cbn [sofnat ROps]. apply sdivd_R. exact Hn. }
    rewrite Hsq, <- Hm. field. exact Hn.
Qed.

(** C13: WelfordRolling answers sqrt (mean of squares - square of mean) on every non-empty history *)
Theorem wrolling_std_is_sqrt_var vs : vs <> [] ->
  cout (@wrolling_core R ROps) vs = Ok (Some (sqrt (Rmean (map (fun x => x * x) vs) - Rmean vs * Rmean vs))).
Proof.
  intros Hne. rewrite wrolling_closed_form by exact Hne. unfold spec_rstd.
  rewrite RollP.ssqrtd_R by apply spec_rvar_nonneg.
  rewrite spec_rvar_is_moments, spec_rvar_moments_R. reflexivity.
Qed.

(** satisfiability of the hypotheses *)
Example starved_constant_hyps :
  exists la s0 o0, mrun (wrap (@sma_core R ROps 3) (@echo R)) [1; 2] = Ok la /\ Forall (fun o => o = None) la /\
    cnew (@gte_core R ROps 0) = Ok s0 /\ clast (@gte_core R ROps 0) s0 = Ok o0.
Proof.
  exists [None; None], None, None. split; [|split; [repeat constructor | split; reflexivity]].
  unfold mrun. cbn [vnew wrap echo cnew sma_core bind]. cbn. reflexivity.
Qed.
Example rising_whole_hyps : (2 <= 3)%nat /\ length [1; 2; 4] = 3%nat /\ strictly_rising [1; 2; 4].
Proof. cbn. repeat split; try lia; lra. Qed.
Example falling_whole_hyps : (2 <= 3)%nat /\ length [4; 2; 1] = 3%nat /\ strictly_falling [4; 2; 1].
Proof. cbn. repeat split; try lia; lra. Qed.
Example wrolling_std_is_sqrt_var_hyps : [1; 2] <> []. Proof. discriminate. Qed.

Print Assumptions starved_constant.
Print Assumptions starved_constant_run.
Print Assumptions rsi_rising_whole.
Print Assumptions myrsi_rising_whole.
Print Assumptions rsi_falling_whole.
Print Assumptions myrsi_falling_whole.
Print Assumptions whole_n1_values.
Print Assumptions spec_rvar_is_moments.
Print Assumptions wrolling_std_is_sqrt_var.
