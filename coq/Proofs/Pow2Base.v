(** C12, floating-point half, at the level of an abstract rounding operator.

    [RndOps rnd cnat cdec] is the real-number instance of the scalar interface in which EVERY arithmetic
    operation is "compute exactly, then round with [rnd]":
        a + b := rnd (a + b)    a - b := rnd (a - b)    a * b := rnd (a * b)
        a / b := rnd (a / b)  (error on b = 0)          sqrt x := rnd (sqrt x)  (error on x < 0)
    negation, absolute value and the three comparisons are exact (as they are in IEEE arithmetic), [s0 = 0],
    [s1 = 1], and the numeric constants are given by two ARBITRARY functions [cnat : nat -> R] (T::from(usize))
    and [cdec : Z -> nat -> R] (decimal literals).  All theorems below hold for every choice of [cnat]/[cdec]:
    in particular for the faithful choice [cnat n = rnd (INR n)], [cdec m k = rnd (m / 10^k)] (used in the FLX
    instance, Pow2Flx.v) and for the exact constants [INR n], [m / 10^k].  Constants are NOT scaled.

    Setting: a scaling factor [sc] with
        (H1) rnd (sc * x) = sc * rnd x   for every real x,       (H2) 0 < sc.
    For radix-2 formats with unbounded exponent range (FLX) and sc = 2^k this is discharged in Pow2Flx.v.
    (H1) for sc*sc follows from (H1) for sc applied twice, so no extra hypothesis is needed for the views
    containing products of two scaled quantities or a square root.

    This file: the instance, the scaling lemmas for each rounded operation, the generic simulation lemma
    ([cout_sim]) and the tactic used by Pow2P.v. *)
From Coq Require Import List Arith Lia Reals Lra ZArith Bool.
From SF Require Import Res Scalar View Models Core.
Import ListNotations.
Open Scope R_scope.

(** map over the result monad *)
Definition rmap {A B : Type} (f : A -> B) (m : res A) : res B :=
  match m with Ok a => Ok (f a) | Err e => Err e end.

Lemma bind_rmap {A B C : Type} (h : A -> B) (m : res A) (k : B -> res C) :
  bind (rmap h m) k = bind m (fun x => k (h x)).
Proof. destruct m; reflexivity. Qed.

Lemma rmap_id {A : Type} (m : res A) : rmap (fun x => x) m = m.
Proof. destruct m; reflexivity. Qed.

(** rounded division and square root, with the model's error cases *)
Definition rdiv_res (rnd : R -> R) (a b : R) : res R :=
  if Reqb b 0 then Err NonFinite else Ok (rnd (a / b)).
Definition rsqrt_res (rnd : R -> R) (x : R) : res R :=
  if Rltb x 0 then Err Domain else Ok (rnd (sqrt x)).

(** the reals with every operation rounded by [rnd] *)
Definition RndOps (rnd : R -> R) (cnat : nat -> R) (cdec : Z -> nat -> R) : Ops R := {|
  s0 := 0; s1 := 1;
  sadd := fun a b => rnd (a + b); ssub := fun a b => rnd (a - b); smul := fun a b => rnd (a * b);
  sneg := Ropp; sabs := Rabs;
  sdiv := rdiv_res rnd;
  sltb := Rltb; sleb := Rleb; seqb := Reqb;
  sofnat := cnat;
  sofdec := cdec;
  ssqrt := rsqrt_res rnd;
  sexp := fun x => Ok (rnd (exp x));
  sln := fun x => if Rle_dec x 0 then Err Domain else Ok (rnd (ln x));
  scos := fun x => Ok (rnd (cos x));
  ssin := fun x => Ok (rnd (sin x));
  stanh := fun x => Ok (rnd (tanh x));
  slog2 := fun x => if Rle_dec x 0 then Err Domain else Ok (rnd (ln x / ln 2));
|}.

(** with [rnd] the identity and exact constants this is the exact instance [ROps] (on + - * / and comparisons) *)
Lemma RndOps_id_div a b : @sdiv R (RndOps (fun x => x) INR (fun m k => IZR m / IZR (10 ^ Z.of_nat k))) a b
                          = @sdiv R ROps a b.
Proof.
  cbn [sdiv RndOps ROps]. unfold rdiv_res, Rdiv_res, Reqb. destruct (Req_EM_T b 0); reflexivity.
Qed.

(* ------------------------------------------------------------------------------------------ *)
(** * Scaling lemmas *)
Section Scale.
Variable rnd : R -> R.
Variable sc : R.
Hypothesis rnd_sc : forall x, rnd (sc * x) = sc * rnd x.      (* H1 *)
Hypothesis sc_pos : 0 < sc.                                    (* H2 *)

Lemma rnd_sc2 x : rnd (sc * sc * x) = sc * sc * rnd x.        (* H1 for sc^2, derived *)
Proof. rewrite !Rmult_assoc, !rnd_sc. reflexivity. Qed.

(** additions / subtractions of two scaled quantities *)
Lemma rnd_add_sc a b : rnd (sc * a + sc * b) = sc * rnd (a + b).
Proof. rewrite <- Rmult_plus_distr_l. apply rnd_sc. Qed.
Lemma rnd_sub_sc a b : rnd (sc * a - sc * b) = sc * rnd (a - b).
Proof. rewrite <- Rmult_minus_distr_l. apply rnd_sc. Qed.
(** ... one of which is the literal 0 = sc * 0 *)
Lemma rnd_add_sc_0l a : rnd (0 + sc * a) = sc * rnd (0 + a).
Proof. rewrite <- rnd_sc. f_equal. ring. Qed.
Lemma rnd_add_sc_0r a : rnd (sc * a + 0) = sc * rnd (a + 0).
Proof. rewrite <- rnd_sc. f_equal. ring. Qed.
Lemma rnd_sub_sc_0l a : rnd (0 - sc * a) = sc * rnd (0 - a).
Proof. rewrite <- rnd_sc. f_equal. ring. Qed.
Lemma rnd_sub_sc_0r a : rnd (sc * a - 0) = sc * rnd (a - 0).
Proof. rewrite <- rnd_sc. f_equal. ring. Qed.
(** product of a scaled quantity and an unscaled one *)
Lemma rnd_mul_sc_l a c : rnd (sc * a * c) = sc * rnd (a * c).
Proof. rewrite Rmult_assoc. apply rnd_sc. Qed.
Lemma rnd_mul_sc_r c a : rnd (c * (sc * a)) = sc * rnd (c * a).
Proof. rewrite <- rnd_sc. f_equal. ring. Qed.
(** product of two scaled quantities: scaled by sc^2 *)
Lemma rnd_mul_sc_sc a b : rnd (sc * a * (sc * b)) = sc * sc * rnd (a * b).
Proof. rewrite <- rnd_sc2. f_equal. ring. Qed.
Lemma rnd_add_sc2 a b : rnd (sc * sc * a + sc * sc * b) = sc * sc * rnd (a + b).
Proof. rewrite <- Rmult_plus_distr_l. apply rnd_sc2. Qed.
Lemma rnd_sub_sc2 a b : rnd (sc * sc * a - sc * sc * b) = sc * sc * rnd (a - b).
Proof. rewrite <- Rmult_minus_distr_l. apply rnd_sc2. Qed.
(** quotients: scaled / unscaled is scaled; scaled / scaled is UNCHANGED (bit-identical) *)
Lemma rnd_div_sc_l a c : rnd (sc * a / c) = sc * rnd (a / c).
Proof. unfold Rdiv. rewrite Rmult_assoc. apply rnd_sc. Qed.
Lemma div_sc_sc a b : sc * a / (sc * b) = a / b.
Proof.
  unfold Rdiv. rewrite Rinv_mult. replace (sc * a * (/ sc * / b)) with (sc * / sc * (a * / b)) by ring.
  rewrite Rinv_r by lra. ring.
Qed.
Lemma rnd_div_sc_sc a b : rnd (sc * a / (sc * b)) = rnd (a / b).
Proof. rewrite div_sc_sc. reflexivity. Qed.
Lemma rnd_div_0_sc b : rnd (0 / (sc * b)) = rnd (0 / b).
Proof. unfold Rdiv. rewrite !Rmult_0_l. reflexivity. Qed.
Lemma rnd_div_sc2_l a c : rnd (sc * sc * a / c) = sc * sc * rnd (a / c).
Proof. unfold Rdiv. rewrite (Rmult_assoc (sc * sc)). apply rnd_sc2. Qed.
(** square root of a quantity scaled by sc^2 *)
Lemma sqrt_sc2 x : sqrt (sc * sc * x) = sc * sqrt x.
Proof. rewrite sqrt_mult_alt by nra. rewrite sqrt_square by lra. reflexivity. Qed.
Lemma rnd_sqrt_sc2 x : rnd (sqrt (sc * sc * x)) = sc * rnd (sqrt x).
Proof. rewrite sqrt_sc2. apply rnd_sc. Qed.

Lemma rnd_sqrt_scsc x : rnd (sqrt (sc * (sc * x))) = sc * rnd (sqrt x).
Proof. rewrite <- Rmult_assoc. apply rnd_sqrt_sc2. Qed.

(** exact operations *)
Lemma opp_sc a : - (sc * a) = sc * - a.
Proof. ring. Qed.
Lemma abs_sc a : Rabs (sc * a) = sc * Rabs a.
Proof. rewrite Rabs_mult, (Rabs_right sc) by lra. reflexivity. Qed.

(** comparisons *)
Lemma Rltb_sc a b : Rltb (sc * a) (sc * b) = Rltb a b.
Proof. unfold Rltb. destruct (Rlt_dec (sc * a) (sc * b)), (Rlt_dec a b); try reflexivity; exfalso; nra. Qed.
Lemma Rleb_sc a b : Rleb (sc * a) (sc * b) = Rleb a b.
Proof. unfold Rleb. destruct (Rle_dec (sc * a) (sc * b)), (Rle_dec a b); try reflexivity; exfalso; nra. Qed.
Lemma Reqb_sc a b : Reqb (sc * a) (sc * b) = Reqb a b.
Proof. unfold Reqb. destruct (Req_EM_T (sc * a) (sc * b)), (Req_EM_T a b); try reflexivity; exfalso; nra. Qed.
Lemma Rltb_sc_0r a : Rltb (sc * a) 0 = Rltb a 0.
Proof. rewrite <- (Rltb_sc a 0), Rmult_0_r. reflexivity. Qed.
Lemma Rltb_sc_0l a : Rltb 0 (sc * a) = Rltb 0 a.
Proof. rewrite <- (Rltb_sc 0 a), Rmult_0_r. reflexivity. Qed.
Lemma Rleb_sc_0r a : Rleb (sc * a) 0 = Rleb a 0.
Proof. rewrite <- (Rleb_sc a 0), Rmult_0_r. reflexivity. Qed.
Lemma Rleb_sc_0l a : Rleb 0 (sc * a) = Rleb 0 a.
Proof. rewrite <- (Rleb_sc 0 a), Rmult_0_r. reflexivity. Qed.
Lemma Reqb_sc_0r a : Reqb (sc * a) 0 = Reqb a 0.
Proof. rewrite <- (Reqb_sc a 0), Rmult_0_r. reflexivity. Qed.
Lemma Reqb_sc_0l a : Reqb 0 (sc * a) = Reqb 0 a.
Proof. rewrite <- (Reqb_sc 0 a), Rmult_0_r. reflexivity. Qed.
(** comparisons of quantities scaled by sc^2 with 0 *)
Lemma sc2_pos : 0 < sc * sc.
Proof. nra. Qed.
Lemma Rltb_sc2_0r a : Rltb (sc * sc * a) 0 = Rltb a 0.
Proof. pose proof sc2_pos. unfold Rltb. destruct (Rlt_dec (sc * sc * a) 0), (Rlt_dec a 0); try reflexivity; exfalso; nra. Qed.
Lemma Rleb_sc2_0r a : Rleb (sc * sc * a) 0 = Rleb a 0.
Proof. pose proof sc2_pos. unfold Rleb. destruct (Rle_dec (sc * sc * a) 0), (Rle_dec a 0); try reflexivity; exfalso; nra. Qed.
Lemma Reqb_sc2_0r a : Reqb (sc * sc * a) 0 = Reqb a 0.
Proof. pose proof sc2_pos. unfold Reqb. destruct (Req_EM_T (sc * sc * a) 0), (Req_EM_T a 0); try reflexivity; exfalso; nra. Qed.

Lemma sc_0 : sc * 0 = 0.
Proof. ring. Qed.

(** scaled lists *)
Definition scl (q : list R) : list R := map (Rmult sc) q.
Lemma scl_app a b : scl (a ++ b) = scl a ++ scl b.
Proof. apply map_app. Qed.
Lemma scl_length q : length (scl q) = length q.
Proof. apply map_length. Qed.
Lemma scl_tl q : tl (scl q) = scl (tl q).
Proof. destruct q; reflexivity. Qed.
Lemma scl_cons x q : scl (x :: q) = sc * x :: scl q.
Proof. reflexivity. Qed.
Lemma scl_nil : scl [] = [].
Proof. reflexivity. Qed.
Lemma scl_single x : [sc * x] = scl [x].
Proof. reflexivity. Qed.
Lemma scl_evict n q : evict n (scl q) = scl (evict n q).
Proof. unfold evict. rewrite scl_length. destruct (Nat.leb n (length q)); [apply scl_tl | reflexivity]. Qed.

Lemma scl_pop_front q : pop_front (scl q) = rmap (fun xq => (sc * fst xq, scl (snd xq))) (pop_front q).
Proof. destruct q; reflexivity. Qed.
Lemma scl_front q : front (scl q) = rmap (Rmult sc) (front q).
Proof. destruct q; reflexivity. Qed.
Lemma scl_match_nil {A : Type} q (a b : A) :
  match scl q with [] => a | _ :: _ => b end = match q with [] => a | _ :: _ => b end.
Proof. destruct q; reflexivity. Qed.

Lemma scl_getq q i : getq (scl q) i = rmap (Rmult sc) (getq q i).
Proof. unfold getq, scl. rewrite nth_error_map. destruct (nth_error q i); reflexivity. Qed.
Lemma scl_rev q : rev (scl q) = scl (rev q).
Proof. unfold scl. symmetry. apply map_rev. Qed.

Definition sco (o : option R) : option R := option_map (Rmult sc) o.

Lemma scl_last_opt q : last_opt (scl q) = sco (last_opt q).
Proof. unfold last_opt. rewrite scl_rev. destruct (rev q); reflexivity. Qed.

End Scale.

(* ------------------------------------------------------------------------------------------ *)
(** * Generic simulation: a state transformer [f] commuting with the step gives the answer on the scaled history *)
Section Sim.
Variable c : core R.
Variable sc : R.
Variable f : cst c -> cst c.
Variable g : option R -> option R.
Hypothesis Hnew : rmap f (cnew c) = cnew c.
Hypothesis Hstep : forall st v, cstep c (f st) (sc * v) = rmap f (cstep c st v).

Lemma cfold_sim vs : forall st, cfold c (f st) (map (Rmult sc) vs) = rmap f (cfold c st vs).
Proof.
  induction vs as [|v vs IH]; intros st; cbn [map cfold]; [reflexivity|].
  rewrite Hstep. destruct (cstep c st v) as [st'|e]; cbn [rmap bind]; [apply IH | reflexivity].
Qed.

Lemma crun_sim vs : crun c (map (Rmult sc) vs) = rmap f (crun c vs).
Proof.
  unfold crun. destruct (cnew c) as [st|e] eqn:E; cbn [bind rmap] in *; [|reflexivity].
  injection Hnew as Hf. rewrite <- Hf at 1. apply cfold_sim.
Qed.

Hypothesis Hlast : forall st, clast c (f st) = rmap g (clast c st).

Lemma cout_sim vs : cout c (map (Rmult sc) vs) = rmap g (cout c vs).
Proof.
  unfold cout. rewrite crun_sim. destruct (crun c vs) as [st|e]; cbn [bind rmap]; [apply Hlast | reflexivity].
Qed.
End Sim.

(* ------------------------------------------------------------------------------------------ *)
(** * Tactics: unfold the operations, push the scaling outwards, split on the (now identical) tests *)
Ltac opsimp :=
  cbn [s0 s1 sadd ssub smul sneg sabs sdiv sltb sleb seqb sofnat sofdec ssqrt sexp sln scos ssin stanh slog2 RndOps sgtb sgeb sneb];
  unfold rdiv_res, rsqrt_res, sneb, sgtb, sgeb;
  cbn [s0 s1 sadd ssub smul sneg sabs sdiv sltb sleb seqb sofnat sofdec ssqrt sexp sln scos ssin stanh slog2 RndOps].

Ltac sc_rw_with rnd sc rnd_sc sc_pos :=
  repeat first
    [ rewrite (rnd_add_sc rnd sc rnd_sc) | rewrite (rnd_sub_sc rnd sc rnd_sc)
    | rewrite (rnd_add_sc_0l rnd sc rnd_sc) | rewrite (rnd_add_sc_0r rnd sc rnd_sc)
    | rewrite (rnd_sub_sc_0l rnd sc rnd_sc) | rewrite (rnd_sub_sc_0r rnd sc rnd_sc)
    | rewrite (rnd_mul_sc_l rnd sc rnd_sc) | rewrite (rnd_mul_sc_r rnd sc rnd_sc)
    | rewrite (rnd_div_sc_sc rnd sc sc_pos) | rewrite (rnd_div_0_sc rnd sc)
    | rewrite (rnd_div_sc_l rnd sc rnd_sc)
    | rewrite (rnd_sqrt_scsc rnd sc rnd_sc sc_pos)
    | rewrite (abs_sc sc sc_pos) | rewrite (opp_sc sc)
    | rewrite (Rltb_sc sc sc_pos) | rewrite (Rleb_sc sc sc_pos) | rewrite (Reqb_sc sc sc_pos)
    | rewrite (Rltb_sc_0r sc sc_pos) | rewrite (Rltb_sc_0l sc sc_pos)
    | rewrite (Rleb_sc_0r sc sc_pos) | rewrite (Rleb_sc_0l sc sc_pos)
    | rewrite (Reqb_sc_0r sc sc_pos) | rewrite (Reqb_sc_0l sc sc_pos)
    | rewrite (scl_length sc) | rewrite (scl_tl sc) | rewrite (scl_evict sc)
    | rewrite (scl_single sc)
    | rewrite (scl_pop_front sc) | rewrite (scl_front sc) | rewrite (scl_getq sc) | rewrite (scl_match_nil sc)
    | rewrite bind_rmap | rewrite (sc_0 sc)
    | rewrite <- (scl_app sc) ].

Ltac brk :=
  match goal with
  | |- context [if ?b then _ else _] =>
      lazymatch b with context [if _ then _ else _] => fail | _ => destruct b eqn:? end
  | |- context [match ?q with [] => _ | _ :: _ => _ end] => is_var q; destruct q
  | |- context [pop_front ?q] => is_var q; destruct q
  | |- context [front ?q] => is_var q; destruct q
  | |- context [match ?o with Some _ => _ | None => _ end] => is_var o; destruct o
  | |- context [usub ?a ?b] => destruct (usub a b) eqn:?
  | |- context [getq ?q ?i] => destruct (getq q i) eqn:?
  end.

Ltac red1 :=
  cbn [bind rmap pop_front front fst snd tl sco option_map negb andb orb
       sma_q sma_sum cum_q cum_out ema_last ema_out ema_n ext_q ext_opt
       rsi_gain rsi_loss rsi_oldref rsi_lastval rsi_q rsi_out
       my_cu my_cd my_out my_q my_lastval my_oldest roc_oldest roc_q roc_out
       hln_q hln_min hln_max hln_last hln_init wo_q wo_mean wo_m2 wo_count
       dd_max dd_peak dd_min be_q be_p lr_len lr_prev lr_value fx_lastval fx_lastm fx_q fx_out
       ss_i ss_filt ss_f1 ss_f2 ss_lastval ss_c1 ss_c2 ss_c3 lg_prev lg_out lg_len
       rf_ss rf_i rf_v1 rf_v2 rf_hp1 rf_hp2 cc_vals cc_out al_wsum al_cw al_qv al_qw al_qo
       wr_mean wr_s wr_n].

Ltac crush_with rnd sc rnd_sc sc_pos := repeat (opsimp; red1; sc_rw_with rnd sc rnd_sc sc_pos; try reflexivity; try brk).

