(** General lemmas for the linear recursive filters: constants at [R], lags, linear combinations of
    histories, window indexing. *)
From Coq Require Import List Arith Lia ZArith Reals Lra.
From SF Require Import Res Scalar View Models Spec Core SpecLin.
From SF.Proofs Require Import Window RBase.
Import ListNotations.
Open Scope R_scope.

(** * constants *)
Lemma sofdec_R_0 m : @sofdec R ROps m 0 = IZR m.
Proof. cbn [sofdec ROps]. replace (10 ^ Z.of_nat 0)%Z with 1%Z by reflexivity. lra. Qed.
Lemma l_two_R : @l_two R ROps = 2. Proof. unfold l_two. apply sofdec_R_0. Qed.
Lemma l_six_R : @l_six R ROps = 6. Proof. unfold l_six. apply sofdec_R_0. Qed.
Lemma two_R : @sofdec R ROps 2 0 = 2. Proof. apply sofdec_R_0. Qed.
Lemma six_R : @sofdec R ROps 6 0 = 6. Proof. apply sofdec_R_0. Qed.
Lemma half_R : @sofdec R ROps 5 1 = / 2.
Proof. cbn [sofdec ROps]. replace (10 ^ Z.of_nat 1)%Z with 10%Z by reflexivity. lra. Qed.
Lemma sdivd_two a : @sdivd R ROps a 2 = a / 2. Proof. apply sdivd_R. lra. Qed.
Lemma sdivd_six a : @sdivd R ROps a 6 = a / 6. Proof. apply sdivd_R. lra. Qed.
Lemma sdiv_two a : @sdiv R ROps a 2 = Ok (a / 2). Proof. apply sdiv_R_ok. lra. Qed.
Lemma sdiv_six a : @sdiv R ROps a 6 = Ok (a / 6). Proof. apply sdiv_R_ok. lra. Qed.

(** * lags *)
Section Lag.
Local Existing Instance ROps.

Lemma lagx_0 (h : list R) t : lagx h t 0 = nth t h 0.
Proof. unfold lagx. cbn [Nat.ltb Nat.leb]. rewrite Nat.sub_0_r. reflexivity. Qed.

Lemma lagx_ge (h : list R) t j : (j <= t)%nat -> lagx h t j = nth (t - j) h 0.
Proof. intros H. unfold lagx. destruct (Nat.ltb_spec t j); [lia | reflexivity]. Qed.

Lemma lagx_lt (h : list R) t j : (t < j)%nat -> lagx h t j = 0.
Proof. intros H. unfold lagx. destruct (Nat.ltb_spec t j); [reflexivity | lia]. Qed.

(** causality: the lags at time [t] only see the first [t+1] values *)
Lemma lagx_app (h : list R) v t j : (t < length h)%nat -> lagx (h ++ [v]) t j = lagx h t j.
Proof.
  intros H. unfold lagx. destruct (Nat.ltb t j); [reflexivity|]. apply app_nth1. lia.
Qed.

Lemma lagx_app_last (h : list R) v : lagx (h ++ [v]) (length h) 0 = v.
Proof. rewrite lagx_0. rewrite app_nth2 by lia. rewrite Nat.sub_diag. reflexivity. Qed.

Lemma lagx_app_S (h : list R) v t j : (t <= length h)%nat -> lagx (h ++ [v]) t (S j) = lagx h t (S j).
Proof.
  intros H. unfold lagx. destruct (Nat.ltb_spec t (S j)); [reflexivity|]. apply app_nth1. lia.
Qed.

Lemma lagx_repeat c L t j : (j <= t)%nat -> (t < L)%nat -> lagx (repeat c L) t j = c.
Proof.
  intros H1 H2. rewrite lagx_ge by assumption.
  rewrite (nth_indep _ 0 c) by (rewrite repeat_length; lia). apply nth_repeat.
Qed.
End Lag.

(** * linear combinations of histories *)
Section Comb.
Local Existing Instance ROps.

Lemma lcomb_length a b (xs ys : list R) : length xs = length ys -> length (lcomb a b xs ys) = length xs.
Proof. intros H. unfold lcomb. rewrite map_length, combine_length. lia. Qed.

Lemma lcomb_nth a b (xs ys : list R) i : length xs = length ys ->
  nth i (lcomb a b xs ys) 0 = a * nth i xs 0 + b * nth i ys 0.
Proof.
  revert ys i. induction xs as [|x xs IH]; intros ys i H; destruct ys as [|y ys]; try discriminate.
  - cbn. destruct i; lra.
  - destruct i; [reflexivity|]. cbn [lcomb combine map nth]. apply (IH ys i). cbn in H. lia.
Qed.

Lemma lagx_lcomb a b (xs ys : list R) t j : length xs = length ys ->
  lagx (lcomb a b xs ys) t j = a * lagx xs t j + b * lagx ys t j.
Proof.
  intros H. unfold lagx. destruct (Nat.ltb t j); [cbn; lra|]. apply lcomb_nth; assumption.
Qed.

Lemma lcomb_scale a (xs : list R) : lcomb a 0 xs xs = map (Rmult a) xs.
Proof.
  unfold lcomb. induction xs as [|x xs IH]; [reflexivity|]. cbn [combine map fst snd]. rewrite IH.
  f_equal. cbn. lra.
Qed.

Lemma lcomb_firstn a b (xs ys : list R) k :
  firstn k (lcomb a b xs ys) = lcomb a b (firstn k xs) (firstn k ys).
Proof. unfold lcomb. rewrite firstn_map, combine_firstn. reflexivity. Qed.
End Comb.

(** * window indexing *)
Section Idx.
Context {A : Type}.

Lemma nth_error_skipn (l : list A) k i : nth_error (skipn k l) i = nth_error l (k + i).
Proof.
  revert k; induction l as [|x l IH]; intros k.
  - rewrite skipn_nil. destruct i, k; reflexivity.
  - destruct k; [reflexivity|]. cbn. apply IH.
Qed.

Lemma nth_error_lastn n (l : list A) i : (n <= length l)%nat ->
  nth_error (lastn n l) i = nth_error l (length l - n + i).
Proof. intros H. unfold lastn. apply nth_error_skipn. Qed.

Lemma tl_skipn (l : list A) k : tl (skipn k l) = skipn (S k) l.
Proof.
  revert k; induction l as [|x l IH]; intros k.
  - rewrite !skipn_nil. reflexivity.
  - destruct k; [reflexivity|]. cbn [skipn]. apply IH.
Qed.

(** evicting the oldest element of a (possibly not yet full) window of [n] *)
Lemma evict_lastn n (l : list A) : (1 <= n)%nat ->
  (if Nat.leb n (length (lastn n l)) then tl (lastn n l) else lastn n l) = lastn (n - 1) l.
Proof.
  intros Hn. rewrite lastn_length. destruct (Nat.leb_spec n (Nat.min n (length l))) as [H|H].
  - unfold lastn. rewrite tl_skipn. f_equal. lia.
  - rewrite !lastn_all by lia. reflexivity.
Qed.

Lemma nth_error_Some_nth (l : list A) i d : (i < length l)%nat -> nth_error l i = Some (nth i l d).
Proof. intros H. apply nth_error_nth'. assumption. Qed.
End Idx.

Lemma last_opt_snoc (l : list R) z : @last_opt R (l ++ [z]) = Some z.
Proof. unfold last_opt. rewrite rev_app_distr. reflexivity. Qed.
