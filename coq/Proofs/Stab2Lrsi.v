(** C09 for LaguerreRSI: fading of the four-stage ladder (pole gamma = 2/(n+1)) and convergence of the outputs of
    two runs with a common tail while CU + CD stays away from 0.  (BIBO: the output is in [0,1], [lrsi_range].)
    n = 1: gamma = 1, the ladder ignores its input: all stages stay 0 and the view never reports a value.
    n >= 2: gamma in (0, 2/3]; the stage differences of two runs evolve with zero input and decay like
    A (2k+1)^3 gamma^(k-3). *)
From Coq Require Import List Arith Lia ZArith Reals Lra.
From SF Require Import Res Scalar View Models Spec Core SpecEhl.
From SF.Proofs Require Import Window RBase EhlBase EhlLrsi StabBase StabLag.
Import ListNotations.
Open Scope R_scope.
Local Existing Instance ROps.

Definition lag4R := (R * R * R * R)%type.
Definition sub4 (a b : lag4R) : lag4R :=
  let '(a0, a1, a2, a3) := a in let '(b0, b1, b2, b3) := b in (a0 - b0, a1 - b1, a2 - b2, a3 - b3).

(** * gamma *)
Lemma gam_range n : (2 <= n)%nat -> 0 < gam n < 1.
Proof.
  intros Hn. rewrite gam_eq. assert (H : 2 <= INR n) by (apply (le_INR 2 n) in Hn; cbn in Hn; lra).
  set (x := INR n) in *. clearbody x. split.
  - apply Rdiv_lt_0_compat; lra.
  - apply (Rmult_lt_reg_r (x + 1)); [lra|]. replace (2 / (x + 1) * (x + 1)) with 2 by (field; lra). lra.
Qed.

Lemma gam_1 : gam 1 = 1.
Proof. rewrite gam_eq. cbn [INR]. lra. Qed.

(** * n = 1: the ladder is deaf *)
Lemma lad_step_g1_zero x : @lad_step R ROps 1 (0, 0, 0, 0) x = (0, 0, 0, 0).
Proof.
  unfold lad_step. cbn [sadd ssub smul sneg s1 ROps].
  apply f_equal2; [apply f_equal2; [apply f_equal2|]|]; ring.
Qed.

Lemma lrsi_stages_g1 xs : @lrsi_stages R ROps 1 xs = (0, 0, 0, 0).
Proof.
  induction xs as [|x xs IH] using rev_ind; [reflexivity|]. rewrite lrsi_stages_snoc, IH. apply lad_step_g1_zero.
Qed.

Lemma lrsi_val_g1 xs : @lrsi_val R ROps 1 xs = None.
Proof.
  unfold lrsi_val. rewrite lrsi_stages_g1. unfold lrsi_cu, lrsi_cd. rewrite !spos_R. cbn [sadd ssub seqb s0 ROps].
  replace (0 - 0) with 0 by ring. rewrite Rmax_left by lra.
  destruct (Reqb (0 + 0 + 0 + (0 + 0 + 0)) 0) eqn:E; [reflexivity | apply Reqb_false in E; lra].
Qed.

(** C09 (LaguerreRSI, n = 1): gamma = 1, every stage is 0 for ever and no value is ever reported *)
Theorem lrsi_n1_silent h : cout (@lrsi_core R ROps 1) h = Ok None.
Proof.
  rewrite lrsi_closed_form. f_equal. unfold spec_lrsi. fold (gam 1). rewrite gam_1.
  induction (skipn 2 h) as [|x l IH] using rev_ind; [reflexivity|].
  rewrite hold_last_snoc, lrsi_val_g1. exact IH.
Qed.

(** * linearity of the ladder: the difference of two runs evolves with zero input *)
Lemma lad_step_sub g a b x y :
  @lad_step R ROps g (sub4 a b) (x - y) = sub4 (@lad_step R ROps g a x) (@lad_step R ROps g b y).
Proof.
  destruct a as [[[a0 a1] a2] a3]. destruct b as [[[b0 b1] b2] b3].
  unfold lad_step, sub4. cbn [sadd ssub smul sneg s1 ROps].
  apply f_equal2; [apply f_equal2; [apply f_equal2|]|]; ring.
Qed.

Lemma lrsi_stages_app g xs ys :
  @lrsi_stages R ROps g (xs ++ ys) = fold_left (@lad_step R ROps g) ys (@lrsi_stages R ROps g xs).
Proof. unfold lrsi_stages. apply fold_left_app. Qed.

Lemma fold_lad_ext g (l : list R) st : fold_left (@lad_step R ROps g) l st = fold_left (@lag_ladder R ROps g) l st.
Proof. reflexivity. Qed.

Lemma stages_diff g q q' s :
  sub4 (@lrsi_stages R ROps g (q ++ s)) (@lrsi_stages R ROps g (q' ++ s))
  = lagZ g (sub4 (@lrsi_stages R ROps g q) (@lrsi_stages R ROps g q')) (length s).
Proof.
  induction s as [|x s IH] using rev_ind.
  - rewrite !app_nil_r. reflexivity.
  - rewrite !app_assoc, !lrsi_stages_snoc, app_length. cbn [length]. rewrite Nat.add_1_r, lagZ_S, <- IH.
    pose proof (lad_step_sub g (@lrsi_stages R ROps g (q ++ s)) (@lrsi_stages R ROps g (q' ++ s)) x x) as H.
    replace (x - x) with 0 in H by ring. symmetry. exact H.
Qed.

(** * decay of every stage under zero input *)
Lemma lagZ_stage_bounds g A st : 0 <= g < 1 -> 0 <= A ->
  Rabs (P0 st) <= A -> Rabs (P1 st) <= A -> Rabs (P2 st) <= A -> Rabs (P3 st) <= A ->
  forall k, let B := A * (2 * INR k + 1) ^ 3 * g ^ (k - 3) in
  Rabs (P0 (lagZ g st k)) <= B /\ Rabs (P1 (lagZ g st k)) <= B /\ Rabs (P2 (lagZ g st k)) <= B /\ Rabs (P3 (lagZ g st k)) <= B.
Proof.
  intros Hg HA H0 H1 H2 H3.
  assert (B0 : forall k, Rabs (P0 (lagZ g st k)) <= A * (2 * INR k + 1) ^ 0 * g ^ (k - 0)).
  { induction k as [|k IH]; [cbn [pow Nat.sub]; unfold lagZ; cbn [repeat fold_left]; lra|].
    destruct (lagZ_rec g st k) as [E _]. rewrite E, Rabs_mult, (Rabs_pos_eq g) by lra.
    rewrite !Nat.sub_0_r in *. cbn [pow] in *. nra. }
  assert (B1 := @allpass_cascade g A 0 (fun k => P0 (lagZ g st k)) (fun k => P1 (lagZ g st k)) Hg HA B0 H1
                 (fun k => proj1 (proj2 (lagZ_rec g st k)))).
  assert (B2 := @allpass_cascade g A 1 (fun k => P1 (lagZ g st k)) (fun k => P2 (lagZ g st k)) Hg HA B1 H2
                 (fun k => proj1 (proj2 (proj2 (lagZ_rec g st k))))).
  assert (B3 := @allpass_cascade g A 2 (fun k => P2 (lagZ g st k)) (fun k => P3 (lagZ g st k)) Hg HA B2 H3
                 (fun k => proj2 (proj2 (proj2 (lagZ_rec g st k))))).
  intros k. specialize (B0 k). specialize (B1 k). specialize (B2 k). specialize (B3 k). cbv beta zeta in *.
  set (m := 2 * INR k + 1) in *. assert (Hm : 1 <= m) by (unfold m; pose proof (pos_INR k); lra).
  clearbody m.
  assert (Hg' : 0 <= g <= 1) by lra.
  pose proof (@pow_anti g (k - 3) (k - 0) Hg' ltac:(lia)) as E0.
  pose proof (@pow_anti g (k - 3) (k - 1) Hg' ltac:(lia)) as E1.
  pose proof (@pow_anti g (k - 3) (k - 2) Hg' ltac:(lia)) as E2.
  pose proof (pow_le g (k - 3) ltac:(lra)) as E3.
  set (G := g ^ (k - 3)) in *. clearbody G.
  set (g0 := g ^ (k - 0)) in *. set (g1 := g ^ (k - 1)) in *. set (g2 := g ^ (k - 2)) in *.
  clearbody g0 g1 g2. cbn [pow] in *. rewrite ?Rmult_1_r in *.
  assert (Hm2 : m <= m * m) by nra. assert (Hm3 : m * m <= m * (m * m)) by nra.
  set (m3 := m * (m * m)) in *.
  assert (Q0 : Rabs (P0 (lagZ g st k)) <= A * m3 * G).
  { assert (A * g0 <= A * G) by (apply Rmult_le_compat_l; lra).
    assert (A * 1 * G <= A * m3 * G) by (apply Rmult_le_compat_r; [lra | apply Rmult_le_compat_l; lra]). lra. }
  assert (Q1 : Rabs (P1 (lagZ g st k)) <= A * m3 * G).
  { assert (0 <= A * m) by (apply Rmult_le_pos; lra).
    assert (A * m * g1 <= A * m * G) by (apply Rmult_le_compat_l; lra).
    assert (A * m * G <= A * m3 * G) by (apply Rmult_le_compat_r; [lra | apply Rmult_le_compat_l; lra]). lra. }
  assert (Q2 : Rabs (P2 (lagZ g st k)) <= A * m3 * G).
  { assert (0 <= A * (m * m)) by (apply Rmult_le_pos; nra).
    assert (A * (m * m) * g2 <= A * (m * m) * G) by (apply Rmult_le_compat_l; lra).
    assert (A * (m * m) * G <= A * m3 * G) by (apply Rmult_le_compat_r; [lra | apply Rmult_le_compat_l; lra]). lra. }
  repeat split; assumption.
Qed.

(** the envelope tends to 0 *)
Lemma lad_env_zero g A : 0 <= g < 1 -> 0 <= A -> forall eps, 0 < eps ->
  exists M, forall k, (M <= k)%nat -> A * (2 * INR k + 1) ^ 3 * g ^ (k - 3) < eps.
Proof.
  intros Hg HA eps He.
  (* (2k+1)^3 g^(k-3) <= 7^3 (2(k-3)+1)^3 g^(k-3) for k >= 3 *)
  destruct (@polyj_geo_zero 3 g Hg (eps / (A * 343 + 1))) as [M HM].
  { apply Rdiv_lt_0_compat; [exact He | nra]. }
  exists (M + 3)%nat. intros k Hk. specialize (HM (k - 3)%nat ltac:(lia)).
  set (j := (k - 3)%nat) in *. assert (Ek : INR k = INR j + 3).
  { unfold j. rewrite minus_INR by lia. cbn [INR]. lra. }
  rewrite Ek. pose proof (pos_INR j) as Hj. set (x := INR j) in *. clearbody x.
  assert (Hp : 0 <= g ^ j) by (apply pow_le; lra). set (G := g ^ j) in *. clearbody G.
  assert (H7 : 2 * (x + 3) + 1 <= 7 * (2 * x + 1)) by lra.
  assert (Hc : (2 * (x + 3) + 1) ^ 3 <= 343 * (2 * x + 1) ^ 3).
  { replace (343 * (2 * x + 1) ^ 3) with ((7 * (2 * x + 1)) ^ 3) by ring. apply pow_incr. lra. }
  assert (Hq : 0 <= (2 * x + 1) ^ 3) by (apply pow_le; lra).
  set (Q := (2 * x + 1) ^ 3) in *. set (Q' := (2 * (x + 3) + 1) ^ 3) in *. clearbody Q Q'.
  apply (Rmult_lt_compat_r (A * 343 + 1)) in HM; [|nra].
  replace (eps / (A * 343 + 1) * (A * 343 + 1)) with eps in HM by (field; nra).
  assert (0 <= Q * G) by (apply Rmult_le_pos; assumption).
  assert (A * Q' * G <= A * (343 * Q) * G).
  { apply Rmult_le_compat_r; [exact Hp|]. apply Rmult_le_compat_l; [exact HA | exact Hc]. }
  nra.
Qed.

(** * CU, CD are Lipschitz in the stages; the ratio is Lipschitz while CU + CD >= eps0 *)
Lemma Rmax0_lip x y : Rabs (Rmax 0 x - Rmax 0 y) <= Rabs (x - y).
Proof.
  unfold Rmax. destruct (Rle_dec 0 x); destruct (Rle_dec 0 y); unfold Rabs;
  repeat match goal with |- context [Rcase_abs ?z] => destruct (Rcase_abs z) end; lra.
Qed.

Lemma lrsi_cu_lip (l l' : lag4R) B :
  Rabs (P0 (sub4 l l')) <= B -> Rabs (P1 (sub4 l l')) <= B -> Rabs (P2 (sub4 l l')) <= B -> Rabs (P3 (sub4 l l')) <= B ->
  Rabs (@lrsi_cu R ROps l - @lrsi_cu R ROps l') <= 6 * B /\ Rabs (@lrsi_cd R ROps l - @lrsi_cd R ROps l') <= 6 * B.
Proof.
  destruct l as [[[a0 a1] a2] a3]. destruct l' as [[[b0 b1] b2] b3]. cbn [sub4 P0 P1 P2 P3].
  intros H0 H1 H2 H3. unfold lrsi_cu, lrsi_cd. rewrite !spos_R. cbn [sadd ssub ROps].
  pose proof (Rmax0_lip (a0 - a1) (b0 - b1)) as X1. pose proof (Rmax0_lip (a1 - a2) (b1 - b2)) as X2.
  pose proof (Rmax0_lip (a2 - a3) (b2 - b3)) as X3. pose proof (Rmax0_lip (a1 - a0) (b1 - b0)) as Y1.
  pose proof (Rmax0_lip (a2 - a1) (b2 - b1)) as Y2. pose proof (Rmax0_lip (a3 - a2) (b3 - b2)) as Y3.
  apply Rabs_le_between in H0. apply Rabs_le_between in H1. apply Rabs_le_between in H2. apply Rabs_le_between in H3.
  assert (Z1 : Rabs (a0 - a1 - (b0 - b1)) <= 2 * B) by (apply Rabs_le; lra).
  assert (Z2 : Rabs (a1 - a2 - (b1 - b2)) <= 2 * B) by (apply Rabs_le; lra).
  assert (Z3 : Rabs (a2 - a3 - (b2 - b3)) <= 2 * B) by (apply Rabs_le; lra).
  assert (W1 : Rabs (a1 - a0 - (b1 - b0)) <= 2 * B) by (apply Rabs_le; lra).
  assert (W2 : Rabs (a2 - a1 - (b2 - b1)) <= 2 * B) by (apply Rabs_le; lra).
  assert (W3 : Rabs (a3 - a2 - (b3 - b2)) <= 2 * B) by (apply Rabs_le; lra).
  apply Rabs_le_between in X1. apply Rabs_le_between in X2. apply Rabs_le_between in X3.
  apply Rabs_le_between in Y1. apply Rabs_le_between in Y2. apply Rabs_le_between in Y3.
  split; apply Rabs_le; lra.
Qed.

Lemma ratio_lip cu cd cu' cd' e0 B : 0 < e0 -> 0 <= cu -> 0 <= cd -> 0 <= cu' -> 0 <= cd' ->
  e0 <= cu + cd -> e0 <= cu' + cd' -> Rabs (cu - cu') <= B -> Rabs (cd - cd') <= B ->
  Rabs (cu / (cu + cd) - cu' / (cu' + cd')) <= 3 * B / e0.
Proof.
  intros He Hu Hd Hu' Hd' HD HD' Bu Bd. set (D := cu + cd) in *. set (D' := cu' + cd') in *.
  assert (BD : Rabs (D - D') <= 2 * B).
  { apply Rabs_le_between in Bu. apply Rabs_le_between in Bd. unfold D, D'. apply Rabs_le. lra. }
  assert (Hr : 0 <= cu / D <= 1).
  { split; [apply Rle_mult_inv_pos; lra|]. apply (Rmult_le_reg_r D); [lra|].
    replace (cu / D * D) with cu by (field; lra). unfold D. lra. }
  replace (cu / D - cu' / D') with ((cu / D) * ((D' - D) / D') + (cu - cu') / D') by (field; split; lra).
  eapply Rle_trans; [apply Rabs_triang|].
  assert (HiD : 0 < / D' <= / e0) by (split; [apply Rinv_0_lt_compat; lra | apply Rinv_le_contravar; lra]).
  assert (T1 : Rabs (cu / D * ((D' - D) / D')) <= 2 * B / e0).
  { rewrite Rabs_mult, (Rabs_pos_eq (cu / D)) by lra. unfold Rdiv at 2. rewrite Rabs_mult, (Rabs_pos_eq (/ D')) by lra.
    rewrite (Rabs_minus_sym D' D). pose proof (Rabs_pos (D - D')) as P.
    assert (Rabs (D - D') * / D' <= 2 * B * / e0) by (apply Rmult_le_compat; lra).
    assert (0 <= Rabs (D - D') * / D') by (apply Rmult_le_pos; lra). unfold Rdiv. nra. }
  assert (T2 : Rabs ((cu - cu') / D') <= B / e0).
  { unfold Rdiv. rewrite Rabs_mult, (Rabs_pos_eq (/ D')) by lra. pose proof (Rabs_pos (cu - cu')).
    apply Rmult_le_compat; lra. }
  unfold Rdiv in *. lra.
Qed.

(** * the outputs *)
Definition lrsi_den (n : nat) (h : list R) : R :=
  @lrsi_cu R ROps (@lrsi_stages R ROps (gam n) (skipn 2 h)) + @lrsi_cd R ROps (@lrsi_stages R ROps (gam n) (skipn 2 h)).

Lemma lrsi_out_nondeg n h o : 0 < lrsi_den n h -> cout (@lrsi_core R ROps n) h = Ok (Some o) ->
  o = @lrsi_cu R ROps (@lrsi_stages R ROps (gam n) (skipn 2 h)) / lrsi_den n h.
Proof.
  intros Hd. rewrite lrsi_closed_form. unfold spec_lrsi. fold (gam n). unfold lrsi_den in *.
  destruct (skipn 2 h) as [|x l _] using rev_ind.
  - exfalso. cbn in Hd. rewrite !spos_R in Hd. cbn [ssub ROps] in Hd. replace (0 - 0) with 0 in Hd by ring.
    rewrite Rmax_left in Hd by lra. lra.
  - rewrite hold_last_snoc. unfold lrsi_val at 1. cbn [seqb sadd s0 ROps].
    destruct (Reqb _ 0) eqn:E; [apply Reqb_true in E; lra|].
    rewrite sdivd_R by lra. intros H. injection H as H. symmetry. exact H.
Qed.

Lemma stages_bd g U q : 0 <= g < 1 -> 0 <= U -> bounded U q -> lag_bd g U (@lrsi_stages R ROps g q).
Proof.
  intros Hg HU Hb. unfold lrsi_stages. rewrite fold_lad_ext. apply lag_bd_fold; [exact Hg | exact Hb|].
  destruct (lag_k_ge1 g Hg) as [Hk _]. unfold lag_bd. cbn [s0 ROps]. rewrite Rabs_R0.
  set (k := lag_k g) in *. clearbody k. assert (0 <= k * U) by nra. assert (0 <= k * (k * U)) by nra.
  assert (0 <= k * (k * (k * U))) by nra. repeat split; lra.
Qed.

(** C09 (LaguerreRSI ladder): the stages of two runs with a common tail s differ by at most
    2 k^3 U (2j+1)^3 gamma^(j-3), j = |s| - 2 (at most two tail values are swallowed by the warm-up), k = (1+g)/(1-g);
    the prefixes are bounded by U, the tail is arbitrary *)
Theorem lrsi_ladder_fading n U p p' s : (2 <= n)%nat -> 0 <= U -> length p = length p' -> bounded U p -> bounded U p' ->
  let g := gam n in
  let d := sub4 (@lrsi_stages R ROps g (skipn 2 (p ++ s))) (@lrsi_stages R ROps g (skipn 2 (p' ++ s))) in
  let j := length (skipn (2 - length p) s) in
  let B := 2 * (lag_k g * (lag_k g * (lag_k g * U))) * (2 * INR j + 1) ^ 3 * g ^ (j - 3) in
  Rabs (P0 d) <= B /\ Rabs (P1 d) <= B /\ Rabs (P2 d) <= B /\ Rabs (P3 d) <= B.
Proof.
  intros Hn HU Hl Hp Hp'. cbv zeta. pose proof (gam_range n Hn) as Hg. set (g := gam n) in *.
  rewrite !skipn_app, <- Hl. set (q := skipn 2 p). set (q' := skipn 2 p'). set (s' := skipn (2 - length p) s).
  rewrite stages_diff.
  assert (Bq : bounded U q) by (unfold q; rewrite <- (firstn_skipn 2 p) in Hp; apply bounded_app in Hp; apply Hp).
  assert (Bq' : bounded U q') by (unfold q'; rewrite <- (firstn_skipn 2 p') in Hp'; apply bounded_app in Hp'; apply Hp').
  pose proof (stages_bd g U q ltac:(lra) HU Bq) as S1. pose proof (stages_bd g U q' ltac:(lra) HU Bq') as S2.
  destruct (@lrsi_stages R ROps g q) as [[[a0 a1] a2] a3]. destruct (@lrsi_stages R ROps g q') as [[[b0 b1] b2] b3].
  destruct S1 as (A0 & A1 & A2 & A3). destruct S2 as (C0 & C1 & C2 & C3).
  destruct (lag_k_ge1 g ltac:(lra)) as [Hk _]. set (k := lag_k g) in *. clearbody k.
  assert (U <= k * U) by nra. assert (k * U <= k * (k * U)) by nra. assert (k * (k * U) <= k * (k * (k * U))) by nra.
  set (K3 := k * (k * (k * U))) in *.
  apply (lagZ_stage_bounds g (2 * K3) _ ltac:(lra) ltac:(lra)); cbn [sub4 P0 P1 P2 P3];
  repeat match goal with H : Rabs _ <= _ |- _ => apply Rabs_le_between in H end; apply Rabs_le; lra.
Qed.

(** C09 (LaguerreRSI), explicit: with CU + CD >= eps0 in both runs at the time of evaluation *)
Theorem lrsi_fading_nondegenerate_explicit n U eps0 p p' s o o' : (2 <= n)%nat -> 0 <= U -> 0 < eps0 ->
  length p = length p' -> bounded U p -> bounded U p' ->
  eps0 <= lrsi_den n (p ++ s) -> eps0 <= lrsi_den n (p' ++ s) ->
  cout (@lrsi_core R ROps n) (p ++ s) = Ok (Some o) -> cout (@lrsi_core R ROps n) (p' ++ s) = Ok (Some o') ->
  let g := gam n in let j := length (skipn (2 - length p) s) in
  Rabs (o - o') <= 3 * (6 * (2 * (lag_k g * (lag_k g * (lag_k g * U))) * (2 * INR j + 1) ^ 3 * g ^ (j - 3))) / eps0.
Proof.
  intros Hn HU He Hl Hp Hp' Hd Hd' Ho Ho'. cbv zeta.
  assert (Pd : 0 < lrsi_den n (p ++ s)) by lra. assert (Pd' : 0 < lrsi_den n (p' ++ s)) by lra.
  rewrite (lrsi_out_nondeg n _ o Pd Ho), (lrsi_out_nondeg n _ o' Pd' Ho').
  destruct (lrsi_ladder_fading n U p p' s Hn HU Hl Hp Hp') as (B0 & B1 & B2 & B3).
  unfold lrsi_den in *.
  set (l := @lrsi_stages R ROps (gam n) (skipn 2 (p ++ s))) in *.
  set (l' := @lrsi_stages R ROps (gam n) (skipn 2 (p' ++ s))) in *.
  destruct (lrsi_cu_lip l l' _ B0 B1 B2 B3) as [Lu Ld].
  apply ratio_lip; try assumption; try apply lrsi_cu_ge0; try apply lrsi_cd_ge0.
Qed.

(** C09 (LaguerreRSI, n >= 2): two runs with same-length prefixes and a common tail, with CU + CD >= eps0 > 0 in both
    at the time of evaluation, report values that converge to each other (the tail itself is arbitrary) *)
Theorem lrsi_fading_nondegenerate n eps0 p p' : (2 <= n)%nat -> 0 < eps0 -> length p = length p' ->
  forall eps, 0 < eps -> exists M, forall s o o', (M <= length s)%nat ->
  eps0 <= lrsi_den n (p ++ s) -> eps0 <= lrsi_den n (p' ++ s) ->
  cout (@lrsi_core R ROps n) (p ++ s) = Ok (Some o) -> cout (@lrsi_core R ROps n) (p' ++ s) = Ok (Some o') ->
  Rabs (o - o') < eps.
Proof.
  intros Hn He0 Hl eps He. pose proof (gam_range n Hn) as Hg.
  destruct (bounded_exists p) as [U1 [HU1 Hp]]. destruct (bounded_exists p') as [U2 [HU2 Hp']].
  set (U := U1 + U2). assert (HU : 0 <= U) by (unfold U; lra).
  assert (Bp : bounded U p) by (eapply bounded_mono; [|exact Hp]; unfold U; lra).
  assert (Bp' : bounded U p') by (eapply bounded_mono; [|exact Hp']; unfold U; lra).
  destruct (lag_k_ge1 (gam n) ltac:(lra)) as [Hk _].
  set (A := 2 * (lag_k (gam n) * (lag_k (gam n) * (lag_k (gam n) * U)))).
  assert (HA : 0 <= A).
  { unfold A. set (k := lag_k (gam n)) in *. clearbody k. assert (0 <= k * U) by nra. assert (0 <= k * (k * U)) by nra. nra. }
  destruct (lad_env_zero (gam n) A ltac:(lra) HA (eps * eps0 / 18) ltac:(apply Rdiv_lt_0_compat; nra)) as [M HM].
  exists (M + 2)%nat. intros s o o' Hs Hd Hd' Ho Ho'.
  pose proof (lrsi_fading_nondegenerate_explicit n U eps0 p p' s o o' Hn HU He0 Hl Bp Bp' Hd Hd' Ho Ho') as H.
  cbv zeta in H. fold A in H. set (j := length (skipn (2 - length p) s)) in *.
  assert (Hj : (M <= j)%nat) by (unfold j; rewrite skipn_length; lia).
  specialize (HM j Hj). eapply Rle_lt_trans; [exact H|].
  apply (Rmult_lt_reg_r eps0); [exact He0|].
  replace (3 * (6 * (A * (2 * INR j + 1) ^ 3 * gam n ^ (j - 3))) / eps0 * eps0)
    with (18 * (A * (2 * INR j + 1) ^ 3 * gam n ^ (j - 3))) by (field; lra).
  lra.
Qed.
