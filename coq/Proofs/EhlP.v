(** Non-linear Ehlers indicators (TrendFlex, ReFlex, LaguerreRSI, EhlersFisherTransform,
    PolarizedFractalEfficiency): index of the main theorems.  Specifications: SpecEhl.v.
    Proofs: EhlBase.v (shared lemmas), EhlFlex.v (TrendFlex/ReFlex), EhlLrsi.v (LaguerreRSI),
    EhlLrsiW.v (W3 witness at Q), EhlLrsiAll.v (W3 for all steps at R), EhlPfe.v, EhlEft.v. *)
From Coq Require Import List Arith Lia Reals Lra.
From SF Require Import Res Scalar View Models Spec Core SpecEhl.
From SF.Proofs Require Import Window RBase EhlBase EhlFlex EhlLrsi EhlLrsiAll EhlPfe EhlEft.
From SF.Proofs Require EhlLrsiW.
Import ListNotations.
Open Scope R_scope.

(** C11: closed forms *)
Check trendflex_closed_form : forall n vs, (1 <= n)%nat ->
  cout (@trendflex_core R ROps n) vs = Ok (@spec_trendflex R ROps n vs).
Check reflex_closed_form : forall n vs, (1 <= n)%nat ->
  cout (@reflex_core R ROps n) vs = Ok (@spec_reflex R ROps n vs).
Check lrsi_closed_form : forall n vs, cout (@lrsi_core R ROps n) vs = Ok (@spec_lrsi R ROps n vs).
Check eft_closed_form : forall n (ma : view R) vs mas, (2 <= n)%nat ->
  mrun ma (@eft_inputs R ROps n vs) = Ok mas ->
  cout (@eft_core R ROps n ma) vs = Ok (@spec_eft R ROps n vs mas).
Check pfe_closed_form : forall n (ma : view R) vs mas, (3 <= n)%nat ->
  mrun ma (@pfe_inputs R ROps n vs) = Ok mas ->
  cout (@pfe_core R ROps n ma) vs = Ok (@spec_pfe R mas).
Check pfe_den_pos : forall n w, (3 <= n)%nat -> 0 < @pfe_den R ROps n w.

(** the moving average specialised to the identity ([echo]): its answers are its inputs *)
Corollary eft_closed_form_echo n vs : (2 <= n)%nat ->
  cout (@eft_core R ROps n (@echo R)) vs
  = Ok (@spec_eft R ROps n vs (map Some (@eft_inputs R ROps n vs))).
Proof.
  intros Hn. apply eft_closed_form; [exact Hn|]. unfold mrun. cbn [vnew echo bind].
  apply Chain.mrun_from_echo.
Qed.
Corollary pfe_closed_form_echo n vs : (3 <= n)%nat ->
  cout (@pfe_core R ROps n (@echo R)) vs = Ok (@lasto R (@pfe_inputs R ROps n vs)).
Proof.
  intros Hn. rewrite (pfe_closed_form n (@echo R) vs (map Some (@pfe_inputs R ROps n vs)) Hn).
  - f_equal. unfold spec_pfe, lasto. rewrite <- map_rev. destruct (rev (@pfe_inputs R ROps n vs)); reflexivity.
  - unfold mrun. cbn [vnew echo bind]. apply Chain.mrun_from_echo.
Qed.

(** C07: ranges *)
Check lrsi_range : forall n vs y, cout (@lrsi_core R ROps n) vs = Ok (Some y) -> 0 <= y <= 1.
Check eft_range_strong : forall n (ma : view R) vs y,
  cout (@eft_core R ROps n ma) vs = Ok (Some y) -> Rabs y <= ln 199.
Check trendflex_range : forall n vs y, (1 <= n)%nat ->
  cout (@trendflex_core R ROps n) vs = Ok (Some y) -> Rabs y <= 5.
Check reflex_range : forall n vs y, (1 <= n)%nat ->
  cout (@reflex_core R ROps n) vs = Ok (Some y) -> Rabs y <= 5.
(** PFE in [-1,1] is FALSE *)
Check pfe_range_refuted : exists vs y, cout (@pfe_core R ROps 16 (@echo R)) vs = Ok (Some y) /\ 1 < y.
Check pfe_const_value : forall n c, (3 <= n)%nat ->
  cout (@pfe_core R ROps n (@echo R)) (repeat c n) = Ok (Some (INR n / INR (n - 2))) /\
  1 < INR n / INR (n - 2).
Check pfe_abs_le_one_iff : forall n p, (3 <= n)%nat -> (n <= length p)%nat ->
  exists y, @pfe_p R ROps n p = Some y /\
            (Rabs y <= 1 <-> @pfe_num R ROps n (lastn n p) <= @pfe_den R ROps n (lastn n p)).

(** C12: scaling / negation / affine invariance *)
Check lrsi_scale_invariant_cout.
Check trendflex_scale_invariant : forall n a vs, (1 <= n)%nat -> 0 < a ->
  cout (@trendflex_core R ROps n) (map (Rmult a) vs) = cout (@trendflex_core R ROps n) vs.
Check reflex_scale_invariant : forall n a vs, (1 <= n)%nat -> 0 < a ->
  cout (@reflex_core R ROps n) (map (Rmult a) vs) = cout (@reflex_core R ROps n) vs.
Check trendflex_negate.
Check reflex_negate.
Check eft_affine_invariant.
Check eft_affine_invariant_cout.

(** W3 *)
Check EhlLrsiW.lrsi_fading_refuted.
Check lrsi_never_fades : forall k, (3 <= k)%nat ->
  cout (@lrsi_core R ROps 16) ([10; 11; 12; 13; 14] ++ repeat 5 k) = Ok (Some 0) /\
  cout (@lrsi_core R ROps 16) ([2; 1] ++ repeat 5 k) = Ok (Some 1).

(** hypotheses of the range theorems are satisfiable *)
Example trendflex_range_ex : exists y, cout (@trendflex_core R ROps 3) [1; 2; 4] = Ok (Some y) /\ Rabs y <= 5.
Proof.
  assert (H : exists y, cout (@trendflex_core R ROps 3) [1; 2; 4] = Ok (Some y)).
  { rewrite trendflex_closed_form by lia. unfold spec_trendflex. eexists; reflexivity. }
  destruct H as [y Hy]. exists y. split; [exact Hy|]. eapply trendflex_range; [|exact Hy]. lia.
Qed.

Print Assumptions trendflex_closed_form.
Print Assumptions reflex_closed_form.
Print Assumptions lrsi_closed_form.
Print Assumptions eft_closed_form.
Print Assumptions pfe_closed_form.
Print Assumptions eft_closed_form_echo.
Print Assumptions pfe_closed_form_echo.
Print Assumptions lrsi_range.
Print Assumptions eft_range_strong.
Print Assumptions eft_range.
Print Assumptions trendflex_range.
Print Assumptions reflex_range.
Print Assumptions pfe_range_refuted.
Print Assumptions pfe_const_value.
Print Assumptions pfe_abs_le_one_iff.
Print Assumptions lrsi_scale_invariant.
Print Assumptions lrsi_scale_invariant_cout.
Print Assumptions trendflex_scale_invariant.
Print Assumptions trendflex_negate.
Print Assumptions trendflex_neg_scale.
Print Assumptions reflex_scale_invariant.
Print Assumptions reflex_negate.
Print Assumptions eft_affine_invariant.
Print Assumptions eft_affine_invariant_cout.
Print Assumptions EhlLrsiW.lrsi_fading_refuted.
Print Assumptions EhlLrsiW.lrsi_fading_refuted5.
Print Assumptions lrsi_never_fades.
Print Assumptions lrsi_fading_refuted_all_steps.
