(** C09: BIBO gains compose along a chain: if the inner view has gain K_A and the wrapper's core has
    gain K_c then the chain has gain K_c K_A. *)
From Coq Require Import List Arith Lia ZArith Reals Lra.
From SF Require Import Res Scalar View Models Spec Core.
From SF.Proofs Require Import Chain StabBase.
Import ListNotations.
Open Scope R_scope.

(** a view maps every input stream bounded by U to outputs (where it has one) bounded by K U *)
Definition view_gain (a : view R) (K : R) : Prop :=
  forall U xs la, bounded U xs -> mrun a xs = Ok la -> bounded (K * U) (somes la).

Lemma in_somes (l : list (option R)) y : In y (somes l) <-> In (Some y) l.
Proof.
  induction l as [|[v|] l IH]; cbn [somes In].
  - tauto.
  - rewrite IH. split; intros [H|H]; auto; left; congruence.
  - rewrite IH. split; [auto | intros [H|H]; [discriminate | exact H]].
Qed.

Lemma bounded_somes_firstn U (l : list (option R)) k : bounded U (somes l) -> bounded U (somes (firstn k l)).
Proof.
  intros H. rewrite <- (firstn_skipn k l), somes_app in H. apply bounded_app in H. apply H.
Qed.

Lemma mrun_wrap_inner (c : core R) (a : view R) xs outs :
  mrun (wrap c a) xs = Ok outs -> exists la, mrun a xs = Ok la.
Proof.
  unfold mrun. cbn [vnew wrap]. destruct (vnew a) as [sa|e]; cbn [bind]; [|discriminate].
  destruct (cnew c) as [sc|e]; cbn [bind]; [|discriminate]. intros H.
  destruct (mrun_from a sa xs) as [la|e] eqn:E; [eauto|].
  destruct (@mrun_from_wrap_err R c a sa sc xs e E) as [e' He']. rewrite He' in H. discriminate.
Qed.

(** the echo view has gain 1 *)
Lemma echo_gain : view_gain (@echo R) 1.
Proof.
  intros U xs la Hb H. unfold mrun in H. cbn [vnew echo bind] in H.
  rewrite (@mrun_from_echo R) in H. injection H as H. subst la. rewrite somes_map_Some, Rmult_1_l. exact Hb.
Qed.

(** C09: gains multiply along a chain *)
Theorem bibo_compose (c : core R) (a : view R) Kc KA :
  bibo c Kc -> view_gain a KA -> view_gain (wrap c a) (Kc * KA).
Proof.
  intros Hc Ha U xs outs Hb Hw. destruct (mrun_wrap_inner c a xs outs Hw) as [la Hla].
  pose proof (Ha U xs la Hb Hla) as Hin.
  unfold bounded. apply Forall_forall. intros y Hy. apply in_somes in Hy.
  destruct (In_nth_error _ _ Hy) as [t Ht].
  pose proof (@chain_cout R c a xs la outs Hla Hw t (Some y) Ht) as Hco.
  rewrite Rmult_assoc. apply (Hc (KA * U) _ (bounded_somes_firstn (KA * U) la (S t) Hin) y Hco).
Qed.

(** a stand-alone core with gain K is a view with gain K *)
Corollary bibo_standalone (c : core R) K : bibo c K -> view_gain (standalone c) K.
Proof. intros H. rewrite <- (Rmult_1_r K). apply bibo_compose; [exact H | apply echo_gain]. Qed.
