(** Link between Coq's primitive binary64 operations (the scalar of [FOps]) and the rounded real
    operations [b64_add], [b64_sub] of FltErr.v, through Flocq: on finite operands and when the result
    does not overflow, [PrimFloat.add]/[sub] ARE round-to-nearest-even of the exact sum/difference, hence
    satisfy the standard model with u = 2^-53 used by the drift theorems. *)
From Coq Require Import ZArith Reals Floats Lra.
From Flocq Require Import Core BinarySingleNaN.
From Flocq Require IEEE754.PrimFloat.
From SF.Proofs Require Import FltErr.
Open Scope R_scope.

(** the real value of a float (0 for infinities and NaN), and finiteness *)
Definition f2r (x : PrimFloat.float) : R := B2R (Flocq.IEEE754.PrimFloat.Prim2B x).
Definition ffinite (x : PrimFloat.float) : bool := is_finite (Flocq.IEEE754.PrimFloat.Prim2B x).

Lemma f2r_format x : b64_format (f2r x).
Proof. unfold f2r, b64_format, b64_exp. apply (generic_format_B2R prec emax). Qed.

Theorem prim_add_b64 (x y : PrimFloat.float) : ffinite x = true -> ffinite y = true ->
  Rabs (b64_add (f2r x) (f2r y)) < bpow radix2 1024 ->
  f2r (PrimFloat.add x y) = b64_add (f2r x) (f2r y) /\ ffinite (PrimFloat.add x y) = true.
Proof.
  intros Hx Hy Hov. unfold f2r, ffinite in *. rewrite Flocq.IEEE754.PrimFloat.add_equiv.
  generalize (Bplus_correct prec emax Flocq.IEEE754.PrimFloat.Hprec Flocq.IEEE754.PrimFloat.Hmax mode_NE _ _ Hx Hy).
  unfold b64_add, b64_round, b64_exp in Hov.
  rewrite Rlt_bool_true by exact Hov.
  intros [H [H' _]]. split; [exact H | exact H'].
Qed.

Theorem prim_sub_b64 (x y : PrimFloat.float) : ffinite x = true -> ffinite y = true ->
  Rabs (b64_sub (f2r x) (f2r y)) < bpow radix2 1024 ->
  f2r (PrimFloat.sub x y) = b64_sub (f2r x) (f2r y) /\ ffinite (PrimFloat.sub x y) = true.
Proof.
  intros Hx Hy Hov. unfold f2r, ffinite in *. rewrite Flocq.IEEE754.PrimFloat.sub_equiv.
  generalize (Bminus_correct prec emax Flocq.IEEE754.PrimFloat.Hprec Flocq.IEEE754.PrimFloat.Hmax mode_NE _ _ Hx Hy).
  unfold b64_sub, b64_round, b64_exp in Hov.
  rewrite Rlt_bool_true by exact Hov.
  intros [H [H' _]]. split; [exact H | exact H'].
Qed.

(** the standard model for the primitive addition and subtraction themselves *)
Corollary prim_add_std_model (x y : PrimFloat.float) : ffinite x = true -> ffinite y = true ->
  Rabs (b64_add (f2r x) (f2r y)) < bpow radix2 1024 ->
  exists d, Rabs d <= b64_u /\ f2r (PrimFloat.add x y) = (f2r x + f2r y) * (1 + d).
Proof.
  intros Hx Hy Hov. destruct (prim_add_b64 x y Hx Hy Hov) as [E _]. rewrite E.
  destruct (b64_add_ok (f2r x) (f2r y) (f2r_format x) (f2r_format y)) as [_ H]. exact H.
Qed.
Corollary prim_sub_std_model (x y : PrimFloat.float) : ffinite x = true -> ffinite y = true ->
  Rabs (b64_sub (f2r x) (f2r y)) < bpow radix2 1024 ->
  exists d, Rabs d <= b64_u /\ f2r (PrimFloat.sub x y) = (f2r x - f2r y) * (1 + d).
Proof.
  intros Hx Hy Hov. destruct (prim_sub_b64 x y Hx Hy Hov) as [E _]. rewrite E.
  destruct (b64_sub_ok (f2r x) (f2r y) (f2r_format x) (f2r_format y)) as [_ H]. exact H.
Qed.

Print Assumptions prim_add_b64.
Print Assumptions prim_sub_b64.
Print Assumptions prim_add_std_model.
Print Assumptions prim_sub_std_model.
