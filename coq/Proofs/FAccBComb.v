(** C14 / C16 at f64 ([FOps], Coq's primitive binary64 floats) for the PURE COMBINATORS: Add, Subtract, Multiply,
    Divide, GTE, LTE, Echo, Constant.
    - Add/Subtract/Multiply/Divide: the answer is, bit for bit, the IEEE operation applied to the children's current
      answers; when it is finite its real value is the CORRECTLY ROUNDED real operation on the children's real
      values (one rounding: relative error at most u = 2^-53, plus the underflow unit 2^-1075 for * and /),
      and conversely it is finite whenever the children are and the rounded result is below 2^1024.
    - GTE/LTE/Echo/Constant: exact (0 ulp); the float run is the image of the exact run. *)
From Coq Require Import List Arith Lia Reals Lra ZArith Floats Bool.
From SF Require Import Res Scalar View Models Core Spec FloatOps.
From SF.Proofs Require Import Chain Pure FltErr FltBridge Flt2P Flt2B64 Flt2Prim BridgeOps FRangeBase FAccBase.
From Flocq Require Import Core BinarySingleNaN.
Import ListNotations.
Open Scope R_scope.

Local Notation F := PrimFloat.float.
Local Notation fin := (fun x : F => ffinite x = true).

(** * One rounded operation: finite result <-> correctly rounded, with the standard error model *)

Lemma mul_spec_fin x y : ffinite x = true -> ffinite y = true ->
  Rabs (b64_round (f2r x * f2r y)) < bpow radix2 1024 -> ffinite (PrimFloat.mul x y) = true.
Proof. intros Fx Fy H. exact (proj2 (prim_mul_b64 x y Fx Fy H)). Qed.

Theorem add_op_f64 x y :
  (ffinite (PrimFloat.add x y) = true ->
     ffinite x = true /\ ffinite y = true /\ f2r (PrimFloat.add x y) = b64_round (f2r x + f2r y) /\
     Rabs (f2r (PrimFloat.add x y) - (f2r x + f2r y)) <= / 9007199254740992 * Rabs (f2r x + f2r y)) /\
  (ffinite x = true -> ffinite y = true -> Rabs (b64_round (f2r x + f2r y)) < bpow radix2 1024 ->
     ffinite (PrimFloat.add x y) = true).
Proof.
  split.
  - intros H. destruct (prim_add_fin x y H) as (Fx & Fy & E). repeat split; try assumption.
    rewrite E. unfold b64_add. destruct (rnd_add_rel _ _ (f2r_format x) (f2r_format y)) as (d & Hd & ->).
    rewrite <- b64_u_val. replace ((f2r x + f2r y) * (1 + d) - (f2r x + f2r y)) with (d * (f2r x + f2r y)) by ring.
    rewrite Rabs_mult. apply Rmult_le_compat_r; [apply Rabs_pos | exact Hd].
  - intros Fx Fy H. exact (proj2 (prim_add_b64 x y Fx Fy H)).
Qed.

Theorem sub_op_f64 x y :
  (ffinite (PrimFloat.sub x y) = true ->
     ffinite x = true /\ ffinite y = true /\ f2r (PrimFloat.sub x y) = b64_round (f2r x - f2r y) /\
     Rabs (f2r (PrimFloat.sub x y) - (f2r x - f2r y)) <= / 9007199254740992 * Rabs (f2r x - f2r y)) /\
  (ffinite x = true -> ffinite y = true -> Rabs (b64_round (f2r x - f2r y)) < bpow radix2 1024 ->
     ffinite (PrimFloat.sub x y) = true).
Proof.
  split.
  - intros H. destruct (prim_sub_fin x y H) as (Fx & Fy & E). repeat split; try assumption.
    rewrite E. unfold b64_sub. destruct (rnd_sub_rel _ _ (f2r_format x) (f2r_format y)) as (d & Hd & ->).
    rewrite <- b64_u_val. replace ((f2r x - f2r y) * (1 + d) - (f2r x - f2r y)) with (d * (f2r x - f2r y)) by ring.
    rewrite Rabs_mult. apply Rmult_le_compat_r; [apply Rabs_pos | exact Hd].
  - intros Fx Fy H. exact (proj2 (prim_sub_b64 x y Fx Fy H)).
Qed.

Lemma round_err_abs t : Rabs (b64_round t - t) <= / 9007199254740992 * Rabs t + b64_eta.
Proof.
  destruct (b64_round_err t) as (d & e & Hd & He & ->). rewrite b64_u_val in Hd.
  replace (t * (1 + d) + e - t) with (d * t + e) by ring.
  eapply Rle_trans; [apply Rabs_triang|]. rewrite Rabs_mult.
  apply Rplus_le_compat; [apply Rmult_le_compat_r; [apply Rabs_pos | exact Hd] | exact He].
Qed.

Theorem mul_op_f64 x y :
  (ffinite (PrimFloat.mul x y) = true ->
     ffinite x = true /\ ffinite y = true /\ f2r (PrimFloat.mul x y) = b64_round (f2r x * f2r y) /\
     Rabs (f2r (PrimFloat.mul x y) - f2r x * f2r y) <= / 9007199254740992 * Rabs (f2r x * f2r y) + b64_eta) /\
  (ffinite x = true -> ffinite y = true -> Rabs (b64_round (f2r x * f2r y)) < bpow radix2 1024 ->
     ffinite (PrimFloat.mul x y) = true).
Proof.
  split.
  - intros H. destruct (prim_mul_fin x y H) as (Fx & Fy & E). repeat split; try assumption.
    rewrite E. unfold b64_mul. apply round_err_abs.
  - apply mul_spec_fin.
Qed.

(** division: the divisor must be finite ([x / inf] is a finite zero in IEEE); then a finite quotient forces a
    non-zero divisor, i.e. the exact model does not fail either *)
Theorem div_op_f64 x y : ffinite y = true ->
  (ffinite (PrimFloat.div x y) = true ->
     ffinite x = true /\ f2r y <> 0 /\ f2r (PrimFloat.div x y) = b64_round (f2r x / f2r y) /\
     @sdiv R ROps (f2r x) (f2r y) = Ok (f2r x / f2r y) /\
     Rabs (f2r (PrimFloat.div x y) - f2r x / f2r y) <= / 9007199254740992 * Rabs (f2r x / f2r y) + b64_eta) /\
  (ffinite x = true -> f2r y <> 0 -> Rabs (b64_round (f2r x / f2r y)) < bpow radix2 1024 ->
     ffinite (PrimFloat.div x y) = true).
Proof.
  intros Fy. split.
  - intros H. destruct (prim_div_fin x y Fy H) as (Fx & Hy & E). repeat split; try assumption.
    + cbn [sdiv ROps]. apply Rdiv_res_ok. exact Hy.
    + rewrite E. unfold b64_div. apply round_err_abs.
  - intros Fx Hy H. exact (proj2 (prim_div_b64 x y Fx Fy Hy H)).
Qed.

(** magnitude of a rounded value *)
Lemma round_abs_le e y : (e <= 1023)%Z -> (-1074 <= e)%Z -> Rabs y <= bpow radix2 e -> Rabs (b64_round y) <= bpow radix2 e.
Proof.
  intros He He' H. apply Rabs_le_inv' in H.
  assert (Fb : b64_format (bpow radix2 e)) by (unfold b64_format, b64_exp; apply generic_format_bpow; unfold FLT_exp; lia).
  apply Rabs_le'. split.
  - apply rnd_ge; [apply format_opp; exact Fb | lra].
  - apply rnd_le; [exact Fb | lra].
Qed.

(** * The combinators, at the level of [last] on any pair of children states *)
Section Views.
Variables a b : view F.

Lemma binop_last (f : F -> F -> res F) sa sb x y :
  vlast a sa = Ok (Some x) -> vlast b sb = Ok (Some y) ->
  vlast (binop f a b) (sa, sb) = (do r <- f x y; Ok (Some r)).
Proof. intros Ha Hb. cbn [vlast binop fst snd]. rewrite Ha, Hb. reflexivity. Qed.

(** readiness: the combinator answers exactly when both children do *)
Lemma binop_last_none (f : F -> F -> res F) sa sb oa ob :
  vlast a sa = Ok oa -> vlast b sb = Ok ob -> (oa = None \/ ob = None) ->
  vlast (binop f a b) (sa, sb) = Ok None.
Proof.
  intros Ha Hb H. cbn [vlast binop fst snd]. rewrite Ha, Hb. cbn [bind].
  destruct H as [-> | ->]; [reflexivity | destruct oa; reflexivity].
Qed.

(** Add at f64: bit-exactly the IEEE sum of the children's answers; finite => correctly rounded real sum *)
Theorem add_f64_correctly_rounded sa sb x y :
  vlast a sa = Ok (Some x) -> vlast b sb = Ok (Some y) ->
  vlast (vadd a b) (sa, sb) = Ok (Some (PrimFloat.add x y)) /\
  (ffinite (PrimFloat.add x y) = true ->
     ffinite x = true /\ ffinite y = true /\ f2r (PrimFloat.add x y) = b64_round (f2r x + f2r y) /\
     Rabs (f2r (PrimFloat.add x y) - (f2r x + f2r y)) <= / 9007199254740992 * Rabs (f2r x + f2r y)) /\
  (ffinite x = true -> ffinite y = true -> Rabs (b64_round (f2r x + f2r y)) < bpow radix2 1024 ->
     ffinite (PrimFloat.add x y) = true).
Proof.
  intros Ha Hb. split; [|exact (add_op_f64 x y)].
  unfold vadd. rewrite (binop_last _ sa sb x y Ha Hb). reflexivity.
Qed.
Theorem sub_f64_correctly_rounded sa sb x y :
  vlast a sa = Ok (Some x) -> vlast b sb = Ok (Some y) ->
  vlast (vsub a b) (sa, sb) = Ok (Some (PrimFloat.sub x y)) /\
  (ffinite (PrimFloat.sub x y) = true ->
     ffinite x = true /\ ffinite y = true /\ f2r (PrimFloat.sub x y) = b64_round (f2r x - f2r y) /\
     Rabs (f2r (PrimFloat.sub x y) - (f2r x - f2r y)) <= / 9007199254740992 * Rabs (f2r x - f2r y)) /\
  (ffinite x = true -> ffinite y = true -> Rabs (b64_round (f2r x - f2r y)) < bpow radix2 1024 ->
     ffinite (PrimFloat.sub x y) = true).
Proof.
  intros Ha Hb. split; [|exact (sub_op_f64 x y)].
  unfold vsub. rewrite (binop_last _ sa sb x y Ha Hb). reflexivity.
Qed.
Theorem mul_f64_correctly_rounded sa sb x y :
  vlast a sa = Ok (Some x) -> vlast b sb = Ok (Some y) ->
  vlast (vmul a b) (sa, sb) = Ok (Some (PrimFloat.mul x y)) /\
  (ffinite (PrimFloat.mul x y) = true ->
     ffinite x = true /\ ffinite y = true /\ f2r (PrimFloat.mul x y) = b64_round (f2r x * f2r y) /\
     Rabs (f2r (PrimFloat.mul x y) - f2r x * f2r y) <= / 9007199254740992 * Rabs (f2r x * f2r y) + b64_eta) /\
  (ffinite x = true -> ffinite y = true -> Rabs (b64_round (f2r x * f2r y)) < bpow radix2 1024 ->
     ffinite (PrimFloat.mul x y) = true).
Proof.
  intros Ha Hb. split; [|exact (mul_op_f64 x y)].
  unfold vmul. rewrite (binop_last _ sa sb x y Ha Hb). reflexivity.
Qed.
(** Divide at f64 never fails (IEEE: inf / NaN instead of the exact model's error on a zero divisor); with a finite
    divisor a finite answer is the correctly rounded quotient and the exact model's division succeeds too *)
Theorem div_f64_correctly_rounded sa sb x y :
  vlast a sa = Ok (Some x) -> vlast b sb = Ok (Some y) ->
  vlast (vdiv a b) (sa, sb) = Ok (Some (PrimFloat.div x y)) /\
  (ffinite y = true -> ffinite (PrimFloat.div x y) = true ->
     ffinite x = true /\ f2r y <> 0 /\ f2r (PrimFloat.div x y) = b64_round (f2r x / f2r y) /\
     @sdiv R ROps (f2r x) (f2r y) = Ok (f2r x / f2r y) /\
     Rabs (f2r (PrimFloat.div x y) - f2r x / f2r y) <= / 9007199254740992 * Rabs (f2r x / f2r y) + b64_eta) /\
  (ffinite x = true -> ffinite y = true -> f2r y <> 0 -> Rabs (b64_round (f2r x / f2r y)) < bpow radix2 1024 ->
     ffinite (PrimFloat.div x y) = true).
Proof.
  intros Ha Hb. split; [|split].
  - unfold vdiv. rewrite (binop_last _ sa sb x y Ha Hb). reflexivity.
  - intros Fy. exact (proj1 (div_op_f64 x y Fy)).
  - intros Fx Fy. exact (proj2 (div_op_f64 x y Fy) Fx).
Qed.
End Views.

(** * The same along a run: at every step, the combinator's output is the IEEE operation on the children's outputs *)
Lemma nth_error_map2 {A B C} (g : A -> B -> C) la lb t x y :
  nth_error la t = Some x -> nth_error lb t = Some y -> nth_error (map2 g la lb) t = Some (g x y).
Proof.
  revert lb t. induction la as [|p la IH]; intros lb t Hx Hy; destruct t; destruct lb as [|q lb]; cbn in *; try discriminate.
  - inversion Hx; inversion Hy; subst. reflexivity.
  - apply IH; assumption.
Qed.

Theorem add_f64_run (a b : view F) xs la lb t x y :
  mrun a xs = Ok la -> mrun b xs = Ok lb -> nth_error la t = Some (Some x) -> nth_error lb t = Some (Some y) ->
  exists outs, mrun (vadd a b) xs = Ok outs /\ nth_error outs t = Some (Some (PrimFloat.add x y)).
Proof.
  intros Ha Hb Hx Hy. eexists. split; [exact (add_pointwise a b xs Ha Hb)|].
  rewrite (nth_error_map2 _ _ _ _ _ _ Hx Hy). reflexivity.
Qed.
Theorem sub_f64_run (a b : view F) xs la lb t x y :
  mrun a xs = Ok la -> mrun b xs = Ok lb -> nth_error la t = Some (Some x) -> nth_error lb t = Some (Some y) ->
  exists outs, mrun (vsub a b) xs = Ok outs /\ nth_error outs t = Some (Some (PrimFloat.sub x y)).
Proof.
  intros Ha Hb Hx Hy. eexists. split; [exact (sub_pointwise a b xs Ha Hb)|].
  rewrite (nth_error_map2 _ _ _ _ _ _ Hx Hy). reflexivity.
Qed.
Theorem mul_f64_run (a b : view F) xs la lb t x y :
  mrun a xs = Ok la -> mrun b xs = Ok lb -> nth_error la t = Some (Some x) -> nth_error lb t = Some (Some y) ->
  exists outs, mrun (vmul a b) xs = Ok outs /\ nth_error outs t = Some (Some (PrimFloat.mul x y)).
Proof.
  intros Ha Hb Hx Hy. eexists. split; [exact (mul_pointwise a b xs Ha Hb)|].
  rewrite (nth_error_map2 _ _ _ _ _ _ Hx Hy). reflexivity.
Qed.
Theorem div_f64_run (a b : view F) xs la lb t x y :
  mrun a xs = Ok la -> mrun b xs = Ok lb -> nth_error la t = Some (Some x) -> nth_error lb t = Some (Some y) ->
  exists outs, mrun (vdiv a b) xs = Ok outs /\ nth_error outs t = Some (Some (PrimFloat.div x y)).
Proof.
  intros Ha Hb Hx Hy. exists (map2 (lift2 PrimFloat.div) la lb). split.
  - rewrite (div_pointwise a b xs Ha Hb). exact (zipf_total PrimFloat.div la lb).
  - rewrite (nth_error_map2 _ _ _ _ _ _ Hx Hy). reflexivity.
Qed.

(** * GTE, LTE, Echo, Constant: exact *)

(** GTE at f64 (finite clip, finite inputs): same readiness as the exact run, and the real value of the answer IS the
    exact answer (a restatement of [gte_prim_exact] in the shape of the accuracy theorems) *)
Theorem gte_f64_exact clip fs : ffinite clip = true -> Forall fin fs ->
  match cout (@gte_core F FOps clip) fs with
  | Ok (Some v) => ffinite v = true /\ cout (@gte_core R ROps (f2r clip)) (map f2r fs) = Ok (Some (f2r v))
  | Ok None => cout (@gte_core R ROps (f2r clip)) (map f2r fs) = Ok None
  | Err _ => False
  end.
Proof.
  intros Fc Hf. pose proof (gte_prim_exact clip fs Fc Hf) as H.
  destruct fs as [|x fs _] using rev_ind; [exact H|].
  rewrite gte_cout_snoc in H |- *. cbn [res_map option_map] in H. split; [|exact H].
  apply Forall_app in Hf. destruct Hf as [_ Hx]. apply Forall_inv in Hx.
  destruct (sgeb x clip); assumption.
Qed.
Theorem lte_f64_exact clip fs : ffinite clip = true -> Forall fin fs ->
  match cout (@lte_core F FOps clip) fs with
  | Ok (Some v) => ffinite v = true /\ cout (@lte_core R ROps (f2r clip)) (map f2r fs) = Ok (Some (f2r v))
  | Ok None => cout (@lte_core R ROps (f2r clip)) (map f2r fs) = Ok None
  | Err _ => False
  end.
Proof.
  intros Fc Hf. pose proof (lte_prim_exact clip fs Fc Hf) as H.
  destruct fs as [|x fs _] using rev_ind; [exact H|].
  rewrite lte_cout_snoc in H |- *. cbn [res_map option_map] in H. split; [|exact H].
  apply Forall_app in Hf. destruct Hf as [_ Hx]. apply Forall_inv in Hx.
  destruct (sleb x clip); assumption.
Qed.

(** Echo and Constant: the float run is the image of the exact run (no arithmetic at all; no finiteness needed) *)
Theorem echo_f64_exact (fs : list F) :
  mrun (@echo F) fs = Ok (map Some fs) /\
  mrun (@echo R) (map f2r fs) = Ok (map (option_map f2r) (map Some fs)).
Proof.
  split; [apply echo_latest|]. rewrite echo_latest, !map_map. reflexivity.
Qed.
Theorem constant_f64_exact (c : F) (fs : list F) :
  mrun (constant c) fs = Ok (map (fun _ => Some c) fs) /\
  mrun (constant (f2r c)) (map f2r fs) = Ok (map (option_map f2r) (map (fun _ => Some c) fs)).
Proof.
  split; [apply constant_always|]. rewrite constant_always, !map_map. reflexivity.
Qed.

(** * The hypotheses are satisfiable, on a non-trivial stream: Add(Echo, Constant 0.1) and Div(Echo, GTE 2) *)
Local Set Warnings "-inexact-float".
Example add_f64_ex :
  mrun (vadd (@echo F) (constant 0.1%float)) [0.2; 1e300; -0.1]%float
  = Ok [Some 0.30000000000000004; Some 1e300; Some 0]%float
  /\ forallb (fun o => match o with Some v => ffinite v | None => false end)
       [Some 0.30000000000000004; Some 1e300; Some 0]%float = true.
Proof. split; vm_compute; reflexivity. Qed.
Example div_f64_ex :
  mrun (vdiv (@echo F) (wrap (@gte_core F FOps 2%float) (@echo F))) [1; 3; 0.5]%float
  = Ok [Some 0.5; Some 1; Some 0.25]%float.
Proof. vm_compute. reflexivity. Qed.
Example gte_f64_ex : Forall fin [1; 3; 0.5]%float /\ cout (@gte_core F FOps 2%float) [1; 3; 0.5]%float = Ok (Some 2%float).
Proof. split; [repeat constructor | vm_compute; reflexivity]. Qed.

Print Assumptions add_f64_correctly_rounded.
Print Assumptions sub_f64_correctly_rounded.
Print Assumptions mul_f64_correctly_rounded.
Print Assumptions div_f64_correctly_rounded.
Print Assumptions add_f64_run.
Print Assumptions div_f64_run.
Print Assumptions gte_f64_exact.
Print Assumptions lte_f64_exact.
Print Assumptions echo_f64_exact.
Print Assumptions constant_f64_exact.
