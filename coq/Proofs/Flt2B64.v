(** IEEE binary64, round to nearest even: the hypotheses of [Flt2P.StdModel2] hold with
    u = 2^-53 and eta = 2^-1075, with NO no-underflow side condition (the absolute term eta pays for
    gradual underflow of a product or a quotient; + and - need no such term).  Overflow aside, as in
    FltErr.v: the operations are "round the exact result to the format" on the reals.

    Results:  [ema_drift_b64], [wr_mean_drift_b64]  (binary64 instances of the drift theorems), and the
    link to Coq's primitive floats for * and / ([prim_mul_b64], [prim_div_b64]) and for the three
    comparisons ([prim_ltb_real], [prim_leb_real], [prim_eqb_real]). *)
From Coq Require Import List Arith Lia Reals Lra ZArith Floats.
From SF Require Import Res Scalar View Models Spec Core SpecFlt2.
From SF.Proofs Require Import Window RBase FltErr FltBridge Flt2P.
From Flocq Require Import Core Relative BinarySingleNaN.
From Flocq Require IEEE754.PrimFloat.
Import ListNotations.
Open Scope R_scope.

Definition b64_mul (a b : R) : R := b64_round (a * b).
Definition b64_eta : R := / 2 * bpow radix2 (-1074).       (* = 2^-1075 *)

Lemma b64_eta_nonneg : 0 <= b64_eta.
Proof. unfold b64_eta. pose proof (bpow_ge_0 radix2 (-1074)). lra. Qed.

Lemma b64_round_format x : b64_format (b64_round x).
Proof. apply generic_format_round; [apply FLT_exp_valid; exact b64_prec_gt_0 | apply valid_rnd_N]. Qed.

(** rounding any real: relative error u, or (in the subnormal range) absolute error eta *)
Lemma b64_round_err x : exists d e, Rabs d <= b64_u /\ Rabs e <= b64_eta /\ b64_round x = x * (1 + d) + e.
Proof.
  destruct (error_N_FLT radix2 (-1074) 53 ltac:(lia) (fun x => negb (Z.even x)) x) as [d [e [Hd [He [_ E]]]]].
  exists d, e. split; [exact Hd|]. split; [exact He | exact E].
Qed.

Lemma b64_mul_ok a b : b64_format a -> b64_format b ->
  b64_format (b64_mul a b) /\
  exists d e, Rabs d <= b64_u /\ Rabs e <= b64_eta /\ b64_mul a b = a * b * (1 + d) + e.
Proof. intros _ _. split; [apply b64_round_format | apply b64_round_err]. Qed.

Lemma b64_div_ok a b : b64_format a -> b64_format b -> b <> 0 ->
  b64_format (b64_div a b) /\
  exists d e, Rabs d <= b64_u /\ Rabs e <= b64_eta /\ b64_div a b = a / b * (1 + d) + e.
Proof. intros _ _ _. split; [apply b64_round_format | apply b64_round_err]. Qed.

(** the classical form with the no-underflow side condition: pure relative error *)
Lemma b64_mul_ok_nounderflow a b : bpow radix2 (-1022) <= Rabs (a * b) ->
  exists d, Rabs d <= b64_u /\ b64_mul a b = a * b * (1 + d).
Proof.
  intros H. apply (relative_error_N_FLT_ex radix2 (-1074) 53 ltac:(lia) (fun x => negb (Z.even x)) (a * b)). exact H.
Qed.
Lemma b64_div_ok_nounderflow a b : bpow radix2 (-1022) <= Rabs (a / b) ->
  exists d, Rabs d <= b64_u /\ b64_div a b = a / b * (1 + d).
Proof.
  intros H. apply (relative_error_N_FLT_ex radix2 (-1074) 53 ltac:(lia) (fun x => negb (Z.even x)) (a / b)). exact H.
Qed.

(** integers below 2^53 are binary64 numbers *)
Lemma b64_format_IZR z : (Z.abs z < 2 ^ 53)%Z -> b64_format (IZR z).
Proof.
  intros Hz. replace (IZR z) with (F2R (Float radix2 z 0)) by (unfold F2R; cbn; lra).
  apply generic_format_FLT. exists (Float radix2 z 0); [reflexivity | exact Hz | cbn; lia].
Qed.
Lemma b64_format_INR k : (Z.of_nat k < 2 ^ 53)%Z -> b64_format (INR k).
Proof. intros Hk. rewrite INR_IZR_INZ. apply b64_format_IZR. lia. Qed.
Lemma b64_format_1 : b64_format 1. Proof. apply (b64_format_IZR 1). reflexivity. Qed.
Lemma b64_format_2 : b64_format 2. Proof. apply (b64_format_IZR 2). reflexivity. Qed.

Lemma b64_u_val : b64_u = / 9007199254740992.
Proof. unfold b64_u. cbn. lra. Qed.

Definition B64Ops : Ops R := FlOps2 b64_add b64_sub b64_mul b64_div.

(** Ema in binary64 (overflow aside), window 1 <= n < 2^48, inputs binary64 numbers with |x| <= M:
    |rounded output - exact output| <= (12 * 2^-53 * M + 3 * 2^-1075) * (n+1)/2, for every stream length. *)
Theorem ema_drift_b64 n M vs : (1 <= n)%nat -> (Z.of_nat n < 2 ^ 48)%Z -> (n <= length vs)%nat -> 0 <= M ->
  Forall (fun x => b64_format x /\ Rabs x <= M) vs ->
  exists o_fl o_ex,
    cout (@ema_core R B64Ops n) vs = Ok (Some o_fl) /\
    cout (@ema_core R ROps n) vs = Ok (Some o_ex) /\
    Rabs (o_fl - o_ex) <= (12 * b64_u * M + 3 * b64_eta) * ((1 + INR n) / 2).
Proof.
  intros Hn Hn48 Hl HM Hvs.
  assert (Hb : 1 + INR n <= 281474976710656).
  { rewrite INR_IZR_INZ. replace 1 with (IZR 1) by reflexivity. rewrite <- plus_IZR.
    change 281474976710656 with (IZR 281474976710656). apply IZR_le.
    change (2 ^ 48)%Z with 281474976710656%Z in Hn48. lia. }
  assert (Hp : 0 < 1 + INR n) by (pose proof (pos_INR n); lra).
  assert (Hw : / 140737488355328 <= ema_wex n).
  { unfold ema_wex. assert (H : / 281474976710656 <= / (1 + INR n)) by (apply Rinv_le_contravar; lra).
    unfold Rdiv. lra. }
  assert (Hw1 : ema_wex n <> 0) by lra.
  destruct (ema_drift b64_u b64_eta b64_add b64_sub b64_mul b64_div b64_format b64_u_nonneg b64_eta_nonneg
              b64_format_1 b64_format_2 b64_add_ok b64_sub_ok b64_mul_ok b64_div_ok M HM n vs Hn Hl Hvs)
    as [a [b [Ha [Hb' Hab]]]].
  - apply b64_format_INR. change (2 ^ 48)%Z with 281474976710656%Z in Hn48.
    change (2 ^ 53)%Z with 9007199254740992%Z. lia.
  - rewrite b64_u_val. lra.
  - (* eta <= u * w, through powers of two *)
    unfold b64_eta, b64_u.
    assert (Hw2 : bpow radix2 (-47) <= ema_wex n).
    { eapply Rle_trans; [|exact Hw]. apply Req_le. cbn. lra. }
    assert (H1 : bpow radix2 (-1074) <= bpow radix2 (1 - 53) * bpow radix2 (-47)).
    { rewrite <- bpow_plus. apply bpow_le. lia. }
    pose proof (bpow_ge_0 radix2 (1 - 53)) as H2. nra.
  - exists a, b. split; [exact Ha|]. split; [exact Hb'|]. eapply Rle_trans; [exact Hab|].
    apply Req_le. unfold ema_wex. field. lra.
Qed.

(** WelfordRolling mean in binary64 (overflow aside), t = length vs < 2^50 updates:
    |rounded mean - exact mean| <= (t + 10) * 2^-53 * M + t * (1 + 2^-53) * 2^-1075. *)
Theorem wr_mean_drift_b64 M vs : vs <> [] -> (Z.of_nat (length vs) < 2 ^ 50)%Z -> 0 <= M ->
  Forall (fun x => b64_format x /\ Rabs x <= M) vs ->
  exists m_fl m_ex,
    cout (@wrolling_mean_core R B64Ops) vs = Ok (Some m_fl) /\
    cout (@wrolling_mean_core R ROps) vs = Ok (Some m_ex) /\
    Rabs (m_fl - m_ex) <= (INR (length vs) + 10) * b64_u * M + INR (length vs) * (1 + b64_u) * b64_eta.
Proof.
  intros Hne Ht HM Hvs.
  change (2 ^ 50)%Z with 1125899906842624%Z in Ht.
  apply (wr_mean_drift b64_u b64_eta b64_add b64_sub b64_mul b64_div b64_format b64_u_nonneg b64_eta_nonneg
           b64_format_0 b64_add_ok b64_sub_ok b64_div_ok M HM vs Hne Hvs).
  - intros k Hk. apply b64_format_INR. change (2 ^ 53)%Z with 9007199254740992%Z. lia.
  - rewrite b64_u_val.
    assert (Hb : INR (length vs) <= 1125899906842624).
    { rewrite INR_IZR_INZ. apply IZR_le. lia. }
    lra.
Qed.


(** * The "1e-6 of the natural scale" clause of C16, for every stream length (Ema) / up to 2^33 updates (mean) *)
Lemma b64_eta_le M : bpow radix2 (-1000) <= M -> b64_eta <= M * / 37778931862957161709568.
Proof.
  intros HM. unfold b64_eta.
  assert (E : / 2 * bpow radix2 (-1074) = bpow radix2 (-1000) * bpow radix2 (-75)).
  { rewrite <- bpow_plus. change (-1000 + -75)%Z with (-1 + -1074)%Z. rewrite bpow_plus. f_equal; try (cbn; lra). }
  rewrite E. assert (E2 : bpow radix2 (-75) = / 37778931862957161709568) by (cbn; lra).
  rewrite E2. apply Rmult_le_compat_r; [lra | exact HM].
Qed.

Corollary ema_drift_b64_1e6 n M vs : (1 <= n)%nat -> (Z.of_nat n < 10 ^ 9)%Z -> (n <= length vs)%nat ->
  bpow radix2 (-1000) <= M ->
  Forall (fun x => b64_format x /\ Rabs x <= M) vs ->
  exists o_fl o_ex,
    cout (@ema_core R B64Ops n) vs = Ok (Some o_fl) /\
    cout (@ema_core R ROps n) vs = Ok (Some o_ex) /\
    Rabs (o_fl - o_ex) <= / 1000000 * M.
Proof.
  intros Hn Hn9 Hl HM Hvs.
  assert (HM0 : 0 <= M) by (pose proof (bpow_ge_0 radix2 (-1000)); lra).
  change (10 ^ 9)%Z with 1000000000%Z in Hn9.
  destruct (ema_drift_b64 n M vs Hn ltac:(change (2 ^ 48)%Z with 281474976710656%Z; lia) Hl HM0 Hvs)
    as [a [b [Ha [Hb Hab]]]].
  exists a, b. split; [exact Ha|]. split; [exact Hb|]. eapply Rle_trans; [exact Hab|].
  assert (HN : (1 + INR n) / 2 <= 500000000).
  { rewrite INR_IZR_INZ. assert (IZR (Z.of_nat n) <= 999999999) by (apply IZR_le; lia). lra. }
  assert (HN0 : 0 <= (1 + INR n) / 2) by (pose proof (pos_INR n); lra).
  pose proof (b64_eta_le M HM) as He. pose proof b64_eta_nonneg as He0.
  rewrite b64_u_val.
  set (N := (1 + INR n) / 2) in *.
  assert (H1 : M * N <= M * 500000000) by (apply Rmult_le_compat_l; assumption).
  assert (H2 : b64_eta * N <= M * / 37778931862957161709568 * 500000000).
  { apply Rmult_le_compat; try assumption. }
  clearbody N. nra.
Qed.

Corollary wr_mean_drift_b64_1e6 M vs : vs <> [] -> (Z.of_nat (length vs) <= 2 ^ 33)%Z ->
  bpow radix2 (-1000) <= M ->
  Forall (fun x => b64_format x /\ Rabs x <= M) vs ->
  exists m_fl m_ex,
    cout (@wrolling_mean_core R B64Ops) vs = Ok (Some m_fl) /\
    cout (@wrolling_mean_core R ROps) vs = Ok (Some m_ex) /\
    Rabs (m_fl - m_ex) <= / 1000000 * M.
Proof.
  intros Hne Ht HM Hvs.
  assert (HM0 : 0 <= M) by (pose proof (bpow_ge_0 radix2 (-1000)); lra).
  change (2 ^ 33)%Z with 8589934592%Z in Ht.
  destruct (wr_mean_drift_b64 M vs Hne ltac:(change (2 ^ 50)%Z with 1125899906842624%Z; lia) HM0 Hvs)
    as [a [b [Ha [Hb Hab]]]].
  exists a, b. split; [exact Ha|]. split; [exact Hb|]. eapply Rle_trans; [exact Hab|].
  assert (HN : INR (length vs) <= 8589934592) by (rewrite INR_IZR_INZ; apply IZR_le; lia).
  assert (HN0 : 0 <= INR (length vs)) by apply pos_INR.
  pose proof (b64_eta_le M HM) as He. pose proof b64_eta_nonneg as He0.
  rewrite b64_u_val.
  set (N := INR (length vs)) in *.
  assert (H1 : N * M <= 8589934592 * M) by (apply Rmult_le_compat_r; assumption).
  assert (H2 : N * b64_eta <= 8589934592 * (M * / 37778931862957161709568)).
  { apply Rmult_le_compat; assumption. }
  clearbody N. nra.
Qed.


(** the bounds above are the executable bound functions of SpecFlt2.v *)
Lemma spec_ema_drift_bound_R u eta M n :
  @spec_ema_drift_bound R ROps u eta M n = (12 * u * M + 3 * eta) * ((1 + INR n) / 2).
Proof.
  unfold spec_ema_drift_bound. cbn [smul sadd sofnat s1 ROps]. rewrite sdivd_R by (cbn; lra). cbn [INR]. lra.
Qed.
Lemma spec_wr_mean_drift_bound_R u eta M t :
  @spec_wr_mean_drift_bound R ROps u eta M t = (INR t + 10) * u * M + INR t * (1 + u) * eta.
Proof. unfold spec_wr_mean_drift_bound. cbn [smul sadd sofnat s1 ROps]. cbn [INR]. lra. Qed.

(** evaluated at Q with u = 2^-53, eta = 2^-1075, M = 1: Ema(20) drifts by less than 1.5e-14, the mean
    over 1000 values by less than 1.2e-13 *)
Example ema_bound_q_ex :
  QArith_base.Qle_bool (@spec_ema_drift_bound QArith_base.Q QOps (QArith_base.Qmake 1 9007199254740992) (QArith_base.Qmake 1 (2 ^ 1075))
                          (QArith_base.Qmake 1 1) 20) (QArith_base.Qmake 15 1000000000000000) = true.
Proof. vm_compute. reflexivity. Qed.
Example wr_bound_q_ex :
  QArith_base.Qle_bool (@spec_wr_mean_drift_bound QArith_base.Q QOps (QArith_base.Qmake 1 9007199254740992) (QArith_base.Qmake 1 (2 ^ 1075))
                          (QArith_base.Qmake 1 1) 1000) (QArith_base.Qmake 12 100000000000000) = true.
Proof. vm_compute. reflexivity. Qed.

(** hypotheses are satisfiable: three binary64 numbers, window 2 *)
Example ema_drift_b64_ex : exists o_fl o_ex,
  cout (@ema_core R B64Ops 2) [1; 2; -3] = Ok (Some o_fl) /\
  cout (@ema_core R ROps 2) [1; 2; -3] = Ok (Some o_ex) /\
  Rabs (o_fl - o_ex) <= (12 * b64_u * 4 + 3 * b64_eta) * ((1 + INR 2) / 2).
Proof. apply ema_drift_b64; [lia | reflexivity | cbn; lia | lra | exact drift_hyp_ex]. Qed.
Example wr_mean_drift_b64_ex : exists m_fl m_ex,
  cout (@wrolling_mean_core R B64Ops) [1; 2; -3] = Ok (Some m_fl) /\
  cout (@wrolling_mean_core R ROps) [1; 2; -3] = Ok (Some m_ex) /\
  Rabs (m_fl - m_ex) <= (INR 3 + 10) * b64_u * 4 + INR 3 * (1 + b64_u) * b64_eta.
Proof. apply (wr_mean_drift_b64 4 [1; 2; -3]); [discriminate | reflexivity | lra | exact drift_hyp_ex]. Qed.

(** * Primitive floats: * and / are the rounded real operations, the comparisons are the real comparisons *)
Theorem prim_mul_b64 (x y : PrimFloat.float) : ffinite x = true -> ffinite y = true ->
  Rabs (b64_mul (f2r x) (f2r y)) < bpow radix2 1024 ->
  f2r (PrimFloat.mul x y) = b64_mul (f2r x) (f2r y) /\ ffinite (PrimFloat.mul x y) = true.
Proof.
  intros Hx Hy Hov. unfold f2r, ffinite in *. rewrite Flocq.IEEE754.PrimFloat.mul_equiv.
  generalize (Bmult_correct prec emax Flocq.IEEE754.PrimFloat.Hprec Flocq.IEEE754.PrimFloat.Hmax mode_NE
                (Flocq.IEEE754.PrimFloat.Prim2B x) (Flocq.IEEE754.PrimFloat.Prim2B y)).
  unfold b64_mul, b64_round, b64_exp in Hov.
  rewrite Rlt_bool_true by exact Hov.
  intros [H [H' _]]. split; [exact H|]. rewrite H', Hx, Hy. reflexivity.
Qed.

Theorem prim_div_b64 (x y : PrimFloat.float) : ffinite x = true -> ffinite y = true -> f2r y <> 0 ->
  Rabs (b64_div (f2r x) (f2r y)) < bpow radix2 1024 ->
  f2r (PrimFloat.div x y) = b64_div (f2r x) (f2r y) /\ ffinite (PrimFloat.div x y) = true.
Proof.
  intros Hx Hy Hy0 Hov. unfold f2r, ffinite in *. rewrite Flocq.IEEE754.PrimFloat.div_equiv.
  generalize (Bdiv_correct prec emax Flocq.IEEE754.PrimFloat.Hprec Flocq.IEEE754.PrimFloat.Hmax mode_NE
                (Flocq.IEEE754.PrimFloat.Prim2B x) (Flocq.IEEE754.PrimFloat.Prim2B y) Hy0).
  unfold b64_div, b64_round, b64_exp in Hov.
  rewrite Rlt_bool_true by exact Hov.
  intros [H [H' _]]. split; [exact H|]. rewrite H', Hx. reflexivity.
Qed.

Theorem prim_ltb_real (x y : PrimFloat.float) : ffinite x = true -> ffinite y = true ->
  PrimFloat.ltb x y = Rltb (f2r x) (f2r y).
Proof.
  intros Hx Hy. unfold f2r, ffinite in *. rewrite Flocq.IEEE754.PrimFloat.ltb_equiv.
  rewrite (Bltb_correct prec emax _ _ Hx Hy). unfold Rltb.
  case Rlt_bool_spec; intros H; destruct (Rlt_dec _ _); try reflexivity; lra.
Qed.
Theorem prim_leb_real (x y : PrimFloat.float) : ffinite x = true -> ffinite y = true ->
  PrimFloat.leb x y = Rleb (f2r x) (f2r y).
Proof.
  intros Hx Hy. unfold f2r, ffinite in *. rewrite Flocq.IEEE754.PrimFloat.leb_equiv.
  rewrite (Bleb_correct prec emax _ _ Hx Hy). unfold Rleb.
  case Rle_bool_spec; intros H; destruct (Rle_dec _ _); try reflexivity; lra.
Qed.
Theorem prim_eqb_real (x y : PrimFloat.float) : ffinite x = true -> ffinite y = true ->
  PrimFloat.eqb x y = Reqb (f2r x) (f2r y).
Proof.
  intros Hx Hy. unfold f2r, ffinite in *. rewrite Flocq.IEEE754.PrimFloat.eqb_equiv.
  rewrite (Beqb_correct prec emax _ _ Hx Hy). unfold Reqb.
  case Req_bool_spec; intros H; destruct (Req_EM_T _ _); try reflexivity; contradiction.
Qed.

Print Assumptions b64_mul_ok.
Print Assumptions b64_div_ok.
Print Assumptions ema_drift_b64.
Print Assumptions wr_mean_drift_b64.
Print Assumptions ema_drift_b64_1e6.
Print Assumptions wr_mean_drift_b64_1e6.
Print Assumptions prim_mul_b64.
Print Assumptions prim_div_b64.
Print Assumptions prim_ltb_real.
Print Assumptions prim_leb_real.
Print Assumptions prim_eqb_real.
