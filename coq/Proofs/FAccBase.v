(** Accuracy of the recomputing views at binary64 ([FOps], Coq's primitive floats): shared facts.
    - [crun_sim]: a simulation principle between a float run and the exact run on the real values of the inputs;
    - [sub_sign_exact]: the sign of a float difference of finite floats is the sign of the real difference
      (overflow included);
    - relative-error forms of rounding with u = 2^-53. *)
From Coq Require Import List Arith Lia Reals Lra ZArith Floats Bool.
From SF Require Import Res Scalar View Models Core Spec FloatOps.
From SF.Proofs Require Import FltErr FltBridge Flt2P Flt2B64 Flt2Prim BridgeOps FRangeBase.
From Flocq Require Import Core BinarySingleNaN Plus_error Relative.
From Flocq Require IEEE754.PrimFloat.
Import ListNotations.
Open Scope R_scope.

Local Notation F := PrimFloat.float.
Local Notation pinf := PrimFloat.infinity.
Local Notation ninf := PrimFloat.neg_infinity.
Local Notation fzero := PrimFloat.zero.
Local Notation fone := PrimFloat.one.

(** * Simulation of a run at scalar A by a run at scalar B on the mapped inputs *)
Lemma crun_sim {A B} (ca : core A) (cb : core B) (f : A -> B) (D : A -> Prop)
      (Rel : cst ca -> cst cb -> Prop) sa0 sb0 :
  cnew ca = Ok sa0 -> cnew cb = Ok sb0 -> Rel sa0 sb0 ->
  (forall sa sb v sa', D v -> Rel sa sb -> cstep ca sa v = Ok sa' ->
     exists sb', cstep cb sb (f v) = Ok sb' /\ Rel sa' sb') ->
  forall vs sa, Forall D vs -> crun ca vs = Ok sa -> exists sb, crun cb (map f vs) = Ok sb /\ Rel sa sb.
Proof.
  intros Ha Hb H0 Hstep vs. induction vs as [|v vs IH] using rev_ind; intros sa HD Hr.
  - unfold crun in Hr |- *. rewrite Ha in Hr. cbn in Hr. inversion Hr; subst.
    exists sb0. cbn [map]. rewrite Hb. cbn. split; [reflexivity | exact H0].
  - apply Forall_app in HD. destruct HD as [HD Hv]. apply Forall_inv in Hv.
    rewrite crun_snoc in Hr. destruct (crun ca vs) as [s1|e]; [|discriminate]. cbn [bind] in Hr.
    destruct (IH s1 HD eq_refl) as (sb1 & Eb & R1).
    destruct (Hstep s1 sb1 v sa Hv R1 Hr) as (sb' & Es & R').
    exists sb'. rewrite map_app. cbn [map]. rewrite crun_snoc, Eb. cbn [bind]. split; assumption.
Qed.

(** * Rounding never maps a non-zero sum/difference of two binary64 numbers to zero *)
Lemma rnd_plus_neq_0 x y : b64_format x -> b64_format y -> x + y <> 0 -> b64_round (x + y) <> 0.
Proof.
  pose proof b64_prec_gt_0 as P53.
  exact (@round_plus_neq_0 radix2 (FLT_exp (-1074) 53) (FLT_exp_valid (-1074) 53) _ ZnearestE _ x y).
Qed.
Lemma rnd_sub_pos a b : b64_format a -> b64_format b -> b < a -> 0 < b64_round (a - b).
Proof.
  intros Fa Fb H.
  assert (H0 : 0 <= b64_round (a - b)) by (apply rnd_ge; [exact b64_format_0 | lra]).
  assert (Hn : b64_round (a + - b) <> 0).
  { apply rnd_plus_neq_0; [exact Fa | apply generic_format_opp; exact Fb | lra]. }
  unfold Rminus in *. lra.
Qed.
Lemma rnd_sub_neg a b : b64_format a -> b64_format b -> a < b -> b64_round (a - b) < 0.
Proof.
  intros Fa Fb H.
  assert (H0 : b64_round (a - b) <= 0) by (apply rnd_le; [exact b64_format_0 | lra]).
  assert (Hn : b64_round (a + - b) <> 0).
  { apply rnd_plus_neq_0; [exact Fa | apply generic_format_opp; exact Fb | lra]. }
  unfold Rminus in *. lra.
Qed.
Lemma rnd_0 : b64_round 0 = 0.
Proof. apply rnd_id. exact b64_format_0. Qed.

Lemma ltb_zero_pinf : PrimFloat.ltb fzero pinf = true /\ PrimFloat.ltb pinf fzero = false.
Proof. split; reflexivity. Qed.
Lemma ltb_zero_ninf : PrimFloat.ltb fzero ninf = false /\ PrimFloat.ltb ninf fzero = true.
Proof. split; reflexivity. Qed.

(** The sign of the float difference of two finite floats is the sign of the real difference: the subtraction
    never rounds a non-zero difference to zero, never makes a zero difference non-zero, and an overflow to
    +-infinity keeps the sign. *)
Theorem sub_sign_exact a b : ffinite a = true -> ffinite b = true ->
  PrimFloat.ltb fzero (PrimFloat.sub a b) = Rltb 0 (f2r a - f2r b) /\
  PrimFloat.ltb (PrimFloat.sub a b) fzero = Rltb (f2r a - f2r b) 0.
Proof.
  intros Fa Fb. destruct prim_zero_fin as [F0 E0]. pose proof BIG_pos as BP.
  pose proof (f2r_format a) as Ra. pose proof (f2r_format b) as Rb.
  destruct (sub_spec a b Fa Fb) as [(_ & Fd & Ed)|[(Hr & E)|(Hr & E)]].
  - rewrite (prim_ltb_real fzero _ F0 Fd), (prim_ltb_real _ fzero Fd F0), E0, Ed. unfold b64_sub.
    destruct (Rtotal_order (f2r a) (f2r b)) as [H|[H|H]].
    + pose proof (rnd_sub_neg _ _ Ra Rb H) as Hn. split.
      * transitivity false; [apply Rltb_false; lra | symmetry; apply Rltb_false; lra].
      * transitivity true; [apply Rltb_true; lra | symmetry; apply Rltb_true; lra].
    + rewrite H. replace (f2r b - f2r b) with 0 by lra. rewrite rnd_0. split; reflexivity.
    + pose proof (rnd_sub_pos _ _ Ra Rb H) as Hp. split.
      * transitivity true; [apply Rltb_true; lra | symmetry; apply Rltb_true; lra].
      * transitivity false; [apply Rltb_false; lra | symmetry; apply Rltb_false; lra].
  - rewrite E. destruct ltb_zero_pinf as [-> ->].
    assert (H : 0 < f2r a - f2r b).
    { destruct (Rlt_dec 0 (f2r a - f2r b)) as [H|H]; [exact H|]. exfalso.
      assert (b64_sub (f2r a) (f2r b) <= 0) by (apply rnd_le; [exact b64_format_0 | lra]). lra. }
    split; symmetry; [apply Rltb_true | apply Rltb_false]; lra.
  - rewrite E. destruct ltb_zero_ninf as [-> ->].
    assert (H : f2r a - f2r b < 0).
    { destruct (Rlt_dec (f2r a - f2r b) 0) as [H|H]; [exact H|]. exfalso.
      assert (0 <= b64_sub (f2r a) (f2r b)) by (apply rnd_ge; [exact b64_format_0 | lra]). lra. }
    split; symmetry; [apply Rltb_false | apply Rltb_true]; lra.
Qed.

(** * Relative error of rounding, u = 2^-53 *)
Lemma u_val : b64_u = / 9007199254740992. Proof. exact b64_u_val. Qed.

(** rounding error of any real of magnitude at most M, no underflow: [|round x - x| <= u * |x|] when
    [2^-1022 <= |x|] or x = 0 *)
Lemma rnd_rel x : x = 0 \/ bpow radix2 (-1022) <= Rabs x ->
  exists d, Rabs d <= b64_u /\ b64_round x = x * (1 + d).
Proof.
  intros [->|H].
  - exists 0. rewrite rnd_0, Rabs_R0. split; [exact b64_u_nonneg | lra].
  - apply (relative_error_N_FLT_ex radix2 (-1074) 53 ltac:(lia) (fun x => negb (Z.even x)) x). exact H.
Qed.
Lemma rnd_abs_err x : x = 0 \/ bpow radix2 (-1022) <= Rabs x -> Rabs (b64_round x - x) <= b64_u * Rabs x.
Proof.
  intros H. destruct (rnd_rel x H) as (d & Hd & E). rewrite E.
  replace (x * (1 + d) - x) with (d * x) by lra. rewrite Rabs_mult.
  apply Rmult_le_compat_r; [apply Rabs_pos | exact Hd].
Qed.
(** sums and differences of binary64 numbers: no underflow condition *)
Lemma rnd_add_rel a b : b64_format a -> b64_format b ->
  exists d, Rabs d <= b64_u /\ b64_round (a + b) = (a + b) * (1 + d).
Proof. intros Fa Fb. exact (proj2 (b64_add_ok a b Fa Fb)). Qed.
Lemma rnd_sub_rel a b : b64_format a -> b64_format b ->
  exists d, Rabs d <= b64_u /\ b64_round (a - b) = (a - b) * (1 + d).
Proof. intros Fa Fb. exact (proj2 (b64_sub_ok a b Fa Fb)). Qed.

(** the underflow unit 2^-1075 is negligible against u *)
Lemma u_eta : b64_eta <= b64_u * / 1000000.
Proof.
  unfold b64_eta, b64_u.
  assert (E : bpow radix2 (-1074) = bpow radix2 (1 - 53) * bpow radix2 (-1022)) by (rewrite <- bpow_plus; reflexivity).
  rewrite E. assert (H : bpow radix2 (-1022) <= / 1000000).
  { apply Rle_trans with (bpow radix2 (-20)); [apply bpow_le; lia | cbn; lra]. }
  pose proof (bpow_ge_0 radix2 (1 - 53)). nra.
Qed.

Print Assumptions sub_sign_exact.
