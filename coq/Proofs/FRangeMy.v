(** C07 at f64 for MyRSI: on finite inputs every value MyRSI reports at binary64 is either NaN (possible only
    when one of the two sums over the window overflowed) or lies in [-1, 1] EXACTLY -- not "up to a few
    ulps".  Rounding to nearest is monotone and fixes -1 and 1. *)
From Coq Require Import List Arith Lia Reals Lra ZArith Floats Bool.
From SF Require Import Res Scalar View Models Core Spec FloatOps SpecFRange.
From SF.Proofs Require Import FltErr FltBridge Flt2P Flt2B64 Flt2Prim BridgeOps FRangeBase.
From Flocq Require Import Core BinarySingleNaN.
Import ListNotations.
Open Scope R_scope.

Local Notation F := PrimFloat.float.
Local Notation pinf := PrimFloat.infinity.
Local Notation ninf := PrimFloat.neg_infinity.
Local Notation fnan := PrimFloat.nan.
Local Notation fin := (fun x : F => ffinite x = true).

(** NaN, or finite with real value in [lo, hi] *)
Definition okv (lo hi : R) (o : F) : Prop := o = fnan \/ (ffinite o = true /\ lo <= f2r o <= hi).

Lemma rnd_opp x : b64_round (- x) = - b64_round x.
Proof. apply round_NE_opp. Qed.
Lemma BIG_gt_100 : 100 < BIG.
Proof.
  apply (Rlt_trans _ (bpow radix2 7)); [cbn; lra|]. apply bpow_lt. reflexivity.
Qed.

(** one accumulation [(acc + hi) - lo] with [lo <= hi]: stays non-negative (possibly +infinity) *)
Lemma nnx_acc acc hi lo : nnx acc -> ffinite hi = true -> ffinite lo = true -> f2r lo <= f2r hi ->
  nnx (PrimFloat.sub (PrimFloat.add acc hi) lo).
Proof.
  intros [->|[Fa Pa]] Fh Fl Hle.
  - left. rewrite (add_pinf_l hi Fh). apply sub_pinf_l. exact Fl.
  - pose proof (f2r_bounds lo) as Bl. pose proof BIG_pos as BP.
    assert (Hr : f2r lo <= b64_add (f2r acc) (f2r hi)) by (apply rnd_ge; [apply f2r_format | lra]).
    destruct (add_spec acc hi Fa Fh) as [(_ & Hf & E)|[(_ & E)|(Hr' & _)]].
    + set (a := PrimFloat.add acc hi) in *.
      assert (H0 : 0 <= b64_sub (f2r a) (f2r lo)) by (apply rnd_ge; [exact b64_format_0 | lra]).
      destruct (sub_spec a lo Hf Fl) as [(_ & Hf2 & E2)|[(_ & E2)|(Hr2 & _)]].
      * right. split; [exact Hf2|]. rewrite E2. exact H0.
      * left. exact E2.
      * exfalso. lra.
    + left. rewrite E. apply sub_pinf_l. exact Fl.
    + exfalso. lra.
Qed.

(** both sums over the window are non-negative (possibly +infinity) *)
Lemma my_sums_nnx q : forall prev cu cd, Forall fin q -> ffinite prev = true -> nnx cu -> nnx cd ->
  nnx (fst (@myrsi_sums F FOps q prev cu cd)) /\ nnx (snd (@myrsi_sums F FOps q prev cu cd)).
Proof.
  induction q as [|v q IH]; intros prev cu cd Hq Fp Hu Hd; [split; assumption|].
  inversion Hq as [|? ? Fv Hq']; subst. cbn [myrsi_sums]. unfold sgtb. cbn [sltb sadd ssub FOps].
  destruct (PrimFloat.ltb prev v) eqn:E.
  - apply IH; try assumption. apply nnx_acc; try assumption. apply Rlt_le. apply ltb_real_true; assumption.
  - apply IH; try assumption. apply nnx_acc; try assumption. apply ltb_real_false; assumption.
Qed.

(** the core arithmetic fact: for FINITE a, b >= 0 with a + b != 0, the float (a - b) / (a + b) is finite and in
    [-1, 1] -- even when a + b overflows (then it is a zero) *)
Lemma my_ratio_fin cu cd : ffinite cu = true -> 0 <= f2r cu -> ffinite cd = true -> 0 <= f2r cd ->
  PrimFloat.eqb (PrimFloat.add cu cd) PrimFloat.zero = false ->
  ffinite (PrimFloat.div (PrimFloat.sub cu cd) (PrimFloat.add cu cd)) = true /\
  -1 <= f2r (PrimFloat.div (PrimFloat.sub cu cd) (PrimFloat.add cu cd)) <= 1.
Proof.
  pose proof BIG_pos as BP. pose proof BIG_gt_100 as B100.
  intros Fu Pu Fd Pd Hne.
  pose proof (f2r_bounds cu) as Bu. pose proof (f2r_bounds cd) as Bd.
  assert (HD1 : b64_sub (f2r cu) (f2r cd) <= f2r cu) by (apply rnd_le; [apply f2r_format | lra]).
  assert (HD2 : - f2r cd <= b64_sub (f2r cu) (f2r cd)) by (apply rnd_ge; [apply format_opp, f2r_format | lra]).
  destruct (sub_spec cu cd Fu Fd) as [(_ & Fdd & Ed)|[(Hr & _)|(Hr & _)]]; [|exfalso; lra|exfalso; lra].
  set (d := PrimFloat.sub cu cd) in *.
  destruct (add_spec cu cd Fu Fd) as [(_ & Fs & Es)|[(_ & Es)|(Hr & _)]].
  - set (s := PrimFloat.add cu cd) in *.
    pose proof (eqb_real_false s PrimFloat.zero Fs (proj1 prim_zero_fin) Hne) as Hs0.
    rewrite (proj2 prim_zero_fin) in Hs0.
    assert (HS : 0 <= f2r s) by (rewrite Es; apply rnd_ge; [exact b64_format_0 | lra]).
    assert (Hup : f2r d <= f2r s) by (rewrite Ed, Es; apply rnd_mono; lra).
    assert (Hlo : - f2r s <= f2r d).
    { rewrite Ed, Es. unfold b64_add. rewrite <- rnd_opp. apply rnd_mono. lra. }
    assert (Hq : -1 <= f2r d / f2r s <= 1).
    { split.
      - apply (Rmult_le_reg_r (f2r s)); [lra|]. unfold Rdiv. rewrite Rmult_assoc, Rinv_l by exact Hs0. lra.
      - apply (Rmult_le_reg_r (f2r s)); [lra|]. unfold Rdiv. rewrite Rmult_assoc, Rinv_l by exact Hs0. lra. }
    assert (HR : -1 <= b64_div (f2r d) (f2r s) <= 1).
    { split; [apply rnd_ge; [exact format_m1 | apply Hq] | apply rnd_le; [exact b64_format_1 | apply Hq]]. }
    destruct (div_spec d s Fdd Fs Hs0) as [(_ & Fo & Eo)|[(Hr & _)|(Hr & _)]]; [|exfalso; lra|exfalso; lra].
    split; [exact Fo | rewrite Eo; exact HR].
  - rewrite Es. destruct (div_pinf_r d Fdd) as [Fo Eo]. split; [exact Fo | rewrite Eo; lra].
  - exfalso. assert (0 <= b64_add (f2r cu) (f2r cd)) by (apply rnd_ge; [exact b64_format_0 | lra]). lra.
Qed.

(** the ratio (cu - cd) / (cu + cd), cu + cd != 0, for non-negative extended cu, cd: NaN or in [-1, 1] *)
Lemma my_ratio cu cd : nnx cu -> nnx cd -> PrimFloat.eqb (PrimFloat.add cu cd) PrimFloat.zero = false ->
  okv (-1) 1 (PrimFloat.div (PrimFloat.sub cu cd) (PrimFloat.add cu cd)).
Proof.
  intros [->|[Fu Pu]] [->|[Fd Pd]] Hne.
  - left. reflexivity.
  - left. rewrite (sub_pinf_l cd Fd), (add_pinf_l cd Fd). reflexivity.
  - left. rewrite (sub_pinf_r cu Fu), (add_pinf_r cu Fu). reflexivity.
  - right. apply my_ratio_fin; assumption.
Qed.

(** * The invariant *)
Definition my_rinv (s : @myrsi_st F) : Prop :=
  Forall fin (my_q s) /\ ffinite (my_oldest s) = true /\ okv (-1) 1 (my_out s).

Lemma my_rstep n s v s' : ffinite v = true -> my_rinv s -> @myrsi_step F FOps n s v = Ok s' -> my_rinv s'.
Proof.
  intros Fv (Hq & Fo & Ho). unfold myrsi_step.
  assert (Hb : exists old q0, (if Nat.leb n (length (my_q s))
                      then do '(old, q') <- pop_front (my_q s); Ok (old, q')
                      else Ok (match my_q s with [] => v | _ => my_oldest s end, my_q s)) = Ok (old, q0)
                      /\ ffinite old = true /\ Forall fin q0 \/
               exists e, (if Nat.leb n (length (my_q s))
                      then do '(old, q') <- pop_front (my_q s); Ok (old, q')
                      else Ok (match my_q s with [] => v | _ => my_oldest s end, my_q s)) = Err e).
  { destruct (Nat.leb n (length (my_q s))).
    - destruct (my_q s) as [|x r] eqn:Eq; cbn [pop_front bind].
      + exists v, []. right. eexists; reflexivity.
      + inversion Hq; subst. exists x, r. left. auto.
    - eexists _, _. left. split; [reflexivity|]. split; [|exact Hq]. destruct (my_q s); assumption. }
  destruct Hb as (old & q0 & [(-> & Fold & Hq0)|(e & ->)]); [|discriminate].
  cbn [bind].
  assert (Hq1 : Forall fin (q0 ++ [v])) by (apply Forall_app; split; [exact Hq0 | constructor; [exact Fv | constructor]]).
  pose proof (my_sums_nnx (q0 ++ [v]) old s0 s0 Hq1 Fold nnx_zero nnx_zero) as [Hu Hd].
  destruct (myrsi_sums (q0 ++ [v]) old s0 s0) as [cu cd]. cbn [fst snd] in Hu, Hd.
  unfold sneb. cbn [seqb sadd ssub sdiv s0 FOps].
  destruct (PrimFloat.eqb (PrimFloat.add cu cd) PrimFloat.zero) eqn:E; cbn [negb bind]; intros H; inversion H; subst s';
    unfold my_rinv; cbn [my_q my_oldest my_out]; repeat split; try assumption.
  apply my_ratio; assumption.
Qed.

Lemma my_rrun n fs s : Forall fin fs -> crun (@myrsi_core F FOps n) fs = Ok s -> my_rinv s.
Proof.
  apply (@crun_pres F (@myrsi_core F FOps n) fin my_rinv
           {| my_cu := s0; my_cd := s0; my_out := s0; my_q := []; my_lastval := s0; my_oldest := s0 |}).
  - reflexivity.
  - unfold my_rinv. cbn [my_q my_oldest my_out]. destruct prim_zero_fin as [H0 E0].
    split; [constructor|]. split; [exact H0|]. right. split; [exact H0|]. cbn [s0 FOps]. rewrite E0. lra.
  - intros s1 v s2 Fv Hi Hs. exact (my_rstep n s1 v s2 Fv Hi Hs).
Qed.

Lemma okv_range lo hi (flo fhi v : F) : ffinite flo = true -> ffinite fhi = true -> f2r flo = lo -> f2r fhi = hi ->
  okv lo hi v -> PrimFloat.is_nan v = false -> PrimFloat.leb flo v && PrimFloat.leb v fhi = true.
Proof.
  intros Fl Fh El Eh [->|[Fv Hv]] Hn; [discriminate Hn|].
  apply range_real; try assumption. rewrite El, Eh. exact Hv.
Qed.

(** C07 at f64, MyRSI (strong form): on FINITE inputs -- nothing is assumed about intermediate results --
    every value reported is NaN or lies in [-1, 1] exactly *)
Theorem myrsi_range_f64_nan n (fs : list F) (v : F) : Forall fin fs ->
  cout (@myrsi_core F FOps n) fs = Ok (Some v) ->
  PrimFloat.is_nan v = false -> PrimFloat.leb (-1) v && PrimFloat.leb v 1 = true.
Proof.
  intros Hf Hc Hn. unfold cout in Hc.
  destruct (crun (@myrsi_core F FOps n) fs) as [s|e] eqn:Er; [|discriminate]. cbn [bind clast myrsi_core] in Hc.
  destruct (my_rrun n fs s Hf Er) as (_ & _ & Ho).
  destruct (Nat.ltb (length (my_q s)) n); [discriminate|]. inversion Hc; subst v.
  apply (okv_range (-1) 1); try assumption; try apply f2r_m1; apply prim_one_fin.
Qed.

Lemma forallb_fin (fs : list F) : forallb ffinite fs = true -> Forall fin fs.
Proof. intros H. apply Forall_forall. intros x Hx. exact (proj1 (forallb_forall _ _) H x Hx). Qed.
Lemma fin_not_nan (v : F) : ffinite v = true -> PrimFloat.is_nan v = false.
Proof.
  unfold ffinite. rewrite FP.is_nan_equiv. destruct (FP.Prim2B v); cbn; intros H; try discriminate; reflexivity.
Qed.

(** C07 at f64, MyRSI: finite inputs and a finite answer: the answer is in [-1, 1] exactly *)
Theorem myrsi_range_f64 n (fs : list F) (v : F) :
  all_finite_out ffinite (@myrsi_core F FOps n) fs = true ->
  cout (@myrsi_core F FOps n) fs = Ok (Some v) -> PrimFloat.leb (-1) v && PrimFloat.leb v 1 = true.
Proof.
  unfold all_finite_out. intros H Hc. apply andb_true_iff in H. destruct H as [Hf Ho]. rewrite Hc in Ho. cbn [ofinb] in Ho.
  apply (myrsi_range_f64_nan n fs v); [apply forallb_fin; exact Hf | exact Hc | apply fin_not_nan; exact Ho].
Qed.

Local Set Warnings "-inexact-float".
(** hypotheses are satisfiable, and the run is not vacuous (the stream on which the OLD code answered 2.9999...) *)
Example myrsi_range_f64_ex :
  all_finite_out ffinite (@myrsi_core F FOps 3) [8.918; 1e6; 1.6; 2.4; 1.8; 5.1; 5.1]%float = true /\
  cout (@myrsi_core F FOps 3) [8.918; 1e6; 1.6; 2.4; 1.8; 5.1; 5.1]%float = Ok (Some 0.6923076923076924%float).
Proof. vm_compute. split; reflexivity. Qed.
(** the NaN alternative is real: two huge moves overflow a sum, the answer is NaN *)
Example myrsi_nan_ex :
  forallb ffinite [-0x1p1023; 0x1p1023; -0x1p1023; 0x1p1023]%float = true /\
  cout (@myrsi_core F FOps 3) [-0x1p1023; 0x1p1023; -0x1p1023; 0x1p1023]%float = Ok (Some fnan).
Proof. vm_compute. split; reflexivity. Qed.

Print Assumptions myrsi_range_f64_nan.
Print Assumptions myrsi_range_f64.
