(** Every closed form as a [core_spec], so that [chain_closed_form] (Proofs/ChainSpec.v) gives the
    view's answer inside ANY chain: at step t it is the specification applied to the values its inner
    view has delivered so far. *)
From Coq Require Import List Arith Lia Reals.
From SF Require Import Res Scalar View Models Core Spec.
From SF Require Import SpecWinA SpecWelf SpecRoll SpecAvg SpecCorr SpecRsi SpecHln SpecLin SpecEhl.
From SF.Proofs Require Import Chain ChainSpec SmaP WinAP WelfP RollP AvgP CorrP RsiP HlnP LinSS LinLag LinCC EhlFlex EhlLrsi.
Import ListNotations.
Local Open Scope R_scope.

Definition any (_ : list R) : Prop := True.

Ltac cs lem := intros; intros vs HP; try (apply lem; first [assumption | exact HP | lia]); try (eapply lem; eauto).

Lemma cs_sma n : (1 <= n)%nat -> core_spec (@sma_core R ROps n) any (@spec_sma R ROps n).
Proof. intros Hn vs _. apply sma_closed_form; assumption. Qed.
Lemma cs_cumulative n : (1 <= n)%nat -> core_spec (@cumulative_core R ROps n) any (@spec_cumulative R ROps n).
Proof. intros Hn vs _. apply cumulative_closed_form; assumption. Qed.
Lemma cs_min n : (1 <= n)%nat -> core_spec (@min_core R ROps n) any (@spec_min R ROps n).
Proof. intros Hn vs _. apply min_closed_form; assumption. Qed.
Lemma cs_max n : (1 <= n)%nat -> core_spec (@max_core R ROps n) any (@spec_max R ROps n).
Proof. intros Hn vs _. apply max_closed_form; assumption. Qed.
Lemma cs_roc n : (1 <= n)%nat -> core_spec (@roc_core R ROps n) any (@spec_roc R ROps n).
Proof. intros Hn vs _. apply roc_closed_form; assumption. Qed.
Lemma cs_welford n : (1 <= n)%nat -> core_spec (@welford_core R ROps n) any (@spec_wlast R ROps n).
Proof. intros Hn vs _. apply welford_closed_form; assumption. Qed.
Lemma cs_vst n : (1 <= n)%nat -> core_spec (@vst_core R ROps n) any (@spec_vst R ROps n).
Proof. intros Hn vs _. apply vst_closed_form; assumption. Qed.
Lemma cs_vsct n : (1 <= n)%nat -> core_spec (@vsct_core R ROps n) any (@spec_vsct R ROps n).
Proof. intros Hn vs _. apply vsct_closed_form; assumption. Qed.
Lemma cs_hln n : (1 <= n)%nat -> core_spec (@hln_core R ROps n) (fun vs => vs <> []) (@spec_hln R ROps n).
Proof. intros Hn vs Hv. apply hln_closed_form; assumption. Qed.
Lemma cs_entropy n : (1 <= n)%nat -> core_spec (@entropy_core R ROps n) any (@spec_entropy R ROps n).
Proof. intros Hn vs _. apply entropy_closed_form; assumption. Qed.
Lemma cs_ema n : (1 <= n)%nat -> core_spec (@ema_core R ROps n) any (@spec_ema R ROps n 2).
Proof. intros Hn vs _. apply ema_default_closed_form. left; assumption. Qed.
Lemma cs_alma n : (1 <= n)%nat -> core_spec (@alma_core R ROps n) any (@spec_alma R ROps n 6 (85 / 100)).
Proof. intros Hn vs _. apply alma_default_closed_form; assumption. Qed.
Lemma cs_rsi n : (1 <= n)%nat -> core_spec (@rsi_core R ROps n) any (@spec_rsi R ROps n).
Proof. intros Hn vs _. apply rsi_closed_form; assumption. Qed.
Lemma cs_myrsi n : (1 <= n)%nat -> core_spec (@myrsi_core R ROps n) any (@spec_myrsi R ROps n).
Proof. intros Hn vs _. apply myrsi_closed_form; assumption. Qed.
(** since the repair of CTI (count = number of values present, clamp) the spec holds on every history *)
Lemma cs_cti n : (1 <= n)%nat -> core_spec (@cti_core R ROps n) any (@spec_cti R ROps n).
Proof. intros Hn vs _. apply cti_closed_form; assumption. Qed.
(** the former, guarded form (still true) *)
Lemma cs_cti_full n : (1 <= n)%nat -> core_spec (@cti_core R ROps n) (fun vs => (n <= length vs)%nat) (@spec_cti R ROps n).
Proof. intros Hn vs _. apply cti_closed_form; assumption. Qed.
Lemma cs_net n : (1 <= n)%nat -> core_spec (@net_core R ROps n) any (@spec_net R ROps n).
Proof. intros Hn vs _. apply net_closed_form; assumption. Qed.
Lemma cs_cog n : (1 <= n)%nat -> core_spec (@cog_core R ROps n) any (@spec_cog R ROps n).
Proof. intros Hn vs _. apply cog_closed_form; assumption. Qed.
Lemma cs_ss n : (1 <= n)%nat -> core_spec (@ss_core R ROps n) any (@spec_ss R ROps n).
Proof. intros Hn vs _. apply ss_closed_form; assumption. Qed.
Lemma cs_roofing n m : (2 <= n)%nat -> (1 <= m)%nat -> core_spec (@roofing_core R ROps n m) any (@spec_roofing R ROps n m).
Proof. intros Hn Hm vs _. apply roofing_closed_form; assumption. Qed.
Lemma cs_laguerre g : core_spec (@laguerre_core R ROps g) any (@spec_laguerre R ROps g).
Proof. intros vs _. apply laguerre_closed_form. Qed.
Lemma cs_cyber n : (6 <= n)%nat -> core_spec (@cyber_core R ROps n) any (@spec_cyber R ROps n).
Proof. intros Hn vs _. apply cyber_closed_form; assumption. Qed.
Lemma cs_trendflex n : (1 <= n)%nat -> core_spec (@trendflex_core R ROps n) any (@spec_trendflex R ROps n).
Proof. intros Hn vs _. apply trendflex_closed_form; assumption. Qed.
Lemma cs_reflex n : (1 <= n)%nat -> core_spec (@reflex_core R ROps n) any (@spec_reflex R ROps n).
Proof. intros Hn vs _. apply reflex_closed_form; assumption. Qed.
Lemma cs_lrsi n : core_spec (@lrsi_core R ROps n) any (@spec_lrsi R ROps n).
Proof. intros vs _. apply lrsi_closed_form. Qed.
Lemma cs_drawdown : core_spec (@drawdown_core R ROps) (Forall (fun x => 0 < x)) (fun vs => Some (@spec_drawdown R ROps vs)).
Proof. intros vs Hv. apply drawdown_closed_form; assumption. Qed.
Lemma cs_lnret : core_spec (@lnret_core R ROps) (Forall (fun x => 0 < x)) (@spec_lnreturn R ROps).
Proof. intros vs Hv. apply lnret_closed_form; assumption. Qed.
Lemma cs_wrolling : core_spec (@wrolling_core R ROps) (fun vs => vs <> []) (fun vs => Some (@spec_rstd R ROps vs)).
Proof. intros vs Hv. apply wrolling_closed_form; assumption. Qed.

(** the chain-level statement, spelled out once for Sma over an arbitrary inner view: at every step
    where the chain answers, the answer is the mean of the last [n] values the inner view delivered
    (and [None] while it has delivered fewer than [n]) *)
Theorem sma_in_any_chain n (a : view R) xs la outs : (1 <= n)%nat ->
  mrun a xs = Ok la -> mrun (wrap (@sma_core R ROps n) a) xs = Ok outs ->
  forall t o, nth_error outs t = Some o -> o = @spec_sma R ROps n (somes (firstn (S t) la)).
Proof.
  intros Hn Ha Hw t o Ht.
  exact (@chain_closed_form R _ any _ (cs_sma n Hn) a xs la outs Ha Hw t o Ht I).
Qed.
Print Assumptions sma_in_any_chain.
