(** List lemmas about sliding windows. *)
From Coq Require Import List Arith Lia.
From SF Require Import Res Scalar Spec.
Import ListNotations.


Section Window.
Context {A : Type}.

Lemma lastn_length n (l : list A) : length (lastn n l) = Nat.min n (length l).
Proof. unfold lastn. rewrite skipn_length. lia. Qed.

Lemma lastn_all n (l : list A) : length l <= n -> lastn n l = l.
Proof. intros H. unfold lastn. replace (length l - n) with 0 by lia. reflexivity. Qed.

Lemma lastn_nil n : lastn n (@nil A) = [].
Proof. unfold lastn. cbn. destruct n; reflexivity. Qed.

Lemma lastn_0 (l : list A) : lastn 0 l = [].
Proof. unfold lastn. rewrite Nat.sub_0_r. apply skipn_all. Qed.

Lemma lastn_app_le n (h : list A) x : length h < n -> lastn n (h ++ [x]) = lastn n h ++ [x].
Proof.
  intros H. rewrite !lastn_all; [reflexivity | lia | rewrite app_length; cbn; lia].
Qed.

(** pushing onto a full window evicts the oldest element *)
Lemma lastn_app_full n (h : list A) x : 1 <= n -> n <= length h ->
  lastn n (h ++ [x]) = tl (lastn n h) ++ [x].
Proof.
  intros Hn H. unfold lastn. rewrite app_length. cbn.
  replace (length h + 1 - n) with (S (length h - n)) by lia.
  rewrite skipn_app. replace (S (length h - n) - length h) with 0 by lia. cbn [skipn].
  f_equal. remember (length h - n) as k. assert (Hk : k < length h) by lia. clear - Hk.
  revert k Hk. induction h as [|a h IH]; intros k Hk; cbn in *; [lia|].
  destruct k; cbn; [reflexivity|]. apply IH. lia.
Qed.

(** the step every windowed view performs: evict when full, then push *)
Lemma evict_push_lastn n (h : list A) x : 1 <= n ->
  (if Nat.leb n (length (lastn n h)) then tl (lastn n h) else lastn n h) ++ [x] = lastn n (h ++ [x]).
Proof.
  intros Hn. rewrite lastn_length. destruct (Nat.leb_spec n (Nat.min n (length h))) as [H|H].
  - symmetry. apply lastn_app_full; lia.
  - symmetry. apply lastn_app_le. lia.
Qed.

Lemma lastn_lastn n (l : list A) : lastn n (lastn n l) = lastn n l.
Proof. apply lastn_all. rewrite lastn_length. lia. Qed.

(** the last [n] elements depend on the last [k >= n] only *)
Lemma lastn_app_suffix n (p s : list A) : n <= length s -> lastn n (p ++ s) = lastn n s.
Proof.
  intros H. unfold lastn. rewrite app_length. rewrite skipn_app.
  replace (length p + length s - n - length p) with (length s - n) by lia.
  rewrite skipn_all2; [reflexivity | lia].
Qed.

Lemma lastn_hd_tl n (l : list A) : n <= length l -> 1 <= n ->
  exists x, lastn n l = x :: tl (lastn n l).
Proof.
  intros H Hn. pose proof (lastn_length n l) as Hl. destruct (lastn n l) as [|x r]; cbn in *; [lia|]. eauto.
Qed.
End Window.
