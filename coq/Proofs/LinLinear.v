(** C10 linearity and C12 scaling of SuperSmoother, RoofingFilter, LaguerreFilter, CyberCycle. *)
From Coq Require Import List Arith Lia ZArith Reals Lra.
From SF Require Import Res Scalar View Models Spec Core SpecLin.
From SF.Proofs Require Import Window RBase LinBase LinSS LinLag LinCC.
Import ListNotations.
Open Scope R_scope.
Local Existing Instance ROps.

(** * generic: from a closed form and the linearity of the specification *)
Definition spec_linear (spec : list R -> option R) : Prop :=
  forall a b xs ys, length xs = length ys -> spec (lcomb a b xs ys) = olin a b (spec xs) (spec ys).

(** the statement of C10 for a core: the answer on [a*x_i + b*y_i] is [a*out(xs) + b*out(ys)]
    (and it is silent exactly when both are) *)
Definition core_linear (c : core R) : Prop :=
  forall a b xs ys, length xs = length ys ->
  exists ox oy, cout c xs = Ok ox /\ cout c ys = Ok oy /\ cout c (lcomb a b xs ys) = Ok (olin a b ox oy).

(** the statement of C12 for a core *)
Definition core_scales (c : core R) : Prop :=
  forall a xs, exists ox, cout c xs = Ok ox /\ cout c (map (Rmult a) xs) = Ok (option_map (Rmult a) ox).

Lemma core_linear_of_spec c spec :
  (forall vs, cout c vs = Ok (spec vs)) -> spec_linear spec -> core_linear c.
Proof.
  intros Hc Hl a b xs ys Hlen. exists (spec xs), (spec ys). rewrite !Hc. repeat split.
  rewrite Hl by exact Hlen. reflexivity.
Qed.

Lemma core_scales_of_linear c : core_linear c -> core_scales c.
Proof.
  intros Hl a xs. destruct (Hl a 0 xs xs eq_refl) as (ox & oy & Hx & Hy & Hxy).
  rewrite Hx in Hy. inversion Hy; subst oy. exists ox. split; [exact Hx|].
  rewrite lcomb_scale in Hxy. rewrite Hxy. f_equal. destruct ox as [x|]; [|reflexivity].
  cbn. f_equal. lra.
Qed.

Lemma lcomb_map {A} a b (f g : A -> R) (l : list A) :
  lcomb a b (map f l) (map g l) = map (fun t => a * f t + b * g t) l.
Proof. unfold lcomb. induction l as [|x l IH]; [reflexivity|]. cbn [map combine fst snd]. rewrite IH. reflexivity. Qed.

(** * SuperSmoother *)
Lemma ssb_upto_linear c1 b1 c3 a b xs ys k : length xs = length ys ->
  ssb_upto c1 b1 c3 (lcomb a b xs ys) k =
  (a * fst (ssb_upto c1 b1 c3 xs k) + b * fst (ssb_upto c1 b1 c3 ys k),
   a * snd (ssb_upto c1 b1 c3 xs k) + b * snd (ssb_upto c1 b1 c3 ys k)).
Proof.
  intros Hl. induction k as [|t IH].
  - cbn [ssb_upto fst snd s0 ROps]. f_equal; lra.
  - rewrite !ssb_upto_S, IH. cbn [fst snd]. rewrite !lagx_lcomb by exact Hl. rewrite !ssb_eq_R.
    f_equal. field.
Qed.

Lemma ssb_out_linear c1 b1 c3 n : spec_linear (ssb_out c1 b1 c3 n).
Proof.
  intros a b xs ys Hl. unfold ssb_out. rewrite lcomb_length by exact Hl. rewrite <- Hl.
  destruct (Nat.ltb (length xs) n); [reflexivity|]. rewrite ssb_upto_linear by exact Hl.
  cbn [fst olin]. reflexivity.
Qed.

Lemma spec_ss_linear n : spec_linear (@spec_ss R ROps n).
Proof. apply ssb_out_linear. Qed.

(** C10 (SuperSmoother) *)
Theorem ss_linear n : (1 <= n)%nat -> core_linear (@ss_core R ROps n).
Proof. intros Hn. apply (core_linear_of_spec _ (@spec_ss R ROps n)); [intros; apply ss_closed_form; exact Hn | apply spec_ss_linear]. Qed.
(** C12 (SuperSmoother) *)
Theorem ss_scales n : (1 <= n)%nat -> core_scales (@ss_core R ROps n).
Proof. intros Hn. apply core_scales_of_linear, ss_linear, Hn. Qed.

(** * RoofingFilter *)
Lemma hpb_upto_linear al a b xs ys k : length xs = length ys ->
  hpb_upto al (lcomb a b xs ys) k =
  (a * fst (hpb_upto al xs k) + b * fst (hpb_upto al ys k),
   a * snd (hpb_upto al xs k) + b * snd (hpb_upto al ys k)).
Proof.
  intros Hl. induction k as [|t IH].
  - cbn [hpb_upto fst snd s0 ROps]. f_equal; lra.
  - rewrite !hpb_upto_S, IH. cbn [fst snd]. rewrite !lagx_lcomb by exact Hl. rewrite !hpb_eq_R.
    f_equal. ring.
Qed.

Lemma rfb_fed_length n al (h : list R) : length (rfb_fed n al h) = (length h - S n)%nat.
Proof. unfold rfb_fed. rewrite map_length, seq_length. reflexivity. Qed.

Lemma rfb_fed_linear n al a b xs ys : length xs = length ys ->
  rfb_fed n al (lcomb a b xs ys) = lcomb a b (rfb_fed n al xs) (rfb_fed n al ys).
Proof.
  intros Hl. unfold rfb_fed. rewrite lcomb_length by exact Hl. rewrite <- Hl, lcomb_map.
  apply map_ext. intros t. unfold hpb_at. rewrite hpb_upto_linear by exact Hl. reflexivity.
Qed.

Lemma spec_roofing_linear n m : spec_linear (@spec_roofing R ROps n m).
Proof.
  intros a b xs ys Hl. unfold spec_roofing. cbv zeta. rewrite rfb_fed_linear by exact Hl.
  apply spec_ss_linear. rewrite !rfb_fed_length, Hl. reflexivity.
Qed.

(** C10 (RoofingFilter) *)
Theorem roofing_linear n m : (2 <= n)%nat -> (1 <= m)%nat -> core_linear (@roofing_core R ROps n m).
Proof.
  intros Hn Hm. apply (core_linear_of_spec _ (@spec_roofing R ROps n m));
    [intros; apply roofing_closed_form; assumption | apply spec_roofing_linear].
Qed.
(** C12 (RoofingFilter) *)
Theorem roofing_scales n m : (2 <= n)%nat -> (1 <= m)%nat -> core_scales (@roofing_core R ROps n m).
Proof. intros Hn Hm. apply core_scales_of_linear, roofing_linear; assumption. Qed.

(** * LaguerreFilter *)
Definition lin4 (a b : R) (p q : R * R * R * R) : R * R * R * R :=
  let '(p0, p1, p2, p3) := p in let '(q0, q1, q2, q3) := q in
  (a * p0 + b * q0, a * p1 + b * q1, a * p2 + b * q2, a * p3 + b * q3).

Lemma lag_ladder_linear g a b p q x y :
  lag_ladder g (lin4 a b p q) (a * x + b * y) = lin4 a b (lag_ladder g p x) (lag_ladder g q y).
Proof.
  destruct p as [[[p0 p1] p2] p3], q as [[[q0 q1] q2] q3]. unfold lag_ladder, lin4.
  cbn [sadd ssub smul sneg s1 ROps]. repeat (f_equal; try ring).
Qed.

Lemma lagb_at_linear g a b xs ys t : length xs = length ys ->
  lagb_at g (lcomb a b xs ys) t = lin4 a b (lagb_at g xs t) (lagb_at g ys t).
Proof.
  intros Hl. induction t as [|t IH].
  - cbn [lagb_at]. rewrite lcomb_nth by exact Hl. reflexivity.
  - rewrite !lagb_at_S, IH, lcomb_nth by exact Hl. apply lag_ladder_linear.
Qed.

Lemma lagb_out_linear a b p q : lagb_out (lin4 a b p q) = a * lagb_out p + b * lagb_out q.
Proof.
  destruct p as [[[p0 p1] p2] p3], q as [[[q0 q1] q2] q3]. unfold lin4. rewrite !lagb_out_R. field.
Qed.

Lemma spec_laguerre_linear g : spec_linear (@spec_laguerre R ROps g).
Proof.
  intros a b xs ys Hl. unfold spec_laguerre. rewrite lcomb_length by exact Hl. rewrite <- Hl.
  destruct (length xs) as [|t] eqn:E; [reflexivity|]. rewrite lagb_at_linear by (rewrite E; exact Hl).
  rewrite lagb_out_linear. reflexivity.
Qed.

(** C10 (LaguerreFilter) *)
Theorem laguerre_linear g : core_linear (@laguerre_core R ROps g).
Proof. apply (core_linear_of_spec _ (@spec_laguerre R ROps g)); [apply laguerre_closed_form | apply spec_laguerre_linear]. Qed.
(** C12 (LaguerreFilter) *)
Theorem laguerre_scales g : core_scales (@laguerre_core R ROps g).
Proof. apply core_scales_of_linear, laguerre_linear. Qed.

(** * CyberCycle *)
Definition sm_linear (sm : list R -> nat -> nat -> R) : Prop :=
  forall a b xs ys t j, length xs = length ys ->
  sm (lcomb a b xs ys) t j = a * sm xs t j + b * sm ys t j.

Lemma ccb_smooth_linear : sm_linear ccb_smooth.
Proof. intros a b xs ys t j Hl. rewrite !ccb_smooth_R, !lagx_lcomb by exact Hl. field. Qed.
Lemma ccb_gsmooth_linear n : sm_linear (ccb_gsmooth n).
Proof.
  intros a b xs ys t j Hl. unfold ccb_gsmooth. destruct (Nat.ltb (n - 1 - j) 3).
  - cbn [s0 ROps]. lra.
  - apply ccb_smooth_linear. exact Hl.
Qed.

Lemma ccb_upto_linear sm n al a b xs ys k : sm_linear sm -> length xs = length ys ->
  ccb_upto sm n al (lcomb a b xs ys) k =
  (a * fst (ccb_upto sm n al xs k) + b * fst (ccb_upto sm n al ys k),
   a * snd (ccb_upto sm n al xs k) + b * snd (ccb_upto sm n al ys k)).
Proof.
  intros Hs Hl. induction k as [|t IH].
  - cbn [ccb_upto fst snd s0 ROps]. f_equal; lra.
  - rewrite !ccb_upto_S, IH. cbn [fst snd]. rewrite !Hs by exact Hl.
    destruct (Nat.ltb (S t) n); [f_equal; lra|]. rewrite !ccb_eq_R. f_equal. ring.
Qed.

Lemma ccb_out_linear sm n : sm_linear sm -> spec_linear (ccb_out sm n).
Proof.
  intros Hs a b xs ys Hl. unfold ccb_out. destruct xs as [|x xs], ys as [|y ys]; try discriminate; [reflexivity|].
  set (X := x :: xs) in *. set (Y := y :: ys) in *.
  assert (E : lcomb a b X Y = (a * x + b * y) :: lcomb a b xs ys) by reflexivity.
  rewrite E at 1. rewrite ccb_upto_linear by assumption. cbn [fst olin].
  rewrite lcomb_length by exact Hl. rewrite <- Hl. reflexivity.
Qed.

(** C10 (CyberCycle), for every admissible window length *)
Theorem cyber_linear n : (3 <= n)%nat -> core_linear (@cyber_core R ROps n).
Proof.
  intros Hn. apply (core_linear_of_spec _ (@spec_cyber_gen R ROps n));
    [intros; apply cyber_closed_form_gen; exact Hn | apply ccb_out_linear, ccb_gsmooth_linear].
Qed.
(** C12 (CyberCycle) *)
Theorem cyber_scales n : (3 <= n)%nat -> core_scales (@cyber_core R ROps n).
Proof. intros Hn. apply core_scales_of_linear, cyber_linear, Hn. Qed.
