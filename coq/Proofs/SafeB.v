(** C15/C08 for welford (sd / mean / variance getters), vst, vsct, hl_normalizer, binary_entropy. *)
From Coq Require Import List Arith Lia Reals Lra ZArith Bool.
From SF Require Import Res Scalar View Models Spec Core.
From SF.Proofs Require Import Window RBase SafeBase SafeTac.
Import ListNotations.
Open Scope R_scope.

(* ---------------------------------------------------------------- welford *)
Definition welford_I (n k : nat) (s : @wo_st R) : Prop :=
  length (wo_q s) = Nat.min n k /\ wo_count s = Nat.min n k.

Lemma wo_new_ok n : (1 <= n)%nat ->
  @wo_new R ROps n = Ok {| wo_q := []; wo_mean := 0; wo_m2 := 0; wo_count := 0 |}.
Proof.
  intros Hn. unfold wo_new. destruct (Nat.ltb_spec 0 n) as [H|H]; [|lia]. reflexivity.
Qed.

Lemma wo_add_ok (mean m2 : R) (count : nat) (x : R) :
  exists mean' m2', @wo_add R ROps mean m2 count x = Ok (mean', m2', (count + 1)%nat).
Proof.
  unfold wo_add. rewrite sdiv_R_ok by (apply INR_pos_neq; lia). cbn [bind]. eauto.
Qed.

Lemma wo_step_ok n k (s : @wo_st R) (v : R) : (1 <= n)%nat -> welford_I n k s ->
  exists s', @wo_step R ROps n s v = Ok s' /\ welford_I n (S k) s'.
Proof.
  intros Hn [Hl Hc]. destruct s as [q mean m2 count]. cbn [wo_q wo_count] in Hl, Hc.
  unfold wo_step. cbn [wo_q wo_mean wo_m2 wo_count].
  destruct (Nat.ltb_spec n (length (q ++ [v]))) as [Hf|Hf]; rewrite app_length in Hf; cbn [length] in Hf.
  - destruct q as [|x r]; [cbn [length] in Hf; lia|].
    cbn [app pop_front bind]. unfold wo_remove.
    destruct (Nat.leb_spec count 1) as [H1|H1].
    + cbn [bind].
      destruct (wo_add_ok 0 0 0 v) as [mean' [m2' Ha]]. cbn [s0 ROps]. rewrite Ha. cbn [bind].
      eexists. split; [reflexivity|]. unfold welford_I. cbn [wo_q wo_count].
      rewrite app_length. cbn [length] in *. lia.
    + rewrite sdiv_R_ok by (apply INR_pos_neq; lia). cbn [bind].
      match goal with |- context [@wo_add R ROps ?a ?b ?c ?d] =>
        destruct (wo_add_ok a b c d) as [mean' [m2' Ha]]; rewrite Ha end.
      cbn [bind]. eexists. split; [reflexivity|]. unfold welford_I. cbn [wo_q wo_count].
      rewrite app_length. cbn [length] in *. lia.
  - cbn [bind].
    destruct (wo_add_ok mean m2 count v) as [mean' [m2' Ha]]. rewrite Ha. cbn [bind].
    eexists. split; [reflexivity|]. unfold welford_I. cbn [wo_q wo_count].
    rewrite app_length. cbn [length]. lia.
Qed.

Lemma wo_variance_ok (s : @wo_st R) : exists var, @wo_variance R ROps s = Ok var.
Proof.
  unfold wo_variance. destruct (Nat.ltb_spec 1 (wo_count s)) as [H|H]; [|eauto].
  rewrite sdiv_R_ok by (apply INR_pos_neq; lia). eauto.
Qed.

Lemma sd_of_var_ok (var : R) : exists y,
  (if @sleb R ROps var (@s0 R ROps) then Ok (Some (@s0 R ROps)) else do r <- @ssqrt R ROps var; Ok (Some r)) = Ok (Some y).
Proof.
  cbn [sleb s0 ssqrt ROps]. destruct (Rleb var 0) eqn:E; [eauto|]. apply Rleb_false in E.
  destruct (Rlt_dec var 0) as [H|H]; [lra|]. cbn [bind]. eauto.
Qed.

(** what [wo_last] answers under the invariant *)
Lemma wo_last_none n k (s : @wo_st R) : (1 <= n)%nat -> welford_I n k s -> (k < n - 1)%nat ->
  @wo_last R ROps n s = Ok None.
Proof.
  intros Hn [Hl Hc] Hk. unfold wo_last, usub. destruct (Nat.ltb_spec n 1) as [H|H]; [lia|]. cbn [bind].
  destruct (Nat.ltb_spec (wo_count s) (n - 1)) as [H1|H1]; [reflexivity|lia].
Qed.
Lemma wo_last_some n k (s : @wo_st R) : (1 <= n)%nat -> welford_I n k s -> (n - 1 <= k)%nat ->
  exists y, @wo_last R ROps n s = Ok (Some y).
Proof.
  intros Hn [Hl Hc] Hk. unfold wo_last, usub. destruct (Nat.ltb_spec n 1) as [H|H]; [lia|]. cbn [bind].
  destruct (Nat.ltb_spec (wo_count s) (n - 1)) as [H1|H1]; [lia|].
  destruct (wo_variance_ok s) as [var Hv]. rewrite Hv. cbn [bind]. apply sd_of_var_ok.
Qed.

Lemma welford_safe n : (1 <= n)%nat -> Safe (@welford_core R ROps n) (fun _ => True) (welford_I n).
Proof.
  intros Hn. constructor.
  - eexists. split; [cbn [cnew welford_core]; apply wo_new_ok; exact Hn|]. unfold welford_I. cbn. lia.
  - intros k s v Hi _. cbn [cstep welford_core]. apply wo_step_ok; assumption.
  - intros k s Hi. cbn [clast welford_core].
    destruct (Nat.lt_ge_cases k (n - 1)) as [H|H].
    + rewrite (wo_last_none n k s Hn Hi H). eauto.
    + destruct (wo_last_some n k s Hn Hi H) as [y Hy]. rewrite Hy. eauto.
Qed.

Lemma welford_ready n : (1 <= n)%nat -> ReadyAt (@welford_core R ROps n) (welford_I n) (n - 1).
Proof.
  intros Hn k s Hi. cbn [clast welford_core]. split; intros Hk.
  - exact (wo_last_none n k s Hn Hi Hk).
  - exact (wo_last_some n k s Hn Hi Hk).
Qed.

(** C15 WelfordOnline *)
Theorem safe_welford n vs : (1 <= n)%nat ->
  exists s o, crun (@welford_core R ROps n) vs = Ok s /\ clast (@welford_core R ROps n) s = Ok o.
Proof. intros Hn. apply (safe_run (welford_safe n Hn)). apply trueD. Qed.
(** C08 WelfordOnline *)
Theorem ready_mono_welford n : (1 <= n)%nat ->
  CReadyMono (@welford_core R ROps n) (fun _ => True) (InvOf (@welford_core R ROps n) (welford_I n)).
Proof. intros Hn. exact (ready_at_mono (welford_safe n Hn) (welford_ready n Hn)). Qed.
Theorem warmup_welford n vs : (1 <= n)%nat ->
  (cout (@welford_core R ROps n) vs = Ok None <-> (length vs < n - 1)%nat).
Proof. intros Hn. apply (warmup_none (welford_safe n Hn) (welford_ready n Hn)). apply trueD. Qed.

Lemma new_rejects_welford : @cnew R (@welford_core R ROps 0) = Err AssertFailed.
Proof. reflexivity. Qed.

(* ---------------------------------------------------------------- welford mean() / variance() getters *)
Lemma welford_mean_safe n : (1 <= n)%nat -> Safe (@welford_mean_core R ROps n) (fun _ => True) (welford_I n).
Proof.
  intros Hn. constructor.
  - eexists. split; [cbn [cnew welford_mean_core]; apply wo_new_ok; exact Hn|]. unfold welford_I. cbn. lia.
  - intros k s v Hi _. cbn [cstep welford_mean_core]. apply wo_step_ok; assumption.
  - intros k s Hi. cbn [clast welford_mean_core]. eauto.
Qed.
Lemma welford_mean_ready n : (1 <= n)%nat -> ReadyAt (@welford_mean_core R ROps n) (welford_I n) 0.
Proof.
  intros Hn k s Hi. cbn [clast welford_mean_core]. split; intros Hk; [lia|eauto].
Qed.
Theorem safe_welford_mean n vs : (1 <= n)%nat ->
  exists s o, crun (@welford_mean_core R ROps n) vs = Ok s /\ clast (@welford_mean_core R ROps n) s = Ok o.
Proof. intros Hn. apply (safe_run (welford_mean_safe n Hn)). apply trueD. Qed.
Theorem ready_mono_welford_mean n : (1 <= n)%nat ->
  CReadyMono (@welford_mean_core R ROps n) (fun _ => True) (InvOf (@welford_mean_core R ROps n) (welford_I n)).
Proof. intros Hn. exact (ready_at_mono (welford_mean_safe n Hn) (welford_mean_ready n Hn)). Qed.
Theorem warmup_welford_mean n vs : (1 <= n)%nat ->
  (cout (@welford_mean_core R ROps n) vs = Ok None <-> (length vs < 0)%nat).
Proof. intros Hn. apply (warmup_none (welford_mean_safe n Hn) (welford_mean_ready n Hn)). apply trueD. Qed.
Corollary always_some_welford_mean n vs : (1 <= n)%nat -> exists y, cout (@welford_mean_core R ROps n) vs = Ok (Some y).
Proof.
  intros Hn. apply (warmup_some (welford_mean_safe n Hn) (welford_mean_ready n Hn)); [apply trueD|lia].
Qed.

Lemma welford_var_safe n : (1 <= n)%nat -> Safe (@welford_var_core R ROps n) (fun _ => True) (welford_I n).
Proof.
  intros Hn. constructor.
  - eexists. split; [cbn [cnew welford_var_core]; apply wo_new_ok; exact Hn|]. unfold welford_I. cbn. lia.
  - intros k s v Hi _. cbn [cstep welford_var_core]. apply wo_step_ok; assumption.
  - intros k s Hi. cbn [clast welford_var_core]. destruct (wo_variance_ok s) as [var Hv]. rewrite Hv. cbn [bind]. eauto.
Qed.
Lemma welford_var_ready n : (1 <= n)%nat -> ReadyAt (@welford_var_core R ROps n) (welford_I n) 0.
Proof.
  intros Hn k s Hi. cbn [clast welford_var_core]. split; intros Hk; [lia|].
  destruct (wo_variance_ok s) as [var Hv]. rewrite Hv. cbn [bind]. eauto.
Qed.
Theorem safe_welford_var n vs : (1 <= n)%nat ->
  exists s o, crun (@welford_var_core R ROps n) vs = Ok s /\ clast (@welford_var_core R ROps n) s = Ok o.
Proof. intros Hn. apply (safe_run (welford_var_safe n Hn)). apply trueD. Qed.
Theorem ready_mono_welford_var n : (1 <= n)%nat ->
  CReadyMono (@welford_var_core R ROps n) (fun _ => True) (InvOf (@welford_var_core R ROps n) (welford_I n)).
Proof. intros Hn. exact (ready_at_mono (welford_var_safe n Hn) (welford_var_ready n Hn)). Qed.
Theorem warmup_welford_var n vs : (1 <= n)%nat ->
  (cout (@welford_var_core R ROps n) vs = Ok None <-> (length vs < 0)%nat).
Proof. intros Hn. apply (warmup_none (welford_var_safe n Hn) (welford_var_ready n Hn)). apply trueD. Qed.
Corollary always_some_welford_var n vs : (1 <= n)%nat -> exists y, cout (@welford_var_core R ROps n) vs = Ok (Some y).
Proof.
  intros Hn. apply (warmup_some (welford_var_safe n Hn) (welford_var_ready n Hn)); [apply trueD|lia].
Qed.
Lemma new_rejects_welford_mean : @cnew R (@welford_mean_core R ROps 0) = Err AssertFailed.
Proof. reflexivity. Qed.
Lemma new_rejects_welford_var : @cnew R (@welford_var_core R ROps 0) = Err AssertFailed.
Proof. reflexivity. Qed.

(* ---------------------------------------------------------------- vst *)
Definition vst_I (n k : nat) (s : R * @wo_st R) : Prop := welford_I n k (snd s).

Lemma vst_safe n : (1 <= n)%nat -> Safe (@vst_core R ROps n) (fun _ => True) (vst_I n).
Proof.
  intros Hn. constructor.
  - cbn [cnew vst_core]. rewrite (wo_new_ok n Hn). cbn [bind]. eexists. split; [reflexivity|].
    unfold vst_I, welford_I. cbn. lia.
  - intros k s v Hi _. unfold vst_I in *. cbn [cstep vst_core].
    destruct (wo_step_ok n k (snd s) v Hn Hi) as [w [Hw Hi']]. rewrite Hw. cbn [bind].
    eexists. split; [reflexivity|]. exact Hi'.
  - intros k s Hi. unfold vst_I in Hi. cbn [clast vst_core].
    destruct (Nat.lt_ge_cases k (n - 1)) as [H|H].
    + rewrite (wo_last_none n k (snd s) Hn Hi H). cbn [bind]. eauto.
    + destruct (wo_last_some n k (snd s) Hn Hi H) as [sd Hy]. rewrite Hy. cbn [bind].
      cbn [seqb s0 ROps]. destruct (Reqb sd 0) eqn:E; [eauto|]. apply Reqb_false in E.
      rewrite sdiv_R_ok by exact E. cbn [bind]. eauto.
Qed.
Lemma vst_ready n : (1 <= n)%nat -> ReadyAt (@vst_core R ROps n) (vst_I n) (n - 1).
Proof.
  intros Hn k s Hi. unfold vst_I in Hi. cbn [clast vst_core]. split; intros H.
  - rewrite (wo_last_none n k (snd s) Hn Hi H). reflexivity.
  - destruct (wo_last_some n k (snd s) Hn Hi H) as [sd Hy]. rewrite Hy. cbn [bind].
    cbn [seqb s0 ROps]. destruct (Reqb sd 0) eqn:E; [eauto|]. apply Reqb_false in E.
    rewrite sdiv_R_ok by exact E. cbn [bind]. eauto.
Qed.
Theorem safe_vst n vs : (1 <= n)%nat ->
  exists s o, crun (@vst_core R ROps n) vs = Ok s /\ clast (@vst_core R ROps n) s = Ok o.
Proof. intros Hn. apply (safe_run (vst_safe n Hn)). apply trueD. Qed.
Theorem ready_mono_vst n : (1 <= n)%nat ->
  CReadyMono (@vst_core R ROps n) (fun _ => True) (InvOf (@vst_core R ROps n) (vst_I n)).
Proof. intros Hn. exact (ready_at_mono (vst_safe n Hn) (vst_ready n Hn)). Qed.
Theorem warmup_vst n vs : (1 <= n)%nat ->
  (cout (@vst_core R ROps n) vs = Ok None <-> (length vs < n - 1)%nat).
Proof. intros Hn. apply (warmup_none (vst_safe n Hn) (vst_ready n Hn)). apply trueD. Qed.
Lemma new_rejects_vst : @cnew R (@vst_core R ROps 0) = Err AssertFailed.
Proof. reflexivity. Qed.

(* ---------------------------------------------------------------- vsct *)
Definition vsct_I (n k : nat) (s : R * @wo_st R) : Prop := welford_I n k (snd s).

Lemma vsct_safe n : (1 <= n)%nat -> Safe (@vsct_core R ROps n) (fun _ => True) (vsct_I n).
Proof.
  intros Hn. constructor.
  - cbn [cnew vsct_core]. rewrite (wo_new_ok n Hn). cbn [bind]. eexists. split; [reflexivity|].
    unfold vsct_I, welford_I. cbn. lia.
  - intros k s v Hi _. unfold vsct_I in *. cbn [cstep vsct_core].
    destruct (wo_step_ok n k (snd s) v Hn Hi) as [w [Hw Hi']]. rewrite Hw. cbn [bind].
    eexists. split; [reflexivity|]. exact Hi'.
  - intros k s Hi. unfold vsct_I in Hi. cbn [clast vsct_core].
    destruct (Nat.lt_ge_cases k (n - 1)) as [H|H].
    + rewrite (wo_last_none n k (snd s) Hn Hi H). cbn [bind]. eauto.
    + destruct (wo_last_some n k (snd s) Hn Hi H) as [sd Hy]. rewrite Hy. cbn [bind].
      cbn [seqb s0 ROps]. destruct (Reqb sd 0) eqn:E; [eauto|]. apply Reqb_false in E.
      rewrite sdiv_R_ok by exact E. cbn [bind]. eauto.
Qed.
Lemma vsct_ready n : (1 <= n)%nat -> ReadyAt (@vsct_core R ROps n) (vsct_I n) (n - 1).
Proof.
  intros Hn k s Hi. unfold vsct_I in Hi. cbn [clast vsct_core]. split; intros H.
  - rewrite (wo_last_none n k (snd s) Hn Hi H). reflexivity.
  - destruct (wo_last_some n k (snd s) Hn Hi H) as [sd Hy]. rewrite Hy. cbn [bind].
    cbn [seqb s0 ROps]. destruct (Reqb sd 0) eqn:E; [eauto|]. apply Reqb_false in E.
    rewrite sdiv_R_ok by exact E. cbn [bind]. eauto.
Qed.
Theorem safe_vsct n vs : (1 <= n)%nat ->
  exists s o, crun (@vsct_core R ROps n) vs = Ok s /\ clast (@vsct_core R ROps n) s = Ok o.
Proof. intros Hn. apply (safe_run (vsct_safe n Hn)). apply trueD. Qed.
Theorem ready_mono_vsct n : (1 <= n)%nat ->
  CReadyMono (@vsct_core R ROps n) (fun _ => True) (InvOf (@vsct_core R ROps n) (vsct_I n)).
Proof. intros Hn. exact (ready_at_mono (vsct_safe n Hn) (vsct_ready n Hn)). Qed.
Theorem warmup_vsct n vs : (1 <= n)%nat ->
  (cout (@vsct_core R ROps n) vs = Ok None <-> (length vs < n - 1)%nat).
Proof. intros Hn. apply (warmup_none (vsct_safe n Hn) (vsct_ready n Hn)). apply trueD. Qed.
Lemma new_rejects_vsct : @cnew R (@vsct_core R ROps 0) = Err AssertFailed.
Proof. reflexivity. Qed.

(* ---------------------------------------------------------------- hl_normalizer *)
Definition hln_I (n k : nat) (s : @hln_st R) : Prop :=
  length (hln_q s) = Nat.min n k /\ hln_min s <= hln_last s <= hln_max s.

Lemma extent_queue_ok (q : list R) : q <> [] -> exists a b, @extent_queue R ROps q = Ok (a, b).
Proof.
  intros Hq. unfold extent_queue. destruct q as [|y t]; [congruence|]. cbn [front bind].
  match goal with |- context [Ok ?p] => destruct p as [a b] end. eauto.
Qed.

Lemma hln_clip (v mn mx : R) :
  (if @sltb R ROps v mn then v else mn) <= v <= (if @sgtb R ROps v mx then v else mx).
Proof.
  unfold sgtb. cbn [sltb ROps].
  destruct (Rltb v mn) eqn:E1; [apply Rltb_true in E1|apply Rltb_false in E1];
  (destruct (Rltb mx v) eqn:E2; [apply Rltb_true in E2|apply Rltb_false in E2]); lra.
Qed.

Lemma hln_step_ok n k (s : @hln_st R) (v : R) : (1 <= n)%nat -> hln_I n k s ->
  exists s', @hln_step R ROps n s v = Ok s' /\ hln_I n (S k) s'.
Proof.
  intros Hn [Hl _]. unfold hln_step.
  destruct (if hln_init s then (v, v) else (hln_min s, hln_max s)) as [mn mx].
  destruct (Nat.leb_spec n (length (hln_q s))) as [Hf|Hf].
  - destruct (full_nonempty n (hln_q s) Hn Hf) as [x [r Hq]].
    assert (Hlen : length (tl (hln_q s) ++ [v]) = Nat.min n (S k)) by (apply len_push_full; assumption).
    rewrite Hq in *. cbn [front bind tl] in *.
    destruct (@sleb R ROps x mn || @sgeb R ROps x mx).
    + destruct (extent_queue_ok (r ++ [v])) as [a [b Hab]]; [destruct r; discriminate|].
      rewrite Hab. cbn [bind]. eexists. split; [reflexivity|]. split; cbn [hln_q hln_min hln_max hln_last].
      * exact Hlen.
      * apply hln_clip.
    + cbn [bind]. eexists. split; [reflexivity|]. split; cbn [hln_q hln_min hln_max hln_last].
      * exact Hlen.
      * apply hln_clip.
  - cbn [bind]. eexists. split; [reflexivity|]. split; cbn [hln_q hln_min hln_max hln_last].
    + apply len_push_notfull; assumption.
    + apply hln_clip.
Qed.

Lemma hln_last_some (s : @hln_st R) : hln_min s <= hln_last s <= hln_max s ->
  exists y, @hln_lastf R ROps s = Ok (Some y).
Proof.
  intros Hb. unfold hln_lastf. cbn [seqb ROps].
  destruct (Reqb (hln_last s) (hln_min s)) eqn:E1; [apply Reqb_true in E1|apply Reqb_false in E1];
  (destruct (Reqb (hln_last s) (hln_max s)) eqn:E2; [apply Reqb_true in E2|apply Reqb_false in E2]);
  cbn [andb]; [eauto| | |];
  (rewrite sdiv_R_ok by (cbn [ssub ROps]; lra); cbn [bind]; eauto).
Qed.

Lemma hln_safe n : (1 <= n)%nat -> Safe (@hln_core R ROps n) (fun _ => True) (hln_I n).
Proof.
  intros Hn. constructor.
  - eexists. split; [reflexivity|]. unfold hln_I. cbn [hln_q hln_min hln_max hln_last s0 ROps length]. split; [lia|lra].
  - intros k s v Hi _. cbn [cstep hln_core]. apply hln_step_ok; assumption.
  - intros k s [_ Hb]. cbn [clast hln_core]. destruct (hln_last_some s Hb) as [y Hy]. rewrite Hy. eauto.
Qed.
Lemma hln_ready n : (1 <= n)%nat -> ReadyAt (@hln_core R ROps n) (hln_I n) 0.
Proof.
  intros Hn k s [_ Hb]. cbn [clast hln_core]. split; intros Hk; [lia|]. exact (hln_last_some s Hb).
Qed.
Theorem safe_hln n vs : (1 <= n)%nat ->
  exists s o, crun (@hln_core R ROps n) vs = Ok s /\ clast (@hln_core R ROps n) s = Ok o.
Proof. intros Hn. apply (safe_run (hln_safe n Hn)). apply trueD. Qed.
Theorem ready_mono_hln n : (1 <= n)%nat ->
  CReadyMono (@hln_core R ROps n) (fun _ => True) (InvOf (@hln_core R ROps n) (hln_I n)).
Proof. intros Hn. exact (ready_at_mono (hln_safe n Hn) (hln_ready n Hn)). Qed.
Theorem warmup_hln n vs : (1 <= n)%nat ->
  (cout (@hln_core R ROps n) vs = Ok None <-> (length vs < 0)%nat).
Proof. intros Hn. apply (warmup_none (hln_safe n Hn) (hln_ready n Hn)). apply trueD. Qed.
Corollary always_some_hln n vs : (1 <= n)%nat -> exists y, cout (@hln_core R ROps n) vs = Ok (Some y).
Proof.
  intros Hn. apply (warmup_some (hln_safe n Hn) (hln_ready n Hn)); [apply trueD|lia].
Qed.

(* ---------------------------------------------------------------- binary_entropy *)
(** number of non-negative entries of the window *)
Fixpoint nonneg_count (q : list R) : nat :=
  match q with [] => 0%nat | x :: r => ((if Rleb 0 x then 1 else 0) + nonneg_count r)%nat end.

Lemma nonneg_count_app (q : list R) (v : R) :
  nonneg_count (q ++ [v]) = (nonneg_count q + (if Rleb 0 v then 1 else 0))%nat.
Proof.
  induction q as [|x r IH]; cbn [app nonneg_count]; [lia|]. rewrite IH. lia.
Qed.
Lemma nonneg_count_le (q : list R) : (nonneg_count q <= length q)%nat.
Proof.
  induction q as [|x r IH]; cbn [nonneg_count length]; [lia|]. destruct (Rleb 0 x); lia.
Qed.

Definition entropy_I (n k : nat) (s : @be_st R) : Prop :=
  length (be_q s) = Nat.min n k /\ be_p s = nonneg_count (be_q s).

Lemma be_step_ok n k (s : @be_st R) (v : R) : (1 <= n)%nat -> entropy_I n k s ->
  exists s', @be_step R ROps n s v = Ok s' /\ entropy_I n (S k) s'.
Proof.
  intros Hn [Hl Hp]. unfold be_step, sgeb. cbn [sleb s0 ROps].
  destruct (Nat.leb_spec n (length (be_q s))) as [Hf|Hf].
  - destruct (full_nonempty n (be_q s) Hn Hf) as [x [r Hq]].
    assert (Hlen : length (tl (be_q s) ++ [v]) = Nat.min n (S k)) by (apply len_push_full; assumption).
    rewrite Hq in *. cbn [pop_front bind tl nonneg_count] in *.
    destruct (Rleb 0 x) eqn:Ex.
    + unfold usub. destruct (Nat.ltb_spec (be_p s) 1) as [H1|H1]; [lia|]. cbn [bind].
      eexists. split; [reflexivity|]. split; cbn [be_q be_p]; [exact Hlen|].
      rewrite nonneg_count_app. destruct (Rleb 0 v); lia.
    + cbn [bind]. eexists. split; [reflexivity|]. split; cbn [be_q be_p]; [exact Hlen|].
      rewrite nonneg_count_app. destruct (Rleb 0 v); lia.
  - cbn [bind]. eexists. split; [reflexivity|]. split; cbn [be_q be_p].
    + apply len_push_notfull; assumption.
    + rewrite nonneg_count_app. destruct (Rleb 0 v); lia.
Qed.

Lemma be_last_nil (s : @be_st R) : be_q s = [] -> @be_last R ROps s = Ok None.
Proof. intros H. unfold be_last. rewrite H. reflexivity. Qed.

Lemma be_last_some (s : @be_st R) : be_q s <> [] -> be_p s = nonneg_count (be_q s) ->
  exists y, @be_last R ROps s = Ok (Some y).
Proof.
  intros Hne Hp. pose proof (nonneg_count_le (be_q s)) as Hle. rewrite <- Hp in Hle.
  assert (Hlen : (1 <= length (be_q s))%nat) by (destruct (be_q s); [congruence|cbn [length]; lia]).
  unfold be_last. destruct (be_q s) as [|x r] eqn:Eq; [congruence|].
  set (len := length (x :: r)) in *. clearbody len.
  rewrite sdiv_R_ok by (apply INR_pos_neq; lia). cbn [bind].
  destruct (Nat.eqb_spec (be_p s) 0) as [H0|H0]; [cbn [orb]; eauto|].
  destruct (Nat.eqb_spec (be_p s) len) as [H1|H1]; [cbn [orb]; eauto|]. cbn [orb].
  cbn [slog2 ssub s1 sofnat ROps].
  assert (HP : 0 < INR (be_p s)) by (apply INR_pos'; lia).
  assert (HL : INR (be_p s) < INR len) by (apply lt_INR; lia).
  assert (Hpt : 0 < INR (be_p s) / INR len) by (apply Rdiv_lt_0_compat; lra).
  assert (Hpn : INR (be_p s) / INR len < 1).
  { apply (Rmult_lt_reg_r (INR len)); [lra|]. unfold Rdiv. rewrite Rmult_assoc, Rinv_l by lra. lra. }
  destruct (Rle_dec (INR (be_p s) / INR len) 0) as [H|H]; [lra|]. cbn [bind].
  destruct (Rle_dec (1 - INR (be_p s) / INR len) 0) as [H'|H']; [lra|]. cbn [bind]. eauto.
Qed.

Lemma entropy_safe n : (1 <= n)%nat -> Safe (@entropy_core R ROps n) (fun _ => True) (entropy_I n).
Proof.
  intros Hn. constructor.
  - eexists. split; [reflexivity|]. unfold entropy_I. cbn [be_q be_p length nonneg_count]. split; [lia|reflexivity].
  - intros k s v Hi _. cbn [cstep entropy_core]. apply be_step_ok; assumption.
  - intros k s [Hl Hp]. cbn [clast entropy_core].
    destruct (be_q s) as [|x r] eqn:Eq.
    + rewrite (be_last_nil s Eq). eauto.
    + destruct (be_last_some s) as [y Hy]; [rewrite Eq; discriminate|rewrite Eq; exact Hp|]. rewrite Hy. eauto.
Qed.
Lemma entropy_ready n : (1 <= n)%nat -> ReadyAt (@entropy_core R ROps n) (entropy_I n) 1.
Proof.
  intros Hn k s [Hl Hp]. cbn [clast entropy_core]. split; intros Hk.
  - apply be_last_nil. destruct (be_q s); [reflexivity|cbn [length] in Hl; lia].
  - apply be_last_some; [|exact Hp]. intros E. rewrite E in Hl. cbn [length] in Hl. lia.
Qed.
Theorem safe_entropy n vs : (1 <= n)%nat ->
  exists s o, crun (@entropy_core R ROps n) vs = Ok s /\ clast (@entropy_core R ROps n) s = Ok o.
Proof. intros Hn. apply (safe_run (entropy_safe n Hn)). apply trueD. Qed.
Theorem ready_mono_entropy n : (1 <= n)%nat ->
  CReadyMono (@entropy_core R ROps n) (fun _ => True) (InvOf (@entropy_core R ROps n) (entropy_I n)).
Proof. intros Hn. exact (ready_at_mono (entropy_safe n Hn) (entropy_ready n Hn)). Qed.
Theorem warmup_entropy n vs : (1 <= n)%nat ->
  (cout (@entropy_core R ROps n) vs = Ok None <-> (length vs < 1)%nat).
Proof. intros Hn. apply (warmup_none (entropy_safe n Hn) (entropy_ready n Hn)). apply trueD. Qed.

(* ---------------------------------------------------------------- n = 0 (outside the hypotheses) *)
(** [hl_normalizer] and [binary_entropy] have no constructor assertion: with a zero window the first
    update fails ([front]/[pop_front] of the empty queue), so [1 <= n] is needed above. *)
Lemma hln_window0_first_update_fails (v : R) : cout (@hln_core R ROps 0) [v] = Err UnwrapNone.
Proof. reflexivity. Qed.
Lemma entropy_window0_first_update_fails (v : R) : cout (@entropy_core R ROps 0) [v] = Err UnwrapNone.
Proof. reflexivity. Qed.

(** the hypotheses are satisfiable *)
Example safe_B_hyp_ex : (1 <= 1)%nat /\ (1 <= 5)%nat.
Proof. split; lia. Qed.
Example warmup_welford_ex (a b c : R) :
  cout (@welford_core R ROps 3) [a] = Ok None /\ exists y, cout (@welford_core R ROps 3) [a; b] = Ok (Some y).
Proof.
  split.
  - apply (proj2 (warmup_welford 3 [a] ltac:(lia))). cbn [length]. lia.
  - apply (warmup_some (welford_safe 3 ltac:(lia)) (welford_ready 3 ltac:(lia))); [apply trueD|cbn [length]; lia].
Qed.

Print Assumptions safe_welford.
Print Assumptions warmup_welford.
Print Assumptions ready_mono_welford.
Print Assumptions safe_welford_mean.
Print Assumptions warmup_welford_mean.
Print Assumptions safe_welford_var.
Print Assumptions warmup_welford_var.
Print Assumptions safe_vst.
Print Assumptions warmup_vst.
Print Assumptions safe_vsct.
Print Assumptions warmup_vsct.
Print Assumptions safe_hln.
Print Assumptions warmup_hln.
Print Assumptions safe_entropy.
Print Assumptions warmup_entropy.
