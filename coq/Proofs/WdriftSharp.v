(** The WelfordOnline m2 residue need not vanish on a flat window, in the abstract standard model:
    a LEGAL rounded arithmetic (every addition errs by the full relative amount u downwards, the other
    operations are exact; eta = 0; every real is "in the format") and the stream [0; c; c] (window 2, ending
    in n = 2 identical values) on which  m2_fl = c^2 u (1-u)(1 + u/2 - u^2/2) > 0  while  m2_ex = 0,
    so last() (the standard deviation) answers a non-zero number where the exact answer is 0. *)
From Coq Require Import List Arith Lia Reals Lra ZArith.
From SF Require Import Res Scalar View Models Spec Core SpecWelf.
From SF.Proofs Require Import Window RBase WelfP FltErr Flt2P.
Import ListNotations.
Open Scope R_scope.

Section Sharp.
Variable u : R.
Hypothesis u_range : 0 < u < 1.

Definition dadd (a b : R) : R := (a + b) * (1 - u).
Definition DOps : Ops R := FlOps2 dadd Rminus Rmult Rdiv.

(** [dadd], exact -, *, / satisfy the hypotheses of [Flt2P.StdModel2] with [eta = 0] and [F] = everything *)
Lemma down_instance_ok :
  (forall a b : R, True -> True -> True /\ exists d, Rabs d <= u /\ dadd a b = (a + b) * (1 + d)) /\
  (forall a b : R, True -> True -> True /\ exists d, Rabs d <= u /\ a - b = (a - b) * (1 + d)) /\
  (forall a b : R, True -> True -> True /\ exists d e, Rabs d <= u /\ Rabs e <= 0 /\ a * b = a * b * (1 + d) + e) /\
  (forall a b : R, True -> True -> b <> 0 -> True /\ exists d e, Rabs d <= u /\ Rabs e <= 0 /\ a / b = a / b * (1 + d) + e).
Proof.
  assert (H0 : Rabs 0 <= u) by (rewrite Rabs_R0; lra).
  assert (H00 : Rabs 0 <= 0) by (rewrite Rabs_R0; lra).
  repeat split.
  - exists (- u). split; [rewrite Rabs_Ropp, Rabs_right; lra | unfold dadd; ring].
  - exists 0. split; [exact H0 | ring].
  - exists 0, 0. repeat split; try assumption. ring.
  - exists 0, 0. repeat split; try assumption. ring.
Qed.

(** one step while the window is not full: an add *)
Lemma dstep_add q m m2 k v : (length q + 1 <= 2)%nat ->
  @wo_step R DOps 2 {| wo_q := q; wo_mean := m; wo_m2 := m2; wo_count := k |} v
  = Ok {| wo_q := q ++ [v];
          wo_mean := dadd m ((v - m) / INR (k + 1));
          wo_m2 := dadd m2 ((v - m) * (v - dadd m ((v - m) / INR (k + 1))));
          wo_count := k + 1 |}.
Proof.
  intros Hl. unfold wo_step. cbn [wo_q wo_mean wo_m2 wo_count]. rewrite app_length. cbn [length].
  destruct (Nat.ltb_spec 2 (length q + 1)) as [H|_]; [lia|]. cbn [bind].
  unfold wo_add, DOps. cbn [ssub sadd smul sdiv sofnat FlOps2].
  destruct (Req_EM_T (INR (k + 1)) 0) as [Hz|_]; [exfalso; revert Hz; apply INR_pos_neq; lia|].
  reflexivity.
Qed.

(** one step on a full window of two values: a remove, then an add *)
Lemma dstep_full x y m m2 v :
  @wo_step R DOps 2 {| wo_q := [x; y]; wo_mean := m; wo_m2 := m2; wo_count := 2 |} v
  = let m1 := m - (x - m) / INR (2 - 1) in
    let q1 := m2 - (x - m) * (x - m1) in
    let m' := dadd m1 ((v - m1) / INR (2 - 1 + 1)) in
    Ok {| wo_q := [y; v]; wo_mean := m'; wo_m2 := dadd q1 ((v - m1) * (v - m')); wo_count := 2 - 1 + 1 |}.
Proof.
  unfold wo_step. cbn [wo_q wo_mean wo_m2 wo_count app length Nat.ltb Nat.leb pop_front bind].
  unfold wo_remove. cbn [Nat.leb]. unfold DOps. cbn [ssub sadd smul sdiv sofnat FlOps2].
  destruct (Req_EM_T (INR (2 - 1)) 0) as [Hz|_]; [exfalso; revert Hz; apply INR_pos_neq; lia|].
  cbn [bind]. unfold wo_add. cbn [ssub sadd smul sdiv sofnat FlOps2].
  destruct (Req_EM_T (INR (2 - 1 + 1)) 0) as [Hz|_]; [exfalso; revert Hz; apply INR_pos_neq; lia|].
  reflexivity.
Qed.

Definition residue (c : R) : R := c * c * u * (1 - u) * (1 + u / 2 - u * u / 2).

Lemma residue_pos c : c <> 0 -> 0 < residue c.
Proof.
  intros Hc. unfold residue.
  assert (0 < c * c) by (pose proof (Rsqr_pos_lt c Hc) as Q; unfold Rsqr in Q; exact Q).
  assert (0 < 1 + u / 2 - u * u / 2) by nra.
  apply Rmult_lt_0_compat; [apply Rmult_lt_0_compat; [apply Rmult_lt_0_compat; [assumption | lra] | lra] | assumption].
Qed.

(** the rounded state after [0; c; c] *)
Lemma drun c : exists s, crun (@welford_core R DOps 2) [0; c; c] = Ok s /\
  wo_count s = 2%nat /\ wo_m2 s = residue c.
Proof.
  unfold crun. cbn [cnew welford_core]. unfold wo_new. cbn [Nat.ltb Nat.leb assert bind].
  cbn [cfold cstep welford_core].
  change (@s0 R DOps) with 0.
  rewrite dstep_add by (cbn; lia). cbn [bind app].
  rewrite dstep_add by (cbn; lia). cbn [bind app Nat.add].
  rewrite dstep_full. cbn zeta. cbn [bind].
  eexists. split; [reflexivity|]. cbn [wo_count wo_m2]. split; [reflexivity|].
  unfold residue, dadd. cbn [INR Nat.add Nat.sub]. field.
Qed.

(** C. The residue persists: legal arithmetic [DOps] (see [down_instance_ok]), stream [0; c; c] ending in n = 2
    identical values: the exact m2 is 0, the rounded m2 is  c^2 u (1-u)(1 + u/2 - u^2/2) <> 0, and last()
    answers a non-zero standard deviation where the exact one is 0. *)
Theorem welford_m2_residue_persists c : c <> 0 ->
  exists s_fl s_ex,
    crun (@welford_core R DOps 2) [0; c; c] = Ok s_fl /\
    crun (@welford_core R ROps 2) [0; c; c] = Ok s_ex /\
    wo_m2 s_ex = 0 /\ wo_m2 s_fl = residue c /\ wo_m2 s_fl <> 0 /\
    cout (@welford_core R ROps 2) [0; c; c] = Ok (Some 0) /\
    cout (@welford_core R DOps 2) [0; c; c] = Ok (Some (sqrt (residue c))) /\ sqrt (residue c) <> 0.
Proof.
  intros Hc. pose proof (residue_pos c Hc) as Hpos.
  destruct (drun c) as [s [Hr [Hcnt Hm2]]].
  destruct (wo_run_inv 2 [0; c; c] ltac:(lia)) as [sx [Hrx (_ & _ & _ & Hx2)]].
  assert (Hflat : Forall (fun x => x = c) [c; c]) by (repeat constructor).
  destruct (welford_flat 2 c [0] [c; c] ltac:(lia) Hflat ltac:(cbn; lia)) as [Hl _].
  exists s, sx. split; [exact Hr|]. split; [exact Hrx|]. split; [|split; [exact Hm2|split; [lra|split; [exact Hl|split]]]].
  - rewrite Hx2. change (lastn 2 [0; c; c]) with [c; c].
    assert (Hm : rmean [c; c] = c) by (apply rmean_flat; [exact Hflat | discriminate]).
    rewrite Hm. apply rsqdev_flat. exact Hflat.
  - unfold cout. rewrite Hr. cbn [bind clast welford_core]. unfold wo_last, usub. cbn [Nat.ltb Nat.leb Nat.sub bind].
    rewrite Hcnt. cbn [Nat.ltb Nat.leb]. unfold wo_variance. rewrite Hcnt, Hm2. cbn [Nat.ltb Nat.leb Nat.sub].
    unfold DOps. cbn [sdiv sofnat FlOps2].
    destruct (Req_EM_T (INR 1) 0) as [Hz|_]; [exfalso; cbn in Hz; lra|]. cbn [bind sleb s0 FlOps2].
    assert (Ev : residue c / INR 1 = residue c) by (cbn [INR]; field). rewrite Ev.
    destruct (Rleb (residue c) 0) eqn:Eb; [apply Rleb_true in Eb; lra|].
    cbn [ssqrt FlOps2]. destruct (Rlt_dec (residue c) 0); [lra | reflexivity].
  - pose proof (sqrt_lt_R0 _ Hpos). lra.
Qed.
End Sharp.

Print Assumptions welford_m2_residue_persists.
Print Assumptions down_instance_ok.
