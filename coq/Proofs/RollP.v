(** C13 (and the C07/C08/C12 parts) for the whole-history views WelfordRolling, Drawdown, LnReturn
    (welford_rolling.rs, drawdown.rs, ln_return.rs): closed forms at [R]. *)
From Coq Require Import List Arith Lia QArith Reals Lra.
From SF Require Import Res Scalar View Models Spec Core SpecRoll.
From SF.Proofs Require Import Window RBase.
Import ListNotations.
Open Scope R_scope.

Notation Rsum := (@ssum R ROps).
Notation Rmean := (@smean R ROps).
Definition pos (x : R) : Prop := 0 < x.

(* ------------------------------------------------------------------ general helpers *)

Lemma sdivd_R_0 a : @sdivd R ROps a 0 = 0.
Proof. unfold sdivd. cbn. unfold Rdiv_res. destruct (Req_EM_T 0 0); [reflexivity | congruence]. Qed.

Lemma ssqrtd_R a : 0 <= a -> @ssqrtd R ROps a = sqrt a.
Proof. intros H. unfold ssqrtd. cbn. destruct (Rlt_dec a 0); [lra | reflexivity]. Qed.

Lemma slnd_R a : 0 < a -> @slnd R ROps a = ln a.
Proof. intros H. unfold slnd. cbn. destruct (Rle_dec a 0); [lra | reflexivity]. Qed.

Lemma smax_R a b : @smax R ROps a b = Rmax a b.
Proof.
  unfold smax, sgeb. cbn [sleb ROps]. unfold Rmax.
  destruct (Rleb b a) eqn:E; [apply Rleb_true in E | apply Rleb_false in E]; destruct (Rle_dec a b); lra.
Qed.

Lemma Rsum_map_app (f : R -> R) l x : Rsum (map f (l ++ [x])) = Rsum (map f l) + f x.
Proof. rewrite map_app. cbn [map]. apply ssum_R_app. Qed.

Lemma Rsum_nonneg l : Forall (fun x => 0 <= x) l -> 0 <= Rsum l.
Proof.
  induction l as [|x l IH]; intros H; [rewrite ssum_R_nil; lra|].
  rewrite ssum_R_cons. inversion H; subst. specialize (IH H3). lra.
Qed.

Lemma Rsum_map_scale c (f : R -> R) l : Rsum (map (fun x => c * f x) l) = c * Rsum (map f l).
Proof.
  induction l as [|x l IH]; cbn [map]; [rewrite ssum_R_nil; lra|].
  rewrite !ssum_R_cons, IH. lra.
Qed.

Lemma Rsum_map_ext (f g : R -> R) l : (forall x, f x = g x) -> Rsum (map f l) = Rsum (map g l).
Proof. intros H. f_equal. apply map_ext. exact H. Qed.

(** [n * mean = sum] (also for the empty history) *)
Lemma Rmean_mul h : INR (length h) * Rmean h = Rsum h.
Proof.
  unfold smean. destruct h as [|x h].
  - cbn [length]. rewrite ssum_R_nil. cbn. lra.
  - cbn [sofnat ROps]; rewrite sdivd_R by (apply INR_pos_neq; cbn; lia). field. apply INR_pos_neq; cbn; lia.
Qed.

(** sum of squared deviations from any centre *)
Lemma dev_expand c l :
  Rsum (map (fun x => (x - c) * (x - c)) l)
  = Rsum (map (fun x => x * x) l) - 2 * c * Rsum l + INR (length l) * c * c.
Proof.
  induction l as [|x l IH].
  - cbn [map length]. rewrite !ssum_R_nil. cbn. lra.
  - cbn [map]. rewrite !ssum_R_cons, IH. cbn [length]. rewrite S_INR. lra.
Qed.

(* ------------------------------------------------------------------ WelfordRolling *)

Definition wr_inv (h : list R) (s : @wr_st R) : Prop :=
  wr_n s = length h /\ wr_mean s = @spec_rmean R ROps h /\ wr_s s = @spec_rdev R ROps h.

Lemma spec_rdev_R h : @spec_rdev R ROps h = Rsum (map (fun x => (x - Rmean h) * (x - Rmean h)) h).
Proof. reflexivity. Qed.

Lemma wr_step_inv h s v : wr_inv h s -> exists s', wr_step s v = Ok s' /\ wr_inv (h ++ [v]) s'.
Proof.
  intros [Hn [Hm Hs]]. unfold wr_step. rewrite Hn.
  assert (HN : INR (S (length h)) <> 0) by (apply INR_pos_neq; lia).
  rewrite sdiv_R_ok by exact HN. cbn [bind].
  eexists; split; [reflexivity|].
  pose proof (Rmean_mul h) as Hmu. pose proof (Rmean_mul (h ++ [v])) as Hmu'.
  rewrite ssum_R_app in Hmu'. rewrite app_length in Hmu'. cbn [length] in Hmu'.
  replace (length h + 1)%nat with (S (length h)) in Hmu' by lia.
  assert (Hlen : length (h ++ [v]) = S (length h)) by (rewrite app_length; cbn; lia).
  unfold spec_rmean in Hm.
  assert (Hm' : Rmean h + (v - Rmean h) / INR (S (length h)) = Rmean (h ++ [v])).
  { rewrite S_INR in *. set (N := INR (length h)) in *. set (m := Rmean h) in *.
    set (m' := Rmean (h ++ [v])) in *. clearbody N m m'.
    apply Rmult_eq_reg_l with (N + 1); [|exact HN]. rewrite Hmu', <- Hmu. field. exact HN. }
  split; [|split]; cbn [wr_n wr_mean wr_s sadd ssub smul ROps sofnat].
  - symmetry; exact Hlen.
  - unfold spec_rmean. rewrite Hm. exact Hm'.
  - rewrite Hs, Hm, Hm'. rewrite !spec_rdev_R, !dev_expand. rewrite Hlen.
    rewrite Rsum_map_app, ssum_R_app.
    rewrite S_INR in *. set (N := INR (length h)) in *. set (m := Rmean h) in *.
    set (m' := Rmean (h ++ [v])) in *. set (Q := Rsum (map (fun x => x * x) h)).
    rewrite <- Hmu in Hmu' |- *. clearbody N m m' Q.
    assert (Hv : v = (N + 1) * m' - N * m) by lra. clear - Hv. subst v. ring.
Qed.

Lemma wr_run vs : exists s, crun (@wrolling_core R ROps) vs = Ok s /\ wr_inv vs s.
Proof.
  apply (@crun_inv R (@wrolling_core R ROps) (fun _ => True) wr_inv wr_new).
  - reflexivity.
  - repeat split. cbn. unfold spec_rmean, smean. cbn [length]. rewrite ssum_R_nil. cbn. rewrite sdivd_R_0. reflexivity.
  - intros h s v _ _ Hi. apply wr_step_inv; exact Hi.
  - apply Forall_forall; trivial.
Qed.

Lemma spec_rdev_nonneg h : 0 <= @spec_rdev R ROps h.
Proof.
  rewrite spec_rdev_R. apply Rsum_nonneg. apply Forall_forall. intros y Hy.
  apply in_map_iff in Hy. destruct Hy as [x [Hx _]]. subst y. apply Rle_0_sqr.
Qed.

Lemma spec_rvar_nonneg h : 0 <= @spec_rvar R ROps h.
Proof.
  unfold spec_rvar. destruct h as [|x h].
  - cbn [length]. cbn. rewrite sdivd_R_0. lra.
  - cbn [sofnat ROps]; rewrite sdivd_R by (apply INR_pos_neq; cbn; lia).
    apply Rmult_le_pos; [apply spec_rdev_nonneg|]. apply Rlt_le, Rinv_0_lt_compat. apply lt_0_INR. cbn; lia.
Qed.

Lemma wr_mean_crun vs : crun (@wrolling_mean_core R ROps) vs = crun (@wrolling_core R ROps) vs.
Proof.
  unfold crun. cbn [cnew wrolling_mean_core wrolling_core bind]. generalize (@wr_new R ROps).
  induction vs as [|v vs IH]; intros s; cbn [cfold]; [reflexivity|].
  cbn [cstep wrolling_mean_core wrolling_core]. destruct (wr_step s v) as [s'|e]; cbn [bind]; [apply IH | reflexivity].
Qed.

(** C13 (WelfordRolling, mean): [mean()] is the arithmetic mean of all values delivered so far. *)
Theorem wrolling_mean_closed_form vs : vs <> [] ->
  cout (@wrolling_mean_core R ROps) vs = Ok (Some (@spec_rmean R ROps vs)).
Proof.
  intros _. destruct (wr_run vs) as [s [Hr [_ [Hm _]]]].
  unfold cout. rewrite wr_mean_crun, Hr. cbn [bind clast wrolling_mean_core]. rewrite Hm. reflexivity.
Qed.

(** C13 (WelfordRolling, last), all histories: [None] before any value, then the population standard deviation. *)
Theorem wrolling_closed_form_total vs :
  cout (@wrolling_core R ROps) vs
  = Ok (match vs with [] => None | _ => Some (@spec_rstd R ROps vs) end).
Proof.
  destruct (wr_run vs) as [s [Hr [Hn [Hm Hs]]]].
  unfold cout. rewrite Hr. cbn [bind clast wrolling_core]. unfold wr_last, wr_variance. rewrite Hn.
  destruct vs as [|x vs]; [reflexivity|].
  set (h := x :: vs) in *. assert (Hl : (1 <= length h)%nat) by (cbn; lia).
  replace (Nat.eqb (length h) 0) with false by (symmetry; apply Nat.eqb_neq; lia).
  pose proof (spec_rvar_nonneg h) as Hv.
  assert (Hvar : (if Nat.ltb 1 (length h) then @sdiv R ROps (wr_s s) (sofnat (length h)) else Ok s0)
                 = Ok (@spec_rvar R ROps h)).
  { unfold spec_rvar. cbn [sofnat ROps]; rewrite sdivd_R by (apply INR_pos_neq; lia).
    destruct (Nat.ltb_spec 1 (length h)) as [H|H].
    - cbn [sofnat ROps]; rewrite sdiv_R_ok by (apply INR_pos_neq; lia). rewrite Hs. reflexivity.
    - assert (Hvs : vs = []) by (destruct vs; [reflexivity | cbn in H; lia]).
      subst vs. subst h. cbn [length]. rewrite spec_rdev_R. unfold smean. cbn [length].
      cbn [sofnat ROps]; rewrite sdivd_R by (cbn; lra). cbn [map]. rewrite !ssum_R_cons, !ssum_R_nil. cbn. f_equal. field. }
  rewrite Hvar. cbn [bind]. unfold spec_rstd. rewrite ssqrtd_R by exact Hv.
  cbn [ssqrt ROps]. destruct (Rlt_dec (@spec_rvar R ROps h) 0); [lra | reflexivity].
Qed.

(** C13 (WelfordRolling, last): [last()] is the population standard deviation of all values so far. *)
Theorem wrolling_closed_form vs : vs <> [] ->
  cout (@wrolling_core R ROps) vs = Ok (Some (@spec_rstd R ROps vs)).
Proof. intros H. rewrite wrolling_closed_form_total. destruct vs; [congruence | reflexivity]. Qed.

(* ------------------------------------------------------------------ Drawdown *)

(** the specification's accumulator (running peak, largest decline) after the history [h] *)
Definition dd_spec_st (h : list R) : R * R :=
  match h with [] => (0, 0) | x :: r => fold_left (@dd_acc R ROps) r (x, 0) end.

Lemma spec_drawdown_st h : @spec_drawdown R ROps h = snd (dd_spec_st h).
Proof. destruct h; reflexivity. Qed.

Lemma dd_spec_st_snoc h v : h <> [] -> dd_spec_st (h ++ [v]) = @dd_acc R ROps (dd_spec_st h) v.
Proof.
  destruct h as [|x r]; [congruence|]. intros _. cbn [app dd_spec_st]. rewrite fold_left_app. reflexivity.
Qed.

Lemma dd_acc_R P B v : Rmax P v <> 0 ->
  @dd_acc R ROps (P, B) v = (Rmax P v, Rmax B ((Rmax P v - v) / Rmax P v)).
Proof.
  intros H. unfold dd_acc. cbn [fst snd]. rewrite !smax_R. cbn [ssub ROps]. rewrite sdivd_R by exact H. reflexivity.
Qed.

Lemma ratio_mono P a b : 0 < P -> b <= a -> (P - a) / P <= (P - b) / P.
Proof.
  intros HP H. unfold Rdiv. apply Rmult_le_compat_r; [left; apply Rinv_0_lt_compat; exact HP | lra].
Qed.
Lemma ratio_self P : P <> 0 -> (P - P) / P = 0.
Proof. intros H. field. exact H. Qed.
Lemma ratio_lt_1 P a : 0 < P -> 0 < a -> (P - a) / P < 1.
Proof.
  intros HP Ha. apply Rmult_lt_reg_r with P; [exact HP|]. unfold Rdiv. rewrite Rmult_assoc, Rinv_l by lra. lra.
Qed.
Lemma ratio_nonneg P a : 0 < P -> a <= P -> 0 <= (P - a) / P.
Proof. intros HP Ha. rewrite <- (ratio_self P) by lra. apply ratio_mono; assumption. Qed.

Lemma sgtb_sel a b : (if @sgtb R ROps a b then a else b) = Rmax b a.
Proof.
  unfold sgtb. cbn [sltb ROps]. unfold Rmax.
  destruct (Rltb b a) eqn:E; [apply Rltb_true in E | apply Rltb_false in E]; destruct (Rle_dec b a); lra.
Qed.
Lemma sltb_sel a b : (if @sltb R ROps a b then a else b) = Rmin b a.
Proof.
  cbn [sltb ROps]. unfold Rmin.
  destruct (Rltb a b) eqn:E; [apply Rltb_true in E | apply Rltb_false in E]; destruct (Rle_dec b a); lra.
Qed.

Lemma ratio_nonpos P a : P < 0 -> a <= P -> (P - a) / P <= 0.
Proof.
  intros HP Ha.
  assert (H : 0 <= (P - a) / - P) by (apply Rmult_le_pos; [lra | left; apply Rinv_0_lt_compat; lra]).
  replace ((P - a) / P) with (- ((P - a) / - P)) by (field; lra). lra.
Qed.

Definition nz (x : R) : Prop := x <> 0.

(** State invariant.  Besides "peak and maximal decline agree with the specification's accumulator" it
    says that the decline of the current peak epoch, [(peak - min_after_peak) / peak], is already
    accounted for in the maximum: within an epoch that quantity is the maximum of [(peak - x_j) / peak]
    over the epoch, which is why remembering only the epoch's minimum suffices.
    (For a negative peak all declines are <= 0 and the maximum stays where it was.) *)
Definition dd_inv (h : list R) (s : @dd_st R) : Prop :=
  (h = [] /\ dd_peak s = None /\ dd_max s = 0) \/
  (h <> [] /\ exists P B m, dd_spec_st h = (P, B) /\ dd_peak s = Some P /\ dd_max s = B /\ dd_min s = m /\
      m <= P /\ P <> 0 /\ 0 <= B /\ (0 < P -> (P - m) / P <= B)).

Lemma dd_step_inv h s v : nz v -> dd_inv h s ->
  exists s', dd_step s v = Ok s' /\ dd_inv (h ++ [v]) s'.
Proof.
  unfold nz. intros Hv Hi. unfold dd_step.
  assert (Hne : h ++ [v] <> []) by (destruct h; discriminate).
  destruct Hi as [[Hh [Hp Hm]] | [Hh [P [B [m [Hst [Hp [Hmx [Hmn [HmP [HP0 [HB0 HrB]]]]]]]]]]]].
  - subst h. rewrite Hp, Hm. rewrite sltb_sel. cbn [ssub ROps]. rewrite Rmin_left by lra.
    rewrite sdiv_R_ok by exact Hv. cbn [bind]. rewrite sgtb_sel, ratio_self by exact Hv. rewrite Rmax_left by lra.
    eexists; split; [reflexivity|]. right. split; [exact Hne|].
    exists v, 0, v. cbn [dd_peak dd_max dd_min app dd_spec_st fold_left].
    repeat split; try reflexivity; try lra.
  - rewrite Hp, Hmx, Hmn.
    assert (Hsp : dd_spec_st (h ++ [v]) = @dd_acc R ROps (P, B) v) by (rewrite (dd_spec_st_snoc h v Hh), Hst; reflexivity).
    unfold sgtb at 1. cbn [sltb ROps]. destruct (Rltb P v) eqn:E; [apply Rltb_true in E | apply Rltb_false in E].
    + (* new peak *)
      rewrite sltb_sel. cbn [ssub ROps]. rewrite Rmin_left by lra.
      rewrite sdiv_R_ok by exact Hv. cbn [bind]. rewrite sgtb_sel, ratio_self by exact Hv. rewrite Rmax_left by lra.
      eexists; split; [reflexivity|]. right. split; [exact Hne|].
      exists v, B, v. cbn [dd_peak dd_max dd_min].
      rewrite Hsp, dd_acc_R by (rewrite Rmax_right by lra; exact Hv). rewrite Rmax_right by lra.
      rewrite ratio_self by exact Hv. rewrite Rmax_left by lra.
      repeat split; try reflexivity; try lra.
    + (* same peak epoch *)
      rewrite sltb_sel. cbn [ssub ROps]. rewrite sdiv_R_ok by exact HP0. cbn [bind]. rewrite sgtb_sel.
      eexists; split; [reflexivity|]. right. split; [exact Hne|].
      rewrite Hsp, dd_acc_R by (rewrite Rmax_left by lra; exact HP0). rewrite Rmax_left by lra.
      exists P, (Rmax B ((P - v) / P)), (Rmin m v). cbn [dd_peak dd_max dd_min].
      assert (HmP' : Rmin m v <= P) by (apply Rle_trans with m; [apply Rmin_l | exact HmP]).
      destruct (Rlt_dec 0 P) as [HP|HP].
      * (* positive peak *)
        destruct (Rle_dec m v) as [Hle|Hgt].
        -- (* not a new minimum: nothing changes *)
           rewrite Rmin_left by exact Hle.
           pose proof (ratio_mono P v m HP Hle) as Hmono. specialize (HrB HP).
           rewrite (Rmax_left B ((P - m) / P)) by exact HrB.
           rewrite (Rmax_left B ((P - v) / P)) by lra.
           repeat split; try reflexivity; try lra.
        -- (* new minimum of the epoch *)
           rewrite Rmin_right by lra.
           repeat split; try reflexivity; try lra.
           ++ apply Rle_trans with B; [exact HB0 | apply Rmax_l].
           ++ intros _. apply Rmax_r.
      * (* negative peak: every decline is <= 0 *)
        assert (HPn : P < 0) by lra.
        pose proof (ratio_nonpos P (Rmin m v) HPn HmP') as H1.
        pose proof (ratio_nonpos P v HPn E) as H2.
        rewrite (Rmax_left B ((P - Rmin m v) / P)) by lra.
        rewrite (Rmax_left B ((P - v) / P)) by lra.
        repeat split; try reflexivity; try lra.
Qed.

Lemma dd_run vs : Forall nz vs -> exists s, crun (@drawdown_core R ROps) vs = Ok s /\ dd_inv vs s.
Proof.
  apply (@crun_inv R (@drawdown_core R ROps) nz dd_inv {| dd_max := 0; dd_peak := None; dd_min := 0 |}).
  - reflexivity.
  - left. repeat split.
  - intros h s v _ Hv Hi. apply dd_step_inv; assumption.
Qed.

Lemma Forall_pos_nz vs : Forall pos vs -> Forall nz vs.
Proof. apply Forall_impl. unfold pos, nz. intros a H. lra. Qed.

(** C13 (Drawdown), stronger than asked: the closed form holds on every history without a zero
    (a zero peak makes the division fail; mixed signs are fine). *)
Theorem drawdown_closed_form_nz vs : Forall nz vs ->
  cout (@drawdown_core R ROps) vs = Ok (Some (@spec_drawdown R ROps vs)).
Proof.
  intros HD. destruct (dd_run vs HD) as [s [Hr Hi]]. unfold cout. rewrite Hr. cbn [bind clast drawdown_core].
  rewrite spec_drawdown_st. do 2 f_equal.
  destruct Hi as [[Hh [_ Hm]] | [_ [P [B [m [Hst [_ [Hmx _]]]]]]]].
  - subst vs. exact Hm.
  - rewrite Hst. exact Hmx.
Qed.

(** C13 (Drawdown): the answer is the largest relative decline from the running peak, 0 before any decline. *)
Theorem drawdown_closed_form vs : Forall pos vs ->
  cout (@drawdown_core R ROps) vs = Ok (Some (@spec_drawdown R ROps vs)).
Proof. intros HD. apply drawdown_closed_form_nz, Forall_pos_nz, HD. Qed.

(* ------------------------------------------------------------------ LnReturn *)

Definition lr_st (h : list R) : R * R := fold_left (fun s v => (snd s, v)) h (0, 0).

Lemma lr_run vs : crun (@lnret_core R ROps) vs = Ok (lr_st vs).
Proof.
  unfold crun, lr_st. cbn [cnew lnret_core bind s0 ROps]. generalize (0, 0).
  induction vs as [|v vs IH]; intros s; cbn [cfold fold_left]; [reflexivity|].
  cbn [cstep lnret_core bind]. apply IH.
Qed.

(** a list is empty, a singleton, or ends in two values *)
Lemma list_last_two {A} (l : list A) :
  l = [] \/ (exists x, l = [x]) \/ (exists p y x, l = p ++ [y; x]).
Proof.
  destruct l as [|x l] using rev_ind; [left; reflexivity|]. clear IHl.
  destruct l as [|y l] using rev_ind; [right; left; exists x; reflexivity|]. clear IHl.
  right; right. exists l, y, x. rewrite <- app_assoc. reflexivity.
Qed.

(** C13 (LnReturn): [None] until two values were delivered, then [ln (x_t / x_(t-1))]. *)
Theorem lnret_closed_form vs : Forall pos vs ->
  cout (@lnret_core R ROps) vs = Ok (@spec_lnreturn R ROps vs).
Proof.
  intros HD. unfold cout. rewrite lr_run. cbn [bind clast lnret_core].
  destruct (list_last_two vs) as [H | [[x H] | [p [y [x H]]]]]; subst vs.
  - cbn. unfold Reqb. destruct (Req_EM_T 0 0); [reflexivity | congruence].
  - cbn. unfold Reqb. destruct (Req_EM_T 0 0); [reflexivity | congruence].
  - unfold spec_lnreturn, lr_st. rewrite rev_app_distr, fold_left_app. cbn [rev app fold_left fst snd].
    apply Forall_app in HD. destruct HD as [_ HD]. inversion HD as [|? ? Hy HD']; subst. inversion HD' as [|? ? Hx _]; subst.
    unfold pos in *. cbn [seqb ROps s0].
    replace (Reqb y 0) with false by (symmetry; apply Reqb_false; lra).
    rewrite sdiv_R_ok, sdivd_R by lra. cbn [bind].
    assert (Hq : 0 < x / y) by (apply Rdiv_lt_0_compat; assumption).
    rewrite slnd_R by exact Hq. cbn [sln ROps]. destruct (Rle_dec (x / y) 0); [lra | reflexivity].
Qed.

(* ------------------------------------------------------------------ C07: ranges, monotonicity *)

Lemma spec_rstd_nonneg h : 0 <= @spec_rstd R ROps h.
Proof. unfold spec_rstd. rewrite ssqrtd_R by apply spec_rvar_nonneg. apply sqrt_pos. Qed.

(** C07 (WelfordRolling): whatever [last()] answers is >= 0, on every history of reals. *)
Theorem wrolling_nonneg vs r : cout (@wrolling_core R ROps) vs = Ok (Some r) -> 0 <= r.
Proof.
  rewrite wrolling_closed_form_total. destruct vs as [|x vs]; intros H; inversion H; subst.
  apply spec_rstd_nonneg.
Qed.

Lemma dd_spec_st_range h : Forall pos h -> h <> [] ->
  0 < fst (dd_spec_st h) /\ 0 <= snd (dd_spec_st h) < 1.
Proof.
  induction h as [|v h IH] using rev_ind; [congruence|]. intros HD _.
  apply Forall_app in HD. destruct HD as [HD Hv]. apply Forall_inv in Hv. unfold pos in Hv.
  destruct h as [|x r].
  - cbn. lra.
  - set (h := x :: r) in *. assert (Hh : h <> []) by discriminate.
    destruct (IH HD Hh) as [HP [HB0 HB1]]. rewrite dd_spec_st_snoc by exact Hh.
    destruct (dd_spec_st h) as [P B]. cbn [fst snd] in *.
    assert (HM : 0 < Rmax P v) by (apply Rlt_le_trans with P; [exact HP | apply Rmax_l]).
    rewrite dd_acc_R by lra. cbn [fst snd]. split; [exact HM|]. split.
    + apply Rle_trans with B; [exact HB0 | apply Rmax_l].
    + apply Rmax_lub_lt; [exact HB1 | apply ratio_lt_1; assumption].
Qed.

Lemma spec_drawdown_range vs : Forall pos vs -> 0 <= @spec_drawdown R ROps vs < 1.
Proof.
  intros HD. rewrite spec_drawdown_st. destruct vs as [|x r]; [cbn; lra|].
  apply dd_spec_st_range; [exact HD | discriminate].
Qed.

(** C07 (Drawdown): for positive inputs the answer exists and lies in [0,1). *)
Theorem drawdown_range vs : Forall pos vs ->
  exists d, cout (@drawdown_core R ROps) vs = Ok (Some d) /\ 0 <= d < 1.
Proof.
  intros HD. eexists; split; [apply drawdown_closed_form; exact HD | apply spec_drawdown_range; exact HD].
Qed.

(** the specification never decreases when a value is appended (any reals) *)
Lemma spec_drawdown_mono h v : @spec_drawdown R ROps h <= @spec_drawdown R ROps (h ++ [v]).
Proof.
  destruct h as [|x r].
  - cbn. lra.
  - rewrite !spec_drawdown_st. rewrite dd_spec_st_snoc by discriminate.
    unfold dd_acc. cbn [snd]. rewrite (smax_R (snd _)). apply Rmax_l.
Qed.

(** C07 (Drawdown): the answer is non-decreasing along the stream (positive inputs). *)
Theorem drawdown_monotone vs v : Forall pos (vs ++ [v]) ->
  exists a b, cout (@drawdown_core R ROps) vs = Ok (Some a) /\
              cout (@drawdown_core R ROps) (vs ++ [v]) = Ok (Some b) /\ a <= b.
Proof.
  intros HD. pose proof HD as HD'. apply Forall_app in HD'. destruct HD' as [HD' _].
  exists (@spec_drawdown R ROps vs), (@spec_drawdown R ROps (vs ++ [v])).
  split; [apply drawdown_closed_form; exact HD' | split; [apply drawdown_closed_form; exact HD | apply spec_drawdown_mono]].
Qed.

(* ------------------------------------------------------------------ C12: scaling x -> a*x *)

Lemma dd_acc_scale a P B x : 0 < a ->
  @dd_acc R ROps (a * P, B) (a * x) = (a * fst (@dd_acc R ROps (P, B) x), snd (@dd_acc R ROps (P, B) x)).
Proof.
  intros Ha. unfold dd_acc. cbn [fst snd]. rewrite !smax_R. rewrite RmaxRmult by lra.
  set (p := Rmax P x). cbn [ssub ROps]. f_equal. f_equal.
  destruct (Req_EM_T p 0) as [H0|Hn].
  - rewrite H0, Rmult_0_r, !sdivd_R_0. reflexivity.
  - rewrite !sdivd_R; [field; split; lra | exact Hn | apply Rmult_integral_contrapositive_currified; lra].
Qed.

Lemma dd_fold_scale a r : 0 < a -> forall P B,
  fold_left (@dd_acc R ROps) (map (Rmult a) r) (a * P, B)
  = (a * fst (fold_left (@dd_acc R ROps) r (P, B)), snd (fold_left (@dd_acc R ROps) r (P, B))).
Proof.
  intros Ha. induction r as [|x r IH]; intros P B; cbn [map fold_left]; [reflexivity|].
  rewrite dd_acc_scale by exact Ha. rewrite IH. rewrite <- surjective_pairing. reflexivity.
Qed.

(** the specified drawdown is invariant under a positive change of unit (any reals) *)
Lemma spec_drawdown_scale a h : 0 < a -> @spec_drawdown R ROps (map (Rmult a) h) = @spec_drawdown R ROps h.
Proof.
  intros Ha. destruct h as [|x r]; [reflexivity|]. cbn [map spec_drawdown s0 ROps].
  rewrite dd_fold_scale by exact Ha. reflexivity.
Qed.

Lemma Forall_pos_scale a vs : 0 < a -> Forall pos vs -> Forall pos (map (Rmult a) vs).
Proof.
  intros Ha H. apply Forall_forall. intros y Hy. apply in_map_iff in Hy. destruct Hy as [x [Hx Hin]]. subst y.
  rewrite Forall_forall in H. apply Rmult_lt_0_compat; [exact Ha | apply H; exact Hin].
Qed.

(** C12 (Drawdown): unchanged under x -> a*x, a > 0 (positive inputs). *)
Theorem drawdown_scale_invariant a vs : 0 < a -> Forall pos vs ->
  cout (@drawdown_core R ROps) (map (Rmult a) vs) = cout (@drawdown_core R ROps) vs.
Proof.
  intros Ha HD. rewrite !drawdown_closed_form by (try apply Forall_pos_scale; assumption).
  rewrite spec_drawdown_scale by exact Ha. reflexivity.
Qed.

Lemma spec_lnreturn_scale a h : a <> 0 -> @spec_lnreturn R ROps (map (Rmult a) h) = @spec_lnreturn R ROps h.
Proof.
  intros Ha. unfold spec_lnreturn. rewrite <- map_rev.
  destruct (rev h) as [|x [|y l]]; cbn [map]; try reflexivity.
  do 2 f_equal. destruct (Req_EM_T y 0) as [H0|Hn].
  - rewrite H0, Rmult_0_r, !sdivd_R_0. reflexivity.
  - rewrite !sdivd_R; [field; split; assumption | exact Hn | apply Rmult_integral_contrapositive_currified; assumption].
Qed.

(** C12 (LnReturn): unchanged under x -> a*x, a > 0 (positive inputs). *)
Theorem lnret_scale_invariant a vs : 0 < a -> Forall pos vs ->
  cout (@lnret_core R ROps) (map (Rmult a) vs) = cout (@lnret_core R ROps) vs.
Proof.
  intros Ha HD. rewrite !lnret_closed_form by (try apply Forall_pos_scale; assumption).
  rewrite spec_lnreturn_scale by lra. reflexivity.
Qed.

Lemma Rsum_scale a h : Rsum (map (Rmult a) h) = a * Rsum h.
Proof. rewrite <- (map_id h) at 2. apply (Rsum_map_scale a (fun x => x)). Qed.

Lemma spec_rmean_scale a h : @spec_rmean R ROps (map (Rmult a) h) = a * @spec_rmean R ROps h.
Proof.
  unfold spec_rmean, smean. rewrite map_length, Rsum_scale. destruct h as [|x h].
  - cbn [length]. cbn. rewrite !sdivd_R_0. lra.
  - cbn [sofnat ROps]. rewrite !sdivd_R by (apply INR_pos_neq; cbn; lia). field. apply INR_pos_neq; cbn; lia.
Qed.

Lemma spec_rdev_scale a h : @spec_rdev R ROps (map (Rmult a) h) = (a * a) * @spec_rdev R ROps h.
Proof.
  rewrite !spec_rdev_R. pose proof (spec_rmean_scale a h) as Hm. unfold spec_rmean in Hm. rewrite Hm.
  rewrite map_map. rewrite <- Rsum_map_scale. apply Rsum_map_ext. intros x. ring.
Qed.

Lemma spec_rstd_scale a h : 0 <= a -> @spec_rstd R ROps (map (Rmult a) h) = a * @spec_rstd R ROps h.
Proof.
  intros Ha. unfold spec_rstd.
  assert (Hv : @spec_rvar R ROps (map (Rmult a) h) = (a * a) * @spec_rvar R ROps h).
  { unfold spec_rvar. rewrite map_length, spec_rdev_scale. destruct h as [|x h].
    - cbn [length]. cbn [sofnat ROps INR]. rewrite !sdivd_R_0. lra.
    - cbn [sofnat ROps]. rewrite !sdivd_R by (apply INR_pos_neq; cbn; lia). field. apply INR_pos_neq; cbn; lia. }
  pose proof (spec_rvar_nonneg h) as H0. pose proof (spec_rvar_nonneg (map (Rmult a) h)) as H1.
  rewrite !ssqrtd_R by assumption. rewrite Hv. rewrite sqrt_mult by (try apply Rle_0_sqr; assumption).
  rewrite sqrt_square by exact Ha. reflexivity.
Qed.

(** C12 (WelfordRolling): [mean()] scales by a (any real a, any history). *)
Theorem wrolling_mean_scale a vs m :
  cout (@wrolling_mean_core R ROps) vs = Ok (Some m) ->
  cout (@wrolling_mean_core R ROps) (map (Rmult a) vs) = Ok (Some (a * m)).
Proof.
  destruct vs as [|x vs].
  - cbn. intros H. inversion H; subst. do 2 f_equal. lra.
  - rewrite wrolling_mean_closed_form by discriminate. intros H. inversion H; subst.
    rewrite wrolling_mean_closed_form by discriminate. rewrite spec_rmean_scale. reflexivity.
Qed.

(** C12 (WelfordRolling): [last()] (the standard deviation) scales by a, a >= 0. *)
Theorem wrolling_std_scale a vs r : 0 <= a ->
  cout (@wrolling_core R ROps) vs = Ok (Some r) ->
  cout (@wrolling_core R ROps) (map (Rmult a) vs) = Ok (Some (a * r)).
Proof.
  intros Ha. rewrite !wrolling_closed_form_total. destruct vs as [|x vs]; cbn [map]; intros H; inversion H; subst.
  change (a * x :: map (Rmult a) vs) with (map (Rmult a) (x :: vs)). rewrite spec_rstd_scale by exact Ha. reflexivity.
Qed.

(* ------------------------------------------------------------------ C08: readiness *)

(** C08 (LnReturn): no answer for histories of length <= 1, an answer from the 2nd value on (positive inputs). *)
Theorem lnret_ready vs : Forall pos vs ->
  ((length vs <= 1)%nat -> cout (@lnret_core R ROps) vs = Ok None) /\
  ((2 <= length vs)%nat -> exists r, cout (@lnret_core R ROps) vs = Ok (Some r)).
Proof.
  intros HD. rewrite lnret_closed_form by exact HD. unfold spec_lnreturn.
  rewrite <- (rev_length vs). destruct (rev vs) as [|x [|y l]]; cbn [length]; split; intros H; try reflexivity; try lia.
  eexists; reflexivity.
Qed.

(** C08 (Drawdown): answers from the start, also before any value (0); every step succeeds on positive inputs. *)
Theorem drawdown_ready vs : Forall pos vs -> exists d, cout (@drawdown_core R ROps) vs = Ok (Some d).
Proof. intros HD. eexists. apply drawdown_closed_form; exact HD. Qed.

(** C08 (WelfordRolling): no answer before the first value, an answer after every value (any reals);
    the [mean()] getter always answers (0 before any value). *)
Theorem wrolling_ready vs :
  (vs = [] -> cout (@wrolling_core R ROps) vs = Ok None) /\
  (vs <> [] -> exists r, cout (@wrolling_core R ROps) vs = Ok (Some r)).
Proof.
  rewrite wrolling_closed_form_total. split; intros H.
  - subst vs. reflexivity.
  - destruct vs; [congruence | eexists; reflexivity].
Qed.
Theorem wrolling_mean_ready vs : exists m, cout (@wrolling_mean_core R ROps) vs = Ok (Some m).
Proof.
  destruct vs as [|x vs]; [eexists; reflexivity|]. eexists. apply wrolling_mean_closed_form. discriminate.
Qed.

(* ------------------------------------------------------------------ the one-pass specification of
   Drawdown is the literal "max over j of (peak_j - x_j)/peak_j" *)

Lemma speak_snoc h v : h <> [] -> @speak R ROps (h ++ [v]) = @smax R ROps (@speak R ROps h) v.
Proof. destruct h as [|x r]; [congruence|]. intros _. cbn [app speak]. rewrite fold_left_app. reflexivity. Qed.

Lemma dd_at_prefix h v j : (j < length h)%nat -> @dd_at R ROps (h ++ [v]) j = @dd_at R ROps h j.
Proof.
  intros Hj. unfold dd_at. rewrite firstn_app. replace (S j - length h)%nat with 0%nat by lia.
  cbn [firstn]. rewrite app_nil_r. rewrite app_nth1 by exact Hj. reflexivity.
Qed.

Lemma dd_at_last h v : @dd_at R ROps (h ++ [v]) (length h) =
  @sdivd R ROps (@speak R ROps (h ++ [v]) - v) (@speak R ROps (h ++ [v])).
Proof.
  unfold dd_at. rewrite firstn_all2 by (rewrite app_length; cbn; lia).
  rewrite app_nth2 by lia. rewrite Nat.sub_diag. reflexivity.
Qed.

Lemma spec_drawdown_def_snoc h v :
  @spec_drawdown_def R ROps (h ++ [v]) = @smax R ROps (@spec_drawdown_def R ROps h) (@dd_at R ROps (h ++ [v]) (length h)).
Proof.
  unfold spec_drawdown_def. rewrite app_length. cbn [length]. rewrite seq_app, map_app, fold_left_app.
  cbn [seq map fold_left plus]. f_equal. f_equal. apply map_ext_in. intros j Hj. apply in_seq in Hj.
  apply dd_at_prefix. lia.
Qed.

Lemma dd_spec_st_def h : h <> [] -> dd_spec_st h = (@speak R ROps h, @spec_drawdown_def R ROps h).
Proof.
  induction h as [|v h IH] using rev_ind; [congruence|]. intros _.
  destruct h as [|x r].
  - cbn [app dd_spec_st fold_left speak]. f_equal. unfold spec_drawdown_def, dd_at. cbn. rewrite smax_R.
    destruct (Req_EM_T v 0) as [H0|Hn].
    + subst v. rewrite sdivd_R_0. rewrite Rmax_left; lra.
    + rewrite sdivd_R, ratio_self by exact Hn. rewrite Rmax_left; lra.
  - set (h := x :: r) in *. assert (Hh : h <> []) by discriminate.
    rewrite dd_spec_st_snoc by exact Hh. rewrite (IH Hh). unfold dd_acc. cbn [fst snd].
    rewrite spec_drawdown_def_snoc, dd_at_last, speak_snoc by exact Hh. reflexivity.
Qed.

(** the fold used as specification computes exactly the maximum over all positions of the relative
    decline from the running peak (all real histories) *)
Theorem spec_drawdown_is_def h : @spec_drawdown R ROps h = @spec_drawdown_def R ROps h.
Proof.
  destruct h as [|x r]; [reflexivity|]. rewrite spec_drawdown_st, dd_spec_st_def by discriminate. reflexivity.
Qed.

(** C13 (Drawdown), against the literal definition *)
Corollary drawdown_closed_form_def vs : Forall pos vs ->
  cout (@drawdown_core R ROps) vs = Ok (Some (@spec_drawdown_def R ROps vs)).
Proof. intros HD. rewrite <- spec_drawdown_is_def. apply drawdown_closed_form; exact HD. Qed.

(* ------------------------------------------------------------------ the same for zero-free histories *)

Lemma Forall_nz_scale a vs : a <> 0 -> Forall nz vs -> Forall nz (map (Rmult a) vs).
Proof.
  intros Ha H. apply Forall_forall. intros y Hy. apply in_map_iff in Hy. destruct Hy as [x [Hx Hin]]. subst y.
  rewrite Forall_forall in H. apply Rmult_integral_contrapositive_currified; [exact Ha | apply H; exact Hin].
Qed.

(** Drawdown is non-decreasing along every zero-free stream. *)
Theorem drawdown_monotone_nz vs v : Forall nz (vs ++ [v]) ->
  exists a b, cout (@drawdown_core R ROps) vs = Ok (Some a) /\
              cout (@drawdown_core R ROps) (vs ++ [v]) = Ok (Some b) /\ a <= b.
Proof.
  intros HD. pose proof HD as HD'. apply Forall_app in HD'. destruct HD' as [HD' _].
  exists (@spec_drawdown R ROps vs), (@spec_drawdown R ROps (vs ++ [v])).
  split; [apply drawdown_closed_form_nz; exact HD' | split; [apply drawdown_closed_form_nz; exact HD | apply spec_drawdown_mono]].
Qed.

(** Drawdown is unchanged under x -> a*x, a > 0, on every zero-free stream. *)
Theorem drawdown_scale_invariant_nz a vs : 0 < a -> Forall nz vs ->
  cout (@drawdown_core R ROps) (map (Rmult a) vs) = cout (@drawdown_core R ROps) vs.
Proof.
  intros Ha HD. rewrite !drawdown_closed_form_nz by (try apply Forall_nz_scale; try assumption; lra).
  rewrite spec_drawdown_scale by exact Ha. reflexivity.
Qed.

(* ------------------------------------------------------------------ why the domain guards are there *)

(** a zero first value (zero peak) makes Drawdown's division fail: 0/0 *)
Example drawdown_zero_peak_fails : cout (@drawdown_core R ROps) [0] = Err NonFinite.
Proof.
  unfold cout, crun. cbn [cnew cstep clast drawdown_core bind cfold dd_step dd_peak dd_max dd_min].
  rewrite sltb_sel. cbn [ssub sdiv ROps]. unfold Rdiv_res. destruct (Req_EM_T 0 0); [reflexivity | congruence].
Qed.

(** with mixed signs Drawdown leaves [0,1): peak 1, value -1 gives 2 *)
Example drawdown_mixed_sign_range : cout (@drawdown_core R ROps) [1; -1] = Ok (Some 2).
Proof.
  rewrite drawdown_closed_form_nz by (repeat constructor; unfold nz; lra).
  cbn [spec_drawdown fold_left]. rewrite dd_acc_R by (rewrite Rmax_left by lra; lra).
  rewrite (Rmax_left 1 (-1)) by lra. cbn [snd s0 ROps]. rewrite Rmax_right by lra. do 2 f_equal. field.
Qed.

(** LnReturn reads a zero previous value as "no previous value": two values delivered, still no answer *)
Example lnret_zero_prev_none : cout (@lnret_core R ROps) [0; 5] = Ok None.
Proof.
  unfold cout. rewrite lr_run. cbn [bind clast lnret_core lr_st fold_left fst snd seqb ROps s0].
  unfold Reqb. destruct (Req_EM_T 0 0); [reflexivity | congruence].
Qed.

(** and a zero current value makes the logarithm fail *)
Example lnret_zero_cur_fails : cout (@lnret_core R ROps) [5; 0] = Err Domain.
Proof.
  unfold cout. rewrite lr_run. cbn [bind clast lnret_core lr_st fold_left fst snd seqb ROps s0].
  unfold Reqb. destruct (Req_EM_T 5 0); [lra|]. rewrite sdiv_R_ok by lra. cbn [bind sln ROps].
  destruct (Rle_dec (0 / 5) 0); [reflexivity | lra].
Qed.

(* ------------------------------------------------------------------ the hypotheses are satisfiable *)

Definition ex_h : list R := [100; 80; 110; 95; 87].
Example ex_h_pos : Forall pos ex_h. Proof. repeat constructor; unfold pos; lra. Qed.
Example ex_h_pos_snoc : Forall pos ([100; 80; 110; 95] ++ [87]). Proof. exact ex_h_pos. Qed.
Example ex_h_nz : Forall nz ex_h. Proof. exact (Forall_pos_nz _ ex_h_pos). Qed.
Example ex_h_ne : ex_h <> []. Proof. discriminate. Qed.

Example wrolling_mean_closed_form_ex : cout (@wrolling_mean_core R ROps) ex_h = Ok (Some (@spec_rmean R ROps ex_h)).
Proof. exact (wrolling_mean_closed_form ex_h ex_h_ne). Qed.
Example wrolling_closed_form_ex : cout (@wrolling_core R ROps) ex_h = Ok (Some (@spec_rstd R ROps ex_h)).
Proof. exact (wrolling_closed_form ex_h ex_h_ne). Qed.
Example drawdown_closed_form_ex : cout (@drawdown_core R ROps) ex_h = Ok (Some (@spec_drawdown R ROps ex_h)).
Proof. exact (drawdown_closed_form ex_h ex_h_pos). Qed.
Example lnret_closed_form_ex : cout (@lnret_core R ROps) ex_h = Ok (Some (ln (87 / 95))).
Proof.
  rewrite (lnret_closed_form ex_h ex_h_pos). unfold spec_lnreturn. cbn [ex_h rev app].
  rewrite sdivd_R by lra. rewrite slnd_R by (apply Rdiv_lt_0_compat; lra). reflexivity.
Qed.
Example drawdown_monotone_ex : exists a b, cout (@drawdown_core R ROps) [100; 80; 110; 95] = Ok (Some a) /\
  cout (@drawdown_core R ROps) ([100; 80; 110; 95] ++ [87]) = Ok (Some b) /\ a <= b.
Proof. exact (drawdown_monotone _ _ ex_h_pos_snoc). Qed.
Example drawdown_scale_ex : cout (@drawdown_core R ROps) (map (Rmult 3) ex_h) = cout (@drawdown_core R ROps) ex_h.
Proof. apply drawdown_scale_invariant; [lra | exact ex_h_pos]. Qed.
Example lnret_scale_ex : cout (@lnret_core R ROps) (map (Rmult 3) ex_h) = cout (@lnret_core R ROps) ex_h.
Proof. apply lnret_scale_invariant; [lra | exact ex_h_pos]. Qed.
Example wrolling_std_scale_ex : cout (@wrolling_core R ROps) (map (Rmult 3) ex_h) = Ok (Some (3 * @spec_rstd R ROps ex_h)).
Proof. apply wrolling_std_scale; [lra | exact wrolling_closed_form_ex]. Qed.
Example wrolling_mean_scale_ex : cout (@wrolling_mean_core R ROps) (map (Rmult 3) ex_h) = Ok (Some (3 * @spec_rmean R ROps ex_h)).
Proof. apply wrolling_mean_scale. exact wrolling_mean_closed_form_ex. Qed.

(** the specifications executed at [Q] on the history of drawdown.rs's unit test, next to the model *)
Definition ex_hQ : list Q := map inject_Z [100; 80; 110; 95; 87]%Z.
Example spec_drawdown_Q : @spec_drawdown Q QOps ex_hQ = (23 # 110)%Q. Proof. vm_compute. reflexivity. Qed.
Example spec_drawdown_def_Q : @spec_drawdown_def Q QOps ex_hQ = (23 # 110)%Q. Proof. vm_compute. reflexivity. Qed.
Example drawdown_model_Q : cout (@drawdown_core Q QOps) ex_hQ = Ok (Some (@spec_drawdown Q QOps ex_hQ)).
Proof. vm_compute. reflexivity. Qed.
Example spec_rmean_Q : @spec_rmean Q QOps ex_hQ = (472 # 5)%Q. Proof. vm_compute. reflexivity. Qed.
Example wrolling_mean_model_Q : cout (@wrolling_mean_core Q QOps) ex_hQ = Ok (Some (@spec_rmean Q QOps ex_hQ)).
Proof. vm_compute. reflexivity. Qed.
Example spec_rvar_Q : @spec_rvar Q QOps ex_hQ = (2686 # 25)%Q. Proof. vm_compute. reflexivity. Qed.
Example wrolling_model_Q : cout (@wrolling_core Q QOps) ex_hQ = Ok (Some (@spec_rstd Q QOps ex_hQ)).
Proof. vm_compute. reflexivity. Qed.
Example lnret_model_Q : cout (@lnret_core Q QOps) ex_hQ = Ok (@spec_lnreturn Q QOps ex_hQ).
Proof. vm_compute. reflexivity. Qed.

Print Assumptions wrolling_mean_closed_form.
Print Assumptions wrolling_closed_form_total.
Print Assumptions wrolling_closed_form.
Print Assumptions drawdown_closed_form_nz.
Print Assumptions drawdown_closed_form.
Print Assumptions drawdown_closed_form_def.
Print Assumptions spec_drawdown_is_def.
Print Assumptions lnret_closed_form.
Print Assumptions wrolling_nonneg.
Print Assumptions drawdown_range.
Print Assumptions drawdown_monotone.
Print Assumptions drawdown_monotone_nz.
Print Assumptions drawdown_scale_invariant.
Print Assumptions drawdown_scale_invariant_nz.
Print Assumptions lnret_scale_invariant.
Print Assumptions wrolling_mean_scale.
Print Assumptions wrolling_std_scale.
Print Assumptions lnret_ready.
Print Assumptions drawdown_ready.
Print Assumptions wrolling_ready.
Print Assumptions wrolling_mean_ready.
