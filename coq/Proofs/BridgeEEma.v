(** BridgeE, part 1: Ema at f64 with NO executable hypothesis.
    [ema_all_finite_of_bound]: finite inputs of magnitude at most M with 4 M <= 2^1023 never overflow the f64 run of
    Ema(n), 1 <= n < 2^48, whatever the length of the stream; [ema_prim_drift_bounded]; the stability statement
    [ema_f64_bibo] (C09 at f64): every answer is finite and of magnitude at most M (1 + 1e-6). *)
From Coq Require Import List Arith Lia Reals Lra ZArith Floats Bool.
From SF Require Import Res Scalar View Models Spec Core FloatOps SpecBridge.
From SF.Proofs Require Import Window RBase SmaP WinAP AvgP FltErr FltBridge Flt2P Flt2B64 Flt2Prim BridgeOps BridgeSim BridgeP
  BridgeWOps BridgeWBound.
From Flocq Require Import Core BinarySingleNaN.
Import ListNotations.
Open Scope R_scope.
Local Notation float := PrimFloat.float.

(** the a-priori error budget of Ema at binary64 (the bound of [ema_drift_b64]) *)
Definition ema_E (n : nat) (M : R) : R := (12 * b64_u * M + 3 * b64_eta) * ((1 + INR n) / 2).

(** * 1. The rounded weight of Ema at binary64 *)
Lemma ema_weight_b64 n : (1 <= n)%nat -> (Z.of_nat n < 2 ^ 48)%Z ->
  / 140737488355328 <= ema_wex n <= 1 /\ b64_eta <= b64_u * ema_wex n /\
  ema_wsum b64_add n <> 0 /\ b64_format (ema_wfl b64_add b64_div n) /\
  Rabs (ema_wfl b64_add b64_div n - ema_wex n) <= 4 * b64_u * ema_wex n.
Proof.
  intros Hn Hn48.
  assert (Hb : 1 + INR n <= 281474976710656).
  { rewrite INR_IZR_INZ. replace 1 with (IZR 1) by reflexivity. rewrite <- plus_IZR.
    change 281474976710656 with (IZR 281474976710656). apply IZR_le.
    change (2 ^ 48)%Z with 281474976710656%Z in Hn48. lia. }
  assert (Hp : 0 < 1 + INR n) by (pose proof (pos_INR n); lra).
  assert (Hw : / 140737488355328 <= ema_wex n).
  { unfold ema_wex. assert (H : / 281474976710656 <= / (1 + INR n)) by (apply Rinv_le_contravar; lra).
    unfold Rdiv. lra. }
  pose proof (ema_wex_range n Hn) as Hw01.
  assert (Heta : b64_eta <= b64_u * ema_wex n).
  { unfold b64_eta, b64_u.
    assert (Hw2 : bpow radix2 (-47) <= ema_wex n).
    { eapply Rle_trans; [|exact Hw]. apply Req_le. cbn. lra. }
    assert (H1 : bpow radix2 (-1074) <= bpow radix2 (1 - 53) * bpow radix2 (-47)).
    { rewrite <- bpow_plus. apply bpow_le. lia. }
    pose proof (bpow_ge_0 radix2 (1 - 53)) as H2. nra. }
  assert (Fn : b64_format (INR n)).
  { apply b64_format_INR. change (2 ^ 48)%Z with 281474976710656%Z in Hn48.
    change (2 ^ 53)%Z with 9007199254740992%Z. lia. }
  destruct (ema_wfl_err b64_u b64_eta b64_add b64_div b64_format b64_format_1 b64_format_2 b64_add_ok b64_div_ok
              n Hn Fn ltac:(rewrite b64_u_val; lra)) as [Hne [Fw Herr]].
  split; [lra|]. split; [exact Heta|]. split; [exact Hne|]. split; [exact Fw|]. lra.
Qed.

Lemma ema_wfl_abs n : (1 <= n)%nat -> (Z.of_nat n < 2 ^ 48)%Z -> 0 <= ema_wfl b64_add b64_div n <= 17 / 16.
Proof.
  intros Hn Hn48. destruct (ema_weight_b64 n Hn Hn48) as [Hw [_ [_ [_ He]]]].
  set (wt := ema_wfl b64_add b64_div n) in *. set (w := ema_wex n) in *.
  apply Rabs_le_inv' in He. rewrite b64_u_val in He.
  assert (0 < w) by (pose proof (Rinv_0_lt_compat 140737488355328 ltac:(lra)); lra). nra.
Qed.

(** the error budget is small: at most 3/16 M + 1 *)
Lemma ema_E_le n M : (1 <= n)%nat -> (Z.of_nat n < 2 ^ 48)%Z -> 0 <= M -> 0 <= ema_E n M <= 3 / 16 * M + 1.
Proof.
  intros Hn Hn48 HM. unfold ema_E.
  assert (Hb : 1 + INR n <= 281474976710656).
  { rewrite INR_IZR_INZ. replace 1 with (IZR 1) by reflexivity. rewrite <- plus_IZR.
    change 281474976710656 with (IZR 281474976710656). apply IZR_le.
    change (2 ^ 48)%Z with 281474976710656%Z in Hn48. lia. }
  assert (Hp : 0 < 1 + INR n) by (pose proof (pos_INR n); lra).
  pose proof b64_eta_nonneg as He0.
  assert (He : b64_eta <= / 1000000000000000).
  { unfold b64_eta. assert (H : bpow radix2 (-1074) <= bpow radix2 (-50)) by (apply bpow_le; lia).
    assert (H2 : bpow radix2 (-50) = / 1125899906842624) by (cbn; lra). lra. }
  rewrite b64_u_val.
  set (N := (1 + INR n) / 2). assert (HN : 0 < N <= 140737488355328) by (unfold N; lra). clearbody N.
  split.
  - apply Rmult_le_pos; [|lra]. assert (0 <= 12 * / 9007199254740992 * M) by nra. lra.
  - assert (H1 : M * N <= M * 140737488355328) by (apply Rmult_le_compat_l; lra).
    assert (H2 : b64_eta * N <= / 1000000000000000 * 140737488355328) by (apply Rmult_le_compat; lra).
    nra.
Qed.

(** * 2. The binary64-rounded run of Ema on ANY bounded stream (any length): state within M + E *)
Lemma ema_run_b64 n M vs : (1 <= n)%nat -> (Z.of_nat n < 2 ^ 48)%Z -> 0 <= M ->
  Forall (fun x => b64_format x /\ Rabs x <= M) vs ->
  exists t, crun (@ema_core R B64Ops n) vs = Ok t /\ ema_n t = length vs /\ ema_out t = ema_last t /\
            (vs <> [] -> Rabs (ema_last t) <= M + ema_E n M).
Proof.
  intros Hn Hn48 HM Hvs.
  destruct (ema_weight_b64 n Hn Hn48) as [Hw [Heta [Hne [Fw Herr]]]].
  destruct (ema_E_le n M Hn Hn48 HM) as [HE0 _].
  assert (Hp : 0 < 1 + INR n) by (pose proof (pos_INR n); lra).
  destruct (ema_fl_run b64_u b64_eta b64_add b64_sub b64_mul b64_div b64_format b64_u_nonneg b64_eta_nonneg
              b64_format_1 b64_add_ok b64_sub_ok b64_mul_ok M HM n Hn (ema_E n M)) with (vs := vs)
    as [t [Er [Hk [Ho Hi]]]]; try assumption.
  - rewrite b64_u_val. lra.
  - apply Req_le. unfold ema_E, ema_wex. field. lra.
  - exists t. split.
    + unfold ema_core. change (@sofdec R B64Ops 2 0) with (@sofdec R (FlOps2 b64_add b64_sub b64_mul b64_div) 2 0).
      rewrite (two_fl b64_add b64_sub b64_mul b64_div). exact Er.
    + split; [exact Hk|]. split; [exact Ho|]. intros Hnil. destruct (Hi Hnil) as [_ He].
      pose proof (ema_valT_bound b64_format M n Hn vs Hnil Hvs) as Hv.
      replace (ema_last t) with (ema_valT (ema_wex n) vs + (ema_last t - ema_valT (ema_wex n) vs)) by ring.
      eapply Rle_trans; [apply Rabs_triang|]. lra.
Qed.

(** * 3. The weight at f64 *)
Lemma ema_prim_weight n : (1 <= n)%nat -> (Z.of_nat n < 2 ^ 48)%Z ->
  ffinite (PrimFloat.add PrimFloat.one (f_ofnat n)) = true /\
  ffinite (PrimFloat.div (f_ofdec 2 0) (PrimFloat.add PrimFloat.one (f_ofnat n))) = true /\
  f2r (PrimFloat.div (f_ofdec 2 0) (PrimFloat.add PrimFloat.one (f_ofnat n))) = ema_wfl b64_add b64_div n.
Proof.
  intros Hn Hn48.
  assert (Hn53 : (Z.of_nat n < 2 ^ 53)%Z) by (eapply Z.lt_trans; [exact Hn48 | reflexivity]).
  destruct (f_ofnat_exact n Hn53) as [Fn En]. destruct prim_one_fin as [F1 E1]. destruct prim_two_fin as [F2 E2].
  destruct (ema_weight_b64 n Hn Hn48) as [_ [_ [Hne _]]].
  pose proof (ema_wfl_abs n Hn Hn48) as Hwt.
  assert (Hsum : Rabs (b64_add 1 (INR n)) <= bpow radix2 53).
  { unfold b64_add. apply b64_round_abs_le.
    - apply generic_format_bpow. unfold b64_exp, FLT_exp. cbn. lia.
    - pose proof (pos_INR n). rewrite Rabs_right by lra.
      rewrite INR_IZR_INZ. replace 1 with (IZR 1) by reflexivity. rewrite <- plus_IZR.
      replace (bpow radix2 53) with (IZR (2 ^ 53)) by (cbn; lra). apply IZR_le. lia. }
  destruct (prim_add_b64 PrimFloat.one (f_ofnat n) F1 Fn) as [Ea Fa].
  { rewrite E1, En. eapply Rle_lt_trans; [exact Hsum|]. apply bpow_lt. lia. }
  rewrite E1, En in Ea. fold (ema_wsum b64_add n) in Ea.
  destruct (prim_div_b64 (f_ofdec 2 0) (PrimFloat.add PrimFloat.one (f_ofnat n)) F2 Fa) as [Ed Fd].
  { rewrite Ea. exact Hne. }
  { rewrite Ea, E2. fold (ema_wfl b64_add b64_div n). rewrite Rabs_right by lra. eapply Rle_lt_trans; [exact (proj2 Hwt)|].
    apply Rlt_le_trans with (bpow radix2 1); [cbn; lra | apply bpow_le; lia]. }
  split; [exact Fa|]. split; [exact Fd|]. rewrite Ed, Ea, E2. reflexivity.
Qed.

(** one update  v * w + last * (1 - w)  at f64 does not overflow *)
Lemma ema_prim_update w l v M B : ffinite w = true -> ffinite l = true -> ffinite v = true ->
  0 <= f2r w <= 17 / 16 -> Rabs (f2r v) <= M -> Rabs (f2r l) <= B ->
  17 / 16 * M <= BIG1023 -> B <= BIG1023 ->
  Rabs (b64_add (b64_mul (f2r v) (f2r w)) (b64_mul (f2r l) (b64_sub 1 (f2r w)))) <= BIG1023 ->
  ffinite (PrimFloat.add (PrimFloat.mul v w) (PrimFloat.mul l (PrimFloat.sub PrimFloat.one w))) = true /\
  f2r (PrimFloat.add (PrimFloat.mul v w) (PrimFloat.mul l (PrimFloat.sub PrimFloat.one w)))
  = b64_add (b64_mul (f2r v) (f2r w)) (b64_mul (f2r l) (b64_sub 1 (f2r w))).
Proof.
  intros Fw Fl Fv Hw Hv Hl HM HB Hout.
  pose proof BIG1023_lt as HBIG. destruct prim_one_fin as [F1 E1].
  pose proof (Rabs_pos (f2r v)) as Pv. pose proof (Rabs_pos (f2r w)) as Pw. pose proof (Rabs_pos (f2r l)) as Pl.
  assert (Hw' : Rabs (f2r w) <= 17 / 16) by (rewrite Rabs_right; lra).
  destruct (prim_mul_b64 v w Fv Fw) as [Em1 Fm1].
  { eapply Rle_lt_trans; [|exact HBIG]. unfold b64_mul. apply b64_round_abs_le; [exact BIG1023_format|].
    rewrite Rabs_mult. eapply Rle_trans; [|exact HM]. replace (17 / 16 * M) with (M * (17 / 16)) by ring.
    apply Rmult_le_compat; assumption. }
  assert (Hc : Rabs (b64_sub 1 (f2r w)) <= 1).
  { unfold b64_sub. apply b64_round_abs_le; [exact b64_format_1|]. apply Rabs_le'. lra. }
  destruct (prim_sub_b64 PrimFloat.one w F1 Fw) as [Es Fs].
  { rewrite E1. eapply Rle_lt_trans; [exact Hc|]. apply Rlt_le_trans with (bpow radix2 2); [cbn; lra | apply bpow_le; lia]. }
  rewrite E1 in Es.
  destruct (prim_mul_b64 l (PrimFloat.sub PrimFloat.one w) Fl Fs) as [Em2 Fm2].
  { rewrite Es. eapply Rle_lt_trans; [|exact HBIG]. unfold b64_mul. apply b64_round_abs_le; [exact BIG1023_format|].
    rewrite Rabs_mult. pose proof (Rabs_pos (b64_sub 1 (f2r w))). eapply Rle_trans; [|exact HB].
    rewrite <- (Rmult_1_r B). apply Rmult_le_compat; assumption. }
  rewrite Es in Em2.
  destruct (prim_add_b64 _ _ Fm1 Fm2) as [Ea Fa].
  { rewrite Em1, Em2. lra. }
  split; [exact Fa|]. rewrite Ea, Em1, Em2. reflexivity.
Qed.

(** * 4. The state of Ema across the bridge *)
Theorem ema_bridge_run n fs : (Z.of_nat n < 2 ^ 53)%Z -> all_finite_ema ffinite n fs = true ->
  exists s, crun (@ema_core float FOps n) fs = Ok s /\
            crun (@ema_core R B64Ops n) (map f2r fs) = Ok (ema_map float f2r s) /\
            ema_sfin ffinite n s2 s = true.
Proof.
  intros Hn Hc.
  assert (E2 : @sofdec R B64Ops 2 0 = f2r (@sofdec float FOps 2 0)).
  { cbn [sofdec FOps]. rewrite (proj2 prim_two_fin). cbn [sofdec B64Ops FlOps2]. cbn. lra. }
  unfold ema_core. rewrite E2.
  destruct (@core_bridge_run float f2r ffinite (@ema_core_alpha float FOps n s2)
              (@ema_core_alpha R B64Ops n (f2r (@s2 float FOps))) (ema_sfin ffinite n s2) (ema_rel float f2r) (length fs))
    with (fs := fs) as [s [t [Er [Et [Hr Hs]]]]].
  - intros s E. cbn [cnew ema_core_alpha] in *. inversion E; subst s. eexists; split; [reflexivity|].
    unfold ema_rel, ema_map. cbn [ema_last ema_out ema_n]. cbn [s0 FOps]. rewrite (proj2 prim_zero_fin). reflexivity.
  - intros k s t v s' _ Hr _ E Hs'.
    exact (ema_step_sim float FOps B64Ops f2r ffinite nat53 prim_arith_sim n s2 k s t v s' Hn Hr E Hs').
  - lia.
  - exact Hc.
  - exists s. unfold ema_rel in Hr. subst t. split; [exact Er|]. split; [exact Et | exact Hs].
Qed.

(** * 5. The checker is implied by a magnitude bound *)

(** Ema: window 1 <= n < 2^48, finite inputs of magnitude at most M with 4 M <= 2^1023: the f64 run never overflows,
    whatever the length of the stream -- the checker of [ema_bridge] succeeds *)
Theorem ema_all_finite_of_bound n M fs : (1 <= n)%nat -> (Z.of_nat n < 2 ^ 48)%Z -> 0 <= M ->
  Forall (fun x => ffinite x = true /\ Rabs (f2r x) <= M) fs ->
  4 * M <= bpow radix2 1023 ->
  all_finite_ema ffinite n fs = true.
Proof.
  intros Hn Hn48 HM HD HB.
  assert (Hn53 : (Z.of_nat n < 2 ^ 53)%Z) by (eapply Z.lt_trans; [exact Hn48 | reflexivity]).
  destruct (ema_prim_weight n Hn Hn48) as [Fd [Fw Ew]].
  pose proof (ema_wfl_abs n Hn Hn48) as Hwt.
  destruct (ema_E_le n M Hn Hn48 HM) as [HE0 HE1].
  assert (Hbig : 8 <= BIG1023).
  { unfold BIG1023. apply Rle_trans with (bpow radix2 3); [cbn; lra | apply bpow_le; lia]. }
  fold BIG1023 in HB.
  assert (Hwchk : forall l o k, ffinite l = true -> ffinite o = true ->
            ema_sfin ffinite n s2 {| ema_last := l; ema_out := o; ema_n := k |} = true).
  { intros l o k Fl Fo. unfold ema_sfin. cbn [ema_last ema_out s1 sadd sofnat sdiv s2 sofdec FOps].
    rewrite Fl, Fo, Fd, Fw. reflexivity. }
  induction fs as [|v vs IH] using rev_ind.
  - unfold all_finite_ema, all_finite_run. cbn [cnew ema_core ema_core_alpha cfold_chk]. unfold st_ok.
    rewrite Hwchk by exact (proj1 prim_zero_fin). unfold ema_core. cbn [clast ema_core_alpha ema_n andb].
    destruct (Nat.ltb_spec 0 n) as [_|H]; [reflexivity | lia].
  - apply Forall_app in HD. destruct HD as [HD Hv]. apply Forall_inv in Hv. destruct Hv as [Fv Mv].
    specialize (IH HD).
    assert (Hb : Forall (fun x => Rabs (f2r x) <= M) vs).
    { revert HD. apply Forall_impl. intros x [_ H]; exact H. }
    assert (Hb' : Forall (fun x => Rabs (f2r x) <= M) (vs ++ [v])).
    { apply Forall_app. split; [exact Hb | constructor; [exact Mv | constructor]]. }
    destruct (ema_bridge_run n vs Hn53 IH) as [s [Er [Eb Hs]]].
    destruct (ema_run_b64 n M (map f2r vs) Hn Hn48 HM (f2r_Din M vs Hb)) as [t [Et [Hk [_ Hl]]]].
    rewrite Eb in Et. inversion Et; subst t; clear Et. cbn [ema_map ema_n ema_last] in Hk, Hl. rewrite map_length in Hk.
    destruct (ema_run_b64 n M (map f2r (vs ++ [v])) Hn Hn48 HM (f2r_Din M _ Hb')) as [t' [Et' [_ [_ Hl']]]].
    rewrite map_app in Et', Hl'. cbn [map] in Et', Hl'. rewrite crun_snoc, Eb in Et'. cbn [bind cstep ema_core ema_core_alpha] in Et'.
    specialize (Hl' ltac:(destruct (map f2r vs); discriminate)).
    unfold ema_sfin in Hs. apply andb_true_iff in Hs. destruct Hs as [Hs _]. apply andb_true_iff in Hs. destruct Hs as [Hs _].
    apply andb_true_iff in Hs. destruct Hs as [Flast _].
    (* the f64 step *)
    assert (Hstep : exists s', @ema_step float FOps n s2 s v = Ok s' /\ ffinite (ema_last s') = true /\ ema_out s' = ema_last s' /\
                               ema_n s' = S (length vs)).
    { unfold ema_step in *. cbn [s1 sadd sofnat sdiv s2 sofdec FOps bind].
      cbn [s1 sadd sofnat sdiv B64Ops FlOps2 ema_map ema_n ema_last] in Et'.
      destruct (Req_EM_T (b64_add 1 (INR n)) 0) as [Hz|_]; [discriminate|]. cbn [bind] in Et'.
      rewrite Hk in *. destruct (Nat.eqb (S (length vs)) 1) eqn:Ek.
      - eexists; split; [reflexivity|]. cbn [ema_last ema_out ema_n]. auto.
      - eexists; split; [reflexivity|]. cbn [ema_last ema_out ema_n]. split; [|auto].
        inversion Et'; subst t'; clear Et'. cbn [ema_last smul ssub sadd s1 B64Ops FlOps2 sofdec] in Hl'.
        replace (2 / 1) with 2 in Hl' by lra.
        change (b64_div 2 (b64_add 1 (INR n))) with (ema_wfl b64_add b64_div n) in Hl'. rewrite <- Ew in Hl'.
        assert (Hne : vs <> []) by (intros ->; cbn in Ek; discriminate).
        specialize (Hl ltac:(destruct vs; [congruence | discriminate])).
        apply (ema_prim_update _ (ema_last s) v M (M + ema_E n M)); try assumption.
        + rewrite Ew. exact Hwt.
        + lra.
        + lra.
        + cbn [smul ssub sadd s1 FOps]. lra. }
    destruct Hstep as [s' [Es' [Fl' [Eo' Ek']]]].
    apply (all_finite_run_snoc float ffinite (@ema_core float FOps n) (ema_sfin ffinite n s2) vs v s s' IH Er Es').
    unfold st_ok. destruct s' as [l' o' k']. cbn [ema_last ema_out ema_n] in *. subst o'.
    rewrite Hwchk by assumption. cbn [andb clast ema_core ema_core_alpha ema_n ema_out].
    destruct (Nat.ltb k' n); [reflexivity | exact Fl'].
Qed.

(** Ema at f64 with NO executable hypothesis: window 1 <= n < 2^48, at least n finite inputs of magnitude at most M,
    4 M <= 2^1023:  |f64 answer - exact Ema| <= (12 u M + 3 eta)(n+1)/2  for every stream length *)
Theorem ema_prim_drift_bounded n M fs : (1 <= n)%nat -> (Z.of_nat n < 2 ^ 48)%Z -> (n <= length fs)%nat -> 0 <= M ->
  Forall (fun x => ffinite x = true /\ Rabs (f2r x) <= M) fs -> 4 * M <= bpow radix2 1023 ->
  exists o_f o_ex,
    cout (@ema_core float FOps n) fs = Ok (Some o_f) /\ ffinite o_f = true /\
    cout (@ema_core R ROps n) (map f2r fs) = Ok (Some o_ex) /\
    Rabs (f2r o_f - o_ex) <= (12 * b64_u * M + 3 * b64_eta) * ((1 + INR n) / 2).
Proof.
  intros Hn Hn48 Hl HM HD HB. apply (ema_prim_drift n M fs Hn Hn48 Hl HM).
  - revert HD. apply Forall_impl. intros x [_ H]; exact H.
  - exact (ema_all_finite_of_bound n M fs Hn Hn48 HM HD HB).
Qed.

(** and the bridge itself, for every bounded stream *)
Theorem ema_bridge_bounded n M fs : (1 <= n)%nat -> (Z.of_nat n < 2 ^ 48)%Z -> 0 <= M ->
  Forall (fun x => ffinite x = true /\ Rabs (f2r x) <= M) fs -> 4 * M <= bpow radix2 1023 ->
  res_map (option_map f2r) (cout (@ema_core float FOps n) fs) = cout (@ema_core R B64Ops n) (map f2r fs).
Proof.
  intros Hn Hn48 HM HD HB. apply (ema_bridge n fs); [eapply Z.lt_trans; [exact Hn48 | reflexivity]|].
  exact (ema_all_finite_of_bound n M fs Hn Hn48 HM HD HB).
Qed.

(** * 6. Stability (C09 at f64): bounded input, bounded finite output, for EVERY length of the stream *)

(** the length of the stream is at least n as soon as Ema answers *)
Lemma ema_some_length n M fs v : (1 <= n)%nat -> (Z.of_nat n < 2 ^ 48)%Z -> 0 <= M ->
  Forall (fun x => ffinite x = true /\ Rabs (f2r x) <= M) fs -> 4 * M <= bpow radix2 1023 ->
  cout (@ema_core float FOps n) fs = Ok (Some v) -> (n <= length fs)%nat.
Proof.
  intros Hn Hn48 HM HD HB Ev.
  assert (Hn53 : (Z.of_nat n < 2 ^ 53)%Z) by (eapply Z.lt_trans; [exact Hn48 | reflexivity]).
  pose proof (ema_all_finite_of_bound n M fs Hn Hn48 HM HD HB) as Hc.
  assert (Hb : Forall (fun x => Rabs (f2r x) <= M) fs).
  { revert HD. apply Forall_impl. intros x [_ H]; exact H. }
  destruct (ema_bridge_run n fs Hn53 Hc) as [s [Er [Eb _]]].
  destruct (ema_run_b64 n M (map f2r fs) Hn Hn48 HM (f2r_Din M fs Hb)) as [t [Et [Hk _]]].
  rewrite Eb in Et. inversion Et; subst t; clear Et. cbn [ema_map ema_n] in Hk. rewrite map_length in Hk.
  unfold cout in Ev. rewrite Er in Ev. cbn [bind clast ema_core ema_core_alpha] in Ev. rewrite Hk in Ev.
  destruct (Nat.ltb_spec (length fs) n) as [H|H]; [discriminate | exact H].
Qed.

(** general form: every answer of Ema at f64 on finite inputs of magnitude at most M (4 M <= 2^1023) is finite and of
    magnitude at most M + (12 u M + 3 eta)(n+1)/2, whatever the length of the stream *)
Theorem ema_f64_bibo_gen n M fs v : (1 <= n)%nat -> (Z.of_nat n < 2 ^ 48)%Z -> 0 <= M ->
  Forall (fun x => ffinite x = true /\ Rabs (f2r x) <= M) fs -> 4 * M <= bpow radix2 1023 ->
  cout (@ema_core float FOps n) fs = Ok (Some v) ->
  ffinite v = true /\ Rabs (f2r v) <= M + (12 * b64_u * M + 3 * b64_eta) * ((1 + INR n) / 2).
Proof.
  intros Hn Hn48 HM HD HB Ev.
  pose proof (ema_some_length n M fs v Hn Hn48 HM HD HB Ev) as Hl.
  destruct (ema_prim_drift_bounded n M fs Hn Hn48 Hl HM HD HB) as [o_f [o_ex [Eo [Fo [Ex HE]]]]].
  rewrite Ev in Eo. inversion Eo; subst o_f. split; [exact Fo|].
  assert (Hx : between (- M) M o_ex).
  { apply (ema_hull n 2 (- M) M (map f2r fs) o_ex Hn).
    - apply le_INR in Hn. cbn in Hn. lra.
    - apply Forall_forall. intros y Hy. apply in_map_iff in Hy. destruct Hy as [x [<- Hx]].
      rewrite Forall_forall in HD. destruct (HD x Hx) as [_ H]. unfold between. apply Rabs_le_inv'. exact H.
    - unfold ema_core in Ex. replace (@sofdec R ROps 2 0) with 2 in Ex by (cbn; lra). exact Ex. }
  unfold between in Hx. assert (Hx' : Rabs o_ex <= M) by (apply Rabs_le'; lra).
  replace (f2r v) with (o_ex + (f2r v - o_ex)) by ring. eapply Rle_trans; [apply Rabs_triang|]. lra.
Qed.

(** the stability statement: windows below 10^9, 2^-1000 <= M <= 2^1021, finite inputs of magnitude at most M:
    every value Ema ever returns at f64 is finite and of magnitude at most M (1 + 1e-6), for EVERY length of the stream *)
Theorem ema_f64_bibo n M fs v : (1 <= n)%nat -> (Z.of_nat n < 10 ^ 9)%Z -> bpow radix2 (-1000) <= M ->
  Forall (fun x => ffinite x = true /\ Rabs (f2r x) <= M) fs -> 4 * M <= bpow radix2 1023 ->
  cout (@ema_core float FOps n) fs = Ok (Some v) ->
  ffinite v = true /\ Rabs (f2r v) <= M * (1 + 1 / 1000000).
Proof.
  intros Hn Hn9 HMlo HD HB Ev.
  assert (HM : 0 <= M) by (pose proof (bpow_ge_0 radix2 (-1000)); lra).
  assert (Hn48 : (Z.of_nat n < 2 ^ 48)%Z).
  { change (10 ^ 9)%Z with 1000000000%Z in Hn9. change (2 ^ 48)%Z with 281474976710656%Z. lia. }
  destruct (ema_f64_bibo_gen n M fs v Hn Hn48 HM HD HB Ev) as [Fv Hv]. split; [exact Fv|].
  eapply Rle_trans; [exact Hv|].
  (* the arithmetic of [ema_drift_b64_1e6] *)
  change (10 ^ 9)%Z with 1000000000%Z in Hn9.
  assert (HN : (1 + INR n) / 2 <= 500000000).
  { rewrite INR_IZR_INZ. assert (IZR (Z.of_nat n) <= 999999999) by (apply IZR_le; lia). lra. }
  assert (HN0 : 0 <= (1 + INR n) / 2) by (pose proof (pos_INR n); lra).
  pose proof (b64_eta_le M HMlo) as He. pose proof b64_eta_nonneg as He0.
  rewrite b64_u_val.
  set (N := (1 + INR n) / 2) in *.
  assert (H1 : M * N <= M * 500000000) by (apply Rmult_le_compat_l; assumption).
  assert (H2 : b64_eta * N <= M * / 37778931862957161709568 * 500000000).
  { apply Rmult_le_compat; try assumption. }
  clearbody N. nra.
Qed.

(** every prefix: the same statement read along the stream *)
Corollary ema_f64_bibo_prefix n M fs k v : (1 <= n)%nat -> (Z.of_nat n < 10 ^ 9)%Z -> bpow radix2 (-1000) <= M ->
  Forall (fun x => ffinite x = true /\ Rabs (f2r x) <= M) fs -> 4 * M <= bpow radix2 1023 ->
  cout (@ema_core float FOps n) (firstn k fs) = Ok (Some v) ->
  ffinite v = true /\ Rabs (f2r v) <= M * (1 + 1 / 1000000).
Proof.
  intros Hn Hn9 HMlo HD HB Ev. apply (ema_f64_bibo n M (firstn k fs) v Hn Hn9 HMlo); [|exact HB | exact Ev].
  rewrite <- (firstn_skipn k fs) in HD. apply Forall_app in HD. exact (proj1 HD).
Qed.

(** the run never errs and never answers a non-finite value (C08 at f64 for Ema on bounded input) *)
Theorem ema_f64_finite n M fs : (1 <= n)%nat -> (Z.of_nat n < 2 ^ 48)%Z -> 0 <= M ->
  Forall (fun x => ffinite x = true /\ Rabs (f2r x) <= M) fs -> 4 * M <= bpow radix2 1023 ->
  exists o, cout (@ema_core float FOps n) fs = Ok o /\ ofin ffinite o = true.
Proof.
  intros Hn Hn48 HM HD HB.
  destruct (all_finite_run_cout ffinite (@ema_core float FOps n) (ema_sfin ffinite n s2) fs
              (ema_all_finite_of_bound n M fs Hn Hn48 HM HD HB)) as [s [o [_ [_ [Eo Fo]]]]].
  exists o. auto.
Qed.

(** hypotheses are satisfiable; the magnitude condition cannot be dropped: [ema_overflow_ex] *)
Example ema_bounded_ex : exists o_f o_ex,
  cout (@ema_core float FOps 3) stream10 = Ok (Some o_f) /\ ffinite o_f = true /\
  cout (@ema_core R ROps 3) (map f2r stream10) = Ok (Some o_ex) /\
  Rabs (f2r o_f - o_ex) <= (12 * b64_u * 128 + 3 * b64_eta) * ((1 + INR 3) / 2).
Proof.
  apply (ema_prim_drift_bounded 3 128 stream10); [lia | reflexivity | cbn; lia | lra | |].
  - pose proof stream10_bounded as Hb. pose proof stream10_fin64 as Hf.
    rewrite Forall_forall in *. intros x Hx. split; [exact (Hf x Hx) | exact (Hb x Hx)].
  - apply Rle_trans with (bpow radix2 11); [cbn; lra | apply bpow_le; lia].
Qed.
Example ema_bibo_ex : forall k v, cout (@ema_core float FOps 3) (firstn k stream10) = Ok (Some v) ->
  ffinite v = true /\ Rabs (f2r v) <= 128 * (1 + 1 / 1000000).
Proof.
  intros k v. apply (ema_f64_bibo_prefix 3 128 stream10 k v); [lia | reflexivity | | |].
  - apply Rle_trans with (bpow radix2 0); [apply bpow_le; lia | cbn; lra].
  - pose proof stream10_bounded as Hb. pose proof stream10_fin64 as Hf.
    rewrite Forall_forall in *. intros x Hx. split; [exact (Hf x Hx) | exact (Hb x Hx)].
  - apply Rle_trans with (bpow radix2 11); [cbn; lra | apply bpow_le; lia].
Qed.
(** the magnitude condition is sufficient, not necessary (Ema is a convex combination: it overflows only through the
    rounding of v * w + last * (1 - w) near 2^1024); finiteness of the inputs IS necessary: *)
Example ema_nonfinite_input_ex : all_finite_ema ffinite 2 [1; infinity]%float = false.
Proof. vm_compute. reflexivity. Qed.

Print Assumptions ema_all_finite_of_bound.
Print Assumptions ema_prim_drift_bounded.
Print Assumptions ema_bridge_bounded.
Print Assumptions ema_f64_bibo_gen.
Print Assumptions ema_f64_bibo.
Print Assumptions ema_f64_finite.
