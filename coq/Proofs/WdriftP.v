(** C13 / C16 / C02 (f64 clauses): rounding-error (drift) bounds for the SECOND-moment accumulators of
    WelfordRolling and for WelfordOnline (mean and m2), in the standard model of floating-point
    arithmetic of Flt2P.v (relative error u, absolute underflow error eta for * and /).

    Inputs: floating-point numbers of magnitude <= M ([DinM]); t = number of updates.

    - WelfordRolling  s (sum of squared deviations):
        |s_fl - s_ex| <= (4 t + 90) t u M^2 + (5 t M + 2) t eta          [wr_s_drift]
      variance s / t:
        |var_fl - var_ex| <= ((4 t + 90) u M^2 + (5 t M + 2) eta)(1 + u) + u M^2 + eta   [wr_var_drift]
      while (t + 16) u <= 1/4 and t eta <= M / 8.
    - WelfordOnline (window n >= 2), mean, for every t (warm-up included):
        |mean_fl - mean of the last n values| <= t (10 u M + 3 eta)        [welford_mean_drift]
    - WelfordOnline m2:
        |m2_fl - sum of squared deviations of the last n values|
           <= t ((33 n + 80) u M^2 + (13 n M + 3) eta)                      [welford_m2_drift]
      while 160 t u <= 1 and 48 t eta <= M.  The m2 bound is LINEAR in t although the mean it uses has drifted
      by O(t u M): Omega = m2 - (sum y^2 - count * mean_fl^2) is an exact invariant of Welford's update and
      downdate for ANY mean, so only local rounding errors accumulate ([wo2_inv]).
    Binary64 instances: WdriftB64.v.  Not done: welford_var_drift (m2/(n-1)), sharpness of the linear residue. *)
From Coq Require Import List Arith Lia Reals Lra ZArith.
From SF Require Import Res Scalar View Models Spec Core SpecAvg SpecRoll SpecWelf.
From SF.Proofs Require Import Window RBase WinAP AvgP RollP WelfP FltErr Flt2P WdriftArith.
Import ListNotations.
Open Scope R_scope.

Section StdModel2.
Variables u eta : R.
Variables fadd fsub fmul fdiv : R -> R -> R.
Variable F : R -> Prop.                       (* "is a floating-point number" *)
Hypothesis u_nonneg : 0 <= u.
Hypothesis eta_nonneg : 0 <= eta.
Hypothesis F0 : F 0.
Hypothesis F1 : F 1.
Hypothesis F2 : F 2.
Hypothesis fadd_ok : forall a b, F a -> F b ->
  F (fadd a b) /\ exists d, Rabs d <= u /\ fadd a b = (a + b) * (1 + d).
Hypothesis fsub_ok : forall a b, F a -> F b ->
  F (fsub a b) /\ exists d, Rabs d <= u /\ fsub a b = (a - b) * (1 + d).
Hypothesis fmul_ok : forall a b, F a -> F b ->
  F (fmul a b) /\ exists d e, Rabs d <= u /\ Rabs e <= eta /\ fmul a b = a * b * (1 + d) + e.
Hypothesis fdiv_ok : forall a b, F a -> F b -> b <> 0 ->
  F (fdiv a b) /\ exists d e, Rabs d <= u /\ Rabs e <= eta /\ fdiv a b = a / b * (1 + d) + e.

Variable M : R.
Hypothesis M_nonneg : 0 <= M.

Notation FL := (FlOps2 fadd fsub fmul fdiv).
Notation DM := (DinM F M).

Lemma DM_abs l : Forall DM l -> Forall (fun x => Rabs x <= M) l.
Proof. apply Forall_impl. intros y [_ Hy]; exact Hy. Qed.

(* ------------------------------------------------------------------------------------------ *)
(** * 1. WelfordRolling: the sum of squared deviations  s_t = fl(s_(t-1) + fl(fl(v - m_(t-1)) * fl(v - m_t))) *)
Section Rolling.
Variable T : nat.                               (* horizon: number of updates considered *)
Hypothesis nat_F : forall k, (1 <= k <= T)%nat -> F (INR k).
Hypothesis small : (INR T + 16) * u <= 1 / 4.
Hypothesis eta_small : INR T * eta <= M / 8.

Lemma small4 : (INR T + 4) * u <= 1 / 4.
Proof. pose proof (pos_INR T). nra. Qed.

(** the invariant of Flt2P for the mean, extended with the second moment *)
Definition wr2_inv (h : list R) (s : @wr_st R) : Prop :=
  wr_fl_inv u eta F M T h s /\
  ((length h <= T)%nat ->
   F (wr_s s) /\ Rabs (wr_s s - rsqdev (rmean h) h) <= wr_sB u eta M (INR (length h))).

Lemma wr2_step h s v : Forall DM h -> DM v -> wr2_inv h s ->
  exists s', @wr_step R FL s v = Ok s' /\ wr2_inv (h ++ [v]) s'.
Proof.
  intros Hh Hv [Hm Hs].
  destruct (wr_fl_step u eta fadd fsub fmul fdiv F u_nonneg eta_nonneg fadd_ok fsub_ok fdiv_ok M M_nonneg
              T nat_F small4 h s v Hh Hv Hm) as [s' [Hstep Hm']].
  exists s'. split; [exact Hstep|]. split; [exact Hm'|].
  assert (Hlen : length (h ++ [v]) = S (length h)) by (rewrite app_length; cbn; lia).
  rewrite Hlen. intros HT.
  pose proof Hstep as Hst. unfold wr_step in Hst. cbn [sdiv sofnat ssub sadd smul FlOps2] in Hst.
  destruct Hm as [Hn Hi]. rewrite Hn in Hst.
  assert (HN0 : INR (S (length h)) <> 0) by (apply INR_pos_neq; lia).
  destruct (Req_EM_T (INR (S (length h))) 0) as [Hz|_]; [contradiction|]. cbn [bind] in Hst.
  injection Hst as Hst.
  assert (EmN : wr_mean s' = fadd (wr_mean s) (fdiv (fsub v (wr_mean s)) (INR (S (length h)))))
    by (rewrite <- Hst; reflexivity).
  assert (EsN : wr_s s' = fadd (wr_s s) (fmul (fsub v (wr_mean s))
                 (fsub v (fadd (wr_mean s) (fdiv (fsub v (wr_mean s)) (INR (S (length h))))))))
    by (rewrite <- Hst; reflexivity).
  clear Hst. rewrite EsN.
  destruct Hm' as [_ Hi']. rewrite Hlen, EmN in Hi'.
  destruct (Hi ltac:(lia)) as [Fm' Em']. destruct (Hi' HT) as [FmN ErN]. destruct (Hs ltac:(lia)) as [Fs Es].
  destruct Hv as [Fv Hv].
  set (m' := wr_mean s) in *.
  set (mN := fadd m' (fdiv (fsub v m') (INR (S (length h))))) in *.
  destruct (fsub_ok v m' Fv Fm') as [Fa [d1 [Hd1 E1]]].
  destruct (fsub_ok v mN Fv FmN) as [Fb [d4 [Hd4 E4]]].
  destruct (fmul_ok (fsub v m') (fsub v mN) Fa Fb) as [Fp [d5 [e5 [Hd5 [He5 E5]]]]].
  destruct (fadd_ok (wr_s s) (fmul (fsub v m') (fsub v mN)) Fs Fp) as [Fo [d6 [Hd6 E6]]].
  split; [exact Fo|].
  destruct (welford_add h v) as [Hmu Hq]. cbn zeta in Hmu, Hq. rewrite <- Hmu in Hq.
  rewrite E6, Hq.
  set (N := INR (S (length h))) in *.
  assert (HN1 : 1 <= N) by (unfold N; change 1 with (INR 1); apply le_INR; lia).
  assert (HNT : N <= INR T) by (unfold N; apply le_INR; lia).
  assert (ENk : INR (length h) = N - 1) by (unfold N; rewrite S_INR; ring).
  pose proof (wr_P_nonneg u eta u_nonneg eta_nonneg M M_nonneg) as HP0.
  set (a := wr_alpha u M + N * wr_P u eta M) in *.
  set (E := a * (1 + u) + 2 * M * u).
  assert (Ha0 : 0 <= a).
  { unfold a. pose proof (wr_alpha_nonneg u u_nonneg M M_nonneg). apply Rplus_le_le_0_compat; [assumption|].
    apply Rmult_le_pos; lra. }
  assert (HE0 : 0 <= E).
  { unfold E. assert (0 <= a * (1 + u)) by (apply Rmult_le_pos; lra).
    assert (0 <= M * u) by (apply Rmult_le_pos; assumption). lra. }
  assert (Em'a : Rabs (m' - rmean h) <= a).
  { eapply Rle_trans; [exact Em'|]. unfold a. rewrite ENk. nra. }
  pose proof (Rmean_bound F M M_nonneg h Hh) as Hmu0.
  assert (Hh' : Forall DM (h ++ [v])) by (apply Forall_app; split; [exact Hh | constructor; [split; assumption | constructor]]).
  pose proof (Rmean_bound F M M_nonneg (h ++ [v]) Hh') as Hmu1.
  eapply Rle_trans.
  { apply (acc_err (wr_s s) (fmul (fsub v m') (fsub v mN)) (rsqdev (rmean h) h)
             ((v - rmean h) * (v - rmean (h ++ [v]))) d6 (wr_sB u eta M (N - 1))
             (4 * M * E + E * E + (2 * M + E) * (2 * M + E) * u + eta) (N * (M * M)) u u_nonneg).
    - rewrite <- ENk. exact Es.
    - rewrite E5, E4, E1. apply prod_err; try assumption.
      + replace (2 * M) with (M + M) by ring. apply Rabs_sub_le; assumption.
      + replace (2 * M) with (M + M) by ring. apply Rabs_sub_le; assumption.
      + apply sub_err; assumption.
      + apply sub_err; assumption.
    - rewrite <- Hq. pose proof (rsqdev_mean_le M (h ++ [v]) (DM_abs _ Hh')) as [Hl Hr].
      rewrite Hlen in Hr. fold N in Hr. rewrite Rabs_right by lra. exact Hr.
    - exact Hd6. }
  apply (wr_s_budget u eta M N u_nonneg eta_nonneg M_nonneg HN1) with (a := a) (E := E); try reflexivity.
  - nra.
  - nra.
Qed.

Lemma wr2_run vs : Forall DM vs ->
  exists s, crun (@wrolling_core R FL) vs = Ok s /\ wr2_inv vs s.
Proof.
  intros Hvs.
  apply (@crun_inv R (@wrolling_core R FL) DM wr2_inv (@wr_new R FL)).
  - reflexivity.
  - split.
    + split; [reflexivity|]. intros _. cbn [wr_new wr_mean s0 FlOps2 length INR]. split; [exact F0|].
      rewrite rmean_nil, Rminus_0_r, Rabs_R0. pose proof (wr_alpha_nonneg u u_nonneg M M_nonneg). lra.
    + intros _. cbn [wr_new wr_s s0 FlOps2 length INR]. split; [exact F0|].
      rewrite rsqdev_nil, Rminus_0_r, Rabs_R0. apply wr_sB_nonneg; try assumption. lra.
  - intros h s v Hh Hv Hi. apply wr2_step; assumption.
  - exact Hvs.
Qed.
End Rolling.

(** the exact model's variance getter *)
Lemma wr_variance_exact vs s : (2 <= length vs)%nat -> wr_inv vs s ->
  @wr_variance R ROps s = Ok (@spec_rvar R ROps vs).
Proof.
  intros Hl [Hn [_ Hs]]. unfold wr_variance, spec_rvar. rewrite Hn, Hs.
  destruct (Nat.ltb_spec 1 (length vs)) as [H|H]; [|lia].
  assert (HN : INR (length vs) <> 0) by (apply INR_pos_neq; lia).
  cbn [sofnat ROps]. rewrite sdiv_R_ok, sdivd_R by exact HN. reflexivity.
Qed.

(** WelfordRolling, sum of squared deviations after t = length vs updates:
    |rounded s - exact s| <= (4 t + 90) t u M^2 + (5 t M + 2) t eta   (exact s = sum (x - mean)^2 <= t M^2). *)
Theorem wr_s_drift vs : Forall DM vs ->
  (forall k, (1 <= k <= length vs)%nat -> F (INR k)) ->
  (INR (length vs) + 16) * u <= 1 / 4 -> INR (length vs) * eta <= M / 8 ->
  exists s_fl s_ex,
    crun (@wrolling_core R FL) vs = Ok s_fl /\
    crun (@wrolling_core R ROps) vs = Ok s_ex /\
    wr_s s_ex = @spec_rdev R ROps vs /\
    Rabs (wr_s s_fl - wr_s s_ex)
    <= (4 * INR (length vs) + 90) * INR (length vs) * (u * (M * M))
       + (5 * INR (length vs) * M + 2) * INR (length vs) * eta.
Proof.
  intros Hvs HF Hs He.
  destruct (wr2_run (length vs) HF Hs He vs Hvs) as [s [Hr [_ Hi]]].
  destruct (Hi (le_n _)) as [_ Herr].
  destruct (wr_run vs) as [sx [Hrx [_ [_ Hsx]]]].
  exists s, sx. split; [exact Hr|]. split; [exact Hrx|]. split; [exact Hsx|].
  rewrite Hsx, spec_rdev_rsqdev. exact Herr.
Qed.

(** WelfordRolling, population variance s / t (t >= 2): the drift is LINEAR in t,
    |var_fl - var_ex| <= ((4 t + 90) u M^2 + (5 t M + 2) eta)(1 + u) + u M^2 + eta. *)
Theorem wr_var_drift vs : (2 <= length vs)%nat -> Forall DM vs ->
  (forall k, (1 <= k <= length vs)%nat -> F (INR k)) ->
  (INR (length vs) + 16) * u <= 1 / 4 -> INR (length vs) * eta <= M / 8 ->
  exists s_fl s_ex v_fl,
    crun (@wrolling_core R FL) vs = Ok s_fl /\
    crun (@wrolling_core R ROps) vs = Ok s_ex /\
    @wr_variance R FL s_fl = Ok v_fl /\
    @wr_variance R ROps s_ex = Ok (@spec_rvar R ROps vs) /\
    Rabs (v_fl - @spec_rvar R ROps vs)
    <= ((4 * INR (length vs) + 90) * (u * (M * M)) + (5 * INR (length vs) * M + 2) * eta) * (1 + u)
       + u * (M * M) + eta.
Proof.
  intros Hl Hvs HF Hs He.
  destruct (wr2_run (length vs) HF Hs He vs Hvs) as [s [Hr [[Hn _] Hi]]].
  destruct (Hi (le_n _)) as [Fs Herr].
  destruct (wr_run vs) as [sx [Hrx Hix]].
  assert (HN : INR (length vs) <> 0) by (apply INR_pos_neq; lia).
  destruct (fdiv_ok (wr_s s) (INR (length vs)) Fs (HF (length vs) ltac:(lia)) HN) as [Fq [d [e [Hd [He' Eq]]]]].
  exists s, sx, (fdiv (wr_s s) (INR (length vs))).
  split; [exact Hr|]. split; [exact Hrx|]. split; [|split].
  - unfold wr_variance. rewrite Hn. destruct (Nat.ltb_spec 1 (length vs)) as [H|H]; [|lia].
    cbn [sdiv sofnat FlOps2]. destruct (Req_EM_T (INR (length vs)) 0) as [Hz|_]; [contradiction | reflexivity].
  - apply wr_variance_exact; assumption.
  - unfold spec_rvar. cbn [sofnat ROps]. rewrite sdivd_R by exact HN. rewrite spec_rdev_rsqdev, Eq.
    set (N := INR (length vs)) in *. set (S' := rsqdev (rmean vs) vs) in *.
    assert (HN2 : 2 <= N) by (unfold N; change 2 with (INR 2); apply le_INR; lia).
    pose proof (rsqdev_mean_le M vs (DM_abs _ Hvs)) as [HS0 HS1]. fold N in HS1. fold S' in HS0, HS1.
    assert (HNi : 0 < / N) by (apply Rinv_0_lt_compat; lra).
    set (B := (4 * N + 90) * (u * (M * M)) + (5 * N * M + 2) * eta).
    assert (EB : wr_sB u eta M N = B * N) by (unfold wr_sB, B; ring).
    rewrite EB in Herr.
    replace (wr_s s / N * (1 + d) + e - S' / N)
      with ((wr_s s - S') * / N * (1 + d) + S' * / N * d + e) by (field; lra).
    eapply Rle_trans; [apply Rabs_triang3|].
    assert (H1 : Rabs ((wr_s s - S') * / N) <= B).
    { rewrite Rabs_mult, (Rabs_right (/ N)) by lra.
      apply Rmult_le_reg_r with N; [lra|]. rewrite Rmult_assoc, Rinv_l, Rmult_1_r by lra. exact Herr. }
    assert (H2 : Rabs (S' * / N) <= M * M).
    { rewrite Rabs_mult, (Rabs_right (/ N)), (Rabs_right S') by lra.
      apply Rmult_le_reg_r with N; [lra|]. rewrite Rmult_assoc, Rinv_l, Rmult_1_r by lra. lra. }
    pose proof (Rabs_mul_le _ (1 + d) _ _ H1 (Rabs_1d d u Hd)) as T1.
    pose proof (Rabs_mul_le _ d _ _ H2 Hd) as T2. lra.
Qed.

(* ------------------------------------------------------------------------------------------ *)
(** * 2. WelfordOnline (window n >= 2): the running mean, one downdate and one update per step *)
Section Online.
Variable n : nat.
Hypothesis n_ge2 : (2 <= n)%nat.
Variable T : nat.                               (* horizon: number of updates considered *)
Hypothesis nat_F : forall k, (1 <= k <= n)%nat -> F (INR k).
Hypothesis small : 160 * (INR T * u) <= 1.
Hypothesis eta_small : 48 * (INR T * eta) <= M.

Lemma wo_apriori k : (k <= T)%nat -> INR k * wo_Cm u eta M <= M / 8.
Proof.
  intros Hk. apply le_INR in Hk. pose proof (pos_INR k) as Hk0.
  pose proof (wo_Cm_nonneg u eta M u_nonneg eta_nonneg M_nonneg) as HC.
  apply Rle_trans with (INR T * wo_Cm u eta M); [apply Rmult_le_compat_r; assumption|].
  unfold wo_Cm. replace (INR T * (10 * u * M + 3 * eta)) with (10 * (INR T * u) * M + 3 * (INR T * eta)) by ring.
  assert (10 * (INR T * u) * M <= / 16 * M) by (apply Rmult_le_compat_r; lra). lra.
Qed.

Lemma wo_small_u : (1 <= T)%nat -> 160 * u <= 1 /\ 48 * eta <= M.
Proof.
  intros HT. apply le_INR in HT. change (INR 1) with 1 in HT. split.
  - assert (u <= INR T * u) by nra. lra.
  - assert (eta <= INR T * eta) by nra. lra.
Qed.

Definition wo_fl_inv (h : list R) (s : @wo_st R) : Prop :=
  wo_q s = lastn n h /\ wo_count s = length (lastn n h) /\
  ((length h <= T)%nat ->
   F (wo_mean s) /\ Rabs (wo_mean s - rmean (lastn n h)) <= INR (length h) * wo_Cm u eta M).

Lemma wo_fl_step h s v : Forall DM h -> DM v -> wo_fl_inv h s ->
  exists s', @wo_step R FL n s v = Ok s' /\ wo_fl_inv (h ++ [v]) s'.
Proof.
  intros Hh [Fv Hv] (Hq & Hc & Hi).
  unfold wo_step. rewrite Hq, Hc, app_length. cbn [length].
  pose proof (lastn_length n h) as Hl.
  assert (Hlen : length (h ++ [v]) = S (length h)) by (rewrite app_length; cbn; lia).
  pose proof (Forall_lastn DM n h Hh) as HW.
  pose proof (wo_Cm_nonneg u eta M u_nonneg eta_nonneg M_nonneg) as HC0.
  destruct (Nat.ltb_spec n (length (lastn n h) + 1)) as [E|E].
  - (* steady state: remove the oldest value, then add *)
    assert (Hfull : (n <= length h)%nat) by lia.
    assert (Hln : length (lastn n h) = n) by lia.
    destruct (lastn_hd_tl n h Hfull ltac:(lia)) as [x Hx].
    pose proof (lastn_app_full n h v ltac:(lia) Hfull) as Hnew.
    rewrite Hln.
    set (w := tl (lastn n h)) in *.
    assert (Hwl : length w = (n - 1)%nat) by (rewrite Hx in Hln; cbn [length] in Hln; lia).
    rewrite Hx. cbn [app pop_front bind].
    unfold wo_remove. destruct (Nat.leb_spec n 1) as [H|_]; [lia|].
    cbn [ssub sdiv sofnat FlOps2].
    replace (n - 1 + 1)%nat with n by lia.
    assert (HK0 : INR (n - 1) <> 0) by (apply INR_pos_neq; lia).
    assert (HN0 : INR n <> 0) by (apply INR_pos_neq; lia).
    destruct (Req_EM_T (INR (n - 1)) 0) as [Hz|_]; [contradiction|]. cbn [bind].
    unfold wo_add. cbn [ssub sadd smul sdiv sofnat FlOps2].
    replace (n - 1 + 1)%nat with n by lia.
    destruct (Req_EM_T (INR n) 0) as [Hz|_]; [contradiction|]. cbn [bind].
    eexists; split; [reflexivity|].
    unfold wo_fl_inv. cbn [wo_q wo_count wo_mean]. rewrite Hnew.
    split; [reflexivity|]. split; [rewrite !app_length; cbn [length]; lia|].
    rewrite Hlen. intros HT. destruct (Hi ltac:(lia)) as [Fm Em].
    destruct (wo_small_u ltac:(lia)) as [Hu160 He48].
    pose proof (wo_apriori (length h) ltac:(lia)) as Hap.
    rewrite Hx in HW, Em. inversion HW as [|? ? [Fx Hxb] Hw]; subst.
    set (m := wo_mean s) in *. set (mu := rmean (x :: w)) in *.
    pose proof (Rmean_bound F M M_nonneg (x :: w) HW) as Hmu. fold mu in Hmu.
    pose proof (Rmean_bound F M M_nonneg w Hw) as Hmu1b.
    assert (Hw' : Forall DM (w ++ [v])) by (apply Forall_app; split; [exact Hw | constructor; [split; assumption | constructor]]).
    pose proof (Rmean_bound F M M_nonneg (w ++ [v]) Hw') as Hmu2b.
    destruct (welford_remove x w ltac:(lia)) as [Hmu1 _]. cbn zeta in Hmu1. fold mu in Hmu1.
    replace (length (x :: w) - 1)%nat with (n - 1)%nat in Hmu1 by (cbn [length]; lia).
    destruct (welford_add w v) as [Hmu2 _]. cbn zeta in Hmu2.
    replace (length w + 1)%nat with n in Hmu2 by lia.
    rewrite (minus_INR n 1) in * by lia. change (INR 1) with 1 in *.
    set (N := INR n) in *.
    assert (HN2 : 2 <= N) by (unfold N; change 2 with (INR 2); apply le_INR; lia).
    assert (Fk : F (N - 1)).
    { unfold N. replace (INR n - 1) with (INR (n - 1)) by (rewrite (minus_INR n 1) by lia; reflexivity).
      apply nat_F. lia. }
    assert (FN : F N) by (apply nat_F; lia).
    destruct (fsub_ok x m Fx Fm) as [Fd1 [d1 [Hd1 E1]]].
    destruct (fdiv_ok (fsub x m) (N - 1) Fd1 Fk HK0) as [Fq1 [d2 [e2 [Hd2 [He2 E2]]]]].
    destruct (fsub_ok m (fdiv (fsub x m) (N - 1)) Fm Fq1) as [Fm1 [d3 [Hd3 E3]]].
    set (m1 := fsub m (fdiv (fsub x m) (N - 1))) in *.
    destruct (fsub_ok v m1 Fv Fm1) as [Fd4 [d4 [Hd4 E4]]].
    destruct (fdiv_ok (fsub v m1) N Fd4 FN HN0) as [Fq2 [d5 [e5 [Hd5 [He5 E5]]]]].
    destruct (fadd_ok m1 (fdiv (fsub v m1) N) Fm1 Fq2) as [Fm2 [d6 [Hd6 E6]]].
    set (m2 := fadd m1 (fdiv (fsub v m1) N)) in *.
    split; [exact Fm2|].
    assert (Hem : Rabs (m - mu) <= M / 8) by lra.
    assert (Hmb : Rabs m <= 9 / 8 * M).
    { replace m with (mu + (m - mu)) by ring. eapply Rle_trans; [apply Rabs_triang|]. lra. }
    assert (Hxm : Rabs (x - m) <= 17 / 8 * M).
    { replace (17 / 8 * M) with (M + 9 / 8 * M) by field. apply Rabs_sub_le; assumption. }
    set (Ke := (N - 1) * (m1 - m) + (x - m)).
    assert (HKe : Rabs Ke <= wo_Rb u eta M (N - 1)).
    { unfold Ke. rewrite E3, E2, E1. unfold wo_Rb.
      replace (17 / 8 * M * wr_g3 u) with (17 / 8 * M * wr_g3 u) by ring.
      apply (eps_rm x m (N - 1) d1 d2 d3 e2 (17 / 8 * M) (9 / 8 * M) u eta); try assumption. lra. }
    assert (Ee1 : m1 - rmean w = (m - mu) * N / (N - 1) + Ke / (N - 1)).
    { rewrite Hmu1. unfold Ke. field. lra. }
    assert (He1 : Rabs (m1 - rmean w) <= M / 2).
    { rewrite Ee1. apply (wo_e1_bound u eta M N); assumption. }
    assert (Hm1b : Rabs m1 <= 3 / 2 * M).
    { replace m1 with (rmean w + (m1 - rmean w)) by ring. eapply Rle_trans; [apply Rabs_triang|]. lra. }
    assert (Hvm1 : Rabs (v - m1) <= 5 / 2 * M).
    { replace (5 / 2 * M) with (M + 3 / 2 * M) by field. apply Rabs_sub_le; assumption. }
    set (Ne := N * (m2 - m1) - (v - m1)).
    assert (HNe : Rabs Ne <= wo_Ab u eta M N).
    { unfold Ne. rewrite E6, E5, E4. unfold wo_Ab.
      apply (eps_add v m1 N d4 d5 d6 e5 (5 / 2 * M) (3 / 2 * M) u eta); try assumption. lra. }
    assert (Ee2 : m2 - rmean (w ++ [v]) = (m - mu) + (Ke + Ne) / N).
    { rewrite Hmu2, Hmu1. unfold Ke, Ne. field. lra. }
    rewrite Ee2. rewrite S_INR.
    pose proof (wo_mean_budget_steady u eta M N u_nonneg eta_nonneg M_nonneg HN2 ltac:(lra)) as Hb.
    assert (HNi : 0 < / N) by (apply Rinv_0_lt_compat; lra).
    assert (T2 : Rabs ((Ke + Ne) / N) <= wo_Cm u eta M).
    { unfold Rdiv. rewrite Rabs_mult, (Rabs_right (/ N)) by lra.
      apply Rmult_le_reg_r with N; [lra|]. rewrite Rmult_assoc, Rinv_l, Rmult_1_r by lra.
      pose proof (Rabs_triang Ke Ne). lra. }
    eapply Rle_trans; [apply Rabs_triang|]. lra.
  - (* warm-up: only an add *)
    assert (Hlt : (length h < n)%nat) by lia.
    assert (Hln : length (lastn n h) = length h) by lia.
    pose proof (lastn_app_le n h v Hlt) as Hnew.
    cbn [bind]. unfold wo_add. cbn [ssub sadd smul sdiv sofnat FlOps2].
    assert (HN0 : INR (length (lastn n h) + 1) <> 0) by (apply INR_pos_neq; lia).
    destruct (Req_EM_T (INR (length (lastn n h) + 1)) 0) as [Hz|_]; [contradiction|]. cbn [bind].
    eexists; split; [reflexivity|].
    unfold wo_fl_inv. cbn [wo_q wo_count wo_mean]. rewrite Hnew.
    split; [reflexivity|]. split; [rewrite !app_length; cbn [length]; lia|].
    rewrite Hlen. intros HT. destruct (Hi ltac:(lia)) as [Fm Em].
    destruct (wo_small_u ltac:(lia)) as [Hu160 He48].
    pose proof (wo_apriori (length h) ltac:(lia)) as Hap.
    set (W := lastn n h) in *.
    set (m := wo_mean s) in *. set (mu := rmean W) in *.
    pose proof (Rmean_bound F M M_nonneg W HW) as Hmu. fold mu in Hmu.
    destruct (welford_add W v) as [Hmu2 _]. cbn zeta in Hmu2. fold mu in Hmu2.
    set (N := INR (length W + 1)) in *.
    assert (HN1 : 1 <= N) by (unfold N; change 1 with (INR 1); apply le_INR; lia).
    assert (FN : F N) by (apply nat_F; lia).
    destruct (fsub_ok v m Fv Fm) as [Fd4 [d4 [Hd4 E4]]].
    destruct (fdiv_ok (fsub v m) N Fd4 FN HN0) as [Fq2 [d5 [e5 [Hd5 [He5 E5]]]]].
    destruct (fadd_ok m (fdiv (fsub v m) N) Fm Fq2) as [Fm2 [d6 [Hd6 E6]]].
    set (m2 := fadd m (fdiv (fsub v m) N)) in *.
    split; [exact Fm2|].
    assert (Hem : Rabs (m - mu) <= M / 8) by lra.
    assert (Hmb : Rabs m <= 3 / 2 * M).
    { replace m with (mu + (m - mu)) by ring. eapply Rle_trans; [apply Rabs_triang|]. lra. }
    assert (Hvm : Rabs (v - m) <= 5 / 2 * M).
    { replace (5 / 2 * M) with (M + 3 / 2 * M) by field. apply Rabs_sub_le; assumption. }
    set (Ne := N * (m2 - m) - (v - m)).
    assert (HNe : Rabs Ne <= wo_Ab u eta M N).
    { unfold Ne. rewrite E6, E5, E4. unfold wo_Ab.
      apply (eps_add v m N d4 d5 d6 e5 (5 / 2 * M) (3 / 2 * M) u eta); try assumption. lra. }
    assert (Ee2 : m2 - rmean (W ++ [v]) = (m - mu) * (1 - / N) + Ne / N).
    { rewrite Hmu2. unfold Ne. field. lra. }
    rewrite Ee2, S_INR.
    pose proof (wo_mean_budget_warm u eta M N u_nonneg eta_nonneg M_nonneg HN1 ltac:(lra)) as Hb.
    assert (HNi : 0 < / N) by (apply Rinv_0_lt_compat; lra).
    assert (HNi1 : / N <= 1) by (rewrite <- Rinv_1; apply Rinv_le_contravar; lra).
    assert (T2 : Rabs (Ne / N) <= wo_Cm u eta M).
    { unfold Rdiv. rewrite Rabs_mult, (Rabs_right (/ N)) by lra.
      apply Rmult_le_reg_r with N; [lra|]. rewrite Rmult_assoc, Rinv_l, Rmult_1_r by lra. lra. }
    assert (T1 : Rabs ((m - mu) * (1 - / N)) <= INR (length h) * wo_Cm u eta M).
    { rewrite Rabs_mult, (Rabs_right (1 - / N)) by lra. pose proof (Rabs_pos (m - mu)). nra. }
    eapply Rle_trans; [apply Rabs_triang|]. lra.
Qed.

Lemma wo_fl_new : cnew (@welford_mean_core R FL n) = Ok {| wo_q := []; wo_mean := 0; wo_m2 := 0; wo_count := 0 |}.
Proof. cbn [cnew welford_mean_core]. unfold wo_new. destruct (Nat.ltb_spec 0 n); [reflexivity | lia]. Qed.

Lemma wo_fl_run vs : Forall DM vs ->
  exists s, crun (@welford_mean_core R FL n) vs = Ok s /\ wo_fl_inv vs s.
Proof.
  intros Hvs.
  apply (@crun_inv R (@welford_mean_core R FL n) DM wo_fl_inv
           {| wo_q := []; wo_mean := 0; wo_m2 := 0; wo_count := 0 |}).
  - exact wo_fl_new.
  - unfold wo_fl_inv. rewrite lastn_nil. cbn [wo_q wo_count wo_mean length INR].
    split; [reflexivity|]. split; [reflexivity|]. intros _. split; [exact F0|].
    rewrite rmean_nil, Rminus_0_r, Rabs_R0. lra.
  - intros h s v Hh Hv Hi. apply wo_fl_step; assumption.
  - exact Hvs.
Qed.
End Online.

(* ------------------------------------------------------------------------------------------ *)
(** * 3. WelfordOnline m2.  Invariant: Omega = m2 - (sum of y^2 over the window - count * mean_fl^2) drifts by at
    most Cq(n) per update (Omega is an exact invariant of Welford's recurrences in exact arithmetic, whatever
    the mean is, so only LOCAL rounding errors enter: no t^2 term). *)
Section Online2.
Variable n : nat.
Hypothesis n_ge2 : (2 <= n)%nat.
Variable T : nat.
Hypothesis nat_F : forall k, (1 <= k <= n)%nat -> F (INR k).
Hypothesis small : 160 * (INR T * u) <= 1.
Hypothesis eta_small : 48 * (INR T * eta) <= M.

Definition wo_omega (W : list R) (s : @wo_st R) : R :=
  wo_m2 s - (rsqdev 0 W - INR (length W) * wo_mean s * wo_mean s).

Definition wo2_inv (h : list R) (s : @wo_st R) : Prop :=
  wo_fl_inv n T h s /\
  ((length h <= T)%nat ->
   F (wo_m2 s) /\ Rabs (wo_omega (lastn n h) s) <= INR (length h) * wo_Cq u eta M (INR n)).

Lemma Q0_bounds l : Forall DM l -> 0 <= rsqdev 0 l <= INR (length l) * (M * M).
Proof. intros H. split; [apply rsqdev_nonneg | apply rsqdev0_le, DM_abs, H]. Qed.

Lemma wo2_step h s v : Forall DM h -> DM v -> wo2_inv h s ->
  exists s', @wo_step R FL n s v = Ok s' /\ wo2_inv (h ++ [v]) s'.
Proof.
  intros Hh Hv0 [Hinv Hs].
  destruct (wo_fl_step n n_ge2 T nat_F small eta_small h s v Hh Hv0 Hinv) as [s' [Hstep Hinv']].
  exists s'. split; [exact Hstep|]. split; [exact Hinv'|].
  destruct Hv0 as [Fv Hv]. destruct Hinv as (Hq & Hc & Hi). destruct Hinv' as (_ & _ & Hi').
  pose proof Hstep as Hst. unfold wo_step in Hst. rewrite Hq, Hc, app_length in Hst. cbn [length] in Hst.
  pose proof (lastn_length n h) as Hl.
  assert (Hlen : length (h ++ [v]) = S (length h)) by (rewrite app_length; cbn; lia).
  pose proof (Forall_lastn DM n h Hh) as HW.
  pose proof (wo_Cm_nonneg u eta M u_nonneg eta_nonneg M_nonneg) as HC0.
  assert (HNN2 : 2 <= INR n) by (change 2 with (INR 2); apply le_INR; lia).
  pose proof (wo_Cq_nonneg u eta M (INR n) u_nonneg eta_nonneg M_nonneg ltac:(lra)) as HCq0.
  rewrite Hlen in *. intros HT.
  destruct (Hi ltac:(lia)) as [Fm Em]. destruct (Hi' HT) as [Fm' Em'].
  destruct (Hs ltac:(lia)) as [Fq Eq]. unfold wo_omega in *.
  destruct (wo_small_u T small eta_small ltac:(lia)) as [Hu160 He48].
  pose proof (wo_apriori T small eta_small (length h) ltac:(lia)) as Hap.
  pose proof (wo_apriori T small eta_small (S (length h)) HT) as Hap'.
  set (Om := INR (length h) * wo_Cq u eta M (INR n)) in *.
  assert (HOm0 : 0 <= Om) by (apply Rmult_le_pos; [apply pos_INR | exact HCq0]).
  assert (HOu : Om * u <= wo_Cq u eta M (INR n) / 160).
  { unfold Om. assert (Hk : INR (length h) <= INR T) by (apply le_INR; lia).
    pose proof (pos_INR (length h)) as Hk0.
    assert (Hku : INR (length h) * u <= / 160) by nra.
    replace (INR (length h) * wo_Cq u eta M (INR n) * u) with (wo_Cq u eta M (INR n) * (INR (length h) * u)) by ring.
    unfold Rdiv. apply Rmult_le_compat_l; assumption. }
  destruct (Nat.ltb_spec n (length (lastn n h) + 1)) as [E|E].
  - (* steady state *)
    assert (Hfull : (n <= length h)%nat) by lia.
    assert (Hln : length (lastn n h) = n) by lia.
    destruct (lastn_hd_tl n h Hfull ltac:(lia)) as [x Hx].
    pose proof (lastn_app_full n h v ltac:(lia) Hfull) as Hnew.
    rewrite Hln in Hst.
    set (w := tl (lastn n h)) in *.
    assert (Hwl : length w = (n - 1)%nat) by (rewrite Hx in Hln; cbn [length] in Hln; lia).
    rewrite Hx in Hst. cbn [app pop_front bind] in Hst.
    unfold wo_remove in Hst. destruct (Nat.leb_spec n 1) as [H|_]; [lia|].
    cbn [ssub sdiv sofnat FlOps2] in Hst.
    assert (HK0 : INR (n - 1) <> 0) by (apply INR_pos_neq; lia).
    assert (HN0 : INR n <> 0) by (apply INR_pos_neq; lia).
    destruct (Req_EM_T (INR (n - 1)) 0) as [Hz|_]; [contradiction|]. cbn [bind] in Hst.
    unfold wo_add in Hst. cbn [ssub sadd smul sdiv sofnat FlOps2] in Hst.
    replace (n - 1 + 1)%nat with n in Hst by lia.
    destruct (Req_EM_T (INR n) 0) as [Hz|_]; [contradiction|]. cbn [bind] in Hst.
    injection Hst as Hst.
    rewrite Hnew in *. rewrite Hx in HW, Em, Eq.
    pose proof (Forall_inv HW) as [Fx Hxb]. pose proof (Forall_inv_tail HW) as Hw.
    cbn [wo_mean wo_m2] in *.
    set (m := wo_mean s) in *. set (mu := rmean (x :: w)) in *.
    pose proof (Rmean_bound F M M_nonneg (x :: w) HW) as Hmu. fold mu in Hmu.
    pose proof (Rmean_bound F M M_nonneg w Hw) as Hmu1b.
    assert (Hw' : Forall DM (w ++ [v])) by (apply Forall_app; split; [exact Hw | constructor; [split; assumption | constructor]]).
    pose proof (Rmean_bound F M M_nonneg (w ++ [v]) Hw') as Hmu2b.
    destruct (welford_remove x w ltac:(lia)) as [Hmu1 _]. cbn zeta in Hmu1. fold mu in Hmu1.
    replace (length (x :: w) - 1)%nat with (n - 1)%nat in Hmu1 by (cbn [length]; lia).
    rewrite (minus_INR n 1) in * by lia. change (INR 1) with 1 in *.
    replace (length (w ++ [v])) with n in * by (rewrite app_length; cbn [length]; lia).
    replace (length (x :: w)) with n in Eq by (cbn [length]; lia).
    set (N := INR n) in *.
    assert (Fk : F (N - 1)).
    { unfold N. replace (INR n - 1) with (INR (n - 1)) by (rewrite (minus_INR n 1) by lia; reflexivity).
      apply nat_F. lia. }
    assert (FN : F N) by (apply nat_F; lia).
    destruct (fsub_ok x m Fx Fm) as [Fd1 [d1 [Hd1 E1]]].
    destruct (fdiv_ok (fsub x m) (N - 1) Fd1 Fk HK0) as [Fq1 [d2 [e2 [Hd2 [He2 E2]]]]].
    destruct (fsub_ok m (fdiv (fsub x m) (N - 1)) Fm Fq1) as [Fm1 [d3 [Hd3 E3]]].
    set (m1 := fsub m (fdiv (fsub x m) (N - 1))) in *.
    destruct (fsub_ok v m1 Fv Fm1) as [Fd4 [d4 [Hd4 E4]]].
    destruct (fdiv_ok (fsub v m1) N Fd4 FN HN0) as [Fq2 [d5 [e5 [Hd5 [He5 E5]]]]].
    destruct (fadd_ok m1 (fdiv (fsub v m1) N) Fm1 Fq2) as [Fmm2 [d6 [Hd6 E6]]].
    set (mm2 := fadd m1 (fdiv (fsub v m1) N)) in *.
    (* the m2 operations *)
    destruct (fsub_ok x m1 Fx Fm1) as [Fd7 [d7 [Hd7 E7]]].
    destruct (fmul_ok (fsub x m) (fsub x m1) Fd1 Fd7) as [Fp1 [d8 [e8 [Hd8 [He8 E8]]]]].
    destruct (fsub_ok (wo_m2 s) (fmul (fsub x m) (fsub x m1)) Fq Fp1) as [Fq1' [d9 [Hd9 E9]]].
    set (q1 := fsub (wo_m2 s) (fmul (fsub x m) (fsub x m1))) in *.
    destruct (fsub_ok v mm2 Fv Fmm2) as [Fd10 [d10 [Hd10 E10]]].
    destruct (fmul_ok (fsub v m1) (fsub v mm2) Fd4 Fd10) as [Fp2 [d11 [e11 [Hd11 [He11 E11]]]]].
    destruct (fadd_ok q1 (fmul (fsub v m1) (fsub v mm2)) Fq1' Fp2) as [Fq2' [d12 [Hd12 E12]]].
    set (q2 := fadd q1 (fmul (fsub v m1) (fsub v mm2))) in *.
    assert (Emm : wo_mean s' = mm2) by (rewrite <- Hst; reflexivity).
    assert (Eqq : wo_m2 s' = q2) by (rewrite <- Hst; reflexivity).
    rewrite Emm in *. rewrite Eqq. clear Hst.
    split; [exact Fq2'|].
    (* bounds on the means *)
    assert (Hem : Rabs (m - mu) <= M / 8) by lra.
    assert (Hmb : Rabs m <= 9 / 8 * M).
    { replace m with (mu + (m - mu)) by ring. eapply Rle_trans; [apply Rabs_triang|]. lra. }
    assert (Hxm : Rabs (x - m) <= 17 / 8 * M).
    { replace (17 / 8 * M) with (M + 9 / 8 * M) by field. apply Rabs_sub_le; assumption. }
    set (Ke := (N - 1) * (m1 - m) + (x - m)).
    assert (HKe : Rabs Ke <= wo_Rb u eta M (N - 1)).
    { unfold Ke. rewrite E3, E2, E1. unfold wo_Rb.
      apply (eps_rm x m (N - 1) d1 d2 d3 e2 (17 / 8 * M) (9 / 8 * M) u eta); try assumption. lra. }
    assert (Ee1 : m1 - rmean w = (m - mu) * N / (N - 1) + Ke / (N - 1)).
    { rewrite Hmu1. unfold Ke. field. lra. }
    assert (He1 : Rabs (m1 - rmean w) <= M / 2).
    { rewrite Ee1. apply (wo_e1_bound u eta M N); assumption. }
    assert (Hm1b : Rabs m1 <= 3 / 2 * M).
    { replace m1 with (rmean w + (m1 - rmean w)) by ring. eapply Rle_trans; [apply Rabs_triang|]. lra. }
    assert (Hvm1 : Rabs (v - m1) <= 5 / 2 * M).
    { replace (5 / 2 * M) with (M + 3 / 2 * M) by field. apply Rabs_sub_le; assumption. }
    assert (Hxm1 : Rabs (x - m1) <= 5 / 2 * M).
    { replace (5 / 2 * M) with (M + 3 / 2 * M) by field. apply Rabs_sub_le; assumption. }
    set (Ne := N * (mm2 - m1) - (v - m1)).
    assert (HNe : Rabs Ne <= wo_Ab u eta M N).
    { unfold Ne. rewrite E6, E5, E4. unfold wo_Ab.
      apply (eps_add v m1 N d4 d5 d6 e5 (5 / 2 * M) (3 / 2 * M) u eta); try assumption. lra. }
    assert (Hmm2b : Rabs mm2 <= 9 / 8 * M).
    { replace mm2 with (rmean (w ++ [v]) + (mm2 - rmean (w ++ [v]))) by ring.
      eapply Rle_trans; [apply Rabs_triang|]. lra. }
    assert (Hvmm2 : Rabs (v - mm2) <= 17 / 8 * M).
    { replace (17 / 8 * M) with (M + 9 / 8 * M) by field. apply Rabs_sub_le; assumption. }
    (* the sums of squares *)
    set (Qw := rsqdev 0 w) in *.
    pose proof (Q0_bounds w Hw) as HQw. fold Qw in HQw. rewrite Hwl in HQw.
    rewrite (minus_INR n 1) in HQw by lia. change (INR 1) with 1 in HQw. fold N in HQw.
    assert (EQx : rsqdev 0 (x :: w) = x * x + Qw) by (rewrite rsqdev_cons, Rminus_0_r; reflexivity).
    assert (EQv : rsqdev 0 (w ++ [v]) = Qw + v * v) by (rewrite rsqdev_app, Rminus_0_r; reflexivity).
    pose proof (Q0_bounds (x :: w) HW) as HQx. rewrite EQx in HQx.
    replace (length (x :: w)) with n in HQx by (cbn [length]; lia). fold N in HQx.
    rewrite EQx in Eq. rewrite EQv.
    assert (HMM0 : 0 <= M * M) by (apply Rmult_le_pos; assumption).
    assert (EX : 17 / 8 * M * (5 / 2 * M) = 85 / 16 * (M * M)) by field.
    (* remove *)
    set (Drm := wo_D0rm u eta M N + Om * u).
    assert (H1 : Rabs ((q1 - (Qw - (N - 1) * m1 * m1)) - (wo_m2 s - (x * x + Qw - N * m * m))) <= Drm).
    { rewrite E9. eapply Rle_trans.
      - apply (omega_rm_bound (N - 1) N Qw x m m1 (wo_m2 s) (fmul (fsub x m) (fsub x m1)) d9
                 (wo_Rb u eta M (N - 1)) (21 / 8 * M) (85 / 16 * (M * M)) (85 / 16 * (M * M) * wr_g3 u + eta)
                 Om (81 / 64 * N * (M * M)) u); try assumption; try lra.
        + eapply Rle_trans; [apply Rabs_triang|]. lra.
        + rewrite <- EX. apply Rabs_mul_le; assumption.
        + rewrite E8, E7, E1. apply prod_rel; try assumption. rewrite <- EX. apply Rabs_mul_le; assumption.
        + replace (81 / 64 * N * (M * M)) with (N * (9 / 8 * M * (9 / 8 * M))) by field.
          apply (cap_bound (x * x + Qw) N m M (9 / 8 * M)); try assumption; lra.
      - unfold Drm, wo_D0rm. apply Req_le. ring. }
    assert (HO1 : Rabs (q1 - (Qw - (N - 1) * m1 * m1)) <= Om + Drm).
    { replace (q1 - (Qw - (N - 1) * m1 * m1))
        with ((wo_m2 s - (x * x + Qw - N * m * m))
              + ((q1 - (Qw - (N - 1) * m1 * m1)) - (wo_m2 s - (x * x + Qw - N * m * m)))) by ring.
      eapply Rle_trans; [apply Rabs_triang|]. lra. }
    (* add *)
    set (Dadd := wo_D0add u eta M N + (Om + Drm) * u).
    assert (H2 : Rabs ((q2 - (Qw + v * v - N * mm2 * mm2)) - (q1 - (Qw - (N - 1) * m1 * m1))) <= Dadd).
    { rewrite E12. eapply Rle_trans.
      - apply (omega_add_bound (N - 1) N Qw v m1 mm2 q1 (fmul (fsub v m1) (fsub v mm2)) d12
                 (wo_Ab u eta M N) (21 / 8 * M) (85 / 16 * (M * M)) (85 / 16 * (M * M) * wr_g3 u + eta)
                 (Om + Drm) (9 / 4 * (N - 1) * (M * M)) u); try assumption; try lra.
        + eapply Rle_trans; [apply Rabs_triang|]. lra.
        + replace (85 / 16 * (M * M)) with (5 / 2 * M * (17 / 8 * M)) by field. apply Rabs_mul_le; assumption.
        + rewrite E11, E10, E4. apply prod_rel; try assumption.
          replace (85 / 16 * (M * M)) with (5 / 2 * M * (17 / 8 * M)) by field. apply Rabs_mul_le; assumption.
        + replace (9 / 4 * (N - 1) * (M * M)) with ((N - 1) * (3 / 2 * M * (3 / 2 * M))) by field.
          apply (cap_bound Qw (N - 1) m1 M (3 / 2 * M)); try assumption; lra.
      - unfold Dadd, wo_D0add. apply Req_le. ring. }
    destruct (wo_m2_budget u eta M N N Om u_nonneg eta_nonneg M_nonneg HNN2 ltac:(lra) Hu160 HOm0 HOu) as [Hbud _].
    cbn zeta in Hbud. fold Drm in Hbud. fold Dadd in Hbud.
    replace (q2 - (Qw + v * v - N * mm2 * mm2))
      with ((wo_m2 s - (x * x + Qw - N * m * m))
            + ((q1 - (Qw - (N - 1) * m1 * m1)) - (wo_m2 s - (x * x + Qw - N * m * m)))
            + ((q2 - (Qw + v * v - N * mm2 * mm2)) - (q1 - (Qw - (N - 1) * m1 * m1)))) by ring.
    eapply Rle_trans; [apply Rabs_triang3|]. rewrite S_INR.
    replace ((INR (length h) + 1) * wo_Cq u eta M N) with (Om + wo_Cq u eta M N) by (unfold Om; ring).
    lra.
  - (* warm-up *)
    assert (Hlt : (length h < n)%nat) by lia.
    assert (Hln : length (lastn n h) = length h) by lia.
    pose proof (lastn_app_le n h v Hlt) as Hnew.
    cbn [bind] in Hst. unfold wo_add in Hst. cbn [ssub sadd smul sdiv sofnat FlOps2] in Hst.
    assert (HN0 : INR (length (lastn n h) + 1) <> 0) by (apply INR_pos_neq; lia).
    destruct (Req_EM_T (INR (length (lastn n h) + 1)) 0) as [Hz|_]; [contradiction|]. cbn [bind] in Hst.
    injection Hst as Hst.
    rewrite Hnew in *.
    set (W := lastn n h) in *.
    cbn [wo_mean wo_m2] in *.
    set (m := wo_mean s) in *. set (mu := rmean W) in *.
    pose proof (Rmean_bound F M M_nonneg W HW) as Hmu. fold mu in Hmu.
    assert (Hw' : Forall DM (W ++ [v])) by (apply Forall_app; split; [exact HW | constructor; [split; assumption | constructor]]).
    pose proof (Rmean_bound F M M_nonneg (W ++ [v]) Hw') as Hmu2b.
    replace (length (W ++ [v])) with (length W + 1)%nat in * by (rewrite app_length; cbn [length]; lia).
    assert (ENK : INR (length W + 1) = INR (length W) + 1) by (rewrite plus_INR; reflexivity).
    set (K := INR (length W)) in *.
    set (N := INR (length W + 1)) in *.
    assert (HK0 : 0 <= K) by apply pos_INR.
    assert (HN1 : 1 <= N) by lra.
    assert (HNn : N <= INR n) by (unfold N; apply le_INR; lia).
    assert (FN : F N) by (apply nat_F; lia).
    destruct (fsub_ok v m Fv Fm) as [Fd4 [d4 [Hd4 E4]]].
    destruct (fdiv_ok (fsub v m) N Fd4 FN HN0) as [Fq2 [d5 [e5 [Hd5 [He5 E5]]]]].
    destruct (fadd_ok m (fdiv (fsub v m) N) Fm Fq2) as [Fmm2 [d6 [Hd6 E6]]].
    set (mm2 := fadd m (fdiv (fsub v m) N)) in *.
    destruct (fsub_ok v mm2 Fv Fmm2) as [Fd10 [d10 [Hd10 E10]]].
    destruct (fmul_ok (fsub v m) (fsub v mm2) Fd4 Fd10) as [Fp2 [d11 [e11 [Hd11 [He11 E11]]]]].
    destruct (fadd_ok (wo_m2 s) (fmul (fsub v m) (fsub v mm2)) Fq Fp2) as [Fq2' [d12 [Hd12 E12]]].
    set (q2 := fadd (wo_m2 s) (fmul (fsub v m) (fsub v mm2))) in *.
    assert (Emm : wo_mean s' = mm2) by (rewrite <- Hst; reflexivity).
    assert (Eqq : wo_m2 s' = q2) by (rewrite <- Hst; reflexivity).
    rewrite Emm in *. rewrite Eqq. clear Hst.
    split; [exact Fq2'|].
    assert (Hem : Rabs (m - mu) <= M / 8) by lra.
    assert (Hmb : Rabs m <= 3 / 2 * M).
    { replace m with (mu + (m - mu)) by ring. eapply Rle_trans; [apply Rabs_triang|]. lra. }
    assert (Hvm : Rabs (v - m) <= 5 / 2 * M).
    { replace (5 / 2 * M) with (M + 3 / 2 * M) by field. apply Rabs_sub_le; assumption. }
    assert (HNe : Rabs (N * (mm2 - m) - (v - m)) <= wo_Ab u eta M N).
    { rewrite E6, E5, E4. unfold wo_Ab.
      apply (eps_add v m N d4 d5 d6 e5 (5 / 2 * M) (3 / 2 * M) u eta); try assumption. lra. }
    assert (Hmm2b : Rabs mm2 <= 9 / 8 * M).
    { replace mm2 with (rmean (W ++ [v]) + (mm2 - rmean (W ++ [v]))) by ring.
      eapply Rle_trans; [apply Rabs_triang|]. lra. }
    assert (Hvmm2 : Rabs (v - mm2) <= 17 / 8 * M).
    { replace (17 / 8 * M) with (M + 9 / 8 * M) by field. apply Rabs_sub_le; assumption. }
    set (Qw := rsqdev 0 W) in *.
    pose proof (Q0_bounds W HW) as HQw. fold Qw in HQw. fold K in HQw.
    assert (EQv : rsqdev 0 (W ++ [v]) = Qw + v * v) by (rewrite rsqdev_app, Rminus_0_r; reflexivity).
    rewrite EQv.
    assert (HMM0 : 0 <= M * M) by (apply Rmult_le_pos; assumption).
    assert (H2 : Rabs ((q2 - (Qw + v * v - N * mm2 * mm2)) - (wo_m2 s - (Qw - K * m * m)))
                 <= wo_D0add u eta M N + Om * u).
    { rewrite E12. eapply Rle_trans.
      - apply (omega_add_bound K N Qw v m mm2 (wo_m2 s) (fmul (fsub v m) (fsub v mm2)) d12
                 (wo_Ab u eta M N) (21 / 8 * M) (85 / 16 * (M * M)) (85 / 16 * (M * M) * wr_g3 u + eta)
                 Om (9 / 4 * (N - 1) * (M * M)) u); try assumption; try lra.
        + eapply Rle_trans; [apply Rabs_triang|]. lra.
        + replace (85 / 16 * (M * M)) with (5 / 2 * M * (17 / 8 * M)) by field. apply Rabs_mul_le; assumption.
        + rewrite E11, E10, E4. apply prod_rel; try assumption.
          replace (85 / 16 * (M * M)) with (5 / 2 * M * (17 / 8 * M)) by field. apply Rabs_mul_le; assumption.
        + replace (9 / 4 * (N - 1) * (M * M)) with (K * (3 / 2 * M * (3 / 2 * M))) by (rewrite ENK; field).
          apply (cap_bound Qw K m M (3 / 2 * M)); try assumption; lra.
      - unfold wo_D0add. apply Req_le. ring. }
    destruct (wo_m2_budget u eta M (INR n) N Om u_nonneg eta_nonneg M_nonneg HNN2 ltac:(lra) Hu160 HOm0 HOu) as [_ Hbud].
    replace (q2 - (Qw + v * v - N * mm2 * mm2))
      with ((wo_m2 s - (Qw - K * m * m))
            + ((q2 - (Qw + v * v - N * mm2 * mm2)) - (wo_m2 s - (Qw - K * m * m)))) by ring.
    eapply Rle_trans; [apply Rabs_triang|]. rewrite S_INR.
    replace ((INR (length h) + 1) * wo_Cq u eta M (INR n)) with (Om + wo_Cq u eta M (INR n)) by (unfold Om; ring).
    fold N. lra.
Qed.

Lemma wo2_run vs : Forall DM vs ->
  exists s, crun (@welford_core R FL n) vs = Ok s /\ wo2_inv vs s.
Proof.
  intros Hvs.
  apply (@crun_inv R (@welford_core R FL n) DM wo2_inv
           {| wo_q := []; wo_mean := 0; wo_m2 := 0; wo_count := 0 |}).
  - exact (wo_fl_new n n_ge2).
  - split.
    + unfold wo_fl_inv. rewrite lastn_nil. cbn [wo_q wo_count wo_mean length INR].
      split; [reflexivity|]. split; [reflexivity|]. intros _. split; [exact F0|].
      rewrite rmean_nil, Rminus_0_r, Rabs_R0. lra.
    + intros _. unfold wo_omega. rewrite lastn_nil. cbn [wo_m2 wo_mean length INR]. split; [exact F0|].
      rewrite rsqdev_nil. replace (0 - (0 - 0 * 0 * 0)) with 0 by ring. rewrite Rabs_R0. lra.
  - intros h s v Hh Hv Hi. apply wo2_step; assumption.
  - exact Hvs.
Qed.
End Online2.

(** WelfordOnline mean, window n >= 2, after t = length vs updates (ANY t, warm-up included):
    |rounded mean - mean of the last n values| <= t (10 u M + 3 eta): linear in the number of updates, uniformly in n. *)
Theorem welford_mean_drift n vs : (2 <= n)%nat -> Forall DM vs ->
  (forall k, (1 <= k <= n)%nat -> F (INR k)) ->
  160 * (INR (length vs) * u) <= 1 -> 48 * (INR (length vs) * eta) <= M ->
  exists m_fl m_ex,
    cout (@welford_mean_core R FL n) vs = Ok (Some m_fl) /\
    cout (@welford_mean_core R ROps n) vs = Ok (Some m_ex) /\
    m_ex = @spec_wmean R ROps n vs /\
    Rabs (m_fl - m_ex) <= INR (length vs) * (10 * u * M + 3 * eta).
Proof.
  intros Hn Hvs HF Hs He.
  destruct (wo_fl_run n Hn (length vs) HF Hs He vs Hvs) as [s [Hr (_ & _ & Hi)]].
  destruct (Hi (le_n _)) as [_ Herr].
  exists (wo_mean s), (@spec_wmean R ROps n vs). split; [|split; [|split]].
  - unfold cout. rewrite Hr. reflexivity.
  - apply welford_mean_closed_form. lia.
  - reflexivity.
  - exact Herr.
Qed.

(** WelfordOnline m2, window n >= 2, after t = length vs updates (any t):
    |rounded m2 - sum of squared deviations of the last n values| <= t ((33 n + 80) u M^2 + (13 n M + 3) eta):
    the residue is at most LINEAR in the number of updates (K(n) = 33 n + 80). *)
Theorem welford_m2_drift n vs : (2 <= n)%nat -> Forall DM vs ->
  (forall k, (1 <= k <= n)%nat -> F (INR k)) ->
  160 * (INR (length vs) * u) <= 1 -> 48 * (INR (length vs) * eta) <= M ->
  exists s_fl s_ex,
    crun (@welford_core R FL n) vs = Ok s_fl /\
    crun (@welford_core R ROps n) vs = Ok s_ex /\
    wo_m2 s_ex = rsqdev (rmean (lastn n vs)) (lastn n vs) /\
    Rabs (wo_m2 s_fl - wo_m2 s_ex)
    <= INR (length vs) * ((33 * INR n + 80) * (u * (M * M)) + (13 * INR n * M + 3) * eta).
Proof.
  intros Hn Hvs HF Hs He.
  destruct (wo2_run n Hn (length vs) HF Hs He vs Hvs) as [s [Hr [(_ & _ & Hi) Hi2]]].
  destruct (Hi (le_n _)) as [_ Em]. destruct (Hi2 (le_n _)) as [_ Eo].
  destruct (wo_run_inv n vs ltac:(lia)) as [sx [Hrx (_ & _ & _ & Hx2)]].
  exists s, sx. split; [exact Hr|]. split; [exact Hrx|]. split; [exact Hx2|].
  rewrite Hx2. unfold wo_omega in Eo.
  pose proof (wo_apriori (length vs) Hs He (length vs) (le_n _)) as Hap.
  set (W := lastn n vs) in *. set (m := wo_mean s) in *. set (mu := rmean W) in *.
  pose proof (Forall_lastn DM n vs Hvs) as HW. fold W in HW.
  pose proof (Rmean_bound F M M_nonneg W HW) as Hmu. fold mu in Hmu.
  pose proof (Rmean_mul W) as Hmul. fold mu in Hmul.
  rewrite (rsqdev_expand mu W), <- Hmul.
  set (c := INR (length W)) in *.
  assert (Hc : 0 <= c <= INR n).
  { split; [apply pos_INR|]. unfold c, W. apply le_INR. rewrite lastn_length. lia. }
  replace (wo_m2 s - (rsqdev 0 W - 2 * mu * (c * mu) + c * mu * mu))
    with ((wo_m2 s - (rsqdev 0 W - c * m * m)) + - (c * ((m - mu) * (m + mu)))) by ring.
  eapply Rle_trans; [apply Rabs_triang|]. rewrite Rabs_Ropp.
  set (t := INR (length vs)) in *. assert (Ht0 : 0 <= t) by apply pos_INR.
  pose proof (wo_Cm_nonneg u eta M u_nonneg eta_nonneg M_nonneg) as HC0.
  assert (Hmb : Rabs (m + mu) <= 17 / 8 * M).
  { replace (m + mu) with ((m - mu) + 2 * mu) by ring. eapply Rle_trans; [apply Rabs_triang|].
    rewrite Rabs_mult, (Rabs_right 2) by lra. lra. }
  assert (T2 : Rabs (c * ((m - mu) * (m + mu))) <= INR n * (t * wo_Cm u eta M * (17 / 8 * M))).
  { rewrite Rabs_mult, (Rabs_right c) by lra.
    pose proof (Rabs_mul_le _ _ _ _ Em Hmb) as P. pose proof (Rabs_pos ((m - mu) * (m + mu))).
    apply Rmult_le_compat; lra. }
  eapply Rle_trans; [apply Rplus_le_compat; [exact Eo | exact T2]|].
  unfold wo_Cq, wo_Cm. set (N := INR n) in *.
  assert (HN0 : 0 <= N) by lra.
  assert (Hw0 : 0 <= u * (M * M)) by (apply Rmult_le_pos; [|apply Rmult_le_pos]; assumption).
  assert (Hz0 : 0 <= M * eta) by (apply Rmult_le_pos; assumption).
  assert (HNw : 0 <= N * (u * (M * M))) by (apply Rmult_le_pos; assumption).
  assert (HNz : 0 <= N * (M * eta)) by (apply Rmult_le_pos; assumption).
  replace (t * ((11 * N + 80) * (u * (M * M)) + (6 * N * M + 3) * eta) + N * (t * (10 * u * M + 3 * eta) * (17 / 8 * M)))
    with (t * ((11 + 85 / 4) * (N * (u * (M * M))) + 80 * (u * (M * M)) + (6 + 51 / 8) * (N * (M * eta)) + 3 * eta)) by field.
  apply Rmult_le_compat_l; [exact Ht0|]. lra.
Qed.

End StdModel2.

(** * The hypotheses are satisfiable (exact arithmetic, u = eta = 0, is an instance; binary64 in WdriftB64.v) *)
Example wr_s_drift_ex : exists s_fl s_ex,
  crun (@wrolling_core R (FlOps2 Rplus Rminus Rmult Rdiv)) [1; 2; -3] = Ok s_fl /\
  crun (@wrolling_core R ROps) [1; 2; -3] = Ok s_ex /\
  wr_s s_ex = @spec_rdev R ROps [1; 2; -3] /\
  Rabs (wr_s s_fl - wr_s s_ex)
  <= (4 * INR 3 + 90) * INR 3 * (0 * (4 * 4)) + (5 * INR 3 * 4 + 2) * INR 3 * 0.
Proof.
  assert (H00 : Rabs 0 <= 0) by (rewrite Rabs_R0; lra).
  assert (Ha : forall a b : R, True -> True -> True /\ exists d, Rabs d <= 0 /\ a + b = (a + b) * (1 + d)).
  { intros a b _ _. split; [exact I|]. exists 0. split; [exact H00 | ring]. }
  assert (Hs : forall a b : R, True -> True -> True /\ exists d, Rabs d <= 0 /\ a - b = (a - b) * (1 + d)).
  { intros a b _ _. split; [exact I|]. exists 0. split; [exact H00 | ring]. }
  assert (Hm : forall a b : R, True -> True -> True /\ exists d e, Rabs d <= 0 /\ Rabs e <= 0 /\ a * b = a * b * (1 + d) + e).
  { intros a b _ _. split; [exact I|]. exists 0, 0. repeat split; try exact H00. ring. }
  assert (Hd : forall a b : R, True -> True -> b <> 0 ->
               True /\ exists d e, Rabs d <= 0 /\ Rabs e <= 0 /\ a / b = a / b * (1 + d) + e).
  { intros a b _ _ _. split; [exact I|]. exists 0, 0. repeat split; try exact H00. ring. }
  apply (wr_s_drift 0 0 Rplus Rminus Rmult Rdiv (fun _ => True) (Rle_refl 0) (Rle_refl 0) I Ha Hs Hm Hd 4 ltac:(lra)).
  - repeat (apply Forall_cons; [split; [exact I | apply Rabs_le'; lra]|]). apply Forall_nil.
  - intros; exact I.
  - cbn [length]. lra.
  - cbn [length]. lra.
Qed.

Print Assumptions wr_s_drift.
Print Assumptions wr_var_drift.
Print Assumptions welford_mean_drift.
Print Assumptions welford_m2_drift.
